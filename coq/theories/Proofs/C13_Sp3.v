(* Proofs/C13_Sp3.v - lemmas of property C13 (SP3 orbit files). *)
From Coq Require Import Ascii String List Bool Arith ZArith QArith Qabs Lia.
From Verif Require Import Lib.Text Lib.Decimal Lib.Fixed Lib.Dyadic Spec.C13_Sp3Format Model.C13_Sp3 Gen.C13_Sp3Fields.
Import ListNotations.
Local Open Scope string_scope.

(* ============================================================ 1. the regenerated tables *)
Definition kind_of (parser_name : string) : option hkind :=
  if String.eqb parser_name "_parse_string" then Some KString
  else if String.eqb parser_name "_parse_float" then Some KFloat else None.

Fixpoint header_of (g : list (string * (string * list fieldspec))) : option (list (string * (hkind * list fieldspec))) :=
  match g with
  | [] => Some []
  | (lab, (pn, fs)) :: r =>
      match kind_of pn, header_of r with
      | Some k, Some r' => Some ((lab, (k, fs)) :: r')
      | _, _ => None
      end
  end.

(* the parser's tables, as regenerated from the source on this run *)
Definition gen_tables : option tables :=
  match header_of gen_header with
  | Some h => Some (mkT h gen_P gen_V gen_epoch)
  | None => None
  end.

Definition all_tables_wf (T : tables) : bool :=
  forallb (fun e => table_wf 60 (snd (snd e))) (t_header T) && table_wf spec_width (t_P T) && table_wf spec_width (t_V T).

Lemma sp3_fields_match_spec_l : gen_tables = Some spec_tables.
Proof. vm_compute. reflexivity. Qed.

Lemma sp3_fields_wf_l : exists T, gen_tables = Some T /\ all_tables_wf T = true.
Proof. exists spec_tables. split; [exact sp3_fields_match_spec_l | vm_compute; reflexivity]. Qed.

Lemma sp3_labels_spec_l :
  gen_header_label_len = 2%nat /\ gen_data_label_len = 1%nat /\
  gen_header_ends_before_star = true /\ gen_data_ends_before_star = true /\
  gen_header_has_skip_or_callback = false /\ gen_data_has_skip_or_callback = false /\
  gen_data_parsers = [("*", "_parse_date"); ("P", "_parse_position"); ("V", "_parse_velocity")].
Proof. repeat split; vm_compute; reflexivity. Qed.

(* the constants the parser multiplies with are the doubles nearest to the units of the format *)
Lemma constants_spec_l :
  dy_toQ gen_c = Some c_light /\
  dy_toQ gen_kilometer2meter = Some km_in_m /\
  is_nearest_double us_in_s gen_microsecond2second = true /\
  is_nearest_double mm_in_m gen_millimeter2meter = true /\
  is_nearest_double ps_in_s gen_picosecond2second = true.
Proof. repeat split; vm_compute; reflexivity. Qed.

(* ============================================================ 2. the position record *)
Definition pos_sem (m : Z) : fv := if (m =? 0)%Z then FNaN else FNum (dec_value m 6 * km_in_m).
Definition clk_sem (m : Z) : fv := if (m =? 999999999999)%Z then FNaN else FNum (dec_value m 6 * us_in_s * c_light).
Definition sig_sem (base unit : Q) (c : option Z) : fv :=
  match c with None => FNaN | Some n => FNum (Qpower (Qred base) n * unit) end.

Definition opt_code (c : option Z) : string := match c with None => "" | Some n => render_nat n end.
Definition code_ok (k : nat) (c : option Z) : Prop :=
  match c with None => True | Some n => (0 <= n < 10 ^ Z.of_nat k)%Z end.
Definition flag_ok (f : string) : Prop := f = "" \/ exists c, f = String c "" /\ is_space c = false.

(* the text of the fields of a position record, in table order *)
Definition P_vals (sat : string) (x y z clk : Z) (s1 s2 s3 sc : option Z) (f1 f2 f3 f4 : string) : list (string * string) :=
  [("sat", sat); ("pos_x", render_F_raw 6 x); ("pos_y", render_F_raw 6 y); ("pos_z", render_F_raw 6 z);
   ("clk_bias", render_F_raw 6 clk); ("sig_pos_x", opt_code s1); ("sig_pos_y", opt_code s2); ("sig_pos_z", opt_code s3);
   ("sig_clk_bias", opt_code sc); ("clk_event_flag", f1); ("clk_pred_flag", f2); ("maneuver_flag", f3); ("orb_pred_flag", f4)].
Definition P_bg : string := "P" ++ blank_line 79.
(* the 80-column record: every value right-justified in its columns (Fortran A3, F14.6, I2, I3, A1) *)
Definition render_P sat x y z clk s1 s2 s3 sc f1 f2 f3 f4 : string :=
  render_record_r P_bg spec_P (P_vals sat x y z clk s1 s2 s3 sc f1 f2 f3 f4).

Lemma trimmed_opt_code c : trimmed (opt_code c) = true.
Proof. destruct c; [apply trimmed_token, render_nat_token|reflexivity]. Qed.
Lemma len_opt_code k c : (1 <= k)%nat -> code_ok k c -> (len (opt_code c) <= k)%nat.
Proof. intros Hk H. destruct c; simpl; [apply len_render_nat_le; auto|lia]. Qed.
Lemma flag_trimmed f : flag_ok f -> trimmed f = true /\ (len f <= 1)%nat.
Proof.
  intros [->|[c [-> Hc]]]; [split; [reflexivity|simpl; lia]|].
  split; [|simpl; lia]. unfold trimmed, trimmed_by. simpl. rewrite Hc. reflexivity.
Qed.

Lemma P_vals_fits sat x y z clk s1 s2 s3 sc f1 f2 f3 f4 :
  trimmed sat = true -> (len sat <= 3)%nat ->
  fits_F 14 6 x -> fits_F 14 6 y -> fits_F 14 6 z -> fits_F 14 6 clk ->
  code_ok 2 s1 -> code_ok 2 s2 -> code_ok 2 s3 -> code_ok 3 sc ->
  flag_ok f1 -> flag_ok f2 -> flag_ok f3 -> flag_ok f4 ->
  fits spec_P (P_vals sat x y z clk s1 s2 s3 sc f1 f2 f3 f4).
Proof.
  intros Hs Hl Hx Hy Hz Hc H1 H2 H3 H4 F1 F2 F3 F4.
  destruct (flag_trimmed _ F1), (flag_trimmed _ F2), (flag_trimmed _ F3), (flag_trimmed _ F4).
  unfold fits, P_vals, spec_P, col.
  repeat (apply Forall2_cons; [cbn [fst snd fname fstart fstop]; split; [reflexivity|split]|]);
    try apply Forall2_nil; auto;
    try (apply trimmed_token, render_F_raw_token); try apply trimmed_opt_code;
    try (apply len_opt_code; [lia|assumption]).
Qed.

Lemma spec_P_wf : table_wf 80 spec_P = true.
Proof. vm_compute. reflexivity. Qed.
Lemma P_bg_len : (80 <= len P_bg)%nat.
Proof. vm_compute. lia. Qed.

(* text level: parse o render = id, also after trailing blanks were cut, and the record label stays in column 1 *)
Lemma position_text_roundtrip sat x y z clk s1 s2 s3 sc f1 f2 f3 f4 :
  fits spec_P (P_vals sat x y z clk s1 s2 s3 sc f1 f2 f3 f4) ->
  let line := render_P sat x y z clk s1 s2 s3 sc f1 f2 f3 f4 in
  parse_record spec_P line = P_vals sat x y z clk s1 s2 s3 sc f1 f2 f3 f4 /\
  parse_record spec_P (rstrip line) = P_vals sat x y z clk s1 s2 s3 sc f1 f2 f3 f4 /\
  slice 0 1 line = "P" /\ len line = 80%nat.
Proof.
  intros Hf line. unfold line, render_P, render_record_r.
  split; [apply (record_roundtrip_gen _ P_bg 80); auto using spec_P_wf, P_bg_len|].
  split; [apply (record_roundtrip_rstrip _ P_bg 80); auto using spec_P_wf, P_bg_len|].
  unfold render_record_gen. split.
  - rewrite (slice_render_outside P_bg 1 80); [reflexivity| | |apply P_bg_len|apply cells_of_ok; auto|lia].
    + vm_compute. reflexivity.
    + vm_compute. reflexivity.
  - rewrite (len_render_cells P_bg 1 80); [reflexivity| | |apply P_bg_len|apply cells_of_ok; auto];
    vm_compute; reflexivity.
Qed.

(* value level *)
Lemma Qeq_bool_dec_value m d n :
  Qeq_bool (dec_value m d) (Qmake n (pow10 d)) = (m =? n)%Z.
Proof.
  unfold Qeq_bool, dec_value. simpl. destruct (Z.eqb_spec m n) as [->|Hn].
  - apply Zeq_is_eq_bool. reflexivity.
  - destruct (Zeq_bool (m * Z.pos (pow10 d)) (n * Z.pos (pow10 d))) eqn:E; auto.
    apply Zeq_bool_eq in E. apply Z.mul_cancel_r in E; [congruence|lia].
Qed.
Lemma pos_value_raw x : pos_value (render_F_raw 6 x) = Some (pos_sem x).
Proof.
  unfold pos_value, parse_float. rewrite parse_float_render_F_raw. f_equal. unfold pos_sem.
  replace (Qeq_bool (dec_value x 6) bad_position) with (x =? 0)%Z; auto.
  unfold Qeq_bool, dec_value, bad_position. cbn [Qnum Qden]. rewrite Z.mul_1_r. change (0 * Z.pos (pow10 6))%Z with 0%Z.
  destruct (Z.eqb_spec x 0) as [->|Hn]; [reflexivity|].
  destruct (Zeq_bool x 0) eqn:E; auto. apply Zeq_bool_eq in E. congruence.
Qed.
Lemma clk_value_raw x : clk_value (render_F_raw 6 x) = Some (clk_sem x).
Proof.
  unfold clk_value, parse_float. rewrite parse_float_render_F_raw. f_equal. unfold clk_sem.
  rewrite <- (Qeq_bool_dec_value x 6 999999999999). reflexivity.
Qed.
Lemma sigma_value_raw base unit c : code_ok 3 c -> sigma_value all_off base unit (opt_code c) = Some (sig_sem base unit c).
Proof.
  destruct c as [n|]; [|reflexivity]. intros [Hn _]. unfold sigma_value, opt_code.
  destruct (render_nat n) eqn:E; [exfalso; revert E; apply render_nat_nonempty|]. rewrite <- E.
  unfold parse_float. rewrite parse_float_render_nat by auto.
  change (q_sigma_mul all_off) with false. cbv iota. unfold is_int. cbn [Qnum Qden].
  rewrite Z.mod_1_r, Z.div_1_r. reflexivity.
Qed.
Definition code_sem (c : option Z) : Z := match c with None => 0%Z | Some n => n end.
Lemma code_of_raw c : code_ok 3 c -> code_of (opt_code c) = code_sem c.
Proof.
  destruct c as [n|]; [|reflexivity]. intros [Hn _]. unfold code_of, opt_code.
  destruct (render_nat n) eqn:E; [exfalso; revert E; apply render_nat_nonempty|]. rewrite <- E.
  unfold parse_float. rewrite parse_float_render_nat by auto. cbn [Qnum Qden code_sem]. apply Z.div_1_r.
Qed.
Lemma code_ok_weaken c : code_ok 2 c -> code_ok 3 c.
Proof. destruct c; simpl; auto. intros [? ?]. split; auto. lia. Qed.

Lemma position_value_roundtrip m time v bp bc sat0 satr x y z clk s1 s2 s3 sc f1 f2 f3 f4 :
  meta_get "version" m = Some (MStr v) -> v <> "a" ->
  meta_num "base_posvel" m = Some bp -> meta_num "base_clkrate" m = Some bc ->
  code_ok 2 s1 -> code_ok 2 s2 -> code_ok 2 s3 -> code_ok 3 sc ->
  position_record all_off m time (P_vals (String sat0 satr) x y z clk s1 s2 s3 sc f1 f2 f3 f4) =
  Some (mkR time (String sat0 satr) [pos_sem x; pos_sem y; pos_sem z] (clk_sem clk)
            [sig_sem bp mm_in_m s1; sig_sem bp mm_in_m s2; sig_sem bp mm_in_m s3]
            (sig_sem bc (ps_in_s * c_light) sc) (String sat0 "") [code_sem s1; code_sem s2; code_sem s3; code_sem sc]).
Proof.
  intros Hv Hva Hbp Hbc H1 H2 H3 H4. unfold position_record. rewrite Hv, Hbp, Hbc.
  assert (Ev : match v with "a" => "G" ++ zfill 2 (lookup "sat" (P_vals (String sat0 satr) x y z clk s1 s2 s3 sc f1 f2 f3 f4))
                          | _ => lookup "sat" (P_vals (String sat0 satr) x y z clk s1 s2 s3 sc f1 f2 f3 f4) end = String sat0 satr).
  { destruct v as [|c r]; [reflexivity|].
    destruct c as [[] [] [] [] [] [] [] []]; try reflexivity.
    destruct r; [congruence|reflexivity]. }
  rewrite Ev.
  change (lookup "pos_x" (P_vals (String sat0 satr) x y z clk s1 s2 s3 sc f1 f2 f3 f4)) with (render_F_raw 6 x).
  change (lookup "pos_y" (P_vals (String sat0 satr) x y z clk s1 s2 s3 sc f1 f2 f3 f4)) with (render_F_raw 6 y).
  change (lookup "pos_z" (P_vals (String sat0 satr) x y z clk s1 s2 s3 sc f1 f2 f3 f4)) with (render_F_raw 6 z).
  change (lookup "clk_bias" (P_vals (String sat0 satr) x y z clk s1 s2 s3 sc f1 f2 f3 f4)) with (render_F_raw 6 clk).
  change (lookup "sig_pos_x" (P_vals (String sat0 satr) x y z clk s1 s2 s3 sc f1 f2 f3 f4)) with (opt_code s1).
  change (lookup "sig_pos_y" (P_vals (String sat0 satr) x y z clk s1 s2 s3 sc f1 f2 f3 f4)) with (opt_code s2).
  change (lookup "sig_pos_z" (P_vals (String sat0 satr) x y z clk s1 s2 s3 sc f1 f2 f3 f4)) with (opt_code s3).
  change (lookup "sig_clk_bias" (P_vals (String sat0 satr) x y z clk s1 s2 s3 sc f1 f2 f3 f4)) with (opt_code sc).
  rewrite !pos_value_raw, clk_value_raw.
  rewrite !sigma_value_raw by auto using code_ok_weaken.
  rewrite !code_of_raw by auto using code_ok_weaken.
  reflexivity.
Qed.

(* ============================================================ 3. units, sentinels, accuracy codes *)
From Coq Require Import Qpower.

Lemma pos_value_render w x : pos_value (render_F w 6 x) = Some (pos_sem x).
Proof.
  rewrite <- pos_value_raw. unfold pos_value, parse_float. rewrite parse_render_F_with, parse_float_render_F_raw. reflexivity.
Qed.
Lemma clk_value_render w x : clk_value (render_F w 6 x) = Some (clk_sem x).
Proof.
  rewrite <- clk_value_raw. unfold clk_value, parse_float. rewrite parse_render_F_with, parse_float_render_F_raw. reflexivity.
Qed.

(* kilometres -> metres, microseconds -> metres of light travel; x is the number of the file in units of 1e-6 *)
Lemma units_spec_l w x :
  (x <> 0%Z -> exists q, pos_value (render_F w 6 x) = Some (FNum q) /\ q == inject_Z x / 1000) /\
  (x <> 999999999999%Z -> exists q, clk_value (render_F w 6 x) = Some (FNum q) /\
                                    q == inject_Z x * 299792458 / 1000000000000).
Proof.
  split; intros Hx.
  - exists (dec_value x 6 * km_in_m)%Q. split.
    + rewrite pos_value_render. unfold pos_sem. destruct (Z.eqb_spec x 0); [contradiction|reflexivity].
    + unfold dec_value, km_in_m. change (pow10 6) with 1000000%positive.
      unfold Qeq, Qdiv, Qmult, Qinv, inject_Z. simpl. lia.
  - exists (dec_value x 6 * us_in_s * c_light)%Q. split.
    + rewrite clk_value_render. unfold clk_sem. destruct (Z.eqb_spec x 999999999999); [contradiction|reflexivity].
    + unfold dec_value, us_in_s, c_light. change (pow10 6) with 1000000%positive.
      unfold Qeq, Qdiv, Qmult, Qinv, inject_Z. simpl. lia.
Qed.

Lemma sentinels_spec_l w :
  pos_value (render_F w 6 0) = Some FNaN /\
  clk_value (render_F w 6 999999999999) = Some FNaN /\
  (forall Qk b u, sigma_value Qk b u "" = Some FNaN) /\
  (forall x, pos_value (render_F w 6 x) = Some FNaN <-> x = 0%Z) /\
  (forall x, clk_value (render_F w 6 x) = Some FNaN <-> x = 999999999999%Z).
Proof.
  split; [rewrite pos_value_render; reflexivity|].
  split; [rewrite clk_value_render; reflexivity|].
  split; [reflexivity|]. split; intros x.
  - rewrite pos_value_render. unfold pos_sem. destruct (Z.eqb_spec x 0); split; intros; try discriminate; auto; contradiction.
  - rewrite clk_value_render. unfold clk_sem. destruct (Z.eqb_spec x 999999999999); split; intros; try discriminate; auto; contradiction.
Qed.

(* accuracy: base^code (mm resp. ps), as the format defines it *)
Lemma sigma_spec_l base unit n :
  (0 <= n < 1000)%Z ->
  exists q, sigma_value all_off base unit (render_nat n) = Some (FNum q) /\ q == Qpower base n * unit.
Proof.
  intros Hn. exists (Qpower (Qred base) n * unit)%Q. split.
  - apply (sigma_value_raw base unit (Some n)). simpl. lia.
  - rewrite (Qred_correct base). reflexivity.
Qed.

(* the two quirks of the implementation are not the specification *)
Lemma c13_sigma_multiplied_refuted_l :
  exists q q', sigma_value all_off (5 # 4) mm_in_m "7" = Some (FNum q) /\
               sigma_value (mkQ true false) (5 # 4) mm_in_m "7" = Some (FNum q') /\ ~ q == q'.
Proof.
  eexists. eexists. split; [vm_compute; reflexivity|]. split; [vm_compute; reflexivity|].
  intros H. vm_compute in H. discriminate.
Qed.

(* ============================================================ 4. lines of the data section *)
Lemma ignored_lines_spec_l T Qk st c r :
  c <> "*"%char -> c <> "P"%char -> data_step T Qk st (String c r) = Some st.
Proof.
  intros H1 H2. unfold data_step.
  destruct (Ascii.eqb_spec c "*"); [contradiction|]. destruct (Ascii.eqb_spec c "P"); [contradiction|]. reflexivity.
Qed.
Lemma header_ignored_spec_l T st line :
  assoc (slice 0 2 line) (t_header T) = None -> header_step T st line = Some st.
Proof. intros H. unfold header_step. rewrite H. reflexivity. Qed.

(* epoch header record: any blank separators *)
Definition sep_ok (s : string) : Prop := all_space s = true /\ s <> "".
Definition epoch_line (s1 s2 s3 s4 s5 s6 : string) (y mo d h mi n7 : Z) : string :=
  "*" ++ s1 ++ render_nat y ++ s2 ++ render_nat mo ++ s3 ++ render_nat d ++ s4 ++ render_nat h ++ s5 ++
  render_nat mi ++ s6 ++ render_F_raw 8 (n7 * 10).
(* "{year}-{month:02d}-{day:02d}T{hour:02d}:{minute:02d}:{second:010.7f}" *)
Definition time_string (y mo d h mi n7 : Z) : string :=
  render_nat y ++ "-" ++ digits_fixed 2 mo ++ "-" ++ digits_fixed 2 d ++ "T" ++ digits_fixed 2 h ++ ":" ++
  digits_fixed 2 mi ++ ":" ++ digits_fixed 2 (n7 / 10000000) ++ "." ++ digits_fixed 7 n7.
Definition set_time (st : state) (t : string) : state :=
  mkS (st_hdr st) (Some t) (st_lnum st) (st_meta st) (st_recs st).

Lemma star_token : is_token "*" = true.
Proof. reflexivity. Qed.

Lemma split_ws_token t : is_token t = true -> split_ws t = [t].
Proof. intros H. generalize (split_ws_last t "" H eq_refl). rewrite Text.app_nil_r. auto. Qed.

Lemma epoch_tokens s1 s2 s3 s4 s5 s6 y mo d h mi n7 :
  sep_ok s1 -> sep_ok s2 -> sep_ok s3 -> sep_ok s4 -> sep_ok s5 -> sep_ok s6 ->
  parse_tokens spec_epoch_names (epoch_line s1 s2 s3 s4 s5 s6 y mo d h mi n7) =
  [("year", render_nat y); ("month", render_nat mo); ("day", render_nat d); ("hour", render_nat h);
   ("minute", render_nat mi); ("second", render_F_raw 8 (n7 * 10))].
Proof.
  intros [A1 N1] [A2 N2] [A3 N3] [A4 N4] [A5 N5] [A6 N6].
  unfold parse_tokens, re_split_ws, epoch_line. rewrite split_ws_strip.
  rewrite (split_ws_tok "*") by auto using star_token.
  rewrite !split_ws_tok by auto using render_nat_token.
  rewrite split_ws_token by (auto using render_F_raw_token).
  unfold spec_epoch_names. cbn [zip_names].
  rewrite !strip_trimmed by (apply trimmed_token; auto using render_nat_token, render_F_raw_token).
  reflexivity.
Qed.

Lemma sec_string_spec n7 :
  (0 <= n7 < 1000000000)%Z ->
  sec_string (dec_value (n7 * 10) 8) = Some (digits_fixed 2 (n7 / 10000000) ++ "." ++ digits_fixed 7 n7).
Proof.
  intros H. unfold sec_string, dec_value. cbn [Qnum Qden]. change (Z.pos (pow10 8)) with 100000000%Z.
  replace (n7 * 10 * 100000000)%Z with (n7 * 10 * 100000000)%Z by reflexivity.
  rewrite Z.mod_mul by lia. rewrite Z.div_mul by lia.
  replace ((n7 * 10) mod 10)%Z with 0%Z by (rewrite Z.mod_mul; lia).
  rewrite Z.div_mul by lia.
  destruct (Z.ltb_spec (n7 * 10) 0); [lia|]. simpl negb. simpl orb. cbv iota.
  change (0 =? 5)%Z with false. change (0 <? 5)%Z with true. cbv iota.
  destruct (Z.ltb_spec n7 1000000000); [reflexivity|lia].
Qed.

Lemma epoch_spec_l T st s1 s2 s3 s4 s5 s6 y mo d h mi n7 :
  t_epoch T = spec_epoch_names ->
  sep_ok s1 -> sep_ok s2 -> sep_ok s3 -> sep_ok s4 -> sep_ok s5 -> sep_ok s6 ->
  (0 <= y)%Z -> (0 <= mo < 100)%Z -> (0 <= d < 100)%Z -> (0 <= h < 100)%Z -> (0 <= mi < 100)%Z ->
  (0 <= n7 < 1000000000)%Z ->
  date_step T st (epoch_line s1 s2 s3 s4 s5 s6 y mo d h mi n7) = Some (set_time st (time_string y mo d h mi n7)).
Proof.
  intros HT S1 S2 S3 S4 S5 S6 Hy Hmo Hd Hh Hmi Hn.
  unfold date_step. rewrite HT, epoch_tokens by auto.
  change (lookup_opt "year" _) with (Some (render_nat y)).
  change (lookup_opt "month" _) with (Some (render_nat mo)).
  change (lookup_opt "day" _) with (Some (render_nat d)).
  change (lookup_opt "hour" _) with (Some (render_nat h)).
  change (lookup_opt "minute" _) with (Some (render_nat mi)).
  change (lookup_opt "second" _) with (Some (render_F_raw 8 (n7 * 10))).
  cbv iota beta.
  rewrite !parse_int_render_nat by lia. unfold parse_float. rewrite parse_float_render_F_raw.
  cbv iota beta. unfold two.
  destruct (Z.ltb_spec mo 0); [lia|]. destruct (Z.ltb_spec d 0); [lia|]. destruct (Z.ltb_spec h 0); [lia|].
  destruct (Z.ltb_spec mi 0); [lia|].
  destruct (Z.ltb_spec mo 100); [|lia]. destruct (Z.ltb_spec d 100); [|lia]. destruct (Z.ltb_spec h 100); [|lia].
  destruct (Z.ltb_spec mi 100); [|lia].
  rewrite sec_string_spec by auto. cbv iota beta.
  destruct (Z.ltb_spec y 0); [lia|]. rewrite Z.abs_eq by lia.
  unfold set_time, time_string. simpl append. reflexivity.
Qed.

(* ============================================================ 5. epoch blocks and whole files *)
Inductive bline :=
| LP (sat0 : ascii) (satr : string) (x y z clk : Z) (s1 s2 s3 sc : option Z) (f1 f2 f3 f4 : string) (cut : bool)
      (* position record; cut = the trailing blanks of the 80-column record are removed *)
| LOther (c : ascii) (r : string).     (* any other record: V.., EP.., EV.., EOF *)

Definition bline_ok (l : bline) : Prop :=
  match l with
  | LP sat0 satr x y z clk s1 s2 s3 sc f1 f2 f3 f4 _ =>
      trimmed (String sat0 satr) = true /\ (len (String sat0 satr) <= 3)%nat /\
      fits_F 14 6 x /\ fits_F 14 6 y /\ fits_F 14 6 z /\ fits_F 14 6 clk /\
      code_ok 2 s1 /\ code_ok 2 s2 /\ code_ok 2 s3 /\ code_ok 3 sc /\
      flag_ok f1 /\ flag_ok f2 /\ flag_ok f3 /\ flag_ok f4
  | LOther c r => c <> "*"%char /\ c <> "P"%char /\ is_space c = false
  end.
Definition render_bline (l : bline) : string :=
  match l with
  | LP sat0 satr x y z clk s1 s2 s3 sc f1 f2 f3 f4 cut =>
      let L := render_P (String sat0 satr) x y z clk s1 s2 s3 sc f1 f2 f3 f4 in if cut then rstrip L else L
  | LOther c r => String c r
  end.
Definition recs_of_bline (bp bc : Q) (t : string) (l : bline) : list rec :=
  match l with
  | LP sat0 satr x y z clk s1 s2 s3 sc _ _ _ _ _ =>
      [mkR t (String sat0 satr) [pos_sem x; pos_sem y; pos_sem z] (clk_sem clk)
           [sig_sem bp mm_in_m s1; sig_sem bp mm_in_m s2; sig_sem bp mm_in_m s3]
           (sig_sem bc (ps_in_s * c_light) sc) (String sat0 "") [code_sem s1; code_sem s2; code_sem s3; code_sem sc]]
  | LOther _ _ => []
  end.

Record eblock := mkB {
  b_seps : list string; b_y : Z; b_mo : Z; b_d : Z; b_h : Z; b_mi : Z; b_n7 : Z; b_lines : list bline }.
Definition b_time (b : eblock) : string := time_string (b_y b) (b_mo b) (b_d b) (b_h b) (b_mi b) (b_n7 b).
Definition sepn (b : eblock) (i : nat) : string := nth i (b_seps b) " ".
Definition render_block (b : eblock) : list string :=
  epoch_line (sepn b 0) (sepn b 1) (sepn b 2) (sepn b 3) (sepn b 4) (sepn b 5) (b_y b) (b_mo b) (b_d b) (b_h b) (b_mi b) (b_n7 b)
  :: map render_bline (b_lines b).
Definition block_ok (b : eblock) : Prop :=
  (forall i, sep_ok (sepn b i)) /\
  (0 <= b_y b)%Z /\ (0 <= b_mo b < 100)%Z /\ (0 <= b_d b < 100)%Z /\ (0 <= b_h b < 100)%Z /\ (0 <= b_mi b < 100)%Z /\
  (0 <= b_n7 b < 1000000000)%Z /\ Forall bline_ok (b_lines b).
Definition recs_of_block (bp bc : Q) (b : eblock) : list rec :=
  flat_map (recs_of_bline bp bc (b_time b)) (b_lines b).

Definition meta_good (m : meta) (bp bc : Q) : Prop :=
  (exists v, meta_get "version" m = Some (MStr v) /\ v <> "a") /\
  meta_num "base_posvel" m = Some bp /\ meta_num "base_clkrate" m = Some bc.

Lemma rstrip_head c r : is_space c = false -> exists r', rstrip (String c r) = String c r'.
Proof.
  intros H. unfold rstrip. cbn [rstrip_by]. destruct (rstrip_by is_space r) as [|d r'].
  - rewrite H. eauto.
  - eauto.
Qed.
Lemma existsb_time_false t recs :
  (forall r, In r recs -> r_time r <> t) -> existsb (fun r => String.eqb (r_time r) t) recs = false.
Proof.
  induction recs as [|r rs IH]; intros H; auto. simpl.
  destruct (String.eqb_spec (r_time r) t) as [E|E]; [exfalso; apply (H r); simpl; auto|].
  apply IH. intros r' Hr'. apply H. simpl; auto.
Qed.
Lemma startswith_star_cons c r : startswith "*" (String c r) = Ascii.eqb "*" c.
Proof. simpl. apply andb_true_r. Qed.

Definition bump (st : state) (new : list rec) : state :=
  mkS (st_hdr st) (st_time st) (S (st_lnum st)) (st_meta st) (new ++ st_recs st).

(* "Identical epoch ... given in the SP3 files": a position record directly after the epoch header is dropped when
   records with the same epoch string exist already *)
Definition drops (old : list rec) (t : string) (l : bline) : bool :=
  match l with
  | LP _ _ _ _ _ _ _ _ _ _ _ _ _ _ _ => existsb (fun r => String.eqb (r_time r) t) old
  | LOther _ _ => false
  end.

Lemma step_bline_gen st m bp bc t l :
  st_hdr st = false -> st_time st = Some t -> st_meta st = m -> meta_good m bp bc -> bline_ok l ->
  startswith "*" (render_bline l) = false /\
  step spec_tables all_off st (rstrip (render_bline l)) =
  Some (bump st (if (st_lnum st =? 1)%nat && drops (st_recs st) t l then [] else recs_of_bline bp bc t l)).
Proof.
  intros Hh Ht Hm [[v [Hv Hva]] [Hbp Hbc]] Hok. destruct l as [sat0 satr x y z clk s1 s2 s3 sc f1 f2 f3 f4 cut|c r].
  - destruct Hok as [K1 [K2 [K3 [K4 [K5 [K6 [K7 [K8 [K9 [K10 [K11 [K12 [K13 K14]]]]]]]]]]]]].
    assert (Hf := P_vals_fits _ _ _ _ _ _ _ _ _ _ _ _ _ K1 K2 K3 K4 K5 K6 K7 K8 K9 K10 K11 K12 K13 K14).
    destruct (position_text_roundtrip _ _ _ _ _ _ _ _ _ _ _ _ _ Hf) as [_ [R2 [R3 _]]].
    set (L := render_P (String sat0 satr) x y z clk s1 s2 s3 sc f1 f2 f3 f4) in *.
    assert (HL : exists r, L = String "P" r).
    { destruct L as [|c0 r0]; [discriminate R3|]. exists r0. unfold slice in R3. simpl in R3.
      destruct r0; simpl in R3; inversion R3; reflexivity. }
    destruct HL as [r0 HL]. destruct (rstrip_head "P" r0 eq_refl) as [r1 Hr1].
    assert (Hrs : rstrip (render_bline (LP sat0 satr x y z clk s1 s2 s3 sc f1 f2 f3 f4 cut)) = String "P" r1).
    { cbn [render_bline]. fold L. destruct cut; [rewrite rstrip_idem|]; rewrite HL; exact Hr1. }
    split.
    + cbn [render_bline]. fold L. destruct cut; [rewrite HL, Hr1|rewrite HL]; reflexivity.
    + rewrite Hrs. unfold step. rewrite Hh. unfold data_step.
      change (Ascii.eqb "P" "*") with false. change (Ascii.eqb "P" "P") with true. cbv iota.
      unfold position_step. cbn [st_time st_lnum st_recs st_meta st_hdr]. rewrite Ht.
      cbn [drops].
      replace (S (st_lnum st) =? 2)%nat with (st_lnum st =? 1)%nat by (destruct (st_lnum st) as [|[|k]]; reflexivity).
      destruct (st_lnum st =? 1)%nat; cbn [andb];
        [destruct (existsb (fun r => String.eqb (r_time r) t) (st_recs st)) eqn:Hex|].
      * unfold bump. cbn [app]. rewrite Hh, Ht. reflexivity.
      * rewrite Hm, Hv. rewrite <- Hr1, <- HL.
        change (t_P spec_tables) with spec_P. rewrite R2.
        rewrite (position_value_roundtrip m t v bp bc) by auto.
        unfold bump. cbn [recs_of_bline app]. rewrite Hm, Hh, Ht. reflexivity.
      * rewrite Hm, Hv. rewrite <- Hr1, <- HL.
        change (t_P spec_tables) with spec_P. rewrite R2.
        rewrite (position_value_roundtrip m t v bp bc) by auto.
        unfold bump. cbn [recs_of_bline app]. rewrite Hm, Hh, Ht. reflexivity.
  - destruct Hok as [H1 [H2 H3]]. destruct (rstrip_head c r H3) as [r' Hr'].
    split.
    + cbn [render_bline]. rewrite startswith_star_cons. destruct (Ascii.eqb_spec "*" c); [congruence|reflexivity].
    + cbn [render_bline]. rewrite Hr'. unfold step. rewrite Hh.
      rewrite ignored_lines_spec_l by auto. cbn [drops]. rewrite andb_false_r. unfold bump. cbn [recs_of_bline app].
      cbn [st_hdr st_time st_lnum st_meta st_recs]. rewrite ?Hh. reflexivity.
Qed.

Lemma step_bline st m bp bc t l :
  st_hdr st = false -> st_time st = Some t -> st_meta st = m -> meta_good m bp bc -> bline_ok l ->
  (st_lnum st = 1%nat -> forall r, In r (st_recs st) -> r_time r <> t) ->
  startswith "*" (render_bline l) = false /\
  step spec_tables all_off st (rstrip (render_bline l)) = Some (bump st (recs_of_bline bp bc t l)).
Proof.
  intros Hh Ht Hm Hg Hok Hdup. destruct (step_bline_gen st m bp bc t l Hh Ht Hm Hg Hok) as [H1 H2].
  split; auto. rewrite H2.
  destruct (Nat.eqb_spec (st_lnum st) 1) as [E|E]; cbn [andb]; auto.
  replace (drops (st_recs st) t l) with false; auto.
  destruct l; auto. cbn [drops]. symmetry. apply existsb_time_false. auto.
Qed.

Lemma run_blines m bp bc t : forall ls st,
  st_hdr st = false -> st_time st = Some t -> st_meta st = m -> meta_good m bp bc -> Forall bline_ok ls ->
  (st_lnum st = 1%nat -> forall r, In r (st_recs st) -> r_time r <> t) -> (1 <= st_lnum st)%nat ->
  exists st', run spec_tables all_off st false (map render_bline ls) = Some st' /\
              st_hdr st' = false /\ st_meta st' = m /\ (1 <= st_lnum st')%nat /\
              st_recs st' = (rev (flat_map (recs_of_bline bp bc t) ls) ++ st_recs st)%list.
Proof.
  induction ls as [|l ls IH]; intros st Hh Ht Hm Hg Hok Hdup Hl.
  - exists st. simpl. auto.
  - inversion Hok as [|? ? Hl1 Hls]; subst.
    destruct (step_bline st (st_meta st) bp bc t l Hh Ht eq_refl Hg Hl1 Hdup) as [Hs Hstep].
    cbn [map run]. rewrite Hs. cbn [negb andb]. rewrite Hstep.
    destruct (IH (bump st (recs_of_bline bp bc t l))) as [st' [Hr [Hh' [Hm' [Hl' Hrecs]]]]]; auto.
    + cbn [bump st_lnum]. intros E. lia.
    + cbn [bump st_lnum]. lia.
    + exists st'. repeat split; auto. rewrite Hrecs. cbn [bump st_recs flat_map].
      rewrite rev_app_distr, <- List.app_assoc. f_equal. f_equal. destruct l; reflexivity.
Qed.

Lemma run_block m bp bc b st :
  st_meta st = m -> meta_good m bp bc -> block_ok b -> (forall r, In r (st_recs st) -> r_time r <> b_time b) ->
  exists st', run spec_tables all_off st false (render_block b) = Some st' /\
              st_hdr st' = false /\ st_meta st' = m /\
              st_recs st' = (rev (recs_of_block bp bc b) ++ st_recs st)%list.
Proof.
  intros Hm Hg [Hsep [Hy [Hmo [Hd [Hh [Hmi [Hn Hls]]]]]]] Hdup.
  unfold render_block. cbn [run]. unfold epoch_line at 1. cbn [negb andb append startswith]. 
  change (Ascii.eqb "*" "*") with true. cbn [andb].
  set (E := epoch_line _ _ _ _ _ _ _ _ _ _ _ _).
  assert (HE : rstrip E = E).
  { apply rstrip_by_rtrimmed. unfold E, epoch_line.
    repeat (rewrite <- Text.app_assoc).
    apply rtrimmed_app.
    - intros X. pose proof (render_F_raw_token 8 (b_n7 b * 10)) as T. rewrite X in T. discriminate.
    - pose proof (trimmed_token _ (render_F_raw_token 8 (b_n7 b * 10))) as T.
      apply andb_true_iff in T. apply T. }
  rewrite HE. unfold step. cbn [boundary st_hdr st_time st_lnum st_meta st_recs]. unfold data_step, E.
  unfold epoch_line at 1. cbn [append]. change (Ascii.eqb "*" "*") with true. cbv iota.
  fold (epoch_line (sepn b 0) (sepn b 1) (sepn b 2) (sepn b 3) (sepn b 4) (sepn b 5) (b_y b) (b_mo b) (b_d b) (b_h b) (b_mi b) (b_n7 b)).
  rewrite epoch_spec_l by auto.
  destruct (run_blines m bp bc (b_time b) (b_lines b)
              (set_time (mkS false None 1 (st_meta st) (st_recs st)) (b_time b))) as [st' [Hr [Hh' [Hm' [_ Hrecs]]]]]; auto.
  exists st'. repeat split; auto.
Qed.

Lemma run_blocks m bp bc : forall bs st,
  st_meta st = m -> meta_good m bp bc -> Forall block_ok bs -> NoDup (map b_time bs) ->
  (forall b r, In b bs -> In r (st_recs st) -> r_time r <> b_time b) ->
  exists st', run spec_tables all_off st false (flat_map render_block bs) = Some st' /\
              (bs <> [] -> st_hdr st' = false) /\ (bs = [] -> st' = st) /\ st_meta st' = m /\
              st_recs st' = (rev (flat_map (recs_of_block bp bc) bs) ++ st_recs st)%list.
Proof.
  induction bs as [|b bs IH]; intros st Hm Hg Hok Hnd Hdup.
  - exists st. simpl. repeat split; auto. congruence.
  - inversion Hok as [|? ? Hb Hbs]; subst. inversion Hnd as [|? ? Hnin Hnd']; subst.
    destruct (run_block (st_meta st) bp bc b st eq_refl Hg Hb) as [st1 [Hr1 [Hh1 [Hm1 Hrec1]]]].
    { intros r Hr. apply (Hdup b r); simpl; auto. }
    destruct (IH st1 Hm1 Hg Hbs Hnd') as [st2 [Hr2 [Hh2 [He2 [Hm2 Hrec2]]]]].
    { intros b' r Hb' Hr. rewrite Hrec1 in Hr. apply in_app_or in Hr as [Hr|Hr].
      - apply in_rev in Hr. unfold recs_of_block in Hr. apply in_flat_map in Hr as [l [_ Hl]].
        destruct l; simpl in Hl; [|contradiction]. destruct Hl as [<-|[]]. cbn [r_time].
        intros E. apply Hnin. rewrite E. apply in_map. exact Hb'.
      - apply (Hdup b' r); simpl; auto. }
    exists st2. cbn [flat_map].
    assert (Happ : forall a c s, run spec_tables all_off s false (a ++ c)%list =
                   match run spec_tables all_off s false a with Some s' => run spec_tables all_off s' false c | None => None end).
    { induction a as [|l a IHa]; intros c s; auto. cbn [app run].
      destruct (step spec_tables all_off _ (rstrip l)); auto. }
    rewrite Happ, Hr1, Hr2. split; auto. split.
    + intros _. destruct bs; [rewrite (He2 eq_refl); auto|apply Hh2; discriminate].
    + split; [discriminate|]. split; auto. rewrite Hrec2, Hrec1. rewrite rev_app_distr, <- List.app_assoc. reflexivity.
Qed.

(* non-position lines in the data group (EOF, ...) change nothing *)
Lemma run_trailer : forall ls st, st_hdr st = false -> Forall bline_ok ls -> (forall l, In l ls -> exists c r, l = LOther c r) ->
  exists st', run spec_tables all_off st false (map render_bline ls) = Some st' /\
              st_meta st' = st_meta st /\ st_recs st' = st_recs st.
Proof.
  induction ls as [|l ls IHl]; intros st Hh Hk Ho; [exists st; auto|].
    inversion Hk as [|? ? Hk1 Hk2]; subst. destruct (Ho l (or_introl eq_refl)) as [c [r ->]].
    destruct Hk1 as [K1 [K2 K3]]. destruct (rstrip_head c r K3) as [r' Hr'].
    cbn [map run render_bline]. rewrite startswith_star_cons.
    destruct (Ascii.eqb_spec "*" c); [congruence|]. cbn [negb andb]. rewrite Hr'.
    destruct st as [hd tm ln mt rc]. cbn [st_hdr] in Hh. subst hd.
    unfold step. cbn [st_hdr st_time st_lnum st_meta st_recs]. rewrite ignored_lines_spec_l by auto.
    destruct (IHl (mkS false tm (S ln) mt rc)) as [st' [R [M' R']]]; auto.
    { intros l' Hl'. apply Ho. simpl; auto. }
    exists st'. auto. 
Qed.

(* whole file: any header that parses to the meta data m (and leaves the chain in its header group), then any number
   of epoch blocks with pairwise different epochs, then any number of non-position lines (EOF) *)
Lemma sp3_file_roundtrip_l H n m bp bc bs trailer :
  H <> [] -> run spec_tables all_off init_state true H = Some (mkS true None n m []) ->
  meta_good m bp bc -> bs <> [] -> Forall block_ok bs -> NoDup (map b_time bs) ->
  Forall bline_ok trailer -> (forall l, In l trailer -> exists c r, l = LOther c r) ->
  parse_file spec_tables all_off (H ++ flat_map render_block bs ++ map render_bline trailer)%list =
  Some (m, flat_map (recs_of_block bp bc) bs).
Proof.
  intros HH Hrun Hg Hbs Hok Hnd Htr Htr2. unfold parse_file.
  assert (Happ : forall a c s f, a <> [] -> run spec_tables all_off s f (a ++ c)%list =
                 match run spec_tables all_off s f a with Some s' => run spec_tables all_off s' false c | None => None end).
  { induction a as [|l a IHa]; intros c s f Ha; [congruence|]. cbn [app run].
    destruct (step spec_tables all_off _ (rstrip l)) as [s2|]; auto.
    destruct a as [|l' a']; [reflexivity|]. apply IHa. discriminate. }
  rewrite Happ, Hrun by auto.
  destruct (run_blocks m bp bc bs (mkS true None n m []) eq_refl Hg Hok Hnd) as [st2 [Hr2 [Hh2 [_ [Hm2 Hrec2]]]]].
  { intros b r _ []. }
  assert (Hne : flat_map render_block bs <> []).
  { destruct bs as [|b bs']; [congruence|]. cbn [flat_map render_block]. discriminate. }
  rewrite Happ, Hr2 by auto.
  destruct (run_trailer trailer st2 (Hh2 Hbs) Htr Htr2) as [st3 [Hr3 [Hm3 Hrec3]]].
  rewrite Hr3. rewrite Hm3, Hm2, Hrec3, Hrec2. cbn [st_recs]. rewrite List.app_nil_r, rev_involutive. reflexivity.
Qed.

(* ------------------------------------------------------------ the same without the assumption of distinct epochs *)
Definition block_recs_gen (bp bc : Q) (old : list rec) (b : eblock) : list rec :=
  match b_lines b with
  | [] => []
  | l :: ls => ((if drops old (b_time b) l then [] else recs_of_bline bp bc (b_time b) l) ++
                flat_map (recs_of_bline bp bc (b_time b)) ls)%list
  end.
(* accumulator = the records so far, newest first (as in the parser state) *)
Fixpoint blocks_acc (bp bc : Q) (acc : list rec) (bs : list eblock) : list rec :=
  match bs with
  | [] => acc
  | b :: r => blocks_acc bp bc (rev (block_recs_gen bp bc acc b) ++ acc)%list r
  end.

Lemma run_block_gen m bp bc b st :
  st_meta st = m -> meta_good m bp bc -> block_ok b ->
  exists st', run spec_tables all_off st false (render_block b) = Some st' /\
              st_hdr st' = false /\ st_meta st' = m /\
              st_recs st' = (rev (block_recs_gen bp bc (st_recs st) b) ++ st_recs st)%list.
Proof.
  intros Hm Hg [Hsep [Hy [Hmo [Hd [Hh [Hmi [Hn Hls]]]]]]].
  unfold render_block. cbn [run]. unfold epoch_line at 1. cbn [negb andb append startswith].
  change (Ascii.eqb "*" "*") with true. cbn [andb].
  set (E := epoch_line _ _ _ _ _ _ _ _ _ _ _ _).
  assert (HE : rstrip E = E).
  { apply rstrip_by_rtrimmed. unfold E, epoch_line.
    repeat (rewrite <- Text.app_assoc).
    apply rtrimmed_app.
    - intros X. pose proof (render_F_raw_token 8 (b_n7 b * 10)) as T. rewrite X in T. discriminate.
    - pose proof (trimmed_token _ (render_F_raw_token 8 (b_n7 b * 10))) as T.
      apply andb_true_iff in T. apply T. }
  rewrite HE. unfold step. cbn [boundary st_hdr st_time st_lnum st_meta st_recs]. unfold data_step, E.
  unfold epoch_line at 1. cbn [append]. change (Ascii.eqb "*" "*") with true. cbv iota.
  fold (epoch_line (sepn b 0) (sepn b 1) (sepn b 2) (sepn b 3) (sepn b 4) (sepn b 5) (b_y b) (b_mo b) (b_d b) (b_h b) (b_mi b) (b_n7 b)).
  rewrite epoch_spec_l by auto.
  match goal with |- context [set_time ?X ?t] => remember (set_time X t) as S1 eqn:ES1 end.
  assert (F1 : st_hdr S1 = false) by (subst S1; reflexivity).
  assert (F2 : st_time S1 = Some (b_time b)) by (subst S1; reflexivity).
  assert (F3 : st_meta S1 = st_meta st) by (subst S1; reflexivity).
  assert (F4 : st_lnum S1 = 1%nat) by (subst S1; reflexivity).
  assert (F5 : st_recs S1 = st_recs st) by (subst S1; reflexivity).
  clear ES1.
  unfold block_recs_gen. destruct (b_lines b) as [|l ls] eqn:EL.
  - exists S1. cbn [map run]. rewrite F5. repeat split; auto; congruence.
  - inversion Hls as [|? ? Hl1 Hls']; subst.
    destruct (step_bline_gen S1 (st_meta st) bp bc (b_time b) l F1 F2 F3 Hg Hl1) as [Hs Hstep].
    cbn [map run]. rewrite Hs. cbn [negb andb]. rewrite Hstep.
    rewrite F4, F5. change (1 =? 1)%nat with true. cbn [andb].
    set (new := if drops (st_recs st) (b_time b) l then [] else recs_of_bline bp bc (b_time b) l).
    destruct (run_blines (st_meta st) bp bc (b_time b) ls (bump S1 new)) as [st' [Hr [Hh' [Hm' [_ Hrecs]]]]]; auto.
    + cbn [bump st_lnum]. rewrite F4. intros X. discriminate X.
    + cbn [bump st_lnum]. lia.
    + exists st'. repeat split; auto; try congruence. rewrite Hrecs. cbn [bump st_recs]. rewrite F5.
      rewrite rev_app_distr, <- List.app_assoc. f_equal. f_equal.
      unfold new. destruct (drops (st_recs st) (b_time b) l); [reflexivity|destruct l; reflexivity].
Qed.

Lemma run_blocks_gen m bp bc : forall bs st,
  st_meta st = m -> meta_good m bp bc -> Forall block_ok bs ->
  exists st', run spec_tables all_off st false (flat_map render_block bs) = Some st' /\
              (bs <> [] -> st_hdr st' = false) /\ st_meta st' = m /\
              st_recs st' = blocks_acc bp bc (st_recs st) bs.
Proof.
  induction bs as [|b bs IH]; intros st Hm Hg Hok.
  - exists st. simpl. repeat split; auto. congruence.
  - inversion Hok as [|? ? Hb Hbs]; subst.
    destruct (run_block_gen (st_meta st) bp bc b st eq_refl Hg Hb) as [st1 [Hr1 [Hh1 [Hm1 Hrec1]]]].
    destruct (IH st1 Hm1 Hg Hbs) as [st2 [Hr2 [Hh2 [Hm2 Hrec2]]]].
    exists st2. cbn [flat_map].
    assert (Happ : forall a c s, run spec_tables all_off s false (a ++ c)%list =
                   match run spec_tables all_off s false a with Some s' => run spec_tables all_off s' false c | None => None end).
    { induction a as [|l a IHa]; intros c s; auto. cbn [app run].
      destruct (step spec_tables all_off _ (rstrip l)); auto. }
    rewrite Happ, Hr1, Hr2. split; auto. split.
    + intros _. destruct bs; [simpl in Hr2; inversion Hr2; subst; auto|apply Hh2; discriminate].
    + split; auto. rewrite Hrec2, Hrec1. reflexivity.
Qed.

(* whole file, epochs may repeat: exactly the records of [blocks_acc] *)
Lemma sp3_file_roundtrip_gen_l H n m bp bc bs trailer :
  H <> [] -> run spec_tables all_off init_state true H = Some (mkS true None n m []) ->
  meta_good m bp bc -> bs <> [] -> Forall block_ok bs ->
  Forall bline_ok trailer -> (forall l, In l trailer -> exists c r, l = LOther c r) ->
  parse_file spec_tables all_off (H ++ flat_map render_block bs ++ map render_bline trailer)%list =
  Some (m, rev (blocks_acc bp bc [] bs)).
Proof.
  intros HH Hrun Hg Hbs Hok Htr Htr2. unfold parse_file.
  assert (Happ : forall a c s f, a <> [] -> run spec_tables all_off s f (a ++ c)%list =
                 match run spec_tables all_off s f a with Some s' => run spec_tables all_off s' false c | None => None end).
  { induction a as [|l a IHa]; intros c s f Ha; [congruence|]. cbn [app run].
    destruct (step spec_tables all_off _ (rstrip l)) as [s2|]; auto.
    destruct a as [|l' a']; [reflexivity|]. apply IHa. discriminate. }
  rewrite Happ, Hrun by auto.
  destruct (run_blocks_gen m bp bc bs (mkS true None n m []) eq_refl Hg Hok) as [st2 [Hr2 [Hh2 [Hm2 Hrec2]]]].
  assert (Hne : flat_map render_block bs <> []).
  { destruct bs as [|b bs']; [congruence|]. cbn [flat_map render_block]. discriminate. }
  rewrite Happ, Hr2 by auto.
  destruct (run_trailer trailer st2 (Hh2 Hbs) Htr Htr2) as [st3 [Hr3 [Hm3 Hrec3]]].
  rewrite Hr3. rewrite Hm3, Hm2, Hrec3, Hrec2. reflexivity.
Qed.

(* ============================================================ 6. as_dataset epochs *)
Lemma c13_dataset_fraction_as_ms_refuted_l :
  exists day sod sod', epoch_of_time all_off "2016-03-01T00:00:00.5000000" = Some (day, sod) /\
                       epoch_of_time (mkQ false true) "2016-03-01T00:00:00.5000000" = Some (day, sod') /\
                       sod == 1 # 2 /\ sod' == 5000.
Proof. do 3 eexists. repeat split; vm_compute; reflexivity. Qed.

Section DatasetEpoch.
  Variables y mo d h mi n7 : Z.
  Hypothesis Hy : (1000 <= y <= 9999)%Z.
  Hypothesis Hmo : (1 <= mo <= 12)%Z.
  Hypothesis Hd : (1 <= d <= 31)%Z.
  Hypothesis Hh : (0 <= h <= 23)%Z.
  Hypothesis Hmi : (0 <= mi <= 59)%Z.
  Hypothesis Hn : (0 <= n7 < 600000000)%Z.

  Let fs : list string :=
    [render_nat y; "-"; digits_fixed 2 mo; "-"; digits_fixed 2 d; "T"; digits_fixed 2 h; ":"; digits_fixed 2 mi; ":";
     digits_fixed 2 (n7 / 10000000); "."; digits_fixed 7 n7].

  Lemma time_string_cat : time_string y mo d h mi n7 = cat fs.
  Proof. unfold time_string, fs. cbn [cat]. rewrite Text.app_nil_r. reflexivity. Qed.
  Lemma len_year : len (render_nat y) = 4%nat.
  Proof. rewrite len_render_nat. apply ndigits_exact; [lia|]. simpl. lia. Qed.

  Ltac fld i :=
    rewrite <- (slice_app_fields fs i) by (unfold fs; simpl; lia);
    f_equal; unfold fs; cbn [offset]; rewrite ?len_digits_fixed, ?len_year; reflexivity.

  Lemma dataset_epoch_spec_l :
    epoch_of_time all_off (time_string y mo d h mi n7) =
    Some ((inject_Z (jdn y mo d) - (1 # 2))%Q,
          (inject_Z (h * 3600 + mi * 60 + n7 / 10000000) + inject_Z (n7 mod 10000000) / 10000000)%Q).
  Proof.
    rewrite time_string_cat. unfold epoch_of_time.
    assert (L : len (cat fs) = 27%nat).
    { rewrite len_cat. unfold fs. cbn [List.length offset]. rewrite !len_digits_fixed, len_year. reflexivity. }
    assert (S0 : slice 0 4 (cat fs) = nth 0 fs "") by (fld 0%nat).
    assert (S1 : slice 4 5 (cat fs) = nth 1 fs "") by (fld 1%nat).
    assert (S2 : slice 5 7 (cat fs) = nth 2 fs "") by (fld 2%nat).
    assert (S3 : slice 7 8 (cat fs) = nth 3 fs "") by (fld 3%nat).
    assert (S4 : slice 8 10 (cat fs) = nth 4 fs "") by (fld 4%nat).
    assert (S5 : slice 10 11 (cat fs) = nth 5 fs "") by (fld 5%nat).
    assert (S6 : slice 11 13 (cat fs) = nth 6 fs "") by (fld 6%nat).
    assert (S7 : slice 13 14 (cat fs) = nth 7 fs "") by (fld 7%nat).
    assert (S8 : slice 14 16 (cat fs) = nth 8 fs "") by (fld 8%nat).
    assert (S9 : slice 16 17 (cat fs) = nth 9 fs "") by (fld 9%nat).
    assert (S10 : slice 17 19 (cat fs) = nth 10 fs "") by (fld 10%nat).
    assert (S11 : slice 19 20 (cat fs) = nth 11 fs "") by (fld 11%nat).
    assert (S12 : slice 20 27 (cat fs) = nth 12 fs "") by (fld 12%nat).
    rewrite L, S0, S1, S2, S3, S4, S5, S6, S7, S8, S9, S10, S11, S12. unfold fs. cbn [nth].
    rewrite parse_int_render_nat by lia. rewrite !parse_int_digits_fixed by lia.
    change (10 ^ Z.of_nat 2)%Z with 100%Z. change (10 ^ Z.of_nat 7)%Z with 10000000%Z.
    assert (Hs : (0 <= n7 / 10000000 < 60)%Z).
    { split; [apply Z.div_pos; lia|apply Z.div_lt_upper_bound; lia]. }
    rewrite !Z.mod_small by lia.
    change (27 =? 27)%nat with true. change ("-" =? "-") with true. change ("T" =? "T") with true.
    change (":" =? ":") with true. change ("." =? ".") with true. cbn [andb negb]. cbv iota.
    replace ((1 <=? mo)%Z && (mo <=? 12)%Z && (1 <=? d)%Z && (d <=? 31)%Z && (h <=? 23)%Z && (mi <=? 59)%Z &&
             (n7 / 10000000 <=? 59)%Z) with true.
    - reflexivity.
    - symmetry. repeat (apply andb_true_iff; split); apply Z.leb_le; lia.
  Qed.
End DatasetEpoch.

(* ============================================================ 7. the hypotheses are satisfiable *)
Definition ex_header : list string :=
  ["#cP2016  3  1  0  0  0.50000000       2 ORBIT IGb08 HLM  IGS";
   "## 1886 172800.00000000   900.00000000 57448 0.0000000000000";
   "+    2   G01G02  0  0  0  0  0  0  0  0  0  0  0  0  0  0  0";
   "++         7  8  0  0  0  0  0  0  0  0  0  0  0  0  0  0  0";
   "%c G  cc GPS ccc cccc cccc cccc cccc ccccc ccccc ccccc ccccc";
   "%c cc cc ccc ccc cccc cccc cccc cccc ccccc ccccc ccccc ccccc";
   "%f  1.2500000  1.025000000  0.00000000000  0.000000000000000";
   "%f  0.0000000  0.000000000  0.00000000000  0.000000000000000";
   "%i    0    0    0    0      0      0      0      0         0";
   "/* comment"].
Definition ex_block : eblock :=
  mkB ["  "; " "; "  "; "  "; "  "; "  "] 2016 3 1 0 0 5000000
      [LP "G" "01" 10138887745 (-20456557725) (-13455830128) 13095853 (Some 7) (Some 6) (Some 4) (Some 137) "" "" "" "" false;
       LOther "E" "P   55   55   55     222 1234567 -1234567 5999999      -30      21 -1230000";
       LOther "V" "G01  20298.880364 -18462.044804   1381.387685     -4.534317 14 14 14 191";
       LP "G" "02" 0 0 0 999999999999 None None None None "E" "P" "M" "P" true].

Lemma ex_header_parses :
  exists n m, run spec_tables all_off init_state true ex_header = Some (mkS true None n m []) /\
              meta_good m (12500000 # 10000000) (1025000000 # 1000000000).
Proof.
  eexists. eexists. split; [vm_compute; reflexivity|].
  split; [exists "c"; split; [vm_compute; reflexivity|discriminate]|split; vm_compute; reflexivity].
Qed.
Lemma ex_block_lines :
  render_block ex_block =
  ["*  2016 3  1  0  0  0.50000000";
   "PG01  10138.887745 -20456.557725 -13455.830128     13.095853  7  6  4 137       ";
   "EP   55   55   55     222 1234567 -1234567 5999999      -30      21 -1230000";
   "VG01  20298.880364 -18462.044804   1381.387685     -4.534317 14 14 14 191";
   "PG02      0.000000      0.000000      0.000000 999999.999999              EP  MP"].
Proof. vm_compute. reflexivity. Qed.
Lemma ex_block_ok : block_ok ex_block.
Proof.
  split.
  { intros i. unfold sepn, ex_block, b_seps. do 7 (destruct i as [|i]; [split; [reflexivity|discriminate]|]).
    destruct i; split; try reflexivity; discriminate. }
  repeat (split; [cbn; lia|]).
  unfold ex_block, b_lines.
  assert (F : forall v, (Z.abs v < 10 ^ Z.of_nat (6 + 6))%Z -> fits_F 14 6 v).
  { intros v Hv. apply (fits_F_bound 14 6 v 6); auto; lia. }
  repeat match goal with
         | |- flag_ok "" => left; reflexivity
         | |- flag_ok _ => right; eexists; split; reflexivity
         | |- fits_F 14 6 _ => apply F; cbn; lia
         | |- code_ok _ _ => cbn; try lia; exact I
         | |- _ /\ _ => split
         | |- Forall _ _ => constructor
         | |- bline_ok _ => unfold bline_ok
         | |- trimmed _ = true => reflexivity
         | |- is_space _ = false => reflexivity
         | |- (len _ <= 3)%nat => cbn; lia
         | |- _ <> _ => discriminate
         end.
Qed.

(* ============================================================ 8. statements as they appear in Props/C13.v *)
Lemma position_record_roundtrip_l :
  forall m time v bp bc sat0 satr x y z clk s1 s2 s3 sc f1 f2 f3 f4,
    meta_get "version" m = Some (MStr v) -> v <> "a" ->
    meta_num "base_posvel" m = Some bp -> meta_num "base_clkrate" m = Some bc ->
    trimmed (String sat0 satr) = true -> (len (String sat0 satr) <= 3)%nat ->
    fits_F 14 6 x -> fits_F 14 6 y -> fits_F 14 6 z -> fits_F 14 6 clk ->
    code_ok 2 s1 -> code_ok 2 s2 -> code_ok 2 s3 -> code_ok 3 sc ->
    flag_ok f1 -> flag_ok f2 -> flag_ok f3 -> flag_ok f4 ->
    let line := render_P (String sat0 satr) x y z clk s1 s2 s3 sc f1 f2 f3 f4 in
    len line = 80%nat /\ slice 0 1 line = "P" /\
    parse_record spec_P line = P_vals (String sat0 satr) x y z clk s1 s2 s3 sc f1 f2 f3 f4 /\
    position_record all_off m time (parse_record spec_P line) =
    Some (mkR time (String sat0 satr) [pos_sem x; pos_sem y; pos_sem z] (clk_sem clk)
              [sig_sem bp mm_in_m s1; sig_sem bp mm_in_m s2; sig_sem bp mm_in_m s3]
              (sig_sem bc (ps_in_s * c_light) sc) (String sat0 "") [code_sem s1; code_sem s2; code_sem s3; code_sem sc]).
Proof.
  intros m time v bp bc sat0 satr x y z clk s1 s2 s3 sc f1 f2 f3 f4 Hv Hva Hbp Hbc K1 K2 K3 K4 K5 K6 K7 K8 K9 K10 K11 K12 K13 K14 line.
  destruct (position_text_roundtrip _ _ _ _ _ _ _ _ _ _ _ _ _
              (P_vals_fits _ _ _ _ _ _ _ _ _ _ _ _ _ K1 K2 K3 K4 K5 K6 K7 K8 K9 K10 K11 K12 K13 K14)) as [R1 [_ [R3 R4]]].
  fold line in R1, R3, R4. repeat split; auto. rewrite R1. exact (position_value_roundtrip m time v bp bc _ _ _ _ _ _ _ _ _ _ _ _ _ _ Hv Hva Hbp Hbc K7 K8 K9 K10).
Qed.

Lemma position_record_cut_roundtrip_l :
  forall sat x y z clk s1 s2 s3 sc f1 f2 f3 f4,
    fits spec_P (P_vals sat x y z clk s1 s2 s3 sc f1 f2 f3 f4) ->
    parse_record spec_P (rstrip (render_P sat x y z clk s1 s2 s3 sc f1 f2 f3 f4)) =
    P_vals sat x y z clk s1 s2 s3 sc f1 f2 f3 f4.
Proof. intros. apply position_text_roundtrip. assumption. Qed.

Lemma epoch_spec_full_l :
  forall st s1 s2 s3 s4 s5 s6 y mo d h mi n7,
    sep_ok s1 -> sep_ok s2 -> sep_ok s3 -> sep_ok s4 -> sep_ok s5 -> sep_ok s6 ->
    (0 <= y)%Z -> (0 <= mo < 100)%Z -> (0 <= d < 100)%Z -> (0 <= h < 100)%Z -> (0 <= mi < 100)%Z ->
    (0 <= n7 < 1000000000)%Z ->
    date_step spec_tables st (epoch_line s1 s2 s3 s4 s5 s6 y mo d h mi n7) = Some (set_time st (time_string y mo d h mi n7)).
Proof. intros. apply epoch_spec_l; auto. Qed.

(* the duplicate-epoch rule at work: the same block twice - the first position record of the repetition is dropped *)
Lemma dup_example :
  map r_sat (rev (blocks_acc (5 # 4) (41 # 40) [] [ex_block; ex_block])) = ["G01"; "G02"; "G02"] /\
  map r_sat (flat_map (recs_of_block (5 # 4) (41 # 40)) [ex_block; ex_block]) = ["G01"; "G02"; "G01"; "G02"].
Proof. split; vm_compute; reflexivity. Qed.
