(* C05 - the regenerated ellipsoid table (Gen/C05_Ellipsoids.v) against the published constants.  Kept in a file of its own so
   that nothing else (in particular the expensive accuracy certificates) depends on the regenerated table. *)
From Coq Require Import QArith List Bool String.
From Verif Require Import Model.C05_Geodetic.
(* every published ellipsoid is registered in midgard/math/ellipsoid.py with exactly the published constants *)
From Verif Require Gen.C05_Ellipsoids.
Definition registered (tbl : list (String.string * Q * option Q)) (e : String.string * Q * option Q) : bool :=
  existsb (ell_eqb e) tbl.
Lemma ellipsoid_table_published_l :
  forallb (registered Gen.C05_Ellipsoids.ellipsoids) published_ellipsoids = true.
Proof. vm_compute. reflexivity. Qed.

