(* C05 - accuracy of the one-step algorithm on a curve: one Taylor-model certificate (Coq-Interval, univariate) per file. *)
From Coq Require Import Reals.
From Interval Require Import Tactic.
From Verif Require Import Model.C05_Geodetic Proofs.C05_AccDefs.
Open Scope R_scope.

(* latitudes 156/100 .. 157/100 rad on the surface h = -100000 m, GRS80: height error <= 1e-6 m *)
Lemma acc_h_m100_polar_c phi : 156/100 <= phi <= 157/100 ->
  Rabs (merid_h grs80_a grs80_f (geo_p grs80_a grs80_f phi (-100000)) (geo_z grs80_a grs80_f phi (-100000)) - (-100000)) <= 1 / 1000000.
Proof.
  intros H. unfold_all.
  interval with (i_bisect phi, i_taylor phi, i_degree 10, i_prec 80, i_depth 14).
Qed.
