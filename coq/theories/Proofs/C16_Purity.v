(* C16 - lemmas about Model/C16_Purity.v *)
From Coq Require Import ZArith List Bool String Lia.
From Verif Require Import Model.C16_Purity.
Import ListNotations.
Open Scope Z_scope.

(* ------------------------------------------------------------------------------------------------ assoc lists *)
Section Assoc.
  Context {A : Type}.
  Lemma lookup_remove_eq : forall i (l : list (Z * A)), lookup i (remove i l) = None.
  Proof.
    induction l as [|[j x] r IH]; cbn; auto.
    destruct (i =? j) eqn:E; cbn; auto. rewrite E. exact IH.
  Qed.
  Lemma lookup_remove_neq : forall i k (l : list (Z * A)), i <> k -> lookup i (remove k l) = lookup i l.
  Proof.
    induction l as [|[j x] r IH]; cbn; auto; intros Hne.
    destruct (k =? j) eqn:E.
    - apply Z.eqb_eq in E. subst j. destruct (i =? k) eqn:E2; [apply Z.eqb_eq in E2; contradiction|]. auto.
    - cbn. destruct (i =? j); auto.
  Qed.
  Lemma lookup_update_eq : forall i x (l : list (Z * A)), lookup i (update i x l) = Some x.
  Proof. intros. unfold update. cbn. rewrite Z.eqb_refl. reflexivity. Qed.
  Lemma lookup_update_neq : forall i k x (l : list (Z * A)), i <> k -> lookup i (update k x l) = lookup i l.
  Proof.
    intros. unfold update. cbn. destruct (i =? k) eqn:E; [apply Z.eqb_eq in E; contradiction|].
    apply lookup_remove_neq; assumption.
  Qed.
End Assoc.

(* ------------------------------------------------------------------------------------------------ the world *)
Local Arguments update : simpl never.
Local Arguments remove : simpl never.
Section World.
  Variables parser file content args result token : Type.
  Variable run : parser -> content -> args -> list token -> option result -> result.
  Variable emits : parser -> content -> args -> list token -> list token.
  Variable mutate : result -> result.

  Notation world := (world parser file content args result token).
  Notation op := (@op parser file args).
  Notation step := (step parser file content args result token run emits mutate).
  Notation exec := (exec parser file content args result token run emits mutate).
  Notation trace := (trace parser file content args result token run emits mutate).
  Notation spec_trace := (spec_trace parser file content args result token run).
  Notation parse_fn := (parse_fn parser content args result token run).
  Notation bound := (bound parser file args).
  Notation binding_of := (binding_of parser file args result).
  Notation empty_world := (empty_world parser file content args result token).
  Notation self_contained := (self_contained parser content args result token run).

  Lemma fs_step : forall q (w : world) o, fs _ _ _ _ _ _ (fst (step q w o)) = fs _ _ _ _ _ _ w.
  Proof.
    intros q w o. destruct o; cbn; auto.
    - destruct (lookup i (insts _ _ _ _ _ _ w)); cbn; auto.
    - destruct (q_alias q); cbn; auto. destruct (lookup i (insts _ _ _ _ _ _ w)); cbn; auto.
  Qed.

  (* no operation list, under any combination of quirks, changes a file *)
  Lemma fs_exec : forall q ops (w : world), fs _ _ _ _ _ _ (fst (exec q w ops)) = fs _ _ _ _ _ _ w.
  Proof.
    induction ops as [|o r IH]; intros w; cbn; auto.
    pose proof (fs_step q w o) as Hs. destruct (step q w o) as [w1 t1]. cbn in Hs.
    specialize (IH w1). destruct (exec q w1 r) as [w2 t2]. cbn in *. congruence.
  Qed.

  (* ... and every observation reports the same content before and after the parse *)
  Lemma obs_step_unchanged : forall q (w : world) o x, In x (snd (step q w o)) -> o_before x = o_after x.
  Proof.
    intros q w o x. destruct o; cbn; try tauto.
    - destruct (lookup i (insts _ _ _ _ _ _ w)); cbn; [|tauto]. intros [<-|[]]. reflexivity.
    - destruct (q_alias q); cbn; try tauto. destruct (lookup i (insts _ _ _ _ _ _ w)); cbn; tauto.
  Qed.
  Lemma obs_unchanged : forall q ops (w : world) x, In x (trace q w ops) -> o_before x = o_after x.
  Proof.
    unfold C16_Purity.trace. induction ops as [|o r IH]; intros w x; cbn; [tauto|].
    pose proof (obs_step_unchanged q w o x) as Hs. destruct (step q w o) as [w1 t1]. cbn in Hs.
    specialize (IH w1 x). destruct (exec q w1 r) as [w2 t2]. cbn in *.
    intros H. apply in_app_or in H. tauto.
  Qed.

  Lemma exec_app : forall q a b (w : world),
    exec q w (a ++ b) = let (w1, t1) := exec q w a in let (w2, t2) := exec q w1 b in (w2, t1 ++ t2).
  Proof.
    induction a as [|o r IH]; intros b w; cbn.
    - destruct (exec q w b); reflexivity.
    - destruct (step q w o) as [w1 t1]. rewrite IH. destruct (exec q w1 r) as [w2 t2].
      destruct (exec q w2 b) as [w3 t3]. rewrite app_assoc. reflexivity.
  Qed.

  (* the binding of a name is a function of the Construct / Drop operations on that name - for every quirk *)
  Lemma bound_step : forall q (w : world) o i,
    option_map binding_of (lookup i (insts _ _ _ _ _ _ (fst (step q w o))))
    = bound [o] i (option_map binding_of (lookup i (insts _ _ _ _ _ _ w))).
  Proof.
    intros q w o i. destruct o as [j p f a|j|j|j]; cbn.
    - destruct (i =? j) eqn:E.
      + apply Z.eqb_eq in E. subst j. rewrite lookup_update_eq. reflexivity.
      + apply Z.eqb_neq in E. rewrite lookup_update_neq by assumption. reflexivity.
    - destruct (lookup j (insts _ _ _ _ _ _ w)) as [n|] eqn:L; cbn; auto.
      destruct (Z.eq_dec i j) as [->|Hne].
      + rewrite lookup_update_eq, L. reflexivity.
      + rewrite lookup_update_neq by assumption. reflexivity.
    - destruct (q_alias q); cbn; auto.
      destruct (lookup j (insts _ _ _ _ _ _ w)) as [n|] eqn:L; cbn; auto.
      destruct (Z.eq_dec i j) as [->|Hne].
      + rewrite lookup_update_eq, L. reflexivity.
      + rewrite lookup_update_neq by assumption. reflexivity.
    - destruct (i =? j) eqn:E.
      + apply Z.eqb_eq in E. subst j. rewrite lookup_remove_eq. reflexivity.
      + apply Z.eqb_neq in E. rewrite lookup_remove_neq by assumption. reflexivity.
  Qed.

  Lemma bound_cons : forall o r i cur, bound (o :: r) i cur = bound r i (bound [o] i cur).
  Proof. intros. destruct o; reflexivity. Qed.

  Lemma bound_exec : forall q ops (w : world) i,
    option_map binding_of (lookup i (insts _ _ _ _ _ _ (fst (exec q w ops))))
    = bound ops i (option_map binding_of (lookup i (insts _ _ _ _ _ _ w))).
  Proof.
    induction ops as [|o r IH]; intros w i; [reflexivity|].
    rewrite bound_cons, <- (bound_step q w o i). cbn.
    destruct (step q w o) as [w1 t1]. specialize (IH w1 i). destruct (exec q w1 r) as [w2 t2]. exact IH.
  Qed.

  (* THE purity statement: whatever came before - other instances, earlier parses (also of this very instance),
     caller mutations, drops - a Parse of a name bound to (p, f, a) observes parse_fn p (content of f) a, and the
     file as it was *)
  Lemma parse_pure_last : forall fs0 ops i p f a,
    bound ops i None = Some (p, f, a) ->
    trace all_off (empty_world fs0) (ops ++ [Parse i])
    = trace all_off (empty_world fs0) ops ++ [mkObs i (parse_fn p (fs0 f) a) (fs0 f) (fs0 f)].
  Proof.
    intros fs0 ops i p f a Hb. unfold C16_Purity.trace. rewrite exec_app.
    pose proof (bound_exec all_off ops (empty_world fs0) i) as HB.
    pose proof (fs_exec all_off ops (empty_world fs0)) as HF.
    destruct (exec all_off (empty_world fs0) ops) as [w1 t1]. cbn in HB, HF. rewrite Hb in HB.
    cbn. destruct (lookup i (insts _ _ _ _ _ _ w1)) as [n|]; [|discriminate].
    cbn in HB. injection HB as Hp Hf Ha. cbn. rewrite HF, Hp, Hf, Ha. reflexivity.
  Qed.

  (* the whole trace of the specification is spec_trace: a function of the bindings alone *)
  Lemma trace_spec_gen : forall ops (w : world) b,
    (forall i, option_map binding_of (lookup i (insts _ _ _ _ _ _ w)) = lookup i b) ->
    trace all_off w ops = spec_trace (fs _ _ _ _ _ _ w) ops b.
  Proof.
    unfold C16_Purity.trace.
    induction ops as [|o r IH]; intros w b Hinv; [reflexivity|].
    destruct o as [j p f a|j|j|j]; cbn.
    - specialize (IH (mkWorld _ _ _ _ _ _ (fs _ _ _ _ _ _ w) (cell _ _ _ _ _ _ w)
                              (update j (mkInst _ _ _ _ p f a None) (insts _ _ _ _ _ _ w))) (update j (p, f, a) b)).
      cbn in IH. destruct (exec _ _ _) as [w2 t2] eqn:E. cbn in *. apply IH.
      intros i. destruct (Z.eq_dec i j) as [->|Hne].
      + rewrite !lookup_update_eq. reflexivity.
      + rewrite !lookup_update_neq by assumption. apply Hinv.
    - pose proof (Hinv j) as Hj.
      destruct (lookup j (insts _ _ _ _ _ _ w)) as [n|] eqn:L; cbn in Hj.
      + rewrite <- Hj. destruct n as [p f a st]. cbn.
        match goal with |- context [exec all_off ?W r] => specialize (IH W b) end.
        cbn in IH. destruct (exec _ _ _) as [w2 t2] eqn:E. cbn in *. f_equal. apply IH.
        intros i. destruct (Z.eq_dec i j) as [->|Hne].
        * rewrite lookup_update_eq. cbn. rewrite <- Hj. reflexivity.
        * rewrite lookup_update_neq by assumption. apply Hinv.
      + rewrite <- Hj. specialize (IH w b Hinv). destruct (exec all_off w r) as [w2 t2]. cbn in *. exact IH.
    - specialize (IH w b Hinv). destruct (exec all_off w r) as [w2 t2]. cbn in *. exact IH.
    - specialize (IH (mkWorld _ _ _ _ _ _ (fs _ _ _ _ _ _ w) (cell _ _ _ _ _ _ w) (remove j (insts _ _ _ _ _ _ w)))
                     (remove j b)).
      cbn in IH. destruct (exec _ _ _) as [w2 t2] eqn:E. cbn in *. apply IH.
      intros i. destruct (Z.eq_dec i j) as [->|Hne].
      + rewrite !lookup_remove_eq. reflexivity.
      + rewrite !lookup_remove_neq by assumption. apply Hinv.
  Qed.

  Lemma trace_spec : forall fs0 ops, trace all_off (empty_world fs0) ops = spec_trace fs0 ops [].
  Proof. intros. apply (trace_spec_gen ops (empty_world fs0) []). intros i. reflexivity. Qed.

  (* two arbitrary histories that bind the name to the same (p, f, a): the same observation *)
  Lemma parse_history_independent : forall fs0 ops1 ops2 i b,
    bound ops1 i None = Some b -> bound ops2 i None = Some b ->
    last (trace all_off (empty_world fs0) (ops1 ++ [Parse i])) (mkObs i (parse_fn (fst (fst b)) (fs0 (snd (fst b))) (snd b)) (fs0 (snd (fst b))) (fs0 (snd (fst b))))
    = last (trace all_off (empty_world fs0) (ops2 ++ [Parse i])) (mkObs i (parse_fn (fst (fst b)) (fs0 (snd (fst b))) (snd b)) (fs0 (snd (fst b))) (fs0 (snd (fst b)))).
  Proof.
    intros fs0 ops1 ops2 i [[p f] a] H1 H2. cbn.
    rewrite (parse_pure_last fs0 ops1 i p f a H1), (parse_pure_last fs0 ops2 i p f a H2).
    rewrite !last_last. reflexivity.
  Qed.

  (* with the shared cell switched ON (but instances reset): a self-contained parse is still pure -
     this is why well-formed files do not show c16_parser_cache_shared *)
  Lemma cache_harmless_if_self_contained : forall al fs0 ops i p f a,
    bound ops i None = Some (p, f, a) -> self_contained p (fs0 f) a ->
    trace (mkQ true false al) (empty_world fs0) (ops ++ [Parse i])
    = trace (mkQ true false al) (empty_world fs0) ops ++ [mkObs i (parse_fn p (fs0 f) a) (fs0 f) (fs0 f)].
  Proof.
    intros al fs0 ops i p f a Hb Hsc. unfold C16_Purity.trace. rewrite exec_app.
    pose proof (bound_exec (mkQ true false al) ops (empty_world fs0) i) as HB.
    pose proof (fs_exec (mkQ true false al) ops (empty_world fs0)) as HF.
    destruct (exec (mkQ true false al) (empty_world fs0) ops) as [w1 t1]. cbn in HB, HF. rewrite Hb in HB.
    cbn. destruct (lookup i (insts _ _ _ _ _ _ w1)) as [n|]; [|discriminate].
    cbn in HB. injection HB as Hp Hf Ha. cbn. rewrite HF, Hp, Hf, Ha. rewrite Hsc. reflexivity.
  Qed.
End World.

(* ------------------------------------------------------------------------------------------------ header cache *)
Lemma last_sys_app : forall pre cache, last_sys pre <> None -> last_sys (pre ++ cache) = last_sys pre.
Proof.
  induction pre as [|[s|] r IH]; cbn; intros cache H; auto. congruence.
Qed.

Lemma hdr_lines_prefix : forall ls pre cache d,
  last_sys pre <> None -> fst (hdr_lines ls (pre ++ cache) d) = fst (hdr_lines ls pre d).
Proof.
  induction ls as [|[sys ts] r IH]; intros pre cache d H; cbn; auto.
  rewrite (last_sys_app pre cache H).
  destruct sys as [s|].
  - apply (IH (Some s :: pre) cache). cbn. discriminate.
  - destruct (last_sys pre) as [s|] eqn:E; [|congruence].
    apply (IH (None :: pre) cache). cbn. rewrite E. discriminate.
Qed.

(* a header whose first OBS TYPES line names its system never reads what other files left in the cache *)
Lemma hdr_self_contained : forall s ts rest cache,
  hdr_run ((Some s, ts) :: rest) cache = hdr_run ((Some s, ts) :: rest) [].
Proof.
  intros. unfold hdr_run. cbn.
  apply (hdr_lines_prefix rest [Some s] cache). cbn. discriminate.
Qed.

(* a header that starts with a continuation line is an IndexError in a fresh interpreter ... *)
Lemma hdr_leading_continuation_fresh : forall ts rest, hdr_run ((None, ts) :: rest) [] = HIndexError.
Proof. reflexivity. Qed.

(* ... and silently takes the system another file left behind otherwise *)
Lemma hdr_leading_continuation_leaks : forall ts s cache,
  hdr_run [(None, ts)] (Some s :: cache) = HOk [(s, ts)].
Proof. reflexivity. Qed.

(* ------------------------------------------------------------------------------------------------ witnesses *)
Definition wit_good : hfile := [(Some 71, [1; 2])].
Definition wit_bad : hfile := [(None, [3])].

Lemma cache_refuted :
  hdr_history all_off [wit_good; wit_bad] = [HOk [(71, [1; 2])]; HIndexError] /\
  hdr_history (mkQ true false false) [wit_good; wit_bad] = [HOk [(71, [1; 2])]; HOk [(71, [3])]] /\
  hdr_history (mkQ true false false) [wit_bad] = [HIndexError].
Proof. repeat split; vm_compute; reflexivity. Qed.

(* re-parse on the same instance / caller mutation reaching the instance: run adds what the instance held *)
Definition acc_run (_ : unit) (c : Z) (_ : unit) (_ : list Z) (prev : option Z) : Z :=
  c + match prev with Some r => r | None => 0 end.
Definition acc_trace (q : quirks) (ops : list (@op unit Z unit)) : list Z :=
  map o_result (trace unit Z Z unit Z Z acc_run (fun _ _ _ v => v) (fun r => r + 1000) q
                      (empty_world unit Z Z unit Z Z (fun f => f)) ops).

Lemma reparse_refuted :
  acc_trace all_off [Construct 0 tt 5 tt; Parse 0; Parse 0] = [5; 5] /\
  acc_trace (mkQ false true false) [Construct 0 tt 5 tt; Parse 0; Parse 0] = [5; 10] /\
  acc_trace all_off [Construct 0 tt 5 tt; Parse 0; Mutate 0; Parse 0] = [5; 5] /\
  acc_trace (mkQ false true true) [Construct 0 tt 5 tt; Parse 0; Mutate 0; Parse 0] = [5; 1010] /\
  (* ... but neither reaches another instance *)
  acc_trace (mkQ false true true) [Construct 0 tt 5 tt; Parse 0; Mutate 0; Construct 1 tt 5 tt; Parse 1] = [5; 5].
Proof. repeat split; vm_compute; reflexivity. Qed.

(* the check functions agree with the model on a hand-made case (non-vacuity of the verdict codes) *)
Lemma check_codes :
  check_history ([((1, 10, 0), 77)], [(5, 10)], [Construct 0 1 5 0; Parse 0; Mutate 0; Construct 1 1 5 0; Parse 1],
                 [(0, 77, 10, 10); (1, 77, 10, 10)]) = 0 /\
  check_history ([((1, 10, 0), 77)], [(5, 10)], [Construct 0 1 5 0; Parse 0; Construct 1 1 5 0; Parse 1],
                 [(0, 77, 10, 10); (1, 78, 10, 10)]) = 1 /\
  check_history ([((1, 10, 0), 77)], [(5, 10)], [Construct 0 1 5 0; Parse 0; Parse 0],
                 [(0, 77, 10, 10); (0, 78, 10, 10)]) = 3 /\
  check_history ([((1, 10, 0), 77)], [(5, 10)], [Construct 0 1 5 0; Parse 0],
                 [(0, 77, 10, 11)]) = 4 /\
  check_hdr ([wit_good; wit_bad], [HOk [(71, [1; 2])]; HOk [(71, [3])]]) = 2 /\
  check_hdr ([wit_good; wit_bad], [HOk [(71, [1; 2])]; HIndexError]) = 0.
Proof. repeat split; vm_compute; reflexivity. Qed.

(* check_history = 0 means: the observations are exactly the specification's prediction *)
Lemma zobs_eqb_eq : forall a b, zobs_eqb a b = true -> a = b.
Proof.
  intros [[[i r] f1] f2] [[[i' r'] f1'] f2']. cbn. rewrite !andb_true_iff, !Z.eqb_eq.
  intros [[[-> ->] ->] ->]. reflexivity.
Qed.

Lemma verdicts_zero : forall pred obsd flags,
  Forall (fun v => v = 0) (verdicts pred obsd flags) -> List.length flags = List.length pred -> obsd = pred.
Proof.
  induction pred as [|p pr IH]; intros obsd flags H Hl.
  - destruct obsd; [reflexivity|]. cbn in H. inversion H. discriminate.
  - destruct obsd as [|o or]; [cbn in H; inversion H; discriminate|].
    destruct flags as [|fl fr]; [discriminate|].
    cbn in H. inversion H as [|x l Hx Hr]; subst.
    destruct (zobs_eqb p o) eqn:E.
    + apply zobs_eqb_eq in E. subst o. f_equal. apply (IH or fr Hr). cbn in Hl. lia.
    + exfalso. destruct p as [[[i r] f1] f2], o as [[[i' r'] f1'] f2'].
      destruct (negb ((f1 =? f1') && (f2 =? f2'))); [discriminate|].
      destruct (negb (i =? i')); [discriminate|]. destruct fl; discriminate.
Qed.
