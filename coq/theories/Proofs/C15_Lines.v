(* C15 - what [prelex std_table] makes of the lines of a rendered antenna (Model/C15_Antex.v, last section):

     prelex_render_ant : wf_ant a = true -> map (prelex std_table) (render_ant a) = lex_ant a
     split_values      : is_token t -> forallb (numtok 7) vals -> split_ws (t ++ render_values vals) = t :: vals

   Every record kind has its own lemma (prelex_start_of_antenna, prelex_type_serial, prelex_dazi, prelex_zen,
   prelex_nfreq, prelex_valid, prelex_start_of_frequency, prelex_neu, prelex_noazi, prelex_azi_row,
   prelex_end_of_frequency, prelex_start_of_freq_rms, prelex_end_of_freq_rms, prelex_end_of_antenna);
   prelex_render_freq / prelex_render_rms for whole sections.  No axioms. *)
From Coq Require Import ZArith QArith List Bool String Ascii Arith Lia.
From Verif Require Import Lib.Dyadic Lib.Text Model.C15_Antex.
Import ListNotations.
Local Open Scope string_scope.
Local Open Scope nat_scope.

(* ====================================================================================== characters *)
(* blank or part of a number *)
Definition bn (c : ascii) : bool := is_space c || numch c.

Lemma numch_nonspace c : numch c = true -> negb (is_space c) = true.
Proof.
  destruct c as [[] [] [] [] [] [] [] []]; vm_compute; intro H; first [reflexivity | discriminate H].
Qed.

Lemma bn_not_label c : bn c = true -> is_alpha c || Ascii.eqb c "#" = false.
Proof.
  destruct c as [[] [] [] [] [] [] [] []]; vm_compute; intro H; first [reflexivity | discriminate H].
Qed.

Lemma bn_not_E c : bn c = true -> Ascii.eqb c "E" = false.
Proof.
  destruct c as [[] [] [] [] [] [] [] []]; vm_compute; intro H; first [reflexivity | discriminate H].
Qed.

Lemma all_by_impl (p q : ascii -> bool) s :
  (forall c, p c = true -> q c = true) -> all_by p s = true -> all_by q s = true.
Proof.
  intros Hpq. induction s as [|c r IH]; simpl; auto.
  intros H; apply andb_true_iff in H as [H1 H2]. rewrite (Hpq _ H1), IH; auto.
Qed.

Lemma all_by_slice p a b s : all_by p s = true -> all_by p (slice a b s) = true.
Proof. intros H. unfold slice. apply all_by_take, all_by_drop, H. Qed.

Lemma all_bn_spaces n : all_by bn (spaces n) = true.
Proof. apply all_by_rep. reflexivity. Qed.

Lemma all_bn_num s : all_by numch s = true -> all_by bn s = true.
Proof. apply all_by_impl. intros c H. unfold bn. rewrite H. apply orb_true_r. Qed.

(* ====================================================================================== tokens *)
Lemma eqb_nil_false s : 0 < len s -> String.eqb s "" = false.
Proof. destruct s; simpl; [lia|reflexivity]. Qed.

Lemma nonempty_len s : s <> "" -> 0 < len s.
Proof. destruct s; simpl; [congruence|lia]. Qed.

Lemma numtok_inv w s :
  numtok w s = true ->
  s <> "" /\ all_by numch s = true /\ len s <= w /\ is_token s = true /\ trimmed s = true.
Proof.
  unfold numtok. intros H. apply andb_true_iff in H as [H H3]. apply andb_true_iff in H as [H1 H2].
  apply Nat.leb_le in H3. apply negb_true_iff in H1.
  assert (Hne : s <> "") by (intros ->; discriminate H1).
  assert (Ht : is_token s = true).
  { destruct s as [|c r]; [congruence|]. unfold is_token.
    apply (all_by_impl numch); [apply numch_nonspace|exact H2]. }
  repeat split; auto. apply trimmed_token, Ht.
Qed.

Lemma fitsb_inv w s : fitsb w s = true -> trimmed s = true /\ len s <= w.
Proof.
  unfold fitsb. intros H. apply andb_true_iff in H as [H1 H2]. apply Nat.leb_le in H2. auto.
Qed.

Lemma trimmed_rtrimmed s : trimmed s = true -> rtrimmed is_space s = true.
Proof. unfold trimmed, trimmed_by. intros H. apply andb_true_iff in H as [_ H]. exact H. Qed.

Lemma trimmed_ltrimmed s : trimmed s = true -> ltrimmed is_space s = true.
Proof. unfold trimmed, trimmed_by. intros H. apply andb_true_iff in H as [H _]. exact H. Qed.

Lemma rtrimmed_app2 p a b : rtrimmed p a = true -> rtrimmed p b = true -> rtrimmed p (a ++ b) = true.
Proof.
  intros Ha Hb. destruct b as [|c b'].
  - rewrite app_nil_r. exact Ha.
  - apply rtrimmed_app; [discriminate|exact Hb].
Qed.

Lemma rjust_spaces n s : rjust n s = spaces (n - len s) ++ s.
Proof. reflexivity. Qed.

Lemma ljust_spaces n s : ljust n s = s ++ spaces (n - len s).
Proof. reflexivity. Qed.

Lemma rtrimmed_rjust n s : s <> "" -> trimmed s = true -> rtrimmed is_space (rjust n s) = true.
Proof. intros Hn Ht. rewrite rjust_spaces. apply rtrimmed_app; [exact Hn|apply trimmed_rtrimmed, Ht]. Qed.

(* ====================================================================================== render_values *)
Lemma render_values_cons v r : render_values (v :: r) = rjust 8 v ++ render_values r.
Proof. reflexivity. Qed.

Lemma render_values_rtrimmed vals :
  forallb (numtok 7) vals = true -> rtrimmed is_space (render_values vals) = true.
Proof.
  induction vals as [|v r IH]; [reflexivity|]. simpl forallb. intros H.
  apply andb_true_iff in H as [Hv Hr]. apply numtok_inv in Hv as (Hne & _ & _ & _ & Ht).
  rewrite render_values_cons. apply rtrimmed_app2; [apply rtrimmed_rjust; auto|apply IH, Hr].
Qed.

Lemma render_values_bn vals :
  forallb (numtok 7) vals = true -> all_by bn (render_values vals) = true.
Proof.
  induction vals as [|v r IH]; [reflexivity|]. simpl forallb. intros H.
  apply andb_true_iff in H as [Hv Hr]. apply numtok_inv in Hv as (_ & Hn & _ & _ & _).
  rewrite render_values_cons, rjust_spaces, !all_by_app, all_bn_spaces, (all_bn_num _ Hn), (IH Hr). reflexivity.
Qed.

Lemma split_values : forall (t : string) (vals : list string),
  is_token t = true -> forallb (numtok 7) vals = true ->
  split_ws (t ++ render_values vals) = t :: vals.
Proof.
  intros t vals; revert t. induction vals as [|v r IH]; intros t Ht H.
  - apply (split_ws_last t "" Ht eq_refl).
  - simpl forallb in H. apply andb_true_iff in H as [Hv Hr].
    apply numtok_inv in Hv as (Hne & _ & Hl & Hvt & _).
    rewrite render_values_cons, rjust_spaces, app_assoc.
    rewrite split_ws_tok; [rewrite IH; auto| exact Ht | apply all_space_spaces |].
    destruct (8 - len v) eqn:E; [lia|discriminate].
Qed.

(* ====================================================================================== slicing *)
Lemma slice_skip n a x y s : len a = n -> slice (n + x) (n + y) (a ++ s) = slice x y s.
Proof. intros <-. apply slice_app_shift. Qed.

Lemma slice_here k f r : len f = k -> slice 0 k (f ++ r) = f.
Proof. intros <-. apply slice_0_len. Qed.

Lemma drop_len n a b : len a = n -> drop n (a ++ b) = b.
Proof. intros <-. apply drop_app_len. Qed.

(* ====================================================================================== generic lines *)
(* a record label: starts with a letter or "#", no outer blanks *)
Definition lab_ok (label : string) : bool :=
  match label with
  | String c _ => (is_alpha c || Ascii.eqb c "#") && trimmed label
  | "" => false
  end.

Lemma labelled_facts line body label :
  line = body ++ label -> len body = 60 -> lab_ok label = true ->
  rstrip line = line /\ String.eqb line "" = false /\ label_of line = label
  /\ is_end_of_antenna line = String.eqb (slice 0 14 label) "END OF ANTENNA".
Proof.
  intros -> Hb Hl. destruct label as [|c l']; [discriminate|].
  unfold lab_ok in Hl. apply andb_true_iff in Hl as [Hc Ht].
  repeat split.
  - apply rstrip_by_rtrimmed, rtrimmed_app; [discriminate|apply trimmed_rtrimmed, Ht].
  - apply eqb_nil_false. rewrite len_app, Hb. lia.
  - unfold label_of.
    rewrite (slice_skip 60 body 0 1 (String c l') Hb : slice 60 61 (body ++ String c l') = _).
    change (slice 0 1 (String c l')) with (String c ""). cbv beta iota. rewrite Hc.
    rewrite (drop_len 60 body _ Hb). apply strip_trimmed, Ht.
  - unfold is_end_of_antenna.
    rewrite (slice_skip 60 body 0 14 (String c l') Hb : slice 60 74 (body ++ String c l') = _). reflexivity.
Qed.

Lemma prelex_labelled line body label pname fields :
  line = body ++ label -> len body = 60 -> lab_ok label = true ->
  assoc label std_table = Some (pname, fields) ->
  String.eqb (slice 0 14 label) "END OF ANTENNA" = false ->
  prelex std_table line = ev pname (map (fun f => (fst f, slice_field line (snd f))) fields).
Proof.
  intros E Hb Hl Ha He. destruct (labelled_facts line body label E Hb Hl) as (R & N & L & EA).
  unfold prelex, lex, ev. rewrite R, N, L, Ha, EA, He. reflexivity.
Qed.

Lemma prelex_unlabelled line body label e :
  line = body ++ label -> len body = 60 -> lab_ok label = true ->
  assoc label std_table = None ->
  String.eqb (slice 0 14 label) "END OF ANTENNA" = e ->
  prelex std_table line = (None, e).
Proof.
  intros E Hb Hl Ha He. destruct (labelled_facts line body label E Hb Hl) as (R & N & L & EA).
  unfold prelex, lex. rewrite R, N, L, Ha, EA, He. reflexivity.
Qed.

(* a correction row: everything after a prefix of [k] columns is blanks and numbers *)
Lemma bn_slice_not_label a b s :
  all_by bn s = true ->
  match slice a b s with String c _ => is_alpha c || Ascii.eqb c "#" | "" => false end = false.
Proof.
  intros H. generalize (all_by_slice bn a b s H). destruct (slice a b s) as [|c r]; auto.
  simpl. intros H1. apply andb_true_iff in H1 as [H1 _]. apply bn_not_label, H1.
Qed.

Lemma bn_not_end s : all_by bn s = true -> String.eqb s "END OF ANTENNA" = false.
Proof.
  destruct s as [|c r]; auto. simpl. intros H. apply andb_true_iff in H as [H _].
  rewrite (bn_not_E _ H). reflexivity.
Qed.

Lemma label_of_corr s : 
  match slice 60 61 s with String c _ => is_alpha c || Ascii.eqb c "#" | "" => false end = false ->
  label_of s = "CORRECTION".
Proof.
  unfold label_of. destruct (slice 60 61 s) as [|c r]; auto. intros ->. reflexivity.
Qed.

Lemma prelex_corr line v :
  0 < len line -> rtrimmed is_space line = true -> label_of line = "CORRECTION" ->
  String.eqb (slice 60 74 line) "END OF ANTENNA" = false -> lstrip line = v ->
  prelex std_table line = ev "parse_correction" [("values", v)].
Proof.
  intros Hn Hr Hl He Hv.
  assert (R : rstrip line = line) by (apply rstrip_by_rtrimmed, Hr).
  unfold prelex, lex, ev, is_end_of_antenna. rewrite R, (eqb_nil_false _ Hn), Hl, He.
  change (assoc "CORRECTION" std_table) with (Some ("parse_correction", [("values", (0, @None nat))])).
  cbn [map fst snd slice_field]. rewrite drop_0. unfold strip, strip_by. fold rstrip. rewrite R.
  fold lstrip. rewrite Hv. reflexivity.
Qed.

(* ====================================================================================== column tactics *)
Ltac lens :=
  rewrite ?len_app, ?len_spaces; rewrite ?len_rjust, ?len_ljust by assumption; try reflexivity; lia.

Ltac widthof a :=
  lazymatch a with
  | rjust ?n _ => n
  | ljust ?n _ => n
  | spaces ?n => n
  end.

Ltac fld1 :=
  match goal with
  | |- context [slice 0 ?k (?f ++ ?r)] =>
      replace (slice 0 k (f ++ r)) with f by (symmetry; apply slice_here; lens)
  | |- context [slice (S ?x0) ?y (?a ++ ?s)] =>
      let n := widthof a in
      let x' := eval compute in (S x0 - n) in
      let y' := eval compute in (y - n) in
      replace (slice (S x0) y (a ++ s)) with (slice x' y' s)
        by (symmetry; exact (slice_skip n a x' y' s ltac:(lens)))
  end.

Ltac labelled body label :=
  erewrite (prelex_labelled _ body label);
  [ | rewrite ?app_assoc; reflexivity | lens | reflexivity | reflexivity | reflexivity ];
  cbn [map fst snd slice_field]; repeat fld1.

(* ====================================================================================== the records *)
Lemma prelex_start_of_antenna :
  prelex std_table (spaces 60 ++ "START OF ANTENNA") = (None, false).
Proof. apply (prelex_unlabelled _ (spaces 60) "START OF ANTENNA"); reflexivity. Qed.

Lemma prelex_end_of_antenna :
  prelex std_table (spaces 60 ++ "END OF ANTENNA") = (None, true).
Proof. apply (prelex_unlabelled _ (spaces 60) "END OF ANTENNA"); reflexivity. Qed.

Lemma prelex_type_serial t s sat cos :
  fitsb 20 t = true -> fitsb 20 s = true -> fitsb 10 sat = true -> fitsb 10 cos = true ->
  prelex std_table (ljust 20 t ++ ljust 20 s ++ ljust 10 sat ++ ljust 10 cos ++ "TYPE / SERIAL NO")
  = ev "parse_section_string" [("antenna_type", t); ("antenna_code", s); ("sat_code", sat); ("cospar_id", cos)].
Proof.
  intros H1 H2 H3 H4.
  apply fitsb_inv in H1 as [T1 L1]. apply fitsb_inv in H2 as [T2 L2].
  apply fitsb_inv in H3 as [T3 L3]. apply fitsb_inv in H4 as [T4 L4].
  labelled (ljust 20 t ++ ljust 20 s ++ ljust 10 sat ++ ljust 10 cos) "TYPE / SERIAL NO".
  rewrite !strip_ljust by assumption. reflexivity.
Qed.

Lemma prelex_dazi d :
  numtok 6 d = true ->
  prelex std_table (spaces 2 ++ rjust 6 d ++ spaces 52 ++ "DAZI") = ev "parse_section_float" [("dazi", d)].
Proof.
  intros H. apply numtok_inv in H as (_ & _ & L & _ & T).
  labelled (spaces 2 ++ rjust 6 d ++ spaces 52) "DAZI".
  rewrite !strip_rjust by assumption. reflexivity.
Qed.

Lemma prelex_zen z1 z2 dz :
  numtok 6 z1 = true -> numtok 6 z2 = true -> numtok 6 dz = true ->
  prelex std_table (spaces 2 ++ rjust 6 z1 ++ rjust 6 z2 ++ rjust 6 dz ++ spaces 40 ++ "ZEN1 / ZEN2 / DZEN")
  = ev "parse_section_float" [("zen1", z1); ("zen2", z2); ("dzen", dz)].
Proof.
  intros H1 H2 H3.
  apply numtok_inv in H1 as (_ & _ & L1 & _ & T1). apply numtok_inv in H2 as (_ & _ & L2 & _ & T2).
  apply numtok_inv in H3 as (_ & _ & L3 & _ & T3).
  labelled (spaces 2 ++ rjust 6 z1 ++ rjust 6 z2 ++ rjust 6 dz ++ spaces 40) "ZEN1 / ZEN2 / DZEN".
  rewrite !strip_rjust by assumption. reflexivity.
Qed.

Lemma prelex_nfreq n :
  numtok 6 n = true ->
  prelex std_table (rjust 6 n ++ spaces 54 ++ "# OF FREQUENCIES") = ev "parse_num_of_frequencies" [("num_freq", n)].
Proof.
  intros H. apply numtok_inv in H as (_ & _ & L & _ & T).
  labelled (rjust 6 n ++ spaces 54) "# OF FREQUENCIES".
  rewrite !strip_rjust by assumption. reflexivity.
Qed.

Lemma wf_valid_inv t :
  wf_valid (Some t) = true ->
  exists y m d h mi s, t = [y; m; d; h; mi; s] /\ numtok 6 y = true /\ numtok 6 m = true /\ numtok 6 d = true
                       /\ numtok 6 h = true /\ numtok 6 mi = true /\ numtok 13 s = true.
Proof.
  destruct t as [|y [|m [|d [|h [|mi [|s [|x r]]]]]]]; try discriminate. cbn [wf_valid]. intros H.
  do 5 (apply andb_true_iff in H as [H ?]).
  exists y, m, d, h, mi, s. repeat split; assumption.
Qed.

Lemma prelex_valid_line y m d h mi s label pname :
  (label = "VALID FROM" /\ pname = "parse_valid_from") \/ (label = "VALID UNTIL" /\ pname = "parse_valid_until") ->
  numtok 6 y = true -> numtok 6 m = true -> numtok 6 d = true ->
  numtok 6 h = true -> numtok 6 mi = true -> numtok 13 s = true ->
  prelex std_table (rjust 6 y ++ rjust 6 m ++ rjust 6 d ++ rjust 6 h ++ rjust 6 mi ++ rjust 13 s ++ spaces 17 ++ label)
  = ev pname [("year", y); ("month", m); ("day", d); ("hour", h); ("minute", mi); ("second", s)].
Proof.
  intros HL H1 H2 H3 H4 H5 H6.
  apply numtok_inv in H1 as (_ & _ & L1 & _ & T1). apply numtok_inv in H2 as (_ & _ & L2 & _ & T2).
  apply numtok_inv in H3 as (_ & _ & L3 & _ & T3). apply numtok_inv in H4 as (_ & _ & L4 & _ & T4).
  apply numtok_inv in H5 as (_ & _ & L5 & _ & T5). apply numtok_inv in H6 as (_ & _ & L6 & _ & T6).
  destruct HL as [[-> ->]|[-> ->]].
  - labelled (rjust 6 y ++ rjust 6 m ++ rjust 6 d ++ rjust 6 h ++ rjust 6 mi ++ rjust 13 s ++ spaces 17) "VALID FROM".
    rewrite !strip_rjust by assumption. reflexivity.
  - labelled (rjust 6 y ++ rjust 6 m ++ rjust 6 d ++ rjust 6 h ++ rjust 6 mi ++ rjust 13 s ++ spaces 17) "VALID UNTIL".
    rewrite !strip_rjust by assumption. reflexivity.
Qed.

Lemma prelex_valid t label pname :
  (label = "VALID FROM" /\ pname = "parse_valid_from") \/ (label = "VALID UNTIL" /\ pname = "parse_valid_until") ->
  wf_valid (Some t) = true ->
  prelex std_table (render_valid t label) = lex_valid t pname.
Proof.
  intros HL H. apply wf_valid_inv in H as (y & m & d & h & mi & s & -> & H1 & H2 & H3 & H4 & H5 & H6).
  unfold render_valid, lex_valid. apply prelex_valid_line; assumption.
Qed.

Lemma prelex_opt_valid t label pname :
  (label = "VALID FROM" /\ pname = "parse_valid_from") \/ (label = "VALID UNTIL" /\ pname = "parse_valid_until") ->
  wf_valid t = true ->
  map (prelex std_table) (render_opt_valid t label) = lex_opt_valid t pname.
Proof.
  intros HL H. destruct t as [t|]; [|reflexivity].
  unfold render_opt_valid, lex_opt_valid. cbn [map]. rewrite (prelex_valid t label pname HL H). reflexivity.
Qed.

Lemma prelex_start_of_frequency c :
  fitsb 3 c = true ->
  prelex std_table (spaces 3 ++ ljust 3 c ++ spaces 54 ++ "START OF FREQUENCY")
  = ev "parse_section_string" [("frequency_code", c)].
Proof.
  intros H. apply fitsb_inv in H as [T L].
  labelled (spaces 3 ++ ljust 3 c ++ spaces 54) "START OF FREQUENCY".
  rewrite !strip_ljust by assumption. reflexivity.
Qed.

Lemma prelex_end_of_frequency c :
  fitsb 3 c = true ->
  prelex std_table (spaces 3 ++ ljust 3 c ++ spaces 54 ++ "END OF FREQUENCY")
  = ev "save_correction" [("frequency_code", c)].
Proof.
  intros H. apply fitsb_inv in H as [T L].
  labelled (spaces 3 ++ ljust 3 c ++ spaces 54) "END OF FREQUENCY".
  rewrite !strip_ljust by assumption. reflexivity.
Qed.

Lemma prelex_neu n e u :
  numtok 10 n = true -> numtok 10 e = true -> numtok 10 u = true ->
  prelex std_table (rjust 10 n ++ rjust 10 e ++ rjust 10 u ++ spaces 30 ++ "NORTH / EAST / UP")
  = ev "parse_section_float" [("north", n); ("east", e); ("up", u)].
Proof.
  intros H1 H2 H3.
  apply numtok_inv in H1 as (_ & _ & L1 & _ & T1). apply numtok_inv in H2 as (_ & _ & L2 & _ & T2).
  apply numtok_inv in H3 as (_ & _ & L3 & _ & T3).
  labelled (rjust 10 n ++ rjust 10 e ++ rjust 10 u ++ spaces 30) "NORTH / EAST / UP".
  rewrite !strip_rjust by assumption. reflexivity.
Qed.

(* ------------------------------------------------------------------------------ correction rows *)
Lemma prelex_noazi vals :
  forallb (numtok 7) vals = true ->
  prelex std_table ("   NOAZI" ++ render_values vals)
  = ev "parse_correction" [("values", "NOAZI" ++ render_values vals)].
Proof.
  intros H. pose proof (render_values_bn vals H) as B. pose proof (render_values_rtrimmed vals H) as R.
  apply prelex_corr.
  - simpl. lia.
  - apply rtrimmed_app2; [reflexivity|exact R].
  - apply label_of_corr.
    rewrite (slice_skip 8 "   NOAZI" 52 53 _ eq_refl : slice 60 61 ("   NOAZI" ++ render_values vals) = _).
    apply bn_slice_not_label, B.
  - rewrite (slice_skip 8 "   NOAZI" 52 66 _ eq_refl : slice 60 74 ("   NOAZI" ++ render_values vals) = _).
    apply bn_not_end, all_by_slice, B.
  - reflexivity.
Qed.

Lemma prelex_azi_row az vals :
  numtok 8 az = true -> forallb (numtok 7) vals = true ->
  prelex std_table (rjust 8 az ++ render_values vals)
  = ev "parse_correction" [("values", az ++ render_values vals)].
Proof.
  intros Ha H. pose proof (render_values_bn vals H) as B. pose proof (render_values_rtrimmed vals H) as R.
  apply numtok_inv in Ha as (Hne & Hn & L & _ & T).
  assert (BL : all_by bn (rjust 8 az ++ render_values vals) = true).
  { rewrite rjust_spaces, !all_by_app, all_bn_spaces, (all_bn_num _ Hn), B. reflexivity. }
  apply prelex_corr.
  - rewrite len_app, len_rjust by exact L. lia.
  - apply rtrimmed_app2; [apply rtrimmed_rjust; assumption|exact R].
  - apply label_of_corr, bn_slice_not_label, BL.
  - apply bn_not_end, all_by_slice, BL.
  - rewrite rjust_spaces, app_assoc. unfold lstrip.
    rewrite lstrip_by_app_all by apply all_space_spaces.
    apply lstrip_by_ltrimmed. apply trimmed_ltrimmed in T.
    destruct az as [|c r]; [congruence|exact T].
Qed.

(* the table-independent facts about correction rows (used by Proofs/C15_Covers.v) *)
Lemma corr_facts line :
  rtrimmed is_space line = true -> all_by bn (slice 60 61 line) = true ->
  rstrip line = line /\ label_of line = "CORRECTION".
Proof.
  intros Hr Hb. split; [apply rstrip_by_rtrimmed, Hr|].
  apply label_of_corr. destruct (slice 60 61 line) as [|c r]; auto.
  simpl in Hb. apply andb_true_iff in Hb as [Hb _]. apply bn_not_label, Hb.
Qed.

Lemma noazi_facts vals :
  forallb (numtok 7) vals = true ->
  rstrip ("   NOAZI" ++ render_values vals) = "   NOAZI" ++ render_values vals
  /\ label_of ("   NOAZI" ++ render_values vals) = "CORRECTION".
Proof.
  intros H. pose proof (render_values_bn vals H) as B. pose proof (render_values_rtrimmed vals H) as R.
  apply corr_facts.
  - apply rtrimmed_app2; [reflexivity|exact R].
  - rewrite (slice_skip 8 "   NOAZI" 52 53 _ eq_refl : slice 60 61 ("   NOAZI" ++ render_values vals) = _).
    apply all_by_slice, B.
Qed.

Lemma azi_row_facts az vals :
  numtok 8 az = true -> forallb (numtok 7) vals = true ->
  rstrip (rjust 8 az ++ render_values vals) = rjust 8 az ++ render_values vals
  /\ label_of (rjust 8 az ++ render_values vals) = "CORRECTION".
Proof.
  intros Ha H. pose proof (render_values_bn vals H) as B. pose proof (render_values_rtrimmed vals H) as R.
  apply numtok_inv in Ha as (Hne & Hn & L & _ & T).
  apply corr_facts.
  - apply rtrimmed_app2; [apply rtrimmed_rjust; assumption|exact R].
  - apply all_by_slice. rewrite rjust_spaces, !all_by_app, all_bn_spaces, (all_bn_num _ Hn), B. reflexivity.
Qed.

(* ====================================================================================== frequencies *)
Lemma prelex_render_freq f :
  wf_freq f = true -> map (prelex std_table) (render_freq f) = lex_freq f.
Proof.
  unfold wf_freq. intros H.
  apply andb_true_iff in H as [H Hrows]. apply andb_true_iff in H as [H Hnoazi].
  apply andb_true_iff in H as [H Hu]. apply andb_true_iff in H as [H He]. apply andb_true_iff in H as [Hc Hn].
  unfold render_freq, lex_freq. rewrite !map_app, map_map. cbn [map].
  rewrite (prelex_start_of_frequency _ Hc), (prelex_neu _ _ _ Hn He Hu), (prelex_noazi _ Hnoazi),
          (prelex_end_of_frequency _ Hc).
  do 2 f_equal. apply map_ext_in. intros r Hr.
  rewrite forallb_forall in Hrows. specialize (Hrows r Hr). apply andb_true_iff in Hrows as [Ha Hv].
  apply prelex_azi_row; assumption.
Qed.

Lemma prelex_render_freqs fs :
  forallb wf_freq fs = true ->
  map (prelex std_table) (List.concat (map render_freq fs)) = List.concat (map lex_freq fs).
Proof.
  induction fs as [|f r IH]; [reflexivity|]. cbn [forallb map List.concat]. intros H.
  apply andb_true_iff in H as [Hf Hr]. rewrite map_app, (prelex_render_freq f Hf), (IH Hr). reflexivity.
Qed.

(* ------------------------------------------------------------------------------ rms sections *)
Lemma prelex_start_of_freq_rms c :
  fitsb 3 c = true ->
  prelex std_table (spaces 3 ++ ljust 3 c ++ spaces 54 ++ "START OF FREQ RMS") = (None, false).
Proof.
  intros H. apply fitsb_inv in H as [T L].
  apply (prelex_unlabelled _ (spaces 3 ++ ljust 3 c ++ spaces 54) "START OF FREQ RMS");
    [rewrite ?app_assoc; reflexivity | lens | reflexivity | reflexivity | reflexivity].
Qed.

Lemma prelex_end_of_freq_rms c :
  fitsb 3 c = true ->
  prelex std_table (spaces 3 ++ ljust 3 c ++ spaces 54 ++ "END OF FREQ RMS") = (None, false).
Proof.
  intros H. apply fitsb_inv in H as [T L].
  apply (prelex_unlabelled _ (spaces 3 ++ ljust 3 c ++ spaces 54) "END OF FREQ RMS");
    [rewrite ?app_assoc; reflexivity | lens | reflexivity | reflexivity | reflexivity].
Qed.

Lemma prelex_render_rms f :
  wf_freq f = true -> map (prelex std_table) (render_rms f) = lex_rms f.
Proof.
  unfold wf_freq. intros H.
  apply andb_true_iff in H as [H Hrows]. apply andb_true_iff in H as [H Hnoazi].
  apply andb_true_iff in H as [H Hu]. apply andb_true_iff in H as [H He]. apply andb_true_iff in H as [Hc Hn].
  unfold render_rms, lex_rms. rewrite !map_app, map_map. cbn [map].
  rewrite (prelex_start_of_freq_rms _ Hc), (prelex_neu _ _ _ Hn He Hu), (prelex_noazi _ Hnoazi),
          (prelex_end_of_freq_rms _ Hc).
  do 2 f_equal. apply map_ext_in. intros r Hr.
  rewrite forallb_forall in Hrows. specialize (Hrows r Hr). apply andb_true_iff in Hrows as [Ha Hv].
  apply prelex_azi_row; assumption.
Qed.

Lemma prelex_render_rmss fs :
  forallb wf_freq fs = true ->
  map (prelex std_table) (List.concat (map render_rms fs)) = List.concat (map lex_rms fs).
Proof.
  induction fs as [|f r IH]; [reflexivity|]. cbn [forallb map List.concat]. intros H.
  apply andb_true_iff in H as [Hf Hr]. rewrite map_app, (prelex_render_rms f Hf), (IH Hr). reflexivity.
Qed.

(* ====================================================================================== antennas *)
Lemma prelex_render_ant_head a :
  wf_ant a = true -> map (prelex std_table) (render_ant_head a) = lex_ant_head a.
Proof.
  unfold wf_ant. intros H.
  do 12 (apply andb_true_iff in H as [H ?]).
  unfold render_ant_head, lex_ant_head. rewrite !map_app. cbn [map].
  rewrite prelex_start_of_antenna, prelex_type_serial, prelex_dazi, prelex_zen, prelex_nfreq by assumption.
  rewrite (prelex_opt_valid (am_from a) "VALID FROM" "parse_valid_from") by (auto; assumption).
  rewrite (prelex_opt_valid (am_until a) "VALID UNTIL" "parse_valid_until") by (auto; assumption).
  reflexivity.
Qed.

Lemma prelex_render_ant : forall a : ant_m,
  wf_ant a = true -> map (prelex std_table) (render_ant a) = lex_ant a.
Proof.
  intros a H. unfold render_ant, lex_ant. rewrite !map_app, (prelex_render_ant_head a H).
  assert (Hf : forallb wf_freq (am_freqs a) = true /\ forallb wf_freq (am_rms a) = true).
  { unfold wf_ant in H. apply andb_true_iff in H as [H Hr]. apply andb_true_iff in H as [_ H]. auto. }
  destruct Hf as [Hf Hr].
  rewrite (prelex_render_freqs _ Hf), (prelex_render_rmss _ Hr). cbn [map]. rewrite prelex_end_of_antenna. reflexivity.
Qed.
