(* C03 - operand integrity of the specification state machine, refutation of the two historical quirks. *)
From Coq Require Import ZArith QArith List Bool String Lia.
From Verif Require Import Lib.Dyadic Model.C03_TimeArith Model.C03_Cells.
Import ListNotations.

Lemma alloc2_heap st k sc ps :
  st_heap (alloc2 st k sc ps) = st_heap st ++ [mkCell (map jd1 ps) false; mkCell (map jd2 ps) false].
Proof. reflexivity. Qed.

(* one call of the specification only appends cells *)
Lemma cstep_off_extends st c : exists ext, st_heap (cstep cq_off st c) = st_heap st ++ ext.
Proof.
  destruct c as [f sc val val2|sc val val2|op a b|a|f a]; cbn [cstep cq_off cq_seconds_inplace cq_val2_aliased andb].
  - eexists. apply alloc2_heap.
  - eexists. apply alloc2_heap.
  - destruct (nth_error (st_objs st) a) as [oa|]; [|exists []; symmetry; apply app_nil_r].
    destruct (nth_error (st_objs st) b) as [ob|]; [|exists []; symmetry; apply app_nil_r].
    destruct (negb (kind_eqb (t_kind oa) (self_kind op))); [exists []; symmetry; apply app_nil_r|].
    match goal with |- context [match ?rs with _ => _ end] => destruct rs as [|[r|] rs'] end;
      try (exists []; symmetry; apply app_nil_r).
    eexists. apply alloc2_heap.
  - destruct (nth_error (st_objs st) a) as [oa|]; [|exists []; symmetry; apply app_nil_r].
    eexists. apply alloc2_heap.
  - destruct (nth_error (st_objs st) a) as [oa|]; [|exists []; symmetry; apply app_nil_r].
    eexists. reflexivity.
Qed.

Lemma crun_off_extends cs : forall st, exists ext, st_heap (crun cq_off st cs) = st_heap st ++ ext.
Proof.
  induction cs as [|c cs IH]; intros st; cbn [crun fold_left].
  - exists []. symmetry. apply app_nil_r.
  - destruct (cstep_off_extends st c) as [e1 H1]. destruct (IH (cstep cq_off st c)) as [e2 H2].
    exists (e1 ++ e2). unfold crun in H2. rewrite H2, H1, app_assoc. reflexivity.
Qed.

(* for ALL sequences of constructor / arithmetic / unary-minus / read-out calls, every cell that existed before
   (caller arrays, cells of operands) has the same contents and the same writeable flag afterwards *)
Lemma operands_untouched_l cs st id c :
  nth_error (st_heap st) id = Some c -> nth_error (st_heap (crun cq_off st cs)) id = Some c.
Proof.
  intros H. destruct (crun_off_extends cs st) as [ext E]. rewrite E.
  rewrite nth_error_app1; [exact H|]. apply nth_error_Some. rewrite H. discriminate.
Qed.

(* the cells the specification allocates for objects are frozen (read-outs are ordinary writeable arrays) *)
Lemma results_frozen_l st c ext :
  st_heap (cstep cq_off st c) = st_heap st ++ ext ->
  (forall f a, c <> ReadOut f a) -> forall x, In x ext -> c_writeable x = false.
Proof.
  intros E Hn x Hin.
  assert (A : forall k sc ps, st_heap (alloc2 st k sc ps) = st_heap st ++ ext -> c_writeable x = false).
  { intros k sc ps H. rewrite alloc2_heap in H. apply app_inv_head in H. subst ext.
    destruct Hin as [<-|[<-|[]]]; reflexivity. }
  assert (B : st_heap st = st_heap st ++ ext -> c_writeable x = false).
  { intros H. rewrite <- (app_nil_r (st_heap st)) in H at 1. apply app_inv_head in H. subst ext. destruct Hin. }
  destruct c as [f sc val val2|sc val val2|op a b|a|f a]; cbn [cstep cq_off cq_seconds_inplace cq_val2_aliased andb] in E.
  - eapply A. exact E.
  - eapply A. exact E.
  - destruct (nth_error (st_objs st) a) as [oa|]; [|apply B; exact E].
    destruct (nth_error (st_objs st) b) as [ob|]; [|apply B; exact E].
    destruct (negb (kind_eqb (t_kind oa) (self_kind op))); [apply B; exact E|].
    match type of E with context [match ?rs with _ => _ end] => destruct rs as [|[r|] rs'] end;
      try (apply B; exact E).
    eapply A. exact E.
  - destruct (nth_error (st_objs st) a) as [oa|]; [|apply B; exact E]. eapply A. exact E.
  - exfalso. apply (Hn f a). reflexivity.
Qed.

(* ------------------------------------------------------------------ the quirks are refuted *)
Definition caller_secs : cell := mkCell [86400; 10]%Q true.      (* a = np.array([86400., 10.]) *)

Lemma seconds_inplace_refuted_l :
  let st := mkState [caller_secs] [] in
  nth_error (st_heap (cstep (mkCQ true false) st (NewDelta DSeconds "utc" (ACell 0) ANone))) 0 <> Some caller_secs /\
  nth_error (st_heap (cstep cq_off st (NewDelta DSeconds "utc" (ACell 0) ANone))) 0 = Some caller_secs.
Proof. cbn. split; [intros H; inversion H|reflexivity]. Qed.

Definition caller_val : cell := mkCell [(5 # 2); (7 # 4)]%Q true.       (* val  = np.array([2.5, 1.75]) *)
Definition caller_val2 : cell := mkCell [(3 # 4); (1 # 2)]%Q true.      (* val2 = np.array([0.75, 0.5]) *)

Lemma val2_aliased_refuted_l :
  let st := mkState [caller_val; caller_val2] [] in
  let st' := cstep (mkCQ false true) st (NewDelta DDays "utc" (ACell 0) (ACell 1)) in
  (* the caller's val2 array now holds the fractions [0.25, 0.25], is read-only, and is the jd2 of the new object *)
  option_map (fun c => (map Qred (c_data c), c_writeable c)) (nth_error (st_heap st') 1) = Some ([(1 # 4); (1 # 4)]%Q, false) /\
  map t_jd2 (st_objs st') = [1%nat] /\
  nth_error (st_heap (cstep cq_off st (NewDelta DDays "utc" (ACell 0) (ACell 1)))) 1 = Some caller_val2.
Proof. vm_compute. repeat split; reflexivity. Qed.
