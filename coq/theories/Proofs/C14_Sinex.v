(* Proofs/C14_Sinex.v - lemmas behind Props/C14.v *)
From Coq Require Import ZArith QArith Qabs List Bool String Ascii Lia Permutation.
From Verif Require Import Lib.Text Lib.Dyadic Model.C14_Sinex Spec.C14_SinexFormat Gen.C14_SinexBlocks.
Import ListNotations.
Open Scope nat_scope.
Open Scope string_scope.

(* ------------------------------------------------------------------------------------------ tables *)
Definition spec_label (p : string) : string :=
  if (p =? "tms") || (p =? "tro") then p else "base".

Fixpoint find_spec (p m : string) (l : list spec_block) : option (list spec_field) :=
  match l with
  | [] => None
  | (p', m', fs) :: r => if (p =? p') && (m =? m') then Some fs else find_spec p m r
  end.

Definition spec_of (p m : string) : option (list spec_field) :=
  match find_spec (spec_label p) m sinex_format with
  | Some fs => Some fs
  | None => find_spec "base" m sinex_format
  end.

Definition table_entry_wf (e : string * string * nat * list raw_field) : bool :=
  let '(_, _, cols, fs) := e in table_wf cols (table_of fs).

Definition table_entry_matches (e : string * string * nat * list raw_field) : bool :=
  let '(p, m, cols, fs) := e in
  match spec_of p m with
  | Some sp => match_fields cols (table_of fs) sp
  | None => match fs with [] => true | _ => false end
  end.

Lemma all_tables_wf : forallb table_entry_wf all_tables = true.
Proof. vm_compute. reflexivity. Qed.

Lemma all_tables_match : forallb table_entry_matches all_tables = true.
Proof. vm_compute. reflexivity. Qed.
