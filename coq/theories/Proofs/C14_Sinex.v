(* Proofs/C14_Sinex.v - lemmas behind Props/C14.v *)
From Coq Require Import ZArith QArith Qabs List Bool String Ascii Lia Permutation.
From Verif Require Import Lib.Text Lib.Dyadic Model.C14_Sinex Spec.C14_SinexFormat Gen.C14_SinexBlocks.
Import ListNotations.
Open Scope nat_scope.
Open Scope string_scope.

(* ------------------------------------------------------------------------------------------ tables *)
Definition spec_label (p : string) : string :=
  if (p =? "tms") || (p =? "tro") then p else "base".

Fixpoint find_spec (p m : string) (l : list spec_block) : option (list spec_field) :=
  match l with
  | [] => None
  | (p', m', fs) :: r => if (p =? p') && (m =? m') then Some fs else find_spec p m r
  end.

Definition spec_of (p m : string) : option (list spec_field) :=
  match find_spec (spec_label p) m sinex_format with
  | Some fs => Some fs
  | None => find_spec "base" m sinex_format
  end.

Definition table_entry_wf (e : string * string * nat * list raw_field) : bool :=
  let '(_, _, cols, fs) := e in table_wf cols (table_of fs).

Definition table_entry_matches (e : string * string * nat * list raw_field) : bool :=
  let '(p, m, cols, fs) := e in
  match fs with
  | [] => true      (* a block that declares no fields has nothing to compare (it cannot be parsed at all: parse_block) *)
  | _ => match spec_of p m with
         | Some sp => match_fields cols (table_of fs) sp
         | None => false
         end
  end.

Lemma all_tables_wf : forallb table_entry_wf all_tables = true.
Proof. vm_compute. reflexivity. Qed.

Lemma all_tables_match : forallb table_entry_matches all_tables = true.
Proof. vm_compute. reflexivity. Qed.

(* ------------------------------------------------------------------------------------------ exponent D = E *)
Lemma replace_D_E_idem s : replace_char "D" "E" (replace_char "E" "D" s) = replace_char "D" "E" s.
Proof.
  induction s as [|c r IH]; [reflexivity|].
  cbn [replace_char]. destruct (Ascii.eqb c "E") eqn:HE.
  - apply Ascii.eqb_eq in HE. subst c. cbn. rewrite IH. reflexivity.
  - cbn [replace_char]. destruct (Ascii.eqb c "D") eqn:HD; rewrite IH; reflexivity.
Qed.

Lemma exponent_D_E s : convert_exponent (replace_char "E" "D" s) = convert_exponent s.
Proof. unfold convert_exponent. rewrite replace_D_E_idem. reflexivity. Qed.

Lemma replace_noD s : all_by (fun c => negb (Ascii.eqb c "D")) s = true -> replace_char "D" "E" s = s.
Proof.
  induction s as [|c r IH]; [reflexivity|]. cbn. intros H. apply andb_prop in H. destruct H as [H1 H2].
  destruct (Ascii.eqb c "D"); [discriminate|]. rewrite IH by exact H2. reflexivity.
Qed.

Lemma exponent_E_plain s : all_by (fun c => negb (Ascii.eqb c "D")) s = true -> convert_exponent s = parse_decimal s.
Proof. intros H. unfold convert_exponent. rewrite replace_noD by exact H. reflexivity. Qed.

(* ------------------------------------------------------------------------------------------ matrices *)
Section MatrixProofs.
  Context {V : Type} (zero : V).
  Notation pos := (fun e : nat * nat * V => (fst (fst e), snd (fst e))).

  Lemma fill_entries q ls : fill zero q ls = fold_left write (entries q ls) (fun (_ _ : nat) => zero).
  Proof.
    unfold fill, entries. generalize (fun (_ _ : nat) => zero) as M.
    induction ls as [|l ls IH]; intros M; [reflexivity|].
    cbn [fold_left flat_map]. rewrite fold_left_app. apply IH.
  Qed.

  Lemma fold_write_notin (es : list (nat * nat * V)) : forall (M : @mat V) i j,
    (forall v, ~ In (i, j, v) es) -> fold_left write es M i j = M i j.
  Proof.
    induction es as [|[[a b] w] es IH]; intros M i j H; [reflexivity|].
    cbn [fold_left write]. rewrite IH.
    - unfold upd. destruct (Nat.eqb i a && Nat.eqb j b) eqn:E; [|reflexivity].
      apply andb_prop in E. destruct E as [E1 E2]. apply Nat.eqb_eq in E1, E2. subst.
      exfalso. apply (H w). left. reflexivity.
    - intros v Hv. apply (H v). right. exact Hv.
  Qed.

  Lemma fold_write_in (es : list (nat * nat * V)) : forall (M : @mat V) i j v,
    NoDup (map pos es) -> In (i, j, v) es -> fold_left write es M i j = v.
  Proof.
    induction es as [|[[a b] w] es IH]; intros M i j v ND HI; [contradiction|].
    cbn [map] in ND. inversion ND as [|x l Hx ND']. subst.
    cbn [fold_left write]. destruct HI as [HI|HI].
    - inversion HI. subst. rewrite fold_write_notin.
      + unfold upd. rewrite !Nat.eqb_refl. reflexivity.
      + intros v' Hv'. apply Hx. cbn. apply (in_map pos) in Hv'. exact Hv'.
    - apply IH; assumption.
  Qed.

  Lemma symmetric_any q lower (ls : list (@mline V)) i j : parse_matrix zero q lower ls i j = parse_matrix zero q lower ls j i.
  Proof.
    unfold parse_matrix, symmetrize.
    destruct lower; destruct (Nat.leb j i) eqn:A; destruct (Nat.leb i j) eqn:B; try reflexivity;
      try apply Nat.leb_le in A; try apply Nat.leb_le in B; try apply Nat.leb_gt in A; try apply Nat.leb_gt in B;
      try (exfalso; lia); assert (i = j) by lia; subst; reflexivity.
  Qed.

  Lemma place_vals_in r : forall (vs : list (option V)) c k v,
    nth_error vs k = Some (Some v) -> In (r, c + k, v) (place_vals r c vs).
  Proof.
    induction vs as [|o vs IH]; intros c k v H; [destruct k; discriminate|].
    destruct k as [|k].
    - cbn in H. inversion H. subst. cbn. left. f_equal. f_equal. lia.
    - cbn in H. replace (c + S k) with (S c + k) by lia.
      destruct o; cbn [place_vals]; [right|]; apply IH; exact H.
  Qed.

  Lemma place_vals_inv r : forall (vs : list (option V)) c i j v,
    In (i, j, v) (place_vals r c vs) -> i = r /\ exists k, j = c + k /\ nth_error vs k = Some (Some v).
  Proof.
    induction vs as [|o vs IH]; intros c i j v H; [contradiction|].
    destruct o as [w|]; cbn in H.
    - destruct H as [H|H].
      + inversion H. subst. split; [reflexivity|]. exists 0. split; [lia|reflexivity].
      + apply IH in H. destruct H as [Hi [k [Hj Hk]]]. split; [exact Hi|]. exists (S k). split; [lia|exact Hk].
    - apply IH in H. destruct H as [Hi [k [Hj Hk]]]. split; [exact Hi|]. exists (S k). split; [lia|exact Hk].
  Qed.

  Lemma listed_in_entries (ls : list (@mline V)) r c vs k v :
    In (r, c, vs) ls -> nth_error vs k = Some (Some v) -> In (r, c + k, v) (entries all_off ls).
  Proof.
    intros HI Hk. unfold entries. apply in_flat_map. exists (r, c, vs). split; [exact HI|].
    cbn. apply place_vals_in. exact Hk.
  Qed.

  Lemma entries_listed (ls : list (@mline V)) i j v :
    In (i, j, v) (entries all_off ls) -> exists c vs k, In (i, c, vs) ls /\ j = c + k /\ nth_error vs k = Some (Some v).
  Proof.
    unfold entries. intros H. apply in_flat_map in H. destruct H as [[[r c] vs] [HI HP]].
    cbn in HP. apply place_vals_inv in HP. destruct HP as [Hi [k [Hj Hk]]]. subst.
    exists c, vs, k. auto.
  Qed.

  Lemma listed_value (lower : bool) (ls : list (@mline V)) r c vs k v :
    NoDup (map pos (entries all_off ls)) ->
    In (r, c, vs) ls -> nth_error vs k = Some (Some v) ->
    (if lower then c + k <= r else r <= c + k) ->
    parse_matrix zero all_off lower ls r (c + k) = v /\ parse_matrix zero all_off lower ls (c + k) r = v.
  Proof.
    intros ND HI Hk Htri.
    assert (E : parse_matrix zero all_off lower ls r (c + k) = v).
    { unfold parse_matrix, symmetrize. rewrite fill_entries.
      destruct lower.
      - apply Nat.leb_le in Htri. rewrite Htri. apply fold_write_in; [exact ND|].
        eapply listed_in_entries; eassumption.
      - apply Nat.leb_le in Htri. rewrite Htri. apply fold_write_in; [exact ND|].
        eapply listed_in_entries; eassumption. }
    split; [exact E|]. rewrite symmetric_any. exact E.
  Qed.

  Lemma unlisted_zero q lower (ls : list (@mline V)) i j :
    (forall v, ~ In (i, j, v) (entries q ls)) -> (forall v, ~ In (j, i, v) (entries q ls)) ->
    parse_matrix zero q lower ls i j = zero.
  Proof.
    intros H1 H2. unfold parse_matrix, symmetrize. rewrite fill_entries.
    destruct lower; [destruct (Nat.leb j i)|destruct (Nat.leb i j)]; rewrite fold_write_notin; auto.
  Qed.
End MatrixProofs.

(* ------------------------------------------------------------------------------------------ regrouping *)
Section RegroupProofs.
  Context {R : Type} (key : R -> string).
  Notation step := (fun g r => add_row (key r) r g).
  Notation rows_of g := (List.concat (map snd g)).

  Lemma add_row_lookup k k' (r : R) g :
    lookup k (add_row k' r g) =
    if String.eqb k k' then Some (match lookup k g with Some l => (l ++ [r])%list | None => [r] end) else lookup k g.
  Proof.
    induction g as [|[k0 rs] g IH].
    - cbn. destruct (String.eqb k k'); reflexivity.
    - cbn [add_row]. destruct (String.eqb k' k0) eqn:E0.
      + apply String.eqb_eq in E0. subst k0. cbn [lookup].
        destruct (String.eqb k k') eqn:E; reflexivity.
      + cbn [lookup]. destruct (String.eqb k k0) eqn:E1.
        * destruct (String.eqb k k') eqn:E; [|reflexivity].
          apply String.eqb_eq in E, E1. subst. rewrite String.eqb_refl in E0. discriminate.
        * exact IH.
  Qed.

  Definition pick (k : string) (rows : list R) : list R := filter (fun r => String.eqb k (key r)) rows.

  Lemma fold_lookup k rows : forall g,
    lookup k (fold_left step rows g) =
    match lookup k g, pick k rows with
    | Some l, f => Some (l ++ f)%list
    | None, [] => None
    | None, f => Some f
    end.
  Proof.
    induction rows as [|r rows IH]; intros g.
    - cbn. destruct (lookup k g); [rewrite List.app_nil_r|]; reflexivity.
    - cbn [fold_left]. rewrite IH, add_row_lookup. unfold pick. cbn [filter]. fold (pick k rows).
      destruct (String.eqb k (key r)).
      + destruct (lookup k g) as [l|]; [rewrite <- List.app_assoc|]; reflexivity.
      + reflexivity.
  Qed.

  Lemma regroup_lookup k rows :
    lookup k (regroup key rows) = match pick k rows with [] => None | f => Some f end.
  Proof. unfold regroup. rewrite fold_lookup. reflexivity. Qed.

  Lemma add_row_perm k (r : R) g : Permutation (rows_of (add_row k r g)) (r :: rows_of g).
  Proof.
    induction g as [|[k0 rs] g IH].
    - cbn. apply Permutation_refl.
    - cbn [add_row]. destruct (String.eqb k k0).
      + cbn [map snd List.concat]. rewrite <- List.app_assoc. cbn [app].
        apply Permutation_sym. apply (Permutation_middle rs (rows_of g) r).
      + cbn [map snd List.concat].
        eapply Permutation_trans; [apply Permutation_app_head; exact IH|].
        apply Permutation_sym. apply Permutation_middle.
  Qed.

  Lemma fold_perm rows : forall g, Permutation (rows_of (fold_left step rows g)) (rows_of g ++ rows).
  Proof.
    induction rows as [|r rows IH]; intros g.
    - cbn. rewrite List.app_nil_r. apply Permutation_refl.
    - cbn [fold_left]. eapply Permutation_trans; [apply IH|].
      eapply Permutation_trans; [apply Permutation_app_tail; apply add_row_perm|].
      cbn [app]. apply Permutation_middle.
  Qed.

  Lemma regroup_perm rows : Permutation (rows_of (regroup key rows)) rows.
  Proof. unfold regroup. apply (fold_perm rows []). Qed.

  Lemma add_row_keys k (r : R) g : NoDup (map fst g) -> NoDup (map fst (add_row k r g)).
  Proof.
    induction g as [|[k0 rs] g IH]; intros ND.
    - cbn. constructor; [intros []|constructor].
    - cbn [add_row]. destruct (String.eqb k k0) eqn:E; [exact ND|].
      cbn [map fst] in *. inversion ND as [|x l Hx ND']. subst. constructor; [|apply IH; exact ND'].
      intros HI. apply Hx. clear - HI E.
      induction g as [|[k1 rs1] g IHg]; cbn in *.
      + destruct HI as [HI|[]]. subst. rewrite String.eqb_refl in E. discriminate.
      + destruct (String.eqb k k1) eqn:E1; cbn in HI; [exact HI|].
        destruct HI as [HI|HI]; [left; exact HI|right; apply IHg; exact HI].
  Qed.

  Lemma regroup_keys rows : NoDup (map fst (regroup key rows)).
  Proof.
    unfold regroup. assert (H : NoDup (map fst (@nil (string * list R)))) by constructor.
    revert H. generalize (@nil (string * list R)) as g.
    induction rows as [|r rows IH]; intros g H; [exact H|].
    cbn [fold_left]. apply IH. apply add_row_keys. exact H.
  Qed.
End RegroupProofs.

(* ------------------------------------------------------------------------------------------ block round trip *)
(* a data line carrying [texts] in the columns of table [t]: blanks up to every start column *)
Fixpoint render_fields (t : table) (pos : nat) (texts : list string) : string :=
  match t, texts with
  | f :: t', x :: xs => spaces (f_start f - pos) ++ x ++ render_fields t' (f_start f + len x) xs
  | _, _ => ""
  end.
Definition render_line (t : table) (texts : list string) : string := render_fields t 0 texts.

(* the texts fit: one per field, trimmed, each ending before the next start column *)
Fixpoint fits (t : table) (pos : nat) (texts : list string) : Prop :=
  match t, texts with
  | [], [] => True
  | f :: t', x :: xs => pos <= f_start f /\ trimmed x = true /\ fits t' (f_start f + len x) xs
  | _, _ => False
  end.

Lemma cut_render (limit : nat) (tail : string) : all_space tail = true ->
  forall t texts pos pre,
  len pre = pos -> fits t pos texts -> len (pre ++ render_fields t pos texts) <= limit ->
  cut_fields t limit (pre ++ render_fields t pos texts ++ tail) = texts.
Proof.
  intros Htail. induction t as [|f t' IH]; intros texts pos pre Hpre Hfit Hlen.
  - destruct texts; [reflexivity|contradiction].
  - destruct texts as [|x xs]; [contradiction|].
    cbn [fits] in Hfit. destruct Hfit as [Hpos [Htrim Hfit']].
    cbn [render_fields] in *. set (s := f_start f) in *.
    set (pre' := pre ++ spaces (s - pos)).
    assert (Hpre' : len pre' = s) by (unfold pre'; rewrite len_app, len_spaces; lia).
    set (R := render_fields t' (s + len x) xs) in *.
    assert (Hline : pre ++ (spaces (s - pos) ++ x ++ R) ++ tail = (pre' ++ x) ++ R ++ tail).
    { unfold pre'. rewrite !Text.app_assoc. reflexivity. }
    assert (Hlen' : len ((pre' ++ x) ++ R) <= limit).
    { unfold pre'. rewrite !Text.app_assoc. exact Hlen. }
    cbn [cut_fields]. f_equal.
    + (* the first column *)
      rewrite Hline. rewrite Text.app_assoc.
      set (e := match t' with g :: _ => f_start g | [] => limit end).
      assert (He : s + len x <= e).
      { unfold e. destruct t' as [|g t''].
        - rewrite len_app, len_app in Hlen'. lia.
        - destruct xs as [|x' xs']; [contradiction|]. cbn [fits] in Hfit'. lia. }
      assert (Hs : slice s e (pre' ++ x ++ R ++ tail) = slice 0 (e - s) (x ++ R ++ tail)).
      { rewrite <- (slice_app_shift pre' 0 (e - s)). f_equal; lia. }
      fold s. rewrite Hs. unfold slice. rewrite drop_0, Nat.sub_0_r.
      rewrite take_app. rewrite (take_all (e - s) x) by lia.
      rewrite strip_app_space; [apply strip_trimmed; exact Htrim|].
      unfold e, R. destruct t' as [|g t''].
      * destruct xs; [|contradiction]. cbn [render_fields]. apply all_by_take. exact Htail.
      * destruct xs as [|x' xs']; [contradiction|]. cbn [fits] in Hfit'. cbn [render_fields].
        rewrite !Text.app_assoc.
        replace (f_start g - s - len x) with (len (spaces (f_start g - (s + len x))))
          by (rewrite len_spaces; lia).
        rewrite take_app_len. apply all_space_spaces.
    + rewrite Hline. apply IH.
      * rewrite len_app. lia.
      * exact Hfit'.
      * exact Hlen'.
Qed.

Lemma break_hash_off l : cut_comment all_off l = l.
Proof. reflexivity. Qed.

Lemma all_space_nl : all_space nl = true.
Proof. reflexivity. Qed.

Lemma line_texts_render t limit texts :
  fits t 0 texts -> len (render_line t texts) <= limit ->
  line_texts all_off t limit (render_line t texts) = texts.
Proof.
  intros Hf Hl. unfold line_texts, render_line. rewrite break_hash_off.
  apply (cut_render limit nl all_space_nl t texts 0 "" eq_refl Hf). exact Hl.
Qed.

Lemma fold_max_ge (l : list nat) a x : In x l -> x <= fold_right Nat.max a l.
Proof.
  induction l as [|y l IH]; [intros []|]. intros [H|H]; cbn [fold_right].
  - subst. apply Nat.le_max_l.
  - etransitivity; [apply IH; exact H|apply Nat.le_max_r].
Qed.

Lemma line_limit_ge lines l : In l lines -> len l < line_limit all_off lines.
Proof.
  intros H. unfold line_limit. cbn [q_limit81 all_off].
  assert (len l + 1 <= fold_right Nat.max 81 (map (fun l => len l + 1) lines)).
  { apply fold_max_ge. apply (in_map (fun l => len l + 1)) in H. exact H. }
  lia.
Qed.

Lemma parse_render t rows :
  Forall (fits t 0) rows ->
  parse_lines all_off false t (map (render_line t) rows) = map (convert_row t) rows.
Proof.
  intros H. unfold parse_lines. cbn [negb].
  set (limit := line_limit all_off (map (render_line t) rows)).
  assert (Hl : forall r, In r rows -> len (render_line t r) <= limit).
  { intros r Hr. apply Nat.lt_le_incl. apply line_limit_ge. apply in_map. exact Hr. }
  clearbody limit. induction rows as [|r rows IH]; [reflexivity|].
  inversion H as [|a b Ha Hb]. subst. cbn [map]. f_equal.
  - rewrite line_texts_render; [reflexivity|exact Ha|apply Hl; left; reflexivity].
  - apply IH; [exact Hb|intros r' Hr'; apply Hl; right; exact Hr'].
Qed.

(* ------------------------------------------------------------------------------------------ quirk witnesses *)
Definition wit_table : table := table_of [("code", 1, "U4", ""); ("text", 6, "U120", "")].

Lemma hash_refuted :
  line_texts (mkQ true false false false) wit_table 81 " AB#D some text" <> line_texts all_off wit_table 81 " AB#D some text".
Proof. vm_compute. discriminate. Qed.

Definition wit_long : string := "0123456789012345678901234567890123456789012345678901234567890123456789012345678901234".
Lemma limit81_refuted :
  fits wit_table 0 ["ABCD"; wit_long] /\
  parse_lines (mkQ false true false false) false wit_table [render_line wit_table ["ABCD"; wit_long]]
  <> [convert_row wit_table ["ABCD"; wit_long]].
Proof. split; [vm_compute; auto|vm_compute; discriminate]. Qed.

Lemma compact_refuted :
  parse_matrix 0%Z (mkQ false false true false) true [(3, 1, [Some 4%Z; None; Some 6%Z])] 3 3 <> 6%Z /\
  parse_matrix 0%Z all_off true [(3, 1, [Some 4%Z; None; Some 6%Z])] 3 3 = 6%Z.
Proof. split; vm_compute; [discriminate|reflexivity]. Qed.

(* ------------------------------------------------------------------------------------------ epochs *)
Definition dchar (d : Z) : ascii := ascii_of_nat (48 + Z.to_nat d).
Definition d2 (n : Z) : string := String (dchar (n / 10)) (String (dchar (n mod 10)) "").
Definition d3 (n : Z) : string := String (dchar (n / 100)) (d2 (n mod 100)).
Definition zero_chars (yy doy : Z) : bool := (d2 yy =? "00") && (d3 doy =? "000").

(* the rule of the format: YY <= 50 -> 20YY, YY > 50 -> 19YY; DDD day of year (000 read as 001 unless the whole
   field is 00:000:00000, which means "open"); SSSSS seconds of day added *)
Definition epoch_expected (yy doy : Z) (sec_text_zero : bool) (sec : Z) : option Z :=
  if ((yy =? 0) && (doy =? 0))%Z && sec_text_zero then None
  else if (366 <? doy)%Z then None
  else Some (epoch_seconds ((if (50 <? yy)%Z then 1900 else 2000) + yy) (Z.max doy 1) sec).

Lemma convert_epoch_chars a1 a2 b1 b2 b3 s5 :
  convert_epoch (String a1 (String a2 (String ":" (String b1 (String b2 (String b3 (String ":" s5))))))) =
  epoch_parts ((String a1 (String a2 "") =? "00") && (String b1 (String b2 (String b3 "")) =? "000") && (s5 =? "00000"))
              (String a1 (String a2 "")) ":" (String b1 (String b2 (String b3 ""))) s5.
Proof.
  unfold convert_epoch. cbn.
  destruct (Ascii.eqb a1 "0"), (Ascii.eqb a2 "0"), (Ascii.eqb b1 "0"), (Ascii.eqb b2 "0"), (Ascii.eqb b3 "0"); reflexivity.
Qed.

Lemma epoch_parts_sec z a sep d s :
  epoch_parts z a sep d s =
  match epoch_parts z a sep d "0", digits_val s with
  | Some b, Some sv => Some (b + sv)%Z
  | _, _ => None
  end.
Proof.
  unfold epoch_parts.
  destruct (if Nat.eqb (len a) 2 then digits_val a else None) as [y2|]; [|reflexivity].
  destruct (if (negb z && (d =? "000") || (sep =? ":")) &&
               Nat.eqb (len (if negb z && (d =? "000") then "001" else d)) 3
            then parse_doy (if negb z && (d =? "000") then "001" else d) else None) as [dv|]; [|reflexivity].
  change (digits_val "0") with (Some 0%Z). cbv iota beta.
  destruct (digits_val s) as [sv|]; [|reflexivity].
  f_equal. unfold epoch_seconds. lia.
Qed.

Definition optZ_eqb (a b : option Z) : bool :=
  match a, b with Some x, Some y => Z.eqb x y | None, None => true | _, _ => false end.
Lemma optZ_eqb_eq a b : optZ_eqb a b = true -> a = b.
Proof. destruct a, b; cbn; try discriminate; [intros H; apply Z.eqb_eq in H; subst|]; reflexivity. Qed.

Definition Zs (n : nat) : list Z := map Z.of_nat (seq 0 n).
Lemma Zs_in n z : (0 <= z < Z.of_nat n)%Z -> In z (Zs n).
Proof. intros H. unfold Zs. apply in_map_iff. exists (Z.to_nat z). split; [lia|]. apply in_seq. lia. Qed.

Definition epoch_case (yy doy : Z) (b : bool) : bool :=
  optZ_eqb (epoch_parts (zero_chars yy doy && b) (d2 yy) ":" (d3 doy) "0") (epoch_expected yy doy b 0).

Lemma epoch_cases_all :
  forallb (fun yy => forallb (fun doy => epoch_case yy doy true && epoch_case yy doy false) (Zs 1000)) (Zs 100) = true.
Proof. vm_compute. reflexivity. Qed.

Lemma epoch_rule yy doy s5 sec :
  (0 <= yy < 100)%Z -> (0 <= doy < 1000)%Z -> digits_val s5 = Some sec ->
  convert_epoch (d2 yy ++ ":" ++ d3 doy ++ ":" ++ s5) = epoch_expected yy doy (s5 =? "00000") sec.
Proof.
  intros Hy Hd Hs.
  pose proof (convert_epoch_chars (dchar (yy / 10)) (dchar (yy mod 10)) (dchar (doy / 100))
                (dchar (doy mod 100 / 10)) (dchar (doy mod 100 mod 10)) s5) as HA.
  etransitivity; [exact HA|].
  change (epoch_parts (zero_chars yy doy && (s5 =? "00000")) (d2 yy) ":" (d3 doy) s5 =
          epoch_expected yy doy (s5 =? "00000") sec).
  rewrite epoch_parts_sec, Hs.
  pose proof epoch_cases_all as HC. rewrite forallb_forall in HC.
  specialize (HC yy (Zs_in 100 yy Hy)). rewrite forallb_forall in HC.
  specialize (HC doy (Zs_in 1000 doy Hd)). apply andb_prop in HC. destruct HC as [HT HF].
  assert (HB : epoch_parts (zero_chars yy doy && (s5 =? "00000")) (d2 yy) ":" (d3 doy) "0" =
               epoch_expected yy doy (s5 =? "00000") 0).
  { destruct (s5 =? "00000"); apply optZ_eqb_eq; [exact HT|exact HF]. }
  rewrite HB. unfold epoch_expected.
  destruct (((yy =? 0) && (doy =? 0))%Z && (s5 =? "00000")); [reflexivity|].
  destruct (366 <? doy)%Z; [reflexivity|]. f_equal. unfold epoch_seconds. lia.
Qed.

(* ------------------------------------------------------------------------------------------ degrees minutes seconds *)
Lemma dms_rule d m s nd qd nm qm ns qs :
  is_token d = true -> is_token m = true -> is_token s = true ->
  parse_decimal d = Some (nd, qd) -> parse_decimal m = Some (nm, qm) -> parse_decimal s = Some (ns, qs) ->
  convert_dms (join " " [d; m; s]) =
  Some (Qred (if nd then - (Qabs qd + qm * (1 # 60) + qs * (1 # 3600)) else (Qabs qd + qm * (1 # 60) + qs * (1 # 3600))))%Q.
Proof.
  intros Td Tm Ts Hd Hm Hs. unfold convert_dms.
  rewrite split_join by (repeat constructor; assumption).
  cbn [map]. rewrite Hd, Hm, Hs. reflexivity.
Qed.

Lemma parse_decimal_minus r nd q : parse_decimal (String "-" r) = Some (nd, q) -> nd = true.
Proof.
  unfold parse_decimal. cbn [split_sign].
  destruct (break (fun c => is_char "e" c || is_char "E" c) r) as [mant ex].
  destruct (break (is_char ".") mant) as [ip fpo].
  destruct (negb (all_digits ip && all_digits match fpo with Some f => f | None => "" end) ||
            Nat.eqb (len ip + len match fpo with Some f => f | None => "" end) 0); [discriminate|].
  destruct ex as [t|].
  - destruct (split_sign t) as [eneg ed]. destruct (digits_val ed); [|discriminate]. intros H. inversion H. reflexivity.
  - intros H. inversion H. reflexivity.
Qed.

Lemma dms_minus_zero : convert_dms "-0 06 46.0" = Some (-203 # 1800)%Q (* -(6/60 + 46/3600) *) /\ convert_dms " -00 25 18.6" = convert_dms "-0 25 18.6".
Proof. split; vm_compute; reflexivity. Qed.


(* ------------------------------------------------------------------------------------------ 0-d / 1-d results *)
Lemma atleast_1d_shape {A} (rows : list A) : atleast_1d (genfromtxt_shape rows) = rows.
Proof. destruct rows as [|r [|r' rs]]; reflexivity. Qed.

Lemma stored_rows_all_off {A} (rows : list A) : stored_rows all_off rows = Some rows.
Proof. unfold stored_rows. cbn [q_scalar all_off]. rewrite atleast_1d_shape. reflexivity. Qed.

Lemma scalar_refuted {A} (r : A) :
  stored_rows (mkQ false false false true) [r] = None /\ stored_rows all_off [r] = Some [r].
Proof. split; reflexivity. Qed.

Lemma parse_block_render t rows :
  t <> [] -> Forall (fits t 0) rows ->
  parse_block all_off false t (map (render_line t) rows) = Some (map (convert_row t) rows).
Proof.
  intros Ht H. unfold parse_block. destruct t as [|f t']; [congruence|].
  rewrite parse_render by exact H. apply stored_rows_all_off.
Qed.
