(* C19 - update_from_options: how a command-line option is taken apart. *)
From Coq Require Import ZArith List Bool String Ascii Lia.
From Verif Require Import Gen.C19_BoolStates Model.C19_Config Proofs.C19_Config.
Import ListNotations.
Open Scope string_scope.

Lemma aux_none c s : has_char c s = false -> rpartition_aux c s = None.
Proof.
  unfold has_char. induction s as [|x r IH]; [reflexivity|]. cbn [sany rpartition_aux]. intros H.
  apply orb_false_iff in H. destruct H as [Hx Hr]. rewrite (IH Hr), Ascii.eqb_sym, Hx. reflexivity.
Qed.

Lemma aux_app c a b : has_char c b = false -> rpartition_aux c (a ++ String c b) = Some (a, b).
Proof.
  intros H. induction a as [|x r IH]; simpl.
  - rewrite (aux_none c b H), Ascii.eqb_refl. reflexivity.
  - rewrite IH. reflexivity.
Qed.

Lemma rpartition_app c a b : has_char c b = false -> rpartition c (a ++ String c b) = (a, b).
Proof. intros H. unfold rpartition. rewrite (aux_app c a b H). reflexivity. Qed.

Lemma rpartition_none c s : has_char c s = false -> rpartition c s = (EmptyString, s).
Proof. intros H. unfold rpartition. rewrite (aux_none c s H). reflexivity. Qed.

Definition plain (s : string) : Prop := has_char colon s = false /\ has_char eqsign s = false.

Lemma has_eq_mid a b : has_char eqsign (a ++ String eqsign b) = true.
Proof. unfold has_char. rewrite any_app. simpl. rewrite orb_true_r. reflexivity. Qed.

(* --section:key=value *)
Lemma option_section_key c sec key val p src :
  sec <> EmptyString -> plain sec -> plain key ->
  option_upd c ("--" ++ sec ++ ":" ++ key ++ "=" ++ val) p src =
  Some (Ok (Upd sec key val p (src ++ " (" ++ ("--" ++ sec ++ ":" ++ key ++ "=" ++ val) ++ ")") [])).
Proof.
  intros Ns [Sc Se] [Kc Ke]. unfold option_upd.
  set (opt := "--" ++ sec ++ ":" ++ key ++ "=" ++ val).
  assert (E1 : opt = "--" ++ (sec ++ ":" ++ key) ++ String eqsign val) by (unfold opt; rewrite !app_assoc_s; reflexivity).
  assert (H1 : (prefix_b "--" opt && has_char eqsign opt)%bool = true).
  { rewrite E1. change ("--" ++ (sec ++ ":" ++ key) ++ String eqsign val) with (String "-" (String "-" ((sec ++ ":" ++ key) ++ String eqsign val))).
    cbn [prefix_b]. rewrite !Ascii.eqb_refl. cbn [andb]. unfold has_char. cbn [sany].
    change (sany (Ascii.eqb eqsign) ((sec ++ ":" ++ key) ++ String eqsign val)) with (has_char eqsign ((sec ++ ":" ++ key) ++ String eqsign val)).
    rewrite has_eq_mid. rewrite !orb_true_r. reflexivity. }
  rewrite H1.
  assert (D : drop 2 opt = (sec ++ ":" ++ key) ++ String eqsign val) by (rewrite E1; reflexivity).
  rewrite D. rewrite partition_app_nochar.
  - change (sec ++ ":" ++ key) with (sec ++ String colon key). rewrite (rpartition_app colon sec key Kc).
    rewrite (rpartition_none colon sec Sc). cbn [nonempty andb]. destruct sec; [contradiction|reflexivity].
  - unfold has_char in *. rewrite !any_app, Se, Ke. reflexivity.
Qed.

(* --name:section:key=value : taken when the name is this configuration's name, ignored otherwise *)
Lemma option_named c name sec key val p src :
  sec <> EmptyString -> name <> EmptyString -> plain name -> plain sec -> plain key ->
  option_upd c ("--" ++ name ++ ":" ++ sec ++ ":" ++ key ++ "=" ++ val) p src =
  if String.eqb name (c_name c)
  then Some (Ok (Upd sec key val p (src ++ " (" ++ ("--" ++ name ++ ":" ++ sec ++ ":" ++ key ++ "=" ++ val) ++ ")") []))
  else None.
Proof.
  intros Ns Nn [Nc Ne] [Sc Se] [Kc Ke]. unfold option_upd.
  set (opt := "--" ++ name ++ ":" ++ sec ++ ":" ++ key ++ "=" ++ val).
  set (sk := (name ++ String colon sec) ++ String colon key).
  assert (E1 : opt = "--" ++ sk ++ String eqsign val) by (unfold opt, sk; rewrite !app_assoc_s; reflexivity).
  assert (H1 : (prefix_b "--" opt && has_char eqsign opt)%bool = true).
  { rewrite E1. change ("--" ++ sk ++ String eqsign val) with (String "-" (String "-" (sk ++ String eqsign val))).
    cbn [prefix_b]. rewrite !Ascii.eqb_refl. cbn [andb]. unfold has_char. cbn [sany].
    change (sany (Ascii.eqb eqsign) (sk ++ String eqsign val)) with (has_char eqsign (sk ++ String eqsign val)).
    rewrite has_eq_mid. rewrite !orb_true_r. reflexivity. }
  rewrite H1.
  assert (D : drop 2 opt = sk ++ String eqsign val) by (rewrite E1; reflexivity).
  rewrite D. rewrite partition_app_nochar.
  - unfold sk. rewrite (rpartition_app colon (name ++ String colon sec) key Kc).
    rewrite (rpartition_app colon name sec Sc).
    destruct name as [|a n']; [contradiction|]. cbn [nonempty andb].
    destruct (String.eqb (String a n') (c_name c)); cbn [negb]; [|reflexivity]. destruct sec; [contradiction|reflexivity].
  - unfold sk, has_char in *. rewrite ?any_app. cbn [sany]. rewrite ?any_app. cbn [sany]. rewrite Ne, Se, Ke. reflexivity.
Qed.

(* --key=value : the master section *)
Lemma option_master c key val p src :
  plain key ->
  option_upd c ("--" ++ key ++ "=" ++ val) p src =
  match master_section c with
  | Ok (m, _) => Some (Ok (Upd m key val p (src ++ " (" ++ ("--" ++ key ++ "=" ++ val) ++ ")") []))
  | Err e => Some (Err e)
  end.
Proof.
  intros [Kc Ke]. unfold option_upd. set (opt := "--" ++ key ++ "=" ++ val).
  assert (E1 : opt = "--" ++ key ++ String eqsign val) by reflexivity.
  assert (H1 : (prefix_b "--" opt && has_char eqsign opt)%bool = true).
  { rewrite E1. change ("--" ++ key ++ String eqsign val) with (String "-" (String "-" (key ++ String eqsign val))).
    cbn [prefix_b]. rewrite !Ascii.eqb_refl. cbn [andb]. unfold has_char. cbn [sany].
    change (sany (Ascii.eqb eqsign) (key ++ String eqsign val)) with (has_char eqsign (key ++ String eqsign val)).
    rewrite has_eq_mid. rewrite !orb_true_r. reflexivity. }
  rewrite H1. assert (D : drop 2 opt = key ++ String eqsign val) by reflexivity. rewrite D.
  rewrite (partition_app_nochar eqsign key val Ke). rewrite (rpartition_none colon key Kc).
  change (rpartition colon EmptyString) with (EmptyString, EmptyString). cbn [nonempty andb].
  destruct (master_section c) as [[m s]|e]; reflexivity.
Qed.

(* anything else is ignored *)
Lemma option_ignored c opt p src :
  prefix_b "--" opt = false \/ has_char eqsign opt = false -> option_upd c opt p src = None.
Proof. intros [H|H]; unfold option_upd; rewrite H; [reflexivity|rewrite andb_false_r; reflexivity]. Qed.
