(* C05 - accuracy of the one-step algorithm on curves (restricted statements, see Proofs/C05_Accuracy.v): definitions and
   the reduction of  trs2llh (llh2trs (phi, lambda, h))  to the meridian plane. *)
From Coq Require Import Reals ZArith QArith Qreals List Bool Lra Lia.
From Interval Require Import Tactic.
From Verif Require Import Lib.Dyadic Lib.Atan2 Lib.Ival Lib.C05_Prog Model.C05_Geodetic Proofs.C05_Geodetic.
Import ListNotations.
Open Scope R_scope.

(* the non-pole branch of _trs2llh in the meridian plane y = 0, x = p > 0, z > 0, written out *)
Definition merid_S (a f p z : R) : R :=
  let e2 := ell_e2 a f in let ec := sqrt (1 - e2) in
  halley_S e2 ec (p / a) (ec * (z / a)) (z / a) (ec * (p / a)).
Definition merid_C (a f p z : R) : R :=
  let e2 := ell_e2 a f in let ec := sqrt (1 - e2) in
  ec * halley_C e2 ec (p / a) (ec * (z / a)) (z / a) (ec * (p / a)).
Definition merid_lat (a f p z : R) : R := atan (merid_S a f p z / merid_C a f p z).
Definition merid_h (a f p z : R) : R :=
  let s1 := merid_S a f p z in let cc := merid_C a f p z in
  (p * cc + z * s1 - a * sqrt ((1 - ell_e2 a f) * s1² + cc²)) / sqrt (s1² + cc²).

Lemma trs2llh_meridian a f p z : 0 < p -> 0 < z -> ~ is_pole a p 0 ->
  trs2llh_R a f p 0 z = (merid_lat a f p z, 0, merid_h a f p z).
Proof.
  intros Hp Hz Hnp. unfold trs2llh_R, is_pole in *.
  destruct (Rle_dec _ _) as [C|_]; [contradiction|].
  assert (E1 : sqrt (p² + 0²) = p).
  { replace (p² + 0²) with (p²) by (unfold Rsqr; ring). apply sqrt_Rsqr. lra. }
  assert (E2 : Rabs z = z) by (apply Rabs_pos_eq; lra).
  assert (E3 : sign_R z = 1) by (unfold sign_R; destruct (Rlt_dec 0 z); [reflexivity | contradiction]).
  assert (E4 : atan2 0 p = 0).
  { rewrite atan2_pos_x by exact Hp. unfold Rdiv. rewrite Rmult_0_l. apply atan_0. }
  rewrite E1, E2, E3, E4. unfold merid_lat, merid_h, merid_S, merid_C.
  cbv zeta. rewrite Rmult_1_r. reflexivity.
Qed.

(* latitude and height only depend on the distance from the axis (rotational symmetry) *)
Lemma trs2llh_axial a f x y z :
  lat_of (trs2llh_R a f x y z) = lat_of (trs2llh_R a f (sqrt (x² + y²)) 0 z)
  /\ h_of (trs2llh_R a f x y z) = h_of (trs2llh_R a f (sqrt (x² + y²)) 0 z).
Proof.
  assert (E : (sqrt (x² + y²))² + 0² = x² + y²).
  { replace ((sqrt (x² + y²))² + 0²) with (sqrt (x² + y²) * sqrt (x² + y²)) by (unfold Rsqr; ring).
    apply sqrt_sqrt. unfold Rsqr; nra. }
  unfold trs2llh_R. rewrite E.
  destruct (Rle_dec _ _); unfold lat_of, h_of; simpl; split; reflexivity.
Qed.

(* the point at geodetic latitude phi, height h (llh2trs_R), in the meridian plane *)
Definition geo_p (a f phi h : R) : R := (a / sqrt ((cos phi)² + (1 - f)² * (sin phi)²) + h) * cos phi.
Definition geo_z (a f phi h : R) : R := ((1 - f)² * (a / sqrt ((cos phi)² + (1 - f)² * (sin phi)²)) + h) * sin phi.

Lemma llh2trs_geo a f phi lam h :
  llh2trs_R a f phi lam h = (geo_p a f phi h * cos lam, geo_p a f phi h * sin lam, geo_z a f phi h).
Proof. reflexivity. Qed.

(* the round trip llh -> trs -> llh on the whole parallel circle, from bounds in the meridian plane *)
Lemma roundtrip_from_meridian a f phi lam h el eh :
  0 < geo_p a f phi h -> 0 < geo_z a f phi h -> ~ is_pole a (geo_p a f phi h) 0 ->
  Rabs (merid_lat a f (geo_p a f phi h) (geo_z a f phi h) - phi) <= el ->
  Rabs (merid_h a f (geo_p a f phi h) (geo_z a f phi h) - h) <= eh ->
  let '(x, y, z) := llh2trs_R a f phi lam h in
  Rabs (lat_of (trs2llh_R a f x y z) - phi) <= el /\ Rabs (h_of (trs2llh_R a f x y z) - h) <= eh.
Proof.
  intros Hp Hz Hnp Hl Hh. rewrite llh2trs_geo.
  set (p := geo_p a f phi h) in *. set (z := geo_z a f phi h) in *.
  destruct (trs2llh_axial a f (p * cos lam) (p * sin lam) z) as [E1 E2]. rewrite E1, E2.
  assert (Er : sqrt ((p * cos lam)² + (p * sin lam)²) = p).
  { replace ((p * cos lam)² + (p * sin lam)²) with (p² * ((sin lam)² + (cos lam)²)) by (unfold Rsqr; ring).
    rewrite sin2_cos2, Rmult_1_r. apply sqrt_Rsqr. lra. }
  rewrite Er, (trs2llh_meridian a f p z Hp Hz Hnp). unfold lat_of, h_of; simpl. split; assumption.
Qed.

(* GRS80 *)
Definition grs80_a : R := 6378137.
Definition grs80_f : R := 1 / 298.257222101.

Lemma grs80_is_published :
  ell_params 2 = Some (6378137 # 1, Qinv (298257222101 # 1000000000))%Q
  /\ Q2R (6378137 # 1) = grs80_a /\ Q2R (Qinv (298257222101 # 1000000000)) = grs80_f.
Proof.
  split; [reflexivity|]. unfold grs80_a, grs80_f, Q2R; simpl. split; field.
Qed.

Ltac unfold_all :=
  unfold merid_lat, merid_h, merid_S, merid_C, geo_p, geo_z, halley_S, halley_C, halley_d0, halley_f0, halley_b0, ell_e2, ell_b,
    grs80_a, grs80_f, q_three_halves, Rsqr, Q2R; simpl Qnum; simpl Qden; cbv zeta.

(* positivity on the whole band (plain interval arithmetic in two variables) *)
Lemma band_positive phi h : 0 < phi <= 157/100 -> -100000 <= h <= 100000 ->
  0 < geo_p grs80_a grs80_f phi h /\ 0 < geo_z grs80_a grs80_f phi h /\ ~ is_pole grs80_a (geo_p grs80_a grs80_f phi h) 0.
Proof.
  intros Hphi Hh.
  assert (Hp : 1 < geo_p grs80_a grs80_f phi h) by (unfold_all; interval).
  assert (Hs : 0 < sin phi).
  { apply sin_gt_0; [lra|]. assert (157 / 100 < PI) by interval. lra. }
  assert (Hk : 1 < (1 - grs80_f)² * (grs80_a / sqrt ((cos phi)² + (1 - grs80_f)² * (sin phi)²)) + h)
    by (unfold_all; interval).
  split; [lra|]. split.
  - unfold geo_z. apply Rmult_lt_0_compat; [lra | exact Hs].
  - unfold is_pole. intros C. assert (H2 : grs80_a² * Q2R q_pole < 1) by (unfold grs80_a, q_pole, Rsqr, Q2R; simpl; interval).
    unfold Rsqr in *. nra.
Qed.
