(* C02 - time formats: lemmas (all proof work).  Statements of record are in Props/C02.v. *)
From Coq Require Import ZArith QArith Qround Qabs Qfield Bool List String Ascii Lia Lqa ZifyBool.
From Verif Require Import Lib.Dyadic Model.C02_Formats Gen.C02_Tables.
Import ListNotations.
Open Scope Z_scope.


(* ================================================================ part 1 *)

Lemma all_below_spec p : forall f lo, all_below p f lo = true -> forall z, lo <= z < lo + Zpos p -> f z = true.
Proof.
  induction p as [q IH|q IH|]; intros f lo H z Hz; cbn [all_below] in H.
  - apply andb_prop in H. destruct H as [H H3]. apply andb_prop in H. destruct H as [H1 H2].
    rewrite Pos2Z.inj_xI in Hz.
    destruct (Z_lt_dec z (lo + Zpos q)) as [L|L]; [apply (IH f lo H1); lia|].
    destruct (Z_lt_dec z (lo + Zpos q + Zpos q)) as [L2|L2]; [apply (IH f _ H2); lia|].
    assert (z = lo + 2 * Zpos q) by lia. subst z. exact H3.
  - apply andb_prop in H. destruct H as [H1 H2]. rewrite Pos2Z.inj_xO in Hz.
    destruct (Z_lt_dec z (lo + Zpos q)) as [L|L]; [apply (IH f lo H1); lia|apply (IH f _ H2); lia].
  - assert (z = lo) by lia. subst z. exact H.
Qed.

Lemma chkA_all : forall doe, 0 <= doe < 146097 -> chkA doe = true.
Proof.
  intros doe H. apply (all_below_spec 146097 chkA 0); [vm_cast_no_check (eq_refl true)|lia].
Qed.

Lemma chkB_all : forall yoe mp d, 0 <= yoe < 400 -> 0 <= mp < 12 -> 1 <= d < 32 -> chkB yoe mp d = true.
Proof.
  intros yoe mp d Hy Hm Hd.
  assert (G : all_below 400 (fun y => all_below 12 (fun m => all_below 31 (chkB y m) 1) 0) 0 = true)
    by (vm_cast_no_check (eq_refl true)).
  pose proof (all_below_spec _ _ _ G yoe ltac:(lia)) as G1. cbv beta in G1.
  pose proof (all_below_spec _ _ _ G1 mp ltac:(lia)) as G2. cbv beta in G2.
  exact (all_below_spec _ _ _ G2 d ltac:(lia)).
Qed.

Lemma is_leap_period y k : is_leap (y + k * 400) = is_leap y.
Proof.
  unfold is_leap.
  replace ((y + k * 400) mod 4) with (y mod 4) by (replace (k * 400) with (k * 100 * 4) by ring; now rewrite Z.mod_add).
  replace ((y + k * 400) mod 100) with (y mod 100) by (replace (k * 400) with (k * 4 * 100) by ring; now rewrite Z.mod_add).
  replace ((y + k * 400) mod 400) with (y mod 400) by (now rewrite Z.mod_add).
  reflexivity.
Qed.

Lemma civil_from_days_spec z :
  let '(y, m, d) := civil_from_days z in days_from_civil y m d = z /\ valid_date y m d = true.
Proof.
  unfold civil_from_days.
  set (z' := z + 719468). set (era := z' / 146097). set (doe := z' mod 146097).
  assert (Hdoe : 0 <= doe < 146097) by (apply Z.mod_pos_bound; lia).
  assert (Hz : z' = 146097 * era + doe) by (apply Z.div_mod; lia).
  pose proof (chkA_all doe Hdoe) as HA. unfold chkA in HA.
  destruct (ymd_of_doe doe) as [[yoe mp] d].
  repeat (apply andb_prop in HA; destruct HA as [HA ?]).
  assert (E1 : doe_of yoe mp d = doe) by lia.
  assert (Hyoe : 0 <= yoe < 400) by lia. assert (Hmp : 0 <= mp < 12) by lia.
  unfold days_from_civil, valid_date, days_in_month.
  unfold mlen' in *.
  destruct (mp <? 10) eqn:M10.
  - (* months March .. December *)
    assert (M : (mp + 3 <=? 2) = false) by lia. rewrite !M.
    replace (mp + 3 - 3) with mp by ring.
    replace (yoe + era * 400 + 0) with (yoe + era * 400) by ring.
    rewrite Z.div_add by lia. rewrite Z.mod_add by lia.
    rewrite Z.div_small by lia. rewrite Z.mod_small by lia.
    split; [rewrite E1; lia|].
    assert ((mp =? 11) = false) by lia.
    assert ((mp + 3 =? 2) = false) by lia.
    replace (mp + 3 =? 4) with (mp =? 1) by lia. replace (mp + 3 =? 6) with (mp =? 3) by lia.
    replace (mp + 3 =? 9) with (mp =? 6) by lia. replace (mp + 3 =? 11) with (mp =? 8) by lia.
    rewrite H5 in *. rewrite H6.
    destruct ((mp =? 1) || (mp =? 3) || (mp =? 6) || (mp =? 8)); lia.
  - assert (M : (mp - 9 <=? 2) = true) by lia. rewrite !M.
    replace (mp - 9 + 9) with mp by ring.
    replace (yoe + era * 400 + 1 - 1) with (yoe + era * 400) by ring.
    rewrite Z.div_add by lia. rewrite Z.mod_add by lia.
    rewrite Z.div_small by lia. rewrite Z.mod_small by lia.
    split; [rewrite E1; lia|].
    replace (yoe + era * 400 + 1) with (yoe + 1 + era * 400) by ring. rewrite is_leap_period.
    assert ((mp =? 1) || (mp =? 3) || (mp =? 6) || (mp =? 8) = false) as E by lia. rewrite E in *.
    assert ((mp - 9 =? 4) || (mp - 9 =? 6) || (mp - 9 =? 9) || (mp - 9 =? 11) = false) as E' by lia. rewrite E'.
    replace (mp - 9 =? 2) with (mp =? 11) by lia.
    destruct (mp =? 11); destruct (is_leap (yoe + 1)); lia.
Qed.

(* ================================================================ part 2 *)

Lemma civil_of_days_from y m d :
  valid_date y m d = true -> civil_from_days (days_from_civil y m d) = (y, m, d).
Proof.
  unfold valid_date, days_in_month. intros V.
  unfold days_from_civil.
  set (y' := if m <=? 2 then y - 1 else y).
  set (mp := if m <=? 2 then m + 9 else m - 3).
  set (era := y' / 400). set (yoe := y' mod 400).
  assert (Hyoe : 0 <= yoe < 400) by (apply Z.mod_pos_bound; lia).
  assert (Hy : y' = 400 * era + yoe) by (apply Z.div_mod; lia).
  assert (Hmp : 0 <= mp < 12) by (unfold mp; destruct (m <=? 2) eqn:E; lia).
  assert (Hleap : is_leap (yoe + 1) = is_leap (y' + 1)).
  { rewrite Hy. replace (400 * era + yoe + 1) with (yoe + 1 + era * 400) by ring. now rewrite is_leap_period. }
  assert (Hd : 1 <= d <= mlen' yoe mp).
  { unfold mlen'. rewrite Hleap. unfold mp, y'. destruct (m <=? 2) eqn:E.
    - replace (y - 1 + 1) with y by ring.
      assert ((m + 9 =? 1) || (m + 9 =? 3) || (m + 9 =? 6) || (m + 9 =? 8) = false) as E1 by lia. rewrite E1.
      assert ((m =? 4) || (m =? 6) || (m =? 9) || (m =? 11) = false) as E2 by lia. rewrite E2 in V.
      replace (m + 9 =? 11) with (m =? 2) by lia.
      destruct (m =? 2); destruct (is_leap y); lia.
    - assert ((m - 3 =? 11) = false) as E0 by lia. rewrite E0.
      assert ((m =? 2) = false) as E3 by lia. rewrite E3 in V.
      replace (m - 3 =? 1) with (m =? 4) by lia. replace (m - 3 =? 3) with (m =? 6) by lia.
      replace (m - 3 =? 6) with (m =? 9) by lia. replace (m - 3 =? 8) with (m =? 11) by lia.
      destruct ((m =? 4) || (m =? 6) || (m =? 9) || (m =? 11)); lia. }
  assert (Hd32 : 1 <= d < 32).
  { unfold mlen' in Hd. destruct (mp =? 11); [destruct (is_leap (yoe + 1)); lia|].
    destruct ((mp =? 1) || (mp =? 3) || (mp =? 6) || (mp =? 8)); lia. }
  pose proof (chkB_all yoe mp d Hyoe Hmp Hd32) as HB. unfold chkB in HB.
  assert (Ed : (d <=? mlen' yoe mp) = true) by lia. rewrite Ed in HB.
  set (doe := doe_of yoe mp d) in *.
  unfold civil_from_days.
  replace (era * 146097 + doe - 719468 + 719468) with (doe + era * 146097) by ring.
  apply andb_prop in HB. destruct HB as [HB HC]. apply andb_prop in HB. destruct HB as [HB1 HB2].
  rewrite Z.mod_add by lia. rewrite Z.div_add by lia.
  rewrite Z.mod_small by lia. rewrite Z.div_small by lia.
  destruct (ymd_of_doe doe) as [[a b] c].
  apply andb_prop in HC. destruct HC as [HC Hc]. apply andb_prop in HC. destruct HC as [Ha Hb].
  assert (a = yoe) by lia. assert (b = mp) by lia. assert (c = d) by lia. subst a b c.
  unfold mp, y' in *. destruct (m <=? 2) eqn:E.
  - assert ((m + 9 <? 10) = false) as E1 by lia. rewrite E1.
    replace (m + 9 - 9) with m by ring. rewrite E.
    f_equal. f_equal. lia.
  - assert ((m - 3 <? 10) = true) as E1 by lia. rewrite E1.
    replace (m - 3 + 3) with m by ring. rewrite E.
    f_equal. f_equal. lia.
Qed.

(* ================================================================ part 3 *)

Lemma sod_split_join h mi s us :
  valid_tod h mi s us = true -> sod_split (sod_join h mi s us) = (h, mi, s, us) /\ 0 <= sod_join h mi s us < US_DAY.
Proof.
  unfold valid_tod, sod_split, sod_join, US_S, US_DAY. intros V.
  assert (0 <= h < 24 /\ 0 <= mi < 60 /\ 0 <= s < 60 /\ 0 <= us < 1000000) as (Hh & Hm & Hs & Hu) by lia.
  set (S := (h * 60 + mi) * 60 + s).
  assert (E1 : (S * 1000000 + us) / 1000000 = S) by (rewrite Z.div_add_l by lia; rewrite Z.div_small by lia; lia).
  assert (E2 : (S * 1000000 + us) mod 1000000 = us) by (rewrite Z.add_comm, Z.mod_add by lia; apply Z.mod_small; lia).
  rewrite E1, E2. unfold S.
  split; [|lia].
  assert (A1 : ((h * 60 + mi) * 60 + s) / 3600 = h).
  { replace ((h * 60 + mi) * 60 + s) with (mi * 60 + s + h * 3600) by ring.
    rewrite Z.div_add by lia. rewrite Z.div_small by lia. lia. }
  assert (A2 : (((h * 60 + mi) * 60 + s) / 60) mod 60 = mi).
  { rewrite Z.div_add_l by lia. rewrite (Z.div_small s) by lia.
    rewrite Z.add_0_r. rewrite Z.add_comm, Z.mod_add by lia. apply Z.mod_small; lia. }
  assert (A3 : ((h * 60 + mi) * 60 + s) mod 60 = s).
  { rewrite Z.add_comm, Z.mod_add by lia. apply Z.mod_small; lia. }
  rewrite A1, A2, A3. reflexivity.
Qed.

Lemma sod_join_split r :
  0 <= r < US_DAY ->
  let '(h, mi, s, us) := sod_split r in sod_join h mi s us = r /\ valid_tod h mi s us = true.
Proof.
  unfold sod_split, sod_join, valid_tod, US_S, US_DAY. intros Hr.
  set (S := r / 1000000).
  assert (HS : 0 <= S < 86400) by (unfold S; split; [apply Z.div_pos; lia|apply Z.div_lt_upper_bound; lia]).
  pose proof (Z.div_mod r 1000000 ltac:(lia)) as E. fold S in E.
  pose proof (Z.mod_pos_bound r 1000000 ltac:(lia)) as B.
  pose proof (Z.div_mod S 60 ltac:(lia)) as E1. pose proof (Z.mod_pos_bound S 60 ltac:(lia)) as B1.
  pose proof (Z.div_mod (S / 60) 60 ltac:(lia)) as E2. pose proof (Z.mod_pos_bound (S / 60) 60 ltac:(lia)) as B2.
  assert (E3 : S / 3600 = S / 60 / 60) by (rewrite Z.div_div by lia; reflexivity).
  assert (0 <= S / 3600 < 24) by (split; [apply Z.div_pos; lia|apply Z.div_lt_upper_bound; lia]).
  split; [|lia].
  rewrite E3. lia.
Qed.

Lemma us_of_dt_of_us u : us_of_dt (dt_of_us u) = u /\ valid_dt (dt_of_us u) = true.
Proof.
  unfold dt_of_us, us_of_dt, valid_dt.
  pose proof (civil_from_days_spec (u / US_DAY + D2000)) as C.
  destruct (civil_from_days (u / US_DAY + D2000)) as [[y m] d]. destruct C as [C1 C2].
  assert (Hr : 0 <= u mod US_DAY < US_DAY) by (apply Z.mod_pos_bound; reflexivity).
  pose proof (sod_join_split _ Hr) as J.
  destruct (sod_split (u mod US_DAY)) as [[[h mi] s] us]. destruct J as [J1 J2].
  cbn [dY dMo dD dH dMi dS dUs]. rewrite C1, C2, J1, J2. split; [|reflexivity].
  pose proof (Z.div_mod u US_DAY ltac:(discriminate)). lia.
Qed.

Lemma dt_of_us_of_dt x : valid_dt x = true -> dt_of_us (us_of_dt x) = x.
Proof.
  destruct x as [y m d h mi s us]. unfold valid_dt, us_of_dt, dt_of_us. cbn [dY dMo dD dH dMi dS dUs].
  intros V. apply andb_prop in V. destruct V as [V1 V2].
  destruct (sod_split_join h mi s us V2) as [S1 S2].
  set (r := sod_join h mi s us) in *. set (n := days_from_civil y m d).
  assert (E1 : ((n - D2000) * US_DAY + r) / US_DAY = n - D2000).
  { rewrite Z.div_add_l by discriminate. rewrite Z.div_small by lia. lia. }
  assert (E2 : ((n - D2000) * US_DAY + r) mod US_DAY = r).
  { rewrite Z.add_comm, Z.mod_add by discriminate. apply Z.mod_small; lia. }
  rewrite E1, E2. replace (n - D2000 + D2000) with n by ring. unfold n.
  rewrite (civil_of_days_from y m d V1). rewrite S1. reflexivity.
Qed.

Lemma Qfloor_unique (x : Q) (k : Z) : (Qz k <= x)%Q -> (x < Qz k + 1)%Q -> Qfloor x = k.
Proof.
  intros L U. unfold Qz in *.
  pose proof (Qfloor_le x) as L'. pose proof (Qlt_floor x) as U'. set (j := Qfloor x) in *.
  assert (H : (inject_Z j < inject_Z (k + 1))%Q) by (rewrite inject_Z_plus; change (inject_Z 1) with 1%Q; lra).
  assert (H0 : (inject_Z k < inject_Z (j + 1))%Q) by lra.
  rewrite <- Zlt_Qlt in H, H0. lia.
Qed.

Lemma jd_int_of_grid (k : Z) (f : Q) : (0 <= f)%Q -> (f < 1)%Q -> (jd_int_q (Qz k + (1 # 2) + f) == Qz k + (1 # 2))%Q.
Proof.
  intros H0 H1. unfold jd_int_q.
  rewrite (Qfloor_unique (Qz k + (1 # 2) + f - (1 # 2)) k); [reflexivity|lra|lra].
Qed.

(* ---------------------------------------------------------------- jd split *)
Lemma jd_split_spec (v : Q) :
  (exists k : Z, jd_int_q v == Qz k + (1 # 2))%Q /\ (0 <= jd_frac_q v)%Q /\ (jd_frac_q v < 1)%Q /\ (jd_int_q v + jd_frac_q v == v)%Q.
Proof.
  unfold jd_frac_q, jd_int_q, Qz.
  pose proof (Qfloor_le (v - (1 # 2))) as L. pose proof (Qlt_floor (v - (1 # 2))) as U.
  set (k := Qfloor (v - (1 # 2))) in *.
  rewrite inject_Z_plus in U. change (inject_Z 1) with 1%Q in U.
  split; [exists k; reflexivity|].
  split; [lra|]. split; [lra|ring].
Qed.

(* ---------------------------------------------------------------- numeric formats, exact *)
Lemma mjd_rt T : (jd_of_mjd (mjd_of_jd T) == T)%Q.
Proof. unfold jd_of_mjd, mjd_of_jd. ring. Qed.
Lemma mjd_rt' v : (mjd_of_jd (jd_of_mjd v) == v)%Q.
Proof. unfold jd_of_mjd, mjd_of_jd. ring. Qed.
Lemma gpssec_rt T : (jd_of_gpssec (gpssec_of_jd T) == T)%Q.
Proof. unfold jd_of_gpssec, gpssec_of_jd. field. Qed.
Lemma gpssec_rt' v : (gpssec_of_jd (jd_of_gpssec v) == v)%Q.
Proof. unfold jd_of_gpssec, gpssec_of_jd. field. Qed.
Lemma jyear_rt T : (jd_of_jyear (jyear_of_jd T) == T)%Q.
Proof. unfold jd_of_jyear, jyear_of_jd, JYEAR. field. Qed.
Lemma jyear_rt' v : (jyear_of_jd (jd_of_jyear v) == v)%Q.
Proof. unfold jd_of_jyear, jyear_of_jd, JYEAR. field. Qed.

(* gps week / seconds: no bound on the week (T may lie before 1980 as well) *)
Lemma gpsws_rt T :
  let '(w, s, d) := gpsws_of_jd T in
  (jd_of_gpsws (Qz w) s == T)%Q /\ (0 <= s)%Q /\ (s < 604800)%Q /\ 0 <= d < 7 /\ (Qz d * 86400 <= s)%Q /\ (s < (Qz d + 1) * 86400)%Q.
Proof.
  unfold gpsws_of_jd, jd_of_gpsws.
  set (D := (T - JD1980)%Q). set (w := Qfloor (D / 7)).
  pose proof (Qfloor_le (D / 7)) as L. pose proof (Qlt_floor (D / 7)) as U. fold w in L, U.
  rewrite inject_Z_plus in U. change (inject_Z 1) with 1%Q in U.
  assert (ED : (D == 7 * (D / 7))%Q) by field.
  assert (E0 : (JD1980 + 7 * Qz w + (D - 7 * Qz w) * 86400 / 86400 == T)%Q) by (unfold D; field).
  set (q7 := (D / 7)%Q) in *.
  set (s := ((D - 7 * Qz w) * 86400)%Q) in *. unfold Qz in *.
  assert (Ls : (0 <= s)%Q) by (unfold s; lra).
  assert (Us : (s < 604800)%Q) by (unfold s; lra).
  pose proof (Qfloor_le (s / 86400)) as L2. pose proof (Qlt_floor (s / 86400)) as U2.
  set (d := Qfloor (s / 86400)) in *. rewrite inject_Z_plus in U2. change (inject_Z 1) with 1%Q in U2.
  assert (ES : (s == 86400 * (s / 86400))%Q) by field.
  clearbody s. set (q8 := (s / 86400)%Q) in *.
  assert (A1 : (inject_Z d * 86400 <= s)%Q) by lra.
  assert (A2 : (s < (inject_Z d + 1) * 86400)%Q) by lra.
  split; [exact E0|]. split; [exact Ls|]. split; [exact Us|].
  split; [|split; assumption].
  assert (H : (inject_Z d < inject_Z 7)%Q) by (change (inject_Z 7) with 7%Q; lra).
  assert (H0 : (inject_Z (-1) < inject_Z d)%Q) by (change (inject_Z (-1)) with (-1)%Q; lra).
  rewrite <- Zlt_Qlt in H, H0. lia.
Qed.

Lemma gpsws_rt' (w : Z) (s : Q) : (0 <= s)%Q -> (s < 604800)%Q ->
  let '(w', s', d') := gpsws_of_jd (jd_of_gpsws (Qz w) s) in w' = w /\ (s' == s)%Q /\ d' = Qfloor (s / 86400).
Proof.
  intros L U. unfold gpsws_of_jd, jd_of_gpsws.
  set (D := (JD1980 + 7 * Qz w + s / 86400 - JD1980)%Q).
  assert (ES : (s == 86400 * (s / 86400))%Q) by field.
  assert (ED : (D == 7 * Qz w + s / 86400)%Q) by (unfold D; ring).
  assert (ED7 : (D == 7 * (D / 7))%Q) by field.
  assert (EW : Qfloor (D / 7) = w).
  { set (q8 := (s / 86400)%Q) in *. set (q7 := (D / 7)%Q) in *. apply Qfloor_unique; lra. }
  rewrite EW.
  assert (ES' : ((D - 7 * Qz w) * 86400 == s)%Q) by (rewrite ED; field).
  split; [reflexivity|]. split; [exact ES'|]. now rewrite ES'.
Qed.

(* ================================================================ part 4 *)

(* ---------------------------------------------------------------- day of year *)
Lemma dfc_period y k m d : days_from_civil (y + k * 400) m d = days_from_civil y m d + k * 146097.
Proof.
  unfold days_from_civil. destruct (m <=? 2).
  - replace (y + k * 400 - 1) with (y - 1 + k * 400) by ring.
    rewrite Z.div_add by lia. rewrite Z.mod_add by lia. ring.
  - rewrite Z.div_add by lia. rewrite Z.mod_add by lia. ring.
Qed.

Definition chkY (y m d : Z) : bool :=
  (days_from_civil (y + 1) 1 1 - days_from_civil y 1 1 =? year_len y) &&
  (if valid_date y m d then (0 <=? days_from_civil y m d - days_from_civil y 1 1) &&
                            (days_from_civil y m d - days_from_civil y 1 1 <? year_len y) else true).

Lemma chkY_all0 y m d : 0 <= y < 400 -> 1 <= m < 13 -> 1 <= d < 32 -> chkY y m d = true.
Proof.
  intros Hy Hm Hd.
  assert (G : all_below 400 (fun y => all_below 12 (fun m => all_below 31 (chkY y m) 1) 1) 0 = true)
    by (vm_cast_no_check (eq_refl true)).
  pose proof (all_below_spec _ _ _ G y ltac:(lia)) as G1. cbv beta in G1.
  pose proof (all_below_spec _ _ _ G1 m ltac:(lia)) as G2. cbv beta in G2.
  exact (all_below_spec _ _ _ G2 d ltac:(lia)).
Qed.

Lemma valid_date_period y k m d : valid_date (y + k * 400) m d = valid_date y m d.
Proof. unfold valid_date, days_in_month. now rewrite is_leap_period. Qed.

Lemma year_len_spec y : days_from_civil (y + 1) 1 1 - days_from_civil y 1 1 = year_len y.
Proof.
  pose proof (Z.div_mod y 400 ltac:(lia)) as E. pose proof (Z.mod_pos_bound y 400 ltac:(lia)) as B.
  set (y0 := y mod 400) in *. set (k := y / 400) in *.
  pose proof (chkY_all0 y0 1 1 B ltac:(lia) ltac:(lia)) as C. unfold chkY in C.
  apply andb_prop in C. destruct C as [C _].
  replace y with (y0 + k * 400) by lia. replace (y0 + k * 400 + 1) with (y0 + 1 + k * 400) by ring.
  rewrite !dfc_period. unfold year_len in *. rewrite is_leap_period. lia.
Qed.

Lemma doy_bounds y m d : valid_date y m d = true -> 1 <= day_of_year y m d <= year_len y.
Proof.
  intros V. unfold day_of_year.
  pose proof (Z.div_mod y 400 ltac:(lia)) as E. pose proof (Z.mod_pos_bound y 400 ltac:(lia)) as B.
  set (y0 := y mod 400) in *. set (k := y / 400) in *.
  assert (Ey : y = y0 + k * 400) by lia. rewrite Ey in *.
  rewrite valid_date_period in V.
  assert (Hm : 1 <= m < 13) by (unfold valid_date in V; lia).
  assert (Hd : 1 <= d < 32).
  { unfold valid_date, days_in_month in V. destruct (m =? 2); [destruct (is_leap y0)|destruct ((m =? 4) || (m =? 6) || (m =? 9) || (m =? 11))]; lia. }
  pose proof (chkY_all0 y0 m d B Hm Hd) as C. unfold chkY in C. rewrite V in C.
  rewrite !dfc_period. unfold year_len in *. rewrite is_leap_period. lia.
Qed.

Lemma date_of_yday_of_date y m d : valid_date y m d = true -> date_of_yday y (day_of_year y m d) = (y, m, d).
Proof.
  intros V. unfold date_of_yday, day_of_year.
  replace (days_from_civil y 1 1 + (days_from_civil y m d - days_from_civil y 1 1 + 1) - 1) with (days_from_civil y m d) by ring.
  now apply civil_of_days_from.
Qed.

(* ---------------------------------------------------------------- decimal year *)
Lemma year_of_jd_bounds T :
  let y := year_of_jd T in (jd_of_date y 1 1 <= T)%Q /\ (T < jd_of_date y 1 1 + cal_len y)%Q.
Proof.
  unfold year_of_jd, jd_of_date, cal_len.
  set (n := Qfloor (T - JD1970)).
  pose proof (Qfloor_le (T - JD1970)) as L. pose proof (Qlt_floor (T - JD1970)) as U. fold n in L, U.
  pose proof (civil_from_days_spec n) as C. destruct (civil_from_days n) as [[y m] d]. destruct C as [C1 C2].
  cbn [fst].
  pose proof (doy_bounds y m d C2) as Bd. unfold day_of_year in Bd. rewrite C1 in Bd.
  pose proof (year_len_spec y) as Y.
  assert (B1 : days_from_civil y 1 1 <= n) by lia.
  assert (B2 : n + 1 <= days_from_civil y 1 1 + year_len y) by lia.
  rewrite Y.
  unfold Qz in *. rewrite Zle_Qle in B1, B2. rewrite !inject_Z_plus in B2. rewrite inject_Z_plus in U. change (inject_Z 1) with 1%Q in *.
  split; lra.
Qed.

Lemma decyear_rt (ylen : Z -> Q) T :
  (cal_len (year_of_jd T) <= ylen (year_of_jd T))%Q ->
  (jd_of_decyear ylen (decyear_of_jd ylen T) == T)%Q.
Proof.
  intros Hl. pose proof (year_of_jd_bounds T) as B. cbv zeta in B. destruct B as [B1 B2].
  unfold jd_of_decyear, decyear_of_jd.
  set (y := year_of_jd T) in *. set (st := jd_of_date y 1 1) in *.
  assert (Hc : (0 < cal_len y)%Q).
  { unfold cal_len, Qz. rewrite (year_len_spec y). unfold year_len. destruct (is_leap y); reflexivity. }
  assert (Hp : (0 < ylen y)%Q) by lra.
  set (fr := ((T - st) / ylen y)%Q).
  assert (E : (T - st == fr * ylen y)%Q) by (unfold fr; field; lra).
  assert (F0 : (0 <= fr)%Q) by (unfold fr; apply Qle_shift_div_l; lra).
  assert (F1 : (fr < 1)%Q) by (unfold fr; apply Qlt_shift_div_r; lra).
  assert (EF : Qfloor (Qz y + fr) = y) by (apply Qfloor_unique; lra).
  rewrite EF. fold st. setoid_replace (Qz y + fr - Qz y)%Q with fr by ring. lra.
Qed.

(* ================================================================ part 5 *)

Lemma digit_val_char d : 0 <= d <= 9 -> digit_val (digit_char d) = Some d.
Proof.
  intros H.
  assert (d = 0 \/ d = 1 \/ d = 2 \/ d = 3 \/ d = 4 \/ d = 5 \/ d = 6 \/ d = 7 \/ d = 8 \/ d = 9) as C by lia.
  repeat (destruct C as [->|C]; [reflexivity|]). subst d. reflexivity.
Qed.

Lemma take_num_digits w : forall n rest acc,
  0 <= n < 10 ^ Z.of_nat w ->
  take_num w (digits w n ++ rest)%string acc = Some (acc * 10 ^ Z.of_nat w + n, rest).
Proof.
  induction w as [|w IH]; intros n rest acc H.
  - cbn in *. f_equal. f_equal. lia.
  - cbn [digits take_num append].
    set (p := 10 ^ Z.of_nat w) in *.
    assert (Hp : 0 < p) by (apply Z.pow_pos_nonneg; lia).
    assert (E : 10 ^ Z.of_nat (S w) = 10 * p) by (rewrite Nat2Z.inj_succ, Z.pow_succ_r by lia; reflexivity).
    rewrite E in *.
    assert (Hq : 0 <= n / p <= 9).
    { split; [apply Z.div_pos; lia|]. assert (n / p < 10) by (apply Z.div_lt_upper_bound; lia). lia. }
    rewrite digit_val_char by exact Hq.
    rewrite IH by (apply Z.mod_pos_bound; lia).
    f_equal. f_equal. pose proof (Z.div_mod n p ltac:(lia)). fold p. lia.
Qed.

Lemma parse_render_app p : forall vs, fits p vs -> parse p (render p vs) = Some vs.
Proof.
  induction p as [|t p IH]; intros vs F.
  - cbn in *. subst. reflexivity.
  - destruct t as [w|c].
    + destruct vs as [|v vs]; [contradiction|]. destruct F as [Fv F].
      cbn [render parse]. rewrite take_num_digits by exact Fv. rewrite IH by exact F.
      replace (0 * 10 ^ Z.of_nat w + v) with v by lia. reflexivity.
    + cbn [render parse]. rewrite Ascii.eqb_refl. apply IH. exact F.
Qed.

(* ================================================================ part 6 *)

Lemma hms_of_sod h mi s : 0 <= h < 24 -> 0 <= mi < 60 -> 0 <= s < 60 ->
  let S := (h * 60 + mi) * 60 + s in S / 3600 = h /\ (S / 60) mod 60 = mi /\ S mod 60 = s /\ 0 <= S < 86400.
Proof.
  intros Hh Hm Hs. cbv zeta.
  split; [|split; [|split]].
  - replace ((h * 60 + mi) * 60 + s) with (mi * 60 + s + h * 3600) by ring.
    rewrite Z.div_add by lia. rewrite Z.div_small by lia. lia.
  - rewrite Z.div_add_l by lia. rewrite (Z.div_small s) by lia.
    rewrite Z.add_0_r. rewrite Z.add_comm, Z.mod_add by lia. apply Z.mod_small; lia.
  - rewrite Z.add_comm, Z.mod_add by lia. apply Z.mod_small; lia.
  - lia.
Qed.

Lemma valid_date_bounds y m d : valid_date y m d = true -> 1 <= m <= 12 /\ 1 <= d <= 31.
Proof.
  unfold valid_date, days_in_month. intros V.
  destruct (m =? 2); [destruct (is_leap y)|destruct ((m =? 4) || (m =? 6) || (m =? 9) || (m =? 11))]; lia.
Qed.

Lemma year_len_le y : year_len y <= 366.
Proof. unfold year_len. destruct (is_leap y); lia. Qed.

Lemma dt_of_yday_ok y m d h mi s us : valid_date y m d = true ->
  dt_of_yday y (day_of_year y m d) h mi s us = Some (Dt y m d h mi s us).
Proof.
  intros V. unfold dt_of_yday. pose proof (doy_bounds y m d V) as B.
  replace ((1 <=? day_of_year y m d) && (day_of_year y m d <=? year_len y)) with true by lia.
  rewrite date_of_yday_of_date by exact V. reflexivity.
Qed.

Lemma text_roundtrip_dt f x :
  valid_dt x = true -> year_ok f (dY x) = true ->
  us_of_text f (render (pattern f) (fields_of_dt f x)) = Some (trunc_us f (us_of_dt x)).
Proof.
  destruct x as [y m d h mi s us]. unfold valid_dt. cbn [dY dMo dD dH dMi dS dUs]. intros V YO.
  apply andb_prop in V. destruct V as [V1 V2].
  pose proof (valid_date_bounds y m d V1) as [Bm Bd].
  pose proof (doy_bounds y m d V1) as Bj. pose proof (year_len_le y) as Yl.
  assert (0 <= h < 24 /\ 0 <= mi < 60 /\ 0 <= s < 60 /\ 0 <= us < 1000000) as (Hh & Hm & Hs & Hu) by (unfold valid_tod in V2; lia).
  pose proof (hms_of_sod h mi s Hh Hm Hs) as HS. cbv zeta in HS. destruct HS as (S1 & S2 & S3 & S4).
  destruct (sod_split_join h mi s us V2) as [_ Sr].
  assert (Vt0 : valid_tod h mi s 0 = true) by (unfold valid_tod in *; lia).
  unfold us_of_text. pose proof YO as YO'.
  destruct f; cbn [year_ok] in YO'; cbn [pattern fields_of_dt dY dMo dD dH dMi dS dUs].
  - rewrite parse_render_app by (cbn; repeat split; lia).
    cbn [dt_of_fields]. unfold valid_dt. cbn [dY dMo dD dH dMi dS dUs]. rewrite V1, V2, YO. reflexivity.
  - rewrite parse_render_app by (cbn; repeat split; lia).
    cbn [dt_of_fields]. unfold valid_dt. cbn [dY dMo dD dH dMi dS dUs]. rewrite V1, V2, YO. reflexivity.
  - rewrite parse_render_app by (cbn; repeat split; lia).
    cbn [dt_of_fields]. rewrite dt_of_yday_ok by exact V1.
    unfold valid_dt. cbn [dY dMo dD dH dMi dS dUs]. rewrite V1, V2, YO. reflexivity.
  - rewrite parse_render_app by (cbn; repeat split; lia).
    cbn [dt_of_fields]. unfold valid_dt. cbn [dY dMo dD dH dMi dS dUs]. rewrite V1, YO.
    change (valid_tod 0 0 0 0) with true. cbn [andb]. f_equal.
    unfold us_of_dt, trunc_us. cbn [dY dMo dD dH dMi dS dUs].
    set (n := days_from_civil y m d - D2000). set (r := sod_join h mi s us) in *.
    change (sod_join 0 0 0 0) with 0.
    assert (E : (n * US_DAY + r) mod US_DAY = r) by (rewrite Z.add_comm, Z.mod_add by discriminate; apply Z.mod_small; lia).
    rewrite E. lia.
  - assert (Eyy : yy_to_year (y mod 100) = y).
    { unfold yy_to_year. pose proof (Z.div_mod y 100 ltac:(lia)). pose proof (Z.mod_pos_bound y 100 ltac:(lia)).
      destruct (69 <=? y mod 100) eqn:E; lia. }
    rewrite parse_render_app by (cbn; repeat split; try lia; apply Z.mod_pos_bound; lia).
    cbn [dt_of_fields]. replace ((h * 60 + mi) * 60 + s <? 86400) with true by lia.
    rewrite Eyy, S1, S2, S3. rewrite dt_of_yday_ok by exact V1.
    unfold valid_dt. cbn [dY dMo dD dH dMi dS dUs]. rewrite V1, Vt0, YO. cbn [andb]. f_equal.
    unfold us_of_dt, trunc_us, sod_join, US_S, US_DAY in *. cbn [dY dMo dD dH dMi dS dUs].
    set (n := days_from_civil y m d - D2000). set (S := (h * 60 + mi) * 60 + s) in *.
    replace (n * 86400000000 + (S * 1000000 + us)) with (us + (n * 86400 + S) * 1000000) by ring.
    rewrite Z.mod_add by lia. rewrite Z.mod_small by lia. lia.
  - rewrite parse_render_app by (cbn; repeat split; lia).
    cbn [dt_of_fields]. replace ((h * 60 + mi) * 60 + s <? 86400) with true by lia.
    rewrite S1, S2, S3. rewrite dt_of_yday_ok by exact V1.
    unfold valid_dt. cbn [dY dMo dD dH dMi dS dUs]. rewrite V1, Vt0, YO. cbn [andb]. f_equal.
    unfold us_of_dt, trunc_us, sod_join, US_S, US_DAY in *. cbn [dY dMo dD dH dMi dS dUs].
    set (n := days_from_civil y m d - D2000). set (S := (h * 60 + mi) * 60 + s) in *.
    replace (n * 86400000000 + (S * 1000000 + us)) with (us + (n * 86400 + S) * 1000000) by ring.
    rewrite Z.mod_add by lia. rewrite Z.mod_small by lia. lia.
Qed.

Lemma text_roundtrip f u :
  year_ok f (dY (dt_of_us u)) = true -> us_of_text f (text_of_us f u) = Some (trunc_us f u).
Proof.
  intros YO. destruct (us_of_dt_of_us u) as [E V]. unfold text_of_us.
  rewrite text_roundtrip_dt by assumption. now rewrite E.
Qed.

(* what the text denotes lies within the resolution of the format, below the instant *)
Lemma trunc_us_bounds f u :
  0 <= u - trunc_us f u < match f with Tdate => US_DAY | Tyy | Tyyyy => US_S | _ => 1 end.
Proof.
  destruct f; cbn [trunc_us]; try lia.
  - pose proof (Z.mod_pos_bound u US_DAY ltac:(reflexivity)). lia.
  - pose proof (Z.mod_pos_bound u US_S ltac:(reflexivity)). lia.
  - pose proof (Z.mod_pos_bound u US_S ltac:(reflexivity)). lia.
Qed.

Lemma trunc_us_idem f u : trunc_us f (trunc_us f u) = trunc_us f u.
Proof.
  destruct f; cbn [trunc_us]; try reflexivity.
  - rewrite (Zminus_mod u), Z.mod_mod, Z.sub_diag, Z.mod_0_l by discriminate. lia.
  - rewrite (Zminus_mod u), Z.mod_mod, Z.sub_diag, Z.mod_0_l by discriminate. lia.
  - rewrite (Zminus_mod u), Z.mod_mod, Z.sub_diag, Z.mod_0_l by discriminate. lia.
Qed.

(* ================================================================ part 7 *)

(* ---------------------------------------------------------------- the specification split is the exact one *)
Lemma split_all_off jd1 jd2 :
  (fst (split_model all_off jd1 jd2) == jd_int_q (jd1 + jd2))%Q /\
  (snd (split_model all_off jd1 jd2) == jd_frac_q (jd1 + jd2))%Q.
Proof.
  unfold split_model, fl. cbn [q_rounded_sum all_off fst snd].
  rewrite !Qred_correct. unfold jd_frac_q, jd_int_q. split; ring.
Qed.

(* ---------------------------------------------------------------- the rounded-sum quirk breaks the invariant *)
Definition w_jd1 : Q := 4917817 # 2.                                  (* 2458908.5 = 2020-02-29T00:00 *)
Definition w_jd2 : Q := 9007199253698459 # 9007199254740992.          (* the double of 23:59:59.999990 / 86400 *)

Lemma rounded_sum_refuted :
  exists jd1 jd2 : Q,
    (exists k : Z, jd1 == Qz k + (1 # 2))%Q /\ (0 <= jd2)%Q /\ (jd2 < 1)%Q /\
    (snd (split_model quirk_rounded_sum jd1 jd2) < 0)%Q /\
    ~ (fst (split_model quirk_rounded_sum jd1 jd2) == jd_int_q (jd1 + jd2))%Q.
Proof.
  exists w_jd1, w_jd2. split; [exists 2458908; reflexivity|].
  split; [discriminate|]. split; [reflexivity|].
  split; [vm_compute; reflexivity|].
  intros H. apply Qeq_bool_iff in H. vm_compute in H. discriminate.
Qed.

(* ---------------------------------------------------------------- regenerated data against the specification *)
Definition gen_constants_ok : bool :=
  Qeq_bool gen_day2seconds 86400 && Qeq_bool gen_day2second 86400 && Qeq_bool gen_week2days 7 &&
  Qeq_bool gen_julian_year2day JYEAR && Qeq_bool gen_fmt_day2seconds 86400 && Qeq_bool gen_fmt_week2days 7 &&
  is_nearest_double (1 # 86400) gen_second2day && is_nearest_double (4 # 1461) gen_day2julian_year &&
  Qeq_bool gen_mjd0 MJD0 && Qeq_bool gen_dt_jd2000 JD2000 &&
  Qeq_bool gen_gpsws_epoch JD1980 && Qeq_bool gen_gpssec_epoch JD1980 &&
  Qeq_bool gen_jyear_jd2000 JDJ2000 && Qeq_bool gen_jyear_j2000 2000 &&
  (match gen_dt2000 with
   | [y; m; d; h; mi; s; us] => (us_of_dt (Dt y m d h mi s us) =? 0) && valid_dt (Dt y m d h mi s us)
   | _ => false
   end) &&
  (match gen_wsfields with [a; b; c] => String.eqb a "week" && String.eqb b "seconds" && String.eqb c "day" | _ => false end).

Lemma gen_constants_ok_true : gen_constants_ok = true.
Proof. vm_compute. reflexivity. Qed.

Definition tok_eqb (a b : tok) : bool :=
  match a, b with
  | Num v, Num w => Nat.eqb v w
  | Lit c, Lit d => Ascii.eqb c d
  | _, _ => false
  end.
Fixpoint toks_eqb (a b : list tok) : bool :=
  match a, b with
  | [], [] => true
  | x :: a', y :: b' => tok_eqb x y && toks_eqb a' b'
  | _, _ => false
  end.

Definition spec_strftime_table : list (string * tfmt) :=
  [("isot"%string, Tisot); ("iso"%string, Tiso); ("yday"%string, Tyday); ("date"%string, Tdate)].

Fixpoint patterns_ok (g : list (string * string)) (s : list (string * tfmt)) : bool :=
  match g, s with
  | [], [] => true
  | (n, p) :: g', (n', f) :: s' =>
      String.eqb n n' && String.eqb p (spec_strftime f) &&
      (match toks_of_strftime p with Some l => toks_eqb l (pattern f) | None => false end) && patterns_ok g' s'
  | _, _ => false
  end.

Lemma gen_patterns_ok : patterns_ok gen_strftime spec_strftime_table = true.
Proof. vm_compute. reflexivity. Qed.

(* the two :sssss patterns of the specification are the strftime part followed by a 5-digit field *)
Lemma sssss_patterns :
  toks_of_strftime (spec_strftime Tyy) = Some (removelast (pattern Tyy)) /\
  toks_of_strftime (spec_strftime Tyyyy) = Some (removelast (pattern Tyyyy)).
Proof. split; reflexivity. Qed.

Definition spec_formats : list string :=
  ["jd"; "mjd"; "datetime"; "gps_ws"; "gps_seconds"; "jyear"; "decimalyear"; "yydddsssss"; "yyyydddsssss";
   "isot"; "iso"; "yday"; "date"]%string.
Fixpoint strs_eqb (a b : list string) : bool :=
  match a, b with
  | [], [] => true
  | x :: a', y :: b' => String.eqb x y && strs_eqb a' b'
  | _, _ => false
  end.
Lemma gen_formats_ok : strs_eqb gen_formats spec_formats = true.
Proof. vm_compute. reflexivity. Qed.

(* the year the code divides by is never shorter than the calendar year (so year + fraction stays below year + 1) *)
Definition ylen_ok (y : Z) : bool := Qle_bool (cal_len y) (ylen_utc gen_taiutc y).
Lemma gen_ylen_ok y : 1900 <= y <= 2100 -> (cal_len y <= ylen_utc gen_taiutc y)%Q.
Proof.
  intros H. apply Qle_bool_iff. change (ylen_ok y = true).
  apply (all_below_spec 201 ylen_ok 1900); [vm_compute; reflexivity|lia].
Qed.

Lemma decyear_rt_gen s T : 1900 <= year_of_jd T <= 2100 ->
  (jd_of_decyear (ylen_of gen_taiutc s) (decyear_of_jd (ylen_of gen_taiutc s) T) == T)%Q.
Proof.
  intros H. apply decyear_rt. destruct s; cbn [ylen_of]; try apply Qle_refl. now apply gen_ylen_ok.
Qed.

(* ---------------------------------------------------------------- all formats of one instant agree *)
(* the text of every text format denotes the grid point at or below the instant, within the resolution *)
Lemma text_within_res' f u : year_ok f (dY (dt_of_us u)) = true ->
  exists g, us_of_text f (text_of_us f u) = Some g /\
            0 <= u - g < match f with Tdate => US_DAY | Tyy | Tyyyy => US_S | _ => 1 end.
Proof.
  intros H. exists (trunc_us f u). split; [now apply text_roundtrip|apply trunc_us_bounds].
Qed.

Lemma jd_of_us_inj u : (usq_of_jd (jd_of_us u) == Qz u)%Q.
Proof. unfold usq_of_jd, jd_of_us, Qz, US_DAY. field. Qed.

Lemma formats_agree_lemma (s : scale) (u : Z) :
  let T := jd_of_us u in
  1900 <= year_of_jd T <= 2100 ->
  1969 <= dY (dt_of_us u) <= 2068 ->
  (* numeric formats: exact *)
  (jd_of_mjd (mjd_of_jd T) == T)%Q /\
  (let '(w, sec, _) := gpsws_of_jd T in jd_of_gpsws (Qz w) sec == T)%Q /\
  (jd_of_gpssec (gpssec_of_jd T) == T)%Q /\
  (jd_of_jyear (jyear_of_jd T) == T)%Q /\
  (jd_of_decyear (ylen_of gen_taiutc s) (decyear_of_jd (ylen_of gen_taiutc s) T) == T)%Q /\
  (* datetime: exact on the microsecond grid *)
  us_of_dt (dt_of_us u) = u /\
  (* split *)
  (jd_int_q T + jd_frac_q T == T)%Q /\
  (* texts: the grid point below, within the resolution *)
  (forall f, exists g, us_of_text f (text_of_us f u) = Some g /\
                       0 <= u - g < match f with Tdate => US_DAY | Tyy | Tyyyy => US_S | _ => 1 end).
Proof.
  intros T HY Hy.
  split; [apply mjd_rt|]. split; [pose proof (gpsws_rt T) as G; destruct (gpsws_of_jd T) as [[w sec] d]; apply G|].
  split; [apply gpssec_rt|]. split; [apply jyear_rt|]. split; [now apply decyear_rt_gen|].
  split; [apply us_of_dt_of_us|]. split; [apply jd_split_spec|].
  intros f. apply text_within_res'. destruct f; cbn [year_ok]; lia.
Qed.
