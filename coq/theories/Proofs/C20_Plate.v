(* C20 / plate motion - proofs: omega x r is perpendicular to r and to omega, over Q and over R. *)
From Coq Require Import ZArith QArith Qabs Bool List String Reals Lra.
From Verif Require Import Lib.Dyadic Model.C20_Units Model.C20_Plate.
Open Scope Q_scope.

Lemma velocity_perp_position_l (w r : vec) : dot (velocity w r) r == 0.
Proof. destruct w as [[w0 w1] w2], r as [[r0 r1] r2]. unfold velocity, cross, dot. ring. Qed.

Lemma velocity_perp_pole_l (w r : vec) : dot (velocity w r) w == 0.
Proof. destruct w as [[w0 w1] w2], r as [[r0 r1] r2]. unfold velocity, cross, dot. ring. Qed.

Lemma velocity_linear_l (w r s : vec) (a b : Q) :
  veq (velocity w (vadd (vscale a r) (vscale b s))) (vadd (vscale a (velocity w r)) (vscale b (velocity w s))).
Proof.
  destruct w as [[w0 w1] w2], r as [[r0 r1] r2], s as [[s0 s1] s2].
  unfold velocity, cross, vadd, vscale, veq. repeat split; ring.
Qed.

Lemma velocity_zero_on_axis_l (w : vec) (k : Q) : veq (velocity w (vscale k w)) (0, 0, 0).
Proof. destruct w as [[w0 w1] w2]. unfold velocity, cross, vscale, veq. repeat split; ring. Qed.

(* the same over the reals (positions and poles are real vectors) *)
Open Scope R_scope.
Definition crossR (a b : R * R * R) : R * R * R :=
  let '(a0, a1, a2) := a in let '(b0, b1, b2) := b in
  (a1 * b2 - a2 * b1, a2 * b0 - a0 * b2, a0 * b1 - a1 * b0).
Definition dotR (a b : R * R * R) : R :=
  let '(a0, a1, a2) := a in let '(b0, b1, b2) := b in a0 * b0 + a1 * b1 + a2 * b2.

Lemma velocityR_perp_l (w r : R * R * R) : dotR (crossR w r) r = 0 /\ dotR (crossR w r) w = 0.
Proof. destruct w as [[w0 w1] w2], r as [[r0 r1] r2]. unfold crossR, dotR. split; ring. Qed.

(* the rational model is the restriction of the real one *)
Definition vQ2R (a : vec) : R * R * R := let '(a0, a1, a2) := a in (Q2R a0, Q2R a1, Q2R a2).
Lemma cross_Q2R (w r : vec) : vQ2R (cross w r) = crossR (vQ2R w) (vQ2R r).
Proof.
  destruct w as [[w0 w1] w2], r as [[r0 r1] r2]. unfold cross, crossR, vQ2R.
  rewrite !Qreals.Q2R_minus, !Qreals.Q2R_mult. reflexivity.
Qed.

(* ------------------------------------------------------------------ Euler pole round trip *)
From Verif Require Import Lib.Atan2.

Lemma spherical_cartesian_roundtrip_l lat lon om :
  -90 < lat < 90 -> -180 < lon <= 180 -> 0 < om ->
  to_spherical (to_cartesian (lat, lon, om)) = (lat, lon, om).
Proof.
  intros Hlat Hlon Hom. pose proof PI_RGT_0 as Hpi.
  unfold to_spherical, to_cartesian.
  set (la := lat * deg2rad). set (lo := lon * deg2rad). set (w := om * deg2rad / 1000000).
  assert (Hw : 0 < w) by (unfold w, deg2rad; apply Rdiv_lt_0_compat; [apply Rmult_lt_0_compat; lra|lra]).
  assert (Hla : - (PI / 2) < la < PI / 2).
  { unfold la, deg2rad. split.
    - replace (- (PI / 2)) with (-90 * (PI / 180)) by field. apply Rmult_lt_compat_r; lra.
    - replace (PI / 2) with (90 * (PI / 180)) by field. apply Rmult_lt_compat_r; lra. }
  assert (Hlo : - PI < lo <= PI).
  { unfold lo, deg2rad. split.
    - replace (- PI) with (-180 * (PI / 180)) by field. apply Rmult_lt_compat_r; lra.
    - replace PI with (180 * (PI / 180)) at 2 by field. apply Rmult_le_compat_r; lra. }
  assert (Hc : 0 < cos la) by (apply cos_gt_0; lra).
  assert (E1 : w * cos la * cos lo * rad2mas * mas2rad = (w * cos la) * cos lo) by (unfold rad2mas, mas2rad; field; lra).
  assert (E2 : w * cos la * sin lo * rad2mas * mas2rad = (w * cos la) * sin lo) by (unfold rad2mas, mas2rad; field; lra).
  assert (E3 : w * sin la * rad2mas * mas2rad = w * sin la) by (unfold rad2mas, mas2rad; field; lra).
  rewrite E1, E2, E3.
  assert (K : 0 < w * cos la) by (apply Rmult_lt_0_compat; assumption).
  assert (S1 : sqrt (w * cos la * cos lo * (w * cos la * cos lo) + w * cos la * sin lo * (w * cos la * sin lo)) = w * cos la).
  { replace (w * cos la * cos lo * (w * cos la * cos lo) + w * cos la * sin lo * (w * cos la * sin lo))
      with ((w * cos la) * (w * cos la) * ((sin lo)² + (cos lo)²)) by (unfold Rsqr; ring).
    rewrite sin2_cos2, Rmult_1_r. apply sqrt_square. lra. }
  assert (S2 : sqrt (w * cos la * cos lo * (w * cos la * cos lo) + w * cos la * sin lo * (w * cos la * sin lo)
                     + w * sin la * (w * sin la)) = w).
  { replace (w * cos la * cos lo * (w * cos la * cos lo) + w * cos la * sin lo * (w * cos la * sin lo) + w * sin la * (w * sin la))
      with (w * w * ((cos la)² * ((sin lo)² + (cos lo)²) + (sin la)²)) by (unfold Rsqr; ring).
    rewrite sin2_cos2, Rmult_1_r, Rplus_comm, sin2_cos2, Rmult_1_r. apply sqrt_square. lra. }
  rewrite S2, S1.
  rewrite (atan2_polar w la Hw) by lra.
  rewrite (atan2_polar (w * cos la) lo K Hlo).
  f_equal; [f_equal|]; unfold la, lo, w, deg2rad, rad2deg; field; lra.
Qed.
