(* C20 / plate motion - proofs: omega x r is perpendicular to r and to omega, over Q and over R. *)
From Coq Require Import ZArith QArith Qabs Bool List String Reals Lra.
From Verif Require Import Lib.Dyadic Model.C20_Units Model.C20_Plate.
Open Scope Q_scope.

Lemma velocity_perp_position_l (w r : vec) : dot (velocity w r) r == 0.
Proof. destruct w as [[w0 w1] w2], r as [[r0 r1] r2]. unfold velocity, cross, dot. ring. Qed.

Lemma velocity_perp_pole_l (w r : vec) : dot (velocity w r) w == 0.
Proof. destruct w as [[w0 w1] w2], r as [[r0 r1] r2]. unfold velocity, cross, dot. ring. Qed.

Lemma velocity_linear_l (w r s : vec) (a b : Q) :
  veq (velocity w (vadd (vscale a r) (vscale b s))) (vadd (vscale a (velocity w r)) (vscale b (velocity w s))).
Proof.
  destruct w as [[w0 w1] w2], r as [[r0 r1] r2], s as [[s0 s1] s2].
  unfold velocity, cross, vadd, vscale, veq. repeat split; ring.
Qed.

Lemma velocity_zero_on_axis_l (w : vec) (k : Q) : veq (velocity w (vscale k w)) (0, 0, 0).
Proof. destruct w as [[w0 w1] w2]. unfold velocity, cross, vscale, veq. repeat split; ring. Qed.

(* the same over the reals (positions and poles are real vectors) *)
Open Scope R_scope.
Definition crossR (a b : R * R * R) : R * R * R :=
  let '(a0, a1, a2) := a in let '(b0, b1, b2) := b in
  (a1 * b2 - a2 * b1, a2 * b0 - a0 * b2, a0 * b1 - a1 * b0).
Definition dotR (a b : R * R * R) : R :=
  let '(a0, a1, a2) := a in let '(b0, b1, b2) := b in a0 * b0 + a1 * b1 + a2 * b2.

Lemma velocityR_perp_l (w r : R * R * R) : dotR (crossR w r) r = 0 /\ dotR (crossR w r) w = 0.
Proof. destruct w as [[w0 w1] w2], r as [[r0 r1] r2]. unfold crossR, dotR. split; ring. Qed.

(* the rational model is the restriction of the real one *)
Definition vQ2R (a : vec) : R * R * R := let '(a0, a1, a2) := a in (Q2R a0, Q2R a1, Q2R a2).
Lemma cross_Q2R (w r : vec) : vQ2R (cross w r) = crossR (vQ2R w) (vQ2R r).
Proof.
  destruct w as [[w0 w1] w2], r as [[r0 r1] r2]. unfold cross, crossR, vQ2R.
  rewrite !Qreals.Q2R_minus, !Qreals.Q2R_mult. reflexivity.
Qed.
