(* C20 / DOP - proofs: the Pythagorean identities for every cofactor matrix with non-negative diagonal,
   invariance under reordering of the satellites and under a common rotation of all azimuths. *)
From Coq Require Import ZArith QArith Bool List Reals Lra Permutation Morphisms Setoid.
From Verif Require Import Lib.Dyadic Model.C20_Dop.
Import ListNotations.
Open Scope R_scope.

(* ---- small matrix algebra on I4 -> I4 -> R *)
Lemma meq_refl A : meq A A. Proof. intros i j. reflexivity. Qed.
Lemma meq_sym A B : meq A B -> meq B A. Proof. intros H i j. symmetry. apply H. Qed.
Lemma meq_trans A B C : meq A B -> meq B C -> meq A C.
Proof. intros H1 H2 i j. rewrite H1. apply H2. Qed.

#[export] Instance meq_Equivalence : Equivalence meq.
Proof. split; [exact meq_refl | exact meq_sym | exact meq_trans]. Qed.

#[export] Instance mmul_Proper : Proper (meq ==> meq ==> meq) mmul.
Proof.
  intros A A' HA B B' HB i j. unfold mmul, sum4. rewrite !HA, !HB. reflexivity.
Qed.

Lemma mmul_assoc A B C : meq (mmul (mmul A B) C) (mmul A (mmul B C)).
Proof. intros i j. unfold mmul, sum4. ring. Qed.

Lemma mmul_I_l A : meq (mmul mI A) A.
Proof. intros i j. unfold mmul, sum4, mI. destruct i; simpl; ring. Qed.

Lemma mmul_I_r A : meq (mmul A mI) A.
Proof. intros i j. unfold mmul, sum4, mI. destruct j; simpl; ring. Qed.

Lemma inverse_unique N M M' : inverse_of N M -> inverse_of N M' -> meq M M'.
Proof.
  intros [_ H2] [H1' _].
  rewrite <- (mmul_I_r M). rewrite <- H1'. rewrite <- mmul_assoc. rewrite H2. apply mmul_I_l.
Qed.

(* ---- Pythagoras *)
Lemma dop_pythagoras_l (M : mat) :
  0 <= M i0 i0 -> 0 <= M i1 i1 -> 0 <= M i2 i2 -> 0 <= M i3 i3 ->
  (gdop M)² = (pdop M)² + (tdop M)² /\ (pdop M)² = (hdop M)² + (vdop M)².
Proof.
  intros H0 H1 H2 H3. unfold gdop, pdop, tdop, hdop, vdop.
  rewrite !Rsqr_sqrt by lra. split; ring.
Qed.

(* ---- reordering *)
Lemma normal_perm s s' : Permutation s s' -> meq (normal s) (normal s').
Proof.
  induction 1; intros i j; simpl.
  - reflexivity.
  - rewrite IHPermutation. reflexivity.
  - ring.
  - rewrite IHPermutation1. apply IHPermutation2.
Qed.

Lemma inverse_of_meq N N' M : meq N N' -> inverse_of N M -> inverse_of N' M.
Proof. intros E [H1 H2]. split; rewrite <- E; assumption. Qed.

Lemma dop_perm_invariant_l s s' M : Permutation s s' -> inverse_of (normal s) M -> inverse_of (normal s') M.
Proof. intros P. apply inverse_of_meq, normal_perm, P. Qed.

(* ---- rotation of all azimuths *)
Lemma Rm_orth_1 t : meq (mmul (Rm t) (mT (Rm t))) mI.
Proof.
  intros i j. pose proof (sin2_cos2 t) as H. unfold Rsqr in H.
  unfold mmul, sum4, mT, Rm, mI. destruct i, j; simpl; try ring; ring_simplify; lra.
Qed.

Lemma Rm_orth_2 t : meq (mmul (mT (Rm t)) (Rm t)) mI.
Proof.
  intros i j. pose proof (sin2_cos2 t) as H. unfold Rsqr in H.
  unfold mmul, sum4, mT, Rm, mI. destruct i, j; simpl; try ring; ring_simplify; lra.
Qed.

Lemma row_rot t s j : row (fst s + t, snd s) j = sum4 (fun k => row s k * Rm t k j).
Proof.
  destruct s as [az el]. unfold sum4, row, Rm. cbn [fst snd].
  destruct j; rewrite ?cos_plus, ?sin_plus; ring.
Qed.

Lemma normal_rot t s : meq (normal (rotate t s)) (mmul (mT (Rm t)) (mmul (normal s) (Rm t))).
Proof.
  induction s as [|a r IH]; intros i j.
  - simpl. unfold mmul, sum4, mT. simpl. ring.
  - change (normal (rotate t (a :: r)) i j)
      with (row (fst a + t, snd a) i * row (fst a + t, snd a) j + normal (rotate t r) i j).
    rewrite IH. rewrite !row_rot. unfold mmul, sum4, mT. cbn [normal]. ring.
Qed.

Definition conj (t : R) (M : mat) : mat := mmul (mT (Rm t)) (mmul M (Rm t)).

Lemma sandwich A R N M : meq (mmul R A) mI -> meq (mmul A R) mI -> meq (mmul N M) mI ->
  meq (mmul (mmul A (mmul N R)) (mmul A (mmul M R))) mI.
Proof.
  intros HRA HAR HNM.
  rewrite (mmul_assoc A (mmul N R) (mmul A (mmul M R))).
  rewrite (mmul_assoc N R (mmul A (mmul M R))).
  rewrite <- (mmul_assoc R A (mmul M R)).
  rewrite HRA. rewrite mmul_I_l.
  rewrite <- (mmul_assoc N M R). rewrite HNM. rewrite mmul_I_l. exact HAR.
Qed.

Lemma conj_inverse t N M : inverse_of N M -> inverse_of (conj t N) (conj t M).
Proof.
  intros [H1 H2]. unfold conj. split; apply sandwich; auto using Rm_orth_1, Rm_orth_2.
Qed.

Lemma conj_diag t M :
  conj t M i0 i0 + conj t M i1 i1 = M i0 i0 + M i1 i1 /\ conj t M i2 i2 = M i2 i2 /\ conj t M i3 i3 = M i3 i3.
Proof.
  pose proof (sin2_cos2 t) as H. unfold Rsqr in H.
  unfold conj, mmul, sum4, mT, Rm. simpl. repeat split; try ring.
  transitivity ((sin t * sin t + cos t * cos t) * (M i0 i0 + M i1 i1)); [ring|]. rewrite H. ring.
Qed.

Lemma dop_azimuth_invariant_l s t M M' :
  inverse_of (normal s) M -> inverse_of (normal (rotate t s)) M' ->
  gdop M' = gdop M /\ pdop M' = pdop M /\ tdop M' = tdop M /\ hdop M' = hdop M /\ vdop M' = vdop M.
Proof.
  intros HM HM'.
  assert (E : meq M' (conj t M)).
  { apply (inverse_unique (normal (rotate t s))); [exact HM'|].
    apply (inverse_of_meq (conj t (normal s))); [apply meq_sym, normal_rot|].
    apply conj_inverse, HM. }
  destruct (conj_diag t M) as [D01 [D2 D3]].
  unfold gdop, pdop, tdop, hdop, vdop. rewrite !E.
  rewrite D2, D3. repeat split; f_equal; lra.
Qed.

(* the DOPs depend on the geometry only through the normal matrix: any two inverses give the same values *)
Lemma dop_well_defined N M M' : inverse_of N M -> inverse_of N M' ->
  gdop M' = gdop M /\ pdop M' = pdop M /\ tdop M' = tdop M /\ hdop M' = hdop M /\ vdop M' = vdop M.
Proof.
  intros H H'. pose proof (inverse_unique N M' M H' H) as E.
  unfold gdop, pdop, tdop, hdop, vdop. rewrite !E. repeat split; reflexivity.
Qed.

Lemma dop_perm_values s s' M M' : Permutation s s' ->
  inverse_of (normal s) M -> inverse_of (normal s') M' ->
  gdop M' = gdop M /\ pdop M' = pdop M /\ tdop M' = tdop M /\ hdop M' = hdop M /\ vdop M' = vdop M.
Proof.
  intros P H H'. apply (dop_well_defined (normal s')); [|exact H'].
  apply (dop_perm_invariant_l s s'); assumption.
Qed.

(* ---- the diagonal of the cofactor matrix of a geometry is non-negative (so the square roots are defined
   and the Pythagorean identities hold without side condition) *)
Lemma normal_sym s : meq (mT (normal s)) (normal s).
Proof. induction s as [|a r IH]; intros i j; unfold mT in *; simpl; [reflexivity|]. rewrite <- (IH i j). ring. Qed.

Lemma mT_mmul A B : meq (mT (mmul A B)) (mmul (mT B) (mT A)).
Proof. intros i j. unfold mT, mmul, sum4. ring. Qed.

Lemma mT_I : meq (mT mI) mI.
Proof. intros i j. unfold mT, mI. destruct i, j; reflexivity. Qed.

Lemma mT_Proper A B : meq A B -> meq (mT A) (mT B).
Proof. intros H i j. unfold mT. apply H. Qed.

Lemma inverse_T N M : inverse_of N M -> inverse_of (mT N) (mT M).
Proof.
  intros [H1 H2]. split.
  - rewrite <- mT_mmul. rewrite (mT_Proper _ _ H2). apply mT_I.
  - rewrite <- mT_mmul. rewrite (mT_Proper _ _ H1). apply mT_I.
Qed.

Lemma cofactor_sym s M : inverse_of (normal s) M -> meq (mT M) M.
Proof.
  intros H. apply (inverse_unique (normal s)); [|exact H].
  apply (inverse_of_meq (mT (normal s))); [apply normal_sym|]. apply inverse_T, H.
Qed.

Fixpoint qform (s : list (R * R)) (m : vec4) : R :=
  match s with
  | [] => 0
  | a :: r => (sum4 (fun k => row a k * m k))² + qform r m
  end.

Lemma qform_nonneg s m : 0 <= qform s m.
Proof. induction s as [|a r IH]; simpl; [lra|]. pose proof (Rle_0_sqr (sum4 (fun k => row a k * m k))). lra. Qed.

Lemma qform_normal s m : sum4 (fun k => sum4 (fun l => m k * normal s k l * m l)) = qform s m.
Proof.
  induction s as [|a r IH]; simpl.
  - unfold sum4. ring.
  - rewrite <- IH. unfold sum4, Rsqr. ring.
Qed.

Lemma dop_diag_nonneg_l s M i : inverse_of (normal s) M -> 0 <= M i i.
Proof.
  intros H. pose proof (cofactor_sym s M H) as S. destruct H as [H1 H2].
  assert (E : M i i = sum4 (fun k => sum4 (fun l => M i k * normal s k l * M i l))).
  { assert (E1 : meq M (mmul M (mmul (normal s) M))) by (rewrite H1, mmul_I_r; reflexivity).
    rewrite (E1 i i) at 1. unfold mmul, sum4.
    rewrite <- !(S i0 i), <- !(S i1 i), <- !(S i2 i), <- !(S i3 i). unfold mT. ring. }
  rewrite E, qform_normal. apply qform_nonneg.
Qed.

Lemma dop_pythagoras_geometry_l s M : inverse_of (normal s) M ->
  (gdop M)² = (pdop M)² + (tdop M)² /\ (pdop M)² = (hdop M)² + (vdop M)².
Proof. intros H. apply dop_pythagoras_l; apply (dop_diag_nonneg_l s); exact H. Qed.

(* ---- four satellites: H is square.  (H^T H)^-1 = H^-1 H^-T - and *not* (H H^T)^-1 = H^-T H^-1 *)
Definition Hmat (s0 s1 s2 s3 : R * R) : mat :=
  fun i j => row (match i with i0 => s0 | i1 => s1 | i2 => s2 | i3 => s3 end) j.

Lemma normal_square s0 s1 s2 s3 :
  meq (normal [s0; s1; s2; s3]) (mmul (mT (Hmat s0 s1 s2 s3)) (Hmat s0 s1 s2 s3)).
Proof. intros i j. unfold mmul, sum4, mT, Hmat. cbn [normal]. ring. Qed.

Lemma dop_square_case_l s0 s1 s2 s3 G :
  inverse_of (Hmat s0 s1 s2 s3) G -> inverse_of (normal [s0; s1; s2; s3]) (mmul G (mT G)).
Proof.
  intros [HG GH]. set (H := Hmat s0 s1 s2 s3) in *.
  apply (inverse_of_meq (mmul (mT H) H)); [apply meq_sym, normal_square|].
  assert (TG : meq (mmul (mT G) (mT H)) mI) by (rewrite <- mT_mmul, (mT_Proper _ _ HG); apply mT_I).
  assert (TH : meq (mmul (mT H) (mT G)) mI) by (rewrite <- mT_mmul, (mT_Proper _ _ GH); apply mT_I).
  split.
  - rewrite (mmul_assoc (mT H) H (mmul G (mT G))). rewrite <- (mmul_assoc H G (mT G)).
    rewrite HG, mmul_I_l. exact TH.
  - rewrite (mmul_assoc G (mT G) (mmul (mT H) H)). rewrite <- (mmul_assoc (mT G) (mT H) H).
    rewrite TG, mmul_I_l. exact GH.
Qed.

(* the other product, (H H^T)^-1 = G^T G, has the same trace (GDOP) but a different diagonal: witness
   satellites at the horizon in the north, east and south and one in the zenith: TDOP^2 = 1/2, not 1 *)
Definition wit0 : R * R := (0, 0).
Definition wit1 : R * R := (PI / 2, 0).
Definition wit2 : R * R := (PI, 0).
Definition wit3 : R * R := (0, PI / 2).
Definition Gwit : mat := fun i j =>
  match i, j with
  | i0, i0 => - (1 / 2) | i0, i2 => 1 / 2
  | i1, i0 => 1 / 2 | i1, i1 => -1 | i1, i2 => 1 / 2
  | i2, i0 => 1 / 2 | i2, i2 => 1 / 2 | i2, i3 => -1
  | i3, i0 => 1 / 2 | i3, i2 => 1 / 2
  | _, _ => 0
  end.

Lemma Gwit_inverse : inverse_of (Hmat wit0 wit1 wit2 wit3) Gwit.
Proof.
  split; intros i j; unfold mmul, sum4, Hmat, Gwit, mI, row, wit0, wit1, wit2, wit3;
    destruct i, j; cbn [I4_eqb]; rewrite ?cos_0, ?sin_0, ?cos_PI2, ?sin_PI2, ?cos_PI, ?sin_PI; lra.
Qed.

Lemma dop_square_wrong_product_l :
  inverse_of (normal [wit0; wit1; wit2; wit3]) (mmul Gwit (mT Gwit)) /\
  inverse_of (mmul (Hmat wit0 wit1 wit2 wit3) (mT (Hmat wit0 wit1 wit2 wit3))) (mmul (mT Gwit) Gwit) /\
  mmul Gwit (mT Gwit) i3 i3 = 1 / 2 /\ mmul (mT Gwit) Gwit i3 i3 = 1.
Proof.
  pose proof Gwit_inverse as [HG GH]. set (H := Hmat wit0 wit1 wit2 wit3) in *.
  assert (TG : meq (mmul (mT Gwit) (mT H)) mI) by (rewrite <- mT_mmul, (mT_Proper _ _ HG); apply mT_I).
  assert (TH : meq (mmul (mT H) (mT Gwit)) mI) by (rewrite <- mT_mmul, (mT_Proper _ _ GH); apply mT_I).
  split; [apply dop_square_case_l; split; assumption|]. split; [split|].
  - rewrite (mmul_assoc H (mT H) (mmul (mT Gwit) Gwit)). rewrite <- (mmul_assoc (mT H) (mT Gwit) Gwit).
    rewrite TH, mmul_I_l. exact HG.
  - rewrite (mmul_assoc (mT Gwit) Gwit (mmul H (mT H))). rewrite <- (mmul_assoc Gwit H (mT H)).
    rewrite GH, mmul_I_l. exact TG.
  - unfold mmul, sum4, mT, Gwit. split; lra.
Qed.
