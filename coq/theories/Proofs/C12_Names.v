(* Proofs/C12_Names.v - the system of a RINEX 2 navigation file is read off its name
   (Rinex2NavParser / Rinex212NavParser._get_system_from_file_extension) *)
From Coq Require Import Ascii String List Bool Arith Lia.
From Verif Require Import Lib.Text Lib.C12_ExpFormat Model.C12_Nav Gen.C12_Tables Proofs.C12_Nav.
Import ListNotations.
Local Open Scope nat_scope.
Local Open Scope string_scope.

Definition no_dot (s : string) : bool := all_by (fun c => negb (is_dot c)) s.

Lemma split_dot_nodot a : no_dot a = true -> split_dot a = [a].
Proof.
  induction a as [|c a IH]; [reflexivity|]. unfold no_dot. cbn [all_by]. intros H. apply andb_prop in H. destruct H as [Hc Ha].
  cbn [split_dot]. rewrite (IH Ha). unfold is_dot in Hc. apply negb_true_iff in Hc. rewrite Hc. reflexivity.
Qed.

Lemma split_dot_app a b : no_dot a = true -> split_dot (a ++ String "." b) = a :: split_dot b.
Proof.
  induction a as [|c a IH]; intros H.
  - cbn [append split_dot]. destruct (split_dot b) eqn:E; [|reflexivity].
    exfalso. clear - E. destruct b as [|x b]; [discriminate|]. cbn [split_dot] in E.
    destruct (split_dot b); [discriminate|]. destruct (x =? ".")%char; discriminate.
  - unfold no_dot in H. cbn [all_by] in H. apply andb_prop in H. destruct H as [Hc Ha].
    cbn [append split_dot]. rewrite (IH Ha). unfold is_dot in Hc. apply negb_true_iff in Hc. rewrite Hc. reflexivity.
Qed.

Lemma last_char_nodot s c : no_dot s = true -> last_char s = Some c -> is_dot c = false.
Proof.
  induction s as [|x s IH]; [discriminate|]. unfold no_dot. cbn [all_by]. intros H L. apply andb_prop in H. destruct H as [Hx Hs].
  destruct s as [|y s'].
  - cbn in L. injection L as L. subst. apply negb_true_iff. exact Hx.
  - apply IH; [exact Hs|exact L].
Qed.

Section ShortName.
  (* ssssdddf.yyt  and  ssssdddf.yyt.gz *)
  Variables (stem e : string) (t : ascii).
  Hypothesis Hstem : no_dot stem = true.
  Hypothesis Hne : stem <> "".
  Hypothesis He : no_dot e = true.
  Hypothesis Ht : last_char e = Some t.

  Lemma lstrip_name rest : lstrip_by is_dot (stem ++ rest) = stem ++ rest.
  Proof.
    apply lstrip_by_ltrimmed. destruct stem as [|c s]; [congruence|]. cbn.
    unfold no_dot in Hstem. cbn [all_by] in Hstem. apply andb_prop in Hstem. tauto.
  Qed.

  Lemma e_nonempty : e <> "".
  Proof. intros E. rewrite E in Ht. discriminate. Qed.

  Lemma suffixes_plain : suffixes (stem ++ String "." e) = ["." ++ e].
  Proof.
    unfold suffixes. rewrite (last_char_app stem (String "." e)) by discriminate.
    assert (L : last_char (String "." e) = Some t).
    { cbn [last_char]. destruct e; [discriminate|exact Ht]. }
    rewrite L, (last_char_nodot e t He Ht), lstrip_name, (split_dot_app _ _ Hstem), (split_dot_nodot _ He). reflexivity.
  Qed.

  Lemma suffixes_gz : suffixes (stem ++ String "." (e ++ ".gz")) = ["." ++ e; ".gz"].
  Proof.
    unfold suffixes.
    replace (stem ++ String "." (e ++ ".gz")) with ((stem ++ String "." e) ++ ".gz")
      by (rewrite Text.app_assoc; reflexivity).
    rewrite (last_char_app _ ".gz") by discriminate. cbn [last_char is_dot Ascii.eqb Bool.eqb].
    rewrite Text.app_assoc. rewrite lstrip_name. cbn [append].
    rewrite (split_dot_app _ _ Hstem). change (e ++ ".gz") with (e ++ String "." "gz").
    rewrite (split_dot_app _ _ He). reflexivity.
  Qed.

  Lemma last_ext : last_char ("." ++ e) = Some t.
  Proof. cbn [append last_char]. destruct e; [discriminate|exact Ht]. Qed.

  Theorem system_short_v2 ext :
    sys_of_name V2 ext (stem ++ String "." e) = alookup (String (lower t) "") ext /\
    sys_of_name V2 ext (stem ++ String "." (e ++ ".gz")) = alookup (String (lower t) "") ext.
  Proof. unfold sys_of_name. rewrite suffixes_plain, suffixes_gz, last_ext. split; reflexivity. Qed.

  Theorem system_short_v212 ext :
    contains ".rnx" ("." ++ e) = false ->
    sys_of_name V212 ext (stem ++ String "." e) = alookup (String (lower t) "") ext /\
    sys_of_name V212 ext (stem ++ String "." (e ++ ".gz")) = alookup (String (lower t) "") ext.
  Proof. intros H. unfold sys_of_name. rewrite suffixes_plain, suffixes_gz, H, last_ext. split; reflexivity. Qed.
End ShortName.

(* the regenerated SYSTEM_FILE_EXTENSION tables are the convention's, for every string *)
Lemma ext_maps_spec s :
  alookup s ext_map_rinex2_nav = alookup s spec_ext /\ alookup s ext_map_rinex212_nav = alookup s spec_ext.
Proof.
  unfold ext_map_rinex2_nav, ext_map_rinex212_nav, spec_ext. cbn [alookup].
  repeat match goal with
         | |- context [String.eqb ?b s] => destruct (String.eqb_spec b s) as [?E2|?N2]; [subst s; split; reflexivity|]
         end; split; reflexivity.
Qed.

(* the letter is case-insensitive; n/g/l -> G/R/E; every other letter is refused *)
Lemma ext_letters :
  forallb (fun c => match alookup (String (lower c) "") spec_ext with
                    | Some s => String.eqb s (if (lower c =? "n")%char then "G" else if (lower c =? "g")%char then "R" else "E")
                                && ((lower c =? "n") || (lower c =? "g") || (lower c =? "l"))%char
                    | None => negb ((lower c =? "n") || (lower c =? "g") || (lower c =? "l"))%char
                    end) (map ascii_of_nat (seq 0 256)) = true.
Proof. vm_compute. reflexivity. Qed.

(* long names of RINEX 2.12 files (…_<S>N.rnx[.gz]): the system letter, upper-cased; examples *)
Lemma long_names :
  map (sys_of_name V212 spec_ext)
      ["ABCD00NOR_R_20200010000_01D_GN.rnx"; "ABCD00NOR_R_20200010000_01D_EN.rnx.gz"; "ABCD00NOR_R_20200010000_01D_cN.rnx";
       "ABCD00NOR_R_20200010000_01D_JN.rnx"; "ABCD00NOR_R_20200010000_01D_IN.rnx.gz"]
  = [Some "G"; Some "E"; Some "C"; Some "J"; Some "I"].
Proof. vm_compute. reflexivity. Qed.
