(* C02 - the rounded-sum quirk does nothing outside its class: for a normalised pair (half-integer jd1 in
   [2^21+1, 2^22-1), i.e. years 1030..6770, and a binary64 jd2 in [0, 1 - 2^-31]) the binary64 evaluation of
   _jd_delta gives delta = 0 and returns the two parts unchanged, which is the exact split. *)
From Coq Require Import ZArith QArith Qround Qabs Qfield Bool List Lia Lqa ZifyBool.
From Verif Require Import Lib.Dyadic Model.C02_Formats Model.C02_Arrays Gen.C02_Tables Proofs.C02_Formats Proofs.C02_Arrays.
Import ListNotations.
Open Scope Z_scope.

Definition P31 : Q := 2147483648 # 1.          (* 2^31 *)
Definition G31 (x : Q) : Q := (Qz (round_half_even (x * P31)) / P31)%Q.

Lemma rn53_comp x y : (x == y)%Q -> rn53 x = rn53 y.
Proof. intros E. unfold rn53. now rewrite (Qred_complete x y E). Qed.

Lemma round_half_even_comp x y : (x == y)%Q -> round_half_even x = round_half_even y.
Proof.
  intros E. unfold round_half_even.
  assert (EF : Qfloor x = Qfloor y) by (now rewrite E). rewrite EF.
  assert (EC : Qcompare (x - Qz (Qfloor y)) (1 # 2) = Qcompare (y - Qz (Qfloor y)) (1 # 2)).
  { apply Qcompare_comp; [rewrite E; reflexivity|reflexivity]. }
  rewrite EC. reflexivity.
Qed.

Lemma rhe_ge (a : Z) (y : Q) : (Qz a <= y)%Q -> a <= round_half_even y.
Proof.
  intros H. destruct (round_half_even_bound y) as [_ B]. unfold Qz in *.
  assert (L : (inject_Z a < inject_Z (round_half_even y + 1))%Q).
  { rewrite inject_Z_plus. change (inject_Z 1) with 1%Q. lra. }
  rewrite <- Zlt_Qlt in L. lia.
Qed.

Lemma rhe_le (b : Z) (y : Q) : (y <= Qz b)%Q -> round_half_even y <= b.
Proof.
  intros H. destruct (round_half_even_bound y) as [B _].
  unfold Qz in *.
  assert (L : (inject_Z (round_half_even y) < inject_Z (b + 1))%Q).
  { rewrite inject_Z_plus. change (inject_Z 1) with 1%Q. lra. }
  rewrite <- Zlt_Qlt in L. lia.
Qed.

(* floor(log2) on the binade [2^21, 2^22) *)
Lemma log2_floor_21 (x : Q) : (2097152 <= x)%Q -> (x < 4194304)%Q -> log2_floor_Q x = 21.
Proof.
  intros L U. unfold log2_floor_Q.
  destruct x as [n d]. cbn [Qnum Qden].
  assert (Ln : 2097152 * Zpos d <= n) by (unfold Qle in L; cbn in L; lia).
  assert (Un : n < 4194304 * Zpos d) by (unfold Qlt in U; cbn in U; lia).
  assert (Hn : 0 < n) by lia.
  destruct (Z.log2_spec n Hn) as [N1 N2]. destruct (Z.log2_spec (Zpos d) ltac:(lia)) as [D1 D2].
  pose proof (Z.log2_nonneg n) as Nn. pose proof (Z.log2_nonneg (Zpos d)) as Nd.
  set (ln := Z.log2 n) in *. set (ld := Z.log2 (Zpos d)) in *.
  assert (E1 : 21 + ld < Z.succ ln).
  { apply (Z.pow_lt_mono_r_iff 2); [lia|lia|]. rewrite Z.pow_add_r by lia. change (2 ^ 21) with 2097152. nia. }
  assert (E2 : ln < 22 + Z.succ ld).
  { apply (Z.pow_lt_mono_r_iff 2); [lia|lia|]. rewrite Z.pow_add_r by lia. change (2 ^ 22) with 4194304. nia. }
  assert (C : ln - ld = 21 \/ ln - ld = 22) by lia.
  assert (T21 : Qle_bool (pow2Q 21) (n # d) = true) by (apply Qle_bool_iff; exact L).
  assert (F22 : Qle_bool (pow2Q 22) (n # d) = false).
  { destruct (Qle_bool (pow2Q 22) (n # d)) eqn:B; [|reflexivity]. apply Qle_bool_iff in B.
    change (pow2Q 22) with (4194304 # 1)%Q in B. lra. }
  destruct C as [C|C]; rewrite C.
  - rewrite T21. change (21 + 1) with 22. rewrite F22. reflexivity.
  - rewrite F22. reflexivity.
Qed.

Lemma rn53_raw_binade (x : Q) : (2097152 <= x)%Q -> (x < 4194304)%Q -> (rn53_raw x == G31 x)%Q.
Proof.
  intros L U. unfold rn53_raw.
  assert (P : (0 < x)%Q) by lra.
  assert (C : Qcompare x 0 = Gt) by (apply Qgt_alt; exact P). rewrite C.
  assert (A : (Qabs x == x)%Q) by (apply Qabs_pos; lra).
  assert (E : log2_floor_Q (Qabs x) = 21) by (apply log2_floor_21; rewrite A; assumption).
  rewrite E. change (21 - 52) with (-31). change (pow2Q (-31)) with (1 # 2147483648)%Q.
  rewrite Qred_correct. unfold G31, P31.
  assert (R : round_half_even (Qabs x / (1 # 2147483648)) = round_half_even (x * (2147483648 # 1))).
  { apply round_half_even_comp. rewrite A. field. }
  rewrite R. field.
Qed.

Lemma rn53_binade (x : Q) : (2097152 <= x)%Q -> (x < 4194304)%Q -> (rn53 x == G31 x)%Q.
Proof.
  intros L U. unfold rn53. pose proof (Qred_correct x) as E.
  rewrite rn53_raw_binade by (rewrite E; assumption).
  unfold G31. rewrite (round_half_even_comp (Qred x * P31) (x * P31)) by (now rewrite E). reflexivity.
Qed.

(* a multiple of 2^-31 in the binade is a binary64 number *)
Lemma rn53_exact (x : Q) (m : Z) : (2097152 <= x)%Q -> (x < 4194304)%Q -> (x * P31 == Qz m)%Q -> (rn53 x == x)%Q.
Proof.
  intros L U M. rewrite rn53_binade by assumption. unfold G31.
  rewrite (round_half_even_comp _ _ M), round_half_even_Z. rewrite <- M. unfold P31. field.
Qed.

Lemma rn53_zero (x : Q) : (x == 0)%Q -> rn53 x = 0%Q.
Proof.
  intros E. rewrite (rn53_comp x 0 E). reflexivity.
Qed.

Lemma rounded_sum_agrees_outside_lemma (k : Z) (jd2 : Q) :
  2097153 <= k <= 4194302 -> (0 <= jd2)%Q -> (jd2 <= 1 - (1 # 2147483648))%Q -> (rn53 jd2 == jd2)%Q ->
  let jd1 := (Qz k + (1 # 2))%Q in
  (fst (split_model quirk_rounded_sum jd1 jd2) == fst (split_model all_off jd1 jd2))%Q /\
  (snd (split_model quirk_rounded_sum jd1 jd2) == snd (split_model all_off jd1 jd2))%Q /\
  (fst (split_model quirk_rounded_sum jd1 jd2) == jd1)%Q /\ (snd (split_model quirk_rounded_sum jd1 jd2) == jd2)%Q.
Proof.
  intros Hk L2 U2 D2 jd1.
  assert (Kq : (2097153 <= Qz k)%Q /\ (Qz k <= 4194302)%Q).
  { unfold Qz. change 2097153%Q with (inject_Z 2097153). change 4194302%Q with (inject_Z 4194302).
    rewrite <- !Zle_Qle. lia. }
  destruct Kq as [K1 K2].
  (* jd = fl (jd1 + jd2) lies in [jd1, jd1 + 1 - 2^-31] *)
  set (x0 := (jd1 + jd2)%Q).
  assert (X0 : (2097152 <= x0)%Q /\ (x0 < 4194304)%Q) by (unfold x0, jd1; split; lra).
  pose proof (rn53_binade x0 (proj1 X0) (proj2 X0)) as EJ.
  set (m0 := round_half_even (x0 * P31)) in *.
  assert (M1 : k * 2147483648 + 1073741824 <= m0).
  { apply rhe_ge. unfold x0, jd1, P31, Qz. rewrite inject_Z_plus, inject_Z_mult.
    change (inject_Z 2147483648) with (2147483648 # 1)%Q. change (inject_Z 1073741824) with (1073741824 # 1)%Q.
    unfold Qz in *. nra. }
  assert (M2 : m0 <= k * 2147483648 + 1073741824 + 2147483647).
  { apply rhe_le. unfold x0, jd1, P31, Qz. rewrite !inject_Z_plus, inject_Z_mult.
    change (inject_Z 2147483648) with (2147483648 # 1)%Q. change (inject_Z 1073741824) with (1073741824 # 1)%Q.
    change (inject_Z 2147483647) with (2147483647 # 1)%Q. unfold Qz in *. nra. }
  set (J := rn53 x0) in *.
  assert (JM : (J == Qz m0 / P31)%Q) by exact EJ.
  assert (QM1 : (Qz (k * 2147483648 + 1073741824) <= Qz m0)%Q) by (unfold Qz; rewrite <- Zle_Qle; exact M1).
  assert (QM2 : (Qz m0 <= Qz (k * 2147483648 + 1073741824 + 2147483647))%Q) by (unfold Qz; rewrite <- Zle_Qle; exact M2).
  unfold Qz in QM1, QM2. rewrite !inject_Z_plus, !inject_Z_mult in QM1. rewrite !inject_Z_plus, !inject_Z_mult in QM2.
  change (inject_Z 2147483648) with (2147483648 # 1)%Q in QM1, QM2.
  change (inject_Z 1073741824) with (1073741824 # 1)%Q in QM1, QM2.
  change (inject_Z 2147483647) with (2147483647 # 1)%Q in QM2.
  assert (JB : (jd1 <= J)%Q /\ (J <= jd1 + 1 - (1 # 2147483648))%Q).
  { rewrite JM. unfold P31, jd1, Qz in *. split.
    - apply Qle_shift_div_l; [reflexivity|]. lra.
    - apply Qle_shift_div_r; [reflexivity|]. lra. }
  destruct JB as [JB1 JB2].
  (* fl (jd - 1/2) = jd - 1/2 *)
  set (a1 := (J - (1 # 2))%Q).
  assert (A1 : (2097152 <= a1)%Q /\ (a1 < 4194304)%Q) by (unfold a1, jd1 in *; split; lra).
  assert (A1M : (a1 * P31 == Qz (m0 - 1073741824))%Q).
  { unfold a1. rewrite JM. unfold P31, Qz, Z.sub. rewrite inject_Z_plus, inject_Z_opp. change (inject_Z 1073741824) with (1073741824 # 1)%Q. field. }
  pose proof (rn53_exact a1 _ (proj1 A1) (proj2 A1) A1M) as EA1.
  assert (FL : Qfloor (rn53 a1) = k).
  { rewrite EA1. apply Qfloor_unique; unfold a1, jd1 in *; lra. }
  (* day = jd1 *)
  assert (DAY : (rn53 (Qz k + (1 # 2)) == jd1)%Q).
  { apply (rn53_exact _ (k * 2147483648 + 1073741824)); [lra|lra|].
    unfold P31, Qz. rewrite inject_Z_plus, inject_Z_mult.
    change (inject_Z 2147483648) with (2147483648 # 1)%Q. change (inject_Z 1073741824) with (1073741824 # 1)%Q. field. }
  (* assemble *)
  assert (Q : split_model quirk_rounded_sum jd1 jd2 =
              (rn53 (jd1 - rn53 (jd1 - rn53 (Qz (Qfloor (rn53 (rn53 (jd1 + jd2) - (1 # 2)))) + (1 # 2)))),
               rn53 (jd2 + rn53 (jd1 - rn53 (Qz (Qfloor (rn53 (rn53 (jd1 + jd2) - (1 # 2)))) + (1 # 2)))))) by reflexivity.
  fold x0 in Q. fold J in Q. fold a1 in Q. rewrite FL in Q.
  assert (DZ : rn53 (jd1 - rn53 (Qz k + (1 # 2))) = 0%Q) by (apply rn53_zero; rewrite DAY; ring).
  rewrite DZ in Q.
  assert (F1 : (rn53 (jd1 - 0) == jd1)%Q).
  { assert (R : rn53 (jd1 - 0) = rn53 (Qz k + (1 # 2))) by (apply rn53_comp; unfold jd1; ring). rewrite R. exact DAY. }
  assert (S1 : (rn53 (jd2 + 0) == jd2)%Q).
  { assert (R : rn53 (jd2 + 0) = rn53 jd2) by (apply rn53_comp; ring). rewrite R. exact D2. }
  destruct (split_all_off jd1 jd2) as [O1 O2].
  assert (I1 : (jd_int_q (jd1 + jd2) == jd1)%Q).
  { unfold jd1. apply jd_int_of_grid; lra. }
  rewrite Q. cbn [fst snd]. rewrite O1, O2, F1, S1, I1. unfold jd_frac_q. rewrite I1.
  split; [reflexivity|]. split; [ring|]. split; reflexivity.
Qed.
