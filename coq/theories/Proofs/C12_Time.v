(* Proofs/C12_Time.v - the epoch / time part of the RINEX navigation parsers:
   two-digit year window, epoch seconds with fraction, calendar epoch -> GPS week / seconds of week (tied to the
   calendar and Julian-date lemmas of C02), BeiDou shift and week cross-over on the record model, for every record. *)
From Coq Require Import Ascii String List Bool Arith ZArith QArith Qround Qabs Qfield Lia Lqa.
From Verif Require Model.C02_Formats Proofs.C02_Formats.
From Verif Require Import Lib.Text Lib.Dyadic Lib.C12_ExpFormat Model.C12_Nav Proofs.C12_Nav.
Import ListNotations.
Module M2 := Verif.Model.C02_Formats.
Module P2 := Verif.Proofs.C02_Formats.
Local Open Scope nat_scope.
Local Open Scope string_scope.

(* ------------------------------------------------------------------------------ two-digit year (v2) *)
(* every way RINEX 2 prints the year (I2.2 "05", I2 " 5" -> stripped "5"): 80..99 -> 19yy, 0..79 -> 20yy *)
Definition year_window_ok (yy : nat) : bool :=
  let want := if ((80 <=? yy) && (yy <=? 99))%nat then Z.of_nat (1900 + yy) else Z.of_nat (2000 + yy) in
  let is := fun txt => match year_v2 txt with Some y => Z.eqb y want | None => false end in
  is (two yy) && is (strip (pad2 yy)) && is (strip (String " " (two yy))).
Lemma year_window_all : below 100 year_window_ok = true.
Proof. vm_compute. reflexivity. Qed.

Lemma year_window yy :
  yy < 100 ->
  let want := if ((80 <=? yy) && (yy <=? 99))%nat then Z.of_nat (1900 + yy) else Z.of_nat (2000 + yy) in
  year_v2 (two yy) = Some want /\ year_v2 (strip (pad2 yy)) = Some want /\ year_v2 (strip (String " " (two yy))) = Some want.
Proof.
  intros H. pose proof (below_spec _ _ year_window_all yy H) as P. unfold year_window_ok in P. cbv zeta in *.
  set (want := if ((80 <=? yy) && (yy <=? 99))%nat then Z.of_nat (1900 + yy) else Z.of_nat (2000 + yy)) in *.
  apply andb_prop in P. destruct P as [P P3]. apply andb_prop in P. destruct P as [P1 P2].
  repeat split;
    match goal with |- year_v2 ?t = _ => destruct (year_v2 t); [|discriminate] end;
    f_equal; apply Z.eqb_eq; assumption.
Qed.

(* the year of a parsed v2 record is year_v2 of the year column *)
Lemma parse_epoch2_year q sys2 kv p ytxt :
  parse_epoch2 q sys2 kv = RRec p -> alookup "year" kv = Some ytxt ->
  year_v2 ytxt = Some (fst (fst (fst (fst (p_civil p))))).
Proof.
  unfold parse_epoch2, epoch_fields. intros H Hy.
  destruct (alookup "sat_clock_drift_rate" kv) as [rate|]; [|discriminate]. cbn [bind] in H.
  destruct (early_exit q (first_char rate)) as [r|] eqn:Ee.
  - cbn [ores] in H. subst r. unfold early_exit in Ee.
    destruct (first_char rate) as [c|]; [destruct (is_alpha c)|destruct (q_blank_idx q)]; discriminate.
  - destruct (alookup "sat" kv); [|discriminate]. cbn [bind] in H. rewrite Hy in H. cbn [bind] in H.
    destruct (year_v2 ytxt) as [y|]; [|discriminate]. cbn [bind] in H.
    repeat match type of H with
           | ores (bind ?x _) = _ => destruct x; [cbn [bind] in H|discriminate]
           end.
    cbn [ores] in H. injection H as H. subst p. reflexivity.
Qed.

(* ------------------------------------------------------------------------------ epoch seconds with fraction *)
(* F5.1 seconds (v2) and I2 seconds (v3): the fixed code path reproduces the printed second exactly;
   the old path (fraction taken as milliseconds) did not *)
Definition sec_ok (t : nat) : bool :=
  Qeq_bool (sec_fixed (Z.of_nat t, (-1)%Z)) (inject_Z (Z.of_nat t) / 10)
  && Qeq_bool (sec_value false (Z.of_nat t, (-1)%Z)) (inject_Z (Z.of_nat t) / 10)
  && Qeq_bool (sec_fixed (Z.of_nat t, 0%Z)) (inject_Z (Z.of_nat t)).
Lemma sec_ok_all : below 1000 sec_ok = true.
Proof. vm_compute. reflexivity. Qed.

Lemma sec_fixed_exact t : t < 1000 ->
  sec_fixed (Z.of_nat t, (-1)%Z) == inject_Z (Z.of_nat t) / 10 /\
  sec_value false (Z.of_nat t, (-1)%Z) == inject_Z (Z.of_nat t) / 10 /\
  sec_fixed (Z.of_nat t, 0%Z) == inject_Z (Z.of_nat t).
Proof.
  intros H. pose proof (below_spec _ _ sec_ok_all t H) as P. unfold sec_ok in P.
  apply andb_prop in P. destruct P as [P P3]. apply andb_prop in P. destruct P as [P1 P2].
  repeat split; apply Qeq_bool_iff; assumption.
Qed.

Lemma sec_ms_refuted : Qeq_bool (sec_value true (305%Z, (-1)%Z)) (61 # 2) = false
                       /\ Qeq_bool (sec_value true (305%Z, (-1)%Z)) 5030 = true.
Proof. vm_compute. auto. Qed.

(* ------------------------------------------------------------------------------ calendar *)
Lemma dfc_eq_c02 y m d : (1 <= m <= 12)%Z -> days_from_civil y m d = M2.days_from_civil y m d.
Proof.
  intros Hm. unfold days_from_civil, M2.days_from_civil, M2.doe_of.
  assert (Hmp : ((m + 9) mod 12 = if (m <=? 2)%Z then m + 9 else m - 3)%Z).
  { assert (C : (m = 1 \/ m = 2 \/ m = 3 \/ m = 4 \/ m = 5 \/ m = 6 \/ m = 7 \/ m = 8 \/ m = 9 \/ m = 10 \/ m = 11 \/ m = 12)%Z) by lia.
    repeat (destruct C as [C|C]; [subst m; reflexivity|]). subst m. reflexivity. }
  rewrite Hmp. set (y' := if (m <=? 2)%Z then (y - 1)%Z else y).
  rewrite (Z.mod_eq y' 400) by lia. set (mp := if (m <=? 2)%Z then (m + 9)%Z else (m - 3)%Z).
  replace (y' - y' / 400 * 400)%Z with (y' - 400 * (y' / 400))%Z by ring. ring.
Qed.

(* the day number determines the calendar date: two valid epochs with the same day number are the same date *)
Lemma civil_injective y m d y' m' d' :
  M2.valid_date y m d = true -> M2.valid_date y' m' d' = true ->
  days_from_civil y m d = days_from_civil y' m' d' -> (y, m, d) = (y', m', d').
Proof.
  intros V V' E.
  pose proof (P2.valid_date_bounds y m d V) as [B _]. pose proof (P2.valid_date_bounds y' m' d' V') as [B' _].
  rewrite (dfc_eq_c02 y m d B), (dfc_eq_c02 y' m' d' B') in E.
  rewrite <- (P2.civil_of_days_from y m d V), <- (P2.civil_of_days_from y' m' d' V'), E. reflexivity.
Qed.

Example gps_epoch_is_day_3657 : days_from_civil 1980 1 6 = gps_epoch_day /\ days_from_civil 2016 2 28 = (3657 + 1886 * 7)%Z.
Proof. vm_compute. auto. Qed.

(* ------------------------------------------------------------------------------ record epoch -> GPS seconds / Julian date *)
(* the epoch in the file's own time scale (no BeiDou shift) *)
Definition toc_file (p : prec) : Q :=
  let '(y, mo, d, h, mi) := p_civil p in
  (inject_Z ((days_from_civil y mo d - gps_epoch_day) * 86400 + h * 3600 + mi * 60) + dec_toQ (p_sec p))%Q.

Lemma toc_abs_shift p : toc_abs false p == toc_file p + inject_Z (spec_soff (p_sys p)).
Proof.
  unfold toc_abs, toc_file, sec_value. destruct (p_civil p) as [[[[y mo] d] h] mi].
  rewrite !inject_Z_plus. ring.
Qed.

(* the Julian date the check compares with is C02's gps_seconds format; (week, seconds) is C02's gps_ws format *)
Lemma expected_jd_is_gpssec e : (jd_gps_epoch + e / 86400 == M2.jd_of_gpssec e)%Q.
Proof. unfold M2.jd_of_gpssec, M2.JD1980, jd_gps_epoch. reflexivity. Qed.

Lemma gpsws_is_gpssec w s : (M2.jd_of_gpsws w s == M2.jd_of_gpssec (w * weekQ + s))%Q.
Proof. unfold M2.jd_of_gpsws, M2.jd_of_gpssec, weekQ. field. Qed.

(* ... and for an integral second it is C02's datetime format of the calendar epoch *)
Lemma toc_is_datetime y mo d h mi s :
  (1 <= mo <= 12)%Z ->
  (M2.jd_of_us (M2.us_of_dt (M2.Dt y mo d h mi s 0))
   == M2.jd_of_gpssec (inject_Z ((days_from_civil y mo d - gps_epoch_day) * 86400 + h * 3600 + mi * 60 + s)))%Q.
Proof.
  intros Hm. rewrite (dfc_eq_c02 y mo d Hm).
  unfold M2.jd_of_us, M2.us_of_dt, M2.jd_of_gpssec, M2.sod_join, M2.JD2000, M2.JD1980, M2.Qz, M2.US_DAY, M2.US_S, M2.D2000,
    gps_epoch_day. cbn [M2.dY M2.dMo M2.dD M2.dH M2.dMi M2.dS M2.dUs].
  set (n := M2.days_from_civil y mo d).
  unfold Zminus. repeat first [rewrite inject_Z_plus | rewrite inject_Z_mult | rewrite inject_Z_opp].
  change (inject_Z 86400000000) with (86400000000 # 1). change (inject_Z 1000000) with (1000000 # 1).
  change (inject_Z 86400) with (86400 # 1). change (inject_Z 3600) with (3600 # 1). change (inject_Z 60) with (60 # 1).
  change (inject_Z 10957) with (10957 # 1). change (inject_Z 3657) with (3657 # 1). change (inject_Z 0) with 0%Q.
  field.
Qed.

Local Open Scope Q_scope.
(* GPS week and seconds of week of any instant *)
Definition week_of (x : Q) : Z := Qfloor (x / weekQ).
Definition sow_of (x : Q) : Q := qmod x weekQ.

Lemma week_sow_split x : x == inject_Z (week_of x) * weekQ + sow_of x /\ 0 <= sow_of x /\ sow_of x < weekQ.
Proof.
  unfold week_of, sow_of, qmod, weekQ.
  pose proof (Qfloor_le (x / 604800)) as L. pose proof (Qlt_floor (x / 604800)) as U.
  rewrite inject_Z_plus in U. change (inject_Z 1) with 1%Q in U.
  assert (E : x == 604800 * (x / 604800)) by field.
  set (f := inject_Z (Qfloor (x / 604800))) in *. set (q := (x / 604800)%Q) in *.
  repeat split; lra.
Qed.

(* ------------------------------------------------------------------------------ cross-over: the fixed code = the specification *)
Lemma Qlt_b_compat a a' b b' : a == a' -> b == b' -> Qlt_b a b = Qlt_b a' b'.
Proof.
  intros Ha Hb. destruct (Qlt_b a' b') eqn:E.
  - apply Qlt_b_true in E. apply Qlt_b_true. rewrite Ha, Hb. exact E.
  - apply Qlt_b_false in E. apply Qlt_b_false. rewrite Ha, Hb. exact E.
Qed.

Lemma qmod_split x : inject_Z (Qfloor (x / weekQ)) * weekQ + qmod x weekQ == x.
Proof. unfold qmod. ring. Qed.

Theorem cross_fixed_is_spec rows :
  Forall2 Qeq (cross_fixed rows) (cross spec_q rows).
Proof.
  rewrite cross_per_record. unfold cross_fixed.
  induction rows as [|[[toc wb] s] r IH]; [constructor|].
  cbn [map]. constructor; [|exact IH].
  set (lit := wb + s). set (wk := inject_Z (Qfloor (lit / weekQ))). set (sec := qmod lit weekQ).
  assert (El : wk * weekQ + sec == lit) by apply qmod_split.
  assert (Ed : (inject_Z (Qfloor (toc / weekQ)) - wk) * weekQ + qmod toc weekQ - sec == toc - lit).
  { pose proof (qmod_split toc) as Et. lra. }
  unfold resolve. fold lit.
  rewrite (Qlt_b_compat _ _ _ _ (Qeq_refl halfQ) Ed), (Qlt_b_compat _ _ _ _ Ed (Qeq_refl (- halfQ))).
  destruct (Qlt_b halfQ (toc - lit)); [lra|]. destruct (Qlt_b (toc - lit) (- halfQ)); lra.
Qed.

(* ------------------------------------------------------------------------------ the three times of every record *)
(* the time a record reports in field `name` (toe / transmission_time), literally, on the GPS scale *)
Definition lit_time (name : string) (p : prec) : Q :=
  week_val p * weekQ + (match pval name p with Some s => s | None => 0 end + inject_Z (spec_soff (p_sys p))).
Definition rec_time (name : string) (p : prec) : Q := resolve (toc_abs false p) (lit_time name p).

(* per record: the i-th time of the output depends on the i-th record only (no coupling through the file) *)
Lemma times_per_record v hdr sys2 ps :
  c_time (build_cols v spec_q hdr sys2 ps)
  = [("time", map (toc_abs false) ps); ("toe", map (rec_time "toe") ps);
     ("transmission_time", map (rec_time "transmission_time") ps)].
Proof.
  unfold build_cols. cbn [c_time q_ms spec_q andb]. rewrite !cross_per_record. unfold time_rows. rewrite !map_map.
  reflexivity.
Qed.

(* ... and obeys the cross-over law relative to its own epoch *)
Lemma rec_time_spec name p :
  let toc := toc_abs false p in let t := lit_time name p in let r := rec_time name p in
  (r == t \/ r == t + weekQ \/ r == t - weekQ) /\
  ((halfQ < toc - t)%Q -> r == t + weekQ) /\ ((toc - t < - halfQ)%Q -> r == t - weekQ) /\
  ((- halfQ <= toc - t)%Q -> (toc - t <= halfQ)%Q -> r == t) /\
  ((- (halfQ + weekQ) <= toc - t)%Q -> (toc - t <= halfQ + weekQ)%Q -> (- halfQ <= toc - r)%Q /\ (toc - r <= halfQ)%Q).
Proof.
  cbv zeta. unfold rec_time. pose proof (resolve_spec (toc_abs false p) (lit_time name p)) as [A [B [C D]]].
  split; [|tauto].
  unfold resolve. destruct (Qlt_b halfQ _); [right; left; reflexivity|].
  destruct (Qlt_b _ (- halfQ)); [right; right; reflexivity|left; reflexivity].
Qed.

(* BeiDou: epoch + 14 s, week + 1356, seconds of week + 14 s; every other system unchanged *)
Lemma bds_on_record name p w s :
  pval "gnss_week" p = Some w -> pval name p = Some s ->
  (p_sys p = "C" -> toc_abs false p == toc_file p + 14 /\ week_val p == w + 1356
                   /\ lit_time name p == (w + 1356) * weekQ + s + 14) /\
  (p_sys p <> "C" -> toc_abs false p == toc_file p /\ week_val p == w /\ lit_time name p == w * weekQ + s).
Proof.
  intros Hw Hs. unfold lit_time, week_val. rewrite Hw, Hs. rewrite (toc_abs_shift p).
  unfold spec_soff, spec_woff. split; intros Hc.
  - rewrite Hc. cbn [String.eqb Ascii.eqb Bool.eqb]. change (inject_Z 14) with 14%Q. change (inject_Z 1356) with 1356%Q.
    repeat split; ring.
  - destruct (String.eqb_spec (p_sys p) "C"); [contradiction|]. change (inject_Z 0) with 0%Q. repeat split; ring.
Qed.
