(* C06 - further theorems: the arcsine clip is the identity over R, zenith/nadir targets, the 6x6 block-diagonal lift is a proper
   rotation of R^6 (generic Laplace determinant on lists of rows), along/cross/radial block round trip. *)
From Coq Require Import Reals Lra List.
From Verif Require Import Lib.Atan2 Lib.Vec3 Lib.Mat3 Model.C06_Rot Proofs.C06_Rot Proofs.C06_Sound.
Import ListNotations.
Open Scope R_scope.

(* ---------------------------------------------------------------- clip *)
Lemma cauchy_schwarz a b : dot a b * dot a b <= norm2 a * norm2 b.
Proof. pose proof (norm2_nonneg (cross a b)) as H. rewrite lagrange in H. lra. Qed.

Lemma unit_dot_bound a b : norm2 a = 1 -> norm2 b = 1 -> -1 <= dot a b <= 1.
Proof. intros Ha Hb. pose proof (cauchy_schwarz a b) as H. rewrite Ha, Hb in H. split; nra. Qed.

Lemma direction_unit p o : vsub o p <> vzero -> norm2 (direction p o) = 1.
Proof. intros H. unfold direction. rewrite unitv_vunit. apply vunit_norm2. exact H. Qed.

Lemma up_unit lat lon : norm2 (enu_up lat lon) = 1.
Proof. exact (proj1 (proj2 (proj2 (north_completes_rh lat lon)))). Qed.

(* over R the projection of the unit direction on Up is in [-1, 1]: clipping (bc81835) changes nothing *)
Lemma elevation_clip_irrelevant lat lon p o :
  vsub o p <> vzero -> elevation lat lon p o = asin (dot (direction p o) (enu_up lat lon)).
Proof.
  intros H. unfold elevation. rewrite clip1_id; [reflexivity|].
  apply unit_dot_bound; [apply direction_unit; exact H | apply up_unit].
Qed.

(* ---------------------------------------------------------------- zenith / nadir *)
Lemma up_perp_east lat lon : dot (enu_up lat lon) (enu_east lat lon) = 0.
Proof. rewrite dot_comm. exact (proj1 (proj2 (east_perp_axis_up lat lon))). Qed.

Lemma up_perp_north lat lon : dot (enu_up lat lon) (enu_north lat lon) = 0.
Proof.
  rewrite (proj1 (north_completes_rh lat lon)). rewrite dot_comm. apply cross_perp_l.
Qed.

Lemma up_nonzero lat lon : enu_up lat lon <> vzero.
Proof. intros E. pose proof (up_unit lat lon) as H. rewrite E in H. unfold norm2 in H. rewrite dot_zero_l in H. lra. Qed.

Lemma vneg_scale a : vneg a = vscale (-1) a.
Proof. vec3. Qed.

Lemma dot_neg_l a b : dot (vneg a) b = - dot a b.
Proof. vec3. Qed.

(* a target straight above (rho > 0) or below (rho < 0) the position along Up: elevation +-pi/2, zenith distance 0 / pi;
   the east and north projections vanish, so the azimuth of the model is atan2 0 0 = 0 (numerically: arbitrary) *)
Lemma az_el_at_zenith lat lon p o rho :
  0 < rho -> vsub o p = vscale rho (enu_up lat lon) ->
  elevation lat lon p o = PI / 2 /\ zenith_distance lat lon p o = 0 /\ azimuth lat lon p o = 0.
Proof.
  intros Hrho Hd.
  assert (Hdir : direction p o = enu_up lat lon).
  { unfold direction. rewrite unitv_vunit, Hd, vunit_scale_pos by (try exact Hrho; apply up_nonzero).
    apply vunit_of_unit. apply up_unit. }
  assert (He : elevation lat lon p o = PI / 2).
  { unfold elevation. rewrite Hdir. change (dot (enu_up lat lon) (enu_up lat lon)) with (norm2 (enu_up lat lon)).
    rewrite up_unit, clip1_id by lra. apply asin_1. }
  split; [exact He|]. split.
  - unfold zenith_distance. rewrite He. lra.
  - unfold azimuth. rewrite Hdir, up_perp_east, up_perp_north. apply atan2_0_0.
Qed.

Lemma az_el_at_nadir lat lon p o rho :
  rho < 0 -> vsub o p = vscale rho (enu_up lat lon) ->
  elevation lat lon p o = - (PI / 2) /\ zenith_distance lat lon p o = PI /\ azimuth lat lon p o = 0.
Proof.
  intros Hrho Hd.
  assert (Hdir : direction p o = vneg (enu_up lat lon)).
  { unfold direction. rewrite unitv_vunit, Hd.
    replace (vscale rho (enu_up lat lon)) with (vscale (- rho) (vneg (enu_up lat lon))) by (rewrite vneg_scale, vscale_scale; f_equal; ring).
    assert (Hn : vneg (enu_up lat lon) <> vzero).
    { rewrite vneg_scale. apply vscale_nonzero; [lra | apply up_nonzero]. }
    rewrite vunit_scale_pos by (try lra; exact Hn).
    apply vunit_of_unit. rewrite vneg_scale, norm2_scale, up_unit. ring. }
  assert (He : elevation lat lon p o = - (PI / 2)).
  { unfold elevation. rewrite Hdir, dot_neg_l. change (dot (enu_up lat lon) (enu_up lat lon)) with (norm2 (enu_up lat lon)).
    rewrite up_unit, clip1_id by lra.
    rewrite <- sin_PI2, <- sin_neg.
    apply asin_sin. pose proof PI_RGT_0. lra. }
  split; [exact He|]. split.
  - unfold zenith_distance. rewrite He. lra.
  - unfold azimuth. rewrite Hdir, !dot_neg_l, up_perp_east, up_perp_north, Ropp_0. apply atan2_0_0.
Qed.

(* the geodetic point at height h and the model normal satisfy the equations check_normal tests, exactly: X - P(Up) = h Up *)
Lemma normal_frame_complete a e2 lat lon h :
  0 < a -> 0 <= e2 < 1 ->
  nf_W a e2 (geodetic_point a e2 lat lon h) (normal lat lon) = vscale h (normal lat lon) /\
  nf_h a e2 (geodetic_point a e2 lat lon h) (normal lat lon) = h.
Proof.
  intros Ha He.
  assert (HP : nf_P a e2 (normal lat lon) = geodetic_point a e2 lat lon 0) by (exact (foot_of_normal a e2 lat lon Ha He)).
  assert (HW : nf_W a e2 (geodetic_point a e2 lat lon h) (normal lat lon) = vscale h (normal lat lon)).
  { unfold nf_W. rewrite HP, (height_along_normal a e2 lat lon h). vec3. }
  split; [exact HW|].
  unfold nf_h. rewrite HW, dot_scale_l.
  change (dot (normal lat lon) (normal lat lon)) with (norm2 (normal lat lon)).
  rewrite <- up_is_normal, up_unit. ring.
Qed.

(* ---------------------------------------------------------------- the 6x6 block-diagonal lift *)
(* generic determinant of a square matrix given as a list of rows: Laplace expansion along the first row *)
Fixpoint remove_nth {A} (n : nat) (l : list A) : list A :=
  match l with
  | [] => []
  | x :: t => match n with O => t | S k => x :: remove_nth k t end
  end.

Fixpoint det_fuel (fuel : nat) (m : list (list R)) : R :=
  match fuel with
  | O => 1
  | S f =>
      match m with
      | [] => 1
      | row :: rest =>
          (fix go (j : nat) (sgn : R) (r : list R) {struct r} : R :=
             match r with
             | [] => 0
             | a :: r' => sgn * a * det_fuel f (map (remove_nth j) rest) + go (S j) (- sgn) r'
             end) O 1 row
      end
  end.
Definition det_l (m : list (list R)) : R := det_fuel (length m) m.

Definition dotl (a b : list R) : R := fold_right Rplus 0 (map (fun xy => fst xy * snd xy) (combine a b)).
Definition mvec_l (m : list (list R)) (x : list R) : list R := map (fun row => dotl row x) m.

Definition rows3 (M : mat3) : list (list R) :=
  [[m11 M; m12 M; m13 M]; [m21 M; m22 M; m23 M]; [m31 M; m32 M; m33 M]].
(* np.block([[M, 0], [0, M]]) *)
Definition block6 (M : mat3) : list (list R) :=
  [[m11 M; m12 M; m13 M; 0; 0; 0]; [m21 M; m22 M; m23 M; 0; 0; 0]; [m31 M; m32 M; m33 M; 0; 0; 0];
   [0; 0; 0; m11 M; m12 M; m13 M]; [0; 0; 0; m21 M; m22 M; m23 M]; [0; 0; 0; m31 M; m32 M; m33 M]].
Definition to6 (pv : vec3 * vec3) : list R :=
  [vx (fst pv); vy (fst pv); vz (fst pv); vx (snd pv); vy (snd pv); vz (snd pv)].
Definition dot6 (x y : vec3 * vec3) : R := dot (fst x) (fst y) + dot (snd x) (snd y).

(* the list determinant is the usual one on 3x3 matrices *)
Lemma det_l_rows3 M : det_l (rows3 M) = mdet M.
Proof. destruct M. unfold det_l, rows3, mdet. simpl. ring. Qed.

Lemma det_l_identity6 : det_l (block6 mid) = 1.
Proof. unfold det_l, block6, mid. simpl. ring. Qed.

Lemma det_block6 M : det_l (block6 M) = mdet M * mdet M.
Proof. destruct M. unfold det_l, block6, mdet. simpl. ring. Qed.

Lemma block6_acts_as_block M pv : mvec_l (block6 M) (to6 pv) = to6 (block M pv).
Proof.
  destruct M, pv as [[a1 a2 a3] [b1 b2 b3]]. unfold mvec_l, block6, to6, block, mvec, dotl. simpl.
  repeat (f_equal; try ring).
Qed.

Lemma dot6_is_dotl x y : dot6 x y = dotl (to6 x) (to6 y).
Proof. destruct x as [[a1 a2 a3] [b1 b2 b3]], y as [[c1 c2 c3] [d1 d2 d3]]. unfold dot6, dotl, to6, dot. simpl. ring. Qed.

(* orthogonal (preserves the scalar product of R^6) with determinant +1 *)
Lemma posvel_block_is_rotation M :
  rotation M ->
  (forall x y, dot6 (block M x) (block M y) = dot6 x y) /\
  det_l (block6 M) = 1 /\
  (forall pv, mvec_l (block6 M) (to6 pv) = to6 (block M pv)).
Proof.
  intros [HO HD]. split; [|split].
  - intros x y. unfold dot6, block; cbn [fst snd]. rewrite !(orthogonal_preserves_dot M _ _ HO). reflexivity.
  - rewrite det_block6, HD. ring.
  - apply block6_acts_as_block.
Qed.

Lemma enu_block_is_rotation lat lon :
  (forall x y, dot6 (block (trs2enu lat lon) x) (block (trs2enu lat lon) y) = dot6 x y) /\ det_l (block6 (trs2enu lat lon)) = 1 /\
  (forall x y, dot6 (block (enu2trs lat lon) x) (block (enu2trs lat lon) y) = dot6 x y) /\ det_l (block6 (enu2trs lat lon)) = 1.
Proof.
  destruct (enu_rotation lat lon) as [H1 H2].
  destruct (posvel_block_is_rotation _ H1) as [A1 [A2 _]]. destruct (posvel_block_is_rotation _ H2) as [B1 [B2 _]].
  repeat split; assumption.
Qed.

(* along/cross/radial for position/velocity differences: there and back, lengths of both halves, proper rotation of R^6 *)
Lemma acr_block_roundtrip r v pv :
  cross r v <> vzero ->
  block (acr2trs r v) (block (trs2acr r v) pv) = pv /\ block (trs2acr r v) (block (acr2trs r v) pv) = pv /\
  (forall x y, dot6 (block (trs2acr r v) x) (block (trs2acr r v) y) = dot6 x y) /\ det_l (block6 (trs2acr r v)) = 1 /\
  (forall x y, dot6 (block (acr2trs r v) x) (block (acr2trs r v) y) = dot6 x y) /\ det_l (block6 (acr2trs r v)) = 1.
Proof.
  intros H. destruct (acr_orthonormal_rh r v H) as [H1 H2].
  destruct (posvel_block_roundtrip _ pv H1) as [A [B _]].
  destruct (posvel_block_is_rotation _ H1) as [C1 [C2 _]]. destruct (posvel_block_is_rotation _ H2) as [D1 [D2 _]].
  unfold acr2trs in *. repeat split; assumption.
Qed.

(* ---------------------------------------------------------------- two-hop conversions *)
(* the two-hop conversions ENU <-> ACR of position/velocity differences (over TRS) *)
Lemma enu_acr_composition lat lon r v d :
  cross r v <> vzero ->
  rotation (mmul (trs2acr r v) (enu2trs lat lon)) /\ rotation (mmul (trs2enu lat lon) (acr2trs r v)) /\
  mvec (trs2acr r v) (mvec (enu2trs lat lon) d) = mvec (mmul (trs2acr r v) (enu2trs lat lon)) d /\
  mvec (trs2enu lat lon) (mvec (acr2trs r v) (mvec (trs2acr r v) (mvec (enu2trs lat lon) d))) = d /\
  mvec (enu2trs lat lon) (mvec (trs2enu lat lon) (mvec (acr2trs r v) d)) = mvec (acr2trs r v) d.
Proof.
  intros H. destruct (acr_orthonormal_rh r v H) as [A1 A2]. destruct (enu_rotation lat lon) as [E1 E2].
  split; [apply rotation_mul; assumption|]. split; [apply rotation_mul; assumption|].
  split; [symmetry; apply mvec_mul|]. split.
  - unfold acr2trs. rewrite (rotation_roundtrip _ _ A1). apply (proj2 (enu_roundtrip lat lon d)).
  - apply (proj1 (enu_roundtrip lat lon _)).
Qed.
