(* C19 - text form: textwrap.fill on lines that fit, the reader over whole files. *)
From Coq Require Import ZArith List Bool String Ascii Lia.
From Verif Require Import Gen.C19_BoolStates Model.C19_Config Proofs.C19_Config.
Import ListNotations.
Open Scope string_scope.

(* ================================================================== strings *)
Lemma app_nil_r_s (a : string) : a ++ "" = a.
Proof. induction a; simpl; [reflexivity|]. rewrite IHa. reflexivity. Qed.

Lemma length_app_s (a b : string) : String.length (a ++ b) = String.length a + String.length b.
Proof. induction a; simpl; [reflexivity|]. rewrite IHa. reflexivity. Qed.

Lemma concat_cons_s x l : String.concat "" (x :: l) = x ++ String.concat "" l.
Proof. destruct l; simpl; [symmetry; apply app_nil_r_s|reflexivity]. Qed.

Lemma concat_app_s l1 l2 : String.concat "" (l1 ++ l2) = String.concat "" l1 ++ String.concat "" l2.
Proof.
  induction l1 as [|x r IH]; [reflexivity|].
  change ((x :: r) ++ l2)%list with (x :: (r ++ l2))%list. rewrite !concat_cons_s, IH, app_assoc_s. reflexivity.
Qed.

Definition total (cs : list string) : nat := fold_right (fun c n => String.length c + n) 0 cs.

Lemma total_concat cs : String.length (String.concat "" cs) = total cs.
Proof. induction cs as [|c r IH]; [reflexivity|]. rewrite concat_cons_s, length_app_s, IH. reflexivity. Qed.

(* ================================================================== chunks *)
Lemma concat_chunks_aux s : forall cur b, String.concat "" (chunks_aux cur b s) = cur ++ s.
Proof.
  induction s as [|a r IH]; intros cur b; simpl.
  - destruct cur; [reflexivity|]. simpl. rewrite app_nil_r_s. reflexivity.
  - destruct cur as [|c0 cr].
    + rewrite IH. reflexivity.
    + destruct (Bool.eqb (Ascii.eqb a sp) b).
      * rewrite IH, app_assoc_s. reflexivity.
      * rewrite concat_cons_s, IH. reflexivity.
Qed.

Lemma concat_chunks s : String.concat "" (chunks s) = s.
Proof. unfold chunks. apply concat_chunks_aux. Qed.

(* last character of a string is not a blank *)
Fixpoint ends_nonblank (s : string) : bool :=
  match s with
  | EmptyString => false
  | String a EmptyString => negb (Ascii.eqb sp a)
  | String _ r => ends_nonblank r
  end.

Lemma is_blank_app_false a b : is_blank b = false -> is_blank (a ++ b) = false.
Proof. unfold is_blank. intros H. rewrite sall_app, H. apply andb_false_r. Qed.

Lemma chunks_aux_last s : forall cur b,
  (s = EmptyString -> is_blank cur = false) -> (s <> EmptyString -> ends_nonblank s = true) ->
  exists pre c, chunks_aux cur b s = (pre ++ [c])%list /\ is_blank c = false.
Proof.
  induction s as [|a r IH]; intros cur b H0 H1.
  - simpl. specialize (H0 eq_refl). destruct cur; [cbv in H0; discriminate|]. exists [], (String a cur). split; [reflexivity|exact H0].
  - assert (E : ends_nonblank (String a r) = true) by (apply H1; discriminate).
    assert (Hr : r <> EmptyString -> ends_nonblank r = true) by (intros N; destruct r; [contradiction|exact E]).
    assert (Ha : r = EmptyString -> is_blank (s1 a) = false).
    { intros ->. cbn [ends_nonblank] in E. unfold is_blank, s1. cbn [sall].
      destruct (Ascii.eqb sp a); [cbn in E; discriminate|reflexivity]. }
    simpl. destruct cur as [|c0 cr].
    + apply IH; assumption.
    + destruct (Bool.eqb (Ascii.eqb a sp) b).
      * apply IH; [|exact Hr]. intros N. apply is_blank_app_false. apply Ha. exact N.
      * destruct (IH (s1 a) (Ascii.eqb a sp) Ha Hr) as [pre [c [Ec Hc]]].
        exists (String c0 cr :: pre), c. rewrite Ec. split; [reflexivity|exact Hc].
Qed.

Lemma chunks_last s : ends_nonblank s = true ->
  exists pre c, chunks s = (pre ++ [c])%list /\ is_blank c = false.
Proof.
  intros H. unfold chunks. apply chunks_aux_last; [|intros _; exact H].
  intros ->. discriminate.
Qed.

(* ================================================================== a line that fits is left unchanged *)
Lemma take_fit_all cs : forall avail n acc,
  n + total cs <= avail -> take_fit avail n cs acc = ((rev cs ++ acc)%list, []).
Proof.
  induction cs as [|c r IH]; intros avail n acc H; [reflexivity|].
  simpl in *. assert (L : Nat.leb (n + String.length c) avail = true) by (apply Nat.leb_le; lia).
  rewrite L, IH by lia. rewrite <- app_assoc. reflexivity.
Qed.

Lemma wrap_lines_nil f w h b : wrap_lines f w h b [] = [].
Proof. destruct f; reflexivity. Qed.

Lemma fill_fits w h text :
  ends_nonblank text = true -> String.length text <= w -> fill w h text = text.
Proof.
  intros E L. unfold fill. destruct (chunks_last text E) as [pre [c [Ec Hc]]].
  pose proof (concat_chunks text) as Ct. pose proof (total_concat (chunks text)) as Tt. rewrite Ct in Tt.
  rewrite Ec in *. set (cs := (pre ++ [c])%list) in *.
  assert (Ecs : exists c0 r0, cs = c0 :: r0).
  { unfold cs. destruct pre; simpl; eauto. }
  destruct Ecs as [c0 [r0 E0]].
  cbn [wrap_lines]. rewrite E0. cbn [negb andb]. rewrite <- E0.
  rewrite Nat.sub_0_r. rewrite take_fit_all by lia. rewrite app_nil_r.
  unfold cs at 1 2 3. rewrite rev_app_distr. cbn [rev app]. rewrite Hc.
  rewrite wrap_lines_nil. cbn [join spaces].
  cbn [rev]. rewrite rev_involutive. exact Ct.
Qed.

(* ================================================================== chunks of a text followed by more text *)
Lemma chunks_aux_open P : forall cur b,
  (P = EmptyString -> cur <> EmptyString /\ b = false) -> (P <> EmptyString -> ends_nonblank P = true) ->
  exists init c', c' <> EmptyString /\ forall tail, chunks_aux cur b (P ++ tail) = (init ++ chunks_aux c' false tail)%list.
Proof.
  induction P as [|a r IH]; intros cur b H0 H1.
  - destruct (H0 eq_refl) as [Hc ->]. exists [], cur. split; [exact Hc|]. intros tail. reflexivity.
  - assert (E : ends_nonblank (String a r) = true) by (apply H1; discriminate).
    assert (Hr : r <> EmptyString -> ends_nonblank r = true) by (intros N; destruct r; [contradiction|exact E]).
    assert (Ha : r = EmptyString -> Ascii.eqb a sp = false).
    { intros ->. cbn [ends_nonblank] in E. rewrite Ascii.eqb_sym. destruct (Ascii.eqb sp a); [cbn in E; discriminate|reflexivity]. }
    destruct cur as [|c0 cr].
    + destruct (IH (s1 a) (Ascii.eqb a sp)) as [init [c' [Hc' Ht]]].
      * intros Er. split; [discriminate|apply Ha; exact Er].
      * exact Hr.
      * exists init, c'. split; [exact Hc'|]. intros tail. simpl. apply Ht.
    + destruct (Bool.eqb (Ascii.eqb a sp) b) eqn:Eb.
      * destruct (IH (String c0 cr ++ s1 a) b) as [init [c' [Hc' Ht]]].
        -- intros Er. split; [discriminate|]. apply Bool.eqb_prop in Eb. rewrite <- Eb. apply Ha. exact Er.
        -- exact Hr.
        -- exists init, c'. split; [exact Hc'|]. intros tail.
           change (String a r ++ tail) with (String a (r ++ tail)). cbn [chunks_aux]. rewrite Eb. apply Ht.
      * destruct (IH (s1 a) (Ascii.eqb a sp)) as [init [c' [Hc' Ht]]].
        -- intros Er. split; [discriminate|apply Ha; exact Er].
        -- exact Hr.
        -- exists (String c0 cr :: init), c'. split; [exact Hc'|]. intros tail.
           change (String a r ++ tail) with (String a (r ++ tail)). cbn [chunks_aux]. rewrite Eb. rewrite Ht. reflexivity.
Qed.

Lemma chunks_open P : ends_nonblank P = true ->
  exists init c', c' <> EmptyString /\ forall tail, chunks (P ++ tail) = (init ++ chunks_aux c' false tail)%list.
Proof.
  intros E. unfold chunks. apply chunks_aux_open; [|intros _; exact E]. intros ->. discriminate.
Qed.

Lemma spaces_snoc n : spaces n ++ s1 sp = spaces (S n).
Proof. induction n; simpl; [reflexivity|]. rewrite IHn. reflexivity. Qed.

Lemma chunks_aux_blank_run j : forall m, chunks_aux (spaces (S m)) true (spaces j) = [spaces (S m + j)].
Proof.
  induction j as [|j IH]; intros m.
  - rewrite Nat.add_0_r. reflexivity.
  - cbn [spaces chunks_aux]. rewrite Ascii.eqb_refl. cbn [Bool.eqb].
    change (String sp (spaces m) ++ s1 sp) with (spaces (S m) ++ s1 sp). rewrite spaces_snoc, IH.
    replace (S (S m) + j) with (S m + S j) by lia. reflexivity.
Qed.

Lemma chunks_aux_spaces c n : c <> EmptyString -> chunks_aux c false (spaces (S n)) = [c; spaces (S n)].
Proof.
  intros Hc. destruct c as [|c0 cr]; [contradiction|]. cbn [spaces chunks_aux]. rewrite Ascii.eqb_refl. cbn [Bool.eqb].
  change (s1 sp) with (spaces 1). rewrite chunks_aux_blank_run. reflexivity.
Qed.

Lemma chunks_aux_end c : c <> EmptyString -> chunks_aux c false EmptyString = [c].
Proof. destruct c; [contradiction|reflexivity]. Qed.

Lemma is_blank_spaces n : is_blank (spaces n) = true.
Proof. unfold is_blank. induction n; simpl; [reflexivity|exact IHn]. Qed.

(* a line that fits and ends in blanks loses them *)
Lemma fill_fits_trailing w h body n :
  ends_nonblank body = true -> String.length (body ++ spaces (S n)) <= w -> fill w h (body ++ spaces (S n)) = body.
Proof.
  intros E L. unfold fill. destruct (chunks_open body E) as [init [c' [Hc' Ht]]].
  pose proof (Ht (spaces (S n))) as C1. rewrite (chunks_aux_spaces c' n Hc') in C1.
  pose proof (Ht EmptyString) as C0. rewrite app_nil_r_s, (chunks_aux_end c' Hc') in C0.
  pose proof (concat_chunks body) as Cb. rewrite C0 in Cb.
  pose proof (total_concat (chunks (body ++ spaces (S n)))) as Tt. rewrite concat_chunks in Tt.
  rewrite C1 in *. set (cs := (init ++ [c'; spaces (S n)])%list) in *.
  assert (Ecs : exists c0 r0, cs = c0 :: r0) by (unfold cs; destruct init; simpl; eauto).
  destruct Ecs as [c0 [r0 E0]].
  cbn [wrap_lines]. rewrite E0. cbn [negb andb]. rewrite <- E0.
  rewrite Nat.sub_0_r. rewrite take_fit_all by lia. rewrite app_nil_r.
  unfold cs at 1 2 3.
  replace (init ++ [c'; spaces (S n)])%list with ((init ++ [c']) ++ [spaces (S n)])%list by (rewrite <- app_assoc; reflexivity).
  rewrite rev_app_distr. cbn [rev app]. rewrite is_blank_spaces.
  rewrite rev_app_distr. cbn [rev app].
  rewrite wrap_lines_nil. cbn [join spaces].
  rewrite rev_involutive. exact Cb.
Qed.

(* ================================================================== more dictionary facts *)
Section AssocMore.
  Variables (K V W : Type) (eqb : K -> K -> bool).
  Hypothesis eqb_spec : forall a b, eqb a b = true <-> a = b.
  Variable f : V -> W.
  Let F := fun kv : K * V => (fst kv, f (snd kv)).

  Lemma aget_map_val k l : aget eqb k (map F l) = option_map f (aget eqb k l).
  Proof. induction l as [|[k0 v0] r IH]; simpl; [reflexivity|]. destruct (eqb k k0); [reflexivity|exact IH]. Qed.

  Lemma aset_map_val l k v : map F (aset eqb l k v) = aset eqb (map F l) k (f v).
  Proof.
    induction l as [|[k0 v0] r IH]; simpl; [reflexivity|].
    destruct (eqb k k0); simpl; [reflexivity|]. rewrite IH. reflexivity.
  Qed.

  Lemma aset_same (l : list (K * V)) k v : aget eqb k l = Some v -> aset eqb l k v = l.
  Proof.
    induction l as [|[k0 v0] r IH]; simpl; [discriminate|].
    destruct (eqb k k0) eqn:E; [intros H; inversion H; reflexivity|]. intros H. rewrite (IH H). reflexivity.
  Qed.

  Lemma aset_last (D : list (K * V)) k x y : ~ In k (map fst D) -> aset eqb (D ++ [(k, x)]) k y = (D ++ [(k, y)])%list.
  Proof.
    induction D as [|[k0 v0] r IH]; simpl; intros N.
    - rewrite (proj2 (eqb_spec k k) eq_refl). reflexivity.
    - destruct (eqb k k0) eqn:E; [apply eqb_spec in E; subst; exfalso; apply N; left; reflexivity|].
      rewrite IH; [reflexivity|]. intros H. apply N. right. exact H.
  Qed.

  Lemma aset_new (l : list (K * V)) k v : aget eqb k l = None -> aset eqb l k v = (l ++ [(k, v)])%list.
  Proof.
    induction l as [|[k0 v0] r IH]; simpl; [reflexivity|].
    destruct (eqb k k0); [discriminate|]. intros H. rewrite (IH H). reflexivity.
  Qed.

  Lemma aget_last (D : list (K * V)) k x : ~ In k (map fst D) -> aget eqb k (D ++ [(k, x)]) = Some x.
  Proof.
    intros N. rewrite aget_app_notin. rewrite (proj2 (aget_none_notin _ _ _ eqb_spec D k) N).
    rewrite (proj2 (eqb_spec k k) eq_refl). reflexivity.
  Qed.
End AssocMore.

(* ================================================================== lines of a text *)
Definition no_nl (s : string) : Prop := has_char nl s = false.

Lemma split_where_none p s : sany p s = false -> split_where p s = [s].
Proof.
  induction s as [|a r IH]; simpl; [reflexivity|]. intros H. apply orb_false_iff in H. destruct H as [Ha Hr].
  rewrite Ha, (IH Hr). reflexivity.
Qed.

Lemma split_where_app p a c b : sany p a = false -> p c = true ->
  split_where p (a ++ String c b) = a :: split_where p b.
Proof.
  induction a as [|x r IH]; simpl; intros Ha Hc.
  - rewrite Hc. reflexivity.
  - apply orb_false_iff in Ha. destruct Ha as [Hx Hr]. rewrite Hx, (IH Hr Hc). reflexivity.
Qed.

Lemma split_join ls : ls <> [] -> Forall no_nl ls -> split_on nl (join (s1 nl) ls) = ls.
Proof.
  induction ls as [|l r IH]; [contradiction|]. intros _ F. inversion F; subst.
  destruct r as [|l2 r2].
  - simpl. apply split_where_none. exact H1.
  - change (join (s1 nl) (l :: l2 :: r2)) with (l ++ String nl (join (s1 nl) (l2 :: r2))).
    unfold split_on. rewrite split_where_app; [|exact H1|apply Ascii.eqb_refl].
    f_equal. apply IH; [discriminate|exact H2].
Qed.

Lemma join_app_s sep l1 l2 : l1 <> [] -> l2 <> [] ->
  join sep (l1 ++ l2) = join sep l1 ++ sep ++ join sep l2.
Proof.
  induction l1 as [|x r IH]; [contradiction|]. intros _ N2.
  destruct r as [|y r'].
  - simpl. destruct l2; [contradiction|reflexivity].
  - change ((x :: y :: r') ++ l2)%list with (x :: ((y :: r') ++ l2))%list.
    change (join sep (x :: (y :: r') ++ l2)) with (x ++ sep ++ join sep ((y :: r') ++ l2)).
    rewrite IH by (discriminate || assumption).
    change (join sep (x :: y :: r')) with (x ++ sep ++ join sep (y :: r')).
    rewrite !app_assoc_s. reflexivity.
Qed.

(* ================================================================== the reader over the lines of a written file *)
Definition norm_sect (opts : list (string * option (list string))) : list (string * option string) :=
  map (fun kv => (fst kv, opt_value (snd kv))) opts.
Definition norm_parsed (p : parsed) : list (string * list (string * option string)) :=
  map (fun ns => (fst ns, norm_sect (snd ns))) p.

Definition rinv (st : rstate) (Nd : list (string * list (string * option string))) (sn : string)
           (no : list (string * option string)) : Prop :=
  norm_parsed (r_done st) = (Nd ++ [(sn, no)])%list /\ ~ In sn (map fst Nd) /\ r_sect st = Some sn.

Lemma joined_blank ls : joined_value (ls ++ [EmptyString]) = joined_value ls.
Proof.
  unfold joined_value, joined_raw. destruct ls as [|l r]; [reflexivity|].
  rewrite join_app_s by discriminate. cbn [join]. rewrite app_nil_r_s.
  rewrite rstrip_app_space by reflexivity. reflexivity.
Qed.

Lemma norm_sect_aset opts k x : norm_sect (aset String.eqb opts k x) = aset String.eqb (norm_sect opts) k (opt_value x).
Proof. unfold norm_sect. apply aset_map_val. Qed.
Lemma norm_parsed_aset p k x : norm_parsed (aset String.eqb p k x) = aset String.eqb (norm_parsed p) k (norm_sect x).
Proof. unfold norm_parsed. apply aset_map_val. Qed.
Lemma norm_sect_get k opts : aget String.eqb k (norm_sect opts) = option_map opt_value (aget String.eqb k opts).
Proof. unfold norm_sect. apply aget_map_val. Qed.
Lemma norm_parsed_get k p : aget String.eqb k (norm_parsed p) = option_map norm_sect (aget String.eqb k p).
Proof. unfold norm_parsed. apply aget_map_val. Qed.

Lemma norm_add_blank p sn on : norm_parsed (add_value_line p sn on EmptyString) = norm_parsed p.
Proof.
  unfold add_value_line. destruct (sget sn p) as [opts|] eqn:E; [|reflexivity].
  destruct (sget on opts) as [[ls|]|] eqn:E2; try reflexivity.
  unfold sset. rewrite norm_parsed_aset, norm_sect_aset.
  assert (A : aset String.eqb (norm_sect opts) on (opt_value (Some (ls ++ [EmptyString])%list)) = norm_sect opts).
  { apply aset_same. rewrite norm_sect_get. unfold sget in E2. rewrite E2. simpl. rewrite joined_blank. reflexivity. }
  rewrite A. apply aset_same. rewrite norm_parsed_get. unfold sget in E. rewrite E. reflexivity.
Qed.

Lemma read_blank cs st Nd sn no :
  rinv st Nd sn no -> exists st', read_line cs (Ok st) EmptyString = Ok st' /\ rinv st' Nd sn no.
Proof.
  intros [N [D S]]. unfold read_line. cbn [strip lstrip rstrip]. change (is_comment EmptyString) with false. cbv iota.
  rewrite S. destruct (r_opt st) as [on|].
  - eexists. split; [reflexivity|]. split; [|split; [exact D|reflexivity]]. cbn [r_done]. rewrite norm_add_blank. exact N.
  - eexists. split; [reflexivity|]. split; [exact N|split; [exact D|reflexivity]].
Qed.

Lemma rinv_sget st Nd sn no :
  rinv st Nd sn no -> exists opts, sget sn (r_done st) = Some opts /\ norm_sect opts = no.
Proof.
  intros [N [D _]].
  assert (A : sget sn (norm_parsed (r_done st)) = Some no).
  { rewrite N. unfold sget. apply aget_last; [exact string_eqb_spec|exact D]. }
  unfold sget in A. rewrite norm_parsed_get in A.
  destruct (aget String.eqb sn (r_done st)) as [opts|] eqn:E; [|discriminate].
  exists opts. split; [exact E|]. simpl in A. inversion A. reflexivity.
Qed.

Lemma smem_norm k opts : smem k (norm_sect opts) = smem k opts.
Proof. unfold smem, amem. rewrite norm_sect_get. destruct (aget String.eqb k opts); reflexivity. Qed.

Lemma read_entry (cs : bool) st Nd sn no (k v : string) :
  rinv st Nd sn no -> key_ok k -> value_ok v -> (if cs then k else lower k) = k -> smem k no = false ->
  exists st', read_line cs (Ok st) (plain_line k v) = Ok st' /\ rinv st' Nd sn (no ++ [(k, Some v)]).
Proof.
  intros I Hk Hv Hx Hm. destruct (rinv_sget _ _ _ _ I) as [opts [Eo En]]. destruct I as [N [D S]].
  pose proof (read_entry_line cs st k v sn opts Hk Hv S Eo) as R. cbv zeta in R. rewrite Hx in R.
  rewrite <- En, smem_norm in Hm. specialize (R Hm).
  eexists. split; [exact R|]. split; [|split; [exact D|reflexivity]].
  cbn [r_done]. unfold sset. rewrite norm_parsed_aset, N.
  rewrite aset_last by (exact string_eqb_spec || exact D).
  unfold norm_sect at 1. rewrite map_app. cbn [map fst snd opt_value option_map].
  rewrite (joined_single v Hv). fold (norm_sect opts). rewrite En. reflexivity.
Qed.

Definition sn_ok (sn : string) : Prop :=
  sn <> EmptyString /\ has_char "]"%char sn = false /\
  is_space (match sn with String a _ => a | _ => sp end) = false /\
  partition_dunder sn = (sn, false, EmptyString) /\ no_nl sn.

Lemma smem_norm_parsed k p : smem k (norm_parsed p) = smem k p.
Proof. unfold smem, amem. rewrite norm_parsed_get. destruct (aget String.eqb k p); reflexivity. Qed.

Lemma read_header cs st Nd sn no sn' :
  rinv st Nd sn no -> sn_ok sn' -> ~ In sn' (map fst (Nd ++ [(sn, no)])) ->
  exists st', read_line cs (Ok st) ("[" ++ sn' ++ "]") = Ok st' /\ rinv st' (Nd ++ [(sn, no)]) sn' [].
Proof.
  intros [N [D S]] [H1 [H2 [H3 _]]] Hn.
  assert (Hm : smem sn' (r_done st) = false).
  { rewrite <- smem_norm_parsed, N. unfold smem, amem.
    rewrite (proj2 (aget_none_notin _ _ _ string_eqb_spec _ sn') Hn). reflexivity. }
  destruct (read_header_line cs st sn' H1 H2 H3 Hm) as [ind R].
  eexists. split; [exact R|]. split; [|split; [exact Hn|reflexivity]].
  cbn [r_done]. unfold norm_parsed. rewrite map_app. fold (norm_parsed (r_done st)). rewrite N. reflexivity.
Qed.

Lemma read_first_header cs sn' :
  sn_ok sn' ->
  exists st', read_line cs (Ok (RState [] None None 0)) ("[" ++ sn' ++ "]") = Ok st' /\ rinv st' [] sn' [].
Proof.
  intros [H1 [H2 [H3 _]]].
  destruct (read_header_line cs (RState [] None None 0) sn' H1 H2 H3 eq_refl) as [ind R].
  eexists. split; [exact R|]. split; [reflexivity|split; [intros []|reflexivity]].
Qed.

(* ================================================================== the sub-grammar and the lines of a view *)
Definition xform (cs : bool) (k : string) : string := if cs then k else lower k.
Definition mname (k mk : string) : string := k ++ ":" ++ mk.
Definition mkey_ok (mk : string) : Prop :=
  mk <> EmptyString /\ rstrip mk = mk /\ has_char eqsign mk = false /\ no_nl mk.

(* a value as written: empty, or without leading/trailing whitespace and line breaks *)
Definition wval_ok (x : string) : Prop := x = EmptyString \/ value_ok x.
(* the line of an option with a value: an empty value leaves `key<pad> =` *)
Definition wline (k x : string) : string :=
  match x with EmptyString => pad_right key_width k ++ " =" | _ => plain_line k x end.

Definition meta_item_ok (cs : bool) (w : nat) (k : string) (kv : string * option string) : Prop :=
  mkey_ok (fst kv) /\ xform cs (fst kv) = fst kv /\
  match snd kv with
  | Some x => wval_ok x /\ String.length (plain_line (mname k (fst kv)) x) <= w
  | None => String.length (mname k (fst kv)) <= w
  end.

Definition entry_ok (cs : bool) (w : nat) (ke : string * entry) : Prop :=
  fst ke = e_key (snd ke) /\ key_ok (e_key (snd ke)) /\ has_char colon (e_key (snd ke)) = false /\
  no_nl (e_key (snd ke)) /\ xform cs (e_key (snd ke)) = e_key (snd ke) /\
  wval_ok (e_val (snd ke)) /\
  String.length (plain_line (e_key (snd ke)) (e_val (snd ke))) <= w /\
  NoDup (map fst (e_meta (snd ke))) /\ Forall (meta_item_ok cs w (e_key (snd ke))) (e_meta (snd ke)).

(* the options an entry is written as: the entry itself, then one option key:meta per metadata item *)
Definition entry_opts (ke : string * entry) : list (string * option string) :=
  (e_key (snd ke), Some (e_val (snd ke))) ::
  map (fun kv => (mname (e_key (snd ke)) (fst kv), snd kv)) (e_meta (snd ke)).
Definition exp_opts (s : sect) : list (string * option string) := flat_map entry_opts s.
Definition exp_norm (v : sections) := map (fun ns => (fst ns, exp_opts (snd ns))) v.

Definition section_ok (cs : bool) (w : nat) (ns : string * sect) : Prop :=
  sn_ok (fst ns) /\ snd ns <> [] /\ NoDup (map fst (snd ns)) /\ Forall (entry_ok cs w) (snd ns).
Definition view_ok (cs : bool) (w : nat) (v : sections) : Prop :=
  NoDup (map fst v) /\ Forall (section_ok cs w) v.

Definition opt_line (o : string * option string) : string :=
  match snd o with Some x => wline (fst o) x | None => fst o end.
Definition entry_lines_of (ke : string * entry) : list string :=
  (map opt_line (entry_opts ke) ++ match e_meta (snd ke) with [] => [] | _ => [EmptyString] end)%list.
Definition sect_lines (ns : string * sect) : list string :=
  ("[" ++ fst ns ++ "]") :: flat_map entry_lines_of (snd ns).
Fixpoint tail_lines (v : sections) : list string :=
  match v with
  | [] => [EmptyString]
  | ns :: r => (EmptyString :: EmptyString :: sect_lines ns ++ tail_lines r)%list
  end.

(* ---- one option line *)
Definition opt_ok (cs : bool) (o : string * option string) : Prop :=
  key_ok (fst o) /\ xform cs (fst o) = fst o /\ match snd o with Some x => wval_ok x | None => True end.

Lemma partition_nochar c s : has_char c s = false -> partition_on c s = (s, false, EmptyString).
Proof.
  unfold has_char. induction s as [|a r IH]; [reflexivity|]. cbn [sany partition_on]. intros H.
  apply orb_false_iff in H. destruct H as [Ha Hr]. rewrite Ascii.eqb_sym, Ha, (IH Hr). reflexivity.
Qed.

Lemma read_novalue_line (cs : bool) (st : rstate) (k sn : string) opts :
  key_ok k -> r_sect st = Some sn -> sget sn (r_done st) = Some opts ->
  let k' := if cs then k else lower k in
  smem k' opts = false ->
  read_line cs (Ok st) k = Ok (RState (sset (r_done st) sn (opts ++ [(k', None)])%list) (Some sn) (Some k') 0).
Proof.
  intros [Hk [Hkr Hke]] Hs Ho k' Hm. destruct k as [|a kr]; [contradiction|]. destruct Hk as [Ha1 [Ha2 [Ha3 Ha4]]].
  assert (Els : lstrip (String a kr) = String a kr) by (apply lstrip_nonspace; exact Ha4).
  assert (Estrip : strip (String a kr) = String a kr) by (unfold strip; rewrite Els; exact Hkr).
  assert (Ecom : is_comment (String a kr) = false) by (apply is_comment_other; assumption).
  assert (Eind : indent_of (String a kr) = 0) by (unfold indent_of; rewrite Els; apply Nat.sub_diag).
  unfold read_line. rewrite Estrip, Ecom. cbv iota. rewrite Eind, Hs.
  assert (Enew : new_line cs st (String a kr) 0 =
                 Ok (RState (sset (r_done st) sn (opts ++ [(k', None)])%list) (Some sn) (Some k') 0)).
  { unfold new_line. rewrite header_of_other by assumption. rewrite Hs.
    rewrite (partition_nochar eqsign (String a kr) Hke). rewrite Hkr. rewrite Ho. fold k'. rewrite Hm. reflexivity. }
  destruct (r_opt st); [simpl; exact Enew|exact Enew].
Qed.

Lemma read_empty_line (cs : bool) (st : rstate) (k sn : string) opts :
  key_ok k -> r_sect st = Some sn -> sget sn (r_done st) = Some opts ->
  let k' := if cs then k else lower k in
  smem k' opts = false ->
  read_line cs (Ok st) (pad_right key_width k ++ " =") =
  Ok (RState (sset (r_done st) sn (opts ++ [(k', Some [EmptyString])])%list) (Some sn) (Some k') 0).
Proof.
  intros [Hk [Hkr Hke]] Hs Ho k' Hm. destruct k as [|a kr]; [contradiction|]. destruct Hk as [Ha1 [Ha2 [Ha3 Ha4]]].
  set (line := pad_right key_width (String a kr) ++ " =").
  assert (Eline : line = String a (kr ++ spaces (key_width - String.length (String a kr)) ++ " =")).
  { unfold line, pad_right. simpl. rewrite !app_assoc_s. reflexivity. }
  assert (Els : lstrip line = line) by (rewrite Eline; apply lstrip_nonspace; exact Ha4).
  assert (Estrip : strip line = line).
  { unfold strip. rewrite Els. unfold line.
    replace (pad_right key_width (String a kr) ++ " =") with ((pad_right key_width (String a kr) ++ " ") ++ "=")
      by (rewrite app_assoc_s; reflexivity).
    apply rstrip_app_keep; [reflexivity|discriminate]. }
  assert (Ecom : is_comment line = false) by (rewrite Eline; apply is_comment_other; assumption).
  assert (Eind : indent_of line = 0) by (unfold indent_of; rewrite Els; apply Nat.sub_diag).
  unfold read_line. rewrite Estrip, Ecom. rewrite Eline at 1. cbv iota. try rewrite <- Eline. rewrite Eind, Hs.
  assert (Enew : new_line cs st line 0 =
                 Ok (RState (sset (r_done st) sn (opts ++ [(k', Some [EmptyString])])%list) (Some sn) (Some k') 0)).
  { unfold new_line. rewrite Eline at 1. rewrite header_of_other by assumption. rewrite Hs.
    assert (Epart : partition_on eqsign line = (pad_right key_width (String a kr) ++ " ", true, EmptyString)).
    { unfold line.
      replace (pad_right key_width (String a kr) ++ " =")
        with ((pad_right key_width (String a kr) ++ " ") ++ String eqsign EmptyString) by (rewrite app_assoc_s; reflexivity).
      apply partition_app_nochar. unfold has_char, pad_right. rewrite !any_app.
      unfold has_char in Hke. rewrite Hke. rewrite any_spaces by reflexivity. reflexivity. }
    rewrite Epart.
    assert (Ers : rstrip (pad_right key_width (String a kr) ++ " ") = String a kr).
    { unfold pad_right. rewrite app_assoc_s. rewrite rstrip_app_space; [exact Hkr|].
      rewrite sall_app, sall_spaces. reflexivity. }
    rewrite Ers. rewrite Ho. fold k'. rewrite Hm. reflexivity. }
  destruct (r_opt st); [simpl; exact Enew|exact Enew].
Qed.

Lemma read_opt (cs : bool) st Nd sn no (o : string * option string) :
  rinv st Nd sn no -> opt_ok cs o -> smem (fst o) no = false ->
  exists st', read_line cs (Ok st) (opt_line o) = Ok st' /\ rinv st' Nd sn (no ++ [o]).
Proof.
  intros I [Hk [Hx Hv]] Hm. destruct o as [k [v|]]; simpl in *.
  - unfold opt_line. simpl. destruct Hv as [->|Hv].
    + destruct (rinv_sget _ _ _ _ I) as [opts [Eo En]]. destruct I as [N [D S]].
      pose proof (read_empty_line cs st k sn opts Hk S Eo) as R. cbv zeta in R. unfold xform in Hx. rewrite Hx in R.
      rewrite <- En, smem_norm in Hm. specialize (R Hm).
      eexists. split; [exact R|]. split; [|split; [exact D|reflexivity]].
      cbn [r_done]. unfold sset. rewrite norm_parsed_aset, N.
      rewrite aset_last by (exact string_eqb_spec || exact D).
      unfold norm_sect at 1. rewrite map_app. cbn [map fst snd].
      fold (norm_sect opts). rewrite En. reflexivity.
    + assert (Ew : wline k v = plain_line k v) by (destruct Hv as [Vn _]; destruct v; [contradiction|reflexivity]).
      rewrite Ew. apply read_entry; assumption.
  - destruct (rinv_sget _ _ _ _ I) as [opts [Eo En]]. destruct I as [N [D S]].
    pose proof (read_novalue_line cs st k sn opts Hk S Eo) as R. cbv zeta in R. unfold xform in Hx. rewrite Hx in R.
    rewrite <- En, smem_norm in Hm. specialize (R Hm).
    eexists. split; [exact R|]. split; [|split; [exact D|reflexivity]].
    cbn [r_done]. unfold sset. rewrite norm_parsed_aset, N.
    rewrite aset_last by (exact string_eqb_spec || exact D).
    unfold norm_sect at 1. rewrite map_app. cbn [map fst snd opt_value option_map].
    fold (norm_sect opts). rewrite En. reflexivity.
Qed.

Lemma smem_snoc {V} k (l : list (string * V)) k0 x :
  smem k (l ++ [(k0, x)]) = (smem k l || String.eqb k k0)%bool.
Proof.
  unfold smem, amem. rewrite aget_app_notin. destruct (aget String.eqb k l); [reflexivity|].
  destruct (String.eqb k k0); reflexivity.
Qed.

Lemma fold_read_app cs l1 l2 st : fold_left (read_line cs) (l1 ++ l2) st = fold_left (read_line cs) l2 (fold_left (read_line cs) l1 st).
Proof. apply fold_left_app. Qed.

Lemma read_opts cs os : forall st Nd sn no,
  rinv st Nd sn no -> Forall (opt_ok cs) os -> NoDup (map fst os) ->
  (forall k, In k (map fst os) -> smem k no = false) ->
  exists st', fold_left (read_line cs) (map opt_line os) (Ok st) = Ok st' /\ rinv st' Nd sn (no ++ os).
Proof.
  induction os as [|o r IH]; intros st Nd sn no I F ND Hm.
  - exists st. split; [reflexivity|]. rewrite app_nil_r. exact I.
  - inversion F as [|? ? Fo Fr]; subst. inversion ND as [|? ? Nk NDr]; subst.
    destruct (read_opt cs st Nd sn no o I Fo (Hm _ (or_introl eq_refl))) as [st1 [R1 I1]].
    destruct (IH st1 Nd sn (no ++ [o])%list I1 Fr NDr) as [st2 [R2 I2]].
    { intros k Hk. destruct o as [k0 x]. rewrite smem_snoc, (Hm k (or_intror Hk)). simpl.
      destruct (String.eqb k k0) eqn:Ek; [|reflexivity].
      apply String.eqb_eq in Ek. subst k. exfalso. apply Nk. exact Hk. }
    exists st2. split.
    + change (map opt_line (o :: r)) with (opt_line o :: map opt_line r).
      change (fold_left (read_line cs) (opt_line o :: map opt_line r) (Ok st))
        with (fold_left (read_line cs) (map opt_line r) (read_line cs (Ok st) (opt_line o))).
      rewrite R1. exact R2.
    + rewrite <- app_assoc in I2. exact I2.
Qed.

(* ---- the options of an entry are well-formed option lines *)
Lemma smap_app f a b : smap f (a ++ b) = smap f a ++ smap f b.
Proof. induction a as [|x r IH]; simpl; [reflexivity|]. rewrite IH. reflexivity. Qed.

Lemma mname_ok cs k mk : key_ok k -> xform cs k = k -> mkey_ok mk -> xform cs mk = mk ->
  key_ok (mname k mk) /\ xform cs (mname k mk) = mname k mk.
Proof.
  intros [Hk [Hkr Hke]] Hx [Mn [Mr [Me _]]] Hmx. split.
  - split; [|split].
    + destruct k as [|a kr]; [contradiction|]. exact Hk.
    + unfold mname. rewrite <- app_assoc_s. apply rstrip_app_keep; assumption.
    + unfold mname, has_char in *. rewrite !any_app, Hke, Me. reflexivity.
  - unfold xform in *. destruct cs; [reflexivity|]. unfold mname, lower in *. rewrite !smap_app, Hx, Hmx. reflexivity.
Qed.

Lemma entry_opts_ok cs w ke : entry_ok cs w ke -> Forall (opt_ok cs) (entry_opts ke).
Proof.
  intros [_ [Hk [_ [_ [Hx [Hv [_ [_ Fm]]]]]]]]. unfold entry_opts. constructor.
  - split; [exact Hk|split; [exact Hx|exact Hv]].
  - rewrite Forall_forall in *. intros o Ho. apply in_map_iff in Ho. destruct Ho as [kv [<- Hkv]].
    destruct (Fm kv Hkv) as [M1 [M2 M3]]. destruct (mname_ok cs _ _ Hk Hx M1 M2) as [A B].
    split; [exact A|split; [exact B|]]. simpl. destruct (snd kv); [exact (proj1 M3)|exact I].
Qed.

Lemma nodup_app_disj {A} (a b : list A) : NoDup (a ++ b) -> forall x, In x a -> ~ In x b.
Proof.
  induction a as [|y r IH]; intros ND x Hx; [destruct Hx|]. simpl in ND. inversion ND; subst.
  destruct Hx as [->|Hx]; [intros H; apply H1; rewrite in_app_iff; right; exact H|apply IH; assumption].
Qed.

Lemma nodup_app_l {A} (a b : list A) : NoDup (a ++ b) -> NoDup a.
Proof.
  induction a as [|y r IH]; intros ND; [constructor|]. simpl in ND. inversion ND; subst. constructor.
  - intros H. apply H1. rewrite in_app_iff. left. exact H.
  - apply IH. exact H2.
Qed.
Lemma nodup_app_r {A} (a b : list A) : NoDup (a ++ b) -> NoDup b.
Proof. induction a as [|y r IH]; intros ND; [exact ND|]. simpl in ND. inversion ND; subst. apply IH. exact H2. Qed.

Lemma read_entries cs w es : forall st Nd sn no,
  rinv st Nd sn no -> Forall (entry_ok cs w) es -> NoDup (map fst (exp_opts es)) ->
  (forall k, In k (map fst (exp_opts es)) -> smem k no = false) ->
  exists st', fold_left (read_line cs) (flat_map entry_lines_of es) (Ok st) = Ok st' /\ rinv st' Nd sn (no ++ exp_opts es).
Proof.
  induction es as [|ke r IH]; intros st Nd sn no I F ND Hm.
  - exists st. split; [reflexivity|]. simpl. rewrite app_nil_r. exact I.
  - inversion F as [|? ? Fe Fr]; subst.
    change (exp_opts (ke :: r)) with (entry_opts ke ++ exp_opts r)%list in *. rewrite map_app in ND, Hm.
    destruct (read_opts cs (entry_opts ke) st Nd sn no I (entry_opts_ok cs w ke Fe) (nodup_app_l _ _ ND))
      as [st1 [R1 I1]].
    { intros k Hk. apply Hm. rewrite in_app_iff. left. exact Hk. }
    assert (B : exists st1', fold_left (read_line cs) (entry_lines_of ke) (Ok st) = Ok st1' /\
                             rinv st1' Nd sn (no ++ entry_opts ke)).
    { unfold entry_lines_of. rewrite fold_read_app, R1. destruct (e_meta (snd ke)).
      - exists st1. split; [reflexivity|exact I1].
      - destruct (read_blank cs st1 _ _ _ I1) as [st1' [Rb Ib]]. exists st1'. split; [exact Rb|exact Ib]. }
    destruct B as [st1' [R1' I1']].
    destruct (IH st1' Nd sn (no ++ entry_opts ke)%list I1' Fr (nodup_app_r _ _ ND)) as [st2 [R2 I2]].
    { intros k Hk. unfold smem, amem. rewrite (proj2 (aget_none_notin _ _ _ string_eqb_spec _ k)); [reflexivity|].
      rewrite map_app, in_app_iff. intros [H|H].
      - assert (Hs : smem k no = false) by (apply Hm; rewrite in_app_iff; right; exact Hk).
        unfold smem, amem in Hs. apply (in_map_iff) in H. destruct H as [[k1 x1] [E1 H1]]. simpl in E1. subst k1.
        destruct (aget String.eqb k no) eqn:Eg; [discriminate|].
        apply (aget_none_notin _ _ _ string_eqb_spec) in Eg. apply Eg. apply (in_map fst) in H1. exact H1.
      - exact (nodup_app_disj _ _ ND k H Hk). }
    exists st2. split.
    + cbn [flat_map]. rewrite fold_read_app, R1'. exact R2.
    + rewrite <- app_assoc in I2. exact I2.
Qed.

(* the option names key / key:meta of a section are pairwise different *)
Lemma nodup_app_intro {A} (a b : list A) : NoDup a -> NoDup b -> (forall x, In x a -> ~ In x b) -> NoDup (a ++ b).
Proof.
  induction a as [|y r IH]; intros Na Nb D; [exact Nb|]. inversion Na; subst. simpl. constructor.
  - rewrite in_app_iff. intros [H|H]; [contradiction|]. exact (D y (or_introl eq_refl) H).
  - apply IH; [assumption|assumption|]. intros x Hx. apply D. right. exact Hx.
Qed.

Lemma prefix_colon' k name : has_char colon name = false -> prefix_b (k ++ ":") name = false.
Proof.
  revert name. induction k as [|x k' IH]; intros name H.
  - destruct name as [|a r]; [reflexivity|]. unfold has_char in H. cbn [sany] in H. apply orb_false_iff in H.
    cbn [append prefix_b]. change (Ascii.eqb ":" a) with (Ascii.eqb colon a). rewrite (proj1 H). reflexivity.
  - destruct name as [|a r]; [reflexivity|]. unfold has_char in H. cbn [sany] in H. apply orb_false_iff in H.
    change (String x k' ++ ":") with (String x (k' ++ ":")). cbn [prefix_b]. rewrite (IH r (proj2 H)). apply andb_false_r.
Qed.

Lemma prefix_app' a b : prefix_b a (a ++ b) = true.
Proof. induction a as [|x r IH]; [reflexivity|]. simpl. rewrite Ascii.eqb_refl, IH. reflexivity. Qed.

Lemma prefix_own' k x : prefix_b (k ++ ":") (mname k x) = true.
Proof. unfold mname. rewrite <- app_assoc_s. apply prefix_app'. Qed.

Lemma prefix_other' k : forall k' x,
  has_char colon k = false -> has_char colon k' = false -> k <> k' -> prefix_b (k ++ ":") (mname k' x) = false.
Proof.
  unfold mname, has_char. induction k as [|c kr IH]; intros k' x Hk Hk' N.
  - destruct k' as [|a r]; [contradiction|]. cbn [sany] in Hk'. apply orb_false_iff in Hk'.
    cbn [append prefix_b]. change (Ascii.eqb ":" a) with (Ascii.eqb colon a). rewrite (proj1 Hk'). reflexivity.
  - cbn [sany] in Hk. apply orb_false_iff in Hk. destruct Hk as [Hc Hkr].
    change (String c kr ++ ":") with (String c (kr ++ ":")).
    destruct k' as [|a r].
    + cbn [append prefix_b]. change (Ascii.eqb c ":") with (Ascii.eqb c colon). rewrite Ascii.eqb_sym, Hc. reflexivity.
    + cbn [sany] in Hk'. apply orb_false_iff in Hk'. destruct Hk' as [_ Hr].
      change (String a r ++ ":" ++ x) with (String a (r ++ ":" ++ x)). cbn [prefix_b].
      destruct (Ascii.eqb c a) eqn:E; [|reflexivity]. apply Ascii.eqb_eq in E. subst a.
      rewrite (IH r x Hkr Hr); [reflexivity|]. intros ->. apply N. reflexivity.
Qed.

Lemma mname_inj k a b : mname k a = mname k b -> a = b.
Proof. unfold mname. induction k as [|c r IH]; simpl; intros H; [inversion H; reflexivity|]. inversion H. auto. Qed.

Lemma names_entry_opts ke :
  map fst (entry_opts ke) = e_key (snd ke) :: map (mname (e_key (snd ke))) (map fst (e_meta (snd ke))).
Proof. unfold entry_opts. cbn [map fst]. rewrite !map_map. reflexivity. Qed.

(* a name of entry_opts ke is recognised by the prefix test for ke's key, and only for that key *)
Lemma name_prefix cs w ke x k :
  entry_ok cs w ke -> In x (map fst (entry_opts ke)) -> has_char colon k = false ->
  (x = e_key (snd ke) /\ has_char colon x = false) \/
  (prefix_b (k ++ ":") x = String.eqb k (e_key (snd ke)) /\ has_char colon x = true).
Proof.
  intros [_ [_ [Kc _]]] H Hk. rewrite names_entry_opts in H. destruct H as [<-|H].
  - left. split; [reflexivity|exact Kc].
  - right. apply in_map_iff in H. destruct H as [mk [<- _]]. split.
    + destruct (String.eqb k (e_key (snd ke))) eqn:E.
      * apply String.eqb_eq in E. subst. apply prefix_own'.
      * apply prefix_other'; [exact Hk|exact Kc|]. intros ->. rewrite String.eqb_refl in E. discriminate.
    + unfold mname, has_char. rewrite !any_app. simpl. apply orb_true_r.
Qed.

Lemma entry_names_nodup cs w ke : entry_ok cs w ke -> NoDup (map fst (entry_opts ke)).
Proof.
  intros E. pose proof E as [_ [_ [Kc [_ [_ [_ [_ [ND _]]]]]]]]. rewrite names_entry_opts. constructor.
  - intros H. apply in_map_iff in H. destruct H as [mk [Em _]].
    assert (C : has_char colon (mname (e_key (snd ke)) mk) = true).
    { unfold mname, has_char. rewrite !any_app. simpl. apply orb_true_r. }
    rewrite Em, Kc in C. discriminate.
  - clear -ND. induction (map fst (e_meta (snd ke))) as [|a r IH]; [constructor|]. inversion ND; subst. simpl. constructor.
    + intros H. apply in_map_iff in H. destruct H as [b [Eb Hb]]. apply mname_inj in Eb. subst. contradiction.
    + apply IH. assumption.
Qed.

Lemma opt_names_nodup cs w s :
  NoDup (map fst s) -> Forall (entry_ok cs w) s -> NoDup (map fst (exp_opts s)).
Proof.
  induction s as [|ke r IH]; intros ND F; [constructor|]. inversion ND; subst. inversion F; subst.
  change (exp_opts (ke :: r)) with (entry_opts ke ++ exp_opts r)%list. rewrite map_app.
  apply nodup_app_intro; [eapply entry_names_nodup; eassumption|apply IH; assumption|].
  intros x Hx Hr. unfold exp_opts in Hr. rewrite flat_map_concat_map, concat_map, map_map in Hr.
  apply in_concat in Hr. destruct Hr as [l [Hl Hxl]]. apply in_map_iff in Hl. destruct Hl as [ke' [<- Hke']].
  rewrite Forall_forall in H4. pose proof (H4 ke' Hke') as E'. pose proof H3 as E.
  assert (Kc : has_char colon (e_key (snd ke)) = false) by (destruct E as [_ [_ [Kc _]]]; exact Kc).
  assert (Kc' : has_char colon (e_key (snd ke')) = false) by (destruct E' as [_ [_ [Kc' _]]]; exact Kc').
  assert (Nk : e_key (snd ke) <> e_key (snd ke')).
  { intros Ek. apply H1. destruct E as [E1 _]. destruct E' as [E1' _]. rewrite E1, Ek, <- E1'. apply in_map. exact Hke'. }
  destruct (name_prefix cs w ke x (e_key (snd ke)) E Hx Kc) as [[X1 X2]|[X1 X2]];
    destruct (name_prefix cs w ke' x (e_key (snd ke)) E' Hxl Kc) as [[Y1 Y2]|[Y1 Y2]].
  - apply Nk. rewrite <- X1, <- Y1. reflexivity.
  - rewrite X2 in Y2. discriminate.
  - rewrite X2 in Y2. discriminate.
  - rewrite X1, String.eqb_refl in Y1. symmetry in Y1. apply String.eqb_eq in Y1. contradiction.
Qed.

Lemma read_tail cs w r : forall st Nd sn no,
  rinv st Nd sn no -> Forall (section_ok cs w) r ->
  NoDup (map fst (Nd ++ [(sn, no)]) ++ map fst r) ->
  exists st', fold_left (read_line cs) (tail_lines r) (Ok st) = Ok st' /\
              norm_parsed (r_done st') = ((Nd ++ [(sn, no)]) ++ exp_norm r)%list.
Proof.
  induction r as [|ns r IH]; intros st Nd sn no I F ND.
  - destruct (read_blank cs st Nd sn no I) as [st1 [R1 I1]]. exists st1. split; [simpl; exact R1|].
    simpl. rewrite app_nil_r. exact (proj1 I1).
  - inversion F as [|? ? Fs Fr]; subst. destruct Fs as [S1 [S2 [S3 S4]]].
    pose proof (opt_names_nodup cs w _ S3 S4) as S5.
    destruct (read_blank cs st Nd sn no I) as [st1 [R1 I1]].
    destruct (read_blank cs st1 Nd sn no I1) as [st2 [R2 I2]].
    assert (Hn : ~ In (fst ns) (map fst (Nd ++ [(sn, no)]))).
    { apply NoDup_remove_2 in ND. intros H. apply ND. rewrite in_app_iff. left. exact H. }
    destruct (read_header cs st2 Nd sn no (fst ns) I2 S1 Hn) as [st3 [R3 I3]].
    destruct (read_entries cs w (snd ns) st3 _ _ [] I3 S4 S5 (fun _ _ => eq_refl)) as [st4 [R4 I4]].
    simpl in I4.
    destruct (IH st4 (Nd ++ [(sn, no)])%list (fst ns) (exp_opts (snd ns)) I4 Fr) as [st5 [R5 N5]].
    { rewrite (map_app fst (Nd ++ [(sn, no)])%list). cbn [map fst]. rewrite <- app_assoc. exact ND. }
    exists st5. split.
    + cbn [tail_lines fold_left]. rewrite R1. cbn [fold_left]. rewrite R2.
      unfold sect_lines. rewrite <- app_comm_cons. cbn [fold_left]. rewrite R3.
      rewrite fold_read_app, R4. exact R5.
    + rewrite N5. cbn [exp_norm map]. rewrite <- app_assoc. reflexivity.
Qed.

Lemma read_view cs w ns r :
  view_ok cs w (ns :: r) ->
  exists st', fold_left (read_line cs) (sect_lines ns ++ tail_lines r) (Ok (RState [] None None 0)) = Ok st' /\
              norm_parsed (r_done st') = exp_norm (ns :: r).
Proof.
  intros [ND F]. inversion F as [|? ? Fs Fr]; subst. destruct Fs as [S1 [S2 [S3 S4]]].
  pose proof (opt_names_nodup cs w _ S3 S4) as S5.
  destruct (read_first_header cs (fst ns) S1) as [st1 [R1 I1]].
  destruct (read_entries cs w (snd ns) st1 _ _ [] I1 S4 S5 (fun _ _ => eq_refl)) as [st2 [R2 I2]].
  simpl in I2.
  destruct (read_tail cs w r st2 [] (fst ns) (exp_opts (snd ns)) I2 Fr ND) as [st3 [R3 N3]].
  exists st3. split.
  - unfold sect_lines. rewrite <- app_comm_cons. cbn [fold_left]. rewrite R1. rewrite fold_read_app, R2. exact R3.
  - exact N3.
Qed.

(* ================================================================== the written text, line by line *)
Lemma ends_nonblank_app a v : v <> EmptyString -> ends_nonblank (a ++ v) = ends_nonblank v.
Proof.
  intros N. induction a as [|x r IH]; [reflexivity|].
  change (String x r ++ v) with (String x (r ++ v)). cbn [ends_nonblank].
  destruct (r ++ v) eqn:E; [destruct r; [contradiction|discriminate]|]. exact IH.
Qed.

Lemma rstrip_cons a r :
  rstrip (String a r) = match rstrip r with EmptyString => if is_space a then EmptyString else s1 a | r' => String a r' end.
Proof. reflexivity. Qed.

Lemma rstrip_ends v : rstrip v = v -> v <> EmptyString -> ends_nonblank v = true.
Proof.
  induction v as [|a r IH]; [intros _ N; contradiction|]. intros H _.
  destruct r as [|b r'].
  - simpl in H. cbn [ends_nonblank]. destruct (is_space a) eqn:Sa; [discriminate|].
    destruct (Ascii.eqb sp a) eqn:E; [|reflexivity]. apply Ascii.eqb_eq in E. subst a. cbv in Sa. discriminate.
  - cbn [ends_nonblank]. apply IH; [|discriminate].
    rewrite rstrip_cons in H. destruct (rstrip (String b r')) eqn:E.
    + destruct (is_space a); unfold s1 in H; discriminate.
    + inversion H. reflexivity.
Qed.

Lemma ends_plain k x : value_ok x -> ends_nonblank (plain_line k x) = true.
Proof.
  intros [Vn [_ [Vr _]]]. unfold plain_line. rewrite ends_nonblank_app by (simpl; discriminate).
  rewrite (ends_nonblank_app " = ") by exact Vn. apply rstrip_ends; assumption.
Qed.

Lemma fill_wline w k x :
  key_ok k -> wval_ok x -> String.length (plain_line k x) <= w ->
  fill w (key_width + 3) (pad_right key_width k ++ " = " ++ x) = wline k x.
Proof.
  intros Hk [->|Hv] L.
  - change (wline k "") with (pad_right key_width k ++ " =").
    change (pad_right key_width k ++ " = " ++ "") with (pad_right key_width k ++ " = ").
    replace (pad_right key_width k ++ " = ") with ((pad_right key_width k ++ " =") ++ spaces 1)
      by (rewrite app_assoc_s; reflexivity).
    apply fill_fits_trailing.
    + rewrite ends_nonblank_app by discriminate. reflexivity.
    + unfold plain_line in L. rewrite app_assoc_s. exact L.
  - assert (Ew : wline k x = plain_line k x) by (destruct Hv as [Vn _]; destruct x; [contradiction|reflexivity]).
    rewrite Ew. apply fill_fits; [apply ends_plain; exact Hv|exact L].
Qed.

Lemma entry_lines_eq cs w ke : entry_ok cs w ke -> entry_lines w true (snd ke) = entry_lines_of ke.
Proof.
  intros [_ [Hk [_ [_ [Hx [Hv [L [_ Fm]]]]]]]].
  unfold entry_lines, entry_lines_of, entry_opts. cbv zeta.
  assert (E1 : fill w (key_width + 3) (pad_right key_width (e_key (snd ke)) ++ " = " ++ e_val (snd ke))
               = wline (e_key (snd ke)) (e_val (snd ke))).
  { apply fill_wline; assumption. }
  rewrite E1.
  assert (Emap : map (fun kv : string * option string =>
                        match snd kv with
                        | Some v => fill w (key_width + 3) (pad_right key_width (e_key (snd ke) ++ ":" ++ fst kv) ++ " = " ++ v)
                        | None => fill w (key_width + 3) (e_key (snd ke) ++ ":" ++ fst kv)
                        end) (e_meta (snd ke))
                 = map opt_line (map (fun kv => (mname (e_key (snd ke)) (fst kv), snd kv)) (e_meta (snd ke)))).
  { rewrite map_map. apply map_ext_in. intros kv Hkv. rewrite Forall_forall in Fm.
    destruct (Fm kv Hkv) as [[Mn [Mr Mrest]] [Mx M3]]. unfold opt_line. cbn [fst snd]. destruct (snd kv) as [x|].
    - destruct M3 as [Vx Lx]. apply (fill_wline w (mname _ _)); [|exact Vx|exact Lx].
      exact (proj1 (mname_ok cs _ _ Hk Hx (conj Mn (conj Mr Mrest)) Mx)).
    - apply fill_fits; [|exact M3]. unfold mname. rewrite ends_nonblank_app by (simpl; discriminate).
      rewrite (ends_nonblank_app ":") by exact Mn. apply rstrip_ends; assumption. }
  destruct (e_meta (snd ke)) as [|m0 mr]; [reflexivity|].
  cbn [andb]. rewrite Emap. reflexivity.
Qed.

Lemma join_cons_s sep h l : l <> [] -> join sep (h :: l) = h ++ sep ++ join sep l.
Proof. destruct l; [contradiction|reflexivity]. Qed.

Lemma join_concat sep ls : Forall (fun l => l <> []) ls -> join sep (map (join sep) ls) = join sep (List.concat ls).
Proof.
  induction ls as [|l r IH]; intros F; [reflexivity|]. inversion F; subst.
  destruct r as [|l2 r2].
  - simpl. rewrite app_nil_r. reflexivity.
  - change (map (join sep) (l :: l2 :: r2)) with (join sep l :: map (join sep) (l2 :: r2)).
    rewrite join_cons_s by discriminate. rewrite IH by assumption.
    cbn [List.concat]. rewrite (join_app_s sep l); [reflexivity|assumption|].
    inversion H2; subst. destruct l2; [contradiction|discriminate].
Qed.

Lemma section_str_lines cs w ns : section_ok cs w ns -> section_str w true ns = join (s1 nl) (sect_lines ns).
Proof.
  intros [_ [Ne [_ F]]]. unfold section_str, sect_lines. destruct (snd ns) as [|ke r] eqn:E; [contradiction|].
  rewrite join_cons_s.
  - replace (map (fun ke0 : string * entry => entry_str w true (snd ke0)) (ke :: r))
      with (map (join (s1 nl)) (map entry_lines_of (ke :: r))).
    + rewrite join_concat.
      * rewrite <- flat_map_concat_map. rewrite !app_assoc_s. reflexivity.
      * rewrite Forall_forall. intros l Hl. apply in_map_iff in Hl. destruct Hl as [x [<- _]].
        unfold entry_lines_of, entry_opts. discriminate.
    + rewrite map_map. apply map_ext_in. intros x Hx. unfold entry_str.
      rewrite (entry_lines_eq cs w x); [reflexivity|]. rewrite Forall_forall in F. apply F. exact Hx.
  - cbn [flat_map]. unfold entry_lines_of at 1, entry_opts. discriminate.
Qed.

Fixpoint mid_lines (v : sections) : list string :=
  match v with
  | [] => []
  | ns :: r => (EmptyString :: EmptyString :: sect_lines ns ++ mid_lines r)%list
  end.

Lemma tail_mid r : tail_lines r = (mid_lines r ++ [EmptyString])%list.
Proof. induction r as [|ns r IH]; [reflexivity|]. simpl. rewrite IH, <- app_assoc. reflexivity. Qed.

Definition sep3 : string := s1 nl ++ s1 nl ++ s1 nl.

Lemma join_sections r : forall ns,
  join sep3 (map (fun x => join (s1 nl) (sect_lines x)) (ns :: r)) = join (s1 nl) (sect_lines ns ++ mid_lines r).
Proof.
  induction r as [|ns2 r2 IH]; intros ns.
  - simpl. rewrite app_nil_r. reflexivity.
  - change (map (fun x => join (s1 nl) (sect_lines x)) (ns :: ns2 :: r2))
      with (join (s1 nl) (sect_lines ns) :: map (fun x => join (s1 nl) (sect_lines x)) (ns2 :: r2)).
    rewrite join_cons_s by discriminate. rewrite IH.
    cbn [mid_lines]. rewrite (join_app_s (s1 nl) (sect_lines ns)); [|unfold sect_lines; discriminate|discriminate].
    rewrite (join_cons_s (s1 nl) EmptyString) by discriminate.
    rewrite (join_cons_s (s1 nl) EmptyString) by (unfold sect_lines; discriminate).
    unfold sep3. rewrite !app_assoc_s. reflexivity.
Qed.

Lemma nonempty_sections cs w v :
  Forall (section_ok cs w) v ->
  filter nonempty (map (section_str w true) v) = map (fun x => join (s1 nl) (sect_lines x)) v.
Proof.
  induction v as [|ns r IH]; intros F; [reflexivity|]. inversion F; subst.
  cbn [map filter]. rewrite (section_str_lines cs w ns H1), (IH H2).
  unfold sect_lines at 1. rewrite join_cons_s; [reflexivity|].
  destruct H1 as [_ [Ne _]]. destruct (snd ns); [contradiction|]. cbn [flat_map]. unfold entry_lines_of at 1, entry_opts. discriminate.
Qed.

Lemma as_str_lines cs w c ns r :
  c_view c = ns :: r -> view_ok cs w (ns :: r) ->
  as_str w true c = join (s1 nl) (sect_lines ns ++ mid_lines r).
Proof.
  intros E [_ F]. unfold as_str. rewrite E, (nonempty_sections cs w _ F). apply join_sections.
Qed.

Lemma no_nl_app a b : no_nl a -> no_nl b -> no_nl (a ++ b).
Proof. unfold no_nl, has_char. intros Ha Hb. rewrite any_app, Ha, Hb. reflexivity. Qed.

Lemma no_nl_spaces n : no_nl (spaces n).
Proof. unfold no_nl, has_char. apply any_spaces. reflexivity. Qed.

Lemma no_nl_plain k x : no_nl k -> no_nl x -> no_nl (plain_line k x).
Proof.
  intros Hk Hx. unfold plain_line, pad_right. repeat apply no_nl_app; try assumption; try reflexivity. apply no_nl_spaces.
Qed.

Lemma no_nl_wline k x : no_nl k -> no_nl x -> no_nl (wline k x).
Proof.
  intros Hk Hx. destruct x; [|apply no_nl_plain; assumption].
  unfold wline, pad_right. repeat apply no_nl_app; try assumption; try reflexivity. apply no_nl_spaces.
Qed.

Lemma wval_no_nl x : wval_ok x -> no_nl x.
Proof. intros [->|[_ [_ [_ H]]]]; [reflexivity|exact H]. Qed.

Lemma entry_lines_no_nl cs w ke : entry_ok cs w ke -> Forall no_nl (entry_lines_of ke).
Proof.
  intros [_ [_ [_ [Kn [_ [Hv [_ [_ Fm]]]]]]]]. pose proof (wval_no_nl _ Hv) as Vn. unfold entry_lines_of, entry_opts.
  apply Forall_app. split.
  - cbn [map]. constructor; [unfold opt_line; cbn [fst snd]; apply no_nl_wline; assumption|].
    rewrite map_map. rewrite Forall_forall in *. intros l Hl. apply in_map_iff in Hl. destruct Hl as [kv [<- Hkv]].
    destruct (Fm kv Hkv) as [[_ [_ [_ Mn]]] [_ M3]]. unfold opt_line. cbn [fst snd].
    assert (Nm : no_nl (mname (e_key (snd ke)) (fst kv))).
    { unfold mname. repeat apply no_nl_app; try assumption; reflexivity. }
    destruct (snd kv) as [x|]; [|exact Nm]. apply no_nl_wline; [exact Nm|]. destruct M3 as [Xv _]. exact (wval_no_nl _ Xv).
  - destruct (e_meta (snd ke)); repeat constructor.
Qed.

Lemma sect_lines_no_nl cs w ns : section_ok cs w ns -> Forall no_nl (sect_lines ns).
Proof.
  intros [[_ [_ [_ [_ Sn]]]] [_ [_ F]]]. unfold sect_lines. constructor.
  - apply (no_nl_app "["); [reflexivity|]. apply no_nl_app; [exact Sn|reflexivity].
  - rewrite Forall_forall in *. intros l Hl. apply in_flat_map in Hl. destruct Hl as [ke [Hke Hl]].
    pose proof (entry_lines_no_nl cs w ke (F ke Hke)) as G. rewrite Forall_forall in G. apply G. exact Hl.
Qed.

Lemma mid_lines_no_nl cs w r : Forall (section_ok cs w) r -> Forall no_nl (mid_lines r).
Proof.
  induction r as [|ns r IH]; intros F; [constructor|]. inversion F; subst. cbn [mid_lines].
  constructor; [reflexivity|]. constructor; [reflexivity|]. apply Forall_app. split; [eapply sect_lines_no_nl; eassumption|auto].
Qed.

Lemma text_lines cs w c ns r :
  c_view c = ns :: r -> view_ok cs w (ns :: r) ->
  split_on nl (as_str w true c ++ s1 nl) = (sect_lines ns ++ tail_lines r)%list.
Proof.
  intros E V. rewrite (as_str_lines cs w c ns r E V). destruct V as [_ F]. inversion F; subst.
  rewrite tail_mid, app_assoc.
  replace (join (s1 nl) (sect_lines ns ++ mid_lines r) ++ s1 nl)
    with (join (s1 nl) ((sect_lines ns ++ mid_lines r) ++ [EmptyString])).
  - apply split_join.
    + unfold sect_lines. discriminate.
    + apply Forall_app. split; [|repeat constructor].
      apply Forall_app. split; [eapply sect_lines_no_nl; eassumption|eapply mid_lines_no_nl; eassumption].
  - rewrite join_app_s; [|unfold sect_lines; discriminate|discriminate]. cbn [join]. rewrite app_nil_r_s. reflexivity.
Qed.

(* ================================================================== building sections entry by entry *)
Lemma sget_last_s {V} (D : list (string * V)) k x : ~ In k (map fst D) -> sget k (D ++ [(k, x)]) = Some x.
Proof. intros N. unfold sget. apply aget_last; [exact string_eqb_spec|exact N]. Qed.

Lemma set_entry_last (D : sections) sn (s0 : sect) k e :
  ~ In sn (map fst D) -> ~ In k (map fst s0) ->
  set_entry (D ++ [(sn, s0)])%list sn k e = (D ++ [(sn, (s0 ++ [(k, e)])%list)])%list.
Proof.
  intros Nd Nk. unfold set_entry, ensure_section. unfold sections, sect in *.
  rewrite sget_last_s by exact Nd. rewrite sget_last_s by exact Nd.
  unfold sset. rewrite aset_last by (exact string_eqb_spec || exact Nd).
  rewrite (aset_new _ _ String.eqb s0 k e); [reflexivity|].
  apply (aget_none_notin _ _ _ string_eqb_spec). exact Nk.
Qed.

Lemma set_entry_new (D : sections) sn k e :
  ~ In sn (map fst D) -> set_entry D sn k e = (D ++ [(sn, [(k, e)])])%list.
Proof.
  intros Nd. unfold set_entry, ensure_section.
  assert (E : sget sn D = None) by (apply (aget_none_notin _ _ _ string_eqb_spec); exact Nd).
  unfold sections, sect in *. rewrite E. rewrite sget_last_s by exact Nd.
  unfold sset. rewrite aset_last by (exact string_eqb_spec || exact Nd). reflexivity.
Qed.

Lemma fold_set_entries (es : sect) : forall (D : sections) sn (s0 : sect),
  ~ In sn (map fst D) -> NoDup (map fst (s0 ++ es)%list) ->
  fold_left (fun v ke => set_entry v sn (fst ke) (snd ke)) es (D ++ [(sn, s0)])%list = (D ++ [(sn, (s0 ++ es)%list)])%list.
Proof.
  induction es as [|[k e] r IH]; intros D sn s0 Nd ND; simpl.
  - rewrite app_nil_r. reflexivity.
  - rewrite set_entry_last; [|exact Nd|].
    + rewrite IH; [|exact Nd|rewrite <- app_assoc; exact ND]. rewrite <- app_assoc. reflexivity.
    + rewrite map_app in ND. simpl in ND. apply NoDup_remove_2 in ND. intros H. apply ND. rewrite in_app_iff. left. exact H.
Qed.

Lemma merge_section_new (D : sections) sn (s : sect) :
  ~ In sn (map fst D) -> NoDup (map fst s) -> merge_section D sn s = (D ++ [(sn, s)])%list.
Proof.
  intros Nd ND. unfold merge_section, ensure_section.
  assert (E : sget sn D = None) by (apply (aget_none_notin _ _ _ string_eqb_spec); exact Nd).
  rewrite E. apply (fold_set_entries s D sn []); assumption.
Qed.

Lemma merge_sections_new (ps : sections) : forall D : sections,
  NoDup (map fst (D ++ ps)%list) -> Forall (fun ns => NoDup (map fst (snd ns))) ps -> merge_sections D ps = (D ++ ps)%list.
Proof.
  induction ps as [|[sn s] r IH]; intros D ND F; [rewrite app_nil_r; reflexivity|].
  unfold merge_sections. simpl. fold (merge_sections (merge_section D sn s) r).
  inversion F; subst. simpl in *.
  rewrite merge_section_new; [| |assumption].
  - rewrite IH; [rewrite <- app_assoc; reflexivity| |assumption].
    rewrite <- app_assoc. exact ND.
  - rewrite map_app in ND. simpl in ND. apply NoDup_remove_2 in ND. intros H. apply ND. rewrite in_app_iff. left. exact H.
Qed.

(* ================================================================== items of update_from_file for a written view *)
Definition mk_upd (path sn : string) (ke : string * entry) : upd :=
  Upd sn (fst ke) (e_val (snd ke)) None path (e_meta (snd ke)).
Definition exp_items (path : string) (v : sections) : list upd :=
  flat_map (fun ns => map (mk_upd path (fst ns)) (snd ns)) v.

Lemma py_replace_novars x : py_replace all_off [] None x = Ok x.
Proof. apply (replace_unknown_kept 11 [] x). intros m _. reflexivity. Qed.

(* the metadata collected for key k from the (normalised) options of a section *)
Definition gk (k : string) (o : string * option string) : list (string * option string) :=
  if prefix_b (k ++ ":") (fst o) then [(snd (partition_on colon (fst o)), snd o)] else [].

Lemma flat_map_map_s {A B C} (f : B -> list C) (g : A -> B) l : flat_map f (map g l) = flat_map (fun x => f (g x)) l.
Proof. induction l as [|x r IH]; [reflexivity|]. simpl. rewrite IH. reflexivity. Qed.

Lemma flat_map_nil {A B} (f : A -> list B) l : (forall x, In x l -> f x = []) -> flat_map f l = [].
Proof.
  induction l as [|x r IH]; intros H; [reflexivity|]. simpl. rewrite (H x (or_introl eq_refl)).
  apply IH. intros y Hy. apply H. right. exact Hy.
Qed.

Lemma flat_map_single {A} (f : A -> list A) l : (forall x, In x l -> f x = [x]) -> flat_map f l = l.
Proof.
  induction l as [|x r IH]; intros H; [reflexivity|]. simpl. rewrite (H x (or_introl eq_refl)). simpl. f_equal.
  apply IH. intros y Hy. apply H. right. exact Hy.
Qed.

Lemma gk_entry k cs w ke :
  entry_ok cs w ke -> has_char colon k = false ->
  flat_map (gk k) (entry_opts ke) = if String.eqb k (e_key (snd ke)) then e_meta (snd ke) else [].
Proof.
  intros [_ [_ [Kc _]]] Hk. unfold entry_opts. cbn [flat_map]. unfold gk at 1. cbn [fst snd].
  rewrite prefix_colon' by exact Kc. cbn [app]. rewrite flat_map_map_s.
  destruct (String.eqb k (e_key (snd ke))) eqn:E.
  - apply String.eqb_eq in E. subst k. apply flat_map_single. intros [mk mv] _. unfold gk. cbn [fst snd].
    rewrite prefix_own'. unfold mname. change (":" ++ mk) with (String colon mk).
    rewrite (partition_app_nochar colon _ mk Kc). reflexivity.
  - apply flat_map_nil. intros [mk mv] _. unfold gk. cbn [fst snd]. rewrite prefix_other'; [reflexivity|exact Hk|exact Kc|].
    intros ->. rewrite String.eqb_refl in E. discriminate.
Qed.

Lemma collect_none cs w s k :
  Forall (entry_ok cs w) s -> has_char colon k = false -> ~ In k (map fst s) -> flat_map (gk k) (exp_opts s) = [].
Proof.
  induction s as [|ke r IH]; intros F Hk N; [reflexivity|]. inversion F; subst.
  change (exp_opts (ke :: r)) with (entry_opts ke ++ exp_opts r)%list. rewrite flat_map_app.
  rewrite (gk_entry k cs w ke H1 Hk). rewrite IH; [|assumption|assumption|intros H; apply N; right; exact H].
  destruct (String.eqb k (e_key (snd ke))) eqn:E; [|reflexivity].
  apply String.eqb_eq in E. exfalso. apply N. left. destruct H1 as [E1 _]. rewrite E1. symmetry. exact E.
Qed.

Lemma collect_in cs w s ke :
  NoDup (map fst s) -> Forall (entry_ok cs w) s -> In ke s ->
  flat_map (gk (e_key (snd ke))) (exp_opts s) = e_meta (snd ke).
Proof.
  induction s as [|ke0 r IH]; intros ND F Hin; [destruct Hin|]. inversion F; subst. inversion ND; subst.
  assert (Kc : has_char colon (e_key (snd ke)) = false).
  { rewrite Forall_forall in F. destruct (F ke Hin) as [_ [_ [Kc _]]]. exact Kc. }
  change (exp_opts (ke0 :: r)) with (entry_opts ke0 ++ exp_opts r)%list. rewrite flat_map_app.
  rewrite (gk_entry _ cs w ke0 H1 Kc).
  destruct Hin as [->|Hin].
  - rewrite String.eqb_refl. rewrite (collect_none cs w r); [apply app_nil_r|assumption|exact Kc|].
    destruct H1 as [E1 _]. rewrite <- E1. exact H3.
  - assert (E : String.eqb (e_key (snd ke)) (e_key (snd ke0)) = false).
    { destruct (String.eqb (e_key (snd ke)) (e_key (snd ke0))) eqn:E; [|reflexivity]. apply String.eqb_eq in E.
      exfalso. apply H3. destruct H1 as [E1 _]. rewrite E1, <- E.
      rewrite Forall_forall in H2. destruct (H2 ke Hin) as [E2 _]. rewrite <- E2. apply in_map. exact Hin. }
    rewrite E. simpl. apply IH; assumption.
Qed.

Definition collector (all : list (string * option (list string))) (k : string) : meta :=
  flat_map (fun kv2 : string * option (list string) =>
              if prefix_b (k ++ ":") (fst kv2)
              then [(snd (partition_on colon (fst kv2)), meta_value all_off (snd kv2))] else []) all.

Lemma collector_norm all k : collector all k = flat_map (gk k) (norm_sect all).
Proof. unfold collector, norm_sect. rewrite flat_map_map_s. reflexivity. Qed.

Lemma map_eq_app_s {A B} (f : A -> B) l : forall l1 l2,
  map f l = (l1 ++ l2)%list -> exists a b, l = (a ++ b)%list /\ map f a = l1 /\ map f b = l2.
Proof.
  induction l as [|x r IH]; intros l1 l2 H.
  - destruct l1; [|discriminate]. destruct l2; [|discriminate]. exists [], []. repeat split.
  - destruct l1 as [|y l1'].
    + exists [], (x :: r). repeat split. exact H.
    + simpl in H. inversion H. destruct (IH l1' l2 H2) as [a [b [E [Ea Eb]]]].
      exists (x :: a), b. subst. repeat split.
Qed.

Lemma section_items_aux cs w path sn all : forall s o,
  norm_sect o = exp_opts s -> Forall (entry_ok cs w) s ->
  (forall ke, In ke s -> collector all (e_key (snd ke)) = e_meta (snd ke)) ->
  flat_map (file_item all_off path [] sn false EmptyString all) o = map (fun ke => Ok (mk_upd path sn ke)) s.
Proof.
  induction s as [|ke r IH]; intros o E F C.
  - destruct o; [reflexivity|discriminate].
  - change (exp_opts (ke :: r)) with (entry_opts ke ++ exp_opts r)%list in E.
    destruct (map_eq_app_s _ o _ _ E) as [o1 [o2 [-> [E1 E2]]]]. inversion F as [|? ? Fe Fr]; subst.
    rewrite flat_map_app. rewrite (IH o2 E2 Fr) by (intros x Hx; apply C; right; exact Hx).
    cbn [map]. change (Ok (mk_upd path sn ke) :: map (fun ke0 => Ok (mk_upd path sn ke0)) r)
      with ([Ok (mk_upd path sn ke)] ++ map (fun ke0 => Ok (mk_upd path sn ke0)) r)%list. f_equal.
    destruct Fe as [K1 [_ [K3 _]]].
    unfold entry_opts in E1. destruct o1 as [|kv o1']; [discriminate|].
    change (norm_sect (kv :: o1')) with ((fst kv, opt_value (snd kv)) :: norm_sect o1') in E1. inversion E1 as [[N1 N2 N3]].
    cbn [flat_map]. rewrite (flat_map_nil _ o1').
    + rewrite app_nil_r. unfold file_item. cbv zeta.
      change (opt_value_q all_off (snd kv)) with (opt_value (snd kv)). rewrite N1, K3, N2.
      fold (collector all (e_key (snd ke))). rewrite (C ke (or_introl eq_refl)).
      rewrite !py_replace_novars. unfold mk_upd. rewrite K1. reflexivity.
    + intros kv2 H2. unfold file_item. cbv zeta.
      assert (Hc : has_char colon (fst kv2) = true).
      { assert (H3 : In (fst kv2, opt_value (snd kv2)) (norm_sect o1')).
        { unfold norm_sect. apply (in_map (fun kv => (fst kv, opt_value (snd kv)))). exact H2. }
        unfold norm_sect in H3. rewrite N3 in H3. apply in_map_iff in H3. destruct H3 as [m [Em _]]. cbn beta in Em. inversion Em as [[En Ev]].
        try rewrite <- En. unfold mname, has_char. rewrite !any_app. simpl. apply orb_true_r. }
      rewrite Hc. reflexivity.
Qed.

Lemma names_norm_sect o : map fst (norm_sect o) = map fst o.
Proof. unfold norm_sect. rewrite map_map. reflexivity. Qed.

Lemma section_items_ok cs w path sn o s :
  norm_sect o = exp_opts s -> section_ok cs w (sn, s) ->
  section_items all_off path [] sn o = map (fun ke => Ok (mk_upd path sn ke)) s.
Proof.
  intros E [[Sn [_ [_ [Sp _]]]] [_ [ND F]]]. simpl in *. unfold section_items. rewrite Sp.
  destruct sn as [|a sn']; [contradiction|].
  apply (section_items_aux cs w); [exact E|exact F|].
  intros ke Hke. rewrite collector_norm, E. apply (collect_in cs w); assumption.
Qed.

Lemma all_items_ok cs w path : forall p v,
  norm_parsed p = exp_norm v -> Forall (section_ok cs w) v ->
  flat_map (fun ns => section_items all_off path [] (fst ns) (snd ns)) p = map Ok (exp_items path v).
Proof.
  intros p v. revert p. induction v as [|ns r IH]; intros p E F.
  - destruct p; [reflexivity|discriminate].
  - destruct p as [|ps p']; [discriminate|]. simpl in E. inversion E as [[E1 E2 E3]]. inversion F; subst.
    cbn [flat_map]. rewrite (IH p' E3 H2). unfold exp_items. cbn [flat_map]. rewrite map_app, map_map.
    f_equal. rewrite E1. apply (section_items_ok cs w); [exact E2|]. destruct ns; exact H1.
Qed.

Lemma dunder_not_section cs w v d x :
  partition_dunder d = (EmptyString, true, x) -> Forall (section_ok cs w) v -> ~ In d (map fst v).
Proof.
  intros Pd F H. apply in_map_iff in H. destruct H as [ns [E Hns]]. rewrite Forall_forall in F.
  destruct (F ns Hns) as [[Sn [_ [_ [Sp _]]]] _]. rewrite E, Pd in Sp. inversion Sp.
Qed.

Lemma sget_norm_none k p v :
  norm_parsed p = exp_norm v -> ~ In k (map fst v) -> sget k p = None.
Proof.
  intros E N. unfold sget.
  assert (A : aget String.eqb k (norm_parsed p) = None).
  { rewrite E. apply (aget_none_notin _ _ _ string_eqb_spec). unfold exp_norm. rewrite map_map. exact N. }
  rewrite norm_parsed_get in A. destruct (aget String.eqb k p); [discriminate|reflexivity].
Qed.

Lemma fold_sset_nodup {V} (m : list (string * V)) : forall acc,
  NoDup (map fst acc ++ map fst m) ->
  fold_left (fun d kv => sset d (fst kv) (snd kv)) m acc = (acc ++ m)%list.
Proof.
  induction m as [|[k x] r IH]; intros acc ND; [rewrite app_nil_r; reflexivity|].
  simpl. unfold sset at 2. rewrite (aset_new _ _ String.eqb acc k x).
  - rewrite IH; [rewrite <- app_assoc; reflexivity|]. rewrite map_app. simpl. rewrite <- app_assoc. exact ND.
  - apply (aget_none_notin _ _ _ string_eqb_spec). simpl in ND. apply NoDup_remove_2 in ND.
    intros H. apply ND. rewrite in_app_iff. left. exact H.
Qed.

Lemma norm_meta_id m : NoDup (map fst m) -> norm_meta m = m.
Proof. intros ND. unfold norm_meta. apply (fold_sset_nodup m []). exact ND. Qed.

Lemma parsed_items_ok cs w path p v :
  norm_parsed p = exp_norm v -> Forall (section_ok cs w) v ->
  parsed_items all_off path p = map Ok (exp_items path v).
Proof.
  intros E F. unfold parsed_items.
  rewrite (sget_norm_none "__replace__" p v E) by (eapply (dunder_not_section cs w); [reflexivity|exact F]).
  rewrite (all_items_ok cs w path p v E F). rewrite map_map. apply map_ext_in. intros u Hu.
  unfold exp_items in Hu. apply in_flat_map in Hu. destruct Hu as [ns [Hns Hu]].
  apply in_map_iff in Hu. destruct Hu as [ke [<- Hke]]. cbn [res_map]. f_equal. unfold mk_upd. cbn. f_equal.
  apply norm_meta_id. rewrite Forall_forall in F. destruct (F ns Hns) as [_ [_ [_ Fe]]].
  rewrite Forall_forall in Fe. destruct (Fe ke Hke) as [_ [_ [_ [_ [_ [_ [_ [ND _]]]]]]]]. exact ND.
Qed.

(* ================================================================== the batch of updates and the rebuilt view *)
Definition upd_entry (u : upd) : entry := Entry (u_key u) (u_val u) (src_of (u_src u) (u_prof u)) (u_meta u).
Definition build (ps : sections) (us : list upd) : sections :=
  fold_left (fun ps u => set_entry ps (u_sec u) (u_key u) (upd_entry u)) us ps.

Lemma aset_aset {K V} (eqb : K -> K -> bool) (spec : forall a b, eqb a b = true <-> a = b) (l : list (K * V)) k x y :
  aset eqb (aset eqb l k x) k y = aset eqb l k y.
Proof.
  induction l as [|[k0 v0] r IH]; simpl.
  - rewrite (proj2 (spec k k) eq_refl). reflexivity.
  - destruct (eqb k k0) eqn:E; simpl; rewrite E; [reflexivity|]. rewrite IH. reflexivity.
Qed.

Lemma with_raw_twice c a b : with_raw (with_raw c a) b = with_raw c b.
Proof. destruct c; reflexivity. Qed.
Lemma with_raw_raw c a : c_raw (with_raw c a) = a.
Proof. destruct c; reflexivity. Qed.

Lemma update1_profileless c u :
  u_prof u = None ->
  update1 c u true =
  Ok (with_raw c (pset (c_raw c) None
        (set_entry (match pget None (c_raw c) with Some x => x | None => [] end) (u_sec u) (u_key u) (upd_entry u)))).
Proof. intros P. destruct u as [a b d p e m]. simpl in P. subst p. reflexivity. Qed.

Lemma batch_build us : forall c,
  us <> [] -> Forall (fun u => u_prof u = None) us ->
  batch all_off c (map Ok us) true false =
  (refresh (with_raw c (pset (c_raw c) None
                          (build (match pget None (c_raw c) with Some x => x | None => [] end) us))), Ok tt).
Proof.
  induction us as [|u r IH]; intros c N F; [contradiction|]. inversion F as [|? ? Fu Fr]; subst.
  cbn [map batch]. rewrite (update1_profileless c u Fu).
  set (ps := match pget None (c_raw c) with Some x => x | None => [] end).
  set (c1 := with_raw c (pset (c_raw c) None (set_entry ps (u_sec u) (u_key u) (upd_entry u)))).
  destruct r as [|u2 r2].
  - reflexivity.
  - rewrite (IH c1) by (discriminate || exact Fr). unfold c1. rewrite with_raw_raw, with_raw_twice.
    unfold pget, pset. rewrite (aget_aset_same _ _ _ prof_eqb_spec).
    rewrite (aset_aset _ prof_eqb_spec). reflexivity.
Qed.

Definition mk_entry_of (path : string) (ke : string * entry) : string * entry :=
  (fst ke, Entry (fst ke) (e_val (snd ke)) path (e_meta (snd ke))).
Definition exp_section (path : string) (ns : string * sect) : string * sect := (fst ns, map (mk_entry_of path) (snd ns)).

Lemma fold_upd_entries path sn s : forall X,
  fold_left (fun ps u => set_entry ps (u_sec u) (u_key u) (upd_entry u)) (map (mk_upd path sn) s) X =
  fold_left (fun v ke => set_entry v sn (fst ke) (snd ke)) (map (mk_entry_of path) s) X.
Proof. induction s as [|ke r IH]; intros X; [reflexivity|]. simpl. apply IH. Qed.

Lemma names_mk path s : map fst (map (mk_entry_of path) s) = map fst s.
Proof. rewrite map_map. reflexivity. Qed.

Lemma build_items cs w path v : forall D : sections,
  NoDup (map fst (D ++ v)%list) -> Forall (section_ok cs w) v ->
  build D (exp_items path v) = (D ++ map (exp_section path) v)%list.
Proof.
  induction v as [|[sn s] r IH]; intros D ND F; [simpl; rewrite app_nil_r; reflexivity|].
  inversion F as [|? ? Fs Fr]; subst. destruct Fs as [_ [Ne [NDs _]]]. simpl in Ne, NDs.
  unfold exp_items. cbn [flat_map fst snd]. fold (exp_items path r). unfold build. rewrite fold_left_app.
  fold (build D (map (mk_upd path sn) s)). fold (build (build D (map (mk_upd path sn) s)) (exp_items path r)).
  assert (Nd : ~ In sn (map fst D)).
  { rewrite map_app in ND. simpl in ND. apply NoDup_remove_2 in ND. intros H. apply ND. rewrite in_app_iff. left. exact H. }
  assert (B : build D (map (mk_upd path sn) s) = (D ++ [exp_section path (sn, s)])%list).
  { destruct s as [|ke s']; [contradiction|]. unfold build. cbn [map fold_left].
    change (set_entry D (u_sec (mk_upd path sn ke)) (u_key (mk_upd path sn ke)) (upd_entry (mk_upd path sn ke)))
      with (set_entry D sn (fst ke) (snd (mk_entry_of path ke))).
    rewrite set_entry_new by exact Nd. rewrite fold_upd_entries.
    rewrite fold_set_entries; [reflexivity|exact Nd|].
    cbn [app map fst]. rewrite names_mk. exact NDs. }
  rewrite B, IH; [rewrite <- app_assoc; reflexivity| |exact Fr].
  rewrite <- app_assoc. rewrite map_app in *. exact ND.
Qed.

Lemma exp_sections_wf cs w path v :
  Forall (section_ok cs w) v -> Forall (fun ns => NoDup (map fst (snd ns))) (map (exp_section path) v).
Proof.
  intros F. rewrite Forall_forall in *. intros x Hx. apply in_map_iff in Hx. destruct Hx as [ns [<- Hns]].
  simpl. rewrite names_mk. destruct (F ns Hns) as [_ [_ [N _]]]. exact N.
Qed.

Lemma content_exp path v : view_content (map (exp_section path) v) = view_content v.
Proof.
  unfold view_content. rewrite map_map. apply map_ext. intros ns. simpl. f_equal. rewrite map_map. reflexivity.
Qed.

(* ================================================================== write, then read: the same content *)
Theorem readback_ok (cs : bool) (w : nat) (c : config) :
  view_ok cs w (c_view c) ->
  answer all_off c (QReadBack w cs) = AContent (Ok (view_content (c_view c))).
Proof.
  intros V. destruct (c_view c) as [|ns r] eqn:Ev.
  - cbn [answer]. unfold as_str. rewrite Ev. destruct cs; reflexivity.
  - pose proof V as [ND F].
    destruct (read_view cs w ns r V) as [st [R N]].
    cbn [answer apply_op]. unfold parse_ini. rewrite (text_lines cs w c ns r Ev V), R.
    assert (Hv : sget "__vars__" (r_done st) = None).
    { apply (sget_norm_none _ _ _ N). eapply (dunder_not_section cs w); [reflexivity|exact F]. }
    rewrite Hv. rewrite (parsed_items_ok cs w "f" _ _ N F).
    assert (Ne : exp_items "f" (ns :: r) <> []).
    { inversion F as [|? ? Fs _]; subst. destruct Fs as [_ [Ns _]]. unfold exp_items. cbn [flat_map].
      intros Hx. apply app_eq_nil in Hx. destruct Hx as [Hx _]. apply map_eq_nil in Hx. contradiction. }
    rewrite batch_build; [|exact Ne|].
    + cbn [empty_config c_raw pget aget]. rewrite (build_items cs w "f" (ns :: r) [] ND F).
      cbn [app]. unfold refresh, empty_config. cbn [with_raw c_profiles c_raw with_view c_view].
      rewrite flatten_cons. cbn [pset aset pget aget prof_eqb].
      change (flatten [] [(None, map (exp_section "f") (ns :: r))]) with (@nil (string * sect)).
      rewrite (merge_sections_new (map (exp_section "f") (ns :: r)) []).
      * cbn [app]. rewrite (content_exp "f"). reflexivity.
      * cbn [app]. rewrite map_map. exact ND.
      * apply (exp_sections_wf cs w). exact F.
    + unfold exp_items. rewrite Forall_forall. intros u Hu. apply in_flat_map in Hu. destruct Hu as [x [_ Hu]].
      apply in_map_iff in Hu. destruct Hu as [ke [<- _]]. reflexivity.
Qed.
