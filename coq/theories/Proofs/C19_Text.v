(* C19 - text form: textwrap.fill on lines that fit, the reader over whole files. *)
From Coq Require Import ZArith List Bool String Ascii Lia.
From Verif Require Import Gen.C19_BoolStates Model.C19_Config Proofs.C19_Config.
Import ListNotations.
Open Scope string_scope.

(* ================================================================== strings *)
Lemma app_nil_r_s (a : string) : a ++ "" = a.
Proof. induction a; simpl; [reflexivity|]. rewrite IHa. reflexivity. Qed.

Lemma length_app_s (a b : string) : String.length (a ++ b) = String.length a + String.length b.
Proof. induction a; simpl; [reflexivity|]. rewrite IHa. reflexivity. Qed.

Lemma concat_cons_s x l : String.concat "" (x :: l) = x ++ String.concat "" l.
Proof. destruct l; simpl; [symmetry; apply app_nil_r_s|reflexivity]. Qed.

Lemma concat_app_s l1 l2 : String.concat "" (l1 ++ l2) = String.concat "" l1 ++ String.concat "" l2.
Proof.
  induction l1 as [|x r IH]; [reflexivity|].
  change ((x :: r) ++ l2)%list with (x :: (r ++ l2))%list. rewrite !concat_cons_s, IH, app_assoc_s. reflexivity.
Qed.

Definition total (cs : list string) : nat := fold_right (fun c n => String.length c + n) 0 cs.

Lemma total_concat cs : String.length (String.concat "" cs) = total cs.
Proof. induction cs as [|c r IH]; [reflexivity|]. rewrite concat_cons_s, length_app_s, IH. reflexivity. Qed.

(* ================================================================== chunks *)
Lemma concat_chunks_aux s : forall cur b, String.concat "" (chunks_aux cur b s) = cur ++ s.
Proof.
  induction s as [|a r IH]; intros cur b; simpl.
  - destruct cur; [reflexivity|]. simpl. rewrite app_nil_r_s. reflexivity.
  - destruct cur as [|c0 cr].
    + rewrite IH. reflexivity.
    + destruct (Bool.eqb (Ascii.eqb a sp) b).
      * rewrite IH, app_assoc_s. reflexivity.
      * rewrite concat_cons_s, IH. reflexivity.
Qed.

Lemma concat_chunks s : String.concat "" (chunks s) = s.
Proof. unfold chunks. apply concat_chunks_aux. Qed.

(* last character of a string is not a blank *)
Fixpoint ends_nonblank (s : string) : bool :=
  match s with
  | EmptyString => false
  | String a EmptyString => negb (Ascii.eqb sp a)
  | String _ r => ends_nonblank r
  end.

Lemma is_blank_app_false a b : is_blank b = false -> is_blank (a ++ b) = false.
Proof. unfold is_blank. intros H. rewrite sall_app, H. apply andb_false_r. Qed.

Lemma chunks_aux_last s : forall cur b,
  (s = EmptyString -> is_blank cur = false) -> (s <> EmptyString -> ends_nonblank s = true) ->
  exists pre c, chunks_aux cur b s = (pre ++ [c])%list /\ is_blank c = false.
Proof.
  induction s as [|a r IH]; intros cur b H0 H1.
  - simpl. specialize (H0 eq_refl). destruct cur; [cbv in H0; discriminate|]. exists [], (String a cur). split; [reflexivity|exact H0].
  - assert (E : ends_nonblank (String a r) = true) by (apply H1; discriminate).
    assert (Hr : r <> EmptyString -> ends_nonblank r = true) by (intros N; destruct r; [contradiction|exact E]).
    assert (Ha : r = EmptyString -> is_blank (s1 a) = false).
    { intros ->. cbn [ends_nonblank] in E. unfold is_blank, s1. cbn [sall].
      destruct (Ascii.eqb sp a); [cbn in E; discriminate|reflexivity]. }
    simpl. destruct cur as [|c0 cr].
    + apply IH; assumption.
    + destruct (Bool.eqb (Ascii.eqb a sp) b).
      * apply IH; [|exact Hr]. intros N. apply is_blank_app_false. apply Ha. exact N.
      * destruct (IH (s1 a) (Ascii.eqb a sp) Ha Hr) as [pre [c [Ec Hc]]].
        exists (String c0 cr :: pre), c. rewrite Ec. split; [reflexivity|exact Hc].
Qed.

Lemma chunks_last s : ends_nonblank s = true ->
  exists pre c, chunks s = (pre ++ [c])%list /\ is_blank c = false.
Proof.
  intros H. unfold chunks. apply chunks_aux_last; [|intros _; exact H].
  intros ->. discriminate.
Qed.

(* ================================================================== a line that fits is left unchanged *)
Lemma take_fit_all cs : forall avail n acc,
  n + total cs <= avail -> take_fit avail n cs acc = ((rev cs ++ acc)%list, []).
Proof.
  induction cs as [|c r IH]; intros avail n acc H; [reflexivity|].
  simpl in *. assert (L : Nat.leb (n + String.length c) avail = true) by (apply Nat.leb_le; lia).
  rewrite L, IH by lia. rewrite <- app_assoc. reflexivity.
Qed.

Lemma wrap_lines_nil f w h b : wrap_lines f w h b [] = [].
Proof. destruct f; reflexivity. Qed.

Lemma fill_fits w h text :
  ends_nonblank text = true -> String.length text <= w -> fill w h text = text.
Proof.
  intros E L. unfold fill. destruct (chunks_last text E) as [pre [c [Ec Hc]]].
  pose proof (concat_chunks text) as Ct. pose proof (total_concat (chunks text)) as Tt. rewrite Ct in Tt.
  rewrite Ec in *. set (cs := (pre ++ [c])%list) in *.
  assert (Ecs : exists c0 r0, cs = c0 :: r0).
  { unfold cs. destruct pre; simpl; eauto. }
  destruct Ecs as [c0 [r0 E0]].
  cbn [wrap_lines]. rewrite E0. cbn [negb andb]. rewrite <- E0.
  rewrite Nat.sub_0_r. rewrite take_fit_all by lia. rewrite app_nil_r.
  unfold cs at 1 2 3. rewrite rev_app_distr. cbn [rev app]. rewrite Hc.
  rewrite wrap_lines_nil. cbn [join spaces].
  cbn [rev]. rewrite rev_involutive. exact Ct.
Qed.

(* ================================================================== more dictionary facts *)
Section AssocMore.
  Variables (K V W : Type) (eqb : K -> K -> bool).
  Hypothesis eqb_spec : forall a b, eqb a b = true <-> a = b.
  Variable f : V -> W.
  Let F := fun kv : K * V => (fst kv, f (snd kv)).

  Lemma aget_map_val k l : aget eqb k (map F l) = option_map f (aget eqb k l).
  Proof. induction l as [|[k0 v0] r IH]; simpl; [reflexivity|]. destruct (eqb k k0); [reflexivity|exact IH]. Qed.

  Lemma aset_map_val l k v : map F (aset eqb l k v) = aset eqb (map F l) k (f v).
  Proof.
    induction l as [|[k0 v0] r IH]; simpl; [reflexivity|].
    destruct (eqb k k0); simpl; [reflexivity|]. rewrite IH. reflexivity.
  Qed.

  Lemma aset_same (l : list (K * V)) k v : aget eqb k l = Some v -> aset eqb l k v = l.
  Proof.
    induction l as [|[k0 v0] r IH]; simpl; [discriminate|].
    destruct (eqb k k0) eqn:E; [intros H; inversion H; reflexivity|]. intros H. rewrite (IH H). reflexivity.
  Qed.

  Lemma aset_last (D : list (K * V)) k x y : ~ In k (map fst D) -> aset eqb (D ++ [(k, x)]) k y = (D ++ [(k, y)])%list.
  Proof.
    induction D as [|[k0 v0] r IH]; simpl; intros N.
    - rewrite (proj2 (eqb_spec k k) eq_refl). reflexivity.
    - destruct (eqb k k0) eqn:E; [apply eqb_spec in E; subst; exfalso; apply N; left; reflexivity|].
      rewrite IH; [reflexivity|]. intros H. apply N. right. exact H.
  Qed.

  Lemma aset_new (l : list (K * V)) k v : aget eqb k l = None -> aset eqb l k v = (l ++ [(k, v)])%list.
  Proof.
    induction l as [|[k0 v0] r IH]; simpl; [reflexivity|].
    destruct (eqb k k0); [discriminate|]. intros H. rewrite (IH H). reflexivity.
  Qed.

  Lemma aget_last (D : list (K * V)) k x : ~ In k (map fst D) -> aget eqb k (D ++ [(k, x)]) = Some x.
  Proof.
    intros N. rewrite aget_app_notin. rewrite (proj2 (aget_none_notin _ _ _ eqb_spec D k) N).
    rewrite (proj2 (eqb_spec k k) eq_refl). reflexivity.
  Qed.
End AssocMore.

(* ================================================================== lines of a text *)
Definition no_nl (s : string) : Prop := has_char nl s = false.

Lemma split_where_none p s : sany p s = false -> split_where p s = [s].
Proof.
  induction s as [|a r IH]; simpl; [reflexivity|]. intros H. apply orb_false_iff in H. destruct H as [Ha Hr].
  rewrite Ha, (IH Hr). reflexivity.
Qed.

Lemma split_where_app p a c b : sany p a = false -> p c = true ->
  split_where p (a ++ String c b) = a :: split_where p b.
Proof.
  induction a as [|x r IH]; simpl; intros Ha Hc.
  - rewrite Hc. reflexivity.
  - apply orb_false_iff in Ha. destruct Ha as [Hx Hr]. rewrite Hx, (IH Hr Hc). reflexivity.
Qed.

Lemma split_join ls : ls <> [] -> Forall no_nl ls -> split_on nl (join (s1 nl) ls) = ls.
Proof.
  induction ls as [|l r IH]; [contradiction|]. intros _ F. inversion F; subst.
  destruct r as [|l2 r2].
  - simpl. apply split_where_none. exact H1.
  - change (join (s1 nl) (l :: l2 :: r2)) with (l ++ String nl (join (s1 nl) (l2 :: r2))).
    unfold split_on. rewrite split_where_app; [|exact H1|apply Ascii.eqb_refl].
    f_equal. apply IH; [discriminate|exact H2].
Qed.

Lemma join_app_s sep l1 l2 : l1 <> [] -> l2 <> [] ->
  join sep (l1 ++ l2) = join sep l1 ++ sep ++ join sep l2.
Proof.
  induction l1 as [|x r IH]; [contradiction|]. intros _ N2.
  destruct r as [|y r'].
  - simpl. destruct l2; [contradiction|reflexivity].
  - change ((x :: y :: r') ++ l2)%list with (x :: ((y :: r') ++ l2))%list.
    change (join sep (x :: (y :: r') ++ l2)) with (x ++ sep ++ join sep ((y :: r') ++ l2)).
    rewrite IH by (discriminate || assumption).
    change (join sep (x :: y :: r')) with (x ++ sep ++ join sep (y :: r')).
    rewrite !app_assoc_s. reflexivity.
Qed.

(* ================================================================== the reader over the lines of a written file *)
Definition norm_sect (opts : list (string * option (list string))) : list (string * option string) :=
  map (fun kv => (fst kv, opt_value (snd kv))) opts.
Definition norm_parsed (p : parsed) : list (string * list (string * option string)) :=
  map (fun ns => (fst ns, norm_sect (snd ns))) p.

Definition rinv (st : rstate) (Nd : list (string * list (string * option string))) (sn : string)
           (no : list (string * option string)) : Prop :=
  norm_parsed (r_done st) = (Nd ++ [(sn, no)])%list /\ ~ In sn (map fst Nd) /\ r_sect st = Some sn.

Lemma joined_blank ls : joined_value (ls ++ [EmptyString]) = joined_value ls.
Proof.
  unfold joined_value. destruct ls as [|l r]; [reflexivity|].
  rewrite join_app_s by discriminate. cbn [join]. rewrite app_nil_r_s.
  rewrite rstrip_app_space by reflexivity. reflexivity.
Qed.

Lemma norm_sect_aset opts k x : norm_sect (aset String.eqb opts k x) = aset String.eqb (norm_sect opts) k (opt_value x).
Proof. unfold norm_sect. apply aset_map_val. Qed.
Lemma norm_parsed_aset p k x : norm_parsed (aset String.eqb p k x) = aset String.eqb (norm_parsed p) k (norm_sect x).
Proof. unfold norm_parsed. apply aset_map_val. Qed.
Lemma norm_sect_get k opts : aget String.eqb k (norm_sect opts) = option_map opt_value (aget String.eqb k opts).
Proof. unfold norm_sect. apply aget_map_val. Qed.
Lemma norm_parsed_get k p : aget String.eqb k (norm_parsed p) = option_map norm_sect (aget String.eqb k p).
Proof. unfold norm_parsed. apply aget_map_val. Qed.

Lemma norm_add_blank p sn on : norm_parsed (add_value_line p sn on EmptyString) = norm_parsed p.
Proof.
  unfold add_value_line. destruct (sget sn p) as [opts|] eqn:E; [|reflexivity].
  destruct (sget on opts) as [[ls|]|] eqn:E2; try reflexivity.
  unfold sset. rewrite norm_parsed_aset, norm_sect_aset.
  assert (A : aset String.eqb (norm_sect opts) on (opt_value (Some (ls ++ [EmptyString])%list)) = norm_sect opts).
  { apply aset_same. rewrite norm_sect_get. unfold sget in E2. rewrite E2. simpl. rewrite joined_blank. reflexivity. }
  rewrite A. apply aset_same. rewrite norm_parsed_get. unfold sget in E. rewrite E. reflexivity.
Qed.

Lemma read_blank cs st Nd sn no :
  rinv st Nd sn no -> exists st', read_line cs (Ok st) EmptyString = Ok st' /\ rinv st' Nd sn no.
Proof.
  intros [N [D S]]. unfold read_line. cbn [strip lstrip rstrip]. change (is_comment EmptyString) with false. cbv iota.
  rewrite S. destruct (r_opt st) as [on|].
  - eexists. split; [reflexivity|]. split; [|split; [exact D|reflexivity]]. cbn [r_done]. rewrite norm_add_blank. exact N.
  - eexists. split; [reflexivity|]. split; [exact N|split; [exact D|reflexivity]].
Qed.

Lemma rinv_sget st Nd sn no :
  rinv st Nd sn no -> exists opts, sget sn (r_done st) = Some opts /\ norm_sect opts = no.
Proof.
  intros [N [D _]].
  assert (A : sget sn (norm_parsed (r_done st)) = Some no).
  { rewrite N. unfold sget. apply aget_last; [exact string_eqb_spec|exact D]. }
  unfold sget in A. rewrite norm_parsed_get in A.
  destruct (aget String.eqb sn (r_done st)) as [opts|] eqn:E; [|discriminate].
  exists opts. split; [exact E|]. simpl in A. inversion A. reflexivity.
Qed.

Lemma smem_norm k opts : smem k (norm_sect opts) = smem k opts.
Proof. unfold smem, amem. rewrite norm_sect_get. destruct (aget String.eqb k opts); reflexivity. Qed.

Lemma read_entry (cs : bool) st Nd sn no (k v : string) :
  rinv st Nd sn no -> key_ok k -> value_ok v -> (if cs then k else lower k) = k -> smem k no = false ->
  exists st', read_line cs (Ok st) (plain_line k v) = Ok st' /\ rinv st' Nd sn (no ++ [(k, Some v)]).
Proof.
  intros I Hk Hv Hx Hm. destruct (rinv_sget _ _ _ _ I) as [opts [Eo En]]. destruct I as [N [D S]].
  pose proof (read_entry_line cs st k v sn opts Hk Hv S Eo) as R. cbv zeta in R. rewrite Hx in R.
  rewrite <- En, smem_norm in Hm. specialize (R Hm).
  eexists. split; [exact R|]. split; [|split; [exact D|reflexivity]].
  cbn [r_done]. unfold sset. rewrite norm_parsed_aset, N.
  rewrite aset_last by (exact string_eqb_spec || exact D).
  unfold norm_sect at 1. rewrite map_app. cbn [map fst snd opt_value option_map].
  rewrite (joined_single v Hv). fold (norm_sect opts). rewrite En. reflexivity.
Qed.

Definition sn_ok (sn : string) : Prop :=
  sn <> EmptyString /\ has_char "]"%char sn = false /\
  is_space (match sn with String a _ => a | _ => sp end) = false /\
  partition_dunder sn = (sn, false, EmptyString) /\ no_nl sn.

Lemma smem_norm_parsed k p : smem k (norm_parsed p) = smem k p.
Proof. unfold smem, amem. rewrite norm_parsed_get. destruct (aget String.eqb k p); reflexivity. Qed.

Lemma read_header cs st Nd sn no sn' :
  rinv st Nd sn no -> sn_ok sn' -> ~ In sn' (map fst (Nd ++ [(sn, no)])) ->
  exists st', read_line cs (Ok st) ("[" ++ sn' ++ "]") = Ok st' /\ rinv st' (Nd ++ [(sn, no)]) sn' [].
Proof.
  intros [N [D S]] [H1 [H2 [H3 _]]] Hn.
  assert (Hm : smem sn' (r_done st) = false).
  { rewrite <- smem_norm_parsed, N. unfold smem, amem.
    rewrite (proj2 (aget_none_notin _ _ _ string_eqb_spec _ sn') Hn). reflexivity. }
  destruct (read_header_line cs st sn' H1 H2 H3 Hm) as [ind R].
  eexists. split; [exact R|]. split; [|split; [exact Hn|reflexivity]].
  cbn [r_done]. unfold norm_parsed. rewrite map_app. fold (norm_parsed (r_done st)). rewrite N. reflexivity.
Qed.

Lemma read_first_header cs sn' :
  sn_ok sn' ->
  exists st', read_line cs (Ok (RState [] None None 0)) ("[" ++ sn' ++ "]") = Ok st' /\ rinv st' [] sn' [].
Proof.
  intros [H1 [H2 [H3 _]]].
  destruct (read_header_line cs (RState [] None None 0) sn' H1 H2 H3 eq_refl) as [ind R].
  eexists. split; [exact R|]. split; [reflexivity|split; [intros []|reflexivity]].
Qed.

(* ================================================================== the sub-grammar and the lines of a view *)
Definition entry_ok (cs : bool) (w : nat) (ke : string * entry) : Prop :=
  fst ke = e_key (snd ke) /\ key_ok (e_key (snd ke)) /\ has_char colon (e_key (snd ke)) = false /\
  no_nl (e_key (snd ke)) /\ (if cs then e_key (snd ke) else lower (e_key (snd ke))) = e_key (snd ke) /\
  value_ok (e_val (snd ke)) /\ e_meta (snd ke) = [] /\
  String.length (plain_line (e_key (snd ke)) (e_val (snd ke))) <= w.
Definition section_ok (cs : bool) (w : nat) (ns : string * sect) : Prop :=
  sn_ok (fst ns) /\ snd ns <> [] /\ NoDup (map fst (snd ns)) /\ Forall (entry_ok cs w) (snd ns).
Definition view_ok (cs : bool) (w : nat) (v : sections) : Prop :=
  NoDup (map fst v) /\ Forall (section_ok cs w) v.

Definition entry_line (ke : string * entry) : string := plain_line (e_key (snd ke)) (e_val (snd ke)).
Definition sect_lines (ns : string * sect) : list string := ("[" ++ fst ns ++ "]") :: map entry_line (snd ns).
Fixpoint tail_lines (v : sections) : list string :=
  match v with
  | [] => [EmptyString]
  | ns :: r => (EmptyString :: EmptyString :: sect_lines ns ++ tail_lines r)%list
  end.
Definition exp_opts (s : sect) : list (string * option string) := map (fun ke => (fst ke, Some (e_val (snd ke)))) s.
Definition exp_norm (v : sections) := map (fun ns => (fst ns, exp_opts (snd ns))) v.

Lemma smem_snoc {V} k (l : list (string * V)) k0 x :
  smem k (l ++ [(k0, x)]) = (smem k l || String.eqb k k0)%bool.
Proof.
  unfold smem, amem. rewrite aget_app_notin. destruct (aget String.eqb k l); [reflexivity|].
  destruct (String.eqb k k0); reflexivity.
Qed.

Lemma read_entries cs w es : forall st Nd sn no,
  rinv st Nd sn no -> Forall (entry_ok cs w) es -> NoDup (map fst es) ->
  (forall k, In k (map fst es) -> smem k no = false) ->
  exists st', fold_left (read_line cs) (map entry_line es) (Ok st) = Ok st' /\ rinv st' Nd sn (no ++ exp_opts es).
Proof.
  induction es as [|ke r IH]; intros st Nd sn no I F ND Hm.
  - exists st. split; [reflexivity|]. simpl. rewrite app_nil_r. exact I.
  - inversion F as [|? ? Fe Fr]; subst. inversion ND as [|? ? Nk NDr]; subst.
    destruct Fe as [E1 [E2 [E3 [E4 [E5 [E6 [E7 E8]]]]]]].
    assert (M0 : smem (e_key (snd ke)) no = false) by (apply Hm; left; exact E1).
    destruct (read_entry cs st Nd sn no _ _ I E2 E6 E5 M0) as [st1 [R1 I1]].
    destruct (IH st1 Nd sn (no ++ [(e_key (snd ke), Some (e_val (snd ke)))])%list I1 Fr NDr) as [st2 [R2 I2]].
    { intros k Hk. rewrite smem_snoc, (Hm k (or_intror Hk)). simpl.
      destruct (String.eqb k (e_key (snd ke))) eqn:Ek; [|reflexivity].
      apply String.eqb_eq in Ek. subst k. exfalso. apply Nk. rewrite E1. exact Hk. }
    exists st2. split.
    + change (plain_line (e_key (snd ke)) (e_val (snd ke))) with (entry_line ke) in R1.
      change (map entry_line (ke :: r)) with (entry_line ke :: map entry_line r).
      change (fold_left (read_line cs) (entry_line ke :: map entry_line r) (Ok st))
        with (fold_left (read_line cs) (map entry_line r) (read_line cs (Ok st) (entry_line ke))).
      rewrite R1. exact R2.
    + rewrite <- app_assoc in I2. cbn [exp_opts map]. rewrite E1. exact I2.
Qed.

Lemma fold_read_app cs l1 l2 st : fold_left (read_line cs) (l1 ++ l2) st = fold_left (read_line cs) l2 (fold_left (read_line cs) l1 st).
Proof. apply fold_left_app. Qed.

Lemma read_tail cs w r : forall st Nd sn no,
  rinv st Nd sn no -> Forall (section_ok cs w) r ->
  NoDup (map fst (Nd ++ [(sn, no)]) ++ map fst r) ->
  exists st', fold_left (read_line cs) (tail_lines r) (Ok st) = Ok st' /\
              norm_parsed (r_done st') = ((Nd ++ [(sn, no)]) ++ exp_norm r)%list.
Proof.
  induction r as [|ns r IH]; intros st Nd sn no I F ND.
  - destruct (read_blank cs st Nd sn no I) as [st1 [R1 I1]]. exists st1. split; [simpl; exact R1|].
    simpl. rewrite app_nil_r. exact (proj1 I1).
  - inversion F as [|? ? Fs Fr]; subst. destruct Fs as [S1 [S2 [S3 S4]]].
    destruct (read_blank cs st Nd sn no I) as [st1 [R1 I1]].
    destruct (read_blank cs st1 Nd sn no I1) as [st2 [R2 I2]].
    assert (Hn : ~ In (fst ns) (map fst (Nd ++ [(sn, no)]))).
    { apply NoDup_remove_2 in ND. intros H. apply ND. rewrite in_app_iff. left. exact H. }
    destruct (read_header cs st2 Nd sn no (fst ns) I2 S1 Hn) as [st3 [R3 I3]].
    destruct (read_entries cs w (snd ns) st3 _ _ [] I3 S4 S3 (fun _ _ => eq_refl)) as [st4 [R4 I4]].
    simpl in I4.
    destruct (IH st4 (Nd ++ [(sn, no)])%list (fst ns) (exp_opts (snd ns)) I4 Fr) as [st5 [R5 N5]].
    { rewrite (map_app fst (Nd ++ [(sn, no)])%list). cbn [map fst]. rewrite <- app_assoc. exact ND. }
    exists st5. split.
    + cbn [tail_lines fold_left]. rewrite R1. cbn [fold_left]. rewrite R2.
      unfold sect_lines. rewrite <- app_comm_cons. cbn [fold_left]. rewrite R3.
      rewrite fold_read_app, R4. exact R5.
    + rewrite N5. cbn [exp_norm map]. rewrite <- app_assoc. reflexivity.
Qed.

Lemma read_view cs w ns r :
  view_ok cs w (ns :: r) ->
  exists st', fold_left (read_line cs) (sect_lines ns ++ tail_lines r) (Ok (RState [] None None 0)) = Ok st' /\
              norm_parsed (r_done st') = exp_norm (ns :: r).
Proof.
  intros [ND F]. inversion F as [|? ? Fs Fr]; subst. destruct Fs as [S1 [S2 [S3 S4]]].
  destruct (read_first_header cs (fst ns) S1) as [st1 [R1 I1]].
  destruct (read_entries cs w (snd ns) st1 _ _ [] I1 S4 S3 (fun _ _ => eq_refl)) as [st2 [R2 I2]].
  simpl in I2.
  destruct (read_tail cs w r st2 [] (fst ns) (exp_opts (snd ns)) I2 Fr ND) as [st3 [R3 N3]].
  exists st3. split.
  - unfold sect_lines. rewrite <- app_comm_cons. cbn [fold_left]. rewrite R1. rewrite fold_read_app, R2. exact R3.
  - exact N3.
Qed.

(* ================================================================== the written text, line by line *)
Lemma ends_nonblank_app a v : v <> EmptyString -> ends_nonblank (a ++ v) = ends_nonblank v.
Proof.
  intros N. induction a as [|x r IH]; [reflexivity|].
  change (String x r ++ v) with (String x (r ++ v)). cbn [ends_nonblank].
  destruct (r ++ v) eqn:E; [destruct r; [contradiction|discriminate]|]. exact IH.
Qed.

Lemma rstrip_cons a r :
  rstrip (String a r) = match rstrip r with EmptyString => if is_space a then EmptyString else s1 a | r' => String a r' end.
Proof. reflexivity. Qed.

Lemma rstrip_ends v : rstrip v = v -> v <> EmptyString -> ends_nonblank v = true.
Proof.
  induction v as [|a r IH]; [intros _ N; contradiction|]. intros H _.
  destruct r as [|b r'].
  - simpl in H. cbn [ends_nonblank]. destruct (is_space a) eqn:Sa; [discriminate|].
    destruct (Ascii.eqb sp a) eqn:E; [|reflexivity]. apply Ascii.eqb_eq in E. subst a. cbv in Sa. discriminate.
  - cbn [ends_nonblank]. apply IH; [|discriminate].
    rewrite rstrip_cons in H. destruct (rstrip (String b r')) eqn:E.
    + destruct (is_space a); unfold s1 in H; discriminate.
    + inversion H. reflexivity.
Qed.

Lemma entry_str_plain cs w ke : entry_ok cs w ke -> entry_str w true (snd ke) = entry_line ke.
Proof.
  intros [_ [_ [_ [_ [_ [[Vn [Vl [Vr Vnl]]] [M L]]]]]]].
  unfold entry_str, entry_lines. rewrite M. cbn [andb join].
  unfold entry_line. apply fill_fits; [|exact L].
  unfold plain_line. rewrite ends_nonblank_app by (simpl; discriminate).
  rewrite (ends_nonblank_app " = ") by exact Vn. apply rstrip_ends; assumption.
Qed.

Lemma join_cons_s sep h l : l <> [] -> join sep (h :: l) = h ++ sep ++ join sep l.
Proof. destruct l; [contradiction|reflexivity]. Qed.

Lemma section_str_lines cs w ns : section_ok cs w ns -> section_str w true ns = join (s1 nl) (sect_lines ns).
Proof.
  intros [_ [Ne [_ F]]]. unfold section_str, sect_lines. destruct (snd ns) as [|ke r] eqn:E; [contradiction|].
  rewrite join_cons_s by discriminate.
  replace (map (fun ke0 : string * entry => entry_str w true (snd ke0)) (ke :: r)) with (map entry_line (ke :: r)).
  - rewrite !app_assoc_s. reflexivity.
  - apply map_ext_in. intros x Hx. symmetry. apply (entry_str_plain cs). rewrite Forall_forall in F. apply F. exact Hx.
Qed.

Fixpoint mid_lines (v : sections) : list string :=
  match v with
  | [] => []
  | ns :: r => (EmptyString :: EmptyString :: sect_lines ns ++ mid_lines r)%list
  end.

Lemma tail_mid r : tail_lines r = (mid_lines r ++ [EmptyString])%list.
Proof. induction r as [|ns r IH]; [reflexivity|]. simpl. rewrite IH, <- app_assoc. reflexivity. Qed.

Definition sep3 : string := s1 nl ++ s1 nl ++ s1 nl.

Lemma join_sections r : forall ns,
  join sep3 (map (fun x => join (s1 nl) (sect_lines x)) (ns :: r)) = join (s1 nl) (sect_lines ns ++ mid_lines r).
Proof.
  induction r as [|ns2 r2 IH]; intros ns.
  - simpl. rewrite app_nil_r. reflexivity.
  - change (map (fun x => join (s1 nl) (sect_lines x)) (ns :: ns2 :: r2))
      with (join (s1 nl) (sect_lines ns) :: map (fun x => join (s1 nl) (sect_lines x)) (ns2 :: r2)).
    rewrite join_cons_s by discriminate. rewrite IH.
    cbn [mid_lines]. rewrite (join_app_s (s1 nl) (sect_lines ns)); [|unfold sect_lines; discriminate|discriminate].
    rewrite (join_cons_s (s1 nl) EmptyString) by discriminate.
    rewrite (join_cons_s (s1 nl) EmptyString) by (unfold sect_lines; discriminate).
    unfold sep3. rewrite !app_assoc_s. reflexivity.
Qed.

Lemma nonempty_sections cs w v :
  Forall (section_ok cs w) v ->
  filter nonempty (map (section_str w true) v) = map (fun x => join (s1 nl) (sect_lines x)) v.
Proof.
  induction v as [|ns r IH]; intros F; [reflexivity|]. inversion F; subst.
  cbn [map filter]. rewrite (section_str_lines cs w ns H1), (IH H2).
  unfold sect_lines at 1. rewrite join_cons_s; [reflexivity|].
  destruct H1 as [_ [Ne _]]. destruct (snd ns); [contradiction|discriminate].
Qed.

Lemma as_str_lines cs w c ns r :
  c_view c = ns :: r -> view_ok cs w (ns :: r) ->
  as_str w true c = join (s1 nl) (sect_lines ns ++ mid_lines r).
Proof.
  intros E [_ F]. unfold as_str. rewrite E, (nonempty_sections cs w _ F). apply join_sections.
Qed.

Lemma no_nl_app a b : no_nl a -> no_nl b -> no_nl (a ++ b).
Proof. unfold no_nl, has_char. intros Ha Hb. rewrite any_app, Ha, Hb. reflexivity. Qed.

Lemma no_nl_spaces n : no_nl (spaces n).
Proof. unfold no_nl, has_char. apply any_spaces. reflexivity. Qed.

Lemma sect_lines_no_nl cs w ns : section_ok cs w ns -> Forall no_nl (sect_lines ns).
Proof.
  intros [[_ [_ [_ [_ Sn]]]] [_ [_ F]]]. unfold sect_lines. constructor.
  - apply (no_nl_app "["); [reflexivity|]. apply no_nl_app; [exact Sn|reflexivity].
  - rewrite Forall_forall in *. intros l Hl. apply in_map_iff in Hl. destruct Hl as [ke [<- Hke]].
    destruct (F ke Hke) as [_ [_ [_ [Kn [_ [[_ [_ [_ Vn]]] _]]]]]].
    unfold entry_line, plain_line, pad_right. repeat apply no_nl_app; try assumption; try reflexivity. apply no_nl_spaces.
Qed.

Lemma mid_lines_no_nl cs w r : Forall (section_ok cs w) r -> Forall no_nl (mid_lines r).
Proof.
  induction r as [|ns r IH]; intros F; [constructor|]. inversion F; subst. cbn [mid_lines].
  constructor; [reflexivity|]. constructor; [reflexivity|]. apply Forall_app. split; [eapply sect_lines_no_nl; eassumption|auto].
Qed.

Lemma text_lines cs w c ns r :
  c_view c = ns :: r -> view_ok cs w (ns :: r) ->
  split_on nl (as_str w true c ++ s1 nl) = (sect_lines ns ++ tail_lines r)%list.
Proof.
  intros E V. rewrite (as_str_lines cs w c ns r E V). destruct V as [_ F]. inversion F; subst.
  rewrite tail_mid, app_assoc.
  replace (join (s1 nl) (sect_lines ns ++ mid_lines r) ++ s1 nl)
    with (join (s1 nl) ((sect_lines ns ++ mid_lines r) ++ [EmptyString])).
  - apply split_join.
    + unfold sect_lines. discriminate.
    + apply Forall_app. split; [|repeat constructor].
      apply Forall_app. split; [eapply sect_lines_no_nl; eassumption|eapply mid_lines_no_nl; eassumption].
  - rewrite join_app_s; [|unfold sect_lines; discriminate|discriminate]. cbn [join]. rewrite app_nil_r_s. reflexivity.
Qed.

(* ================================================================== building sections entry by entry *)
Lemma sget_last_s {V} (D : list (string * V)) k x : ~ In k (map fst D) -> sget k (D ++ [(k, x)]) = Some x.
Proof. intros N. unfold sget. apply aget_last; [exact string_eqb_spec|exact N]. Qed.

Lemma set_entry_last (D : sections) sn (s0 : sect) k e :
  ~ In sn (map fst D) -> ~ In k (map fst s0) ->
  set_entry (D ++ [(sn, s0)])%list sn k e = (D ++ [(sn, (s0 ++ [(k, e)])%list)])%list.
Proof.
  intros Nd Nk. unfold set_entry, ensure_section. unfold sections, sect in *.
  rewrite sget_last_s by exact Nd. rewrite sget_last_s by exact Nd.
  unfold sset. rewrite aset_last by (exact string_eqb_spec || exact Nd).
  rewrite (aset_new _ _ String.eqb s0 k e); [reflexivity|].
  apply (aget_none_notin _ _ _ string_eqb_spec). exact Nk.
Qed.

Lemma set_entry_new (D : sections) sn k e :
  ~ In sn (map fst D) -> set_entry D sn k e = (D ++ [(sn, [(k, e)])])%list.
Proof.
  intros Nd. unfold set_entry, ensure_section.
  assert (E : sget sn D = None) by (apply (aget_none_notin _ _ _ string_eqb_spec); exact Nd).
  unfold sections, sect in *. rewrite E. rewrite sget_last_s by exact Nd.
  unfold sset. rewrite aset_last by (exact string_eqb_spec || exact Nd). reflexivity.
Qed.

Lemma fold_set_entries (es : sect) : forall (D : sections) sn (s0 : sect),
  ~ In sn (map fst D) -> NoDup (map fst (s0 ++ es)%list) ->
  fold_left (fun v ke => set_entry v sn (fst ke) (snd ke)) es (D ++ [(sn, s0)])%list = (D ++ [(sn, (s0 ++ es)%list)])%list.
Proof.
  induction es as [|[k e] r IH]; intros D sn s0 Nd ND; simpl.
  - rewrite app_nil_r. reflexivity.
  - rewrite set_entry_last; [|exact Nd|].
    + rewrite IH; [|exact Nd|rewrite <- app_assoc; exact ND]. rewrite <- app_assoc. reflexivity.
    + rewrite map_app in ND. simpl in ND. apply NoDup_remove_2 in ND. intros H. apply ND. rewrite in_app_iff. left. exact H.
Qed.

Lemma merge_section_new (D : sections) sn (s : sect) :
  ~ In sn (map fst D) -> NoDup (map fst s) -> merge_section D sn s = (D ++ [(sn, s)])%list.
Proof.
  intros Nd ND. unfold merge_section, ensure_section.
  assert (E : sget sn D = None) by (apply (aget_none_notin _ _ _ string_eqb_spec); exact Nd).
  rewrite E. apply (fold_set_entries s D sn []); assumption.
Qed.

Lemma merge_sections_new (ps : sections) : forall D : sections,
  NoDup (map fst (D ++ ps)%list) -> Forall (fun ns => NoDup (map fst (snd ns))) ps -> merge_sections D ps = (D ++ ps)%list.
Proof.
  induction ps as [|[sn s] r IH]; intros D ND F; [rewrite app_nil_r; reflexivity|].
  unfold merge_sections. simpl. fold (merge_sections (merge_section D sn s) r).
  inversion F; subst. simpl in *.
  rewrite merge_section_new; [| |assumption].
  - rewrite IH; [rewrite <- app_assoc; reflexivity| |assumption].
    rewrite <- app_assoc. exact ND.
  - rewrite map_app in ND. simpl in ND. apply NoDup_remove_2 in ND. intros H. apply ND. rewrite in_app_iff. left. exact H.
Qed.

(* ================================================================== items of update_from_file for a written view *)
Definition mk_upd (path sn : string) (ke : string * entry) : upd := Upd sn (fst ke) (e_val (snd ke)) None path [].
Definition exp_items (path : string) (v : sections) : list upd :=
  flat_map (fun ns => map (mk_upd path (fst ns)) (snd ns)) v.

Lemma prefix_colon k name : has_char colon name = false -> prefix_b (k ++ ":") name = false.
Proof.
  revert name. induction k as [|x k' IH]; intros name H.
  - destruct name as [|a r]; [reflexivity|]. unfold has_char in H. cbn [sany] in H. apply orb_false_iff in H.
    cbn [append prefix_b]. change (Ascii.eqb ":" a) with (Ascii.eqb colon a). rewrite (proj1 H). reflexivity.
  - destruct name as [|a r]; [reflexivity|]. unfold has_char in H. cbn [sany] in H. apply orb_false_iff in H.
    change (String x k' ++ ":") with (String x (k' ++ ":")). cbn [prefix_b]. rewrite (IH r (proj2 H)). apply andb_false_r.
Qed.

Lemma py_replace_novars x : py_replace all_off [] None x = Ok x.
Proof. apply (replace_unknown_kept 11 [] x). intros m _. reflexivity. Qed.

Lemma section_items_aux cs w path sn all : forall o s,
  norm_sect o = exp_opts s -> Forall (entry_ok cs w) s ->
  (forall kv2, In kv2 all -> has_char colon (fst kv2) = false) ->
  flat_map (file_item all_off path [] sn false EmptyString all) o = map (fun ke => Ok (mk_upd path sn ke)) s.
Proof.
  intros o s. revert o. induction s as [|ke r IH]; intros o E F P.
  - destruct o; [reflexivity|discriminate].
  - destruct o as [|kv o']; [discriminate|]. simpl in E. inversion E as [[E1 E2 E3]]. inversion F as [|? ? Fe Fr]; subst.
    destruct Fe as [K1 [_ [K3 _]]].
    cbn [flat_map map]. rewrite (IH o' E3 Fr P). unfold file_item. cbv zeta. rewrite E1, K1, K3, E2.
    assert (M : flat_map (fun kv2 : string * option (list string) =>
                            if prefix_b (e_key (snd ke) ++ ":") (fst kv2)
                            then [(snd (partition_on colon (fst kv2)), meta_value all_off (snd kv2))] else []) all = []).
    { clear -P. induction all as [|a l IHl]; [reflexivity|]. cbn [flat_map].
      rewrite prefix_colon by (apply P; left; reflexivity). apply IHl. intros kv2 H. apply P. right. exact H. }
    rewrite M, !py_replace_novars. unfold mk_upd. rewrite K1. reflexivity.
Qed.

Lemma names_norm_sect o : map fst (norm_sect o) = map fst o.
Proof. unfold norm_sect. rewrite map_map. reflexivity. Qed.
Lemma names_exp_opts s : map fst (exp_opts s) = map fst s.
Proof. unfold exp_opts. rewrite map_map. reflexivity. Qed.

Lemma section_items_ok cs w path sn o s :
  norm_sect o = exp_opts s -> section_ok cs w (sn, s) ->
  section_items all_off path [] sn o = map (fun ke => Ok (mk_upd path sn ke)) s.
Proof.
  intros E [[Sn [_ [_ [Sp _]]]] [_ [_ F]]]. simpl in *. unfold section_items. rewrite Sp.
  destruct sn as [|a sn']; [contradiction|].
  apply (section_items_aux cs w); [exact E|exact F|].
  intros kv2 H. apply (in_map fst) in H. rewrite <- names_norm_sect, E, names_exp_opts in H.
  apply in_map_iff in H. destruct H as [ke [Ek Hke]]. rewrite Forall_forall in F.
  destruct (F ke Hke) as [K1 [_ [K3 _]]]. rewrite <- Ek, K1. exact K3.
Qed.

Lemma all_items_ok cs w path : forall p v,
  norm_parsed p = exp_norm v -> Forall (section_ok cs w) v ->
  flat_map (fun ns => section_items all_off path [] (fst ns) (snd ns)) p = map Ok (exp_items path v).
Proof.
  intros p v. revert p. induction v as [|ns r IH]; intros p E F.
  - destruct p; [reflexivity|discriminate].
  - destruct p as [|ps p']; [discriminate|]. simpl in E. inversion E as [[E1 E2 E3]]. inversion F; subst.
    cbn [flat_map]. rewrite (IH p' E3 H2). unfold exp_items. cbn [flat_map]. rewrite map_app, map_map.
    f_equal. rewrite E1. apply (section_items_ok cs w); [exact E2|]. destruct ns; exact H1.
Qed.

Lemma dunder_not_section cs w v d x :
  partition_dunder d = (EmptyString, true, x) -> Forall (section_ok cs w) v -> ~ In d (map fst v).
Proof.
  intros Pd F H. apply in_map_iff in H. destruct H as [ns [E Hns]]. rewrite Forall_forall in F.
  destruct (F ns Hns) as [[Sn [_ [_ [Sp _]]]] _]. rewrite E, Pd in Sp. inversion Sp.
Qed.

Lemma sget_norm_none k p v :
  norm_parsed p = exp_norm v -> ~ In k (map fst v) -> sget k p = None.
Proof.
  intros E N. unfold sget.
  assert (A : aget String.eqb k (norm_parsed p) = None).
  { rewrite E. apply (aget_none_notin _ _ _ string_eqb_spec). unfold exp_norm. rewrite map_map. exact N. }
  rewrite norm_parsed_get in A. destruct (aget String.eqb k p); [discriminate|reflexivity].
Qed.

Lemma parsed_items_ok cs w path p v :
  norm_parsed p = exp_norm v -> Forall (section_ok cs w) v ->
  parsed_items all_off path p = map Ok (exp_items path v).
Proof.
  intros E F. unfold parsed_items.
  rewrite (sget_norm_none "__replace__" p v E) by (eapply (dunder_not_section cs w); [reflexivity|exact F]).
  rewrite (all_items_ok cs w path p v E F). rewrite map_map. apply map_ext_in. intros u Hu.
  unfold exp_items in Hu. apply in_flat_map in Hu. destruct Hu as [ns [_ Hu]].
  apply in_map_iff in Hu. destruct Hu as [ke [<- _]]. reflexivity.
Qed.

(* ================================================================== the batch of updates and the rebuilt view *)
Definition upd_entry (u : upd) : entry := Entry (u_key u) (u_val u) (src_of (u_src u) (u_prof u)) (u_meta u).
Definition build (ps : sections) (us : list upd) : sections :=
  fold_left (fun ps u => set_entry ps (u_sec u) (u_key u) (upd_entry u)) us ps.

Lemma aset_aset {K V} (eqb : K -> K -> bool) (spec : forall a b, eqb a b = true <-> a = b) (l : list (K * V)) k x y :
  aset eqb (aset eqb l k x) k y = aset eqb l k y.
Proof.
  induction l as [|[k0 v0] r IH]; simpl.
  - rewrite (proj2 (spec k k) eq_refl). reflexivity.
  - destruct (eqb k k0) eqn:E; simpl; rewrite E; [reflexivity|]. rewrite IH. reflexivity.
Qed.

Lemma with_raw_twice c a b : with_raw (with_raw c a) b = with_raw c b.
Proof. destruct c; reflexivity. Qed.
Lemma with_raw_raw c a : c_raw (with_raw c a) = a.
Proof. destruct c; reflexivity. Qed.

Lemma update1_profileless c u :
  u_prof u = None ->
  update1 c u true =
  Ok (with_raw c (pset (c_raw c) None
        (set_entry (match pget None (c_raw c) with Some x => x | None => [] end) (u_sec u) (u_key u) (upd_entry u)))).
Proof. intros P. destruct u as [a b d p e m]. simpl in P. subst p. reflexivity. Qed.

Lemma batch_build us : forall c,
  us <> [] -> Forall (fun u => u_prof u = None) us ->
  batch all_off c (map Ok us) true false =
  (refresh (with_raw c (pset (c_raw c) None
                          (build (match pget None (c_raw c) with Some x => x | None => [] end) us))), Ok tt).
Proof.
  induction us as [|u r IH]; intros c N F; [contradiction|]. inversion F as [|? ? Fu Fr]; subst.
  cbn [map batch]. rewrite (update1_profileless c u Fu).
  set (ps := match pget None (c_raw c) with Some x => x | None => [] end).
  set (c1 := with_raw c (pset (c_raw c) None (set_entry ps (u_sec u) (u_key u) (upd_entry u)))).
  destruct r as [|u2 r2].
  - reflexivity.
  - rewrite (IH c1) by (discriminate || exact Fr). unfold c1. rewrite with_raw_raw, with_raw_twice.
    unfold pget, pset. rewrite (aget_aset_same _ _ _ prof_eqb_spec).
    rewrite (aset_aset _ prof_eqb_spec). reflexivity.
Qed.

Definition mk_entry_of (path : string) (ke : string * entry) : string * entry :=
  (fst ke, Entry (fst ke) (e_val (snd ke)) path []).
Definition exp_section (path : string) (ns : string * sect) : string * sect := (fst ns, map (mk_entry_of path) (snd ns)).

Lemma fold_upd_entries path sn s : forall X,
  fold_left (fun ps u => set_entry ps (u_sec u) (u_key u) (upd_entry u)) (map (mk_upd path sn) s) X =
  fold_left (fun v ke => set_entry v sn (fst ke) (snd ke)) (map (mk_entry_of path) s) X.
Proof. induction s as [|ke r IH]; intros X; [reflexivity|]. simpl. apply IH. Qed.

Lemma names_mk path s : map fst (map (mk_entry_of path) s) = map fst s.
Proof. rewrite map_map. reflexivity. Qed.

Lemma build_items cs w path v : forall D : sections,
  NoDup (map fst (D ++ v)%list) -> Forall (section_ok cs w) v ->
  build D (exp_items path v) = (D ++ map (exp_section path) v)%list.
Proof.
  induction v as [|[sn s] r IH]; intros D ND F; [simpl; rewrite app_nil_r; reflexivity|].
  inversion F as [|? ? Fs Fr]; subst. destruct Fs as [_ [Ne [NDs _]]]. simpl in Ne, NDs.
  unfold exp_items. cbn [flat_map fst snd]. fold (exp_items path r). unfold build. rewrite fold_left_app.
  fold (build D (map (mk_upd path sn) s)). fold (build (build D (map (mk_upd path sn) s)) (exp_items path r)).
  assert (Nd : ~ In sn (map fst D)).
  { rewrite map_app in ND. simpl in ND. apply NoDup_remove_2 in ND. intros H. apply ND. rewrite in_app_iff. left. exact H. }
  assert (B : build D (map (mk_upd path sn) s) = (D ++ [exp_section path (sn, s)])%list).
  { destruct s as [|ke s']; [contradiction|]. unfold build. cbn [map fold_left].
    change (set_entry D (u_sec (mk_upd path sn ke)) (u_key (mk_upd path sn ke)) (upd_entry (mk_upd path sn ke)))
      with (set_entry D sn (fst ke) (snd (mk_entry_of path ke))).
    rewrite set_entry_new by exact Nd. rewrite fold_upd_entries.
    rewrite fold_set_entries; [reflexivity|exact Nd|].
    cbn [app map fst]. rewrite names_mk. exact NDs. }
  rewrite B, IH; [rewrite <- app_assoc; reflexivity| |exact Fr].
  rewrite <- app_assoc. rewrite map_app in *. exact ND.
Qed.

Lemma exp_sections_wf cs w path v :
  Forall (section_ok cs w) v -> Forall (fun ns => NoDup (map fst (snd ns))) (map (exp_section path) v).
Proof.
  intros F. rewrite Forall_forall in *. intros x Hx. apply in_map_iff in Hx. destruct Hx as [ns [<- Hns]].
  simpl. rewrite names_mk. destruct (F ns Hns) as [_ [_ [N _]]]. exact N.
Qed.

Lemma content_exp cs w path v :
  Forall (section_ok cs w) v -> view_content (map (exp_section path) v) = view_content v.
Proof.
  intros F. unfold view_content. rewrite map_map. apply map_ext_in. intros ns Hns. simpl. f_equal.
  rewrite map_map. apply map_ext_in. intros ke Hke. simpl.
  rewrite Forall_forall in F. destruct (F ns Hns) as [_ [_ [_ Fe]]]. rewrite Forall_forall in Fe.
  destruct (Fe ke Hke) as [_ [_ [_ [_ [_ [_ [M _]]]]]]]. rewrite M. reflexivity.
Qed.

(* ================================================================== write, then read: the same content *)
Theorem readback_ok (cs : bool) (w : nat) (c : config) :
  view_ok cs w (c_view c) ->
  answer all_off c (QReadBack w cs) = AContent (Ok (view_content (c_view c))).
Proof.
  intros V. destruct (c_view c) as [|ns r] eqn:Ev.
  - cbn [answer]. unfold as_str. rewrite Ev. destruct cs; reflexivity.
  - pose proof V as [ND F].
    destruct (read_view cs w ns r V) as [st [R N]].
    cbn [answer apply_op]. unfold parse_ini. rewrite (text_lines cs w c ns r Ev V), R.
    assert (Hv : sget "__vars__" (r_done st) = None).
    { apply (sget_norm_none _ _ _ N). eapply (dunder_not_section cs w); [reflexivity|exact F]. }
    rewrite Hv. rewrite (parsed_items_ok cs w "f" _ _ N F).
    assert (Ne : exp_items "f" (ns :: r) <> []).
    { inversion F as [|? ? Fs _]; subst. destruct Fs as [_ [Ns _]]. unfold exp_items. cbn [flat_map].
      intros Hx. apply app_eq_nil in Hx. destruct Hx as [Hx _]. apply map_eq_nil in Hx. contradiction. }
    rewrite batch_build; [|exact Ne|].
    + cbn [empty_config c_raw pget aget]. rewrite (build_items cs w "f" (ns :: r) [] ND F).
      cbn [app]. unfold refresh, empty_config. cbn [with_raw c_profiles c_raw with_view c_view].
      rewrite flatten_cons. cbn [pset aset pget aget prof_eqb].
      change (flatten [] [(None, map (exp_section "f") (ns :: r))]) with (@nil (string * sect)).
      rewrite (merge_sections_new (map (exp_section "f") (ns :: r)) []).
      * cbn [app]. rewrite (content_exp cs w "f" _ F). reflexivity.
      * cbn [app]. rewrite map_map. exact ND.
      * apply (exp_sections_wf cs w). exact F.
    + unfold exp_items. rewrite Forall_forall. intros u Hu. apply in_flat_map in Hu. destruct Hu as [x [_ Hu]].
      apply in_map_iff in Hu. destruct Hu as [ke [<- _]]. reflexivity.
Qed.
