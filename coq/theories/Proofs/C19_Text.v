(* C19 - text form: textwrap.fill on lines that fit, the reader over whole files. *)
From Coq Require Import ZArith List Bool String Ascii Lia.
From Verif Require Import Gen.C19_BoolStates Model.C19_Config Proofs.C19_Config.
Import ListNotations.
Open Scope string_scope.

(* ================================================================== strings *)
Lemma app_nil_r_s (a : string) : a ++ "" = a.
Proof. induction a; simpl; [reflexivity|]. rewrite IHa. reflexivity. Qed.

Lemma length_app_s (a b : string) : String.length (a ++ b) = String.length a + String.length b.
Proof. induction a; simpl; [reflexivity|]. rewrite IHa. reflexivity. Qed.

Lemma concat_cons_s x l : String.concat "" (x :: l) = x ++ String.concat "" l.
Proof. destruct l; simpl; [symmetry; apply app_nil_r_s|reflexivity]. Qed.

Lemma concat_app_s l1 l2 : String.concat "" (l1 ++ l2) = String.concat "" l1 ++ String.concat "" l2.
Proof.
  induction l1 as [|x r IH]; [reflexivity|].
  change ((x :: r) ++ l2)%list with (x :: (r ++ l2))%list. rewrite !concat_cons_s, IH, app_assoc_s. reflexivity.
Qed.

Definition total (cs : list string) : nat := fold_right (fun c n => String.length c + n) 0 cs.

Lemma total_concat cs : String.length (String.concat "" cs) = total cs.
Proof. induction cs as [|c r IH]; [reflexivity|]. rewrite concat_cons_s, length_app_s, IH. reflexivity. Qed.

(* ================================================================== chunks *)
Lemma concat_chunks_aux s : forall cur b, String.concat "" (chunks_aux cur b s) = cur ++ s.
Proof.
  induction s as [|a r IH]; intros cur b; simpl.
  - destruct cur; [reflexivity|]. simpl. rewrite app_nil_r_s. reflexivity.
  - destruct cur as [|c0 cr].
    + rewrite IH. reflexivity.
    + destruct (Bool.eqb (Ascii.eqb a sp) b).
      * rewrite IH, app_assoc_s. reflexivity.
      * rewrite concat_cons_s, IH. reflexivity.
Qed.

Lemma concat_chunks s : String.concat "" (chunks s) = s.
Proof. unfold chunks. apply concat_chunks_aux. Qed.

(* last character of a string is not a blank *)
Fixpoint ends_nonblank (s : string) : bool :=
  match s with
  | EmptyString => false
  | String a EmptyString => negb (Ascii.eqb sp a)
  | String _ r => ends_nonblank r
  end.

Lemma is_blank_app_false a b : is_blank b = false -> is_blank (a ++ b) = false.
Proof. unfold is_blank. intros H. rewrite sall_app, H. apply andb_false_r. Qed.

Lemma chunks_aux_last s : forall cur b,
  (s = EmptyString -> is_blank cur = false) -> (s <> EmptyString -> ends_nonblank s = true) ->
  exists pre c, chunks_aux cur b s = (pre ++ [c])%list /\ is_blank c = false.
Proof.
  induction s as [|a r IH]; intros cur b H0 H1.
  - simpl. specialize (H0 eq_refl). destruct cur; [cbv in H0; discriminate|]. exists [], (String a cur). split; [reflexivity|exact H0].
  - assert (E : ends_nonblank (String a r) = true) by (apply H1; discriminate).
    assert (Hr : r <> EmptyString -> ends_nonblank r = true) by (intros N; destruct r; [contradiction|exact E]).
    assert (Ha : r = EmptyString -> is_blank (s1 a) = false).
    { intros ->. cbn [ends_nonblank] in E. unfold is_blank, s1. cbn [sall].
      destruct (Ascii.eqb sp a); [cbn in E; discriminate|reflexivity]. }
    simpl. destruct cur as [|c0 cr].
    + apply IH; assumption.
    + destruct (Bool.eqb (Ascii.eqb a sp) b).
      * apply IH; [|exact Hr]. intros N. apply is_blank_app_false. apply Ha. exact N.
      * destruct (IH (s1 a) (Ascii.eqb a sp) Ha Hr) as [pre [c [Ec Hc]]].
        exists (String c0 cr :: pre), c. rewrite Ec. split; [reflexivity|exact Hc].
Qed.

Lemma chunks_last s : ends_nonblank s = true ->
  exists pre c, chunks s = (pre ++ [c])%list /\ is_blank c = false.
Proof.
  intros H. unfold chunks. apply chunks_aux_last; [|intros _; exact H].
  intros ->. discriminate.
Qed.

(* ================================================================== a line that fits is left unchanged *)
Lemma take_fit_all cs : forall avail n acc,
  n + total cs <= avail -> take_fit avail n cs acc = ((rev cs ++ acc)%list, []).
Proof.
  induction cs as [|c r IH]; intros avail n acc H; [reflexivity|].
  simpl in *. assert (L : Nat.leb (n + String.length c) avail = true) by (apply Nat.leb_le; lia).
  rewrite L, IH by lia. rewrite <- app_assoc. reflexivity.
Qed.

Lemma wrap_lines_nil f w h b : wrap_lines f w h b [] = [].
Proof. destruct f; reflexivity. Qed.

Lemma fill_fits w h text :
  ends_nonblank text = true -> String.length text <= w -> fill w h text = text.
Proof.
  intros E L. unfold fill. destruct (chunks_last text E) as [pre [c [Ec Hc]]].
  pose proof (concat_chunks text) as Ct. pose proof (total_concat (chunks text)) as Tt. rewrite Ct in Tt.
  rewrite Ec in *. set (cs := (pre ++ [c])%list) in *.
  assert (Ecs : exists c0 r0, cs = c0 :: r0).
  { unfold cs. destruct pre; simpl; eauto. }
  destruct Ecs as [c0 [r0 E0]].
  cbn [wrap_lines]. rewrite E0. cbn [negb andb]. rewrite <- E0.
  rewrite Nat.sub_0_r. rewrite take_fit_all by lia. rewrite app_nil_r.
  unfold cs at 1 2 3. rewrite rev_app_distr. cbn [rev app]. rewrite Hc.
  rewrite wrap_lines_nil. cbn [join spaces].
  cbn [rev]. rewrite rev_involutive. exact Ct.
Qed.

(* ================================================================== chunks of a text followed by more text *)
Lemma chunks_aux_open P : forall cur b,
  (P = EmptyString -> cur <> EmptyString /\ b = false /\ is_blank cur = false) ->
  (P <> EmptyString -> ends_nonblank P = true) ->
  exists init c', c' <> EmptyString /\ is_blank c' = false /\
                  forall tail, chunks_aux cur b (P ++ tail) = (init ++ chunks_aux c' false tail)%list.
Proof.
  induction P as [|a r IH]; intros cur b H0 H1.
  - destruct (H0 eq_refl) as [Hc [-> Hb]]. exists [], cur. split; [exact Hc|]. split; [exact Hb|]. intros tail. reflexivity.
  - assert (E : ends_nonblank (String a r) = true) by (apply H1; discriminate).
    assert (Hr : r <> EmptyString -> ends_nonblank r = true) by (intros N; destruct r; [contradiction|exact E]).
    assert (Ha : r = EmptyString -> Ascii.eqb a sp = false).
    { intros ->. cbn [ends_nonblank] in E. rewrite Ascii.eqb_sym. destruct (Ascii.eqb sp a); [cbn in E; discriminate|reflexivity]. }
    assert (Hb1 : r = EmptyString -> is_blank (s1 a) = false).
    { intros Er. unfold is_blank, s1. cbn [sall]. rewrite Ascii.eqb_sym, (Ha Er). reflexivity. }
    destruct cur as [|c0 cr].
    + destruct (IH (s1 a) (Ascii.eqb a sp)) as [init [c' [Hc' [Hb' Ht]]]].
      * intros Er. split; [discriminate|]. split; [apply Ha; exact Er|apply Hb1; exact Er].
      * exact Hr.
      * exists init, c'. split; [exact Hc'|]. split; [exact Hb'|]. intros tail. simpl. apply Ht.
    + destruct (Bool.eqb (Ascii.eqb a sp) b) eqn:Eb.
      * destruct (IH (String c0 cr ++ s1 a) b) as [init [c' [Hc' [Hb' Ht]]]].
        -- intros Er. split; [discriminate|]. split.
           ++ apply Bool.eqb_prop in Eb. rewrite <- Eb. apply Ha. exact Er.
           ++ apply is_blank_app_false. apply Hb1. exact Er.
        -- exact Hr.
        -- exists init, c'. split; [exact Hc'|]. split; [exact Hb'|]. intros tail.
           change (String a r ++ tail) with (String a (r ++ tail)). cbn [chunks_aux]. rewrite Eb. apply Ht.
      * destruct (IH (s1 a) (Ascii.eqb a sp)) as [init [c' [Hc' [Hb' Ht]]]].
        -- intros Er. split; [discriminate|]. split; [apply Ha; exact Er|apply Hb1; exact Er].
        -- exact Hr.
        -- exists (String c0 cr :: init), c'. split; [exact Hc'|]. split; [exact Hb'|]. intros tail.
           change (String a r ++ tail) with (String a (r ++ tail)). cbn [chunks_aux]. rewrite Eb. rewrite Ht. reflexivity.
Qed.

Lemma chunks_open P : ends_nonblank P = true ->
  exists init c', c' <> EmptyString /\ is_blank c' = false /\
                  forall tail, chunks (P ++ tail) = (init ++ chunks_aux c' false tail)%list.
Proof.
  intros E. unfold chunks. apply chunks_aux_open; [|intros _; exact E]. intros ->. discriminate.
Qed.

Lemma spaces_snoc n : spaces n ++ s1 sp = spaces (S n).
Proof. induction n; simpl; [reflexivity|]. rewrite IHn. reflexivity. Qed.

Lemma chunks_aux_blank_run j : forall m, chunks_aux (spaces (S m)) true (spaces j) = [spaces (S m + j)].
Proof.
  induction j as [|j IH]; intros m.
  - rewrite Nat.add_0_r. reflexivity.
  - cbn [spaces chunks_aux]. rewrite Ascii.eqb_refl. cbn [Bool.eqb].
    change (String sp (spaces m) ++ s1 sp) with (spaces (S m) ++ s1 sp). rewrite spaces_snoc, IH.
    replace (S (S m) + j) with (S m + S j) by lia. reflexivity.
Qed.

Lemma chunks_aux_spaces c n : c <> EmptyString -> chunks_aux c false (spaces (S n)) = [c; spaces (S n)].
Proof.
  intros Hc. destruct c as [|c0 cr]; [contradiction|]. cbn [spaces chunks_aux]. rewrite Ascii.eqb_refl. cbn [Bool.eqb].
  change (s1 sp) with (spaces 1). rewrite chunks_aux_blank_run. reflexivity.
Qed.

Lemma chunks_aux_end c : c <> EmptyString -> chunks_aux c false EmptyString = [c].
Proof. destruct c; [contradiction|reflexivity]. Qed.

Lemma is_blank_spaces n : is_blank (spaces n) = true.
Proof. unfold is_blank. induction n; simpl; [reflexivity|exact IHn]. Qed.

(* a line that fits and ends in blanks loses them *)
Lemma fill_fits_trailing w h body n :
  ends_nonblank body = true -> String.length (body ++ spaces (S n)) <= w -> fill w h (body ++ spaces (S n)) = body.
Proof.
  intros E L. unfold fill. destruct (chunks_open body E) as [init [c' [Hc' [_ Ht]]]].
  pose proof (Ht (spaces (S n))) as C1. rewrite (chunks_aux_spaces c' n Hc') in C1.
  pose proof (Ht EmptyString) as C0. rewrite app_nil_r_s, (chunks_aux_end c' Hc') in C0.
  pose proof (concat_chunks body) as Cb. rewrite C0 in Cb.
  pose proof (total_concat (chunks (body ++ spaces (S n)))) as Tt. rewrite concat_chunks in Tt.
  rewrite C1 in *. set (cs := (init ++ [c'; spaces (S n)])%list) in *.
  assert (Ecs : exists c0 r0, cs = c0 :: r0) by (unfold cs; destruct init; simpl; eauto).
  destruct Ecs as [c0 [r0 E0]].
  cbn [wrap_lines]. rewrite E0. cbn [negb andb]. rewrite <- E0.
  rewrite Nat.sub_0_r. rewrite take_fit_all by lia. rewrite app_nil_r.
  unfold cs at 1 2 3.
  replace (init ++ [c'; spaces (S n)])%list with ((init ++ [c']) ++ [spaces (S n)])%list by (rewrite <- app_assoc; reflexivity).
  rewrite rev_app_distr. cbn [rev app]. rewrite is_blank_spaces.
  rewrite rev_app_distr. cbn [rev app].
  rewrite wrap_lines_nil. cbn [join spaces].
  rewrite rev_involutive. exact Cb.
Qed.

(* ================================================================== more dictionary facts *)
Section AssocMore.
  Variables (K V W : Type) (eqb : K -> K -> bool).
  Hypothesis eqb_spec : forall a b, eqb a b = true <-> a = b.
  Variable f : V -> W.
  Let F := fun kv : K * V => (fst kv, f (snd kv)).

  Lemma aget_map_val k l : aget eqb k (map F l) = option_map f (aget eqb k l).
  Proof. induction l as [|[k0 v0] r IH]; simpl; [reflexivity|]. destruct (eqb k k0); [reflexivity|exact IH]. Qed.

  Lemma aset_map_val l k v : map F (aset eqb l k v) = aset eqb (map F l) k (f v).
  Proof.
    induction l as [|[k0 v0] r IH]; simpl; [reflexivity|].
    destruct (eqb k k0); simpl; [reflexivity|]. rewrite IH. reflexivity.
  Qed.

  Lemma aset_same (l : list (K * V)) k v : aget eqb k l = Some v -> aset eqb l k v = l.
  Proof.
    induction l as [|[k0 v0] r IH]; simpl; [discriminate|].
    destruct (eqb k k0) eqn:E; [intros H; inversion H; reflexivity|]. intros H. rewrite (IH H). reflexivity.
  Qed.

  Lemma aset_last (D : list (K * V)) k x y : ~ In k (map fst D) -> aset eqb (D ++ [(k, x)]) k y = (D ++ [(k, y)])%list.
  Proof.
    induction D as [|[k0 v0] r IH]; simpl; intros N.
    - rewrite (proj2 (eqb_spec k k) eq_refl). reflexivity.
    - destruct (eqb k k0) eqn:E; [apply eqb_spec in E; subst; exfalso; apply N; left; reflexivity|].
      rewrite IH; [reflexivity|]. intros H. apply N. right. exact H.
  Qed.

  Lemma aset_new (l : list (K * V)) k v : aget eqb k l = None -> aset eqb l k v = (l ++ [(k, v)])%list.
  Proof.
    induction l as [|[k0 v0] r IH]; simpl; [reflexivity|].
    destruct (eqb k k0); [discriminate|]. intros H. rewrite (IH H). reflexivity.
  Qed.

  Lemma aget_last (D : list (K * V)) k x : ~ In k (map fst D) -> aget eqb k (D ++ [(k, x)]) = Some x.
  Proof.
    intros N. rewrite aget_app_notin. rewrite (proj2 (aget_none_notin _ _ _ eqb_spec D k) N).
    rewrite (proj2 (eqb_spec k k) eq_refl). reflexivity.
  Qed.
End AssocMore.

(* ================================================================== lines of a text *)
Definition no_nl (s : string) : Prop := has_char nl s = false.

Lemma split_where_none p s : sany p s = false -> split_where p s = [s].
Proof.
  induction s as [|a r IH]; simpl; [reflexivity|]. intros H. apply orb_false_iff in H. destruct H as [Ha Hr].
  rewrite Ha, (IH Hr). reflexivity.
Qed.

Lemma split_where_app p a c b : sany p a = false -> p c = true ->
  split_where p (a ++ String c b) = a :: split_where p b.
Proof.
  induction a as [|x r IH]; simpl; intros Ha Hc.
  - rewrite Hc. reflexivity.
  - apply orb_false_iff in Ha. destruct Ha as [Hx Hr]. rewrite Hx, (IH Hr Hc). reflexivity.
Qed.

Lemma split_join ls : ls <> [] -> Forall no_nl ls -> split_on nl (join (s1 nl) ls) = ls.
Proof.
  induction ls as [|l r IH]; [contradiction|]. intros _ F. inversion F; subst.
  destruct r as [|l2 r2].
  - simpl. apply split_where_none. exact H1.
  - change (join (s1 nl) (l :: l2 :: r2)) with (l ++ String nl (join (s1 nl) (l2 :: r2))).
    unfold split_on. rewrite split_where_app; [|exact H1|apply Ascii.eqb_refl].
    f_equal. apply IH; [discriminate|exact H2].
Qed.

Lemma join_app_s sep l1 l2 : l1 <> [] -> l2 <> [] ->
  join sep (l1 ++ l2) = join sep l1 ++ sep ++ join sep l2.
Proof.
  induction l1 as [|x r IH]; [contradiction|]. intros _ N2.
  destruct r as [|y r'].
  - simpl. destruct l2; [contradiction|reflexivity].
  - change ((x :: y :: r') ++ l2)%list with (x :: ((y :: r') ++ l2))%list.
    change (join sep (x :: (y :: r') ++ l2)) with (x ++ sep ++ join sep ((y :: r') ++ l2)).
    rewrite IH by (discriminate || assumption).
    change (join sep (x :: y :: r')) with (x ++ sep ++ join sep (y :: r')).
    rewrite !app_assoc_s. reflexivity.
Qed.

(* ================================================================== the reader over the lines of a written file *)
Definition norm_sect (opts : list (string * option (list string))) : list (string * option string) :=
  map (fun kv => (fst kv, opt_value (snd kv))) opts.
Definition norm_parsed (p : parsed) : list (string * list (string * option string)) :=
  map (fun ns => (fst ns, norm_sect (snd ns))) p.

Definition rinv (st : rstate) (Nd : list (string * list (string * option string))) (sn : string)
           (no : list (string * option string)) : Prop :=
  norm_parsed (r_done st) = (Nd ++ [(sn, no)])%list /\ ~ In sn (map fst Nd) /\ r_sect st = Some sn.

Lemma joined_blank ls : joined_value (ls ++ [EmptyString]) = joined_value ls.
Proof.
  unfold joined_value, joined_raw. destruct ls as [|l r]; [reflexivity|].
  rewrite join_app_s by discriminate. cbn [join]. rewrite app_nil_r_s.
  rewrite rstrip_app_space by reflexivity. reflexivity.
Qed.

Lemma norm_sect_aset opts k x : norm_sect (aset String.eqb opts k x) = aset String.eqb (norm_sect opts) k (opt_value x).
Proof. unfold norm_sect. apply aset_map_val. Qed.
Lemma norm_parsed_aset p k x : norm_parsed (aset String.eqb p k x) = aset String.eqb (norm_parsed p) k (norm_sect x).
Proof. unfold norm_parsed. apply aset_map_val. Qed.
Lemma norm_sect_get k opts : aget String.eqb k (norm_sect opts) = option_map opt_value (aget String.eqb k opts).
Proof. unfold norm_sect. apply aget_map_val. Qed.
Lemma norm_parsed_get k p : aget String.eqb k (norm_parsed p) = option_map norm_sect (aget String.eqb k p).
Proof. unfold norm_parsed. apply aget_map_val. Qed.

Lemma norm_add_blank p sn on : norm_parsed (add_value_line p sn on EmptyString) = norm_parsed p.
Proof.
  unfold add_value_line. destruct (sget sn p) as [opts|] eqn:E; [|reflexivity].
  destruct (sget on opts) as [[ls|]|] eqn:E2; try reflexivity.
  unfold sset. rewrite norm_parsed_aset, norm_sect_aset.
  assert (A : aset String.eqb (norm_sect opts) on (opt_value (Some (ls ++ [EmptyString])%list)) = norm_sect opts).
  { apply aset_same. rewrite norm_sect_get. unfold sget in E2. rewrite E2. simpl. rewrite joined_blank. reflexivity. }
  rewrite A. apply aset_same. rewrite norm_parsed_get. unfold sget in E. rewrite E. reflexivity.
Qed.

Lemma read_blank cs st Nd sn no :
  rinv st Nd sn no -> exists st', read_line cs (Ok st) EmptyString = Ok st' /\ rinv st' Nd sn no.
Proof.
  intros [N [D S]]. unfold read_line. cbn [strip lstrip rstrip]. change (is_comment EmptyString) with false. cbn [andb]. cbv iota.
  rewrite S. destruct (r_opt st) as [on|].
  - eexists. split; [reflexivity|]. split; [|split; [exact D|reflexivity]]. cbn [r_done]. rewrite norm_add_blank. exact N.
  - eexists. split; [reflexivity|]. split; [exact N|split; [exact D|reflexivity]].
Qed.

Lemma rinv_sget st Nd sn no :
  rinv st Nd sn no -> exists opts, sget sn (r_done st) = Some opts /\ norm_sect opts = no.
Proof.
  intros [N [D _]].
  assert (A : sget sn (norm_parsed (r_done st)) = Some no).
  { rewrite N. unfold sget. apply aget_last; [exact string_eqb_spec|exact D]. }
  unfold sget in A. rewrite norm_parsed_get in A.
  destruct (aget String.eqb sn (r_done st)) as [opts|] eqn:E; [|discriminate].
  exists opts. split; [exact E|]. simpl in A. inversion A. reflexivity.
Qed.

Lemma smem_norm k opts : smem k (norm_sect opts) = smem k opts.
Proof. unfold smem, amem. rewrite norm_sect_get. destruct (aget String.eqb k opts); reflexivity. Qed.

Lemma read_entry (cs : bool) st Nd sn no (k v : string) :
  rinv st Nd sn no -> key_ok k -> value_ok v -> (if cs then k else lower k) = k -> smem k no = false ->
  exists st', read_line cs (Ok st) (plain_line k v) = Ok st' /\ rinv st' Nd sn (no ++ [(k, Some v)]).
Proof.
  intros I Hk Hv Hx Hm. destruct (rinv_sget _ _ _ _ I) as [opts [Eo En]]. destruct I as [N [D S]].
  pose proof (read_entry_line cs st k v sn opts Hk Hv S Eo) as R. cbv zeta in R. rewrite Hx in R.
  rewrite <- En, smem_norm in Hm. specialize (R Hm).
  eexists. split; [exact R|]. split; [|split; [exact D|reflexivity]].
  cbn [r_done]. unfold sset. rewrite norm_parsed_aset, N.
  rewrite aset_last by (exact string_eqb_spec || exact D).
  unfold norm_sect at 1. rewrite map_app. cbn [map fst snd opt_value option_map].
  rewrite (joined_single v Hv). fold (norm_sect opts). rewrite En. reflexivity.
Qed.

Definition sn_ok (sn : string) : Prop :=
  sn <> EmptyString /\ has_char "]"%char sn = false /\
  is_space (match sn with String a _ => a | _ => sp end) = false /\
  partition_dunder sn = (sn, false, EmptyString) /\ no_nl sn.

Lemma smem_norm_parsed k p : smem k (norm_parsed p) = smem k p.
Proof. unfold smem, amem. rewrite norm_parsed_get. destruct (aget String.eqb k p); reflexivity. Qed.

Lemma read_header cs st Nd sn no sn' :
  rinv st Nd sn no -> sn_ok sn' -> ~ In sn' (map fst (Nd ++ [(sn, no)])) ->
  exists st', read_line cs (Ok st) ("[" ++ sn' ++ "]") = Ok st' /\ rinv st' (Nd ++ [(sn, no)]) sn' [].
Proof.
  intros [N [D S]] [H1 [H2 [H3 _]]] Hn.
  assert (Hm : smem sn' (r_done st) = false).
  { rewrite <- smem_norm_parsed, N. unfold smem, amem.
    rewrite (proj2 (aget_none_notin _ _ _ string_eqb_spec _ sn') Hn). reflexivity. }
  destruct (read_header_line cs st sn' H1 H2 H3 Hm) as [ind R].
  eexists. split; [exact R|]. split; [|split; [exact Hn|reflexivity]].
  cbn [r_done]. unfold norm_parsed. rewrite map_app. fold (norm_parsed (r_done st)). rewrite N. reflexivity.
Qed.

Lemma read_first_header cs sn' :
  sn_ok sn' ->
  exists st', read_line cs (Ok (RState [] None None 0)) ("[" ++ sn' ++ "]") = Ok st' /\ rinv st' [] sn' [].
Proof.
  intros [H1 [H2 [H3 _]]].
  destruct (read_header_line cs (RState [] None None 0) sn' H1 H2 H3 eq_refl) as [ind R].
  eexists. split; [exact R|]. split; [reflexivity|split; [intros []|reflexivity]].
Qed.

Lemma join_cons_s sep h l : l <> [] -> join sep (h :: l) = h ++ sep ++ join sep l.
Proof. destruct l; [contradiction|reflexivity]. Qed.

Lemma join_concat sep ls : Forall (fun l => l <> []) ls -> join sep (map (join sep) ls) = join sep (List.concat ls).
Proof.
  induction ls as [|l r IH]; intros F; [reflexivity|]. inversion F; subst.
  destruct r as [|l2 r2].
  - simpl. rewrite app_nil_r. reflexivity.
  - change (map (join sep) (l :: l2 :: r2)) with (join sep l :: map (join sep) (l2 :: r2)).
    rewrite join_cons_s by discriminate. rewrite IH by assumption.
    cbn [List.concat]. rewrite (join_app_s sep l); [reflexivity|assumption|].
    inversion H2; subst. destruct l2; [contradiction|discriminate].
Qed.

Lemma no_nl_app a b : no_nl a -> no_nl b -> no_nl (a ++ b).
Proof. unfold no_nl, has_char. intros Ha Hb. rewrite any_app, Ha, Hb. reflexivity. Qed.

Lemma no_nl_spaces n : no_nl (spaces n).
Proof. unfold no_nl, has_char. apply any_spaces. reflexivity. Qed.


Lemma aset_aset {K V} (eqb : K -> K -> bool) (spec : forall a b, eqb a b = true <-> a = b) (l : list (K * V)) k x y :
  aset eqb (aset eqb l k x) k y = aset eqb l k y.
Proof.
  induction l as [|[k0 v0] r IH]; simpl.
  - rewrite (proj2 (spec k k) eq_refl). reflexivity.
  - destruct (eqb k k0) eqn:E; simpl; rewrite E; [reflexivity|]. rewrite IH. reflexivity.
Qed.


Lemma rstrip_cons a r :
  rstrip (String a r) = match rstrip r with EmptyString => if is_space a then EmptyString else s1 a | r' => String a r' end.
Proof. reflexivity. Qed.

(* ================================================================== greedy wrapping of words *)
Definition wlines (w : nat) (text : string) : list string :=
  wrap_lines (S (List.length (chunks text))) w (key_width + 3) true (chunks text).

Lemma fill_wlines w text : fill w (key_width + 3) text = join (s1 nl) (wlines w text).
Proof. reflexivity. Qed.

Definition nosp (x : string) : bool := sall (fun a => negb (is_space a)) x.
Definition word_ok (x : string) : Prop :=
  x <> EmptyString /\ nosp x = true /\
  match x with String a _ => a <> "#"%char /\ a <> ";"%char | EmptyString => True end.

Definition pairs (ws : list string) : list string := flat_map (fun x => [s1 sp; x]) ws.
Fixpoint tailtext (ws : list string) : string :=
  match ws with [] => EmptyString | x :: r => String sp (x ++ tailtext r) end.
Definition line_of (h : nat) (g : list string) : string := spaces h ++ join (s1 sp) g.

Lemma nosp_char a : negb (is_space a) = true -> Ascii.eqb a sp = false.
Proof.
  intros H. destruct (Ascii.eqb a sp) eqn:E; [|reflexivity]. apply Ascii.eqb_eq in E. subst. discriminate.
Qed.

Lemma word_nonblank x : word_ok x -> is_blank x = false.
Proof.
  intros [N [S _]]. destruct x as [|a r]; [contradiction|]. unfold nosp in S. cbn [sall] in S.
  apply andb_true_iff in S. destruct S as [Sa _]. unfold is_blank. cbn [sall].
  rewrite Ascii.eqb_sym, (nosp_char a Sa). reflexivity.
Qed.

Lemma chunks_word x : forall cur rest, cur <> EmptyString -> nosp x = true ->
  chunks_aux cur false (x ++ rest) = chunks_aux (cur ++ x) false rest.
Proof.
  induction x as [|a r IH]; intros cur rest Hc S; [rewrite app_nil_r_s; reflexivity|].
  unfold nosp in S. cbn [sall] in S. apply andb_true_iff in S. destruct S as [Sa Sr].
  change (String a r ++ rest) with (String a (r ++ rest)). cbn [chunks_aux]. rewrite (nosp_char a Sa).
  destruct cur as [|c0 cr]; [contradiction|]. cbn [Bool.eqb].
  rewrite IH; [|destruct cr; discriminate|exact Sr]. rewrite app_assoc_s. reflexivity.
Qed.

Lemma chunks_tail ws : forall c, c <> EmptyString -> Forall word_ok ws ->
  chunks_aux c false (tailtext ws) = c :: pairs ws.
Proof.
  induction ws as [|x r IH]; intros c Hc F.
  - destruct c; [contradiction|reflexivity].
  - inversion F as [|? ? Hx Fr]; subst. destruct Hx as [Nx [Sx _]].
    cbn [tailtext chunks_aux]. rewrite Ascii.eqb_refl. destruct c as [|c0 cr]; [contradiction|]. cbn [Bool.eqb].
    destruct x as [|a x']; [contradiction|].
    change (String a x' ++ tailtext r) with (String a (x' ++ tailtext r)). cbn [chunks_aux].
    pose proof Sx as Sx'. unfold nosp in Sx'. cbn [sall] in Sx'. apply andb_true_iff in Sx'. destruct Sx' as [Sa Sr].
    rewrite (nosp_char a Sa). cbn [s1 Bool.eqb].
    rewrite chunks_word by (discriminate || exact Sr). rewrite (IH (s1 a ++ x')) by (discriminate || exact Fr).
    reflexivity.
Qed.

Lemma concat_pairs ws : String.concat "" (pairs ws) = tailtext ws.
Proof.
  induction ws as [|x r IH]; [reflexivity|]. cbn [pairs flat_map app]. fold (pairs r).
  rewrite !concat_cons_s, IH. reflexivity.
Qed.

Lemma join_tail x g : x ++ tailtext g = join (s1 sp) (x :: g).
Proof.
  revert x. induction g as [|y r IH]; intros x; [apply app_nil_r_s|].
  cbn [tailtext]. rewrite IH. reflexivity.
Qed.

(* ---- take_fit on a chunk list that starts with a block that fits, then blank/word pairs *)
Lemma take_fit_app pre : forall avail n rest acc,
  n + total pre <= avail -> take_fit avail n (pre ++ rest) acc = take_fit avail (n + total pre) rest (rev pre ++ acc)%list.
Proof.
  induction pre as [|c r IH]; intros avail n rest acc H; [simpl; rewrite Nat.add_0_r; reflexivity|].
  simpl in *. assert (L : Nat.leb (n + String.length c) avail = true) by (apply Nat.leb_le; lia).
  rewrite L, IH by lia. rewrite <- app_assoc. simpl. f_equal. lia.
Qed.

Lemma rev_pairs_cons x g : rev (pairs (x :: g)) = (rev (pairs g) ++ [x; s1 sp])%list.
Proof. cbn [pairs flat_map app]. fold (pairs g). simpl. rewrite <- app_assoc. reflexivity. Qed.

Lemma take_pairs ws : forall avail n acc,
  exists g r, ws = (g ++ r)%list /\
    (take_fit avail n (pairs ws) acc = ((rev (pairs g) ++ acc)%list, pairs r) \/
     exists x r', r = x :: r' /\ take_fit avail n (pairs ws) acc = (s1 sp :: (rev (pairs g) ++ acc)%list, x :: pairs r')).
Proof.
  induction ws as [|x r IH]; intros avail n acc.
  - exists [], []. split; [reflexivity|left; reflexivity].
  - cbn [pairs flat_map app]. fold (pairs r). cbn [take_fit].
    destruct (Nat.leb (n + String.length (s1 sp)) avail) eqn:L1.
    + destruct (Nat.leb (n + String.length (s1 sp) + String.length x) avail) eqn:L2.
      * destruct (IH avail (n + String.length (s1 sp) + String.length x) (x :: s1 sp :: acc)) as [g [r' [E H]]].
        exists (x :: g), r'. split; [rewrite E; reflexivity|].
        rewrite rev_pairs_cons, <- app_assoc. cbn [app]. exact H.
      * exists [], (x :: r). split; [reflexivity|]. right. exists x, r. split; reflexivity.
    + exists [], (x :: r). split; [reflexivity|]. left. reflexivity.
Qed.

(* the last chunk of a line is a word (or the last chunk of the part that fits) *)
Lemma pairs_last pre c g : exists pre' y, (pre ++ c :: pairs g)%list = (pre' ++ [y])%list /\ (y = c \/ In y g).
Proof.
  revert pre c. induction g as [|x r IH]; intros pre c.
  - exists pre, c. split; [reflexivity|left; reflexivity].
  - cbn [pairs flat_map app]. fold (pairs r).
    destruct (IH (pre ++ [c; s1 sp])%list x) as [pre' [y [E H]]].
    exists pre', y. split.
    + rewrite <- E, <- app_assoc. reflexivity.
    + right. destruct H as [->|H]; [left; reflexivity|right; exact H].
Qed.

Lemma wrap_skip_blank f w h y t : is_blank y = false ->
  wrap_lines (S f) w h false (s1 sp :: y :: t) = wrap_lines (S f) w h false (y :: t).
Proof. intros H. cbn [wrap_lines negb andb]. change (is_blank (s1 sp)) with true. rewrite H. reflexivity. Qed.

(* lines but the first: every line is a non-empty group of words *)
Lemma wrap_words w h : forall f x ws,
  List.length ws < f -> word_ok x -> Forall word_ok ws ->
  exists groups, wrap_lines f w h false (x :: pairs ws) = map (line_of h) groups /\
                 List.concat groups = x :: ws /\ Forall (fun g => g <> []) groups.
Proof.
  induction f as [|f IH]; intros x ws L Hx F; [lia|].
  (* the rest of the words, with or without the blank in front *)
  assert (A : forall r, List.length r <= List.length ws -> Forall word_ok r ->
              exists groups, wrap_lines f w h false (pairs r) = map (line_of h) groups /\
                             List.concat groups = r /\ Forall (fun g => g <> []) groups).
  { intros r Lr Fr. destruct r as [|y r'].
    - exists []. split; [apply wrap_lines_nil|split; [reflexivity|constructor]].
    - inversion Fr as [|? ? Hy Fr']; subst. cbn [pairs flat_map app]. fold (pairs r').
      destruct f as [|f']; [simpl in Lr; lia|]. rewrite wrap_skip_blank by (apply word_nonblank; exact Hy).
      apply IH; [simpl in Lr; lia|exact Hy|exact Fr']. }
  assert (B : forall y r', S (List.length r') <= List.length ws -> word_ok y -> Forall word_ok r' ->
              exists groups, wrap_lines f w h false (y :: pairs r') = map (line_of h) groups /\
                             List.concat groups = y :: r' /\ Forall (fun g => g <> []) groups).
  { intros y r' Lr Hy Fr. apply IH; [lia|exact Hy|exact Fr]. }
  pose proof (word_nonblank x Hx) as Bx.
  cbn [wrap_lines negb andb]. rewrite Bx. cbv zeta. cbn [take_fit plus].
  destruct (Nat.leb (String.length x) (w - h)) eqn:Lx.
  - destruct (take_pairs ws (w - h) (String.length x) [x]) as [g [r [E [T|[y [r' [Er T]]]]]]]; rewrite T; cbv iota beta.
    + (* the line ends after a word *)
      destruct (pairs_last [] x g) as [pre' [z [Ez Hz]]]. cbn [app] in Ez.
      assert (Erev : (rev (pairs g) ++ [x])%list = z :: rev pre').
      { change (rev (pairs g) ++ [x])%list with (rev (x :: pairs g)). rewrite Ez, rev_app_distr. reflexivity. }
      assert (Bz : is_blank z = false).
      { destruct Hz as [->|Hz]; [exact Bx|]. apply word_nonblank. rewrite Forall_forall in F. apply F.
        rewrite E, in_app_iff. left. exact Hz. }
      rewrite Erev, Bz. rewrite <- Erev. change (rev (pairs g) ++ [x])%list with (rev (x :: pairs g)).
      rewrite rev_involutive, concat_cons_s, concat_pairs, join_tail.
      destruct (A r) as [groups [Eg [Cg Ng]]].
      * rewrite E, app_length. lia.
      * rewrite E in F. apply Forall_app in F. exact (proj2 F).
      * exists ((x :: g) :: groups). split; [rewrite Eg; reflexivity|]. split.
        -- cbn [List.concat]. rewrite Cg, E. reflexivity.
        -- constructor; [discriminate|exact Ng].
    + (* the blank still fitted, the next word did not *)
      change (is_blank (s1 sp)) with true. cbv iota.
      destruct (pairs_last [] x g) as [pre' [z [Ez Hz]]]. cbn [app] in Ez.
      assert (Erev : (rev (pairs g) ++ [x])%list = z :: rev pre').
      { change (rev (pairs g) ++ [x])%list with (rev (x :: pairs g)). rewrite Ez, rev_app_distr. reflexivity. }
      rewrite Erev. rewrite <- Erev. change (rev (pairs g) ++ [x])%list with (rev (x :: pairs g)).
      rewrite rev_involutive, concat_cons_s, concat_pairs, join_tail.
      assert (Fr : Forall word_ok (y :: r')) by (rewrite E, Er in F; apply Forall_app in F; exact (proj2 F)).
      inversion Fr as [|? ? Hy Fr']; subst.
      destruct (B y r') as [groups [Eg [Cg Ng]]]; [rewrite app_length; simpl; lia|exact Hy|exact Fr'|].
      exists ((x :: g) :: groups). split; [rewrite Eg; reflexivity|]. split.
      * cbn [List.concat]. rewrite Cg. reflexivity.
      * constructor; [discriminate|exact Ng].
  - (* a word longer than the line: alone on its line *)
    cbv iota beta. rewrite Bx. cbn [rev app]. 
    destruct (A ws (le_n _) F) as [groups [Eg [Cg Ng]]].
    exists ([x] :: groups). split.
    + rewrite Eg. cbn [map]. unfold line_of at 2. cbn [join]. rewrite concat_cons_s. cbn [String.concat]. rewrite app_nil_r_s. reflexivity.
    + split; [cbn [List.concat app]; rewrite Cg; reflexivity|constructor; [discriminate|exact Ng]].
Qed.

Lemma pairs_length ws : List.length (pairs ws) = 2 * List.length ws.
Proof. induction ws as [|x r IH]; [reflexivity|]. cbn [pairs flat_map app]. fold (pairs r). simpl. lia. Qed.

(* the whole entry: the part `key<pad> =` fits on the first line, the words of the value follow *)
Lemma wlines_words w P ws :
  ends_nonblank P = true -> String.length P <= w -> Forall word_ok ws ->
  exists g0 groups, wlines w (P ++ tailtext ws) = (P ++ tailtext g0) :: map (line_of (key_width + 3)) groups /\
                    (g0 ++ List.concat groups)%list = ws /\ Forall (fun g => g <> []) groups.
Proof.
  intros E L F. unfold wlines.
  destruct (chunks_open P E) as [init [c' [Hc' [Bc' Ht]]]].
  pose proof (Ht (tailtext ws)) as C1. rewrite (chunks_tail ws c' Hc' F) in C1.
  pose proof (Ht EmptyString) as C0. rewrite app_nil_r_s, (chunks_aux_end c' Hc') in C0.
  pose proof (concat_chunks P) as Cb. rewrite C0 in Cb.
  pose proof (total_concat (chunks P)) as Tp. rewrite concat_chunks, C0 in Tp.
  rewrite C1. set (pre := (init ++ [c'])%list) in *.
  replace (init ++ c' :: pairs ws)%list with (pre ++ pairs ws)%list by (unfold pre; rewrite <- app_assoc; reflexivity).
  set (cs := (pre ++ pairs ws)%list).
  assert (Lcs : List.length cs = List.length pre + 2 * List.length ws) by (unfold cs; rewrite app_length, pairs_length; reflexivity).
  assert (Lpre : 1 <= List.length pre) by (unfold pre; rewrite app_length; simpl; lia).
  assert (Ecs : exists c0 r0, cs = c0 :: r0) by (unfold cs, pre; destruct init; simpl; eauto).
  destruct Ecs as [c0 [r0 E0]].
  (* the rest of the words on the following lines *)
  assert (A : forall r, List.length r <= List.length ws -> Forall word_ok r ->
              exists groups, wrap_lines (List.length cs) w (key_width + 3) false (pairs r) = map (line_of (key_width + 3)) groups /\
                             List.concat groups = r /\ Forall (fun g => g <> []) groups).
  { intros r Lr Fr. destruct r as [|y r'].
    - exists []. split; [apply wrap_lines_nil|split; [reflexivity|constructor]].
    - inversion Fr as [|? ? Hy Fr']; subst. cbn [pairs flat_map app]. fold (pairs r').
      destruct (List.length cs) as [|f'] eqn:El; [lia|]. rewrite wrap_skip_blank by (apply word_nonblank; exact Hy).
      apply wrap_words; [simpl in Lr; lia|exact Hy|exact Fr']. }
  cbn [wrap_lines]. rewrite E0. cbn [negb andb]. rewrite <- E0. rewrite Nat.sub_0_r.
  unfold cs at 1. rewrite take_fit_app by lia. rewrite app_nil_r. cbn [plus].
  destruct (take_pairs ws w (total pre) (rev pre)) as [g [r [Ew [T|[y [r' [Er T]]]]]]]; rewrite T; cbv iota beta.
  - destruct (pairs_last init c' g) as [pre' [z [Ez Hz]]].
    assert (Erev : (rev (pairs g) ++ rev pre)%list = z :: rev pre').
    { rewrite <- rev_app_distr. unfold pre. rewrite <- app_assoc. cbn [app]. rewrite Ez, rev_app_distr. reflexivity. }
    assert (Bz : is_blank z = false).
    { destruct Hz as [->|Hz]; [exact Bc'|]. apply word_nonblank. rewrite Forall_forall in F. apply F.
      rewrite Ew, in_app_iff. left. exact Hz. }
    rewrite Erev, Bz. rewrite <- Erev. rewrite <- rev_app_distr, rev_involutive, concat_app_s, concat_pairs, Cb.
    destruct (A r) as [groups [Eg [Cg Ng]]].
    + rewrite Ew, app_length. lia.
    + rewrite Ew in F. apply Forall_app in F. exact (proj2 F).
    + exists g, groups. split; [rewrite Eg; reflexivity|]. split; [rewrite Cg; symmetry; exact Ew|exact Ng].
  - change (is_blank (s1 sp)) with true. cbv iota.
    destruct (pairs_last init c' g) as [pre' [z [Ez Hz]]].
    assert (Erev : (rev (pairs g) ++ rev pre)%list = z :: rev pre').
    { rewrite <- rev_app_distr. unfold pre. rewrite <- app_assoc. cbn [app]. rewrite Ez, rev_app_distr. reflexivity. }
    rewrite Erev. rewrite <- Erev. rewrite <- rev_app_distr, rev_involutive, concat_app_s, concat_pairs, Cb.
    assert (Fr : Forall word_ok (y :: r')) by (rewrite Ew, Er in F; apply Forall_app in F; exact (proj2 F)).
    inversion Fr as [|? ? Hy Fr']; subst.
    destruct (wrap_words w (key_width + 3) (List.length cs) y r') as [groups [Eg [Cg Ng]]];
      [rewrite Lcs, app_length; simpl; lia|exact Hy|exact Fr'|].
    exists g, groups. split; [rewrite Eg; reflexivity|]. split; [rewrite Cg; reflexivity|exact Ng].
Qed.

(* ================================================================== wrapped lines contain no line break *)
Lemma chunks_aux_no_nl s : forall cur b, no_nl cur -> no_nl s -> Forall no_nl (chunks_aux cur b s).
Proof.
  induction s as [|a r IH]; intros cur b Hc Hs; simpl.
  - destruct cur; [constructor|repeat constructor; exact Hc].
  - unfold no_nl, has_char in Hs. cbn [sany] in Hs. apply orb_false_iff in Hs. destruct Hs as [Ha Hr].
    assert (N1 : no_nl (s1 a)) by (unfold no_nl, has_char, s1; cbn [sany]; rewrite Ha; reflexivity).
    destruct cur as [|c0 cr]; [apply IH; assumption|].
    destruct (Bool.eqb (Ascii.eqb a sp) b).
    + apply IH; [apply no_nl_app; assumption|exact Hr].
    + constructor; [exact Hc|apply IH; assumption].
Qed.

Lemma take_fit_forall (P : string -> Prop) cs : forall avail n acc,
  Forall P cs -> Forall P acc ->
  Forall P (fst (take_fit avail n cs acc)) /\ Forall P (snd (take_fit avail n cs acc)).
Proof.
  induction cs as [|c r IH]; intros avail n acc Fc Fa; [split; [exact Fa|constructor]|].
  inversion Fc; subst. cbn [take_fit]. destruct (Nat.leb (n + String.length c) avail).
  - apply IH; [assumption|constructor; assumption].
  - split; [exact Fa|exact Fc].
Qed.

Lemma concat_no_nl l : Forall no_nl l -> no_nl (String.concat "" l).
Proof.
  induction l as [|x r IH]; intros F; [reflexivity|]. inversion F; subst. rewrite concat_cons_s.
  apply no_nl_app; [assumption|apply IH; assumption].
Qed.

Lemma wrap_no_nl f : forall w h b cs, Forall no_nl cs -> Forall no_nl (wrap_lines f w h b cs).
Proof.
  induction f as [|f IH]; intros w h b cs F; [constructor|]. cbn [wrap_lines].
  destruct cs as [|c0 r0]; [constructor|]. inversion F as [|? ? F0 Fr0]; subst.
  set (cs1 := if (negb b && is_blank c0)%bool then r0 else c0 :: r0).
  assert (F1 : Forall no_nl cs1) by (unfold cs1; destruct (negb b && is_blank c0)%bool; assumption).
  destruct cs1 as [|d1 t1] eqn:E1; [constructor|].
  pose proof (take_fit_forall no_nl (d1 :: t1) (w - (if b then 0 else h)) 0 [] F1 (Forall_nil _)) as [Fa Fr].
  destruct (take_fit (w - (if b then 0 else h)) 0 (d1 :: t1) []) as [acc rest]. cbn [fst snd] in Fa, Fr.
  assert (G : forall acc2 rest2, Forall no_nl acc2 -> Forall no_nl rest2 ->
              Forall no_nl (match match acc2 with c :: r => if is_blank c then r else acc2 | [] => [] end with
                            | [] => wrap_lines f w h false rest2
                            | _ => (spaces (if b then 0 else h) ++
                                    String.concat "" (rev match acc2 with c :: r => if is_blank c then r else acc2 | [] => [] end))
                                   :: wrap_lines f w h false rest2
                            end)).
  { intros acc2 rest2 F2 Fr2.
    assert (F3 : Forall no_nl (match acc2 with c :: r => if is_blank c then r else acc2 | [] => [] end)).
    { destruct acc2 as [|c r]; [constructor|]. inversion F2; subst. destruct (is_blank c); assumption. }
    destruct (match acc2 with c :: r => if is_blank c then r else acc2 | [] => [] end) as [|y t] eqn:E3.
    - apply IH. exact Fr2.
    - constructor; [|apply IH; exact Fr2]. apply no_nl_app; [apply no_nl_spaces|].
      apply concat_no_nl. apply Forall_rev. exact F3. }
  destruct acc as [|a0 at0].
  - destruct rest as [|c r].
    + apply (G [] []); constructor.
    + inversion Fr; subst. apply (G [c] r); [repeat constructor; assumption|assumption].
  - apply (G (a0 :: at0) rest); assumption.
Qed.

Lemma chunks_no_nl text : no_nl text -> Forall no_nl (chunks text).
Proof. intros H. unfold chunks. apply chunks_aux_no_nl; [reflexivity|exact H]. Qed.

Lemma wlines_no_nl w text : no_nl text -> Forall no_nl (wlines w text).
Proof. intros H. unfold wlines. apply wrap_no_nl. apply chunks_no_nl. exact H. Qed.

(* a text that fill returns unchanged is one physical line *)
Lemma wlines_single w text line :
  no_nl text -> no_nl line -> line <> EmptyString -> fill w (key_width + 3) text = line -> wlines w text = [line].
Proof.
  intros Nt Nl Ne Hf. rewrite fill_wlines in Hf.
  destruct (wlines w text) as [|l0 lr] eqn:E; [simpl in Hf; subst; contradiction|].
  pose proof (wlines_no_nl w text Nt) as F. rewrite E in F.
  assert (S1 : split_on nl (join (s1 nl) (l0 :: lr)) = l0 :: lr) by (apply split_join; [discriminate|exact F]).
  rewrite Hf in S1. unfold split_on in S1. rewrite split_where_none in S1 by exact Nl. symmetry. exact S1.
Qed.

(* ================================================================== the reader over an option written on several lines *)
Definition tight (c : string) : Prop :=
  c <> EmptyString /\ lstrip c = c /\ rstrip c = c /\ is_comment c = false /\ no_nl c.

Lemma length_spaces n : String.length (spaces n) = n.
Proof. induction n; simpl; [reflexivity|]. rewrite IHn. reflexivity. Qed.

Lemma lstrip_spaces n c : lstrip (spaces n ++ c) = lstrip c.
Proof. induction n; [reflexivity|exact IHn]. Qed.

Lemma read_cont (cs : bool) st sn on c :
  tight c -> r_sect st = Some sn -> r_opt st = Some on -> r_indent st = 0 ->
  read_line cs (Ok st) (spaces (key_width + 3) ++ c) =
  Ok (RState (add_value_line (r_done st) sn on c) (Some sn) (Some on) 0).
Proof.
  intros [Ne [Hl [Hr [Hc _]]]] Hs Ho Hi.
  assert (Estrip : strip (spaces (key_width + 3) ++ c) = c).
  { unfold strip. rewrite lstrip_spaces, Hl. exact Hr. }
  assert (Eind : indent_of (spaces (key_width + 3) ++ c) = key_width + 3).
  { unfold indent_of. rewrite lstrip_spaces, Hl, length_app_s, length_spaces. lia. }
  unfold read_line. cbv zeta. rewrite Estrip, Hc. cbn [andb]. destruct c as [|a r]; [contradiction|].
  rewrite Eind, Hs, Ho, Hi. reflexivity.
Qed.

Lemma add_line_explicit done sn opts k vl c :
  ~ In k (map fst opts) ->
  add_value_line (sset done sn (opts ++ [(k, Some vl)])%list) sn k c = sset done sn (opts ++ [(k, Some (vl ++ [c])%list)])%list.
Proof.
  intros N. unfold add_value_line, sset, sget.
  rewrite (aget_aset_same _ _ _ string_eqb_spec).
  rewrite (aget_last _ _ _ string_eqb_spec opts k (Some vl) N).
  rewrite (aset_last _ _ _ string_eqb_spec opts k (Some vl) (Some (vl ++ [c])%list) N).
  apply (aset_aset _ string_eqb_spec).
Qed.

Definition st_of (done : parsed) (sn : string) (opts : list (string * option (list string))) (k : string)
           (vl : list string) : rstate :=
  RState (sset done sn (opts ++ [(k, Some vl)])%list) (Some sn) (Some k) 0.

Lemma read_conts cs done sn opts k : ~ In k (map fst opts) -> forall cl vl,
  Forall tight cl ->
  fold_left (read_line cs) (map (fun c => spaces (key_width + 3) ++ c) cl) (Ok (st_of done sn opts k vl)) =
  Ok (st_of done sn opts k (vl ++ cl)%list).
Proof.
  intros N. induction cl as [|c r IH]; intros vl F; [rewrite app_nil_r; reflexivity|].
  inversion F; subst. cbn [map fold_left].
  rewrite (read_cont cs (st_of done sn opts k vl) sn k c H1 eq_refl eq_refl eq_refl).
  cbn [st_of r_done]. rewrite (add_line_explicit done sn opts k vl c N).
  change (RState (sset done sn (opts ++ [(k, Some (vl ++ [c])%list)])%list) (Some sn) (Some k) 0)
    with (st_of done sn opts k (vl ++ [c])%list).
  rewrite IH by assumption. rewrite <- app_assoc. reflexivity.
Qed.

(* ---- words joined by single blanks *)
Lemma rstrip_nosp y : nosp y = true -> rstrip y = y.
Proof.
  induction y as [|a r IH]; [reflexivity|]. unfold nosp. cbn [sall]. intros H. apply andb_true_iff in H.
  destruct H as [Ha Hr]. rewrite rstrip_cons, (IH Hr). apply negb_true_iff in Ha. rewrite Ha. destruct r; reflexivity.
Qed.

Lemma nosp_no_nl y : nosp y = true -> no_nl y.
Proof.
  unfold nosp, no_nl, has_char. induction y as [|a r IH]; [reflexivity|]. cbn [sall sany]. intros H.
  apply andb_true_iff in H. destruct H as [Ha Hr]. rewrite (IH Hr), orb_false_r.
  destruct (Ascii.eqb nl a) eqn:E; [|reflexivity]. apply Ascii.eqb_eq in E. subst a. discriminate.
Qed.

Lemma join_last_word g : g <> [] -> exists pre y, join (s1 sp) g = pre ++ y /\ In y g.
Proof.
  induction g as [|x r IH]; [contradiction|]. intros _. destruct r as [|z r'].
  - exists EmptyString, x. split; [reflexivity|left; reflexivity].
  - destruct (IH ltac:(discriminate)) as [pre [y [E Hy]]]. exists (x ++ s1 sp ++ pre), y. split.
    + rewrite join_cons_s by discriminate. rewrite E, !app_assoc_s. reflexivity.
    + right. exact Hy.
Qed.

Lemma words_no_nl g : Forall word_ok g -> no_nl (join (s1 sp) g).
Proof.
  induction g as [|x r IH]; intros F; [reflexivity|]. inversion F as [|? ? Hx Fr]; subst.
  destruct r as [|z r']; [apply nosp_no_nl; exact (proj1 (proj2 Hx))|].
  rewrite join_cons_s by discriminate. apply no_nl_app; [apply nosp_no_nl; exact (proj1 (proj2 Hx))|].
  apply no_nl_app; [reflexivity|apply IH; exact Fr].
Qed.

Lemma tight_words g : g <> [] -> Forall word_ok g -> tight (join (s1 sp) g).
Proof.
  intros Ne F. destruct g as [|x r]; [contradiction|]. inversion F as [|? ? Hx Fr]; subst.
  destruct Hx as [Nx [Sx Cx]]. destruct x as [|a x']; [contradiction|].
  assert (Ej : exists t, join (s1 sp) (String a x' :: r) = String a t).
  { destruct r; [exists x'; reflexivity|]. rewrite join_cons_s by discriminate. eexists. reflexivity. }
  destruct Ej as [t Ej].
  pose proof Sx as Sx'. unfold nosp in Sx'. cbn [sall] in Sx'. apply andb_true_iff in Sx'. destruct Sx' as [Sa _].
  apply negb_true_iff in Sa.
  split; [rewrite Ej; discriminate|]. split; [rewrite Ej; apply lstrip_nonspace; exact Sa|]. split; [|split].
  - destruct (join_last_word (String a x' :: r) ltac:(discriminate)) as [pre [y [E Hy]]]. rewrite E.
    rewrite Forall_forall in F. destruct (F y Hy) as [Ny [Sy _]]. apply rstrip_app_keep; [apply rstrip_nosp; exact Sy|exact Ny].
  - rewrite Ej. destruct Cx as [C1 C2]. apply is_comment_other; assumption.
  - apply words_no_nl. exact F.
Qed.

Lemma smap_join f l :
  smap f (join (s1 nl) l) = join (s1 (f nl)) (map (smap f) l).
Proof.
  induction l as [|x r IH]; [reflexivity|]. destruct r as [|y r'].
  - reflexivity.
  - rewrite join_cons_s by discriminate. change (map (smap f) (x :: y :: r')) with (smap f x :: map (smap f) (y :: r')).
    rewrite (join_cons_s (s1 (f nl)) (smap f x)) by (simpl; discriminate). rewrite <- IH.
    assert (A : forall a b, smap f (a ++ b) = smap f a ++ smap f b).
    { induction a as [|c a' IHa]; intros b; simpl; [reflexivity|]. rewrite IHa. reflexivity. }
    rewrite !A. reflexivity.
Qed.

Lemma smap_nl_id c : no_nl c -> smap (fun a => if Ascii.eqb a nl then sp else a) c = c.
Proof.
  intros H. apply smap_id. unfold no_nl, has_char in H. induction c as [|a r IH]; [reflexivity|].
  cbn [sany] in H. apply orb_false_iff in H. destruct H as [Ha Hr]. cbn [sall].
  rewrite (Ascii.eqb_sym a nl), Ha, Ascii.eqb_refl. apply IH. exact Hr.
Qed.

Lemma join_last_gen sep (l : list string) x : exists pre, join sep (l ++ [x]) = pre ++ x.
Proof.
  induction l as [|y r IH]; [exists EmptyString; reflexivity|].
  destruct IH as [pre E]. exists (y ++ sep ++ pre).
  change ((y :: r) ++ [x])%list with (y :: (r ++ [x]))%list. rewrite join_cons_s by (destruct r; discriminate).
  rewrite E, !app_assoc_s. reflexivity.
Qed.

(* the value lines of a wrapped value are joined back to the value *)
Lemma joined_words g0 groups :
  Forall word_ok (g0 ++ List.concat groups) -> Forall (fun g => g <> []) groups -> (g0 ++ List.concat groups)%list <> [] ->
  joined_value (join (s1 sp) g0 :: map (join (s1 sp)) groups) = join (s1 sp) (g0 ++ List.concat groups).
Proof.
  intros F Ng Ne. apply Forall_app in F. destruct F as [F0 Fg].
  assert (Tg : Forall tight (map (join (s1 sp)) groups)).
  { rewrite Forall_forall. intros c Hc. apply in_map_iff in Hc. destruct Hc as [g [<- Hg]].
    rewrite Forall_forall in Ng. apply tight_words; [apply Ng; exact Hg|].
    rewrite Forall_forall in *. intros y Hy. apply Fg. apply in_concat. exists g. split; assumption. }
  set (ls := join (s1 sp) g0 :: map (join (s1 sp)) groups).
  assert (Nls : Forall no_nl ls).
  { unfold ls. constructor; [apply words_no_nl; exact F0|].
    rewrite Forall_forall in *. intros c Hc. exact (proj2 (proj2 (proj2 (proj2 (Tg c Hc))))). }
  (* the last line is tight: nothing is stripped on the right *)
  assert (Er : rstrip (join (s1 nl) ls) = join (s1 nl) ls).
  { destruct (exists_last (l := ls) ltac:(unfold ls; discriminate)) as [l' [c Ec]].
    destruct (join_last_gen (s1 nl) l' c) as [pre Ep]. rewrite Ec, Ep.
    assert (Tc : tight c).
    { unfold ls in Ec. destruct groups as [|gl gr].
      - cbn [map] in Ec. destruct l'; [|destruct l'; discriminate]. inversion Ec; subst.
        apply tight_words; [|exact F0]. intros ->. apply Ne. reflexivity.
      - assert (Hin : In c (map (join (s1 sp)) (gl :: gr))).
        { assert (Hc : In c (join (s1 sp) g0 :: map (join (s1 sp)) (gl :: gr))) by (rewrite Ec, in_app_iff; right; left; reflexivity).
          destruct Hc as [Hc|Hc]; [|exact Hc].
          (* c is the last element of a list with at least two elements, so it is in the tail *)
          destruct l' as [|l0 l'']; [discriminate|]. injection Ec as E1 E2.
          cbn [map] in E2 |- *. rewrite E2, in_app_iff. right. left. reflexivity. }
        rewrite Forall_forall in Tg. apply Tg. exact Hin. }
    destruct Tc as [Nc [_ [Rc _]]]. apply rstrip_app_keep; assumption. }
  unfold joined_value, joined_raw. fold ls. rewrite Er.
  rewrite (smap_join (fun a => if Ascii.eqb a nl then sp else a)). rewrite Ascii.eqb_refl.
  replace (map (smap (fun a => if Ascii.eqb a nl then sp else a)) ls) with ls.
  2:{ symmetry. rewrite <- (map_id ls) at 2. apply map_ext_in. intros c Hc. apply smap_nl_id.
      rewrite Forall_forall in Nls. apply Nls. exact Hc. }
  unfold ls. destruct g0 as [|x0 g0'].
  - (* the value starts on the first continuation line *)
    cbn [app] in *. destruct groups as [|gl gr]; [exfalso; apply Ne; reflexivity|].
    rewrite join_cons_s by discriminate. cbn [join append]. 
    change (String sp (join (s1 sp) (map (join (s1 sp)) (gl :: gr)))) with (s1 sp ++ join (s1 sp) (map (join (s1 sp)) (gl :: gr))).
    cbn [append lstrip s1]. change (is_space sp) with true. cbv iota.
    rewrite join_concat by exact Ng.
    assert (T : tight (join (s1 sp) (List.concat (gl :: gr)))) by (apply tight_words; [exact Ne|exact Fg]).
    exact (proj1 (proj2 T)).
  - change (join (s1 sp) (x0 :: g0') :: map (join (s1 sp)) groups) with (map (join (s1 sp)) ((x0 :: g0') :: groups)).
    rewrite join_concat by (constructor; [discriminate|exact Ng]). cbn [List.concat].
    assert (T : tight (join (s1 sp) ((x0 :: g0') ++ List.concat groups))).
    { apply tight_words; [discriminate|]. apply Forall_app. split; assumption. }
    exact (proj1 (proj2 T)).
Qed.
(* ================================================================== the sub-grammar and the lines of a view *)
Definition xform (cs : bool) (k : string) : string := if cs then k else lower k.
Definition mname (k mk : string) : string := k ++ ":" ++ mk.
Definition mkey_ok (mk : string) : Prop :=
  mk <> EmptyString /\ rstrip mk = mk /\ has_char eqsign mk = false /\ no_nl mk.

(* a value as written: empty, or without leading/trailing whitespace and line breaks *)
Definition wval_ok (x : string) : Prop := x = EmptyString \/ value_ok x.
(* the line of an option with a value: an empty value leaves `key<pad> =` *)
Definition wline (k x : string) : string :=
  match x with EmptyString => pad_right key_width k ++ " =" | _ => plain_line k x end.

(* a value as written at width w: it fits on the line of its key, or it is a sequence of words separated by
   single blanks (then it may be wrapped, if only `key<pad> =` fits on the first line) *)
Definition val_cond (w : nat) (k x : string) : Prop :=
  (wval_ok x /\ String.length (plain_line k x) <= w) \/
  (exists ws, ws <> [] /\ Forall word_ok ws /\ x = join (s1 sp) ws /\
              String.length (pad_right key_width k ++ " =") <= w).

Definition meta_item_ok (cs : bool) (w : nat) (k : string) (kv : string * option string) : Prop :=
  mkey_ok (fst kv) /\ xform cs (fst kv) = fst kv /\
  match snd kv with
  | Some x => val_cond w (mname k (fst kv)) x
  | None => String.length (mname k (fst kv)) <= w
  end.

Definition entry_ok (cs : bool) (w : nat) (ke : string * entry) : Prop :=
  fst ke = e_key (snd ke) /\ key_ok (e_key (snd ke)) /\ has_char colon (e_key (snd ke)) = false /\
  no_nl (e_key (snd ke)) /\ xform cs (e_key (snd ke)) = e_key (snd ke) /\
  val_cond w (e_key (snd ke)) (e_val (snd ke)) /\
  NoDup (map fst (e_meta (snd ke))) /\ Forall (meta_item_ok cs w (e_key (snd ke))) (e_meta (snd ke)).

(* the options an entry is written as: the entry itself, then one option key:meta per metadata item *)
Definition entry_opts (ke : string * entry) : list (string * option string) :=
  (e_key (snd ke), Some (e_val (snd ke))) ::
  map (fun kv => (mname (e_key (snd ke)) (fst kv), snd kv)) (e_meta (snd ke)).
Definition exp_opts (s : sect) : list (string * option string) := flat_map entry_opts s.
Definition exp_norm (v : sections) := map (fun ns => (fst ns, exp_opts (snd ns))) v.

Definition section_ok (cs : bool) (w : nat) (ns : string * sect) : Prop :=
  sn_ok (fst ns) /\ snd ns <> [] /\ NoDup (map fst (snd ns)) /\ Forall (entry_ok cs w) (snd ns).
Definition view_ok (cs : bool) (w : nat) (v : sections) : Prop :=
  NoDup (map fst v) /\ Forall (section_ok cs w) v.

Definition opt_line (o : string * option string) : string :=
  match snd o with Some x => wline (fst o) x | None => fst o end.
(* the text handed to textwrap for an option, and the physical lines it becomes *)
Definition opt_text (o : string * option string) : string :=
  match snd o with Some x => pad_right key_width (fst o) ++ " = " ++ x | None => fst o end.
Definition opt_phys (w : nat) (o : string * option string) : list string := wlines w (opt_text o).
Definition entry_lines_of (w : nat) (ke : string * entry) : list string :=
  (flat_map (opt_phys w) (entry_opts ke) ++ match e_meta (snd ke) with [] => [] | _ => [EmptyString] end)%list.
Definition sect_lines (w : nat) (ns : string * sect) : list string :=
  ("[" ++ fst ns ++ "]") :: flat_map (entry_lines_of w) (snd ns).
Fixpoint tail_lines (w : nat) (v : sections) : list string :=
  match v with
  | [] => [EmptyString]
  | ns :: r => (EmptyString :: EmptyString :: sect_lines w ns ++ tail_lines w r)%list
  end.

(* ---- one option line *)
Definition opt1_ok (cs : bool) (o : string * option string) : Prop :=
  key_ok (fst o) /\ xform cs (fst o) = fst o /\ match snd o with Some x => wval_ok x | None => True end.
Definition opt_ok (cs : bool) (w : nat) (o : string * option string) : Prop :=
  key_ok (fst o) /\ xform cs (fst o) = fst o /\ no_nl (fst o) /\
  match snd o with Some x => val_cond w (fst o) x | None => String.length (fst o) <= w end.

Lemma partition_nochar c s : has_char c s = false -> partition_on c s = (s, false, EmptyString).
Proof.
  unfold has_char. induction s as [|a r IH]; [reflexivity|]. cbn [sany partition_on]. intros H.
  apply orb_false_iff in H. destruct H as [Ha Hr]. rewrite Ascii.eqb_sym, Ha, (IH Hr). reflexivity.
Qed.

Lemma read_novalue_line (cs : bool) (st : rstate) (k sn : string) opts :
  key_ok k -> r_sect st = Some sn -> sget sn (r_done st) = Some opts ->
  let k' := if cs then k else lower k in
  smem k' opts = false ->
  read_line cs (Ok st) k = Ok (RState (sset (r_done st) sn (opts ++ [(k', None)])%list) (Some sn) (Some k') 0).
Proof.
  intros [Hk [Hkr Hke]] Hs Ho k' Hm. destruct k as [|a kr]; [contradiction|]. destruct Hk as [Ha1 [Ha2 [Ha3 Ha4]]].
  assert (Els : lstrip (String a kr) = String a kr) by (apply lstrip_nonspace; exact Ha4).
  assert (Estrip : strip (String a kr) = String a kr) by (unfold strip; rewrite Els; exact Hkr).
  assert (Ecom : is_comment (String a kr) = false) by (apply is_comment_other; assumption).
  assert (Eind : indent_of (String a kr) = 0) by (unfold indent_of; rewrite Els; apply Nat.sub_diag).
  unfold read_line. rewrite Estrip, Ecom. cbn [andb]. cbv iota. rewrite Eind, Hs.
  assert (Enew : new_line cs st (String a kr) 0 =
                 Ok (RState (sset (r_done st) sn (opts ++ [(k', None)])%list) (Some sn) (Some k') 0)).
  { unfold new_line. rewrite header_of_other by assumption. rewrite Hs.
    rewrite (partition_nochar eqsign (String a kr) Hke). rewrite Hkr. rewrite Ho. fold k'. rewrite Hm. reflexivity. }
  destruct (r_opt st); [simpl; exact Enew|exact Enew].
Qed.

Lemma read_empty_line (cs : bool) (st : rstate) (k sn : string) opts :
  key_ok k -> r_sect st = Some sn -> sget sn (r_done st) = Some opts ->
  let k' := if cs then k else lower k in
  smem k' opts = false ->
  read_line cs (Ok st) (pad_right key_width k ++ " =") =
  Ok (RState (sset (r_done st) sn (opts ++ [(k', Some [EmptyString])])%list) (Some sn) (Some k') 0).
Proof.
  intros [Hk [Hkr Hke]] Hs Ho k' Hm. destruct k as [|a kr]; [contradiction|]. destruct Hk as [Ha1 [Ha2 [Ha3 Ha4]]].
  set (line := pad_right key_width (String a kr) ++ " =").
  assert (Eline : line = String a (kr ++ spaces (key_width - String.length (String a kr)) ++ " =")).
  { unfold line, pad_right. simpl. rewrite !app_assoc_s. reflexivity. }
  assert (Els : lstrip line = line) by (rewrite Eline; apply lstrip_nonspace; exact Ha4).
  assert (Estrip : strip line = line).
  { unfold strip. rewrite Els. unfold line.
    replace (pad_right key_width (String a kr) ++ " =") with ((pad_right key_width (String a kr) ++ " ") ++ "=")
      by (rewrite app_assoc_s; reflexivity).
    apply rstrip_app_keep; [reflexivity|discriminate]. }
  assert (Ecom : is_comment line = false) by (rewrite Eline; apply is_comment_other; assumption).
  assert (Eind : indent_of line = 0) by (unfold indent_of; rewrite Els; apply Nat.sub_diag).
  unfold read_line. rewrite Estrip, Ecom. cbn [andb]. rewrite Eline at 1. cbv iota. try rewrite <- Eline. rewrite Eind, Hs.
  assert (Enew : new_line cs st line 0 =
                 Ok (RState (sset (r_done st) sn (opts ++ [(k', Some [EmptyString])])%list) (Some sn) (Some k') 0)).
  { unfold new_line. rewrite Eline at 1. rewrite header_of_other by assumption. rewrite Hs.
    assert (Epart : partition_on eqsign line = (pad_right key_width (String a kr) ++ " ", true, EmptyString)).
    { unfold line.
      replace (pad_right key_width (String a kr) ++ " =")
        with ((pad_right key_width (String a kr) ++ " ") ++ String eqsign EmptyString) by (rewrite app_assoc_s; reflexivity).
      apply partition_app_nochar. unfold has_char, pad_right. rewrite !any_app.
      unfold has_char in Hke. rewrite Hke. rewrite any_spaces by reflexivity. reflexivity. }
    rewrite Epart.
    assert (Ers : rstrip (pad_right key_width (String a kr) ++ " ") = String a kr).
    { unfold pad_right. rewrite app_assoc_s. rewrite rstrip_app_space; [exact Hkr|].
      rewrite sall_app, sall_spaces. reflexivity. }
    rewrite Ers. rewrite Ho. fold k'. rewrite Hm. reflexivity. }
  destruct (r_opt st); [simpl; exact Enew|exact Enew].
Qed.

Lemma read_opt (cs : bool) st Nd sn no (o : string * option string) :
  rinv st Nd sn no -> opt1_ok cs o -> smem (fst o) no = false ->
  exists st', read_line cs (Ok st) (opt_line o) = Ok st' /\ rinv st' Nd sn (no ++ [o]).
Proof.
  intros I [Hk [Hx Hv]] Hm. destruct o as [k [v|]]; simpl in *.
  - unfold opt_line. simpl. destruct Hv as [->|Hv].
    + destruct (rinv_sget _ _ _ _ I) as [opts [Eo En]]. destruct I as [N [D S]].
      pose proof (read_empty_line cs st k sn opts Hk S Eo) as R. cbv zeta in R. unfold xform in Hx. rewrite Hx in R.
      rewrite <- En, smem_norm in Hm. specialize (R Hm).
      eexists. split; [exact R|]. split; [|split; [exact D|reflexivity]].
      cbn [r_done]. unfold sset. rewrite norm_parsed_aset, N.
      rewrite aset_last by (exact string_eqb_spec || exact D).
      unfold norm_sect at 1. rewrite map_app. cbn [map fst snd].
      fold (norm_sect opts). rewrite En. reflexivity.
    + assert (Ew : wline k v = plain_line k v) by (destruct Hv as [Vn _]; destruct v; [contradiction|reflexivity]).
      rewrite Ew. apply read_entry; assumption.
  - destruct (rinv_sget _ _ _ _ I) as [opts [Eo En]]. destruct I as [N [D S]].
    pose proof (read_novalue_line cs st k sn opts Hk S Eo) as R. cbv zeta in R. unfold xform in Hx. rewrite Hx in R.
    rewrite <- En, smem_norm in Hm. specialize (R Hm).
    eexists. split; [exact R|]. split; [|split; [exact D|reflexivity]].
    cbn [r_done]. unfold sset. rewrite norm_parsed_aset, N.
    rewrite aset_last by (exact string_eqb_spec || exact D).
    unfold norm_sect at 1. rewrite map_app. cbn [map fst snd opt_value option_map].
    fold (norm_sect opts). rewrite En. reflexivity.
Qed.

Lemma ends_nonblank_app a v : v <> EmptyString -> ends_nonblank (a ++ v) = ends_nonblank v.
Proof.
  intros N. induction a as [|x r IH]; [reflexivity|].
  change (String x r ++ v) with (String x (r ++ v)). cbn [ends_nonblank].
  destruct (r ++ v) eqn:E; [destruct r; [contradiction|discriminate]|]. exact IH.
Qed.

Lemma rstrip_ends v : rstrip v = v -> v <> EmptyString -> ends_nonblank v = true.
Proof.
  induction v as [|a r IH]; [intros _ N; contradiction|]. intros H _.
  destruct r as [|b r'].
  - simpl in H. cbn [ends_nonblank]. destruct (is_space a) eqn:Sa; [discriminate|].
    destruct (Ascii.eqb sp a) eqn:E; [|reflexivity]. apply Ascii.eqb_eq in E. subst a. cbv in Sa. discriminate.
  - cbn [ends_nonblank]. apply IH; [|discriminate].
    rewrite rstrip_cons in H. destruct (rstrip (String b r')) eqn:E.
    + destruct (is_space a); unfold s1 in H; discriminate.
    + inversion H. reflexivity.
Qed.

Lemma ends_plain k x : value_ok x -> ends_nonblank (plain_line k x) = true.
Proof.
  intros [Vn [_ [Vr _]]]. unfold plain_line. rewrite ends_nonblank_app by (simpl; discriminate).
  rewrite (ends_nonblank_app " = ") by exact Vn. apply rstrip_ends; assumption.
Qed.

Lemma fill_wline w k x :
  key_ok k -> wval_ok x -> String.length (plain_line k x) <= w ->
  fill w (key_width + 3) (pad_right key_width k ++ " = " ++ x) = wline k x.
Proof.
  intros Hk [->|Hv] L.
  - change (wline k "") with (pad_right key_width k ++ " =").
    change (pad_right key_width k ++ " = " ++ "") with (pad_right key_width k ++ " = ").
    replace (pad_right key_width k ++ " = ") with ((pad_right key_width k ++ " =") ++ spaces 1)
      by (rewrite app_assoc_s; reflexivity).
    apply fill_fits_trailing.
    + rewrite ends_nonblank_app by discriminate. reflexivity.
    + unfold plain_line in L. rewrite app_assoc_s. exact L.
  - assert (Ew : wline k x = plain_line k x) by (destruct Hv as [Vn _]; destruct x; [contradiction|reflexivity]).
    rewrite Ew. apply fill_fits; [apply ends_plain; exact Hv|exact L].
Qed.

Lemma no_nl_plain k x : no_nl k -> no_nl x -> no_nl (plain_line k x).
Proof.
  intros Hk Hx. unfold plain_line, pad_right. repeat apply no_nl_app; try assumption; try reflexivity. apply no_nl_spaces.
Qed.

Lemma no_nl_wline k x : no_nl k -> no_nl x -> no_nl (wline k x).
Proof.
  intros Hk Hx. destruct x; [|apply no_nl_plain; assumption].
  unfold wline, pad_right. repeat apply no_nl_app; try assumption; try reflexivity. apply no_nl_spaces.
Qed.

Lemma wval_no_nl x : wval_ok x -> no_nl x.
Proof. intros [->|[_ [_ [_ H]]]]; [reflexivity|exact H]. Qed.


Lemma smem_false_notin {V} k (l : list (string * V)) : smem k l = false -> ~ In k (map fst l).
Proof.
  unfold smem, amem. intros H. apply (aget_none_notin _ _ _ string_eqb_spec). destruct (aget String.eqb k l); [discriminate|reflexivity].
Qed.

Lemma tailtext_join ws : ws <> [] -> tailtext ws = s1 sp ++ join (s1 sp) ws.
Proof. destruct ws as [|x r]; [contradiction|]. intros _. cbn [tailtext]. rewrite join_tail. reflexivity. Qed.

Lemma value_ok_tight c : tight c -> value_ok c.
Proof. intros [N [L [R [_ Nn]]]]. repeat split; assumption. Qed.

(* an option written on a first line `key<pad> = words` and continuation lines `<33 blanks>words` *)
Lemma read_words (cs : bool) st Nd sn no (k : string) ws g0 groups :
  rinv st Nd sn no -> key_ok k -> xform cs k = k -> smem k no = false ->
  Forall word_ok ws -> ws <> [] -> (g0 ++ List.concat groups)%list = ws -> Forall (fun g => g <> []) groups ->
  exists st', fold_left (read_line cs)
                (((pad_right key_width k ++ " =") ++ tailtext g0) :: map (line_of (key_width + 3)) groups) (Ok st) = Ok st' /\
              rinv st' Nd sn (no ++ [(k, Some (join (s1 sp) ws))]).
Proof.
  intros I Hk Hx Hm Fw Nw Ew Ng. destruct (rinv_sget _ _ _ _ I) as [opts [Eo En]]. destruct I as [N [D S]].
  rewrite <- En, smem_norm in Hm. pose proof (smem_false_notin _ _ Hm) as Nk.
  unfold xform in Hx.
  assert (F0 : Forall word_ok g0) by (rewrite <- Ew in Fw; apply Forall_app in Fw; exact (proj1 Fw)).
  (* the first line *)
  assert (R0 : read_line cs (Ok st) ((pad_right key_width k ++ " =") ++ tailtext g0) =
               Ok (st_of (r_done st) sn opts k [join (s1 sp) g0])).
  { destruct g0 as [|x g'].
    - cbn [tailtext join]. rewrite app_nil_r_s.
      pose proof (read_empty_line cs st k sn opts Hk S Eo) as R. cbv zeta in R. rewrite Hx in R. exact (R Hm).
    - assert (T : tight (join (s1 sp) (x :: g'))) by (apply tight_words; [discriminate|exact F0]).
      rewrite tailtext_join by discriminate.
      replace ((pad_right key_width k ++ " =") ++ s1 sp ++ join (s1 sp) (x :: g')) with (plain_line k (join (s1 sp) (x :: g')))
        by (unfold plain_line; rewrite !app_assoc_s; reflexivity).
      pose proof (read_entry_line cs st k (join (s1 sp) (x :: g')) sn opts Hk (value_ok_tight _ T) S Eo) as R.
      cbv zeta in R. rewrite Hx in R. exact (R Hm). }
  assert (Tg : Forall tight (map (join (s1 sp)) groups)).
  { rewrite Forall_forall. intros c Hc. apply in_map_iff in Hc. destruct Hc as [g [<- Hg]].
    rewrite Forall_forall in Ng. apply tight_words; [apply Ng; exact Hg|].
    rewrite Forall_forall in *. intros y Hy. apply Fw. rewrite <- Ew, in_app_iff. right. apply in_concat. exists g. split; assumption. }
  eexists. split.
  - cbn [fold_left]. rewrite R0.
    replace (map (line_of (key_width + 3)) groups)
      with (map (fun c => spaces (key_width + 3) ++ c) (map (join (s1 sp)) groups)) by (rewrite map_map; reflexivity).
    apply (read_conts cs (r_done st) sn opts k Nk _ _ Tg).
  - split; [|split; [exact D|reflexivity]].
    cbn [st_of r_done]. unfold sset. rewrite norm_parsed_aset, N.
    rewrite aset_last by (exact string_eqb_spec || exact D).
    unfold norm_sect at 1. rewrite map_app. cbn [map fst snd opt_value option_map app].
    fold (norm_sect opts). rewrite En.
    rewrite joined_words; [rewrite Ew; reflexivity|rewrite Ew; exact Fw|exact Ng|rewrite Ew; exact Nw].
Qed.

Lemma val_no_nl w k x : val_cond w k x -> no_nl x.
Proof. intros [[H _]|[ws [_ [F [-> _]]]]]; [apply wval_no_nl; exact H|apply words_no_nl; exact F]. Qed.

Lemma opt_text_no_nl cs w o : opt_ok cs w o -> no_nl (opt_text o).
Proof.
  intros [_ [_ [Nk Hv]]]. unfold opt_text. destruct (snd o) as [x|]; [|exact Nk].
  unfold pad_right. repeat apply no_nl_app; try assumption; try reflexivity; [apply no_nl_spaces|eapply val_no_nl; exact Hv].
Qed.

Lemma key_ends k : key_ok k -> ends_nonblank k = true.
Proof. intros [Hk [Hr _]]. apply rstrip_ends; [exact Hr|]. destruct k; [contradiction|discriminate]. Qed.

Lemma wline_nonempty k x : key_ok k -> wline k x <> EmptyString.
Proof.
  intros [Hk _]. destruct k as [|a kr]; [contradiction|]. destruct x; unfold wline, plain_line, pad_right; simpl; discriminate.
Qed.

(* the physical lines of an option: one line if it fits, else the first line and continuation lines of words *)
Lemma phys_cases cs w o :
  opt_ok cs w o ->
  (opt_phys w o = [opt_line o] /\ opt1_ok cs o) \/
  (exists x ws g0 groups, snd o = Some x /\ x = join (s1 sp) ws /\ ws <> [] /\ Forall word_ok ws /\
     opt_phys w o = ((pad_right key_width (fst o) ++ " =") ++ tailtext g0) :: map (line_of (key_width + 3)) groups /\
     (g0 ++ List.concat groups)%list = ws /\ Forall (fun g => g <> []) groups).
Proof.
  intros O. pose proof (opt_text_no_nl cs w o O) as Nt. destruct O as [Hk [Hx [Nk Hv]]].
  unfold opt_phys, opt_text, opt_line in *. destruct (snd o) as [x|] eqn:Es.
  - destruct Hv as [[Hw L]|[ws [Nw [Fw [Ex Lp]]]]].
    + left. split; [|split; [exact Hk|split; [exact Hx|rewrite Es; exact Hw]]].
      apply wlines_single; [exact Nt| |apply wline_nonempty; exact Hk|apply fill_wline; assumption].
      apply no_nl_wline; [exact Nk|apply wval_no_nl; exact Hw].
    + right. subst x.
      destruct (wlines_words w (pad_right key_width (fst o) ++ " =") ws) as [g0 [groups [Ewl [Ec Ng]]]];
        [rewrite ends_nonblank_app by discriminate; reflexivity|exact Lp|exact Fw|].
      exists (join (s1 sp) ws), ws, g0, groups. repeat split; try assumption.
      rewrite <- Ewl. f_equal. rewrite tailtext_join by exact Nw. rewrite !app_assoc_s. reflexivity.
  - left. split; [|split; [exact Hk|split; [exact Hx|rewrite Es; exact I]]].
    apply wlines_single; [exact Nt|exact Nk|destruct Hk as [Hk _]; destruct (fst o); [contradiction|discriminate]|].
    apply fill_fits; [apply key_ends; exact Hk|exact Hv].
Qed.

Lemma opt_phys_nonempty cs w o : opt_ok cs w o -> opt_phys w o <> [].
Proof.
  intros O. destruct (phys_cases cs w o O) as [[E _]|[x [ws [g0 [groups [_ [_ [_ [_ [E _]]]]]]]]]]; rewrite E; discriminate.
Qed.

Lemma read_phys (cs : bool) w st Nd sn no (o : string * option string) :
  rinv st Nd sn no -> opt_ok cs w o -> smem (fst o) no = false ->
  exists st', fold_left (read_line cs) (opt_phys w o) (Ok st) = Ok st' /\ rinv st' Nd sn (no ++ [o]).
Proof.
  intros I O Hm. destruct (phys_cases cs w o O) as [[E O1]|[x [ws [g0 [groups [Es [Ex [Nw [Fw [E [Ec Ng]]]]]]]]]]].
  - rewrite E. cbn [fold_left]. apply read_opt; assumption.
  - rewrite E. destruct O as [Hk [Hx _]].
    destruct (read_words cs st Nd sn no (fst o) ws g0 groups I Hk Hx Hm Fw Nw Ec Ng) as [st' [R I']].
    exists st'. split; [exact R|]. destruct o as [k ov]. simpl in *. subst ov x. exact I'.
Qed.

Lemma smem_snoc {V} k (l : list (string * V)) k0 x :
  smem k (l ++ [(k0, x)]) = (smem k l || String.eqb k k0)%bool.
Proof.
  unfold smem, amem. rewrite aget_app_notin. destruct (aget String.eqb k l); [reflexivity|].
  destruct (String.eqb k k0); reflexivity.
Qed.

Lemma fold_read_app cs l1 l2 st : fold_left (read_line cs) (l1 ++ l2) st = fold_left (read_line cs) l2 (fold_left (read_line cs) l1 st).
Proof. apply fold_left_app. Qed.

Lemma read_opts cs w os : forall st Nd sn no,
  rinv st Nd sn no -> Forall (opt_ok cs w) os -> NoDup (map fst os) ->
  (forall k, In k (map fst os) -> smem k no = false) ->
  exists st', fold_left (read_line cs) (flat_map (opt_phys w) os) (Ok st) = Ok st' /\ rinv st' Nd sn (no ++ os).
Proof.
  induction os as [|o r IH]; intros st Nd sn no I F ND Hm.
  - exists st. split; [reflexivity|]. rewrite app_nil_r. exact I.
  - inversion F as [|? ? Fo Fr]; subst. inversion ND as [|? ? Nk NDr]; subst.
    destruct (read_phys cs w st Nd sn no o I Fo (Hm _ (or_introl eq_refl))) as [st1 [R1 I1]].
    destruct (IH st1 Nd sn (no ++ [o])%list I1 Fr NDr) as [st2 [R2 I2]].
    { intros k Hk. destruct o as [k0 x]. rewrite smem_snoc, (Hm k (or_intror Hk)). simpl.
      destruct (String.eqb k k0) eqn:Ek; [|reflexivity].
      apply String.eqb_eq in Ek. subst k. exfalso. apply Nk. exact Hk. }
    exists st2. split.
    + cbn [flat_map]. rewrite fold_read_app, R1. exact R2.
    + rewrite <- app_assoc in I2. exact I2.
Qed.

(* ---- the options of an entry are well-formed option lines *)
Lemma smap_app f a b : smap f (a ++ b) = smap f a ++ smap f b.
Proof. induction a as [|x r IH]; simpl; [reflexivity|]. rewrite IH. reflexivity. Qed.

Lemma mname_ok cs k mk : key_ok k -> xform cs k = k -> mkey_ok mk -> xform cs mk = mk ->
  key_ok (mname k mk) /\ xform cs (mname k mk) = mname k mk.
Proof.
  intros [Hk [Hkr Hke]] Hx [Mn [Mr [Me _]]] Hmx. split.
  - split; [|split].
    + destruct k as [|a kr]; [contradiction|]. exact Hk.
    + unfold mname. rewrite <- app_assoc_s. apply rstrip_app_keep; assumption.
    + unfold mname, has_char in *. rewrite !any_app, Hke, Me. reflexivity.
  - unfold xform in *. destruct cs; [reflexivity|]. unfold mname, lower in *. rewrite !smap_app, Hx, Hmx. reflexivity.
Qed.

Lemma entry_opts_ok cs w ke : entry_ok cs w ke -> Forall (opt_ok cs w) (entry_opts ke).
Proof.
  intros [_ [Hk [_ [Kn [Hx [Hv [_ Fm]]]]]]]. unfold entry_opts. constructor.
  - split; [exact Hk|split; [exact Hx|split; [exact Kn|exact Hv]]].
  - rewrite Forall_forall in *. intros o Ho. apply in_map_iff in Ho. destruct Ho as [kv [<- Hkv]].
    destruct (Fm kv Hkv) as [M1 [M2 M3]]. destruct (mname_ok cs _ _ Hk Hx M1 M2) as [A B].
    split; [exact A|split; [exact B|split]].
    + cbn [fst]. unfold mname. destruct M1 as [_ [_ [_ Mn]]]. repeat apply no_nl_app; try assumption; reflexivity.
    + cbn [fst snd]. destruct (snd kv); exact M3.
Qed.

Lemma nodup_app_disj {A} (a b : list A) : NoDup (a ++ b) -> forall x, In x a -> ~ In x b.
Proof.
  induction a as [|y r IH]; intros ND x Hx; [destruct Hx|]. simpl in ND. inversion ND; subst.
  destruct Hx as [->|Hx]; [intros H; apply H1; rewrite in_app_iff; right; exact H|apply IH; assumption].
Qed.

Lemma nodup_app_l {A} (a b : list A) : NoDup (a ++ b) -> NoDup a.
Proof.
  induction a as [|y r IH]; intros ND; [constructor|]. simpl in ND. inversion ND; subst. constructor.
  - intros H. apply H1. rewrite in_app_iff. left. exact H.
  - apply IH. exact H2.
Qed.
Lemma nodup_app_r {A} (a b : list A) : NoDup (a ++ b) -> NoDup b.
Proof. induction a as [|y r IH]; intros ND; [exact ND|]. simpl in ND. inversion ND; subst. apply IH. exact H2. Qed.

Lemma read_entries cs w es : forall st Nd sn no,
  rinv st Nd sn no -> Forall (entry_ok cs w) es -> NoDup (map fst (exp_opts es)) ->
  (forall k, In k (map fst (exp_opts es)) -> smem k no = false) ->
  exists st', fold_left (read_line cs) (flat_map (entry_lines_of w) es) (Ok st) = Ok st' /\ rinv st' Nd sn (no ++ exp_opts es).
Proof.
  induction es as [|ke r IH]; intros st Nd sn no I F ND Hm.
  - exists st. split; [reflexivity|]. simpl. rewrite app_nil_r. exact I.
  - inversion F as [|? ? Fe Fr]; subst.
    change (exp_opts (ke :: r)) with (entry_opts ke ++ exp_opts r)%list in *. rewrite map_app in ND, Hm.
    destruct (read_opts cs w (entry_opts ke) st Nd sn no I (entry_opts_ok cs w ke Fe) (nodup_app_l _ _ ND))
      as [st1 [R1 I1]].
    { intros k Hk. apply Hm. rewrite in_app_iff. left. exact Hk. }
    assert (B : exists st1', fold_left (read_line cs) (entry_lines_of w ke) (Ok st) = Ok st1' /\
                             rinv st1' Nd sn (no ++ entry_opts ke)).
    { unfold entry_lines_of. rewrite fold_read_app, R1. destruct (e_meta (snd ke)).
      - exists st1. split; [reflexivity|exact I1].
      - destruct (read_blank cs st1 _ _ _ I1) as [st1' [Rb Ib]]. exists st1'. split; [exact Rb|exact Ib]. }
    destruct B as [st1' [R1' I1']].
    destruct (IH st1' Nd sn (no ++ entry_opts ke)%list I1' Fr (nodup_app_r _ _ ND)) as [st2 [R2 I2]].
    { intros k Hk. unfold smem, amem. rewrite (proj2 (aget_none_notin _ _ _ string_eqb_spec _ k)); [reflexivity|].
      rewrite map_app, in_app_iff. intros [H|H].
      - assert (Hs : smem k no = false) by (apply Hm; rewrite in_app_iff; right; exact Hk).
        unfold smem, amem in Hs. apply (in_map_iff) in H. destruct H as [[k1 x1] [E1 H1]]. simpl in E1. subst k1.
        destruct (aget String.eqb k no) eqn:Eg; [discriminate|].
        apply (aget_none_notin _ _ _ string_eqb_spec) in Eg. apply Eg. apply (in_map fst) in H1. exact H1.
      - exact (nodup_app_disj _ _ ND k H Hk). }
    exists st2. split.
    + cbn [flat_map]. rewrite fold_read_app, R1'. exact R2.
    + rewrite <- app_assoc in I2. exact I2.
Qed.

(* the option names key / key:meta of a section are pairwise different *)
Lemma nodup_app_intro {A} (a b : list A) : NoDup a -> NoDup b -> (forall x, In x a -> ~ In x b) -> NoDup (a ++ b).
Proof.
  induction a as [|y r IH]; intros Na Nb D; [exact Nb|]. inversion Na; subst. simpl. constructor.
  - rewrite in_app_iff. intros [H|H]; [contradiction|]. exact (D y (or_introl eq_refl) H).
  - apply IH; [assumption|assumption|]. intros x Hx. apply D. right. exact Hx.
Qed.

Lemma prefix_colon' k name : has_char colon name = false -> prefix_b (k ++ ":") name = false.
Proof.
  revert name. induction k as [|x k' IH]; intros name H.
  - destruct name as [|a r]; [reflexivity|]. unfold has_char in H. cbn [sany] in H. apply orb_false_iff in H.
    cbn [append prefix_b]. change (Ascii.eqb ":" a) with (Ascii.eqb colon a). rewrite (proj1 H). reflexivity.
  - destruct name as [|a r]; [reflexivity|]. unfold has_char in H. cbn [sany] in H. apply orb_false_iff in H.
    change (String x k' ++ ":") with (String x (k' ++ ":")). cbn [prefix_b]. rewrite (IH r (proj2 H)). apply andb_false_r.
Qed.

Lemma prefix_app' a b : prefix_b a (a ++ b) = true.
Proof. induction a as [|x r IH]; [reflexivity|]. simpl. rewrite Ascii.eqb_refl, IH. reflexivity. Qed.

Lemma prefix_own' k x : prefix_b (k ++ ":") (mname k x) = true.
Proof. unfold mname. rewrite <- app_assoc_s. apply prefix_app'. Qed.

Lemma prefix_other' k : forall k' x,
  has_char colon k = false -> has_char colon k' = false -> k <> k' -> prefix_b (k ++ ":") (mname k' x) = false.
Proof.
  unfold mname, has_char. induction k as [|c kr IH]; intros k' x Hk Hk' N.
  - destruct k' as [|a r]; [contradiction|]. cbn [sany] in Hk'. apply orb_false_iff in Hk'.
    cbn [append prefix_b]. change (Ascii.eqb ":" a) with (Ascii.eqb colon a). rewrite (proj1 Hk'). reflexivity.
  - cbn [sany] in Hk. apply orb_false_iff in Hk. destruct Hk as [Hc Hkr].
    change (String c kr ++ ":") with (String c (kr ++ ":")).
    destruct k' as [|a r].
    + cbn [append prefix_b]. change (Ascii.eqb c ":") with (Ascii.eqb c colon). rewrite Ascii.eqb_sym, Hc. reflexivity.
    + cbn [sany] in Hk'. apply orb_false_iff in Hk'. destruct Hk' as [_ Hr].
      change (String a r ++ ":" ++ x) with (String a (r ++ ":" ++ x)). cbn [prefix_b].
      destruct (Ascii.eqb c a) eqn:E; [|reflexivity]. apply Ascii.eqb_eq in E. subst a.
      rewrite (IH r x Hkr Hr); [reflexivity|]. intros ->. apply N. reflexivity.
Qed.

Lemma mname_inj k a b : mname k a = mname k b -> a = b.
Proof. unfold mname. induction k as [|c r IH]; simpl; intros H; [inversion H; reflexivity|]. inversion H. auto. Qed.

Lemma names_entry_opts ke :
  map fst (entry_opts ke) = e_key (snd ke) :: map (mname (e_key (snd ke))) (map fst (e_meta (snd ke))).
Proof. unfold entry_opts. cbn [map fst]. rewrite !map_map. reflexivity. Qed.

(* a name of entry_opts ke is recognised by the prefix test for ke's key, and only for that key *)
Lemma name_prefix cs w ke x k :
  entry_ok cs w ke -> In x (map fst (entry_opts ke)) -> has_char colon k = false ->
  (x = e_key (snd ke) /\ has_char colon x = false) \/
  (prefix_b (k ++ ":") x = String.eqb k (e_key (snd ke)) /\ has_char colon x = true).
Proof.
  intros [_ [_ [Kc _]]] H Hk. rewrite names_entry_opts in H. destruct H as [<-|H].
  - left. split; [reflexivity|exact Kc].
  - right. apply in_map_iff in H. destruct H as [mk [<- _]]. split.
    + destruct (String.eqb k (e_key (snd ke))) eqn:E.
      * apply String.eqb_eq in E. subst. apply prefix_own'.
      * apply prefix_other'; [exact Hk|exact Kc|]. intros ->. rewrite String.eqb_refl in E. discriminate.
    + unfold mname, has_char. rewrite !any_app. simpl. apply orb_true_r.
Qed.

Lemma entry_names_nodup cs w ke : entry_ok cs w ke -> NoDup (map fst (entry_opts ke)).
Proof.
  intros E. pose proof E as [_ [_ [Kc [_ [_ [_ [ND _]]]]]]]. rewrite names_entry_opts. constructor.
  - intros H. apply in_map_iff in H. destruct H as [mk [Em _]].
    assert (C : has_char colon (mname (e_key (snd ke)) mk) = true).
    { unfold mname, has_char. rewrite !any_app. simpl. apply orb_true_r. }
    rewrite Em, Kc in C. discriminate.
  - clear -ND. induction (map fst (e_meta (snd ke))) as [|a r IH]; [constructor|]. inversion ND; subst. simpl. constructor.
    + intros H. apply in_map_iff in H. destruct H as [b [Eb Hb]]. apply mname_inj in Eb. subst. contradiction.
    + apply IH. assumption.
Qed.

Lemma opt_names_nodup cs w s :
  NoDup (map fst s) -> Forall (entry_ok cs w) s -> NoDup (map fst (exp_opts s)).
Proof.
  induction s as [|ke r IH]; intros ND F; [constructor|]. inversion ND; subst. inversion F; subst.
  change (exp_opts (ke :: r)) with (entry_opts ke ++ exp_opts r)%list. rewrite map_app.
  apply nodup_app_intro; [eapply entry_names_nodup; eassumption|apply IH; assumption|].
  intros x Hx Hr. unfold exp_opts in Hr. rewrite flat_map_concat_map, concat_map, map_map in Hr.
  apply in_concat in Hr. destruct Hr as [l [Hl Hxl]]. apply in_map_iff in Hl. destruct Hl as [ke' [<- Hke']].
  rewrite Forall_forall in H4. pose proof (H4 ke' Hke') as E'. pose proof H3 as E.
  assert (Kc : has_char colon (e_key (snd ke)) = false) by (destruct E as [_ [_ [Kc _]]]; exact Kc).
  assert (Kc' : has_char colon (e_key (snd ke')) = false) by (destruct E' as [_ [_ [Kc' _]]]; exact Kc').
  assert (Nk : e_key (snd ke) <> e_key (snd ke')).
  { intros Ek. apply H1. destruct E as [E1 _]. destruct E' as [E1' _]. rewrite E1, Ek, <- E1'. apply in_map. exact Hke'. }
  destruct (name_prefix cs w ke x (e_key (snd ke)) E Hx Kc) as [[X1 X2]|[X1 X2]];
    destruct (name_prefix cs w ke' x (e_key (snd ke)) E' Hxl Kc) as [[Y1 Y2]|[Y1 Y2]].
  - apply Nk. rewrite <- X1, <- Y1. reflexivity.
  - rewrite X2 in Y2. discriminate.
  - rewrite X2 in Y2. discriminate.
  - rewrite X1, String.eqb_refl in Y1. symmetry in Y1. apply String.eqb_eq in Y1. contradiction.
Qed.

Lemma read_tail cs w r : forall st Nd sn no,
  rinv st Nd sn no -> Forall (section_ok cs w) r ->
  NoDup (map fst (Nd ++ [(sn, no)]) ++ map fst r) ->
  exists st', fold_left (read_line cs) (tail_lines w r) (Ok st) = Ok st' /\
              norm_parsed (r_done st') = ((Nd ++ [(sn, no)]) ++ exp_norm r)%list.
Proof.
  induction r as [|ns r IH]; intros st Nd sn no I F ND.
  - destruct (read_blank cs st Nd sn no I) as [st1 [R1 I1]]. exists st1. split; [simpl; exact R1|].
    simpl. rewrite app_nil_r. exact (proj1 I1).
  - inversion F as [|? ? Fs Fr]; subst. destruct Fs as [S1 [S2 [S3 S4]]].
    pose proof (opt_names_nodup cs w _ S3 S4) as S5.
    destruct (read_blank cs st Nd sn no I) as [st1 [R1 I1]].
    destruct (read_blank cs st1 Nd sn no I1) as [st2 [R2 I2]].
    assert (Hn : ~ In (fst ns) (map fst (Nd ++ [(sn, no)]))).
    { apply NoDup_remove_2 in ND. intros H. apply ND. rewrite in_app_iff. left. exact H. }
    destruct (read_header cs st2 Nd sn no (fst ns) I2 S1 Hn) as [st3 [R3 I3]].
    destruct (read_entries cs w (snd ns) st3 _ _ [] I3 S4 S5 (fun _ _ => eq_refl)) as [st4 [R4 I4]].
    simpl in I4.
    destruct (IH st4 (Nd ++ [(sn, no)])%list (fst ns) (exp_opts (snd ns)) I4 Fr) as [st5 [R5 N5]].
    { rewrite (map_app fst (Nd ++ [(sn, no)])%list). cbn [map fst]. rewrite <- app_assoc. exact ND. }
    exists st5. split.
    + cbn [tail_lines fold_left]. rewrite R1. cbn [fold_left]. rewrite R2.
      unfold sect_lines. rewrite <- app_comm_cons. cbn [fold_left]. rewrite R3.
      rewrite fold_read_app, R4. exact R5.
    + rewrite N5. cbn [exp_norm map]. rewrite <- app_assoc. reflexivity.
Qed.

Lemma read_view cs w ns r :
  view_ok cs w (ns :: r) ->
  exists st', fold_left (read_line cs) (sect_lines w ns ++ tail_lines w r) (Ok (RState [] None None 0)) = Ok st' /\
              norm_parsed (r_done st') = exp_norm (ns :: r).
Proof.
  intros [ND F]. inversion F as [|? ? Fs Fr]; subst. destruct Fs as [S1 [S2 [S3 S4]]].
  pose proof (opt_names_nodup cs w _ S3 S4) as S5.
  destruct (read_first_header cs (fst ns) S1) as [st1 [R1 I1]].
  destruct (read_entries cs w (snd ns) st1 _ _ [] I1 S4 S5 (fun _ _ => eq_refl)) as [st2 [R2 I2]].
  simpl in I2.
  destruct (read_tail cs w r st2 [] (fst ns) (exp_opts (snd ns)) I2 Fr ND) as [st3 [R3 N3]].
  exists st3. split.
  - unfold sect_lines. rewrite <- app_comm_cons. cbn [fold_left]. rewrite R1. rewrite fold_read_app, R2. exact R3.
  - exact N3.
Qed.

(* ================================================================== the written text, line by line *)
Lemma entry_str_lines cs w ke : entry_ok cs w ke -> entry_str w true (snd ke) = join (s1 nl) (entry_lines_of w ke).
Proof.
  intros E. pose proof (entry_opts_ok cs w ke E) as Fo.
  unfold entry_str, entry_lines, entry_lines_of. cbv zeta.
  set (blocks := (map (opt_phys w) (entry_opts ke) ++ match e_meta (snd ke) with [] => [] | _ => [[EmptyString]] end)%list).
  assert (E1 : (if (true && match e_meta (snd ke) with [] => false | _ => true end)%bool
                then List.app (fill w (key_width + 3) (pad_right key_width (e_key (snd ke)) ++ " = " ++ e_val (snd ke))
                               :: map (fun kv : string * option string =>
                                         match snd kv with
                                         | None => fill w (key_width + 3) (e_key (snd ke) ++ ":" ++ fst kv)
                                         | Some v => fill w (key_width + 3)
                                                       (pad_right key_width (e_key (snd ke) ++ ":" ++ fst kv) ++ " = " ++ v)
                                         end) (e_meta (snd ke))) [EmptyString]
                else [fill w (key_width + 3) (pad_right key_width (e_key (snd ke)) ++ " = " ++ e_val (snd ke))])
               = map (join (s1 nl)) blocks).
  { unfold blocks, entry_opts. cbv zeta. rewrite map_app. cbn [map]. rewrite !map_map.
    assert (Em : map (fun kv : string * option string =>
                        match snd kv with
                        | None => fill w (key_width + 3) (e_key (snd ke) ++ ":" ++ fst kv)
                        | Some v => fill w (key_width + 3) (pad_right key_width (e_key (snd ke) ++ ":" ++ fst kv) ++ " = " ++ v)
                        end) (e_meta (snd ke))
                 = map (fun x => join (s1 nl) (opt_phys w (mname (e_key (snd ke)) (fst x), snd x))) (e_meta (snd ke))).
    { apply map_ext. intros kv. unfold opt_phys, opt_text. cbn [fst snd].
      destruct (snd kv); rewrite fill_wlines; reflexivity. }
    assert (E0 : join (s1 nl) (opt_phys w (e_key (snd ke), Some (e_val (snd ke))))
                 = fill w (key_width + 3) (pad_right key_width (e_key (snd ke)) ++ " = " ++ e_val (snd ke))) by reflexivity.
    rewrite Em, E0. destruct (e_meta (snd ke)) as [|m0 mr]; reflexivity. }
  rewrite E1. rewrite join_concat.
  - unfold blocks. rewrite concat_app, <- flat_map_concat_map. destruct (e_meta (snd ke)); reflexivity.
  - unfold blocks. apply Forall_app. split.
    + rewrite Forall_forall in *. intros l Hl. apply in_map_iff in Hl. destruct Hl as [o [<- Ho]].
      apply (opt_phys_nonempty cs). apply Fo. exact Ho.
    + destruct (e_meta (snd ke)); repeat constructor; discriminate.
Qed.

Lemma entry_lines_nonempty cs w ke : entry_ok cs w ke -> entry_lines_of w ke <> [].
Proof.
  intros E. pose proof (entry_opts_ok cs w ke E) as Fo. unfold entry_lines_of, entry_opts in *. cbn [flat_map].
  inversion Fo as [|? ? F1 _]; subst. pose proof (opt_phys_nonempty cs w _ F1) as N.
  destruct (opt_phys w (e_key (snd ke), Some (e_val (snd ke)))); [contradiction|discriminate].
Qed.

Lemma section_str_lines cs w ns : section_ok cs w ns -> section_str w true ns = join (s1 nl) (sect_lines w ns).
Proof.
  intros [_ [Ne [_ F]]]. unfold section_str, sect_lines. destruct (snd ns) as [|ke r] eqn:E; [contradiction|].
  inversion F as [|? ? Fke Fr]; subst.
  rewrite join_cons_s.
  - replace (map (fun ke0 : string * entry => entry_str w true (snd ke0)) (ke :: r))
      with (map (join (s1 nl)) (map (entry_lines_of w) (ke :: r))).
    + rewrite join_concat.
      * rewrite <- flat_map_concat_map. rewrite !app_assoc_s. reflexivity.
      * rewrite Forall_forall. intros l Hl. apply in_map_iff in Hl. destruct Hl as [x [<- Hx]].
        apply (entry_lines_nonempty cs). rewrite Forall_forall in F. apply F. exact Hx.
    + rewrite map_map. apply map_ext_in. intros x Hx.
      rewrite (entry_str_lines cs w x); [reflexivity|]. rewrite Forall_forall in F. apply F. exact Hx.
  - cbn [flat_map]. pose proof (entry_lines_nonempty cs w ke Fke) as N.
    destruct (entry_lines_of w ke); [contradiction|discriminate].
Qed.

Fixpoint mid_lines (w : nat) (v : sections) : list string :=
  match v with
  | [] => []
  | ns :: r => (EmptyString :: EmptyString :: sect_lines w ns ++ mid_lines w r)%list
  end.

Lemma tail_mid w r : tail_lines w r = (mid_lines w r ++ [EmptyString])%list.
Proof. induction r as [|ns r IH]; [reflexivity|]. simpl. rewrite IH, <- app_assoc. reflexivity. Qed.

Definition sep3 : string := s1 nl ++ s1 nl ++ s1 nl.

Lemma join_sections w r : forall ns,
  join sep3 (map (fun x => join (s1 nl) (sect_lines w x)) (ns :: r)) = join (s1 nl) (sect_lines w ns ++ mid_lines w r).
Proof.
  induction r as [|ns2 r2 IH]; intros ns.
  - simpl. rewrite app_nil_r. reflexivity.
  - change (map (fun x => join (s1 nl) (sect_lines w x)) (ns :: ns2 :: r2))
      with (join (s1 nl) (sect_lines w ns) :: map (fun x => join (s1 nl) (sect_lines w x)) (ns2 :: r2)).
    rewrite join_cons_s by discriminate. rewrite IH.
    cbn [mid_lines]. rewrite (join_app_s (s1 nl) (sect_lines w ns)); [|unfold sect_lines; discriminate|discriminate].
    rewrite (join_cons_s (s1 nl) EmptyString) by discriminate.
    rewrite (join_cons_s (s1 nl) EmptyString) by (unfold sect_lines; discriminate).
    unfold sep3. rewrite !app_assoc_s. reflexivity.
Qed.

Lemma nonempty_sections cs w v :
  Forall (section_ok cs w) v ->
  filter nonempty (map (section_str w true) v) = map (fun x => join (s1 nl) (sect_lines w x)) v.
Proof.
  induction v as [|ns r IH]; intros F; [reflexivity|]. inversion F; subst.
  cbn [map filter]. rewrite (section_str_lines cs w ns H1), (IH H2).
  unfold sect_lines at 1. rewrite join_cons_s; [reflexivity|].
  destruct H1 as [_ [Ne [_ Fe]]]. destruct (snd ns) as [|ke0 r0]; [contradiction|]. cbn [flat_map].
  inversion Fe as [|? ? Fk _]; subst. pose proof (entry_lines_nonempty cs w ke0 Fk) as N.
  destruct (entry_lines_of w ke0); [contradiction|discriminate].
Qed.

Lemma as_str_lines cs w c ns r :
  c_view c = ns :: r -> view_ok cs w (ns :: r) ->
  as_str w true c = join (s1 nl) (sect_lines w ns ++ mid_lines w r).
Proof.
  intros E [_ F]. unfold as_str. rewrite E, (nonempty_sections cs w _ F). apply join_sections.
Qed.

Lemma entry_lines_no_nl cs w ke : entry_ok cs w ke -> Forall no_nl (entry_lines_of w ke).
Proof.
  intros E. pose proof (entry_opts_ok cs w ke E) as Fo. unfold entry_lines_of. apply Forall_app. split.
  - rewrite Forall_forall in *. intros l Hl. apply in_flat_map in Hl. destruct Hl as [o [Ho Hl]].
    pose proof (wlines_no_nl w (opt_text o) (opt_text_no_nl cs w o (Fo o Ho))) as G. rewrite Forall_forall in G. apply G. exact Hl.
  - destruct (e_meta (snd ke)); repeat constructor.
Qed.

Lemma sect_lines_no_nl cs w ns : section_ok cs w ns -> Forall no_nl (sect_lines w ns).
Proof.
  intros [[_ [_ [_ [_ Sn]]]] [_ [_ F]]]. unfold sect_lines. constructor.
  - apply (no_nl_app "["); [reflexivity|]. apply no_nl_app; [exact Sn|reflexivity].
  - rewrite Forall_forall in *. intros l Hl. apply in_flat_map in Hl. destruct Hl as [ke [Hke Hl]].
    pose proof (entry_lines_no_nl cs w ke (F ke Hke)) as G. rewrite Forall_forall in G. apply G. exact Hl.
Qed.

Lemma mid_lines_no_nl cs w r : Forall (section_ok cs w) r -> Forall no_nl (mid_lines w r).
Proof.
  induction r as [|ns r IH]; intros F; [constructor|]. inversion F; subst. cbn [mid_lines].
  constructor; [reflexivity|]. constructor; [reflexivity|]. apply Forall_app. split; [eapply sect_lines_no_nl; eassumption|auto].
Qed.

Lemma text_lines cs w c ns r :
  c_view c = ns :: r -> view_ok cs w (ns :: r) ->
  split_on nl (as_str w true c ++ s1 nl) = (sect_lines w ns ++ tail_lines w r)%list.
Proof.
  intros E V. rewrite (as_str_lines cs w c ns r E V). destruct V as [_ F]. inversion F; subst.
  rewrite tail_mid, app_assoc.
  replace (join (s1 nl) (sect_lines w ns ++ mid_lines w r) ++ s1 nl)
    with (join (s1 nl) ((sect_lines w ns ++ mid_lines w r) ++ [EmptyString])).
  - apply split_join.
    + unfold sect_lines. discriminate.
    + apply Forall_app. split; [|repeat constructor].
      apply Forall_app. split; [eapply sect_lines_no_nl; eassumption|eapply mid_lines_no_nl; eassumption].
  - rewrite join_app_s; [|unfold sect_lines; discriminate|discriminate]. cbn [join]. rewrite app_nil_r_s. reflexivity.
Qed.

(* ================================================================== building sections entry by entry *)
Lemma sget_last_s {V} (D : list (string * V)) k x : ~ In k (map fst D) -> sget k (D ++ [(k, x)]) = Some x.
Proof. intros N. unfold sget. apply aget_last; [exact string_eqb_spec|exact N]. Qed.

Lemma set_entry_last (D : sections) sn (s0 : sect) k e :
  ~ In sn (map fst D) -> ~ In k (map fst s0) ->
  set_entry (D ++ [(sn, s0)])%list sn k e = (D ++ [(sn, (s0 ++ [(k, e)])%list)])%list.
Proof.
  intros Nd Nk. unfold set_entry, ensure_section. unfold sections, sect in *.
  rewrite sget_last_s by exact Nd. rewrite sget_last_s by exact Nd.
  unfold sset. rewrite aset_last by (exact string_eqb_spec || exact Nd).
  rewrite (aset_new _ _ String.eqb s0 k e); [reflexivity|].
  apply (aget_none_notin _ _ _ string_eqb_spec). exact Nk.
Qed.

Lemma set_entry_new (D : sections) sn k e :
  ~ In sn (map fst D) -> set_entry D sn k e = (D ++ [(sn, [(k, e)])])%list.
Proof.
  intros Nd. unfold set_entry, ensure_section.
  assert (E : sget sn D = None) by (apply (aget_none_notin _ _ _ string_eqb_spec); exact Nd).
  unfold sections, sect in *. rewrite E. rewrite sget_last_s by exact Nd.
  unfold sset. rewrite aset_last by (exact string_eqb_spec || exact Nd). reflexivity.
Qed.

Lemma fold_set_entries (es : sect) : forall (D : sections) sn (s0 : sect),
  ~ In sn (map fst D) -> NoDup (map fst (s0 ++ es)%list) ->
  fold_left (fun v ke => set_entry v sn (fst ke) (snd ke)) es (D ++ [(sn, s0)])%list = (D ++ [(sn, (s0 ++ es)%list)])%list.
Proof.
  induction es as [|[k e] r IH]; intros D sn s0 Nd ND; simpl.
  - rewrite app_nil_r. reflexivity.
  - rewrite set_entry_last; [|exact Nd|].
    + rewrite IH; [|exact Nd|rewrite <- app_assoc; exact ND]. rewrite <- app_assoc. reflexivity.
    + rewrite map_app in ND. simpl in ND. apply NoDup_remove_2 in ND. intros H. apply ND. rewrite in_app_iff. left. exact H.
Qed.

Lemma merge_section_new (D : sections) sn (s : sect) :
  ~ In sn (map fst D) -> NoDup (map fst s) -> merge_section D sn s = (D ++ [(sn, s)])%list.
Proof.
  intros Nd ND. unfold merge_section, ensure_section.
  assert (E : sget sn D = None) by (apply (aget_none_notin _ _ _ string_eqb_spec); exact Nd).
  rewrite E. apply (fold_set_entries s D sn []); assumption.
Qed.

Lemma merge_sections_new (ps : sections) : forall D : sections,
  NoDup (map fst (D ++ ps)%list) -> Forall (fun ns => NoDup (map fst (snd ns))) ps -> merge_sections D ps = (D ++ ps)%list.
Proof.
  induction ps as [|[sn s] r IH]; intros D ND F; [rewrite app_nil_r; reflexivity|].
  unfold merge_sections. simpl. fold (merge_sections (merge_section D sn s) r).
  inversion F; subst. simpl in *.
  rewrite merge_section_new; [| |assumption].
  - rewrite IH; [rewrite <- app_assoc; reflexivity| |assumption].
    rewrite <- app_assoc. exact ND.
  - rewrite map_app in ND. simpl in ND. apply NoDup_remove_2 in ND. intros H. apply ND. rewrite in_app_iff. left. exact H.
Qed.

(* ================================================================== items of update_from_file for a written view *)
Definition mk_upd (path sn : string) (ke : string * entry) : upd :=
  Upd sn (fst ke) (e_val (snd ke)) None path (e_meta (snd ke)).
Definition exp_items (path : string) (v : sections) : list upd :=
  flat_map (fun ns => map (mk_upd path (fst ns)) (snd ns)) v.

Lemma py_replace_novars x : py_replace all_off [] None x = Ok x.
Proof. apply (replace_unknown_kept 11 [] x). intros m _. reflexivity. Qed.

(* the metadata collected for key k from the (normalised) options of a section *)
Definition gk (k : string) (o : string * option string) : list (string * option string) :=
  if prefix_b (k ++ ":") (fst o) then [(snd (partition_on colon (fst o)), snd o)] else [].

Lemma flat_map_map_s {A B C} (f : B -> list C) (g : A -> B) l : flat_map f (map g l) = flat_map (fun x => f (g x)) l.
Proof. induction l as [|x r IH]; [reflexivity|]. simpl. rewrite IH. reflexivity. Qed.

Lemma flat_map_nil {A B} (f : A -> list B) l : (forall x, In x l -> f x = []) -> flat_map f l = [].
Proof.
  induction l as [|x r IH]; intros H; [reflexivity|]. simpl. rewrite (H x (or_introl eq_refl)).
  apply IH. intros y Hy. apply H. right. exact Hy.
Qed.

Lemma flat_map_single {A} (f : A -> list A) l : (forall x, In x l -> f x = [x]) -> flat_map f l = l.
Proof.
  induction l as [|x r IH]; intros H; [reflexivity|]. simpl. rewrite (H x (or_introl eq_refl)). simpl. f_equal.
  apply IH. intros y Hy. apply H. right. exact Hy.
Qed.

Lemma gk_entry k cs w ke :
  entry_ok cs w ke -> has_char colon k = false ->
  flat_map (gk k) (entry_opts ke) = if String.eqb k (e_key (snd ke)) then e_meta (snd ke) else [].
Proof.
  intros [_ [_ [Kc _]]] Hk. unfold entry_opts. cbn [flat_map]. unfold gk at 1. cbn [fst snd].
  rewrite prefix_colon' by exact Kc. cbn [app]. rewrite flat_map_map_s.
  destruct (String.eqb k (e_key (snd ke))) eqn:E.
  - apply String.eqb_eq in E. subst k. apply flat_map_single. intros [mk mv] _. unfold gk. cbn [fst snd].
    rewrite prefix_own'. unfold mname. change (":" ++ mk) with (String colon mk).
    rewrite (partition_app_nochar colon _ mk Kc). reflexivity.
  - apply flat_map_nil. intros [mk mv] _. unfold gk. cbn [fst snd]. rewrite prefix_other'; [reflexivity|exact Hk|exact Kc|].
    intros ->. rewrite String.eqb_refl in E. discriminate.
Qed.

Lemma collect_none cs w s k :
  Forall (entry_ok cs w) s -> has_char colon k = false -> ~ In k (map fst s) -> flat_map (gk k) (exp_opts s) = [].
Proof.
  induction s as [|ke r IH]; intros F Hk N; [reflexivity|]. inversion F; subst.
  change (exp_opts (ke :: r)) with (entry_opts ke ++ exp_opts r)%list. rewrite flat_map_app.
  rewrite (gk_entry k cs w ke H1 Hk). rewrite IH; [|assumption|assumption|intros H; apply N; right; exact H].
  destruct (String.eqb k (e_key (snd ke))) eqn:E; [|reflexivity].
  apply String.eqb_eq in E. exfalso. apply N. left. destruct H1 as [E1 _]. rewrite E1. symmetry. exact E.
Qed.

Lemma collect_in cs w s ke :
  NoDup (map fst s) -> Forall (entry_ok cs w) s -> In ke s ->
  flat_map (gk (e_key (snd ke))) (exp_opts s) = e_meta (snd ke).
Proof.
  induction s as [|ke0 r IH]; intros ND F Hin; [destruct Hin|]. inversion F; subst. inversion ND; subst.
  assert (Kc : has_char colon (e_key (snd ke)) = false).
  { rewrite Forall_forall in F. destruct (F ke Hin) as [_ [_ [Kc _]]]. exact Kc. }
  change (exp_opts (ke0 :: r)) with (entry_opts ke0 ++ exp_opts r)%list. rewrite flat_map_app.
  rewrite (gk_entry _ cs w ke0 H1 Kc).
  destruct Hin as [->|Hin].
  - rewrite String.eqb_refl. rewrite (collect_none cs w r); [apply app_nil_r|assumption|exact Kc|].
    destruct H1 as [E1 _]. rewrite <- E1. exact H3.
  - assert (E : String.eqb (e_key (snd ke)) (e_key (snd ke0)) = false).
    { destruct (String.eqb (e_key (snd ke)) (e_key (snd ke0))) eqn:E; [|reflexivity]. apply String.eqb_eq in E.
      exfalso. apply H3. destruct H1 as [E1 _]. rewrite E1, <- E.
      rewrite Forall_forall in H2. destruct (H2 ke Hin) as [E2 _]. rewrite <- E2. apply in_map. exact Hin. }
    rewrite E. simpl. apply IH; assumption.
Qed.

Definition collector (all : list (string * option (list string))) (k : string) : meta :=
  flat_map (fun kv2 : string * option (list string) =>
              if prefix_b (k ++ ":") (fst kv2)
              then [(snd (partition_on colon (fst kv2)), meta_value all_off (snd kv2))] else []) all.

Lemma collector_norm all k : collector all k = flat_map (gk k) (norm_sect all).
Proof. unfold collector, norm_sect. rewrite flat_map_map_s. reflexivity. Qed.

Lemma map_eq_app_s {A B} (f : A -> B) l : forall l1 l2,
  map f l = (l1 ++ l2)%list -> exists a b, l = (a ++ b)%list /\ map f a = l1 /\ map f b = l2.
Proof.
  induction l as [|x r IH]; intros l1 l2 H.
  - destruct l1; [|discriminate]. destruct l2; [|discriminate]. exists [], []. repeat split.
  - destruct l1 as [|y l1'].
    + exists [], (x :: r). repeat split. exact H.
    + simpl in H. inversion H. destruct (IH l1' l2 H2) as [a [b [E [Ea Eb]]]].
      exists (x :: a), b. subst. repeat split.
Qed.

Lemma section_items_aux cs w path sn all : forall s o,
  norm_sect o = exp_opts s -> Forall (entry_ok cs w) s ->
  (forall ke, In ke s -> collector all (e_key (snd ke)) = e_meta (snd ke)) ->
  flat_map (file_item all_off path [] sn false EmptyString all) o = map (fun ke => Ok (mk_upd path sn ke)) s.
Proof.
  induction s as [|ke r IH]; intros o E F C.
  - destruct o; [reflexivity|discriminate].
  - change (exp_opts (ke :: r)) with (entry_opts ke ++ exp_opts r)%list in E.
    destruct (map_eq_app_s _ o _ _ E) as [o1 [o2 [-> [E1 E2]]]]. inversion F as [|? ? Fe Fr]; subst.
    rewrite flat_map_app. rewrite (IH o2 E2 Fr) by (intros x Hx; apply C; right; exact Hx).
    cbn [map]. change (Ok (mk_upd path sn ke) :: map (fun ke0 => Ok (mk_upd path sn ke0)) r)
      with ([Ok (mk_upd path sn ke)] ++ map (fun ke0 => Ok (mk_upd path sn ke0)) r)%list. f_equal.
    destruct Fe as [K1 [_ [K3 _]]].
    unfold entry_opts in E1. destruct o1 as [|kv o1']; [discriminate|].
    change (norm_sect (kv :: o1')) with ((fst kv, opt_value (snd kv)) :: norm_sect o1') in E1. inversion E1 as [[N1 N2 N3]].
    cbn [flat_map]. rewrite (flat_map_nil _ o1').
    + rewrite app_nil_r. unfold file_item. cbv zeta.
      change (opt_value_q all_off (snd kv)) with (opt_value (snd kv)). rewrite N1, K3, N2.
      fold (collector all (e_key (snd ke))). rewrite (C ke (or_introl eq_refl)).
      rewrite !py_replace_novars. unfold mk_upd. rewrite K1. reflexivity.
    + intros kv2 H2. unfold file_item. cbv zeta.
      assert (Hc : has_char colon (fst kv2) = true).
      { assert (H3 : In (fst kv2, opt_value (snd kv2)) (norm_sect o1')).
        { unfold norm_sect. apply (in_map (fun kv => (fst kv, opt_value (snd kv)))). exact H2. }
        unfold norm_sect in H3. rewrite N3 in H3. apply in_map_iff in H3. destruct H3 as [m [Em _]]. cbn beta in Em. inversion Em as [[En Ev]].
        try rewrite <- En. unfold mname, has_char. rewrite !any_app. simpl. apply orb_true_r. }
      rewrite Hc. reflexivity.
Qed.

Lemma names_norm_sect o : map fst (norm_sect o) = map fst o.
Proof. unfold norm_sect. rewrite map_map. reflexivity. Qed.

Lemma section_items_ok cs w path sn o s :
  norm_sect o = exp_opts s -> section_ok cs w (sn, s) ->
  section_items all_off path [] sn o = map (fun ke => Ok (mk_upd path sn ke)) s.
Proof.
  intros E [[Sn [_ [_ [Sp _]]]] [_ [ND F]]]. simpl in *. unfold section_items. rewrite Sp.
  destruct sn as [|a sn']; [contradiction|].
  apply (section_items_aux cs w); [exact E|exact F|].
  intros ke Hke. rewrite collector_norm, E. apply (collect_in cs w); assumption.
Qed.

Lemma all_items_ok cs w path : forall p v,
  norm_parsed p = exp_norm v -> Forall (section_ok cs w) v ->
  flat_map (fun ns => section_items all_off path [] (fst ns) (snd ns)) p = map Ok (exp_items path v).
Proof.
  intros p v. revert p. induction v as [|ns r IH]; intros p E F.
  - destruct p; [reflexivity|discriminate].
  - destruct p as [|ps p']; [discriminate|]. simpl in E. inversion E as [[E1 E2 E3]]. inversion F; subst.
    cbn [flat_map]. rewrite (IH p' E3 H2). unfold exp_items. cbn [flat_map]. rewrite map_app, map_map.
    f_equal. rewrite E1. apply (section_items_ok cs w); [exact E2|]. destruct ns; exact H1.
Qed.

Lemma dunder_not_section cs w v d x :
  partition_dunder d = (EmptyString, true, x) -> Forall (section_ok cs w) v -> ~ In d (map fst v).
Proof.
  intros Pd F H. apply in_map_iff in H. destruct H as [ns [E Hns]]. rewrite Forall_forall in F.
  destruct (F ns Hns) as [[Sn [_ [_ [Sp _]]]] _]. rewrite E, Pd in Sp. inversion Sp.
Qed.

Lemma sget_norm_none k p v :
  norm_parsed p = exp_norm v -> ~ In k (map fst v) -> sget k p = None.
Proof.
  intros E N. unfold sget.
  assert (A : aget String.eqb k (norm_parsed p) = None).
  { rewrite E. apply (aget_none_notin _ _ _ string_eqb_spec). unfold exp_norm. rewrite map_map. exact N. }
  rewrite norm_parsed_get in A. destruct (aget String.eqb k p); [discriminate|reflexivity].
Qed.

Lemma fold_sset_nodup {V} (m : list (string * V)) : forall acc,
  NoDup (map fst acc ++ map fst m) ->
  fold_left (fun d kv => sset d (fst kv) (snd kv)) m acc = (acc ++ m)%list.
Proof.
  induction m as [|[k x] r IH]; intros acc ND; [rewrite app_nil_r; reflexivity|].
  simpl. unfold sset at 2. rewrite (aset_new _ _ String.eqb acc k x).
  - rewrite IH; [rewrite <- app_assoc; reflexivity|]. rewrite map_app. simpl. rewrite <- app_assoc. exact ND.
  - apply (aget_none_notin _ _ _ string_eqb_spec). simpl in ND. apply NoDup_remove_2 in ND.
    intros H. apply ND. rewrite in_app_iff. left. exact H.
Qed.

Lemma norm_meta_id m : NoDup (map fst m) -> norm_meta m = m.
Proof. intros ND. unfold norm_meta. apply (fold_sset_nodup m []). exact ND. Qed.

Lemma parsed_items_ok cs w path p v :
  norm_parsed p = exp_norm v -> Forall (section_ok cs w) v ->
  parsed_items all_off path p = map Ok (exp_items path v).
Proof.
  intros E F. unfold parsed_items.
  rewrite (sget_norm_none "__replace__" p v E) by (eapply (dunder_not_section cs w); [reflexivity|exact F]).
  rewrite (all_items_ok cs w path p v E F). rewrite map_map. apply map_ext_in. intros u Hu.
  unfold exp_items in Hu. apply in_flat_map in Hu. destruct Hu as [ns [Hns Hu]].
  apply in_map_iff in Hu. destruct Hu as [ke [<- Hke]]. cbn [res_map]. f_equal. unfold mk_upd. cbn. f_equal.
  apply norm_meta_id. rewrite Forall_forall in F. destruct (F ns Hns) as [_ [_ [_ Fe]]].
  rewrite Forall_forall in Fe. destruct (Fe ke Hke) as [_ [_ [_ [_ [_ [_ [ND _]]]]]]]. exact ND.
Qed.

(* ================================================================== the batch of updates and the rebuilt view *)
Definition upd_entry (u : upd) : entry := Entry (u_key u) (u_val u) (src_of (u_src u) (u_prof u)) (u_meta u).
Definition build (ps : sections) (us : list upd) : sections :=
  fold_left (fun ps u => set_entry ps (u_sec u) (u_key u) (upd_entry u)) us ps.

Lemma with_raw_twice c a b : with_raw (with_raw c a) b = with_raw c b.
Proof. destruct c; reflexivity. Qed.
Lemma with_raw_raw c a : c_raw (with_raw c a) = a.
Proof. destruct c; reflexivity. Qed.

Lemma update1_profileless c u :
  u_prof u = None ->
  update1 c u true =
  Ok (with_raw c (pset (c_raw c) None
        (set_entry (match pget None (c_raw c) with Some x => x | None => [] end) (u_sec u) (u_key u) (upd_entry u)))).
Proof. intros P. destruct u as [a b d p e m]. simpl in P. subst p. reflexivity. Qed.

Lemma batch_build us : forall c,
  us <> [] -> Forall (fun u => u_prof u = None) us ->
  batch all_off c (map Ok us) true false =
  (refresh (with_raw c (pset (c_raw c) None
                          (build (match pget None (c_raw c) with Some x => x | None => [] end) us))), Ok tt).
Proof.
  induction us as [|u r IH]; intros c N F; [contradiction|]. inversion F as [|? ? Fu Fr]; subst.
  cbn [map batch]. rewrite (update1_profileless c u Fu).
  set (ps := match pget None (c_raw c) with Some x => x | None => [] end).
  set (c1 := with_raw c (pset (c_raw c) None (set_entry ps (u_sec u) (u_key u) (upd_entry u)))).
  destruct r as [|u2 r2].
  - reflexivity.
  - rewrite (IH c1) by (discriminate || exact Fr). unfold c1. rewrite with_raw_raw, with_raw_twice.
    unfold pget, pset. rewrite (aget_aset_same _ _ _ prof_eqb_spec).
    rewrite (aset_aset _ prof_eqb_spec). reflexivity.
Qed.

Definition mk_entry_of (path : string) (ke : string * entry) : string * entry :=
  (fst ke, Entry (fst ke) (e_val (snd ke)) path (e_meta (snd ke))).
Definition exp_section (path : string) (ns : string * sect) : string * sect := (fst ns, map (mk_entry_of path) (snd ns)).

Lemma fold_upd_entries path sn s : forall X,
  fold_left (fun ps u => set_entry ps (u_sec u) (u_key u) (upd_entry u)) (map (mk_upd path sn) s) X =
  fold_left (fun v ke => set_entry v sn (fst ke) (snd ke)) (map (mk_entry_of path) s) X.
Proof. induction s as [|ke r IH]; intros X; [reflexivity|]. simpl. apply IH. Qed.

Lemma names_mk path s : map fst (map (mk_entry_of path) s) = map fst s.
Proof. rewrite map_map. reflexivity. Qed.

Lemma build_items cs w path v : forall D : sections,
  NoDup (map fst (D ++ v)%list) -> Forall (section_ok cs w) v ->
  build D (exp_items path v) = (D ++ map (exp_section path) v)%list.
Proof.
  induction v as [|[sn s] r IH]; intros D ND F; [simpl; rewrite app_nil_r; reflexivity|].
  inversion F as [|? ? Fs Fr]; subst. destruct Fs as [_ [Ne [NDs _]]]. simpl in Ne, NDs.
  unfold exp_items. cbn [flat_map fst snd]. fold (exp_items path r). unfold build. rewrite fold_left_app.
  fold (build D (map (mk_upd path sn) s)). fold (build (build D (map (mk_upd path sn) s)) (exp_items path r)).
  assert (Nd : ~ In sn (map fst D)).
  { rewrite map_app in ND. simpl in ND. apply NoDup_remove_2 in ND. intros H. apply ND. rewrite in_app_iff. left. exact H. }
  assert (B : build D (map (mk_upd path sn) s) = (D ++ [exp_section path (sn, s)])%list).
  { destruct s as [|ke s']; [contradiction|]. unfold build. cbn [map fold_left].
    change (set_entry D (u_sec (mk_upd path sn ke)) (u_key (mk_upd path sn ke)) (upd_entry (mk_upd path sn ke)))
      with (set_entry D sn (fst ke) (snd (mk_entry_of path ke))).
    rewrite set_entry_new by exact Nd. rewrite fold_upd_entries.
    rewrite fold_set_entries; [reflexivity|exact Nd|].
    cbn [app map fst]. rewrite names_mk. exact NDs. }
  rewrite B, IH; [rewrite <- app_assoc; reflexivity| |exact Fr].
  rewrite <- app_assoc. rewrite map_app in *. exact ND.
Qed.

Lemma exp_sections_wf cs w path v :
  Forall (section_ok cs w) v -> Forall (fun ns => NoDup (map fst (snd ns))) (map (exp_section path) v).
Proof.
  intros F. rewrite Forall_forall in *. intros x Hx. apply in_map_iff in Hx. destruct Hx as [ns [<- Hns]].
  simpl. rewrite names_mk. destruct (F ns Hns) as [_ [_ [N _]]]. exact N.
Qed.

Lemma content_exp path v : view_content (map (exp_section path) v) = view_content v.
Proof.
  unfold view_content. rewrite map_map. apply map_ext. intros ns. simpl. f_equal. rewrite map_map. reflexivity.
Qed.

(* ================================================================== write, then read: the same content *)
Lemma read_line_q_off cs lines : forall st,
  fold_left (read_line_q all_off cs) lines st = fold_left (read_line cs) lines st.
Proof.
  induction lines as [|l r IH]; intros st; [reflexivity|]. cbn [fold_left]. rewrite IH. f_equal.
  destruct st; reflexivity.
Qed.

Theorem readback_ok (cs : bool) (w : nat) (c : config) :
  view_ok cs w (c_view c) ->
  answer all_off c (QReadBack w cs) = AContent (Ok (view_content (c_view c))).
Proof.
  intros V. destruct (c_view c) as [|ns r] eqn:Ev.
  - cbn [answer]. unfold as_str. rewrite Ev. destruct cs; reflexivity.
  - pose proof V as [ND F].
    destruct (read_view cs w ns r V) as [st [R N]].
    cbn [answer apply_op]. unfold parse_ini. rewrite read_line_q_off, (text_lines cs w c ns r Ev V), R.
    assert (Hv : sget "__vars__" (r_done st) = None).
    { apply (sget_norm_none _ _ _ N). eapply (dunder_not_section cs w); [reflexivity|exact F]. }
    rewrite Hv. rewrite (parsed_items_ok cs w "f" _ _ N F).
    assert (Ne : exp_items "f" (ns :: r) <> []).
    { inversion F as [|? ? Fs _]; subst. destruct Fs as [_ [Ns _]]. unfold exp_items. cbn [flat_map].
      intros Hx. apply app_eq_nil in Hx. destruct Hx as [Hx _]. apply map_eq_nil in Hx. contradiction. }
    rewrite batch_build; [|exact Ne|].
    + cbn [empty_config c_raw pget aget]. rewrite (build_items cs w "f" (ns :: r) [] ND F).
      cbn [app]. unfold refresh, empty_config. cbn [with_raw c_profiles c_raw with_view c_view].
      rewrite flatten_cons. cbn [pset aset pget aget prof_eqb].
      change (flatten [] [(None, map (exp_section "f") (ns :: r))]) with (@nil (string * sect)).
      rewrite (merge_sections_new (map (exp_section "f") (ns :: r)) []).
      * cbn [app]. rewrite (content_exp "f"). reflexivity.
      * cbn [app]. rewrite map_map. exact ND.
      * apply (exp_sections_wf cs w). exact F.
    + unfold exp_items. rewrite Forall_forall. intros u Hu. apply in_flat_map in Hu. destruct Hu as [x [_ Hu]].
      apply in_map_iff in Hu. destruct Hu as [ke [<- _]]. reflexivity.
Qed.
