(* C10 (a) - proofs about the attribute codec model (Model/C10_Attr.v):
   the parser inverts the printer, the specification codec (q = false) round-trips every encodable tree,
   the current code (q = true) round-trips exactly the clean ones, with computed witnesses of the corruption. *)
From Coq Require Import ZArith List Bool String Ascii Lia.
From Verif Require Import Model.C10_Attr.
Import ListNotations.
Local Open Scope nat_scope.
Local Open Scope list_scope.

(* ================================================================ induction principle for nested trees *)
Section TreeInd.
  Variable P : tree -> Prop.
  Hypothesis HStr : forall s, P (Str s).
  Hypothesis HInt : forall z, P (Int z).
  Hypothesis HFlt : forall f, P (Flt f).
  Hypothesis HBool : forall b, P (Bool b).
  Hypothesis HNone : P NoneT.
  Hypothesis HList : forall l, Forall P l -> P (List l).
  Hypothesis HTuple : forall l, Forall P l -> P (Tuple l).
  Hypothesis HSet : forall l, Forall P l -> P (SetT l).
  Hypothesis HDict : forall l, Forall (fun kv => P (fst kv) /\ P (snd kv)) l -> P (Dict l).

  Fixpoint tree_ind' (t : tree) : P t :=
    let fix go (l : list tree) : Forall P l :=
        match l with
        | [] => Forall_nil _
        | x :: r => Forall_cons x (tree_ind' x) (go r)
        end in
    let fix gokv (l : list (tree * tree)) : Forall (fun kv => P (fst kv) /\ P (snd kv)) l :=
        match l with
        | [] => Forall_nil _
        | (k, v) :: r => Forall_cons (k, v) (conj (tree_ind' k) (tree_ind' v)) (gokv r)
        end in
    match t with
    | Str s => HStr s
    | Int z => HInt z
    | Flt f => HFlt f
    | Bool b => HBool b
    | NoneT => HNone
    | List l => HList l (go l)
    | Tuple l => HTuple l (go l)
    | SetT l => HSet l (go l)
    | Dict l => HDict l (gokv l)
    end.
End TreeInd.

(* ================================================================ 1. string literals *)
Lemma unescape_escape : forall q s, (q = squote \/ q = dquote) -> unescape (escape q s) = Some s.
Proof.
  intros q s Hq. induction s as [|c r IH]; [reflexivity|].
  cbn [escape]. destruct (Ascii.eqb c bslash) eqn:E1.
  - apply Ascii.eqb_eq in E1. subst c. cbn [unescape]. rewrite Ascii.eqb_refl.
    cbn [orb]. rewrite IH. reflexivity.
  - destruct (Ascii.eqb c q) eqn:E2.
    + apply Ascii.eqb_eq in E2. subst c. cbn [unescape]. rewrite Ascii.eqb_refl.
      destruct Hq as [-> | ->]; (rewrite IH; reflexivity).
    + cbn [unescape]. rewrite E1, IH. reflexivity.
Qed.

(* ================================================================ equations of print *)
Definition pkv (kv : tree * tree) : list tok :=
  match kv with (k, v) => print k ++ TColon :: print v end.
Definition tuple_close (l : list tree) : list tok :=
  match l with [_] => [TComma; TRPar] | _ => [TRPar] end.

Lemma sepc_cons2 p q r : sepc (p :: q :: r) = p ++ TComma :: sepc (q :: r).
Proof. reflexivity. Qed.
Lemma sepc_one p : sepc [p] = p.
Proof. reflexivity. Qed.
Lemma print_List l : print (List l) = TLBr :: sepc (map print l) ++ [TRBr].
Proof. reflexivity. Qed.
Lemma print_Tuple l : print (Tuple l) = TLPar :: sepc (map print l) ++ tuple_close l.
Proof. destruct l as [|x [|y l]]; reflexivity. Qed.
Lemma print_SetT x l : print (SetT (x :: l)) = TLBrace :: sepc (map print (x :: l)) ++ [TRBrace].
Proof. reflexivity. Qed.
Lemma print_Dict l : print (Dict l) = TLBrace :: sepc (map pkv l) ++ [TRBrace].
Proof. reflexivity. Qed.

(* ================================================================ 2. the parser inverts the printer *)
Definition starter (t : tok) : bool :=
  match t with TRBr | TRPar | TRBrace | TComma | TColon => false | _ => true end.
Definition hd_starter (ts : list tok) : bool :=
  match ts with a :: _ => starter a | [] => false end.
Definition hd_not_comma (ts : list tok) : bool :=
  match ts with TComma :: _ => false | _ => true end.

Lemma hd_starter_app a b : hd_starter a = true -> hd_starter (a ++ b) = true.
Proof. destruct a; [discriminate|]. auto. Qed.

Lemma print_starter t : hd_starter (print t) = true.
Proof.
  destruct t as [s|z|f|b| |l|l|l|l]; try reflexivity.
  - destruct f as [x| |[]]; reflexivity.
  - destruct b; reflexivity.
  - rewrite print_Tuple. reflexivity.
  - destruct l; reflexivity.
Qed.

Lemma sepc_starter x l : hd_starter (sepc (map print (x :: l))) = true.
Proof.
  destruct l as [|y l]; cbn [map].
  - rewrite sepc_one. apply print_starter.
  - rewrite sepc_cons2. apply hd_starter_app, print_starter.
Qed.

Lemma pkv_starter kv : hd_starter (pkv kv) = true.
Proof. destruct kv as [k v]. apply hd_starter_app, print_starter. Qed.

Lemma sepc_pkv_starter kv l : hd_starter (sepc (map pkv (kv :: l))) = true.
Proof.
  destruct l as [|y l]; cbn [map].
  - rewrite sepc_one. apply pkv_starter.
  - rewrite sepc_cons2. apply hd_starter_app, pkv_starter.
Qed.

Lemma pseq_S n ts :
  pseq (S n) ts =
  match pval n ts with
  | Some (x, TComma :: r) => match pseq n r with
                             | Some (l, r') => Some (x :: l, r')
                             | None => None
                             end
  | Some (x, r) => Some ([x], r)
  | None => None
  end.
Proof. reflexivity. Qed.

Lemma pkvs_S n ts :
  pkvs (S n) ts =
  match pval n ts with
  | Some (k, TColon :: r) =>
      match pval n r with
      | Some (v, TComma :: r') => match pkvs n r' with
                                  | Some (l, r'') => Some ((k, v) :: l, r'')
                                  | None => None
                                  end
      | Some (v, r') => Some ([(k, v)], r')
      | None => None
      end
  | _ => None
  end.
Proof. reflexivity. Qed.

Lemma pval_S_LBr n ts : hd_starter ts = true ->
  pval (S n) (TLBr :: ts) =
  match pseq n ts with
  | Some (l, TRBr :: r') => Some (List l, r')
  | _ => None
  end.
Proof.
  destruct ts as [|a r]; [discriminate|].
  destruct a; intros H; simpl in H; try discriminate H; (simpl; reflexivity).
Qed.

Lemma pval_S_LPar n ts : hd_starter ts = true ->
  pval (S n) (TLPar :: ts) =
  match pval n ts with
  | Some (x, TComma :: TRPar :: r') => Some (Tuple [x], r')
  | Some (x, TComma :: r') =>
      match pseq n r' with
      | Some (l, TRPar :: r'') => Some (Tuple (x :: l), r'')
      | _ => None
      end
  | _ => None
  end.
Proof.
  destruct ts as [|a r]; [discriminate|].
  destruct a; intros H; simpl in H; try discriminate H; (simpl; reflexivity).
Qed.

Lemma pval_S_LBrace n ts : hd_starter ts = true ->
  pval (S n) (TLBrace :: ts) =
  match pval n ts with
  | Some (x, TRBrace :: r') => Some (SetT [x], r')
  | Some (x, TComma :: r') =>
      match pseq n r' with
      | Some (l, TRBrace :: r'') => Some (SetT (x :: l), r'')
      | _ => None
      end
  | Some (k, TColon :: r') =>
      match pval n r' with
      | Some (v, TRBrace :: r'') => Some (Dict [(k, v)], r'')
      | Some (v, TComma :: r'') =>
          match pkvs n r'' with
          | Some (l, TRBrace :: r3) => Some (Dict ((k, v) :: l), r3)
          | _ => None
          end
      | _ => None
      end
  | _ => None
  end.
Proof.
  destruct ts as [|a r]; [discriminate|].
  destruct a; intros H; simpl in H; try discriminate H; (simpl; reflexivity).
Qed.

Ltac len H := repeat (progress (rewrite ?app_length in H; cbn [List.length] in H)).

Definition PV (t : tree) : Prop :=
  forall rest n, n > 2 * List.length (print t) -> pval n (print t ++ rest) = Some (t, rest).

Lemma pseq_print : forall l, Forall PV l -> forall x, PV x -> forall rest n,
  n > 2 * List.length (sepc (map print (x :: l))) + 1 -> hd_not_comma rest = true ->
  pseq n (sepc (map print (x :: l)) ++ rest) = Some (x :: l, rest).
Proof.
  induction 1 as [|y l Hy Hl IH]; intros x Hx rest n Hn Hr; cbn [map] in *.
  - rewrite sepc_one in *. destruct n as [|n]; [lia|].
    rewrite pseq_S, Hx by lia.
    destruct rest as [|[] ?]; try reflexivity; discriminate Hr.
  - rewrite sepc_cons2 in *. len Hn.
    destruct n as [|n]; [lia|].
    rewrite pseq_S, <- app_assoc, <- app_comm_cons, Hx by lia.
    cbv beta iota. rewrite (IH y Hy) by (trivial; lia). reflexivity.
Qed.

Definition PKV (kv : tree * tree) : Prop := PV (fst kv) /\ PV (snd kv).

Lemma pkvs_print : forall l, Forall PKV l -> forall k v, PV k -> PV v -> forall rest n,
  n > 2 * List.length (sepc (map pkv ((k, v) :: l))) + 1 -> hd_not_comma rest = true ->
  pkvs n (sepc (map pkv ((k, v) :: l)) ++ rest) = Some ((k, v) :: l, rest).
Proof.
  induction 1 as [|[k' v'] l [Hk' Hv'] Hl IH]; intros k v Hk Hv rest n Hn Hr; cbn [map] in *.
  - rewrite sepc_one in *. cbn [pkv] in *. len Hn.
    destruct n as [|n]; [lia|].
    rewrite pkvs_S, <- app_assoc, <- app_comm_cons, Hk by lia.
    cbv beta iota. rewrite Hv by lia.
    destruct rest as [|[] ?]; try reflexivity; discriminate Hr.
  - rewrite sepc_cons2 in *. cbn [pkv fst snd] in Hn, Hk', Hv' |- *.
    len Hn.
    destruct n as [|n]; [lia|].
    rewrite pkvs_S, <- !app_assoc, <- app_comm_cons, Hk by lia.
    cbv beta iota. rewrite <- app_comm_cons, Hv by lia.
    cbv beta iota. rewrite (IH k' v' Hk' Hv') by (trivial; cbn [pkv]; lia). reflexivity.
Qed.

Lemma pval_print_PV : forall t, PV t.
Proof.
  induction t as [s|z|f|b| |l IH|l IH|l IH|l IH] using tree_ind'; intros rest n Hn.
  - (* Str *)
    destruct n as [|n]; [lia|]. cbn [print app pval].
    rewrite unescape_escape; [reflexivity|]. destruct (use_dq s); auto.
  - destruct n as [|n]; [lia|]. reflexivity.
  - destruct n as [|n]; [lia|]. destruct f as [x| |[]]; reflexivity.
  - destruct n as [|n]; [lia|]. destruct b; reflexivity.
  - destruct n as [|n]; [lia|]. reflexivity.
  - (* List *)
    destruct n as [|n]; [lia|]. destruct l as [|x l]; [reflexivity|].
    rewrite print_List in *. rewrite <- app_comm_cons, <- app_assoc.
    len Hn.
    rewrite pval_S_LBr by apply hd_starter_app, sepc_starter.
    inversion IH as [|? ? Hx Hl]; subst.
    rewrite (pseq_print l Hl x Hx) by (trivial; lia). reflexivity.
  - (* Tuple *)
    destruct n as [|n]; [lia|]. destruct l as [|x l]; [reflexivity|].
    inversion IH as [|? ? Hx Hl]; subst.
    rewrite print_Tuple in *. rewrite <- app_comm_cons, <- app_assoc.
    len Hn.
    rewrite pval_S_LPar by apply hd_starter_app, sepc_starter.
    destruct l as [|y l].
    + cbn [map tuple_close] in *. rewrite sepc_one in *. rewrite Hx by lia. reflexivity.
    + cbn [map tuple_close] in *. rewrite sepc_cons2 in *. len Hn.
      rewrite <- app_assoc, <- app_comm_cons, Hx by lia.
      inversion Hl as [|? ? Hy Hl']; subst.
      assert (E : pseq n (sepc (print y :: map print l) ++ [TRPar] ++ rest) = Some (y :: l, [TRPar] ++ rest)).
      { apply (pseq_print l Hl' y Hy); [cbn [map]; lia | reflexivity]. }
      pose proof (hd_starter_app _ ([TRPar] ++ rest) (sepc_starter y l)) as Hs. cbn [map] in Hs.
      destruct (sepc (print y :: map print l) ++ [TRPar] ++ rest) as [|a r]; [discriminate Hs|].
      destruct a; try discriminate Hs; cbv beta iota; rewrite E; reflexivity.
  - (* SetT *)
    destruct n as [|n]; [lia|]. destruct l as [|x l]; [reflexivity|].
    inversion IH as [|? ? Hx Hl]; subst.
    rewrite print_SetT in *. rewrite <- app_comm_cons, <- app_assoc.
    len Hn.
    rewrite pval_S_LBrace by apply hd_starter_app, sepc_starter.
    destruct l as [|y l].
    + cbn [map] in *. rewrite sepc_one in *. rewrite Hx by lia. reflexivity.
    + cbn [map] in *. rewrite sepc_cons2 in *. len Hn.
      rewrite <- app_assoc, <- app_comm_cons, Hx by lia.
      inversion Hl as [|? ? Hy Hl']; subst.
      cbv beta iota.
      rewrite (pseq_print l Hl' y Hy) by (cbn [map]; trivial; lia). reflexivity.
  - (* Dict *)
    destruct n as [|n]; [lia|]. destruct l as [|[k v] l]; [reflexivity|].
    inversion IH as [|? ? [Hk Hv] Hl]; subst. cbn [fst snd] in Hk, Hv.
    rewrite print_Dict in *. rewrite <- app_comm_cons, <- app_assoc.
    len Hn.
    rewrite pval_S_LBrace by apply hd_starter_app, sepc_pkv_starter.
    destruct l as [|[k' v'] l].
    + cbn [map pkv] in *. rewrite sepc_one in *. len Hn.
      rewrite <- app_assoc, <- app_comm_cons, Hk by lia. cbv beta iota.
      rewrite Hv by lia. reflexivity.
    + cbn [map] in *. rewrite sepc_cons2 in *. cbn [pkv] in Hn |- *.
      len Hn.
      rewrite <- !app_assoc, <- app_comm_cons, Hk by lia. cbv beta iota.
      rewrite <- app_comm_cons, Hv by lia. cbv beta iota.
      inversion Hl as [|? ? [Hk' Hv'] Hl']; subst. cbn [fst snd] in Hk', Hv'.
      rewrite (pkvs_print l Hl' k' v' Hk' Hv') by (cbn [map pkv]; trivial; lia). reflexivity.
Qed.

Lemma pval_print : forall t rest n, n > 2 * List.length (print t) -> pval n (print t ++ rest) = Some (t, rest).
Proof. exact pval_print_PV. Qed.

(* ================================================================ 3. *)
Lemma literal_eval_print : forall t, literal_eval (print t) = Some t.
Proof.
  intros t. unfold literal_eval.
  rewrite <- (app_nil_r (print t)) at 2.
  rewrite pval_print; [reflexivity|]. unfold fuel_of. lia.
Qed.

(* ================================================================ 4. the specification codec round-trips every tree *)
Lemma decode_false_print k t : decode false (ETag k (print t)) = Some t.
Proof. cbn [decode]. rewrite literal_eval_print. reflexivity. Qed.

Lemma attr_roundtrip_spec : forall t, encodable t = true ->
  exists e, encode false t = Ok e /\ decode false e = Some t.
Proof.
  intros t Ht. destruct t; try discriminate Ht.
  - eexists; split; reflexivity.
  - eexists; split; reflexivity.
  - eexists; split; reflexivity.
  - eexists; split; reflexivity.
  - exists (ETag KList (print (List l))). cbn [encode tag_of]. rewrite decode_false_print. split; reflexivity.
  - exists (ETag KTuple (print (Tuple l))). cbn [encode tag_of]. rewrite decode_false_print. split; reflexivity.
  - exists (ETag KSet (print (SetT l))). cbn [encode tag_of]. rewrite decode_false_print. split; reflexivity.
  - exists (ETag KDict (print (Dict l))). cbn [encode tag_of]. rewrite decode_false_print. split; reflexivity.
Qed.

(* ================================================================ 6. refutation witnesses for the quirk (q = true) *)
Lemma nan_word_encode_raises :
  encode true (Dict [(Str (la "a"), Str (la "nan"))]) = Raise SyntaxErr.
Proof. vm_compute. reflexivity. Qed.

Lemma nan_word_str_corrupted : decode true (EStr (la "nan")) = Some (Str (la "'nan'")).
Proof. vm_compute. reflexivity. Qed.

Lemma nan_word_dq_corrupted :
  exists e, encode true (List [Str (la "it's nan")]) = Ok e /\
            decode true e = Some (List [Str (la "it's 'nan'")]).
Proof.
  exists (ETag KList (print (List [Str (la "it's nan")]))).
  split; vm_compute; reflexivity.
Qed.

Lemma inf_key_corrupted :
  exists e, encode true (Dict [(Flt (FInf false), Int 1%Z)]) = Ok e /\
            decode true e = Some (Dict [(Str (la "inf"), Int 1%Z)]).
Proof.
  exists (ETag KDict (print (Dict [(Flt (FInf false), Int 1%Z)]))).
  split; vm_compute; reflexivity.
Qed.

Lemma nan_word_spec_ok :
  exists e, encode false (Dict [(Str (la "a"), Str (la "nan"))]) = Ok e /\
            decode false e = Some (Dict [(Str (la "a"), Str (la "nan"))]).
Proof.
  exists (ETag KDict (print (Dict [(Str (la "a"), Str (la "nan"))]))).
  split; vm_compute; reflexivity.
Qed.

(* ================================================================ 5. the current code (q = true) on clean trees *)
Lemma text_eqb_eq a b : text_eqb a b = true <-> a = b.
Proof.
  revert b. induction a as [|x a IH]; intros [|y b]; cbn [text_eqb]; split; intros H;
    try discriminate H; try reflexivity.
  - apply andb_true_iff in H as [H1 H2]. apply Ascii.eqb_eq in H1. apply IH in H2. subst. reflexivity.
  - inversion H. subst. rewrite Ascii.eqb_refl. apply IH. reflexivity.
Qed.

Lemma text_eqb_refl a : text_eqb a a = true.
Proof. apply text_eqb_eq. reflexivity. Qed.

(* ---- (a) the regex pass is the identity on texts free of the words nan / inf *)
Definition okw (w : text) : bool := negb (text_eqb w w_nan || text_eqb w w_inf).

Lemma nan_inf_free_okw s : nan_inf_free s = forallb okw (words_aux [] s).
Proof. reflexivity. Qed.

Lemma flush_ok pm w : okw w = true -> flush pm w = (if pm then [minus] else []) ++ w.
Proof.
  unfold okw, flush. rewrite negb_true_iff, orb_false_iff. intros [-> ->]. reflexivity.
Qed.

Lemma scan_free : forall s pm w, forallb okw (words_aux w s) = true ->
  scan pm w s = (if pm then [minus] else []) ++ w ++ s.
Proof.
  induction s as [|c s IH]; intros pm w H; cbn [scan words_aux] in *.
  - cbn [forallb] in H. rewrite andb_true_r in H. rewrite flush_ok by exact H.
    rewrite app_nil_r. reflexivity.
  - destruct (is_word c) eqn:Ew.
    + rewrite IH by exact H. rewrite <- app_assoc. reflexivity.
    + cbn [forallb] in H. apply andb_true_iff in H as [H1 H2]. rewrite flush_ok by exact H1.
      destruct (Ascii.eqb c minus) eqn:Em.
      * apply Ascii.eqb_eq in Em. subst c. rewrite (IH true [] H2).
        rewrite <- app_assoc. reflexivity.
      * rewrite (IH false [] H2). rewrite <- app_assoc. reflexivity.
Qed.

Lemma resub_free s : nan_inf_free s = true -> resub s = s.
Proof. intros H. unfold resub. rewrite scan_free by exact H. reflexivity. Qed.

Lemma is_word_bslash : is_word bslash = false.
Proof. reflexivity. Qed.
Lemma is_word_squote : is_word squote = false.
Proof. reflexivity. Qed.
Lemma is_word_dquote : is_word dquote = false.
Proof. reflexivity. Qed.

Lemma words_escape q : (q = squote \/ q = dquote) -> forall s w,
  forallb okw (words_aux w s) = true -> forallb okw (words_aux w (escape q s)) = true.
Proof.
  intros Hq. assert (Hwq : is_word q = false) by (destruct Hq as [-> | ->]; reflexivity).
  induction s as [|c s IH]; intros w H; [exact H|].
  cbn [escape]. destruct (Ascii.eqb c bslash) eqn:E1.
  - apply Ascii.eqb_eq in E1. subst c. cbn [words_aux] in *. rewrite is_word_bslash in *.
    cbn [forallb] in *. apply andb_true_iff in H as [H1 H2]. rewrite H1. apply IH. exact H2.
  - destruct (Ascii.eqb c q) eqn:E2.
    + apply Ascii.eqb_eq in E2. subst c. cbn [words_aux] in *. rewrite is_word_bslash, Hwq in *.
      cbn [forallb] in *. apply andb_true_iff in H as [H1 H2]. rewrite H1. apply IH. exact H2.
    + cbn [words_aux] in *. destruct (is_word c).
      * apply IH. exact H.
      * cbn [forallb] in *. apply andb_true_iff in H as [H1 H2]. rewrite H1. apply IH. exact H2.
Qed.

Lemma resub_escape q s : (q = squote \/ q = dquote) -> nan_inf_free s = true ->
  resub (escape q s) = escape q s.
Proof.
  intros Hq H. apply resub_free. rewrite nan_inf_free_okw in *. apply words_escape; assumption.
Qed.

Lemma sub_tok_str s : nan_inf_free s = true ->
  sub_tok (TStr (use_dq s) (escape (qchar (use_dq s)) s)) =
  Some [TStr (use_dq s) (escape (qchar (use_dq s)) s)].
Proof.
  intros H. cbn [sub_tok]. rewrite resub_escape; [|destruct (use_dq s); auto|exact H].
  rewrite text_eqb_refl. destruct (use_dq s); reflexivity.
Qed.

(* ---- (b) the token-level substitution turns special floats in value position into quoted words *)
Definition qkv (f : tree -> tree) (kv : tree * tree) : tree * tree :=
  match kv with (k, v) => (k, f v) end.

Fixpoint quote_specials (t : tree) : tree :=
  match t with
  | Flt FNan => Str (la "nan")
  | Flt (FInf false) => Str (la "inf")
  | Flt (FInf true) => Str (la "-inf")
  | List l => List (map quote_specials l)
  | Tuple l => Tuple (map quote_specials l)
  | SetT l => SetT (map quote_specials l)
  | Dict l => Dict (map (qkv quote_specials) l)
  | _ => t
  end.

Definition plain (t : tok) : bool :=
  match t with TStr _ _ | TNan | TInf | TMinus => false | _ => true end.

Lemma sub_toks_plain t r : plain t = true -> sub_toks (t :: r) = option_map (cons t) (sub_toks r).
Proof.
  destruct t; intros H; try discriminate H; cbn [sub_toks sub_tok]; destruct (sub_toks r); reflexivity.
Qed.

Lemma sub_toks_plain_app a r : forallb plain a = true ->
  sub_toks (a ++ r) = option_map (app a) (sub_toks r).
Proof.
  induction a as [|t a IH]; cbn [forallb app]; intros H.
  - destruct (sub_toks r); reflexivity.
  - apply andb_true_iff in H as [H1 H2]. rewrite sub_toks_plain, IH by assumption.
    destruct (sub_toks r); reflexivity.
Qed.

Lemma sub_toks_sepc {A} (pr pr' : A -> list tok) (l : list A) :
  Forall (fun x => forall rest, sub_toks (pr x ++ rest) = option_map (app (pr' x)) (sub_toks rest)) l ->
  forall rest, sub_toks (sepc (map pr l) ++ rest) = option_map (app (sepc (map pr' l))) (sub_toks rest).
Proof.
  induction 1 as [|x l Hx Hl IH]; intros rest.
  - cbn [map sepc app]. destruct (sub_toks rest); reflexivity.
  - destruct l as [|y l]; cbn [map] in *.
    + rewrite !sepc_one. apply Hx.
    + rewrite !sepc_cons2. rewrite <- app_assoc, <- app_comm_cons, Hx.
      rewrite sub_toks_plain by reflexivity. rewrite IH.
      destruct (sub_toks rest); cbn [option_map]; [|reflexivity].
      rewrite <- app_assoc, <- app_comm_cons. reflexivity.
Qed.

Definition ST (t : tree) : Prop :=
  clean t = true -> forall rest,
  sub_toks (print t ++ rest) = option_map (app (print (quote_specials t))) (sub_toks rest).

Lemma map_id_forall {A} (f : A -> A) (c : A -> bool) l :
  Forall (fun x => c x = true -> f x = x) l -> forallb c l = true -> map f l = l.
Proof.
  induction 1 as [|x l Hx Hl IH]; cbn [forallb map]; intros H; [reflexivity|].
  apply andb_true_iff in H as [H1 H2]. rewrite Hx, IH by assumption. reflexivity.
Qed.

Lemma quote_specials_id : forall t, no_special t = true -> quote_specials t = t.
Proof.
  induction t as [s|z|f|b| |l IH|l IH|l IH|l IH] using tree_ind'; intros H; try reflexivity.
  - destruct f as [x| |[]]; try discriminate H; reflexivity.
  - cbn [quote_specials no_special] in *. rewrite (map_id_forall _ _ _ IH H). reflexivity.
  - cbn [quote_specials no_special] in *. rewrite (map_id_forall _ _ _ IH H). reflexivity.
  - cbn [quote_specials no_special] in *. rewrite (map_id_forall _ _ _ IH H). reflexivity.
  - cbn [quote_specials no_special] in *. f_equal.
    apply (map_id_forall _ (fun kv => match kv with (k, v) => no_special k && no_special v end)); [|exact H].
    eapply Forall_impl; [|exact IH]. intros [k v] [_ Hv] Hc. cbn [fst snd] in *.
    apply andb_true_iff in Hc as [_ Hc]. cbn [qkv]. rewrite Hv by exact Hc. reflexivity.
Qed.

Lemma Forall_ST_clean l : Forall ST l -> forallb clean l = true ->
  Forall (fun x => forall rest, sub_toks (print x ++ rest) =
                                option_map (app (print (quote_specials x))) (sub_toks rest)) l.
Proof.
  induction 1 as [|x l Hx Hl IH]; cbn [forallb]; intros H; constructor.
  - apply andb_true_iff in H as [H1 _]. exact (Hx H1).
  - apply andb_true_iff in H as [_ H2]. exact (IH H2).
Qed.

Lemma sub_toks_seq l : Forall ST l -> forallb clean l = true -> forall rest,
  sub_toks (sepc (map print l) ++ rest) =
  option_map (app (sepc (map print (map quote_specials l)))) (sub_toks rest).
Proof.
  intros H Hc rest. rewrite map_map.
  apply (sub_toks_sepc print (fun x => print (quote_specials x))). apply Forall_ST_clean; assumption.
Qed.

Lemma tuple_close_map f l : tuple_close (map f l) = tuple_close l.
Proof. destruct l as [|x [|y l]]; reflexivity. Qed.

Lemma tuple_close_plain l : forallb plain (tuple_close l) = true.
Proof. destruct l as [|x [|y l]]; reflexivity. Qed.

Lemma sub_toks_print_ST : forall t, ST t.
Proof.
  induction t as [s|z|f|b| |l IH|l IH|l IH|l IH] using tree_ind'; intros Hc rest.
  - (* Str *)
    cbn [print quote_specials app clean] in *. cbn [sub_toks]. rewrite sub_tok_str by exact Hc.
    destruct (sub_toks rest); reflexivity.
  - cbn [print quote_specials app]. rewrite sub_toks_plain by reflexivity. destruct (sub_toks rest); reflexivity.
  - destruct f as [x| |[]]; cbn [print quote_specials app].
    + rewrite sub_toks_plain by reflexivity. destruct (sub_toks rest); reflexivity.
    + cbn [sub_toks sub_tok]. destruct (sub_toks rest); reflexivity.
    + cbn [sub_toks]. destruct (sub_toks rest); reflexivity.
    + cbn [sub_toks sub_tok]. destruct (sub_toks rest); reflexivity.
  - destruct b; cbn [print quote_specials app]; rewrite sub_toks_plain by reflexivity;
      destruct (sub_toks rest); reflexivity.
  - cbn [print quote_specials app]. rewrite sub_toks_plain by reflexivity. destruct (sub_toks rest); reflexivity.
  - (* List *)
    cbn [quote_specials clean] in *. rewrite !print_List. rewrite <- app_comm_cons, <- app_assoc.
    rewrite sub_toks_plain by reflexivity. rewrite (sub_toks_seq l IH Hc).
    rewrite sub_toks_plain_app by reflexivity.
    destruct (sub_toks rest); cbn [option_map]; [|reflexivity].
    cbn [app]. rewrite <- app_assoc. reflexivity.
  - (* Tuple *)
    cbn [quote_specials clean] in *. rewrite !print_Tuple, tuple_close_map. rewrite <- app_comm_cons, <- app_assoc.
    rewrite sub_toks_plain by reflexivity. rewrite (sub_toks_seq l IH Hc).
    rewrite sub_toks_plain_app by apply tuple_close_plain.
    destruct (sub_toks rest); cbn [option_map]; [|reflexivity].
    cbn [app]. rewrite <- app_assoc. reflexivity.
  - (* SetT *)
    destruct l as [|x l].
    { cbn [print quote_specials map app]. rewrite sub_toks_plain by reflexivity. destruct (sub_toks rest); reflexivity. }
    cbn [quote_specials clean] in Hc |- *. cbn [map]. rewrite !print_SetT. rewrite <- app_comm_cons, <- app_assoc.
    rewrite sub_toks_plain by reflexivity.
    change (quote_specials x :: map quote_specials l) with (map quote_specials (x :: l)).
    rewrite (sub_toks_seq (x :: l) IH Hc).
    rewrite sub_toks_plain_app by reflexivity.
    destruct (sub_toks rest); cbn [option_map]; [|reflexivity].
    cbn [app]. rewrite <- app_assoc. reflexivity.
  - (* Dict *)
    cbn [quote_specials clean] in *. rewrite !print_Dict. rewrite <- app_comm_cons, <- app_assoc.
    rewrite sub_toks_plain by reflexivity. rewrite map_map.
    rewrite (sub_toks_sepc pkv (fun kv => pkv (qkv quote_specials kv))).
    + rewrite sub_toks_plain_app by reflexivity.
      destruct (sub_toks rest); cbn [option_map]; [|reflexivity].
      cbn [app]. rewrite <- app_assoc. reflexivity.
    + clear rest. induction IH as [|[k v] l [Hk Hv] Hl IH']; constructor.
      * intros rest. cbn [forallb] in Hc. apply andb_true_iff in Hc as [Hc _].
        apply andb_true_iff in Hc as [Hc Hcv]. apply andb_true_iff in Hc as [Hck Hsk].
        cbn [fst snd pkv qkv] in *. rewrite <- !app_assoc, <- !app_comm_cons.
        rewrite (Hk Hck), (quote_specials_id k Hsk). rewrite sub_toks_plain by reflexivity.
        rewrite (Hv Hcv). destruct (sub_toks rest); cbn [option_map]; [|reflexivity].
        rewrite <- app_assoc. reflexivity.
      * apply IH'. cbn [forallb] in Hc. apply andb_true_iff in Hc as [_ Hc]. exact Hc.
Qed.

Lemma sub_toks_print t : clean t = true -> sub_toks (print t) = Some (print (quote_specials t)).
Proof.
  intros H. rewrite <- (app_nil_r (print t)) at 1. rewrite (sub_toks_print_ST t H).
  cbn [sub_toks option_map]. rewrite app_nil_r. reflexivity.
Qed.

(* ---- (c) _recursive_replace undoes the quoting on clean trees *)
Lemma rrepl_str_clean s : nan_inf_free s = true -> rrepl (Str s) = Str s.
Proof.
  intros H. cbn [rrepl].
  destruct (text_eqb s w_nan) eqn:E1.
  { apply text_eqb_eq in E1. subst s. vm_compute in H. discriminate H. }
  destruct (text_eqb s w_inf) eqn:E2.
  { apply text_eqb_eq in E2. subst s. vm_compute in H. discriminate H. }
  destruct (text_eqb s (la "-inf")) eqn:E3.
  { apply text_eqb_eq in E3. subst s. vm_compute in H. discriminate H. }
  reflexivity.
Qed.

Lemma rrepl_quote_specials : forall t, clean t = true -> rrepl (quote_specials t) = t.
Proof.
  induction t as [s|z|f|b| |l IH|l IH|l IH|l IH] using tree_ind'; intros H; try reflexivity.
  - apply rrepl_str_clean. exact H.
  - destruct f as [x| |[]]; reflexivity.
  - cbn [quote_specials rrepl clean] in *. rewrite map_map.
    rewrite (map_id_forall _ _ _ IH H). reflexivity.
  - cbn [quote_specials rrepl clean] in *. rewrite map_map.
    rewrite (map_id_forall _ _ _ IH H). reflexivity.
  - cbn [quote_specials rrepl clean] in *. rewrite map_map.
    rewrite (map_id_forall _ _ _ IH H). reflexivity.
  - cbn [quote_specials rrepl clean] in *. rewrite map_map. f_equal.
    apply (map_id_forall _ (fun kv => match kv with (k, v) => clean k && no_special k && clean v end)); [|exact H].
    eapply Forall_impl; [|exact IH]. intros [k v] [_ Hv] Hc. cbn [fst snd qkv] in *.
    apply andb_true_iff in Hc as [_ Hc]. rewrite Hv by exact Hc. reflexivity.
Qed.

Lemma decode_true_print k t : clean t = true -> decode true (ETag k (print t)) = Some t.
Proof.
  intros H. cbn [decode]. rewrite (sub_toks_print t H), literal_eval_print.
  rewrite (rrepl_quote_specials t H). reflexivity.
Qed.

Lemma attr_roundtrip_quirk : forall t, encodable t = true -> clean t = true ->
  exists e, encode true t = Ok e /\ decode true e = Some t.
Proof.
  intros t Ht Hc. destruct t; try discriminate Ht.
  - exists (EStr s). split; [reflexivity|]. cbn [decode clean] in *. rewrite resub_free by exact Hc. reflexivity.
  - eexists; split; reflexivity.
  - eexists; split; reflexivity.
  - eexists; split; reflexivity.
  - exists (ETag KList (print (List l))). cbn [encode tag_of]. rewrite decode_true_print by exact Hc. split; reflexivity.
  - exists (ETag KTuple (print (Tuple l))). cbn [encode tag_of]. rewrite decode_true_print by exact Hc. split; reflexivity.
  - exists (ETag KSet (print (SetT l))). cbn [encode tag_of]. rewrite decode_true_print by exact Hc. split; reflexivity.
  - exists (ETag KDict (print (Dict l))). cbn [encode tag_of]. rewrite decode_true_print by exact Hc. split; reflexivity.
Qed.

(* hypotheses of the quirk theorem are satisfiable with special floats at depth *)
Example attr_roundtrip_quirk_nonvacuous :
  let t := Dict [(Str (la "a"), List [Flt FNan; Flt (FInf true); Tuple [Flt (FInf false)]])] in
  encodable t = true /\ clean t = true /\ no_special t = false.
Proof. vm_compute. auto. Qed.

(* ================================================================ 7. injectivity of the specification encoder *)
Lemma encode_ok_encodable q t e : encode q t = Ok e -> encodable t = true.
Proof. destruct t; try reflexivity. discriminate. Qed.

Lemma encode_injective_spec : forall t t' e, encode false t = Ok e -> encode false t' = Ok e -> t = t'.
Proof.
  intros t t' e H H'.
  destruct (attr_roundtrip_spec t (encode_ok_encodable _ _ _ H)) as (e1 & E1 & D1).
  destruct (attr_roundtrip_spec t' (encode_ok_encodable _ _ _ H')) as (e2 & E2 & D2).
  rewrite H in E1. rewrite H' in E2. inversion E1. inversion E2. subst e1 e2.
  rewrite D1 in D2. inversion D2. reflexivity.
Qed.
