(* C08 - proofs about the specification machine `step pf all_off`. *)
From Coq Require Import ZArith List Bool Lia Arith.
From Verif Require Import Lib.C08_Lru Model.C08_Cache.
Import ListNotations.
Open Scope Z_scope.

(* ------------------------------------------------------------------------------------ key equality *)
Lemma zlist_eqb_eq : forall a b, zlist_eqb a b = true -> a = b.
Proof.
  induction a as [|x a IH]; destruct b as [|y b]; simpl; intros H; try discriminate; auto.
  apply andb_true_iff in H. destruct H as [H1 H2]. apply Z.eqb_eq in H1. subst. f_equal. auto.
Qed.

Lemma zlist_eqb_refl : forall a, zlist_eqb a a = true.
Proof. induction a; simpl; auto. rewrite Z.eqb_refl. auto. Qed.

Lemma karg_eqb_eq : forall a b, karg_eqb all_off a b = true -> a = b.
Proof.
  intros [t1 [d1 w1]] [t2 [d2 w2]]. unfold karg_eqb. simpl. intros H.
  apply andb_true_iff in H. destruct H as [H H3]. apply andb_true_iff in H. destruct H as [H1 H2].
  apply Bool.eqb_prop in H1. apply zlist_eqb_eq in H2. apply zlist_eqb_eq in H3. subst. reflexivity.
Qed.

Lemma kargs_eqb_eq : forall a b, kargs_eqb all_off a b = true -> a = b.
Proof.
  induction a as [|x a IH]; destruct b as [|y b]; simpl; intros H; try discriminate; auto.
  apply andb_true_iff in H. destruct H as [H1 H2]. apply karg_eqb_eq in H1. subst. f_equal. auto.
Qed.

Lemma key_eqb_eq : forall a b, key_eqb all_off a b = true -> a = b.
Proof.
  intros [e1 a1] [e2 a2]. unfold key_eqb. simpl. intros H.
  apply andb_true_iff in H. destruct H as [H1 H2]. apply Z.eqb_eq in H1. apply kargs_eqb_eq in H2. subst. reflexivity.
Qed.

(* ------------------------------------------------------------------------------------ lists *)
Lemma upd_nth_length : forall (A : Type) n (f : A -> A) l, length (upd_nth n f l) = length l.
Proof. induction n; destruct l; simpl; auto. Qed.

Lemma nth_upd_nth_other : forall (A : Type) n m (f : A -> A) l d, n <> m -> nth n (upd_nth m f l) d = nth n l d.
Proof.
  induction n; destruct m; destruct l; simpl; intros; auto; try congruence.
Qed.

Lemma nth_upd_nth_same : forall (A : Type) n (f : A -> A) l d, (n < length l)%nat -> nth n (upd_nth n f l) d = f (nth n l d).
Proof.
  induction n; destruct l; simpl; intros; auto; try lia. apply IHn. lia.
Qed.

Lemma nth_error_upd_nth : forall (A : Type) n m (f : A -> A) l o,
  nth_error (upd_nth m f l) n = Some o ->
  exists o0, nth_error l n = Some o0 /\ o = (if Nat.eqb n m then f o0 else o0).
Proof.
  induction n; destruct m; destruct l; simpl; intros o H; try discriminate.
  - inversion H. eauto.
  - inversion H. eauto.
  - eauto.
  - apply IHn in H. exact H.
Qed.

Lemma nth_error_nth_obj : forall l n o, nth_error l n = Some o -> nth n l dummy_obj = o.
Proof. intros. apply nth_error_nth. exact H. Qed.

Section Spec.
  Variable pf : Z -> Z -> list karg -> option arr.
  Notation Q := all_off.

  (* ---------------------------------------------------------------------------------- the pure meaning *)
  Definition p_child (w : world) (p : nat) : option arr :=
    let o := get_obj w p in pf (convfn (okind o)) 0 [(false, contents w o)].

  Definition p_sys (w : world) (p : nat) (s : Z) : option arr :=
    let o := get_obj w p in if okind o =? s then Some (contents w o) else p_child w p.

  Definition p_rot (w : world) (p : nat) (fn : Z) : option arr :=
    match p_sys w p 2 with None => None | Some llh => pf fn 0 (rot_args llh) end.

  Definition p_ingr (w : world) (p qo : nat) (qt : Z) : option (list arr) :=
    if qt <=? 2 then
      match p_sys w qo (okind (get_obj w p)) with
      | None => None
      | Some x2 => Some [x2; contents w (get_obj w p)]
      end
    else
      match p_sys w p 1 with
      | None => None
      | Some x1 =>
          match p_sys w qo 1 with
          | None => None
          | Some x2 => match p_rot w p 3 with None => None | Some m => Some [x1; x2; m] end
          end
      end.

  Definition p_derived (w : world) (p : nat) (qt : Z) : option arr :=
    if 5 <=? qt then p_rot w p (qt - 2)
    else match oother (get_obj w p) with
         | None => None
         | Some qo => match p_ingr w p qo qt with
                      | None => None
                      | Some l => pf (10 + qt) 0 (map (fun a => (false, a)) l)
                      end
         end.

  (* ---------------------------------------------------------------------------------- invariant *)
  Definition lru_valid (w : world) : Prop :=
    forall fn k s c, In ((k, s), c) (lrus w fn) -> k = (-1, []) \/ pf fn (fst k) (snd k) = Some (fst c).

  Definition obj_valid (w : world) (p : nat) (o : obj) : Prop :=
    (forall c, ochild o = Some c -> p_child w p = Some (fst c))
    /\ (forall qt c, In (qt, c) (oderived o) -> p_derived w p qt = Some (fst c)).

  Definition wf (w : world) : Prop :=
    (forall p o, nth_error (objs w) p = Some o ->
       (obuf o < length (bufs w))%nat /\ (forall y, oother o = Some y -> (y < length (objs w))%nat))
    /\ (forall s p, slot w s = Some p -> (p < length (objs w))%nat).

  Definition inv (w : world) : Prop :=
    reg w = None /\ poll w = [] /\ lru_valid w /\ wf w
    /\ (forall p o, nth_error (objs w) p = Some o -> obj_valid w p o).

  (* two worlds show object j alike *)
  Definition agree (w w1 : world) (j : nat) : Prop :=
    okind (get_obj w1 j) = okind (get_obj w j) /\ contents w1 (get_obj w1 j) = contents w (get_obj w j).

  Lemma p_child_agree : forall w w1 j, agree w w1 j -> p_child w1 j = p_child w j.
  Proof. intros w w1 j [A B]. unfold p_child. rewrite A, B. reflexivity. Qed.

  Lemma p_sys_agree : forall w w1 j s, agree w w1 j -> p_sys w1 j s = p_sys w j s.
  Proof. intros w w1 j s H. unfold p_sys. rewrite (p_child_agree _ _ _ H). destruct H as [A B]. rewrite A, B. reflexivity. Qed.

  Lemma p_rot_agree : forall w w1 j fn, agree w w1 j -> p_rot w1 j fn = p_rot w j fn.
  Proof. intros. unfold p_rot. rewrite (p_sys_agree _ _ _ _ H). reflexivity. Qed.

  Lemma p_ingr_agree : forall w w1 p qo qt, agree w w1 p -> agree w w1 qo -> p_ingr w1 p qo qt = p_ingr w p qo qt.
  Proof.
    intros w w1 p qo qt H1 H2. unfold p_ingr.
    rewrite !(p_sys_agree _ _ _ _ H1), !(p_sys_agree _ _ _ _ H2), (p_rot_agree _ _ _ _ H1).
    destruct H1 as [A B]. rewrite A, B. reflexivity.
  Qed.

  Lemma p_derived_agree : forall w w1 p qt,
    agree w w1 p -> oother (get_obj w1 p) = oother (get_obj w p) ->
    (forall y, oother (get_obj w p) = Some y -> agree w w1 y) ->
    p_derived w1 p qt = p_derived w p qt.
  Proof.
    intros w w1 p qt H1 HO H2. unfold p_derived. rewrite (p_rot_agree _ _ _ _ H1), HO.
    destruct (oother (get_obj w p)) as [y|]; auto. rewrite (p_ingr_agree _ _ _ _ _ H1 (H2 y eq_refl)). reflexivity.
  Qed.

  (* worlds that differ in memo state only *)
  Definition same_static (w w1 : world) : Prop :=
    bufs w1 = bufs w /\ map o_clear (objs w1) = map o_clear (objs w) /\ slots w1 = slots w.

  Lemma same_static_refl : forall w, same_static w w.
  Proof. intros. repeat split. Qed.

  Lemma same_static_trans : forall a b c, same_static a b -> same_static b c -> same_static a c.
  Proof. intros a b c (A & B & C) (D & E & F). repeat split; congruence. Qed.

  Lemma o_clear_dummy : o_clear dummy_obj = dummy_obj.
  Proof. reflexivity. Qed.

  Lemma same_static_obj : forall w w1 j, same_static w w1 -> o_clear (get_obj w1 j) = o_clear (get_obj w j).
  Proof.
    intros w w1 j (_ & B & _). unfold get_obj.
    rewrite <- o_clear_dummy at 1. rewrite <- (map_nth o_clear (objs w1)).
    rewrite B. rewrite map_nth. reflexivity.
  Qed.

  Lemma same_static_fields : forall w w1 j, same_static w w1 ->
    okind (get_obj w1 j) = okind (get_obj w j) /\ obuf (get_obj w1 j) = obuf (get_obj w j)
    /\ oview (get_obj w1 j) = oview (get_obj w j) /\ oother (get_obj w1 j) = oother (get_obj w j)
    /\ oro (get_obj w1 j) = oro (get_obj w j).
  Proof.
    intros w w1 j H. pose proof (same_static_obj w w1 j H) as E.
    destruct (get_obj w1 j), (get_obj w j). unfold o_clear, o_set_cache in E. simpl in *. inversion E. auto 6.
  Qed.

  Lemma same_static_agree : forall w w1 j, same_static w w1 -> agree w w1 j.
  Proof.
    intros w w1 j H. destruct (same_static_fields w w1 j H) as (A & B & C & _). destruct H as (HB & _).
    split; [exact A|]. unfold contents. rewrite HB, B, C. reflexivity.
  Qed.

  Lemma same_static_len : forall w w1, same_static w w1 -> length (objs w1) = length (objs w).
  Proof. intros w w1 (_ & B & _). rewrite <- (map_length o_clear (objs w1)), B, map_length. reflexivity. Qed.

  Lemma same_static_pure : forall w w1, same_static w w1 ->
    (forall p, p_child w1 p = p_child w p) /\ (forall p qt, p_derived w1 p qt = p_derived w p qt).
  Proof.
    intros w w1 H. split; intros.
    - apply p_child_agree. apply same_static_agree. exact H.
    - apply p_derived_agree; [apply same_static_agree; exact H| |intros; apply same_static_agree; exact H].
      apply (same_static_fields w w1 p H).
  Qed.

  Lemma same_static_wf : forall w w1, same_static w w1 -> wf w -> wf w1.
  Proof.
    intros w w1 H [W1 W2]. pose proof (same_static_len _ _ H) as L. split.
    - intros p o E. pose proof (nth_error_nth_obj _ _ _ E) as G.
      assert (P : (p < length (objs w))%nat) by (rewrite <- L; apply nth_error_Some; congruence).
      destruct (nth_error (objs w) p) as [o0|] eqn:E0; [|apply nth_error_None in E0; lia].
      pose proof (nth_error_nth_obj _ _ _ E0) as G0. destruct (W1 _ _ E0) as [A B].
      destruct (same_static_fields w w1 p H) as (_ & F2 & _ & F4 & _). unfold get_obj in F2, F4. rewrite G, G0 in F2, F4.
      destruct H as (HB & _). rewrite HB, F2, L. split; [exact A|]. intros y Hy. rewrite F4 in Hy. auto.
    - intros s p E. unfold slot in *. destruct H as (_ & _ & HS). rewrite HS in E. rewrite L. eauto.
  Qed.

  (* an update of object p that only touches its memo fields *)
  Lemma upd_obj_static : forall w p f, (forall o, o_clear (f o) = o_clear o) -> same_static w (upd_obj w p f).
  Proof.
    intros w p f H. repeat split. unfold upd_obj. simpl.
    generalize (objs w) p. induction l as [|x l IH]; destruct p0; simpl; auto; f_equal; auto.
  Qed.

  Lemma inv_transfer : forall w w1, same_static w w1 -> inv w ->
    reg w1 = None -> poll w1 = [] -> lru_valid w1 ->
    (forall p o, nth_error (objs w1) p = Some o -> obj_valid w p o) -> inv w1.
  Proof.
    intros w w1 H (_ & _ & _ & W & _) R P L O.
    split; [exact R|]. split; [exact P|]. split; [exact L|]. split; [apply (same_static_wf _ _ H W)|].
    intros p o H0. split.
    - intros c Hc. destruct (same_static_pure _ _ H) as [A _]. rewrite A. apply (O p o H0). exact Hc.
    - intros qt c Hc. destruct (same_static_pure _ _ H) as [_ B]. rewrite B. apply (O p o H0). exact Hc.
  Qed.

  (* ---------------------------------------------------------------------------------- helpers *)
  Lemma resolve_nopoll : forall w c, poll w = [] -> resolve w c = fst c.
  Proof. intros. unfold resolve. rewrite H. reflexivity. Qed.

  Lemma get_obj_cases : forall w p, nth_error (objs w) p = Some (get_obj w p) \/ get_obj w p = dummy_obj.
  Proof.
    intros. unfold get_obj. destruct (nth_error (objs w) p) eqn:E.
    - left. rewrite (nth_error_nth _ _ _ E). reflexivity.
    - right. apply nth_overflow. apply nth_error_None. exact E.
  Qed.

  Lemma inv_cache_only : forall w w1, inv w ->
    bufs w1 = bufs w -> objs w1 = objs w -> slots w1 = slots w -> reg w1 = None -> poll w1 = [] -> lru_valid w1 -> inv w1.
  Proof.
    intros w w1 I B O S R P L. apply (inv_transfer w w1); auto.
    - repeat split; congruence.
    - intros p o E. rewrite O in E. destruct I as (_ & _ & _ & _ & V). auto.
  Qed.

  Lemma lru_get_ok : forall w fn ext args sr w1 oc,
    inv w -> (ext, args) <> (-1, []) ->
    lru_get pf Q w fn ext args sr = (w1, oc) ->
    option_map fst oc = pf fn ext args /\ same_static w w1 /\ objs w1 = objs w /\ inv w1.
  Proof.
    intros w fn ext args sr w1 oc I NJ H. unfold lru_get in H.
    pose proof I as (IR & IP & IL & IW & IO).
    destruct (lru_take (keq_w Q w) (ext, args, sr) (lrus w fn)) as [[e rest]|] eqn:T.
    - destruct (lru_take_spec _ _ _ _ _ _ _ T) as (A & B & C & _).
      unfold keq_w in A. simpl in A. rewrite andb_true_r in A. apply key_eqb_eq in A.
      destruct e as [[k s] c]. simpl in A. subst k.
      assert (V : pf fn ext args = Some (fst c)).
      { destruct (IL _ _ _ _ B) as [J|J]; [congruence|exact J]. }
      assert (L1 : lru_valid (set_lru w fn ((ext, args, s, c) :: rest))).
      { intros g k s' c' Hin. unfold set_lru in Hin. simpl in Hin. destruct (g =? fn) eqn:G.
        - apply Z.eqb_eq in G. subst g. destruct Hin as [Hin|Hin]; [inversion Hin; subst; right; exact V|].
          apply (IL fn k s' c'). apply C. exact Hin.
        - apply (IL g k s' c'). exact Hin. }
      simpl in H. destruct (descs_differ (ext, args) (ext, args)); inversion H; subst; simpl;
        (split; [symmetry; exact V|]); (split; [repeat split|]); (split; [reflexivity|]);
        apply (inv_cache_only w); auto.
    - destruct (pf fn ext args) as [v|] eqn:V.
      + inversion H; subst. simpl. split; [reflexivity|]. split; [repeat split|]. split; [reflexivity|].
        apply (inv_cache_only w); auto.
        intros g k s' c' Hin. simpl in Hin. destruct (g =? fn) eqn:G.
        * apply Z.eqb_eq in G. subst g. apply lru_insert_in in Hin. destruct Hin as [Hin|Hin].
          -- inversion Hin; subst. right. exact V.
          -- apply (IL fn k s' c'). exact Hin.
        * apply (IL g k s' c'). exact Hin.
      + inversion H; subst. simpl. split; [reflexivity|]. split; [repeat split|]. split; [reflexivity|].
        exact I.
  Qed.

  Lemma inv_objs : forall w p o, inv w -> nth_error (objs w) p = Some o -> obj_valid w p o.
  Proof. intros w p o (_ & _ & _ & _ & V) E. auto. Qed.

  (* storing valid memo data in object p keeps the invariant *)
  Lemma inv_upd_obj : forall w p f,
    inv w -> (forall o, o_clear (f o) = o_clear o) ->
    (forall o, nth_error (objs w) p = Some o -> obj_valid w p o -> obj_valid w p (f o)) ->
    inv (upd_obj w p f) /\ same_static w (upd_obj w p f).
  Proof.
    intros w p f I HS HV. pose proof (upd_obj_static w p f HS) as SS. split; [|exact SS].
    pose proof I as (IR & IP & IL & IW & IO).
    apply (inv_transfer w); auto.
    intros p' o E. unfold upd_obj in E. simpl in E.
    apply nth_error_upd_nth in E. destruct E as (o0 & E0 & Eo).
    destruct (Nat.eqb p' p) eqn:EP.
    - apply Nat.eqb_eq in EP. subst p' o. apply HV; auto.
    - subst o. auto.
  Qed.

  Lemma inv_set_next : forall w n, inv w -> inv (set_next w n) /\ same_static w (set_next w n).
  Proof.
    intros w n I. pose proof I as (IR & IP & IL & IW & IO). split; [|repeat split].
    apply (inv_cache_only w); auto.
  Qed.

  Lemma get_child_ok : forall w p w1 oc,
    inv w -> get_child pf Q w p = (w1, oc) ->
    option_map fst oc = p_child w p /\ same_static w w1 /\ inv w1.
  Proof.
    intros w p w1 oc I H. unfold get_child in H.
    destruct (ochild (get_obj w p)) as [c|] eqn:C.
    - inversion H; subst w1 oc. split; [|split; [apply same_static_refl|exact I]]. simpl.
      destruct (get_obj_cases w p) as [E|E]; [|rewrite E in C; discriminate].
      symmetry. apply (inv_objs _ _ _ I E). exact C.
    - destruct (lru_get pf Q w (convfn (okind (get_obj w p))) 0 [(false, contents w (get_obj w p))]
                  (SBufConv (obuf (get_obj w p)) (oview (get_obj w p)))) as [w0 oc0] eqn:L.
      apply lru_get_ok in L; [|exact I|discriminate]. destruct L as (LV & LS & LO & LI).
      destruct oc0 as [c|].
      + unfold hand_out, fresh_copy in H. simpl in H.
        pose proof LI as (R0 & P0 & _).
        set (c1 := (resolve w0 c, nextid w0)) in *.
        set (wn := set_next w0 (S (nextid w0))) in *.
        destruct (inv_set_next w0 (S (nextid w0)) LI) as [In1 Sn1]. fold wn in In1, Sn1.
        assert (F1 : resolve w0 c = fst c) by (apply resolve_nopoll; exact P0).
        simpl in LV.
        destruct (keeps_memory (resolve w0 c)).
        * inversion H; subst w1 oc. split; [simpl; rewrite F1; exact LV|].
          destruct (inv_upd_obj wn p (fun o' => o_set_cache o' (Some c1) (oderived o')) In1) as [A B].
          { intros o. reflexivity. }
          { intros o E [V1 V2]. split; [|exact V2]. simpl. intros c' Hc. inversion Hc; subst c'.
            destruct (same_static_pure _ _ (same_static_trans _ _ _ LS Sn1)) as [PC _]. rewrite PC.
            simpl. rewrite F1. exact (eq_sym LV). }
          split; [|exact A]. apply (same_static_trans _ _ _ LS). apply (same_static_trans _ _ _ Sn1). exact B.
        * pose proof In1 as (_ & Pn & _).
          pose (c2 := (resolve wn c1, nextid wn)).
          pose (wm := set_next wn (S (nextid wn))).
          change (set_next wn (S (S (nextid w0)))) with wm in H.
          change (resolve wn c1, S (nextid w0)) with c2 in H.
          destruct (inv_set_next wn (S (nextid wn)) In1) as [In2 Sn2]. fold wm in In2, Sn2.
          assert (F2 : fst c2 = fst c) by (unfold c2; simpl; rewrite (resolve_nopoll _ _ Pn); exact F1).
          inversion H; subst w1 oc. split; [change (option_map fst (Some c2)) with (Some (fst c2)); rewrite F2; exact LV|].
          destruct (inv_upd_obj wm p (fun o' => o_set_cache o' (Some c2) (oderived o')) In2) as [A B].
          { intros o. reflexivity. }
          { intros o E [V1 V2]. split; [|exact V2]. simpl. intros c' Hc. inversion Hc; subst c'.
            destruct (same_static_pure _ _ (same_static_trans _ _ _ LS (same_static_trans _ _ _ Sn1 Sn2))) as [PC _].
            rewrite PC. change (fst (resolve wn c1, S (nextid w0))) with (fst c2). rewrite F2. exact (eq_sym LV). }
          split; [|exact A].
          apply (same_static_trans _ _ _ LS). apply (same_static_trans _ _ _ Sn1).
          apply (same_static_trans _ _ _ Sn2). exact B.
      + inversion H; subst w1 oc. split; [exact LV|]. split; [exact LS|exact LI].
  Qed.

  Lemma to_sys_ok : forall w p s w1 oa,
    inv w -> to_sys pf Q w p s = (w1, oa) -> oa = p_sys w p s /\ same_static w w1 /\ inv w1.
  Proof.
    intros w p s w1 oa I H. unfold to_sys in H. unfold p_sys.
    destruct (okind (get_obj w p) =? s).
    - inversion H; subst w1 oa. split; [reflexivity|]. split; [apply same_static_refl|exact I].
    - destruct (get_child pf Q w p) as [w0 oc] eqn:G. apply get_child_ok in G; [|exact I].
      destruct G as (GV & GS & GI). inversion H; subst w1 oa. split; [|split; assumption].
      rewrite <- GV. pose proof GI as (_ & P0 & _). destruct oc as [c|]; simpl; [|reflexivity].
      rewrite (resolve_nopoll _ _ P0). reflexivity.
  Qed.

  (* ---------------------------------------------------------------------------------- single operations *)
  Definition p_conv_obs (w : world) (p : nat) : obs :=
    match p_child w p with None => None | Some a => Some (a, 0) end.

  Lemma do_conv_ok : forall w p w1 x,
    inv w -> do_conv pf Q w p = (w1, x) -> x = p_conv_obs w p /\ same_static w w1 /\ inv w1.
  Proof.
    intros w p w1 x I H. unfold do_conv in H.
    destruct (get_child pf Q w p) as [w0 oc] eqn:G. apply get_child_ok in G; [|exact I].
    destruct G as (GV & GS & GI). unfold p_conv_obs. rewrite <- GV.
    pose proof GI as (R0 & P0 & L0 & W0 & O0).
    destruct oc as [c|]; inversion H; subst w1 x; simpl.
    - rewrite (resolve_nopoll _ _ P0). split; [reflexivity|]. split; [exact GS|].
      unfold hand_reg. simpl. replace (match fst (fst c) with [_] => None | _ => None end) with (@None nat)
        by (destruct (fst (fst c)) as [|? [|? ?]]; reflexivity).
      apply (inv_cache_only w0); auto.
    - split; [reflexivity|]. split; [exact GS|]. apply (inv_cache_only w0); auto.
  Qed.

  Definition p_raw_obs (fn ext : Z) (args : list karg) : obs :=
    match pf fn ext args with None => None | Some a => Some (a, 1) end.

  Lemma do_raw_ok : forall w p fn ext args mark w1 x,
    inv w -> (ext, args) <> (-1, []) -> do_raw pf Q w p fn ext args mark = (w1, x) ->
    x = p_raw_obs fn ext args /\ same_static w w1 /\ inv w1.
  Proof.
    intros w p fn ext args mark w1 x I NJ H. unfold do_raw in H.
    destruct (lru_get pf Q w fn ext args (if mark then SBufConv (obuf (get_obj w p)) (oview (get_obj w p)) else SNone))
      as [w0 oc] eqn:L.
    apply lru_get_ok in L; auto. destruct L as (LV & LS & LO & LI).
    pose proof LI as (R0 & P0 & L0 & W0 & O0).
    simpl in H. rewrite andb_false_r in H. unfold p_raw_obs. rewrite <- LV.
    destruct oc as [c|]; inversion H; subst w1 x; simpl.
    - unfold resolve. simpl. rewrite P0. simpl. split; [reflexivity|]. split; [exact LS|].
      apply (inv_cache_only w0); auto.
    - split; [reflexivity|]. split; [exact LS|]. apply (inv_cache_only w0); auto.
  Qed.

  Lemma flood_valid : forall n l,
    (forall k s c, In ((k, s), c) l -> k = (-1, []) \/ exists fn, pf fn (fst k) (snd k) = Some (fst c)) ->
    forall k s c, In ((k, s), c) (flood n l) -> k = (-1, []) \/ exists fn, pf fn (fst k) (snd k) = Some (fst c).
  Proof.
    induction n as [|n IH]; simpl; intros l H k s c Hin; [eauto|].
    apply (IH _) in Hin; auto. intros k' s' c' Hin'. apply lru_insert_in in Hin'.
    destruct Hin' as [E|E]; [inversion E; subst; left; reflexivity|eauto].
  Qed.

  (* ---------------------------------------------------------------------------------- item assignment *)
  Lemma clear_from_nth : forall w x l i n o1,
    nth_error (clear_from Q w x i l) n = Some o1 ->
    exists o, nth_error l n = Some o /\ o1 = (if must_clear Q w x (i + n) o then o_clear o else o).
  Proof.
    induction l as [|a l IH]; intros i n o1 H; destruct n; simpl in *; try discriminate.
    - inversion H. exists a. rewrite Nat.add_0_r. auto.
    - apply IH in H. destruct H as (o & A & B). exists o. replace (i + S n)%nat with (S i + n)%nat by lia. auto.
  Qed.

  Lemma clear_from_static : forall w x l i, map o_clear (clear_from Q w x i l) = map o_clear l.
  Proof.
    induction l as [|a l IH]; intros; simpl; auto. rewrite IH.
    destruct (must_clear Q w x i a); reflexivity.
  Qed.

  Lemma o_clear_valid : forall w p o, obj_valid w p (o_clear o).
  Proof. intros. split; simpl; intros; [discriminate|contradiction]. Qed.

  Definition cleared_world (w : world) (x : nat) : world := set_objs w (clear_from Q w x 0 (objs w)).

  Lemma cleared_static : forall w x, same_static w (cleared_world w x).
  Proof. intros. repeat split. simpl. apply clear_from_static. Qed.

  Lemma cleared_inv : forall w x, inv w -> inv (cleared_world w x).
  Proof.
    intros w x I. pose proof I as (IR & IP & IL & IW & IO).
    apply (inv_transfer w); auto; [apply cleared_static|].
    intros p o E. simpl in E. apply clear_from_nth in E. destruct E as (o0 & E0 & Eo).
    destruct (must_clear Q w x (0 + p) o0); subst o; [apply o_clear_valid|auto].
  Qed.

  (* whoever still has memo data after the clearing does not look at the assigned buffer *)
  Lemma cleared_untouched : forall w x p o,
    nth_error (objs (cleared_world w x)) p = Some o ->
    (ochild o <> None \/ oderived o <> []) ->
    obuf o <> obuf (get_obj w x)
    /\ (forall y, oother o = Some y -> obuf (get_obj w y) <> obuf (get_obj w x)).
  Proof.
    intros w x p o E NE. simpl in E. apply clear_from_nth in E. destruct E as (o0 & E0 & Eo).
    destruct (must_clear Q w x (0 + p) o0) eqn:M.
    - subst o. simpl in NE. destruct NE as [NE|NE]; congruence.
    - subst o. unfold must_clear in M. simpl in M. apply orb_false_iff in M. destruct M as [M1 M2].
      apply Nat.eqb_neq in M1. split; [exact M1|].
      intros y Hy. rewrite Hy in M2. unfold shares_buf in M2. apply Nat.eqb_neq in M2. congruence.
  Qed.

  Lemma agree_write : forall w b f j,
    obuf (get_obj w j) <> b -> agree w (set_bufs w (upd_nth b f (bufs w))) j.
  Proof.
    intros w b f j H. split; [reflexivity|].
    unfold contents, get_obj. simpl. rewrite nth_upd_nth_other; auto.
  Qed.

  Lemma setrow_inv : forall w x v, inv w ->
    let w' := cleared_world w x in
    inv (set_bufs w' (upd_nth (obuf (get_obj w x)) (write_row0 v) (bufs w'))).
  Proof.
    intros w x v I w'. pose proof (cleared_inv w x I) as I'. fold w' in I'.
    pose proof I' as (IR & IP & IL & [W1 W2] & IO).
    set (b := obuf (get_obj w x)). set (w1 := set_bufs w' (upd_nth b (write_row0 v) (bufs w'))).
    pose proof (cleared_static w x) as SS. fold w' in SS.
    split; [exact IR|]. split; [exact IP|]. split; [exact IL|]. split.
    - split.
      + intros p o E. simpl. rewrite upd_nth_length. apply (W1 p o E).
      + intros s p E. apply (W2 s p E).
    - intros p o E. change (objs w1) with (objs w') in E.
      pose proof (nth_error_nth_obj _ _ _ E) as G. fold (get_obj w' p) in G.
      destruct (IO p o E) as [V1 V2]. split.
      + intros c Hc.
        destruct (cleared_untouched w x p o E) as [U1 _]; [left; congruence|].
        rewrite (p_child_agree w' w1 p); [auto|]. apply agree_write. rewrite G. exact U1.
      + intros qt c Hc.
        destruct (cleared_untouched w x p o E) as [U1 U2]; [right; intro Z; rewrite Z in Hc; contradiction|].
        rewrite (p_derived_agree w' w1 p qt); [auto| |reflexivity|].
        * apply agree_write. rewrite G. exact U1.
        * intros y Hy. apply agree_write. rewrite G in Hy.
          destruct (same_static_fields w w' y SS) as (_ & F2 & _). rewrite F2. apply U2. exact Hy.
  Qed.

  (* ---------------------------------------------------------------------------------- derived quantities *)
  Lemma assoc_z_in : forall (A : Type) k (l : list (Z * A)) v, assoc_z k l = Some v -> In (k, v) l.
  Proof.
    induction l as [|[k' v'] l IH]; simpl; intros v H; [discriminate|].
    destruct (k =? k') eqn:E; [apply Z.eqb_eq in E; inversion H; subst; left; reflexivity|right; auto].
  Qed.

  Lemma get_obj_valid : forall w p, inv w -> obj_valid w p (get_obj w p).
  Proof.
    intros w p I. destruct (get_obj_cases w p) as [E|E]; [apply (inv_objs _ _ _ I E)|].
    rewrite E. split; simpl; intros; [discriminate|contradiction].
  Qed.

  Lemma get_rot_ok : forall w p fn qt w1 oc,
    inv w -> 5 <= qt -> fn = qt - 2 -> get_rot pf Q w p fn qt = (w1, oc) ->
    option_map fst oc = p_rot w p fn /\ same_static w w1 /\ inv w1.
  Proof.
    intros w p fn qt w1 oc I Hq Hf H. unfold get_rot in H.
    assert (PD : forall w', p_derived w' p qt = p_rot w' p fn).
    { intros. unfold p_derived. replace (5 <=? qt) with true by (symmetry; apply Z.leb_le; exact Hq). subst fn. reflexivity. }
    destruct (assoc_z qt (oderived (get_obj w p))) as [c|] eqn:A.
    - inversion H; subst w1 oc. split; [|split; [apply same_static_refl|exact I]].
      simpl. rewrite <- PD. symmetry. apply (get_obj_valid w p I). apply assoc_z_in. exact A.
    - destruct (to_sys pf Q w p 2) as [w0 ollh] eqn:T. apply to_sys_ok in T; [|exact I].
      destruct T as (TV & TS & TI). unfold p_rot. rewrite <- TV.
      destruct ollh as [llh|]; [|inversion H; subst w1 oc; split; [reflexivity|split; assumption]].
      match type of H with context [lru_get pf Q w0 fn 0 (rot_args llh) ?sr] =>
        destruct (lru_get pf Q w0 fn 0 (rot_args llh) sr) as [w2 oc2] eqn:L end.
      apply lru_get_ok in L; [|exact TI|intro E; inversion E]. destruct L as (LV & LS & LO & LI).
      destruct oc2 as [c|]; [|inversion H; subst w1 oc; split; [exact LV|split; [apply (same_static_trans _ _ _ TS LS)|exact LI]]].
      unfold hand_out, fresh_copy in H. simpl in H. simpl in LV.
      pose proof LI as (_ & P2 & _).
      assert (F1 : resolve w2 c = fst c) by (apply resolve_nopoll; exact P2).
      destruct (inv_set_next w2 (S (nextid w2)) LI) as [In1 Sn1].
      inversion H; subst w1 oc. split; [simpl; rewrite F1; exact LV|].
      pose proof (same_static_trans _ _ _ TS (same_static_trans _ _ _ LS Sn1)) as S03.
      destruct (inv_upd_obj (set_next w2 (S (nextid w2))) p
                  (fun o' => o_set_cache o' (ochild o') ((qt, (resolve w2 c, nextid w2)) :: oderived o')) In1) as [A1 B1].
      { intros o. reflexivity. }
      { intros o E [V1 V2]. split; [exact V1|]. simpl. intros qt' c' [Hc|Hc]; [|auto].
        inversion Hc; subst qt' c'. rewrite PD.
        rewrite (p_rot_agree w _ p fn (same_static_agree _ _ p S03)).
        unfold p_rot. rewrite <- TV. simpl. rewrite F1. exact (eq_sym LV). }
      split; [|exact A1]. apply (same_static_trans _ _ _ S03 B1).
  Qed.

  Lemma ingredients_ok : forall w p qo qt w1 oi,
    inv w -> ingredients pf Q w p qo qt = (w1, oi) -> oi = p_ingr w p qo qt /\ same_static w w1 /\ inv w1.
  Proof.
    intros w p qo qt w1 oi I H. unfold ingredients in H. unfold p_ingr.
    destruct (qt <=? 2).
    - destruct (to_sys pf Q w qo (okind (get_obj w p))) as [w0 a2] eqn:T. apply to_sys_ok in T; [|exact I].
      destruct T as (TV & TS & TI). rewrite <- TV.
      destruct a2 as [x2|]; inversion H; subst w1 oi; (split; [|split; assumption]); [|reflexivity].
      destruct (same_static_agree _ _ p TS) as [_ C]. rewrite C. reflexivity.
    - destruct (to_sys pf Q w p 1) as [w0 a1] eqn:T1. apply to_sys_ok in T1; [|exact I].
      destruct T1 as (TV1 & TS1 & TI1). rewrite <- TV1.
      destruct a1 as [x1|]; [|inversion H; subst w1 oi; split; [reflexivity|split; assumption]].
      destruct (to_sys pf Q w0 qo 1) as [w2 a2] eqn:T2. apply to_sys_ok in T2; [|exact TI1].
      destruct T2 as (TV2 & TS2 & TI2).
      rewrite <- (p_sys_agree w w0 qo 1 (same_static_agree _ _ qo TS1)). rewrite <- TV2.
      destruct a2 as [x2|]; [|inversion H; subst w1 oi; split; [reflexivity|split; [apply (same_static_trans _ _ _ TS1 TS2)|exact TI2]]].
      destruct (get_rot pf Q w2 p 3 5) as [w3 oc] eqn:G. apply get_rot_ok in G; [|exact TI2|lia|reflexivity].
      destruct G as (GV & GS & GI).
      pose proof (same_static_trans _ _ _ TS1 TS2) as S02.
      rewrite <- (p_rot_agree w w2 p 3 (same_static_agree _ _ p S02)). rewrite <- GV.
      pose proof GI as (_ & P3 & _).
      destruct oc as [c|]; inversion H; subst w1 oi; simpl;
        (split; [|split; [apply (same_static_trans _ _ _ S02 GS)|exact GI]]); [|reflexivity].
      rewrite (resolve_nopoll _ _ P3). reflexivity.
  Qed.

  Definition p_read_obs (w : world) (p : nat) (qt : Z) : obs :=
    if 5 <=? qt then match p_rot w p (qt - 2) with None => None | Some a => Some (a, 0) end
    else match oother (get_obj w p) with
         | None => Some (nothing, -2)
         | Some _ => match p_derived w p qt with None => None | Some v => Some (v, 0) end
         end.

  Lemma hand_reg_off : forall w c, hand_reg Q w c = set_reg w None.
  Proof. intros. unfold hand_reg. simpl. destruct (fst (fst c)) as [|? [|? ?]]; reflexivity. Qed.

  Lemma do_read_ok : forall w p qt w1 x,
    inv w -> do_read pf Q w p qt = (w1, x) -> x = p_read_obs w p qt /\ same_static w w1 /\ inv w1.
  Proof.
    intros w p qt w1 x I H. unfold do_read in H. unfold p_read_obs.
    destruct (5 <=? qt) eqn:Q5.
    - apply Z.leb_le in Q5.
      destruct (get_rot pf Q w p (qt - 2) qt) as [w0 oc] eqn:G. apply get_rot_ok in G; auto.
      destruct G as (GV & GS & GI). rewrite <- GV. pose proof GI as (R0 & P0 & L0 & W0 & O0).
      destruct oc as [c|]; inversion H; subst w1 x; simpl.
      + rewrite hand_reg_off, (resolve_nopoll _ _ P0). split; [reflexivity|]. split; [exact GS|].
        apply (inv_cache_only w0); auto.
      + split; [reflexivity|]. split; [exact GS|]. apply (inv_cache_only w0); auto.
    - pose proof I as (R & P & L & W & O).
      destruct (oother (get_obj w p)) as [qo|] eqn:OO.
      + destruct (assoc_z qt (oderived (get_obj w p))) as [c|] eqn:A.
        * inversion H; subst w1 x. rewrite hand_reg_off, (resolve_nopoll _ _ P).
          rewrite (proj2 (get_obj_valid w p I) qt c (assoc_z_in _ _ _ _ A)).
          split; [reflexivity|]. split; [repeat split|]. apply (inv_cache_only w); auto.
        * destruct (ingredients pf Q w p qo qt) as [w0 oi] eqn:G. apply ingredients_ok in G; [|exact I].
          destruct G as (GV & GS & GI). pose proof GI as (R0 & P0 & L0 & W0 & O0).
          assert (PD : p_derived w p qt = match oi with None => None | Some l => pf (10 + qt) 0 (map (fun a => (false, a)) l) end).
          { unfold p_derived. rewrite Q5, OO, <- GV. reflexivity. }
          rewrite PD.
          destruct oi as [l|]; [|inversion H; subst w1 x; split; [reflexivity|split; [exact GS|apply (inv_cache_only w0); auto]]].
          destruct (pf (10 + qt) 0 (map (fun a => (false, a)) l)) as [v|] eqn:V;
            [|inversion H; subst w1 x; split; [reflexivity|split; [exact GS|apply (inv_cache_only w0); auto]]].
          inversion H; subst w1 x. rewrite hand_reg_off. split; [reflexivity|].
          destruct (inv_set_next w0 (S (nextid w0)) GI) as [In1 Sn1].
          destruct (inv_upd_obj (set_next w0 (S (nextid w0))) p
                      (fun o' => o_set_cache o' (ochild o') ((qt, (v, nextid w0)) :: oderived o')) In1) as [A1 B1].
          { intros o. reflexivity. }
          { intros o E [V1 V2]. split; [exact V1|]. simpl. intros qt' c' [Hc|Hc]; [|auto].
            inversion Hc; subst qt' c'. simpl.
            destruct (same_static_pure _ _ (same_static_trans _ _ _ GS Sn1)) as [_ PDs]. rewrite PDs, PD. reflexivity. }
          split; [apply (same_static_trans _ _ _ GS (same_static_trans _ _ _ Sn1 B1))|].
          pose proof A1 as (_ & PA & LA & WA & OA).
          split; [reflexivity|]. split; [exact PA|]. split; [exact LA|]. split; [exact WA|exact OA].
      + inversion H; subst w1 x. split; [reflexivity|]. split; [repeat split|]. apply (inv_cache_only w); auto.
  Qed.

  (* ---------------------------------------------------------------------------------- attach / replace / detach other *)
  Lemma get_upd_other : forall w p f j, j <> p -> get_obj (upd_obj w p f) j = get_obj w j.
  Proof. intros. unfold get_obj, upd_obj. simpl. apply nth_upd_nth_other. exact H. Qed.

  Lemma get_upd_same : forall w p f,
    get_obj (upd_obj w p f) p = (if lt_dec p (length (objs w)) then f (get_obj w p) else get_obj w p).
  Proof.
    intros w p f. unfold get_obj, upd_obj. simpl. destruct (lt_dec p (length (objs w))).
    - apply nth_upd_nth_same. exact l.
    - rewrite !nth_overflow; auto; try rewrite upd_nth_length; lia.
  Qed.

  Lemma setother_agree : forall w p oy j, agree w (upd_obj w p (fun o' => o_set_other o' oy)) j.
  Proof.
    intros w p oy j. destruct (Nat.eq_dec j p) as [->|N].
    - unfold agree. rewrite get_upd_same.
      destruct (lt_dec p (length (objs w))); split; reflexivity.
    - unfold agree. rewrite (get_upd_other w p _ j N). split; reflexivity.
  Qed.

  Lemma setother_inv : forall w p oy,
    inv w -> (forall y, oy = Some y -> (y < length (objs w))%nat) ->
    inv (upd_obj w p (fun o' => o_set_other o' oy)).
  Proof.
    intros w p oy I HY. pose proof I as (R & P & L & [W1 W2] & O).
    set (w1 := upd_obj w p (fun o' => o_set_other o' oy)).
    assert (LEN : length (objs w1) = length (objs w)) by (unfold w1, upd_obj; simpl; apply upd_nth_length).
    split; [exact R|]. split; [exact P|]. split; [exact L|]. split.
    - split.
      + intros p' o E. unfold w1, upd_obj in E. simpl in E. apply nth_error_upd_nth in E.
        destruct E as (o0 & E0 & Eo). destruct (W1 _ _ E0) as [A B]. rewrite LEN.
        destruct (Nat.eqb p' p); subst o; simpl; split; auto.
      + intros s p' E. rewrite LEN. apply (W2 s p' E).
    - intros p' o E. unfold w1, upd_obj in E. simpl in E. apply nth_error_upd_nth in E.
      destruct E as (o0 & E0 & Eo). destruct (Nat.eqb p' p) eqn:EP.
      + subst o. split; simpl; intros; [discriminate|contradiction].
      + subst o. apply Nat.eqb_neq in EP. destruct (O _ _ E0) as [V1 V2]. split.
        * intros c Hc. rewrite (p_child_agree w w1 p' (setother_agree w p oy p')). auto.
        * intros qt c Hc. rewrite (p_derived_agree w w1 p' qt); auto.
          -- apply setother_agree.
          -- unfold w1. rewrite (get_upd_other w p _ p' EP). reflexivity.
          -- intros. apply setother_agree.
  Qed.

  Lemma flood_lru_valid : forall w fn n, lru_valid w -> lru_valid (set_lru w fn (flood n (lrus w fn))).
  Proof.
    intros w fn n L g k s c Hin. simpl in Hin. destruct (g =? fn) eqn:G; [|apply (L g k s c Hin)].
    apply Z.eqb_eq in G. subst g. revert Hin. generalize (lrus w fn) (L fn). clear L.
    induction n as [|n IH]; simpl; intros l HL Hin; [apply (HL k s c Hin)|].
    apply (IH _) in Hin; auto. intros k' s' c' Hin'. apply lru_insert_in in Hin'.
    destruct Hin' as [E|E]; [inversion E; subst; left; reflexivity|apply (HL k' s' c' E)].
  Qed.

  (* ---------------------------------------------------------------------------------- new objects *)
  Lemma new_obj_inv : forall w s kind a, inv w -> inv (new_obj w s kind a).
  Proof.
    intros w s kind a I. pose proof I as (R & P & L & [W1 W2] & O).
    set (w1 := new_obj w s kind a).
    assert (AG : forall j, (j < length (objs w))%nat -> agree w w1 j).
    { intros j Hj. unfold agree, get_obj, w1, new_obj. simpl. rewrite app_nth1; [|exact Hj].
      split; [reflexivity|]. unfold contents. simpl.
      destruct (nth_error (objs w) j) as [o|] eqn:E; [|apply nth_error_None in E; lia].
      rewrite (nth_error_nth_obj _ _ _ E). destruct (W1 _ _ E) as [A _]. rewrite app_nth1; [reflexivity|exact A]. }
    split; [exact R|]. split; [exact P|]. split; [exact L|]. split.
    - split.
      + intros p o E. unfold w1, new_obj in E. simpl in E. simpl. rewrite !app_length. simpl.
        destruct (lt_dec p (length (objs w))) as [Hp|Hp].
        * rewrite nth_error_app1 in E; [|exact Hp]. destruct (W1 _ _ E) as [A B]. split; [lia|]. intros y Hy. specialize (B y Hy). lia.
        * rewrite nth_error_app2 in E; [|lia]. destruct (p - length (objs w))%nat as [|k] eqn:K; simpl in E.
          -- inversion E; subst o. simpl. split; [lia|]. intros y Hy. discriminate.
          -- destruct k; discriminate.
      + intros s0 p E. unfold slot, w1, new_obj in E. simpl in E. simpl. rewrite app_length. simpl.
        destruct (s0 =? s); [inversion E; lia|]. specialize (W2 s0 p E). lia.
    - intros p o E. unfold w1, new_obj in E. simpl in E.
      destruct (lt_dec p (length (objs w))) as [Hp|Hp].
      + rewrite nth_error_app1 in E; [|exact Hp]. destruct (O _ _ E) as [V1 V2]. destruct (W1 _ _ E) as [_ WB].
        pose proof (nth_error_nth_obj _ _ _ E) as G. split.
        * intros c Hc. rewrite (p_child_agree w w1 p (AG p Hp)). auto.
        * intros qt c Hc. rewrite (p_derived_agree w w1 p qt); auto.
          -- unfold get_obj, w1, new_obj. simpl. rewrite app_nth1; [reflexivity|exact Hp].
          -- intros y Hy. apply AG. apply WB. unfold get_obj in Hy. rewrite G in Hy. exact Hy.
      + rewrite nth_error_app2 in E; [|lia]. destruct (p - length (objs w))%nat as [|k] eqn:K; simpl in E.
        * inversion E; subst o. split; simpl; intros; [discriminate|contradiction].
        * destruct k; discriminate.
  Qed.

  Lemma new_obj_static : forall w w' s kind a, same_static w w' -> same_static (new_obj w s kind a) (new_obj w' s kind a).
  Proof.
    intros w w' s kind a H. pose proof (same_static_len _ _ H) as LEN. destruct H as (A & B & C).
    unfold new_obj. repeat split; simpl.
    - rewrite A. reflexivity.
    - rewrite !map_app, B, A. reflexivity.
    - rewrite C, LEN. reflexivity.
  Qed.

  (* ---------------------------------------------------------------------------------- one step, cached vs. any world with the same contents *)
  Definition in_class (o : op) : Prop := True.

  Lemma same_static_sym : forall a b, same_static a b -> same_static b a.
  Proof. intros a b (A & B & C). repeat split; congruence. Qed.

  Lemma o_clear_idem : forall l, map o_clear (map o_clear l) = map o_clear l.
  Proof. intros. rewrite map_map. apply map_ext. intros. reflexivity. Qed.

  Lemma wipe_static : forall w, same_static w (wipe w).
  Proof. intros. repeat split. simpl. apply o_clear_idem. Qed.

  Lemma wipe_of_static : forall w w', same_static w w' -> wipe w' = wipe w.
  Proof. intros w w' (A & B & C). unfold wipe. rewrite A, B, C. reflexivity. Qed.

  Lemma inv_wipe : forall w, inv w -> inv (wipe w).
  Proof.
    intros w I. pose proof I as (R & P & L & W & O).
    apply (inv_transfer w); auto; [apply wipe_static|intros fn k s c []|].
    intros p o E. simpl in E. rewrite nth_error_map in E. destruct (nth_error (objs w) p); [|discriminate].
    inversion E. apply o_clear_valid.
  Qed.

  Lemma map_clear_upd : forall p oy l,
    map o_clear (upd_nth p (fun o => o_set_other o oy) l) = upd_nth p (fun o => o_set_other o oy) (map o_clear l).
  Proof. induction p; destruct l; simpl; auto. f_equal. auto. Qed.

  Lemma slot_static : forall w w' s, same_static w w' -> slot w' s = slot w s.
  Proof. intros w w' s (_ & _ & C). unfold slot. rewrite C. reflexivity. Qed.

  Lemma contents_static : forall w w' j, same_static w w' -> contents w' (get_obj w' j) = contents w (get_obj w j).
  Proof. intros. apply (same_static_agree w w' j H). Qed.

  Lemma p_read_obs_static : forall w w' p qt, same_static w w' -> p_read_obs w' p qt = p_read_obs w p qt.
  Proof.
    intros w w' p qt H. unfold p_read_obs.
    rewrite (p_rot_agree w w' p _ (same_static_agree _ _ p H)).
    destruct (same_static_fields w w' p H) as (_ & _ & _ & F4 & _). rewrite F4.
    destruct (same_static_pure _ _ H) as [_ PD]. rewrite PD. reflexivity.
  Qed.

  (* ---------------------------------------------------------------------------------- slices (views) *)
  Definition add_obj (w : world) (o : obj) : world := set_objs w (objs w ++ [o]).

  Lemma add_obj_inv : forall w o,
    inv w -> ochild o = None -> oderived o = [] -> (obuf o < length (bufs w))%nat ->
    (forall y, oother o = Some y -> (y < length (objs w))%nat) -> inv (add_obj w o).
  Proof.
    intros w o I HC HD HB HO. pose proof I as (R & P & L & [W1 W2] & O).
    set (w1 := add_obj w o).
    assert (AG : forall j, (j < length (objs w))%nat -> agree w w1 j).
    { intros j Hj. unfold agree, get_obj, w1, add_obj. simpl. rewrite app_nth1; [|exact Hj]. split; reflexivity. }
    split; [exact R|]. split; [exact P|]. split; [exact L|]. split.
    - split.
      + intros p o' E. unfold w1, add_obj in E. simpl in E. simpl. rewrite app_length. simpl.
        destruct (lt_dec p (length (objs w))) as [Hp|Hp].
        * rewrite nth_error_app1 in E; [|exact Hp]. destruct (W1 _ _ E) as [A B]. split; [exact A|].
          intros y Hy. specialize (B y Hy). lia.
        * rewrite nth_error_app2 in E; [|lia]. destruct (p - length (objs w))%nat as [|k] eqn:K; simpl in E.
          -- inversion E; subst o'. split; [exact HB|]. intros y Hy. specialize (HO y Hy). lia.
          -- destruct k; discriminate.
      + intros s0 p E. simpl. rewrite app_length. simpl. specialize (W2 s0 p E). lia.
    - intros p o' E. unfold w1, add_obj in E. simpl in E.
      destruct (lt_dec p (length (objs w))) as [Hp|Hp].
      + rewrite nth_error_app1 in E; [|exact Hp]. destruct (O _ _ E) as [V1 V2]. destruct (W1 _ _ E) as [_ WB].
        pose proof (nth_error_nth_obj _ _ _ E) as G. split.
        * intros c Hc. rewrite (p_child_agree w w1 p (AG p Hp)). auto.
        * intros qt c Hc. rewrite (p_derived_agree w w1 p qt); auto.
          -- unfold get_obj, w1, add_obj. simpl. rewrite app_nth1; [reflexivity|exact Hp].
          -- intros y Hy. apply AG. apply WB. unfold get_obj in Hy. rewrite G in Hy. exact Hy.
      + rewrite nth_error_app2 in E; [|lia]. destruct (p - length (objs w))%nat as [|k] eqn:K; simpl in E.
        * inversion E; subst o'. split; intros; [rewrite HC in *; discriminate|rewrite HD in *; contradiction].
        * destruct k; discriminate.
  Qed.

  Lemma add_obj_static : forall w w' o o',
    same_static w w' -> o_clear o' = o_clear o -> same_static (add_obj w o) (add_obj w' o').
  Proof.
    intros w w' o o' (A & B & C) E. unfold add_obj. repeat split; simpl; auto. rewrite !map_app, B. simpl. rewrite E. reflexivity.
  Qed.

  Definition bind_slot (w : world) (s : Z) (id : nat) : world := set_slots w ((s, id) :: slots w).

  Lemma bind_slot_inv : forall w s id, inv w -> (id < length (objs w))%nat -> inv (bind_slot w s id).
  Proof.
    intros w s id I H. pose proof I as (R & P & L & [W1 W2] & O).
    split; [exact R|]. split; [exact P|]. split; [exact L|]. split; [|exact O]. split; [exact W1|].
    intros s0 p E. unfold slot, bind_slot in E. simpl in E. simpl.
    destruct (s0 =? s); [inversion E; subst; exact H|apply (W2 s0 p E)].
  Qed.

  Lemma bind_slot_static : forall w w' s id, same_static w w' -> same_static (bind_slot w s id) (bind_slot w' s id).
  Proof. intros w w' s id (A & B & C). unfold bind_slot. repeat split; simpl; auto. rewrite C. reflexivity. Qed.

  Lemma is_whole_2d_static : forall w w' j, same_static w w' ->
    is_whole_2d w' (get_obj w' j) = is_whole_2d w (get_obj w j).
  Proof.
    intros w w' j H. unfold is_whole_2d. destruct (same_static_fields w w' j H) as (A & _ & C & _).
    rewrite A, C, (contents_static w w' j H). reflexivity.
  Qed.

  Lemma clear_obj_inv : forall w p, inv w -> inv (upd_obj w p o_clear) /\ same_static w (upd_obj w p o_clear).
  Proof.
    intros w p I. apply inv_upd_obj; auto. intros o _ _. apply o_clear_valid.
  Qed.

  Lemma get_obj_wf : forall w p, inv w -> (p < length (objs w))%nat ->
    (obuf (get_obj w p) < length (bufs w))%nat.
  Proof.
    intros w p I Hp. destruct I as (_ & _ & _ & [W1 _] & _).
    destruct (nth_error (objs w) p) as [o|] eqn:E; [|apply nth_error_None in E; lia].
    unfold get_obj. rewrite (nth_error_nth_obj _ _ _ E). apply (W1 _ _ E).
  Qed.

  Lemma get_obj_other_wf : forall w p y, inv w -> oother (get_obj w p) = Some y -> (y < length (objs w))%nat.
  Proof.
    intros w p y I H. destruct (get_obj_cases w p) as [E|E]; [|rewrite E in H; discriminate].
    destruct I as (_ & _ & _ & [W1 _] & _). apply (proj2 (W1 _ _ E)). exact H.
  Qed.

  (* the result of do_slice, written with add_obj / bind_slot *)
  Definition slice_none (w : world) (p : nat) (kind s' : Z) : world :=
    let o := get_obj w p in
    bind_slot (add_obj w (mkObj (okind o) (obuf o) kind None None [] false)) s' (length (objs w)).

  Definition slice_some (w : world) (p y : nat) (kind s' : Z) : world :=
    let o := get_obj w p in
    let oy := get_obj w y in
    let w1 := upd_obj w p o_clear in
    let w2 := add_obj w1 (mkObj (okind oy) (obuf oy) kind None None [] false) in
    bind_slot (add_obj w2 (mkObj (okind o) (obuf o) kind (Some (length (objs w1))) None [] false)) s' (length (objs w2)).

  Lemma do_slice_cases : forall w p kind s',
    do_slice w p kind s' =
    if negb (is_whole_2d w (get_obj w p)) then (w, invalid_obs)
    else match oother (get_obj w p) with
         | None => (slice_none w p kind s', ok_obs)
         | Some y => if negb (is_whole_2d w (get_obj w y)) then (w, invalid_obs)
                     else match oother (get_obj w y) with
                          | Some _ => (w, invalid_obs)
                          | None => (slice_some w p y kind s', ok_obs)
                          end
         end.
  Proof. intros. reflexivity. Qed.

  Lemma slice_none_inv : forall w p kind s', inv w -> (p < length (objs w))%nat -> inv (slice_none w p kind s').
  Proof.
    intros w p kind s' I Hp. unfold slice_none. apply bind_slot_inv.
    - apply add_obj_inv; auto; simpl; [apply get_obj_wf; auto|intros; discriminate].
    - unfold add_obj. simpl. rewrite app_length. simpl. lia.
  Qed.

  Lemma slice_some_inv : forall w p y kind s',
    inv w -> (p < length (objs w))%nat -> (y < length (objs w))%nat -> inv (slice_some w p y kind s').
  Proof.
    intros w p y kind s' I Hp Hy. unfold slice_some.
    destruct (clear_obj_inv w p I) as [I1 S1].
    pose proof (same_static_len _ _ S1) as L1.
    assert (B1 : bufs (upd_obj w p o_clear) = bufs w) by reflexivity.
    apply bind_slot_inv.
    - apply add_obj_inv.
      + apply add_obj_inv; auto; simpl; [|intros; discriminate].
        change (bufs (upd_obj w p o_clear)) with (bufs w). apply get_obj_wf; auto.
      + reflexivity.
      + reflexivity.
      + simpl. apply get_obj_wf; auto.
      + simpl. intros y0 E. inversion E; subst. rewrite app_length. simpl. lia.
    - unfold add_obj. simpl. rewrite !app_length. simpl. lia.
  Qed.

  Lemma slice_none_static : forall w w' p kind s', same_static w w' ->
    same_static (slice_none w p kind s') (slice_none w' p kind s').
  Proof.
    intros w w' p kind s' H. unfold slice_none. rewrite (same_static_len _ _ H).
    apply bind_slot_static. apply add_obj_static; [exact H|].
    destruct (same_static_fields w w' p H) as (A & B & _). rewrite A, B. reflexivity.
  Qed.

  Lemma slice_some_static : forall w w' p y kind s', same_static w w' ->
    same_static (slice_some w p y kind s') (slice_some w' p y kind s').
  Proof.
    intros w w' p y kind s' H. unfold slice_some.
    assert (H1 : same_static (upd_obj w p o_clear) (upd_obj w' p o_clear)).
    { apply (same_static_trans _ w).
      - apply same_static_sym. apply upd_obj_static. intros; reflexivity.
      - apply (same_static_trans _ w'); [exact H|]. apply upd_obj_static. intros; reflexivity. }
    pose proof (same_static_len _ _ H1) as L1.
    destruct (same_static_fields w w' p H) as (A & B & _). destruct (same_static_fields w w' y H) as (Ay & By & _).
    assert (H2 : same_static (add_obj (upd_obj w p o_clear) (mkObj (okind (get_obj w y)) (obuf (get_obj w y)) kind None None [] false))
                             (add_obj (upd_obj w' p o_clear) (mkObj (okind (get_obj w' y)) (obuf (get_obj w' y)) kind None None [] false))).
    { apply add_obj_static; [exact H1|]. rewrite Ay, By. reflexivity. }
    rewrite (same_static_len _ _ H2). apply bind_slot_static. apply add_obj_static; [exact H2|].
    rewrite A, B, L1. reflexivity.
  Qed.

  Lemma step_sim : forall o w w' w1 x w1' x',
    in_class o -> inv w -> inv w' -> same_static w w' ->
    step pf Q w o = (w1, x) -> step pf Q w' o = (w1', x') ->
    x = x' /\ same_static w1 w1' /\ inv w1 /\ inv w1'.
  Proof.
    intros o w w' w1 x w1' x' C I I' SS H H'.
    assert (FK : forall j, okind (get_obj w' j) = okind (get_obj w j)) by (intros; apply (same_static_fields w w' j SS)).
    destruct o; unfold step, with_slot in H, H'.
    - (* NewArr *) inversion H; inversion H'; subst. split; [reflexivity|]. split; [apply new_obj_static; exact SS|].
      split; apply new_obj_inv; assumption.
    - (* NewPos *) inversion H; inversion H'; subst. split; [reflexivity|]. split; [apply new_obj_static; exact SS|].
      split; apply new_obj_inv; assumption.
    - (* Raw *) rewrite (slot_static w w' s SS) in H'. destruct (slot w s) as [p|];
        [|inversion H; inversion H'; subst; auto].
      rewrite FK in H'. destruct (okind (get_obj w p) =? 0); [|inversion H; inversion H'; subst; auto].
      apply do_raw_ok in H; [|exact I|intro E; inversion E]. apply do_raw_ok in H'; [|exact I'|intro E; inversion E].
      destruct H as (X & S1 & I1). destruct H' as (X' & S1' & I1').
      rewrite (contents_static w w' p SS) in X'. split; [congruence|]. split; [|split; assumption].
      apply (same_static_trans _ _ _ (same_static_sym _ _ S1)). apply (same_static_trans _ _ _ SS S1').
    - (* Rot *) rewrite (slot_static w w' s SS) in H'. destruct (slot w s) as [p|];
        [|inversion H; inversion H'; subst; auto].
      rewrite FK in H'. destruct (okind (get_obj w p) =? 0); [|inversion H; inversion H'; subst; auto].
      apply do_raw_ok in H; [|exact I|intro E; inversion E]. apply do_raw_ok in H'; [|exact I'|intro E; inversion E].
      destruct H as (X & S1 & I1). destruct H' as (X' & S1' & I1').
      rewrite (contents_static w w' p SS) in X'. split; [congruence|]. split; [|split; assumption].
      apply (same_static_trans _ _ _ (same_static_sym _ _ S1)). apply (same_static_trans _ _ _ SS S1').
    - (* Conv *) rewrite (slot_static w w' s SS) in H'. destruct (slot w s) as [p|];
        [|inversion H; inversion H'; subst; auto].
      rewrite FK in H'. destruct (1 <=? okind (get_obj w p)); [|inversion H; inversion H'; subst; auto].
      apply do_conv_ok in H; [|exact I]. apply do_conv_ok in H'; [|exact I'].
      destruct H as (X & S1 & I1). destruct H' as (X' & S1' & I1').
      unfold p_conv_obs in X'. rewrite (p_child_agree w w' p (same_static_agree _ _ p SS)) in X'.
      split; [unfold p_conv_obs in X; congruence|]. split; [|split; assumption].
      apply (same_static_trans _ _ _ (same_static_sym _ _ S1)). apply (same_static_trans _ _ _ SS S1').
    - (* Read *) rewrite (slot_static w w' s SS) in H'. destruct (slot w s) as [p|];
        [|inversion H; inversion H'; subst; auto].
      rewrite FK in H'. destruct (1 <=? okind (get_obj w p)); [|inversion H; inversion H'; subst; auto].
      apply do_read_ok in H; [|exact I]. apply do_read_ok in H'; [|exact I'].
      destruct H as (X & S1 & I1). destruct H' as (X' & S1' & I1').
      rewrite (p_read_obs_static w w' p qt SS) in X'. split; [congruence|]. split; [|split; assumption].
      apply (same_static_trans _ _ _ (same_static_sym _ _ S1)). apply (same_static_trans _ _ _ SS S1').
    - (* WriteRes *) pose proof I as (R & _). pose proof I' as (R' & _). rewrite R in H. rewrite R' in H'.
      inversion H; inversion H'; subst. split; [reflexivity|]. split; [exact SS|]. split; assumption.
    - (* SetRow *) rewrite (slot_static w w' s SS) in H'. destruct (slot w s) as [p|];
        [|inversion H; inversion H'; subst; auto].
      unfold do_setrow in H, H'. destruct (same_static_fields w w' p SS) as (F1 & F2 & _ & _ & F5).
      rewrite F1, F5 in H'. destruct ((okind (get_obj w p) =? 0) && oro (get_obj w p)).
      + inversion H; inversion H'; subst; auto.
      + simpl in H, H'. inversion H; inversion H'; subst. split; [reflexivity|].
        split; [|split; [exact (setrow_inv w p v I)|exact (setrow_inv w' p v I')]].
        destruct SS as (A & B & D). repeat split; simpl.
        * rewrite A, F2. reflexivity.
        * rewrite !clear_from_static. exact B.
        * exact D.
    - (* SetOther *) rewrite (slot_static w w' s SS) in H'. destruct (slot w s) as [p|];
        [|destruct s'; inversion H; inversion H'; subst; auto].
      destruct s' as [s2|].
      + rewrite (slot_static w w' s2 SS) in H'. destruct (slot w s2) as [y|] eqn:SY;
          [|inversion H; inversion H'; subst; auto].
        rewrite !FK in H'.
        destruct (Nat.eqb p y || negb (1 <=? okind (get_obj w p)) || negb (1 <=? okind (get_obj w y)));
          [inversion H; inversion H'; subst; auto|].
        inversion H; inversion H'; subst. split; [reflexivity|].
        assert (LY : (y < length (objs w))%nat) by (destruct I as (_ & _ & _ & [_ W2] & _); apply (W2 s2 y SY)).
        assert (LY' : (y < length (objs w'))%nat) by (rewrite (same_static_len _ _ SS); exact LY).
        split; [|split; apply setother_inv; auto; intros y0 E0; inversion E0; subst; assumption].
        destruct SS as (A & B & D). repeat split; simpl; auto. rewrite !map_clear_upd, B. reflexivity.
      + rewrite FK in H'. destruct (1 <=? okind (get_obj w p)); [|inversion H; inversion H'; subst; auto].
        inversion H; inversion H'; subst. split; [reflexivity|].
        split; [|split; apply setother_inv; auto; intros y0 E0; discriminate].
        destruct SS as (A & B & D). repeat split; simpl; auto. rewrite !map_clear_upd, B. reflexivity.
    - (* Slice *) rewrite (slot_static w w' s SS) in H'. destruct (slot w s) as [p|] eqn:SP;
        [|inversion H; inversion H'; subst; auto].
      assert (LP : (p < length (objs w))%nat) by (destruct I as (_ & _ & _ & [_ W2] & _); apply (W2 s p SP)).
      assert (LP' : (p < length (objs w'))%nat) by (rewrite (same_static_len _ _ SS); exact LP).
      rewrite do_slice_cases in H, H'. rewrite (is_whole_2d_static w w' p SS) in H'.
      destruct (negb (is_whole_2d w (get_obj w p))); [inversion H; inversion H'; subst; auto|].
      destruct (same_static_fields w w' p SS) as (_ & _ & _ & F4 & _). rewrite F4 in H'.
      destruct (oother (get_obj w p)) as [y|] eqn:OY.
      + rewrite (is_whole_2d_static w w' y SS) in H'.
        destruct (negb (is_whole_2d w (get_obj w y))); [inversion H; inversion H'; subst; auto|].
        destruct (same_static_fields w w' y SS) as (_ & _ & _ & F4y & _). rewrite F4y in H'.
        destruct (oother (get_obj w y)); [inversion H; inversion H'; subst; auto|].
        inversion H; inversion H'; subst. split; [reflexivity|].
        assert (LY : (y < length (objs w))%nat) by (apply (get_obj_other_wf w p y I OY)).
        assert (LY' : (y < length (objs w'))%nat) by (rewrite (same_static_len _ _ SS); exact LY).
        split; [apply slice_some_static; exact SS|]. split; apply slice_some_inv; auto.
      + inversion H; inversion H'; subst. split; [reflexivity|].
        split; [apply slice_none_static; exact SS|]. split; apply slice_none_inv; auto.
    - (* Flood *) inversion H; inversion H'; subst. split; [reflexivity|].
      pose proof I as (R & P & L & W & O). pose proof I' as (R' & P' & L' & W' & O').
      split; [destruct SS as (A & B & D); repeat split; simpl; auto|].
      split; [apply (inv_cache_only w)|apply (inv_cache_only w')]; auto; apply flood_lru_valid; assumption.
    - (* Aug *) rewrite (slot_static w w' s SS) in H'. destruct (slot w s) as [p|] eqn:SP;
        [|inversion H; inversion H'; subst; auto].
      rewrite FK in H'. destruct (okind (get_obj w p) =? 1); [|inversion H; inversion H'; subst; auto].
      rewrite (contents_static w w' p SS) in H'.
      destruct (same_static_fields w w' p SS) as (_ & _ & _ & F4 & _). rewrite F4 in H'.
      destruct (pf (20 + sgn) 0 [(false, contents w (get_obj w p)); (false, d)]) as [v|];
        [|inversion H; inversion H'; subst; auto].
      inversion H; inversion H'; subst. split; [reflexivity|].
      pose proof (same_static_len _ _ SS) as LEN.
      assert (WO : forall y, oother (get_obj w p) = Some y -> (y < length (objs w))%nat)
        by (intros y Hy; apply (get_obj_other_wf w p y I Hy)).
      unfold aug_obj. split.
      + destruct (new_obj_static w w' s 1 v SS) as (A & B & D).
        split; [exact A|]. split; [|exact D].
        unfold upd_obj. cbn [objs set_objs]. rewrite !map_clear_upd, LEN, B. reflexivity.
      + split; apply setother_inv; try (apply new_obj_inv; assumption);
          intros y Hy; unfold new_obj; simpl; rewrite app_length; simpl.
        * specialize (WO y Hy). lia.
        * rewrite LEN. specialize (WO y Hy). lia.
  Qed.

  Lemma inv_empty : inv empty_world.
  Proof.
    split; [reflexivity|]. split; [reflexivity|]. split; [intros fn k s c []|]. split.
    - split; [intros [|p] o E; discriminate|intros s p E; discriminate].
    - intros [|p] o E; discriminate.
  Qed.

  Lemma run_sim : forall ops w w',
    Forall in_class ops -> inv w -> inv w' -> same_static w w' ->
    fst (run pf Q w ops) = fst (run_uncached pf Q w' ops).
  Proof.
    induction ops as [|o r IH]; intros w w' F I I' SS; simpl; [reflexivity|].
    inversion F; subst.
    destruct (step pf Q w o) as [w1 x] eqn:S1. destruct (step pf Q (wipe w') o) as [w1' x'] eqn:S2.
    destruct (step_sim o w (wipe w') w1 x w1' x' H1 I (inv_wipe _ I')
                (same_static_trans _ _ _ SS (wipe_static w')) S1 S2) as (X & SS1 & I1 & I1').
    specialize (IH w1 w1' H2 I1 I1' SS1).
    destruct (run pf Q w1 r) as [xs w2]. destruct (run_uncached pf Q w1' r) as [xs' w2']. simpl in *. congruence.
  Qed.

  (* ---------------------------------------------------------------------------------- consequences *)
  Lemma all_class : forall ops : list op, Forall in_class ops.
  Proof. intros. apply Forall_forall. intros. exact I. Qed.

  Lemma run_inv : forall ops w, Forall in_class ops -> inv w -> inv (snd (run pf Q w ops)).
  Proof.
    induction ops as [|o r IH]; intros w F I; simpl; [exact I|]. inversion F; subst.
    destruct (step pf Q w o) as [w1 x] eqn:S1.
    destruct (step_sim o w w w1 x w1 x H1 I I (same_static_refl w) S1 S1) as (_ & _ & I1 & _).
    specialize (IH w1 H2 I1). destruct (run pf Q w1 r) as [xs w2]. exact IH.
  Qed.

  Lemma cache_invisible_lemma : forall ops,
    fst (run pf Q empty_world ops) = fst (run_uncached pf Q empty_world ops).
  Proof.
    intros ops. apply run_sim; [apply all_class|apply inv_empty|apply inv_empty|apply same_static_refl].
  Qed.

  Definition reachable (w : world) : Prop := exists ops, w = snd (run pf Q empty_world ops).

  Lemma reachable_inv : forall w, reachable w -> inv w.
  Proof. intros w (ops & ->). apply run_inv; [apply all_class|apply inv_empty]. Qed.

  (* item assignment, then conversion: the conversion of the *new* contents, whatever was memoised before *)
  Lemma setitem_lemma : forall w s p v w1 x1 w2 x2,
    reachable w -> slot w s = Some p -> 1 <= okind (get_obj w p) ->
    step pf Q w (SetRow s v) = (w1, x1) -> step pf Q w1 (Conv s) = (w2, x2) ->
    bufs w1 = upd_nth (obuf (get_obj w p)) (write_row0 v) (bufs w)
    /\ x2 = match pf (convfn (okind (get_obj w p))) 0 [(false, contents w1 (get_obj w1 p))] with
            | None => None | Some a => Some (a, 0) end.
  Proof.
    intros w s p v w1 x1 w2 x2 R SL K H1 H2. pose proof (reachable_inv w R) as I.
    unfold step, with_slot in H1. rewrite SL in H1. unfold do_setrow in H1.
    assert (K0 : (okind (get_obj w p) =? 0) = false) by (apply Z.eqb_neq; lia).
    rewrite K0 in H1. simpl in H1. inversion H1; subst w1 x1. clear H1.
    pose proof (setrow_inv w p v I) as I1. simpl in I1.
    split; [reflexivity|].
    unfold step, with_slot in H2. unfold slot in H2, SL. simpl in H2. rewrite SL in H2.
    match type of H2 with (if 1 <=? okind (get_obj ?W p) then _ else _) = _ => set (w1 := W) in * end.
    assert (KK2 : okind (get_obj w1 p) = okind (get_obj w p)).
    { unfold w1, get_obj. simpl. fold (get_obj (cleared_world w p) p).
      apply (same_static_fields w (cleared_world w p) p (cleared_static w p)). }
    rewrite KK2 in H2. replace (1 <=? okind (get_obj w p)) with true in H2 by (symmetry; apply Z.leb_le; exact K).
    apply do_conv_ok in H2; [|exact I1]. destruct H2 as (X & _ & _). rewrite X. unfold p_conv_obs, p_child. rewrite KK2. reflexivity.
  Qed.

  (* mutation of `other`, then a derived quantity: computed from the new contents of `other` *)
  Lemma other_mutation_lemma : forall w s t p y v qt w1 x1 w2 x2,
    reachable w -> slot w s = Some p -> slot w t = Some y ->
    1 <= okind (get_obj w p) -> 1 <= okind (get_obj w y) -> oother (get_obj w p) = Some y ->
    step pf Q w (SetRow t v) = (w1, x1) -> step pf Q w1 (Read s qt) = (w2, x2) ->
    bufs w1 = upd_nth (obuf (get_obj w y)) (write_row0 v) (bufs w)
    /\ oother (get_obj w1 p) = Some y
    /\ x2 = p_read_obs w1 p qt.
  Proof.
    intros w s t p y v qt w1 x1 w2 x2 R SL TL K KY OO H1 H2. pose proof (reachable_inv w R) as I.
    unfold step, with_slot in H1. rewrite TL in H1. unfold do_setrow in H1.
    assert (K0 : (okind (get_obj w y) =? 0) = false) by (apply Z.eqb_neq; lia).
    rewrite K0 in H1. simpl in H1. inversion H1; subst w1 x1. clear H1.
    pose proof (setrow_inv w y v I) as I1. simpl in I1.
    split; [reflexivity|].
    unfold step, with_slot in H2. unfold slot in H2, SL. simpl in H2. rewrite SL in H2.
    match type of H2 with (if 1 <=? okind (get_obj ?W p) then _ else _) = _ => set (w1 := W) in * end.
    assert (FF : okind (get_obj w1 p) = okind (get_obj w p) /\ oother (get_obj w1 p) = oother (get_obj w p)).
    { unfold w1, get_obj. simpl. fold (get_obj (cleared_world w y) p).
      destruct (same_static_fields w (cleared_world w y) p (cleared_static w y)) as (A & _ & _ & B & _). auto. }
    destruct FF as [KK OO1]. split; [congruence|].
    rewrite KK in H2. replace (1 <=? okind (get_obj w p)) with true in H2 by (symmetry; apply Z.leb_le; exact K).
    apply do_read_ok in H2; [|exact I1]. destruct H2 as (X & _ & _). exact X.
  Qed.

  Lemma write_isolated_lemma : forall w c, reachable w -> step pf Q w (WriteRes c) = (w, ok_obs).
  Proof. intros w c R. destruct (reachable_inv w R) as (RG & _). simpl. rewrite RG. reflexivity. Qed.

  Lemma args_untouched_lemma : forall w o w1 x,
    reachable w -> (exists fn ext s, o = Raw fn ext s) \/ (exists fn s, o = Rot fn s) ->
    step pf Q w o = (w1, x) ->
    bufs w1 = bufs w /\ map o_clear (objs w1) = map o_clear (objs w)
    /\ (forall a c, x = Some (a, c) -> c = 1 \/ c = -9).
  Proof.
    intros w o w1 x R [(fn & ext & s & ->)|(fn & s & ->)] H; pose proof (reachable_inv w R) as I;
      unfold step, with_slot in H; (destruct (slot w s) as [p|];
        [|inversion H; subst; split; [reflexivity|split; [reflexivity|intros a c E; inversion E; auto]]]);
      (destruct (okind (get_obj w p) =? 0);
        [|inversion H; subst; split; [reflexivity|split; [reflexivity|intros a c E; inversion E; auto]]]);
      (apply do_raw_ok in H; [|exact I|intro E; inversion E]); destruct H as (X & (A & B & _) & _);
      (split; [exact A|split; [exact B|]]); intros a c E; subst x; unfold p_raw_obs in E;
      match type of E with match ?t with _ => _ end = _ => destruct t end; inversion E; auto.
  Qed.

  (* item assignment through ANY object (the base, a slice of it, another slice), then a conversion of ANY
     position: the conversion of what that position shows now.  With obuf p = obuf x this is "a write through a
     view is seen by its base and vice versa". *)
  Lemma view_write_lemma : forall w s t p x v w1 x1 w2 x2,
    reachable w -> slot w s = Some p -> slot w t = Some x ->
    1 <= okind (get_obj w p) -> 1 <= okind (get_obj w x) ->
    step pf Q w (SetRow t v) = (w1, x1) -> step pf Q w1 (Conv s) = (w2, x2) ->
    bufs w1 = upd_nth (obuf (get_obj w x)) (write_row0 v) (bufs w)
    /\ obuf (get_obj w1 p) = obuf (get_obj w p) /\ oview (get_obj w1 p) = oview (get_obj w p)
    /\ x2 = match pf (convfn (okind (get_obj w p))) 0 [(false, contents w1 (get_obj w1 p))] with
            | None => None | Some a => Some (a, 0) end.
  Proof.
    intros w s t p x v w1 x1 w2 x2 R SL TL K KX H1 H2. pose proof (reachable_inv w R) as I.
    unfold step, with_slot in H1. rewrite TL in H1. unfold do_setrow in H1.
    assert (K0 : (okind (get_obj w x) =? 0) = false) by (apply Z.eqb_neq; lia).
    rewrite K0 in H1. simpl in H1. inversion H1; subst w1 x1. clear H1.
    pose proof (setrow_inv w x v I) as I1. simpl in I1.
    split; [reflexivity|].
    unfold step, with_slot in H2. unfold slot in H2, SL. simpl in H2. rewrite SL in H2.
    match type of H2 with (if 1 <=? okind (get_obj ?W p) then _ else _) = _ => set (w1 := W) in * end.
    assert (FF : okind (get_obj w1 p) = okind (get_obj w p) /\ obuf (get_obj w1 p) = obuf (get_obj w p)
                 /\ oview (get_obj w1 p) = oview (get_obj w p)).
    { unfold w1, get_obj. simpl. fold (get_obj (cleared_world w x) p).
      destruct (same_static_fields w (cleared_world w x) p (cleared_static w x)) as (A & B & C & _). auto. }
    destruct FF as (KK & BB & VV). split; [exact BB|]. split; [exact VV|].
    rewrite KK in H2. replace (1 <=? okind (get_obj w p)) with true in H2 by (symmetry; apply Z.leb_le; exact K).
    apply do_conv_ok in H2; [|exact I1]. destruct H2 as (X & _ & _). rewrite X. unfold p_conv_obs, p_child. rewrite KK. reflexivity.
  Qed.
End Spec.
