(* Proofs/C11_FileText.v - the text of a file and its lines.  A file is a sequence of characters; the parsers iterate over its
   lines (Python file iteration: pieces separated by "\n", the piece behind a final "\n" does not count).  The text denoting a
   list of lines is the lines joined by "\n", WITH OR WITHOUT a final terminator: both denote the same lines (an unterminated
   text cannot end with an empty line). *)
From Coq Require Import Ascii String List Bool Arith Lia.
From Verif Require Import Lib.Text Model.C11_Rinex.
Import ListNotations.
Local Open Scope nat_scope.
Local Open Scope string_scope.

Definition nl : string := String "010"%char "".

(* pieces separated by newline characters, the last one possibly empty *)
Fixpoint pieces (s : string) : list string :=
  match s with
  | "" => [""]
  | String c r => if is_nl c then "" :: pieces r
                  else match pieces r with p :: ps => String c p :: ps | [] => [String c ""] end
  end.
(* the lines Python's file iteration yields (each without its "\n") *)
Definition text_lines (s : string) : list string :=
  match rev (pieces s) with "" :: r => rev r | _ => pieces s end.

Definition file_text (terminated : bool) (lines : list string) : string :=
  join nl lines ++ (if terminated then nl else "").

Definition no_nl (s : string) : Prop := all_by (fun c => negb (is_nl c)) s = true.

Lemma pieces_ne s : pieces s <> [].
Proof. destruct s as [|c r]; cbn [pieces]; [discriminate|]. destruct (is_nl c); [discriminate|]. destruct (pieces r); discriminate. Qed.

Lemma pieces_app_nl x rest : no_nl x -> pieces (x ++ nl ++ rest) = x :: pieces rest.
Proof.
  unfold no_nl. induction x as [|c r IH]; intros H.
  - reflexivity.
  - cbn [all_by] in H. apply andb_prop in H. destruct H as [Hc Hr]. change (String c r ++ nl ++ rest) with (String c (r ++ nl ++ rest)).
    cbn [pieces]. destruct (is_nl c); [discriminate|]. rewrite (IH Hr). reflexivity.
Qed.

Lemma pieces_single x : no_nl x -> pieces x = [x].
Proof.
  unfold no_nl. induction x as [|c r IH]; intros H; [reflexivity|].
  cbn [all_by] in H. apply andb_prop in H. destruct H as [Hc Hr]. cbn [pieces]. destruct (is_nl c); [discriminate|].
  rewrite (IH Hr). reflexivity.
Qed.

Lemma pieces_join ls : ls <> [] -> Forall no_nl ls -> pieces (join nl ls) = ls.
Proof.
  intros Ne F. induction F as [|x r Hx Fr IH]; [contradiction|]. destruct r as [|y r'].
  - cbn. apply pieces_single, Hx.
  - change (join nl (x :: y :: r')) with (x ++ nl ++ join nl (y :: r')). rewrite (pieces_app_nl x _ Hx), IH by discriminate. reflexivity.
Qed.

Lemma pieces_join_nl ls : ls <> [] -> Forall no_nl ls -> pieces (join nl ls ++ nl) = (ls ++ [""])%list.
Proof.
  intros Ne F. induction F as [|x r Hx Fr IH]; [contradiction|]. destruct r as [|y r'].
  - cbn [join String.concat app]. rewrite <- (Text.app_nil_r nl). change (x ++ nl ++ "") with (x ++ nl ++ ""). rewrite (pieces_app_nl x "" Hx). reflexivity.
  - change (join nl (x :: y :: r') ++ nl) with ((x ++ nl ++ join nl (y :: r')) ++ nl). rewrite !Text.app_assoc.
    rewrite (pieces_app_nl x _ Hx), IH by discriminate. reflexivity.
Qed.

(* terminated text: the lines, whatever they are *)
Lemma text_lines_terminated ls : ls <> [] -> Forall no_nl ls -> text_lines (file_text true ls) = ls.
Proof.
  intros Ne F. unfold text_lines, file_text. rewrite (pieces_join_nl ls Ne F), rev_app_distr. cbn [rev app]. apply rev_involutive.
Qed.

(* unterminated text: the same lines, provided the last line is not empty *)
Lemma text_lines_unterminated ls : Forall no_nl ls -> last ls "x" <> "" -> text_lines (file_text false ls) = ls.
Proof.
  intros F L. destruct ls as [|x r]; [reflexivity|]. unfold text_lines, file_text. rewrite Text.app_nil_r, pieces_join by (auto; discriminate).
  assert (E : exists y ys, rev (x :: r) = y :: ys /\ y = last (x :: r) "x").
  { destruct (exists_last (l := x :: r) ltac:(discriminate)) as [ys [y E]]. rewrite E, rev_app_distr, last_last. cbn. eauto. }
  destruct E as [y [ys [E Ey]]]. rewrite E. destruct y; [congruence|reflexivity].
Qed.

Lemma file_text_lines term ls : ls <> [] -> Forall no_nl ls -> (term = true \/ last ls "x" <> "") -> text_lines (file_text term ls) = ls.
Proof.
  intros Ne F [T|T]; [subst; apply text_lines_terminated; auto|].
  destruct term; [apply text_lines_terminated; auto|apply text_lines_unterminated; auto].
Qed.
