(* C10 (b) - proofs about Model/C10_File.v *)
From Coq Require Import ZArith List Bool String Ascii Lia Permutation.
From Verif Require Import Lib.Dyadic Model.C10_Attr Model.C10_File.
Import ListNotations.
Open Scope Z_scope.
Open Scope string_scope.

(* ------------------------------------------------------------------ witnesses for the quirks *)
Definition pl1 : payload :=
  {| p_class := "midgard.data.position.TrsPosition"; p_sattrs := [("system", "trs"); ("ellipsoid", "GRS80")];
     p_main := Some {| a_dtype := "float64"; a_shape := [1; 3]; a_vals := [SF (Dy 1 0); SF (Dy 1 1); SF (Dy 3 0)] |};
     p_extra := [] |}.
Definition pl2 : payload :=
  {| p_class := "midgard.data.position.TrsPosition"; p_sattrs := [("system", "trs"); ("ellipsoid", "GRS80")];
     p_main := Some {| a_dtype := "float64"; a_shape := [1; 3]; a_vals := [SF (Dy 5 0); SF (Dy 3 1); SF (Dy 7 0)] |};
     p_extra := [] |}.
Definition mkleaf (k : string) (lv : Z) (pl : payload) (rs : list (string * ref)) : entry :=
  ELeaf {| l_kind := k; l_level := lv; l_unit := Some ["meter"; "meter"; "meter"]; l_mult := 1; l_pl := pl; l_refs := rs |}.
Definition mkds (fs : list (path * entry)) : dataset :=
  {| d_fields := fs; d_meta := [("m", Dict [(Str (la "a"), Flt FNan)])]; d_vars := []; d_numobs := 1; d_version := "v" |}.

(* sat is omitted at level operational, site refers to it *)
Definition w_dangling : dataset :=
  mkds [(["sat"], mkleaf "position" 2 pl1 []); (["site"], mkleaf "position" 3 pl2 [("other", RField ["sat"])])].
(* forward reference inside a collection *)
Definition w_parent : dataset :=
  mkds [(["g"], EColl); (["g"; "site"], mkleaf "position" 3 pl2 [("other", RField ["g"; "sat"])]); (["g"; "sat"], mkleaf "position" 3 pl1 [])].
(* forward reference two collections deep *)
Definition w_shallow : dataset :=
  mkds [(["g"], EColl); (["g"; "h"], EColl);
        (["g"; "h"; "site"], mkleaf "position" 3 pl2 [("other", RField ["g"; "h"; "sat"])]); (["g"; "h"; "sat"], mkleaf "position" 3 pl1 [])].
Definition w_text : dataset :=
  mkds [(["t"], ELeaf {| l_kind := "text"; l_level := 3; l_unit := None; l_mult := 1;
                         l_pl := {| p_class := "numpy.ndarray"; p_sattrs := [];
                                    p_main := Some {| a_dtype := "text3"; a_shape := [1]; a_vals := [ST "nan"] |}; p_extra := [] |};
                         l_refs := [] |})].

Definition roundtrips (qs : quirks) (d : dataset) (lvl : Z) : bool :=
  match write qs d lvl with
  | Some f => match read qs f with Some d' => dataset_eqb d' (restrict lvl d) | None => false end
  | None => false
  end.

Lemma dangling_refuted :
  wf w_dangling = true /\ roundtrips all_off w_dangling 3 = true /\
  exists f, write (set_q 3 all_off) w_dangling 3 = Some f /\ read (set_q 3 all_off) f = None.
Proof. split; [vm_compute; reflexivity|]. split; [vm_compute; reflexivity|]. eexists. split; vm_compute; reflexivity. Qed.

Lemma parent_lookup_refuted :
  wf w_parent = true /\ closed 1 w_parent = true /\ roundtrips all_off w_parent 1 = true /\
  exists f, write (set_q 5 all_off) w_parent 1 = Some f /\ read (set_q 5 all_off) f = None.
Proof. repeat (split; [vm_compute; reflexivity|]). eexists. split; vm_compute; reflexivity. Qed.

Lemma shallow_memo_refuted :
  wf w_shallow = true /\ closed 1 w_shallow = true /\ roundtrips all_off w_shallow 1 = true /\
  exists f d', write (set_q 4 all_off) w_shallow 1 = Some f /\ read (set_q 4 all_off) f = Some d' /\
               dataset_eqb d' (restrict 1 w_shallow) = false.
Proof. repeat (split; [vm_compute; reflexivity|]). eexists. eexists. repeat split; vm_compute; reflexivity. Qed.

Lemma np_string_refuted :
  wf w_text = true /\ roundtrips all_off w_text 1 = true /\ write (set_q 6 all_off) w_text 1 = None.
Proof. repeat split; vm_compute; reflexivity. Qed.

(* the regex quirk at file level: a top-level meta string is silently changed *)
Definition w_meta : dataset :=
  {| d_fields := []; d_meta := [("x", Str (la "a nan b"))]; d_vars := []; d_numobs := 0; d_version := "v" |}.
Lemma meta_nan_refuted :
  wf w_meta = true /\ roundtrips all_off w_meta 1 = true /\ roundtrips (set_q 2 all_off) w_meta 1 = false.
Proof. repeat split; vm_compute; reflexivity. Qed.

(* ------------------------------------------------------------------ restrict *)
Lemma restrict_fields_lemma : forall d lvl p,
  In p (map fst (d_fields (restrict lvl d))) <-> exists e, In (p, e) (d_fields d) /\ kept lvl e = true.
Proof.
  intros d lvl p. unfold restrict; cbn [d_fields].
  rewrite in_map_iff. split.
  - intros [[p' e'] [Hp Hin]]. cbn in Hp. subst p'.
    apply in_flat_map in Hin. destruct Hin as [[q e] [Hin Hx]].
    destruct e as [l|].
    + destruct (lvl <=? l_level l)%Z eqn:E; cbn in Hx; [|contradiction].
      destruct Hx as [Hx|[]]. inversion Hx; subst. exists (ELeaf l). split; [assumption|exact E].
    + cbn in Hx. destruct Hx as [Hx|[]]. inversion Hx; subst. exists EColl. split; [assumption|reflexivity].
  - intros [e [Hin Hk]]. destruct e as [l|].
    + cbn in Hk. eexists (p, _). split; [reflexivity|].
      apply in_flat_map. exists (p, ELeaf l). split; [assumption|]. rewrite Hk. left. reflexivity.
    + exists (p, EColl). split; [reflexivity|]. apply in_flat_map. exists (p, EColl). split; [assumption|left; reflexivity].
Qed.
