(* C15 - a label/field table that covers [std_table] (Model/C15_Antex.v: table_covers) reads rendered antennas
   exactly like [std_table]:

     prelex_covers : table_covers gen std_table = true -> wf_ant a = true ->
                     map (prelex gen) (render_ant a) = map (prelex std_table) (render_ant a)

   In a rendered record the first 60 columns are the standard's field slots and blanks everywhere else; a wider
   slot that touches no other field only adds blanks, and [strip] removes them (slice_widen).  Every record kind
   has its own lemma (covers_type_serial, covers_dazi, covers_zen, covers_nfreq, covers_valid,
   covers_start_of_frequency, covers_neu, covers_noazi, covers_azi_row, covers_end_of_frequency, and
   covers_unlabelled for the labels outside the table).  No axioms. *)
From Coq Require Import ZArith QArith List Bool String Ascii Arith Lia Setoid.
From Verif Require Import Lib.Dyadic Lib.Text Model.C15_Antex Proofs.C15_Lines.
Import ListNotations.
Local Open Scope string_scope.
Local Open Scope nat_scope.

(* ====================================================================================== widening a slice *)
Lemma take_plus m n t : take (m + n) t = take m t ++ take n (drop m t).
Proof.
  revert t; induction m as [|m IH]; intros t.
  - destruct t; reflexivity.
  - destruct t as [|c r]; simpl.
    + rewrite take_nil. reflexivity.
    + rewrite IH. reflexivity.
Qed.

Lemma slice_split x y z s : x <= y -> y <= z -> slice x z s = slice x y s ++ slice y z s.
Proof.
  intros H1 H2. unfold slice.
  replace (z - x) with ((y - x) + (z - y)) by lia.
  rewrite take_plus, drop_drop. do 3 f_equal. lia.
Qed.

Lemma strip_blank_l w s : all_space w = true -> strip (w ++ s) = strip s.
Proof.
  intros H. unfold strip, strip_by. induction w as [|c w IH]; [reflexivity|].
  simpl in H. apply andb_true_iff in H as [Hc Hw]. specialize (IH Hw).
  simpl. destruct (rstrip_by is_space (w ++ s)) as [|d r'] eqn:E.
  - rewrite Hc. exact IH.
  - simpl. rewrite Hc. exact IH.
Qed.

Lemma blank_mono x y x' y' s :
  all_space (slice x y s) = true -> x <= x' -> y' <= y -> all_space (slice x' y' s) = true.
Proof.
  intros H Hx Hy. destruct (Nat.le_gt_cases x' y') as [Hle|Hgt].
  - rewrite (slice_split x x' y s), (slice_split x' y' y s) in H by lia.
    unfold all_space in *. rewrite !all_by_app in H.
    apply andb_true_iff in H as [_ H]. apply andb_true_iff in H as [H _]. exact H.
  - rewrite slice_empty by lia. reflexivity.
Qed.

(* columns [lo, a) and [b, hi) are blank: every slot between (a, b) and (lo, hi) reads the same value *)
Lemma slice_widen lo a b hi a' b' s :
  all_space (slice lo a s) = true -> all_space (slice b hi s) = true ->
  lo <= a' -> a' <= a -> a <= b -> b <= b' -> b' <= hi ->
  strip (slice a' b' s) = strip (slice a b s).
Proof.
  intros Hl Hr H1 H2 H3 H4 H5.
  rewrite (slice_split a' a b' s), (slice_split a b b' s) by lia.
  rewrite strip_blank_l by (apply (blank_mono lo a); auto; lia).
  apply strip_app_space. apply (blank_mono b hi); auto; lia.
Qed.

(* ====================================================================================== covering tables *)
Lemma assoc_in {A} k (l : list (string * A)) v : assoc k l = Some v -> In (k, v) l.
Proof.
  induction l as [|[k' v'] r IH]; simpl; [discriminate|].
  destruct (String.eqb k k') eqn:E.
  - apply String.eqb_eq in E. subst k'. intros [= ->]. auto.
  - auto.
Qed.

Lemma in_assoc {A} k (l : list (string * A)) v : In (k, v) l -> assoc k l <> None.
Proof.
  induction l as [|[k' v'] r IH]; simpl; [tauto|].
  intros [E|H].
  - injection E as -> ->. rewrite String.eqb_refl. discriminate.
  - destruct (String.eqb k k'); [discriminate|auto].
Qed.

Lemma covers_none gen std k : table_covers gen std = true -> assoc k std = None -> assoc k gen = None.
Proof.
  unfold table_covers. intros H Hs. apply andb_true_iff in H as [H _].
  destruct (assoc k gen) as [v|] eqn:E; [|reflexivity].
  apply assoc_in in E. rewrite forallb_forall in H. specialize (H _ E). cbn [fst] in H.
  rewrite Hs in H. discriminate H.
Qed.

Lemma covers_some gen std k pname fields :
  table_covers gen std = true -> assoc k std = Some (pname, fields) ->
  exists gf, assoc k gen = Some (pname, gf) /\ fields_cover gf fields = true.
Proof.
  unfold table_covers. intros H Hs. apply andb_true_iff in H as [_ H].
  apply assoc_in in Hs. rewrite forallb_forall in H. specialize (H _ Hs). cbn [fst snd] in H.
  destruct (assoc k gen) as [[pn gf]|]; [|discriminate H].
  apply andb_true_iff in H as [H1 H2]. apply String.eqb_eq in H1. subst pn. exists gf. auto.
Qed.

Lemma fields_cover_map line others gf sf :
  list_match (field_covers others) gf sf = true ->
  (forall g s, In s sf -> field_covers others g s = true -> slice_field line (snd g) = slice_field line (snd s)) ->
  map (fun f : fieldspec => (fst f, slice_field line (snd f))) gf
  = map (fun f : fieldspec => (fst f, slice_field line (snd f))) sf.
Proof.
  revert sf; induction gf as [|g r IH]; intros [|s t]; simpl; try discriminate; auto.
  intros H HF. destruct (field_covers others g s) eqn:E; [|discriminate H].
  f_equal.
  - f_equal; [|apply HF; auto].
    unfold field_covers in E. apply andb_true_iff in E as [E _]. apply andb_true_iff in E as [E _].
    apply String.eqb_eq, E.
  - apply IH; auto.
Qed.

(* a line whose label is in the standard's table, and whose fields read the same through every covering slot *)
Lemma lex_covers gen line pname fields :
  table_covers gen std_table = true ->
  assoc (label_of line) std_table = Some (pname, fields) ->
  (forall g s, In s fields -> field_covers fields g s = true -> slice_field line (snd g) = slice_field line (snd s)) ->
  lex gen line = lex std_table line.
Proof.
  intros HT HA HF. unfold lex. destruct (String.eqb line ""); [reflexivity|].
  rewrite HA. destruct (covers_some _ _ _ _ _ HT HA) as (gf & -> & HC).
  do 2 f_equal. apply (fields_cover_map line fields); assumption.
Qed.

Lemma lex_covers_none gen line :
  table_covers gen std_table = true -> assoc (label_of line) std_table = None ->
  lex gen line = lex std_table line.
Proof.
  intros HT HA. unfold lex. destruct (String.eqb line ""); [reflexivity|].
  rewrite HA, (covers_none _ _ _ HT HA). reflexivity.
Qed.

Lemma covers_labelled gen line body label pname fields :
  table_covers gen std_table = true ->
  line = body ++ label -> len body = 60 -> lab_ok label = true ->
  assoc label std_table = Some (pname, fields) ->
  (forall g s, In s fields -> field_covers fields g s = true -> slice_field line (snd g) = slice_field line (snd s)) ->
  prelex gen line = prelex std_table line.
Proof.
  intros HT E Hb Hl Ha HF. destruct (labelled_facts line body label E Hb Hl) as (R & _ & L & _).
  unfold prelex. rewrite R. f_equal. apply (lex_covers gen line pname fields HT); [rewrite L; exact Ha|exact HF].
Qed.

Lemma covers_unlabelled gen line body label :
  table_covers gen std_table = true ->
  line = body ++ label -> len body = 60 -> lab_ok label = true ->
  assoc label std_table = None ->
  prelex gen line = prelex std_table line.
Proof.
  intros HT E Hb Hl Ha. destruct (labelled_facts line body label E Hb Hl) as (R & _ & L & _).
  unfold prelex. rewrite R. f_equal. apply lex_covers_none; [exact HT|rewrite L; exact Ha].
Qed.

(* a correction row: the only slot covering (0, None) is (0, None) *)
Lemma covers_corr gen line :
  table_covers gen std_table = true ->
  rstrip line = line -> label_of line = "CORRECTION" ->
  prelex gen line = prelex std_table line.
Proof.
  intros HT R L. unfold prelex. rewrite R. f_equal.
  apply (lex_covers gen line "parse_correction" [("values", (0, @None nat))] HT); [rewrite L; reflexivity|].
  intros [gn [a' [b'|]]] s [<-|[]] HC; unfold field_covers, slot_contains in HC; cbn [fst snd] in HC.
  - rewrite !andb_false_r in HC. discriminate HC.
  - apply andb_true_iff in HC as [HC _]. apply andb_true_iff in HC as [_ HC]. apply andb_true_iff in HC as [HC _].
    apply Nat.leb_le in HC. assert (a' = 0) as -> by lia. reflexivity.
Qed.

(* ====================================================================================== column tactics *)
Ltac b2p H :=
  repeat first [ rewrite andb_true_iff in H | rewrite orb_true_iff in H | rewrite Nat.leb_le in H ].

(* [slice x y line] of a rendered body is blank *)
Ltac blank :=
  first [ rewrite slice_empty by lia; reflexivity
        | repeat fld1; apply all_space_spaces ].

Ltac widen :=
  lazymatch goal with
  | |- strip (slice ?a' ?b' ?s) = strip (slice ?a ?b ?s) =>
      first [ solve [replace a' with a by lia; replace b' with b by lia; reflexivity]
            | solve [apply (slice_widen 0 a b 60); [blank|blank|lia..]]
            | solve [apply (slice_widen 0 a b b); [blank|blank|lia..]]
            | solve [apply (slice_widen a a b 60); [blank|blank|lia..]] ]
  end.

(* the field premise of [covers_labelled] for a concrete record *)
Ltac cover_fields :=
  let g := fresh "g" in let s := fresh "s" in let HIn := fresh "HIn" in let HC := fresh "HC" in
  let E := fresh "E" in let gn := fresh "gn" in let a' := fresh "a'" in let b' := fresh "b'" in
  intros g s HIn HC; destruct g as [gn [a' [b'|]]]; cbn [In] in HIn;
  repeat (destruct HIn as [E|HIn]); try contradiction; subst s;
  unfold field_covers, slot_contains, slot_disjoint in HC; cbn -[Nat.leb] in HC;
  lazymatch type of HC with
  | context [(_ && false)%bool] =>                                  (* an open slot over a closed one *)
      exfalso; apply andb_true_iff in HC as [HC _]; apply andb_true_iff in HC as [_ HC];
      rewrite andb_false_r in HC; discriminate HC
  | _ => b2p HC; cbn [slice_field snd]; widen
  end.

Ltac covered body label :=
  eapply (covers_labelled _ _ body label);
  [ eassumption | rewrite ?app_assoc; reflexivity | lens | reflexivity | reflexivity | cover_fields ].

(* ====================================================================================== the records *)
Lemma covers_dazi gen d :
  table_covers gen std_table = true -> numtok 6 d = true ->
  prelex gen (spaces 2 ++ rjust 6 d ++ spaces 52 ++ "DAZI")
  = prelex std_table (spaces 2 ++ rjust 6 d ++ spaces 52 ++ "DAZI").
Proof.
  intros HT H. apply numtok_inv in H as (_ & _ & L & _ & T).
  covered (spaces 2 ++ rjust 6 d ++ spaces 52) "DAZI".
Qed.

Lemma covers_type_serial gen t s sat cos :
  table_covers gen std_table = true ->
  fitsb 20 t = true -> fitsb 20 s = true -> fitsb 10 sat = true -> fitsb 10 cos = true ->
  prelex gen (ljust 20 t ++ ljust 20 s ++ ljust 10 sat ++ ljust 10 cos ++ "TYPE / SERIAL NO")
  = prelex std_table (ljust 20 t ++ ljust 20 s ++ ljust 10 sat ++ ljust 10 cos ++ "TYPE / SERIAL NO").
Proof.
  intros HT H1 H2 H3 H4.
  apply fitsb_inv in H1 as [T1 L1]. apply fitsb_inv in H2 as [T2 L2].
  apply fitsb_inv in H3 as [T3 L3]. apply fitsb_inv in H4 as [T4 L4].
  covered (ljust 20 t ++ ljust 20 s ++ ljust 10 sat ++ ljust 10 cos) "TYPE / SERIAL NO".
Qed.

Lemma covers_zen gen z1 z2 dz :
  table_covers gen std_table = true ->
  numtok 6 z1 = true -> numtok 6 z2 = true -> numtok 6 dz = true ->
  prelex gen (spaces 2 ++ rjust 6 z1 ++ rjust 6 z2 ++ rjust 6 dz ++ spaces 40 ++ "ZEN1 / ZEN2 / DZEN")
  = prelex std_table (spaces 2 ++ rjust 6 z1 ++ rjust 6 z2 ++ rjust 6 dz ++ spaces 40 ++ "ZEN1 / ZEN2 / DZEN").
Proof.
  intros HT H1 H2 H3.
  apply numtok_inv in H1 as (_ & _ & L1 & _ & T1). apply numtok_inv in H2 as (_ & _ & L2 & _ & T2).
  apply numtok_inv in H3 as (_ & _ & L3 & _ & T3).
  covered (spaces 2 ++ rjust 6 z1 ++ rjust 6 z2 ++ rjust 6 dz ++ spaces 40) "ZEN1 / ZEN2 / DZEN".
Qed.

Lemma covers_nfreq gen n :
  table_covers gen std_table = true -> numtok 6 n = true ->
  prelex gen (rjust 6 n ++ spaces 54 ++ "# OF FREQUENCIES")
  = prelex std_table (rjust 6 n ++ spaces 54 ++ "# OF FREQUENCIES").
Proof.
  intros HT H. apply numtok_inv in H as (_ & _ & L & _ & T).
  covered (rjust 6 n ++ spaces 54) "# OF FREQUENCIES".
Qed.

Lemma valid_fields_widen y m d h mi s label :
  len y <= 6 -> len m <= 6 -> len d <= 6 -> len h <= 6 -> len mi <= 6 -> len s <= 13 ->
  let line := rjust 6 y ++ rjust 6 m ++ rjust 6 d ++ rjust 6 h ++ rjust 6 mi ++ rjust 13 s ++ spaces 17 ++ label in
  let fields := [("year", (0, Some 6)); ("month", (6, Some 12)); ("day", (12, Some 18)); ("hour", (18, Some 24));
                 ("minute", (24, Some 30)); ("second", (30, Some 43))] in
  forall g f, In f fields -> field_covers fields g f = true -> slice_field line (snd g) = slice_field line (snd f).
Proof. intros L1 L2 L3 L4 L5 L6 line fields. subst line fields. cover_fields. Qed.

Lemma covers_valid_line gen y m d h mi s label :
  table_covers gen std_table = true ->
  label = "VALID FROM" \/ label = "VALID UNTIL" ->
  numtok 6 y = true -> numtok 6 m = true -> numtok 6 d = true ->
  numtok 6 h = true -> numtok 6 mi = true -> numtok 13 s = true ->
  prelex gen (rjust 6 y ++ rjust 6 m ++ rjust 6 d ++ rjust 6 h ++ rjust 6 mi ++ rjust 13 s ++ spaces 17 ++ label)
  = prelex std_table
      (rjust 6 y ++ rjust 6 m ++ rjust 6 d ++ rjust 6 h ++ rjust 6 mi ++ rjust 13 s ++ spaces 17 ++ label).
Proof.
  intros HT HL H1 H2 H3 H4 H5 H6.
  apply numtok_inv in H1 as (_ & _ & L1 & _ & T1). apply numtok_inv in H2 as (_ & _ & L2 & _ & T2).
  apply numtok_inv in H3 as (_ & _ & L3 & _ & T3). apply numtok_inv in H4 as (_ & _ & L4 & _ & T4).
  apply numtok_inv in H5 as (_ & _ & L5 & _ & T5). apply numtok_inv in H6 as (_ & _ & L6 & _ & T6).
  pose proof (valid_fields_widen y m d h mi s label L1 L2 L3 L4 L5 L6) as W. cbv zeta in W.
  destruct HL as [->| ->].
  - eapply (covers_labelled _ _ (rjust 6 y ++ rjust 6 m ++ rjust 6 d ++ rjust 6 h ++ rjust 6 mi ++ rjust 13 s ++ spaces 17)
                            "VALID FROM");
      [ eassumption | rewrite ?app_assoc; reflexivity | lens | reflexivity | reflexivity | exact W ].
  - eapply (covers_labelled _ _ (rjust 6 y ++ rjust 6 m ++ rjust 6 d ++ rjust 6 h ++ rjust 6 mi ++ rjust 13 s ++ spaces 17)
                            "VALID UNTIL");
      [ eassumption | rewrite ?app_assoc; reflexivity | lens | reflexivity | reflexivity | exact W ].
Qed.

Lemma covers_valid gen t label :
  table_covers gen std_table = true ->
  label = "VALID FROM" \/ label = "VALID UNTIL" -> wf_valid (Some t) = true ->
  prelex gen (render_valid t label) = prelex std_table (render_valid t label).
Proof.
  intros HT HL H. apply wf_valid_inv in H as (y & m & d & h & mi & s & -> & H1 & H2 & H3 & H4 & H5 & H6).
  unfold render_valid. apply covers_valid_line; assumption.
Qed.

Lemma covers_opt_valid gen t label :
  table_covers gen std_table = true ->
  label = "VALID FROM" \/ label = "VALID UNTIL" -> wf_valid t = true ->
  map (prelex gen) (render_opt_valid t label) = map (prelex std_table) (render_opt_valid t label).
Proof.
  intros HT HL H. destruct t as [t|]; [|reflexivity].
  unfold render_opt_valid. cbn [map]. rewrite (covers_valid gen t label HT HL H). reflexivity.
Qed.

Lemma covers_start_of_frequency gen c :
  table_covers gen std_table = true -> fitsb 3 c = true ->
  prelex gen (spaces 3 ++ ljust 3 c ++ spaces 54 ++ "START OF FREQUENCY")
  = prelex std_table (spaces 3 ++ ljust 3 c ++ spaces 54 ++ "START OF FREQUENCY").
Proof.
  intros HT H. apply fitsb_inv in H as [T L].
  covered (spaces 3 ++ ljust 3 c ++ spaces 54) "START OF FREQUENCY".
Qed.

Lemma covers_end_of_frequency gen c :
  table_covers gen std_table = true -> fitsb 3 c = true ->
  prelex gen (spaces 3 ++ ljust 3 c ++ spaces 54 ++ "END OF FREQUENCY")
  = prelex std_table (spaces 3 ++ ljust 3 c ++ spaces 54 ++ "END OF FREQUENCY").
Proof.
  intros HT H. apply fitsb_inv in H as [T L].
  covered (spaces 3 ++ ljust 3 c ++ spaces 54) "END OF FREQUENCY".
Qed.

Lemma covers_neu gen n e u :
  table_covers gen std_table = true ->
  numtok 10 n = true -> numtok 10 e = true -> numtok 10 u = true ->
  prelex gen (rjust 10 n ++ rjust 10 e ++ rjust 10 u ++ spaces 30 ++ "NORTH / EAST / UP")
  = prelex std_table (rjust 10 n ++ rjust 10 e ++ rjust 10 u ++ spaces 30 ++ "NORTH / EAST / UP").
Proof.
  intros HT H1 H2 H3.
  apply numtok_inv in H1 as (_ & _ & L1 & _ & T1). apply numtok_inv in H2 as (_ & _ & L2 & _ & T2).
  apply numtok_inv in H3 as (_ & _ & L3 & _ & T3).
  covered (rjust 10 n ++ rjust 10 e ++ rjust 10 u ++ spaces 30) "NORTH / EAST / UP".
Qed.

Lemma covers_noazi gen vals :
  table_covers gen std_table = true -> forallb (numtok 7) vals = true ->
  prelex gen ("   NOAZI" ++ render_values vals) = prelex std_table ("   NOAZI" ++ render_values vals).
Proof. intros HT H. destruct (noazi_facts vals H) as [R L]. apply covers_corr; assumption. Qed.

Lemma covers_azi_row gen az vals :
  table_covers gen std_table = true -> numtok 8 az = true -> forallb (numtok 7) vals = true ->
  prelex gen (rjust 8 az ++ render_values vals) = prelex std_table (rjust 8 az ++ render_values vals).
Proof. intros HT Ha H. destruct (azi_row_facts az vals Ha H) as [R L]. apply covers_corr; assumption. Qed.

(* labels outside the table *)
Lemma covers_start_of_antenna gen :
  table_covers gen std_table = true ->
  prelex gen (spaces 60 ++ "START OF ANTENNA") = prelex std_table (spaces 60 ++ "START OF ANTENNA").
Proof. intros HT. apply (covers_unlabelled gen _ (spaces 60) "START OF ANTENNA"); auto. Qed.

Lemma covers_end_of_antenna gen :
  table_covers gen std_table = true ->
  prelex gen (spaces 60 ++ "END OF ANTENNA") = prelex std_table (spaces 60 ++ "END OF ANTENNA").
Proof. intros HT. apply (covers_unlabelled gen _ (spaces 60) "END OF ANTENNA"); auto. Qed.

Lemma covers_start_of_freq_rms gen c :
  table_covers gen std_table = true -> fitsb 3 c = true ->
  prelex gen (spaces 3 ++ ljust 3 c ++ spaces 54 ++ "START OF FREQ RMS")
  = prelex std_table (spaces 3 ++ ljust 3 c ++ spaces 54 ++ "START OF FREQ RMS").
Proof.
  intros HT H. apply fitsb_inv in H as [T L].
  apply (covers_unlabelled gen _ (spaces 3 ++ ljust 3 c ++ spaces 54) "START OF FREQ RMS");
    [exact HT | rewrite ?app_assoc; reflexivity | lens | reflexivity | reflexivity].
Qed.

Lemma covers_end_of_freq_rms gen c :
  table_covers gen std_table = true -> fitsb 3 c = true ->
  prelex gen (spaces 3 ++ ljust 3 c ++ spaces 54 ++ "END OF FREQ RMS")
  = prelex std_table (spaces 3 ++ ljust 3 c ++ spaces 54 ++ "END OF FREQ RMS").
Proof.
  intros HT H. apply fitsb_inv in H as [T L].
  apply (covers_unlabelled gen _ (spaces 3 ++ ljust 3 c ++ spaces 54) "END OF FREQ RMS");
    [exact HT | rewrite ?app_assoc; reflexivity | lens | reflexivity | reflexivity].
Qed.

(* ====================================================================================== sections *)
Lemma covers_rows gen rows :
  table_covers gen std_table = true ->
  forallb (fun r : string * list string => numtok 8 (fst r) && forallb (numtok 7) (snd r)) rows = true ->
  map (prelex gen) (map (fun r => rjust 8 (fst r) ++ render_values (snd r)) rows)
  = map (prelex std_table) (map (fun r => rjust 8 (fst r) ++ render_values (snd r)) rows).
Proof.
  intros HT Hrows. rewrite !map_map. apply map_ext_in. intros r Hr.
  rewrite forallb_forall in Hrows. specialize (Hrows r Hr). apply andb_true_iff in Hrows as [Ha Hv].
  apply covers_azi_row; assumption.
Qed.

Lemma covers_render_freq gen f :
  table_covers gen std_table = true -> wf_freq f = true ->
  map (prelex gen) (render_freq f) = map (prelex std_table) (render_freq f).
Proof.
  unfold wf_freq. intros HT H.
  apply andb_true_iff in H as [H Hrows]. apply andb_true_iff in H as [H Hnoazi].
  apply andb_true_iff in H as [H Hu]. apply andb_true_iff in H as [H He]. apply andb_true_iff in H as [Hc Hn].
  unfold render_freq. rewrite !map_app. cbn [map].
  rewrite (covers_start_of_frequency gen _ HT Hc), (covers_neu gen _ _ _ HT Hn He Hu), (covers_noazi gen _ HT Hnoazi),
          (covers_end_of_frequency gen _ HT Hc), (covers_rows gen _ HT Hrows).
  reflexivity.
Qed.

Lemma covers_render_rms gen f :
  table_covers gen std_table = true -> wf_freq f = true ->
  map (prelex gen) (render_rms f) = map (prelex std_table) (render_rms f).
Proof.
  unfold wf_freq. intros HT H.
  apply andb_true_iff in H as [H Hrows]. apply andb_true_iff in H as [H Hnoazi].
  apply andb_true_iff in H as [H Hu]. apply andb_true_iff in H as [H He]. apply andb_true_iff in H as [Hc Hn].
  unfold render_rms. rewrite !map_app. cbn [map].
  rewrite (covers_start_of_freq_rms gen _ HT Hc), (covers_neu gen _ _ _ HT Hn He Hu), (covers_noazi gen _ HT Hnoazi),
          (covers_end_of_freq_rms gen _ HT Hc), (covers_rows gen _ HT Hrows).
  reflexivity.
Qed.

Lemma covers_concat gen (render : freq_m -> list string) fs :
  (forall f, wf_freq f = true -> map (prelex gen) (render f) = map (prelex std_table) (render f)) ->
  forallb wf_freq fs = true ->
  map (prelex gen) (List.concat (map render fs)) = map (prelex std_table) (List.concat (map render fs)).
Proof.
  intros HR. induction fs as [|f r IH]; [reflexivity|]. cbn [forallb map List.concat]. intros H.
  apply andb_true_iff in H as [Hf Hr]. rewrite !map_app, (HR f Hf), (IH Hr). reflexivity.
Qed.

(* ====================================================================================== antennas *)
Lemma covers_render_ant_head gen a :
  table_covers gen std_table = true -> wf_ant a = true ->
  map (prelex gen) (render_ant_head a) = map (prelex std_table) (render_ant_head a).
Proof.
  unfold wf_ant. intros HT H.
  do 12 (apply andb_true_iff in H as [H ?]).
  unfold render_ant_head. rewrite !map_app. cbn [map].
  rewrite (covers_start_of_antenna gen HT), (covers_type_serial gen), (covers_dazi gen), (covers_zen gen),
          (covers_nfreq gen) by assumption.
  rewrite (covers_opt_valid gen (am_from a) "VALID FROM") by (auto; assumption).
  rewrite (covers_opt_valid gen (am_until a) "VALID UNTIL") by (auto; assumption).
  reflexivity.
Qed.

Lemma prelex_covers : forall (gen : table) (a : ant_m),
  table_covers gen std_table = true -> wf_ant a = true ->
  map (prelex gen) (render_ant a) = map (prelex std_table) (render_ant a).
Proof.
  intros gen a HT H. unfold render_ant. rewrite !map_app, (covers_render_ant_head gen a HT H).
  assert (Hf : forallb wf_freq (am_freqs a) = true /\ forallb wf_freq (am_rms a) = true).
  { unfold wf_ant in H. apply andb_true_iff in H as [H Hr]. apply andb_true_iff in H as [_ H]. auto. }
  destruct Hf as [Hf Hr].
  rewrite (covers_concat gen render_freq _ (fun f => covers_render_freq gen f HT) Hf).
  rewrite (covers_concat gen render_rms _ (fun f => covers_render_rms gen f HT) Hr).
  cbn [map]. rewrite (covers_end_of_antenna gen HT). reflexivity.
Qed.
