(* C05 - accuracy of the one-step algorithm on a curve: one Taylor-model certificate (Coq-Interval, univariate) per file. *)
From Coq Require Import Reals.
From Interval Require Import Tactic.
From Verif Require Import Model.C05_Geodetic Proofs.C05_AccDefs.
Open Scope R_scope.

(* all latitudes 0 .. 1.5 rad (85.9 deg) on the surface of constant ellipsoidal height -100000 m, GRS80:
   latitude error <= 1.5e-13 rad (< 1e-6 m of arc) *)
Lemma acc_lat_m100 phi : 0 <= phi <= 3/2 ->
  Rabs (merid_lat grs80_a grs80_f (geo_p grs80_a grs80_f phi (-100000)) (geo_z grs80_a grs80_f phi (-100000)) - phi) <= 3 / 20000000000000.
Proof.
  intros H. unfold_all.
  interval with (i_bisect phi, i_taylor phi, i_degree 10, i_prec 80, i_depth 14).
Qed.
