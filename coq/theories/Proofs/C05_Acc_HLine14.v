(* C05 - accuracy of the one-step algorithm on a curve: one Taylor-model certificate (Coq-Interval, univariate) per file. *)
From Coq Require Import Reals.
From Interval Require Import Tactic.
From Verif Require Import Model.C05_Geodetic Proofs.C05_AccDefs.
Open Scope R_scope.

(* all heights -100 km .. +100 km on the normal at geodetic latitude 1/4 rad, GRS80 *)
Lemma acc_h_line14 h : -100000 <= h <= 100000 ->
  Rabs (merid_h grs80_a grs80_f (geo_p grs80_a grs80_f (1/4) h) (geo_z grs80_a grs80_f (1/4) h) - h) <= 1 / 1000000.
Proof.
  intros H. unfold_all.
  interval with (i_bisect h, i_taylor h, i_degree 10, i_prec 80, i_depth 14).
Qed.
