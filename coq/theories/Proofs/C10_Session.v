(* C10 (c) - history independence of the codec session model *)
From Coq Require Import ZArith List Bool String Ascii.
From Verif Require Import Lib.Dyadic Model.C10_Attr Model.C10_File Model.C10_Session.
Import ListNotations.

(* without a memo the answers of a session are the decodes of the stored values, whatever the caller did with earlier results *)
Lemma srun_pure : forall q ops st, srun q false st ops = map (decode q) (decs ops).
Proof.
  intros q ops. induction ops as [|o r IH]; intro st; [reflexivity|].
  destruct o as [e|e t']; cbn [srun decs map].
  - rewrite IH. reflexivity.
  - apply IH.
Qed.

(* ... in particular independent of the initial state and of interleaved mutations *)
Lemma srun_history_independent : forall q ops ops' st st',
  decs ops = decs ops' -> srun q false st ops = srun q false st' ops'.
Proof. intros. rewrite !srun_pure. congruence. Qed.

Definition e_list : enc := ETag KList (print (List [Int 1%Z; Int 2%Z])).
Definition ops_mut : list sop := [SDec e_list; SMut e_list (List [Int 1%Z; Int 2%Z; Int 3%Z]); SDec e_list].

(* with a memo of parsed texts the second decode returns what the caller made of the first result *)
Lemma memo_refuted :
  srun false true [] ops_mut = [Some (List [Int 1%Z; Int 2%Z]); Some (List [Int 1%Z; Int 2%Z; Int 3%Z])] /\
  srun false false [] ops_mut = [Some (List [Int 1%Z; Int 2%Z]); Some (List [Int 1%Z; Int 2%Z])].
Proof. split; vm_compute; reflexivity. Qed.
