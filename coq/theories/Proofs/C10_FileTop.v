(* C10 (b) - final statements: the premise no_shadow of Proofs/C10_FileRT.v follows from the dataset being a tree
   (the parent of every nested path is a collection entry), which is what midgard's nested field dictionaries are. *)
From Coq Require Import ZArith List Bool String Ascii Lia Permutation.
From Verif Require Import Lib.Dyadic Model.C10_Attr Model.C10_File Proofs.C10_Attr Proofs.C10_FileRT.
Import ListNotations.

Definition tree_shaped (d : dataset) : bool :=
  forallb (fun pe => match fst pe with
                     | [] | [_] => true
                     | p => match plookup (parent p) (d_fields d) with Some EColl => true | _ => false end
                     end) (d_fields d).

Lemma removelast_snoc : forall {A} (p : list A) a, removelast (p ++ [a]) = p.
Proof.
  intros A p a. rewrite removelast_app by discriminate. cbn. apply app_nil_r.
Qed.

Lemma plookup_nodup_in : forall {A} (fs : list (path * A)) p e,
  nodup_paths (map fst fs) = true -> In (p, e) fs -> plookup p fs = Some e.
Proof.
  intros A fs p e Hn Hin.
  destruct (plookup p fs) as [e'|] eqn:E.
  - apply plookup_in in E. f_equal. eapply nodup_paths_fun; eassumption.
  - exfalso. clear Hn. induction fs as [|[q x] r IH]; [contradiction|].
    cbn in E. destruct (path_eqb p q) eqn:Ep; [discriminate|].
    destruct Hin as [Hin|Hin].
    + inversion Hin; subst. rewrite path_eqb_refl in Ep. discriminate.
    + exact (IH Hin E).
Qed.

Lemma tree_no_shadow : forall d, wf d = true -> tree_shaped d = true -> no_shadow d.
Proof.
  intros d Hwf Ht p l a pl q e Hp Ha Hq Heq. subst q.
  pose proof (wf_nodup d Hwf) as Hn.
  destruct (wf_entry d p (ELeaf l) Hwf Hp) as [_ Hne].
  unfold tree_shaped in Ht. rewrite forallb_forall in Ht. specialize (Ht _ Hq). cbn [fst] in Ht.
  destruct p as [|x p']; [congruence|].
  assert (Hpar : parent ((x :: p') ++ [a]) = x :: p') by (unfold parent; apply removelast_snoc).
  cbn [app] in Ht, Hpar.
  destruct (p' ++ [a]) as [|z r] eqn:E.
  - destruct p'; discriminate.
  - rewrite Hpar in Ht. rewrite (plookup_nodup_in _ _ _ Hn Hp) in Ht. discriminate.
Qed.

Lemma file_roundtrip_final : forall d lvl rank,
  wf d = true -> tree_shaped d = true -> closed lvl d = true -> ranked rank d ->
  exists f, write all_off d lvl = Some f /\ exists d', read all_off f = Some d' /\ dataset_equiv d' (restrict lvl d).
Proof. intros. eapply file_roundtrip_lemma; eauto using tree_no_shadow. Qed.

Lemma reference_identity_final : forall d lvl rank f st fl,
  wf d = true -> tree_shaped d = true -> closed lvl d = true -> ranked rank d ->
  write all_off d lvl = Some f -> read_state all_off f = Some (st, fl) ->
  forall p l a q, In (p, ELeaf l) (d_fields d) -> (lvl <=? l_level l)%Z = true -> In (a, RField q) (l_refs l) ->
  exists k v u m idp k' v' u' m' idq o,
    In (p, RLeaf k v u m idp) fl /\ In (q, RLeaf k' v' u' m' idq) fl /\
    nlookup idp (heap st) = Some o /\ In (a, idq) (r_refs o).
Proof. intros. eapply reference_identity_lemma; eauto using tree_no_shadow. Qed.

Lemma field_ids_distinct_final : forall d lvl rank f st fl,
  wf d = true -> tree_shaped d = true -> closed lvl d = true -> ranked rank d ->
  write all_off d lvl = Some f -> read_state all_off f = Some (st, fl) ->
  forall p1 k1 v1 u1 m1 id1 p2 k2 v2 u2 m2 id2,
    In (p1, RLeaf k1 v1 u1 m1 id1) fl -> In (p2, RLeaf k2 v2 u2 m2 id2) fl -> p1 <> p2 -> id1 <> id2.
Proof. intros until 6. eapply field_ids_distinct_lemma; eauto using tree_no_shadow. Qed.

(* which hypotheses of file_roundtrip a generated case meets (evidence only): 1 wf + 2 tree_shaped + 4 closed *)
Definition check_hyp (c : dataset * Z) : Z :=
  ((if wf (fst c) then 1 else 0) + (if tree_shaped (fst c) then 2 else 0) + (if closed (snd c) (fst c) then 4 else 0))%Z.
Definition hyp_case (c : dataset * Z * owrite * oread) : Z := check_hyp (fst (fst (fst c)), snd (fst (fst c))).
