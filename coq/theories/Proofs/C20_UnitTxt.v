(* C20 / units - the definitions of midgard/math/unit.txt (regenerated into Gen/C20_UnitTxt.v on every run)
   agree with the table of Model/C20_Units.v. *)
From Coq Require Import ZArith QArith Bool List String.
From Verif Require Import Lib.Dyadic Model.C20_Units Gen.C20_UnitTxt.

Lemma unit_txt_consistent_l : forallb txt_def_ok unit_txt = true.
Proof. vm_compute. reflexivity. Qed.

Lemma unit_txt_consistent_in d : In d unit_txt -> txt_def_ok d = true.
Proof. apply forallb_forall. exact unit_txt_consistent_l. Qed.
