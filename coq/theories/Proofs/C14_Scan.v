(* Proofs/C14_Scan.v - SinexParser.parse_blocks: block order, foreign blocks and comment lines (lemmas behind Props/C14.v) *)
From Coq Require Import ZArith List Bool String Ascii Lia Permutation.
From Verif Require Import Lib.Text Model.C14_Sinex.
Import ListNotations.
Open Scope nat_scope.
Open Scope string_scope.

Definition head_line (m : string) (ps : list string) : string := "+" ++ join " " (m :: ps).
Definition end_line (m : string) : string := "-" ++ m.

(* ------------------------------------------------------------------------------------------ block scanning *)
Inductive item := Junk (l : string) | Blk (m : string) (ps : list string) (body : list string).

Definition render_item (it : item) : list string :=
  match it with
  | Junk l => [l]
  | Blk m ps body => (head_line m ps :: body ++ [end_line m])%list
  end.
Definition render_file (its : list item) : list string := flat_map render_item its.

(* anything that does not start with '+' between blocks (comment lines, %ENDSNX, blank lines);
   block titles are blank-separated tokens; lines inside a block start neither with '-' nor with '+' *)
Definition item_ok (it : item) : Prop :=
  match it with
  | Junk l => startswith "+" l = false
  | Blk m ps body => Forall (fun t => is_token t = true) (m :: ps) /\
                     Forall (fun l => startswith "-" l = false /\ startswith "+" l = false) body
  end.
Definition data_lines (body : list string) : list string := filter (startswith " ") body.

Fixpoint expected (wanted : list string) (its : list item) : list found :=
  match its with
  | [] => []
  | Junk _ :: r => expected wanted r
  | Blk m ps body :: r =>
      if mem m wanted then (m, ps, data_lines body) :: expected (remove m wanted) r else expected wanted r
  end.

Lemma scan_junk wanted l rest : startswith "+" l = false -> scan wanted None (l :: rest) = scan wanted None rest.
Proof. intros H. destruct wanted; cbn [scan]; [destruct rest; reflexivity|]. rewrite H. reflexivity. Qed.

Lemma scan_nil_wanted ls : scan [] None ls = [].
Proof. destruct ls; reflexivity. Qed.

Lemma scan_skip wanted body rest :
  Forall (fun l => startswith "-" l = false /\ startswith "+" l = false) body ->
  scan wanted None (body ++ rest)%list = scan wanted None rest.
Proof.
  induction body as [|l body IH]; intros H; [reflexivity|].
  inversion H as [|a b [_ Ha] Hb]. subst. cbn [app]. rewrite scan_junk by exact Ha. apply IH. exact Hb.
Qed.

Lemma scan_body wanted m ps m' rest : forall body acc,
  Forall (fun l => startswith "-" l = false /\ startswith "+" l = false) body ->
  scan wanted (Some (m, ps, acc)) (body ++ end_line m' :: rest)%list =
  (m, ps, (rev acc ++ data_lines body)%list) :: scan (remove m wanted) None rest.
Proof.
  induction body as [|l body IH]; intros acc H.
  - cbn [app scan data_lines filter]. change (startswith "-" (end_line m')) with true. cbv iota.
    rewrite List.app_nil_r. reflexivity.
  - inversion H as [|a b [Ha _] Hb]. subst. cbn [app scan]. rewrite Ha. rewrite IH by exact Hb.
    cbn [data_lines filter]. destruct (startswith " " l); [|reflexivity].
    cbn [rev]. rewrite <- List.app_assoc. reflexivity.
Qed.

Lemma scan_blk wanted m ps body rest :
  item_ok (Blk m ps body) ->
  scan wanted None (render_item (Blk m ps body) ++ rest)%list =
  if mem m wanted then (m, ps, data_lines body) :: scan (remove m wanted) None rest else scan wanted None rest.
Proof.
  intros [Htok Hbody]. destruct wanted as [|w0 ws].
  - cbn [mem existsb]. rewrite !scan_nil_wanted. reflexivity.
  - cbn [render_item app]. set (W := w0 :: ws).
    assert (Hh : split_ws (strip (drop 1 (head_line m ps))) = m :: ps).
    { change (drop 1 (head_line m ps)) with (join " " (m :: ps)).
      rewrite split_ws_strip. apply split_join. exact Htok. }
    unfold W at 1. cbn [scan]. change (startswith "+" (head_line m ps)) with true. cbv iota.
    rewrite Hh. fold W. destruct (mem m W) eqn:E.
    + rewrite <- List.app_assoc. cbn [app]. rewrite scan_body by exact Hbody. reflexivity.
    + rewrite <- List.app_assoc. rewrite scan_skip by exact Hbody. cbn [app].
      apply scan_junk. reflexivity.
Qed.

Lemma scan_render its : Forall item_ok its -> forall wanted, scan wanted None (render_file its) = expected wanted its.
Proof.
  induction its as [|it its IH]; intros H wanted.
  - destruct wanted; reflexivity.
  - inversion H as [|a b Ha Hb]. subst. cbn [render_file flat_map]. destruct it as [l|m ps body].
    + cbn [render_item app expected]. rewrite scan_junk by exact Ha. apply IH. exact Hb.
    + rewrite scan_blk by exact Ha. cbn [expected]. destruct (mem m wanted); [f_equal|]; apply IH; exact Hb.
Qed.

Lemma mem_remove x m w : mem x (remove m w) = true -> mem x w = true.
Proof.
  unfold mem, remove. rewrite !existsb_exists. intros [y [Hy E]]. apply filter_In in Hy.
  exists y. split; [apply Hy|exact E].
Qed.

Lemma mem_remove_neq x m w : String.eqb m x = false -> mem x w = true -> mem x (remove m w) = true.
Proof.
  unfold mem, remove. rewrite !existsb_exists. intros N [y [Hy E]]. exists y. split; [|exact E].
  apply filter_In. split; [exact Hy|]. apply String.eqb_eq in E. subst y. rewrite N. reflexivity.
Qed.

Definition relevant (W : list string) (it : item) : bool :=
  match it with Junk _ => false | Blk m _ _ => mem m W end.

Lemma expected_filter W its : forall w,
  (forall m, mem m w = true -> mem m W = true) ->
  expected w (filter (relevant W) its) = expected w its.
Proof.
  induction its as [|it its IH]; intros w Hsub; [reflexivity|].
  destruct it as [l|m ps body]; cbn [filter relevant].
  - cbn [expected]. apply IH. exact Hsub.
  - destruct (mem m W) eqn:EW.
    + cbn [expected]. destruct (mem m w); [f_equal|]; apply IH; [|exact Hsub].
      intros x Hx. apply Hsub. eapply mem_remove. exact Hx.
    + cbn [expected]. destruct (mem m w) eqn:Ew; [apply Hsub in Ew; congruence|]. apply IH. exact Hsub.
Qed.

Definition markers (its : list item) : list string :=
  flat_map (fun it => match it with Blk m _ _ => [m] | Junk _ => [] end) its.

Lemma in_markers m ps body its : In (Blk m ps body) its -> In m (markers its).
Proof. intros H. unfold markers. apply in_flat_map. exists (Blk m ps body). split; [exact H|left; reflexivity]. Qed.

Lemma lookup_in m ps body its : forall w,
  NoDup (markers its) -> In (Blk m ps body) its -> mem m w = true ->
  lookup m (found_assoc (expected w its)) = Some (ps, data_lines body).
Proof.
  induction its as [|it its IH]; intros w ND HI Hm; [contradiction|].
  destruct it as [l|m' ps' body'].
  - cbn [expected]. destruct HI as [HI|HI]; [discriminate|]. apply IH; assumption.
  - cbn [markers flat_map app] in ND. inversion ND as [|x l Hx ND']. subst.
    destruct HI as [HI|HI].
    + inversion HI. subst. cbn [expected]. rewrite Hm. cbn [found_assoc map lookup].
      rewrite String.eqb_refl. reflexivity.
    + assert (N : String.eqb m' m = false).
      { apply String.eqb_neq. intros ->. apply Hx. eapply in_markers. exact HI. }
      cbn [expected]. destruct (mem m' w).
      * cbn [found_assoc map lookup]. rewrite String.eqb_sym, N.
        apply IH; [exact ND'|exact HI|apply mem_remove_neq; assumption].
      * apply IH; assumption.
Qed.

Lemma lookup_notin m its : forall w,
  (forall ps body, ~ In (Blk m ps body) its) -> lookup m (found_assoc (expected w its)) = None.
Proof.
  induction its as [|it its IH]; intros w H; [reflexivity|].
  assert (H' : forall ps body, ~ In (Blk m ps body) its) by (intros ps body HI; apply (H ps body); right; exact HI).
  destruct it as [l|m' ps' body']; cbn [expected]; [apply IH; exact H'|].
  destruct (mem m' w); [|apply IH; exact H'].
  cbn [found_assoc map lookup]. destruct (String.eqb m m') eqn:E; [|apply IH; exact H'].
  apply String.eqb_eq in E. subst. exfalso. apply (H ps' body'). left. reflexivity.
Qed.

Lemma has_block_dec m its : (exists ps body, In (Blk m ps body) its) \/ (forall ps body, ~ In (Blk m ps body) its).
Proof.
  induction its as [|it its IH]; [right; intros ps body []|].
  destruct IH as [[ps [body H]]|H]; [left; exists ps, body; right; exact H|].
  destruct it as [l|m' ps' body'].
  - right. intros ps body [HI|HI]; [discriminate|apply (H ps body HI)].
  - destruct (string_dec m m') as [->|N].
    + left. exists ps', body'. left. reflexivity.
    + right. intros ps body [HI|HI]; [inversion HI; congruence|apply (H ps body HI)].
Qed.

Lemma order_irrelevant its its' w m :
  Permutation its its' -> NoDup (markers its) -> mem m w = true ->
  lookup m (found_assoc (expected w its)) = lookup m (found_assoc (expected w its')).
Proof.
  intros P ND Hm.
  assert (ND' : NoDup (markers its')).
  { eapply Permutation_NoDup; [|exact ND]. unfold markers. apply Permutation_flat_map. exact P. }
  destruct (has_block_dec m its) as [[ps [body H]]|H].
  - rewrite (lookup_in m ps body its w ND H Hm).
    rewrite (lookup_in m ps body its' w ND' (Permutation_in _ P H) Hm). reflexivity.
  - rewrite (lookup_notin m its w H). rewrite lookup_notin; [reflexivity|].
    intros ps body HI. apply (H ps body). eapply Permutation_in; [apply Permutation_sym; exact P|exact HI].
Qed.
