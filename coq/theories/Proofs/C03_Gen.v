(* C03 - obligations about the methods REGENERATED from midgard/data/_time.py (Gen/C03_TimeArith.v). *)
From Coq Require Import ZArith QArith List Bool String.
From Verif Require Import Lib.Dyadic Model.C03_TimeArith Model.C03_Formats Gen.C03_TimeArith Model.C03_Classify Proofs.C03_TimeArith Proofs.C03_Formats.
Import ListNotations.

(* the four regenerated methods are, as functions on all rational operands, a member of the model family
   (the specification, or the specification with the quirks Coq computes in `gen_quirks`) *)
Lemma gen_is_model_l :
  exists q, gen_quirks = Some q /\
    forall op s o, okind s = self_kind op -> oequiv (run_method (gen_method op) s o) (model q op s o).
Proof.
  destruct gen_quirks as [q|] eqn:E; [|vm_compute in E; discriminate].
  exists q. split; [reflexivity|]. apply classify_sound. exact E.
Qed.

(* when the regenerated methods are the specification itself, the law that the current source breaks holds for them *)
Lemma gen_laws_if_clean_l :
  gen_quirks = Some all_off ->
  forall t d, okind t = KTime -> okind d = KDelta -> oscale t = oscale d ->
    same_point (obind (gen_minus t d) (fun r => gen_plus r d)) (Some t) /\
    same_point (obind (gen_plus t d) (fun r => gen_minus r t)) (Some d).
Proof.
  intros E t d Ht Hd Hs.
  pose proof (classify_sound _ _ E) as G.
  split.
  - pose proof (sub_add_cancel_l t d Ht Hd Hs) as L.
    unfold gen_minus. unfold minus, minus_q in L. rewrite Ht in *.
    pose proof (G TimeSub t d Ht) as G1.
    destruct (run_method (gen_method TimeSub) t d) as [r'|]; destruct (model all_off TimeSub t d) as [r|] eqn:M;
      cbn in G1; try contradiction; cbn [obind] in *; try (exfalso; exact L).
    assert (Kr : okind r = KTime).
    { apply result_scale_fmt_l in M. destruct M as (_ & _ & K & _). rewrite K, Hd. reflexivity. }
    assert (Kr' : okind r' = KTime) by (destruct G1 as (K & _); congruence).
    unfold gen_plus. unfold plus, plus_q in L. rewrite Kr in L. rewrite Kr'.
    eapply same_point_trans; [|exact L]. apply oequiv_same_point.
    eapply oequiv_trans; [apply G; exact Kr'|].
    apply model_proper; [exact G1|]. unfold obj_equiv. repeat split; reflexivity.
  - pose proof (add_sub_cancel_l t d Ht Hd Hs) as L.
    unfold gen_plus. unfold plus, plus_q in L. rewrite Ht in *.
    pose proof (G TimeAdd t d Ht) as G1.
    destruct (run_method (gen_method TimeAdd) t d) as [r'|]; destruct (model all_off TimeAdd t d) as [r|] eqn:M;
      cbn in G1; try contradiction; cbn [obind] in *; try (exfalso; exact L).
    assert (Kr : okind r = KTime).
    { apply result_scale_fmt_l in M. destruct M as (_ & _ & K & _). rewrite K. reflexivity. }
    assert (Kr' : okind r' = KTime) by (destruct G1 as (K & _); congruence).
    unfold gen_minus. unfold minus, minus_q in L. rewrite Kr in L. rewrite Kr'.
    eapply same_point_trans; [|exact L]. apply oequiv_same_point.
    eapply oequiv_trans; [apply G; exact Kr'|].
    apply model_proper; [exact G1|]. unfold obj_equiv. repeat split; reflexivity.
Qed.

Lemma gen_delta_class_l : delta_class_for_every_scale = true /\ four_delta_formats = true.
Proof. vm_compute. split; reflexivity. Qed.

(* TimeDeltaArray.__neg__ as read from the source is the specification's negation on all durations
   (or absent: then ndarray.__neg__ is inherited, the listed quirk q_neg_keeps_jds) *)
Lemma gen_neg_is_model_l :
  gen_neg = NegAbsent \/
  exists oc, gen_neg = NegBody oc /\ forall d, oequiv (run_unary oc d) (Some (neg d)).
Proof.
  first [ left; apply neg_classified4; vm_compute; reflexivity
        | right; apply neg_classified0; vm_compute; reflexivity ].
Qed.

(* the bodies of TimeDelta{JD,Sec,Day,DateTime}._to_jds/_from_jds as read from the source compute, on every path and for
   all rational inputs, the specification's to_jds / from_jds; all unit constants are the doubles nearest to their ideal *)
Lemma gen_delta_formats_are_model_l :
  (forall name, In name ["days"; "jd"; "seconds"; "timedelta"]%string ->
     exists fs, In fs gen_delta_fmt_srcs /\ fs_name fs = name) /\
  (forall fs, In fs gen_delta_fmt_srcs ->
     exists f, dfmt_of_name (fs_name fs) = Some f /\
       (forall e1 e2, In (e1, e2) (fs_to fs) -> forall v v2,
           (feval e1 v v2 == jd1 (to_jds f v v2))%Q /\ (feval e2 v v2 == jd2 (to_jds f v v2))%Q) /\
       (forall e, In e (fs_from fs) -> forall a b, (feval e a b == from_jds f (mkJ a b))%Q) /\
       fs_to fs <> [] /\ fs_from fs <> []).
Proof.
  assert (H : fmt_srcs_ok gen_delta_fmt_srcs = true) by (vm_compute; reflexivity).
  apply fmt_srcs_ok_sound in H. destruct H as [H1 H2]. split; [exact H2|].
  intros fs Hin. apply fmt_src_ok_sound. apply H1. exact Hin.
Qed.
