From Coq Require Import ZArith List Bool.
From Verif Require Import Lib.Dyadic Model.C05_Dtype.
Import ListNotations.

Lemma dys_same_eq a : forall b, dys_same a b = true -> a = b.
Proof.
  induction a as [|x a IH]; intros [|y b] H; simpl in H; try discriminate; [reflexivity|].
  apply andb_prop in H. destruct H as [H1 H2]. apply dy_eqb_eq in H1. subst. f_equal. apply IH. exact H2.
Qed.

Lemma check_same_sound_l a b : check_same (a, b) = 0%Z -> a = b.
Proof.
  unfold check_same. destruct (dys_same a b) eqn:E; [intros _; apply dys_same_eq; exact E | discriminate].
Qed.
