(* C01 - path independence for all 125 routes: per-hop-type error lemmas, their composition, and the
   computable domain predicate utc_ok. *)
From Coq Require Import ZArith QArith Qabs Bool List String Lia Lqa.
From Verif Require Import Lib.Dyadic Gen.C01_TaiUtc Gen.C01_Const Gen.C01_Graph Spec.C01_IersTaiUtc
     Model.C01_Scales Proofs.C01_Scales.
Import ListNotations.
Open Scope Q_scope.

(* ================================================================== hop types and the composition of their errors *)
(* f moves two instants apart by at most the factor k *)
Definition lip (k : Q) (f : Q -> Q) : Prop := forall p q, Qabs (f p - f q) <= k * Qabs (p - q).

(* generic composition: the error of a route is the error of its first part scaled by the rest *)
Lemma hop_error_compose k1 k2 f g : 0 <= k2 -> lip k1 f -> lip k2 g -> lip (k2 * k1) (fun x => g (f x)).
Proof.
  intros H2 Hf Hg p q. cbv beta.
  apply (Qle_trans _ (k2 * Qabs (f p - f q))); [apply Hg|].
  rewrite <- Qmult_assoc. apply mul_le_l; [assumption|apply Hf].
Qed.

Lemma hop_error k f p q e : 0 <= k -> lip k f -> Qabs (p - q) <= e -> Qabs (f p - f q) <= k * e.
Proof. intros Hk Hf He. apply (Qle_trans _ (k * Qabs (p - q))); [apply Hf|apply mul_le_l; assumption]. Qed.

(* constant hops are exact translations *)
Lemma lip_translation c : lip 1 (fun x => x + c).
Proof. intros p q. cbv beta. setoid_replace (p + c - (q + c)) with (p - q) by ring. rewrite Qmult_1_l. apply Qle_refl. Qed.

Lemma lip_id : lip 1 (fun x => x).
Proof. intros p q. rewrite Qmult_1_l. apply Qle_refl. Qed.

Lemma lip_tai2gps : lip 1 tai2gps.
Proof. intros p q. unfold tai2gps. setoid_replace (p - c_gps - (q - c_gps)) with (p - q) by ring. rewrite Qmult_1_l. apply Qle_refl. Qed.
Lemma lip_gps2tai : lip 1 gps2tai.
Proof. intros p q. unfold gps2tai. setoid_replace (p + c_gps - (q + c_gps)) with (p - q) by ring. rewrite Qmult_1_l. apply Qle_refl. Qed.
Lemma lip_tai2tt : lip 1 tai2tt.
Proof. intros p q. unfold tai2tt. setoid_replace (p + c_tt - (q + c_tt)) with (p - q) by ring. rewrite Qmult_1_l. apply Qle_refl. Qed.
Lemma lip_tt2tai : lip 1 tt2tai.
Proof. intros p q. unfold tt2tai. setoid_replace (p - c_tt - (q - c_tt)) with (p - q) by ring. rewrite Qmult_1_l. apply Qle_refl. Qed.

(* the TCG hops are affine: factor 1/(1-L_G) = 1 + L_G/(1-L_G) towards TCG, (1-L_G) back *)
Lemma k_tcg_is : k_tcg == 1 / (1 - L_G).
Proof. unfold k_tcg. field. exact LG_ne. Qed.

Lemma k_tcg_nonneg : 0 <= k_tcg. Proof. exact (proj1 (proj2 tcg_slope_small)). Qed.

Lemma lip_tt2tcg : lip k_tcg tt2tcg.
Proof.
  intros p q.
  assert (E : tt2tcg p - tt2tcg q == k_tcg * (p - q)) by (unfold k_tcg, tt2tcg, tt2tcg_L; field; exact LG_ne).
  rewrite E, Qabs_Qmult, (Qabs_pos _ k_tcg_nonneg). apply Qle_refl.
Qed.

Lemma one_minus_LG : 0 <= 1 - L_G /\ 1 - L_G <= 1.
Proof. split; vm_compute; discriminate. Qed.

Lemma lip_tcg2tt : lip (1 - L_G) tcg2tt.
Proof.
  intros p q.
  assert (E : tcg2tt p - tcg2tt q == (1 - L_G) * (p - q)) by (unfold tcg2tt, tcg2tt_L; ring).
  rewrite E, Qabs_Qmult, (Qabs_pos _ (proj1 one_minus_LG)). apply Qle_refl.
Qed.

(* tai -> c for the four scales other than utc: error factor at most k_tcg *)
Lemma lip_tai2tcg : lip (k_tcg * 1) (fun x => tt2tcg (tai2tt x)).
Proof. apply hop_error_compose; [exact k_tcg_nonneg|exact lip_tai2tt|exact lip_tt2tcg]. Qed.

(* ================================================================== the domain predicate gives the round-trip bounds *)
Definition rt_bounds (u : Q) : Prop :=
  Qabs (tai2utc (utc2tai u) - u) <= eps_rt /\
  Qabs (utc2tai (tai2utc (utc2tai u)) - utc2tai u) <= 2 * eps_rt.

Lemma Qabs_zero_le x y e : x == y -> 0 <= e -> Qabs (x - y) <= e.
Proof. intros H He. setoid_replace (x - y) with 0 by (rewrite H; ring). exact He. Qed.

Lemma utc_ok_bounds u : utc_ok u = true -> rt_bounds u.
Proof.
  unfold utc_ok, utc_ok_in. set (i := argmax_row table u).
  destruct (nth_error table i) as [r|] eqn:Er; [|discriminate].
  pose proof (nth_error_In _ _ Er) as Hr.
  intro H. apply andb_true_iff in H. destruct H as [Hin H].
  destruct (nth_error table (S i)) as [n|] eqn:En.
  - pose proof (nth_error_In _ _ En) as Hn.
    apply andb_true_iff in H. destruct H as [H H3]. apply andb_true_iff in H. destruct H as [Hok H2].
    apply Qle_b_true in H2. apply Qlt_b_true in H3.
    assert (D : rt_dom r n u) by (split; assumption).
    split.
    + exact (proj1 (rt_generic table table_start table_chain r Hr n Hn Hok u D)).
    + exact (proj1 (rt_tai table table_start table_chain r Hr n Hn Hok u D)).
  - apply andb_true_iff in H. destruct H as [H H4]. apply andb_true_iff in H. destruct H as [H H3].
    apply andb_true_iff in H. destruct H as [Hok Hc].
    apply Qlt_b_true in H3. apply Qlt_b_true in H4. apply in_row_iff in Hin. destruct Hin as [I1 I2].
    destruct (row_self_ok_facts r Hok) as (F1 & _).
    assert (Hm : delta_d r u <= dmax r) by (unfold dmax; apply delta_d_mono; lra).
    assert (G : guard r == 0) by (unfold guard; rewrite Hc; reflexivity).
    assert (E : tai2utc (utc2tai u) == u).
    { refine (proj2 (proj2 (rt_caseA table table_start table_chain r Hr u Hok _ _)) Hc); lra. }
    pose proof eps_rt_pos as E0.
    split.
    + apply Qabs_zero_le; [exact E|exact E0].
    + apply Qabs_zero_le; [apply utc2tai_compat; exact E|lra].
Qed.

(* ================================================================== routes that go to UTC and come back *)
Definition ok_C (C : Q -> Q) : Prop :=
  (forall p q, p == q -> C p == C q) /\
  (forall p q, Qabs (p - q) <= 2 * eps_rt -> Qabs (C p - C q) <= eps_via).

Lemma ok_C_id : ok_C (fun s => s).
Proof. split; [intros p q H; exact H|]. intros p q H. exact (proj1 (via_utc_core p q H)). Qed.
Lemma ok_C_gps : ok_C tai2gps.
Proof. split; [intros p q H; unfold tai2gps; rewrite H; reflexivity|]. intros p q H. exact (proj1 (proj2 (via_utc_core p q H))). Qed.
Lemma ok_C_tt : ok_C tai2tt.
Proof. split; [intros p q H; unfold tai2tt; rewrite H; reflexivity|]. intros p q H. exact (proj1 (proj2 (proj2 (via_utc_core p q H)))). Qed.
Lemma ok_C_tcg : ok_C (fun s => tt2tcg (tai2tt s)).
Proof.
  split; [intros p q H; unfold tt2tcg, tt2tcg_L, tai2tt; rewrite H; reflexivity|].
  intros p q H. exact (proj2 (proj2 (proj2 (via_utc_core p q H)))).
Qed.

(* z = C (utc2tai (tai2utc zarg)) with zarg == t (the hops a -> tai undo tai -> a exactly), w == C t *)
Lemma close_via (C : Q -> Q) (t zarg w : Q) : ok_C C ->
  Qabs (utc2tai (tai2utc t) - t) <= 2 * eps_rt ->
  zarg == t -> w == C t ->
  Qabs (C (utc2tai (tai2utc zarg)) - w) <= eps_via.
Proof.
  intros [Cp Cb] T Hz Hw.
  assert (E : C (utc2tai (tai2utc zarg)) - w == C (utc2tai (tai2utc t)) - C t).
  { rewrite Hw. rewrite (Cp _ _ (utc2tai_compat _ _ (tai2utc_compat _ _ Hz))). reflexivity. }
  rewrite E. apply Cb. exact T.
Qed.

Lemma eps_via_le_tol : eps_via <= tol_prop /\ eps_rt <= tol_prop /\ 0 <= tol_prop.
Proof. repeat split; vm_compute; discriminate. Qed.

Open Scope string_scope.

(* utc -> b -> utc, from the round-trip bound alone *)
Lemma utc_via_any_b : forall b u y z, In b scales ->
  Qabs (tai2utc (utc2tai u) - u) <= eps_rt ->
  to_scale "utc" b u = Some y -> to_scale b "utc" y = Some z -> Qabs (z - u) <= eps_rt.
Proof.
  intros b u y z Hb R H1 H2.
  in_scales Hb; hops_cbv H1; injection H1 as <-; hops_cbv H2; injection H2 as <-.
  - apply Qabs_zero_le; [reflexivity|apply eps_rt_pos].
  - exact R.
  - assert (E : tai2utc (gps2tai (tai2gps (utc2tai u))) == tai2utc (utc2tai u)) by (apply tai2utc_compat; hop_arith).
    rewrite E. exact R.
  - assert (E : tai2utc (tt2tai (tai2tt (utc2tai u))) == tai2utc (utc2tai u)) by (apply tai2utc_compat; hop_arith).
    rewrite E. exact R.
  - assert (E : tai2utc (tt2tai (tcg2tt (tt2tcg (tai2tt (utc2tai u))))) == tai2utc (utc2tai u)) by (apply tai2utc_compat; hop_arith).
    rewrite E. exact R.
Qed.

(* a -> utc -> c versus a -> c for a, c other than utc (16 triples), x the image in scale a of the UTC instant u *)
Lemma via_utc_all : forall a c u x y z w, In a scales -> In c scales -> a <> "utc" -> c <> "utc" ->
  Qabs (utc2tai (tai2utc (utc2tai u)) - utc2tai u) <= 2 * eps_rt ->
  to_scale "utc" a u = Some x ->
  to_scale a "utc" x = Some y -> to_scale "utc" c y = Some z -> to_scale a c x = Some w ->
  Qabs (z - w) <= eps_via.
Proof.
  intros a c u x y z w Ha Hc Na Nc T H0 H1 H2 H3.
  in_scales Hc; [congruence| | | | ];
    (in_scales Ha; [congruence| | | | ]);
    hops_cbv H0; injection H0 as <-; hops_cbv H1; injection H1 as <-;
    hops_cbv H2; injection H2 as <-; hops_cbv H3; injection H3 as <-.
  (* c = tai *)
  1-4: apply (close_via (fun s => s) (utc2tai u) _ _ ok_C_id T); hop_arith.
  (* c = gps *)
  1-4: apply (close_via tai2gps (utc2tai u) _ _ ok_C_gps T); hop_arith.
  (* c = tt *)
  1-4: apply (close_via tai2tt (utc2tai u) _ _ ok_C_tt T); hop_arith.
  (* c = tcg *)
  1-4: apply (close_via (fun s => tt2tcg (tai2tt s)) (utc2tai u) _ _ ok_C_tcg T); hop_arith.
Qed.

(* ================================================================== all 125 routes *)
Lemma to_scale_refl a x : to_scale a a x = Some x.
Proof. unfold to_scale. rewrite String.eqb_refl. reflexivity. Qed.

(* x is the instant u (a UTC Julian date of the domain utc_ok) expressed in scale a; then a -> b -> c and a -> c
   give the same instant within the property's 10 ns, for every a, b, c *)
Lemma path_all_lemma : forall a b c u x y z w, In a scales -> In b scales -> In c scales ->
  utc_ok u = true -> to_scale "utc" a u = Some x ->
  to_scale a b x = Some y -> to_scale b c y = Some z -> to_scale a c x = Some w ->
  Qabs (z - w) <= tol_prop.
Proof.
  intros a b c u x y z w Ha Hb Hc Hok H0 H1 H2 H3.
  destruct (utc_ok_bounds u Hok) as [R T].
  destruct eps_via_le_tol as (L1 & L2 & L3).
  destruct (exact_triple a b c) eqn:Ex.
  - apply Qabs_zero_le; [|exact L3]. exact (path_exact_lemma a b c x y z w Ha Hb Hc Ex H1 H2 H3).
  - unfold exact_triple in Ex.
    destruct (b =? "utc") eqn:Eb.
    + (* b = utc, a and c are not *)
      apply String.eqb_eq in Eb. subst b.
      apply orb_false_iff in Ex. destruct Ex as [Ea Ec].
      apply String.eqb_neq in Ea. apply String.eqb_neq in Ec.
      apply (Qle_trans _ eps_via); [|exact L1].
      exact (via_utc_all a c u x y z w Ha Hc Ea Ec T H0 H1 H2 H3).
    + (* a = c = utc, b is not *)
      apply negb_false_iff in Ex. apply andb_true_iff in Ex. destruct Ex as [Ea Ec].
      apply String.eqb_eq in Ea. apply String.eqb_eq in Ec. subst a c.
      rewrite to_scale_refl in H0. injection H0 as <-.
      rewrite to_scale_refl in H3. injection H3 as <-.
      apply (Qle_trans _ eps_rt); [|exact L2].
      exact (utc_via_any_b b u y z Hb R H1 H2).
Qed.

(* A -> B -> A for every pair, same domain *)
Lemma roundtrip_all_lemma : forall a b u x y z, In a scales -> In b scales ->
  utc_ok u = true -> to_scale "utc" a u = Some x ->
  to_scale a b x = Some y -> to_scale b a y = Some z -> Qabs (z - x) <= tol_prop.
Proof.
  intros a b u x y z Ha Hb Hok H0 H1 H2.
  exact (path_all_lemma a b a u x y z x Ha Hb Ha Hok H0 H1 H2 (to_scale_refl a x)).
Qed.

(* the domain is what it says: rows with a successor *)
Lemma utc_ok_of_rt_dom : forall l1 r n l2 u, table = (l1 ++ r :: n :: l2)%list -> rt_dom r n u -> utc_ok u = true.
Proof.
  intros l1 r n l2 u Ht [D1 D2].
  assert (Ha : adjacent table r n) by (exists l1, l2; exact Ht).
  destruct (adjacent_in _ _ _ Ha) as [Hr Hn].
  pose proof (pairs_ok_adjacent _ _ _ table_pairs_ok Ha) as Hok.
  destruct (row_rt_ok_facts r n Hok) as (Hself & _).
  destruct (row_self_ok_facts r Hself) as (_ & _ & _ & F4 & _).
  pose proof (guard_nonneg r) as G0.
  assert (Sk0 : 0 <= skip r n) by (unfold skip; apply Qmax_ge_l).
  assert (I1 : r_start r <= u) by lra. assert (I2 : u < r_end r) by lra.
  assert (Hf : find_row table u = r) by (apply row_unique_lemma; assumption).
  assert (Hi : nth (argmax_row table u) table dummy_row = r) by (rewrite argmax_row_find; exact Hf).
  unfold utc_ok, utc_ok_in.
  (* the index of r in the table is the length of l1: rows before r do not contain u *)
  assert (Hidx : argmax_row table u = List.length l1).
  { unfold argmax_row.
    assert (Hex : existsb (in_row u) table = true).
    { apply existsb_exists. exists r. split; [exact Hr|apply in_row_iff; split; assumption]. }
    rewrite Hex.
    assert (G : forall pre k, chain_ok (match pre with a :: _ => r_start a | [] => r_start r end) (pre ++ r :: n :: l2) = true ->
                index_of u (pre ++ r :: n :: l2) k = (k + List.length pre)%nat).
    { induction pre as [|a pre IH]; intros k Hc.
      - cbn [app index_of]. assert (E : in_row u r = true) by (apply in_row_iff; split; assumption). rewrite E. cbn. lia.
      - cbn [app index_of]. cbn [app chain_ok] in Hc.
        apply andb_true_iff in Hc. destruct Hc as [Hc Ht']. apply andb_true_iff in Hc. destruct Hc as [_ Hlt].
        assert (Hlow : r_end a <= r_start r).
        { apply (chain_lower (pre ++ r :: n :: l2) (r_end a) r Ht'). apply in_or_app. right. left. reflexivity. }
        destruct (in_row u a) eqn:Ea.
        + apply in_row_iff in Ea. lra.
        + rewrite IH; [cbn; lia|]. destruct pre as [|b pre]; cbn [app chain_ok] in Ht' |- *.
          * apply andb_true_iff in Ht'. destruct Ht' as [Ht' Hrest]. apply andb_true_iff in Ht'. destruct Ht' as [He Hl].
            rewrite Qeq_bool_refl. rewrite Hl. exact Hrest.
          * apply andb_true_iff in Ht'. destruct Ht' as [Ht' Hrest]. apply andb_true_iff in Ht'. destruct Ht' as [He Hl].
            rewrite Qeq_bool_refl. rewrite Hl. exact Hrest. }
    rewrite Ht. rewrite (G l1 O); [reflexivity|].
    pose proof table_chain as TC. unfold table_start in TC. rewrite Ht in TC. destruct l1; exact TC. }
  rewrite Hidx, Ht.
  assert (N1 : nth_error (l1 ++ r :: n :: l2) (List.length l1) = Some r).
  { rewrite nth_error_app2 by lia. rewrite Nat.sub_diag. reflexivity. }
  assert (N2 : nth_error (l1 ++ r :: n :: l2) (S (List.length l1)) = Some n).
  { rewrite nth_error_app2 by lia. replace (S (List.length l1) - List.length l1)%nat with 1%nat by lia. reflexivity. }
  rewrite N1, N2.
  rewrite Hok. apply andb_true_iff. split; [apply in_row_iff; split; assumption|].
  apply andb_true_iff. split; [apply andb_true_iff; split; [reflexivity|apply Qle_b_true; exact D1]|apply Qlt_b_true; exact D2].
Qed.

(* ================================================================== arrays: element i of the result belongs to element i of the input *)
Lemma map_combine_self {A B C} (f : A -> B) (g : A * B -> C) (xs : list A) :
  map g (combine xs (map f xs)) = map (fun x => g (x, f x)) xs.
Proof. induction xs as [|x t IH]; [reflexivity|]. cbn [map combine]. rewrite IH. reflexivity. Qed.

Lemma tai2utc_list_pointwise tbl xs : tai2utc_list tbl xs = map (tai2utc_t tbl) xs.
Proof.
  unfold tai2utc_list.
  rewrite (map_combine_self (argmax_row tbl) (fun p => delta_d (nth (snd p) tbl dummy_row) (fst p)) xs).
  cbn [fst snd].
  rewrite (map_combine_self (fun x => delta_d (nth (argmax_row tbl x) tbl dummy_row) x) (fun p => (fst p - snd p)%Q) xs).
  cbn [fst snd].
  set (tmpf := fun x : Q => (x - delta_d (nth (argmax_row tbl x) tbl dummy_row) x)%Q).
  rewrite (map_combine_self (argmax_row tbl) (fun p => delta_d (nth (snd p) tbl dummy_row) (fst p)) (map tmpf xs)).
  cbn [fst snd]. rewrite map_map.
  rewrite (map_combine_self (fun x => delta_d (nth (argmax_row tbl (tmpf x)) tbl dummy_row) (tmpf x)) (fun p => (fst p + - snd p)%Q) xs).
  cbn [fst snd]. apply map_ext. intro x. unfold tmpf, tai2utc_t, tai2utc_delta. rewrite !argmax_row_find. reflexivity.
Qed.

Lemma take_idx_map {A B} (f : A -> B) d xs perm : map f (take_idx d xs perm) = take_idx (f d) (map f xs) perm.
Proof. unfold take_idx. rewrite map_map. apply map_ext. intro i. symmetry. apply map_nth. Qed.

(* converting a permuted (or otherwise re-indexed) array = re-indexing the converted array, for both directions of
   the table hop and for every route *)
Lemma array_alignment_lemma tbl d xs perm :
  utc2tai_list tbl (take_idx d xs perm) = take_idx (utc2tai_t tbl d) (utc2tai_list tbl xs) perm /\
  tai2utc_list tbl (take_idx d xs perm) = take_idx (tai2utc_t tbl d) (tai2utc_list tbl xs) perm /\
  (forall a b, to_scale_list a b (take_idx d xs perm) = take_idx (to_scale a b d) (to_scale_list a b xs) perm) /\
  (forall i, nth_error (utc2tai_list tbl xs) i = option_map (utc2tai_t tbl) (nth_error xs i)) /\
  (forall i, nth_error (tai2utc_list tbl xs) i = option_map (tai2utc_t tbl) (nth_error xs i)).
Proof.
  rewrite !utc2tai_list_pointwise, !tai2utc_list_pointwise.
  split; [apply take_idx_map|]. split; [apply take_idx_map|].
  split; [intros a b; unfold to_scale_list; apply take_idx_map|].
  split; intro i; apply nth_error_map.
Qed.

Lemma hop_types_lemma :
  lip 1 gps2tai /\ lip 1 tai2gps /\ lip 1 tai2tt /\ lip 1 tt2tai /\
  lip k_tcg tt2tcg /\ lip (1 - L_G) tcg2tt /\ k_tcg == 1 / (1 - L_G).
Proof.
  exact (conj lip_gps2tai (conj lip_tai2gps (conj lip_tai2tt (conj lip_tt2tai (conj lip_tt2tcg (conj lip_tcg2tt k_tcg_is)))))).
Qed.
