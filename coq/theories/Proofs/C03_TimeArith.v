(* C03 - lemmas about the specification model and the program language (no dependence on Gen). *)
From Coq Require Import ZArith QArith Qabs Qround Qminmax List Bool String Ascii Lia Lqa.
From Verif Require Import Lib.Dyadic Model.C03_TimeArith.
Import ListNotations.
Open Scope Q_scope.

(* ------------------------------------------------------------------ small tools *)
Lemma kind_eqb_eq a b : kind_eqb a b = true <-> a = b.
Proof. destruct a, b; simpl; split; intros H; try reflexivity; try discriminate. Qed.

Lemma kind_eqb_refl a : kind_eqb a a = true.
Proof. destruct a; reflexivity. Qed.

Ltac destr_obj x :=
  let k := fresh "k" in let sc := fresh "sc" in let f := fresh "f" in
  let a := fresh "a" in let b := fresh "b" in destruct x as [k sc f [a b]].

Ltac crush_model :=
  unfold plus, minus, plus_q, minus_q, spec, model, neg, neg_q, obind, same_point, diff_fmt, jadd, jsub, jneg, value;
  cbn [okind oscale ofmt ojd jd1 jd2 q_sub_drops_days q_add_collapses q_neg_keeps_jds all_off negb].

(* ------------------------------------------------------------------ the affine laws (specification, all rationals) *)
Lemma add_sub_cancel_l t d :
  okind t = KTime -> okind d = KDelta -> oscale t = oscale d ->
  same_point (obind (plus t d) (fun r => minus r t)) (Some d).
Proof.
  destr_obj t. destr_obj d. cbn [okind oscale]. intros -> -> ->.
  crush_model. rewrite !String.eqb_refl. cbn. rewrite !String.eqb_refl. cbn.
  repeat split; try ring.
Qed.

Lemma sub_add_cancel_l t d :
  okind t = KTime -> okind d = KDelta -> oscale t = oscale d ->
  same_point (obind (minus t d) (fun r => plus r d)) (Some t).
Proof.
  destr_obj t. destr_obj d. cbn [okind oscale]. intros -> -> ->.
  crush_model. rewrite !String.eqb_refl. cbn. rewrite !String.eqb_refl. cbn.
  repeat split; try ring.
Qed.

Lemma diff_add_l t1 t2 :
  okind t1 = KTime -> okind t2 = KTime -> oscale t1 = oscale t2 ->
  same_point (obind (minus t2 t1) (fun d => plus d t1)) (Some t2) /\
  same_point (obind (minus t2 t1) (fun d => plus t1 d)) (Some t2).
Proof.
  destr_obj t1. destr_obj t2. cbn [okind oscale]. intros -> -> ->.
  crush_model. rewrite !String.eqb_refl. cbn. rewrite !String.eqb_refl. cbn.
  repeat split; try ring.
Qed.

Lemma sub_is_add_neg_l t d :
  okind t = KTime -> okind d = KDelta ->
  same_point (minus t d) (plus t (neg d)).
Proof.
  destr_obj t. destr_obj d. cbn [okind oscale]. intros -> ->.
  crush_model. destruct (String.eqb sc sc0); cbn; [|exact I].
  repeat split; try ring.
Qed.

Lemma delta_add_comm_l d1 d2 :
  okind d1 = KDelta -> okind d2 = KDelta ->
  same_point (plus d1 d2) (plus d2 d1).
Proof.
  destr_obj d1. destr_obj d2. cbn [okind oscale]. intros -> ->.
  crush_model. rewrite (String.eqb_sym sc0 sc).
  destruct (String.eqb sc sc0) eqn:E; cbn; [|exact I].
  apply String.eqb_eq in E. subst. repeat split. ring.
Qed.

Lemma delta_add_sub_l d1 d2 :
  okind d1 = KDelta -> okind d2 = KDelta -> oscale d1 = oscale d2 ->
  same_point (obind (plus d1 d2) (fun r => minus r d2)) (Some d1).
Proof.
  destr_obj d1. destr_obj d2. cbn [okind oscale]. intros -> -> ->.
  crush_model. rewrite !String.eqb_refl. cbn. rewrite !String.eqb_refl. cbn.
  repeat split; try ring.
Qed.

Lemma time_delta_add_comm_l t d :
  okind t = KTime -> okind d = KDelta ->
  same_point (plus t d) (plus d t).
Proof.
  destr_obj t. destr_obj d. cbn [okind oscale]. intros -> ->.
  crush_model. rewrite (String.eqb_sym sc0 sc).
  destruct (String.eqb sc sc0) eqn:E; cbn; [|exact I].
  apply String.eqb_eq in E. subst. repeat split. ring.
Qed.

(* the format of an operand is presentation only *)
Lemma fmt_irrelevant_l op a b f f' :
  same_point (spec op (with_fmt a f) b) (spec op a b) /\
  same_point (spec op a (with_fmt b f')) (spec op a b).
Proof.
  destr_obj a. destr_obj b. unfold with_fmt. crush_model.
  destruct (String.eqb sc sc0); cbn; [|split; exact I].
  destruct op, k0; cbn; repeat split; reflexivity.
Qed.

(* two durations given in different formats that denote the same length get the same (jd1, jd2) *)
Lemma to_jds_format_independent f f' v v' :
  v * unit_days f == v' * unit_days f' ->
  jd1 (to_jds f v 0) == jd1 (to_jds f' v' 0) /\ jd2 (to_jds f v 0) == jd2 (to_jds f' v' 0).
Proof.
  intros H. unfold to_jds. cbn [jd1 jd2].
  assert (E : (v + 0) * unit_days f == (v' + 0) * unit_days f') by (rewrite !Qplus_0_r; exact H).
  assert (Fl : Qfloor ((v + 0) * unit_days f) = Qfloor ((v' + 0) * unit_days f')) by (apply Qfloor_comp; exact E).
  rewrite Fl. split; [reflexivity|]. rewrite E. reflexivity.
Qed.

Lemma mixed_scale_refused_l op a b :
  oscale a <> oscale b -> spec op a b = None /\ plus a b = None /\ minus a b = None.
Proof.
  intros H. unfold plus, minus, plus_q, minus_q, spec, model.
  destruct (String.eqb (oscale a) (oscale b)) eqn:E.
  - apply String.eqb_eq in E. contradiction.
  - cbn. repeat split; reflexivity.
Qed.

Lemma meaningless_refused_l a b :
  okind b = KTime ->
  (okind a = KTime -> plus a b = None) /\ (okind a = KDelta -> minus a b = None).
Proof.
  intros Hb. unfold plus, minus, plus_q, minus_q, model. split; intros Ha; rewrite Ha, Hb;
  destruct (negb (String.eqb (oscale a) (oscale b))); reflexivity.
Qed.

Definition result_kind (op : opname) (other : kind) : kind :=
  match op, other with
  | TimeAdd, _ => KTime | TimeSub, KDelta => KTime | TimeSub, KTime => KDelta
  | DeltaAdd, KTime => KTime | DeltaAdd, KDelta => KDelta | DeltaSub, _ => KDelta
  end.
Definition result_fmt (op : opname) (s o : obj) : string :=
  match op, okind o with
  | TimeSub, KTime => diff_fmt s o
  | DeltaAdd, KTime => ofmt o
  | _, _ => ofmt s
  end.

Lemma result_scale_fmt_l op a b r :
  spec op a b = Some r ->
  oscale r = oscale a /\ oscale r = oscale b /\ okind r = result_kind op (okind b) /\ ofmt r = result_fmt op a b.
Proof.
  unfold spec, model, result_fmt.
  destruct (String.eqb (oscale a) (oscale b)) eqn:E; cbn; [|discriminate].
  apply String.eqb_eq in E.
  destruct op, (okind b); cbn; intros H; inversion H; subst; cbn; rewrite ?E; repeat split; reflexivity.
Qed.


(* ------------------------------------------------------------------ all expressions: affine evaluation *)
Lemma plus_spec x y r : plus x y = Some r ->
  value (ojd r) == value (ojd x) + value (ojd y) /\ kweight (okind r) = (kweight (okind x) + kweight (okind y))%Z
  /\ oscale r = oscale x /\ oscale r = oscale y.
Proof.
  destruct x as [kx sx fx [x1 x2]], y as [ky sy fy [y1 y2]].
  unfold plus, plus_q, model. cbn [okind oscale ofmt ojd].
  destruct (String.eqb sx sy) eqn:E; cbn [negb]; [|destruct kx; discriminate].
  apply String.eqb_eq in E. subst.
  destruct kx, ky; cbn; intros H; inversion H; subst; cbn; unfold value; cbn; repeat split; try ring.
Qed.

Lemma minus_spec x y r : minus x y = Some r ->
  value (ojd r) == value (ojd x) - value (ojd y) /\ kweight (okind r) = (kweight (okind x) - kweight (okind y))%Z
  /\ oscale r = oscale x /\ oscale r = oscale y.
Proof.
  destruct x as [kx sx fx [x1 x2]], y as [ky sy fy [y1 y2]].
  unfold minus, minus_q, model. cbn [okind oscale ofmt ojd].
  destruct (String.eqb sx sy) eqn:E; cbn [negb]; [|destruct kx; discriminate].
  apply String.eqb_eq in E. subst.
  destruct kx, ky; cbn; intros H; inversion H; subst; cbn; unfold value; cbn; repeat split; try ring.
Qed.

(* every expression built from epochs and durations with +, -, unary minus that the specification accepts
   evaluates to the signed sum of its leaves; it is an epoch iff the signed count of epochs is 1, a duration iff 0 *)
Lemma run_affine_l t : forall r, run t = Some r ->
  value (ojd r) == aff t /\ kweight (okind r) = weight t.
Proof.
  induction t as [x|a IHa b IHb|a IHa b IHb|a IHa]; intros r H; cbn [run aff weight] in *.
  - inversion H. subst. split; reflexivity.
  - destruct (run a) as [x|]; [|discriminate]. destruct (run b) as [y|]; [|discriminate]. cbn [obind] in H.
    destruct (IHa x eq_refl) as [A1 A2]. destruct (IHb y eq_refl) as [B1 B2].
    apply plus_spec in H. destruct H as (V & K & _). split; [rewrite V, A1, B1; reflexivity|lia].
  - destruct (run a) as [x|]; [|discriminate]. destruct (run b) as [y|]; [|discriminate]. cbn [obind] in H.
    destruct (IHa x eq_refl) as [A1 A2]. destruct (IHb y eq_refl) as [B1 B2].
    apply minus_spec in H. destruct H as (V & K & _). split; [rewrite V, A1, B1; reflexivity|lia].
  - destruct (run a) as [x|]; [|discriminate]. cbn [obind] in H.
    destruct (IHa x eq_refl) as [A1 A2]. unfold neg_opt in H.
    destruct x as [kx sx fx [x1 x2]]. cbn [okind] in *. destruct kx; [discriminate|].
    inversion H. subst. cbn. unfold value in *. cbn in *. split; [rewrite <- A1; ring|lia].
Qed.

(* consequence: two accepted expressions with the same signed sum of leaves denote the same point *)
Lemma run_affine_eq t t' r r' :
  run t = Some r -> run t' = Some r' -> aff t == aff t' -> weight t = weight t' ->
  value (ojd r) == value (ojd r') /\ okind r = okind r'.
Proof.
  intros H H' E W. destruct (run_affine_l t r H) as [A K]. destruct (run_affine_l t' r' H') as [A' K'].
  split; [rewrite A, A', E; reflexivity|].
  destruct (okind r), (okind r'); cbn in *; try reflexivity; lia.
Qed.

Lemma run_defined sc t : wellformed sc t = true -> exists r, run t = Some r /\ oscale r = sc.
Proof.
  induction t as [x|a IHa b IHb|a IHa b IHb|a IHa]; cbn [wellformed run]; intros H.
  - apply String.eqb_eq in H. exists x. split; [reflexivity|exact H].
  - repeat (apply andb_prop in H; destruct H as [H ?]).
    destruct (IHa H) as (x & Ra & Sa). destruct (IHb H2) as (y & Rb & Sb).
    rewrite Ra, Rb. cbn [obind].
    destruct (run_affine_l a x Ra) as [_ Ka]. destruct (run_affine_l b y Rb) as [_ Kb].
    apply Z.leb_le in H1. apply Z.leb_le in H0.
    destruct x as [kx sx fx [x1 x2]], y as [ky sy fy [y1 y2]]. cbn [okind oscale] in *. subst sx sy.
    unfold plus, plus_q, model. cbn [okind oscale ofmt ojd]. rewrite String.eqb_refl. cbn [negb].
    destruct kx, ky; cbn in Ka, Kb; try (exfalso; lia); eexists; split; reflexivity.
  - repeat (apply andb_prop in H; destruct H as [H ?]).
    destruct (IHa H) as (x & Ra & Sa). destruct (IHb H2) as (y & Rb & Sb).
    rewrite Ra, Rb. cbn [obind].
    destruct (run_affine_l a x Ra) as [_ Ka]. destruct (run_affine_l b y Rb) as [_ Kb].
    apply Z.leb_le in H1. apply Z.leb_le in H0.
    destruct x as [kx sx fx [x1 x2]], y as [ky sy fy [y1 y2]]. cbn [okind oscale] in *. subst sx sy.
    unfold minus, minus_q, model. cbn [okind oscale ofmt ojd]. rewrite String.eqb_refl. cbn [negb].
    destruct kx, ky; cbn in Ka, Kb; try (exfalso; lia); eexists; split; reflexivity.
  - apply andb_prop in H. destruct H as [H W]. apply Z.eqb_eq in W.
    destruct (IHa H) as (x & Ra & Sa). rewrite Ra. cbn [obind].
    destruct (run_affine_l a x Ra) as [_ Ka]. unfold neg_opt.
    destruct x as [kx sx fx [x1 x2]]. cbn [okind oscale] in *. destruct kx; cbn in Ka; [exfalso; lia|].
    eexists. split; [reflexivity|exact Sa].
Qed.

(* ------------------------------------------------------------------ duration formats *)
Lemma unit_days_pos f : 0 < unit_days f.
Proof. destruct f; reflexivity. Qed.

Lemma to_jds_value_l f v v2 : value (to_jds f v v2) == (v + v2) * unit_days f.
Proof. unfold to_jds, value. cbn [jd1 jd2]. ring. Qed.

Lemma to_jds_normalised_l f v v2 :
  (exists z : Z, jd1 (to_jds f v v2) = inject_Z z) /\ 0 <= jd2 (to_jds f v v2) /\ jd2 (to_jds f v v2) < 1.
Proof.
  unfold to_jds. cbn [jd1 jd2]. set (d := (v + v2) * unit_days f).
  split; [exists (Qfloor d); reflexivity|].
  pose proof (Qfloor_le d) as H1. pose proof (Qlt_floor d) as H2.
  rewrite inject_Z_plus in H2. change (inject_Z 1) with 1 in H2.
  split; lra.
Qed.

Lemma from_to_jds_l f v v2 : from_jds f (to_jds f v v2) == v + v2.
Proof.
  unfold from_jds. rewrite to_jds_value_l. field.
  pose proof (unit_days_pos f) as H. intros E. rewrite E in H. discriminate.
Qed.

(* ------------------------------------------------------------------ accuracy of two-part arithmetic in floating point *)
Section Rounding.
  (* any rounding operator with the standard relative-error bound of binary64 that is exact on
     half-integers below 2^52 (they are doubles) *)
  Variable rnd : Q -> Q.
  Hypothesis rnd_rel : forall x, Qabs (rnd x - x) <= Qabs x * (1 # 9007199254740992).
  Hypothesis rnd_halfint : forall k : Z, (Z.abs k <= 9007199254740992)%Z -> rnd (k # 2) == k # 2.
  Hypothesis rnd_proper : forall x y, x == y -> rnd x == rnd y.

  Definition fl_jadd (a b : jds) : jds := mkJ (rnd (jd1 a + jd1 b)) (rnd (jd2 a + jd2 b)).
  Definition fl_jsub (a b : jds) : jds := mkJ (rnd (jd1 a - jd1 b)) (rnd (jd2 a - jd2 b)).

  Lemma two_part_add_accuracy (a b : jds) (ka kb : Z) (B : Q) :
    jd1 a == ka # 2 -> jd1 b == kb # 2 -> (Z.abs (ka + kb) <= 9007199254740992)%Z ->
    Qabs (jd2 a + jd2 b) <= B ->
    Qabs (value (fl_jadd a b) - (value a + value b)) <= B * (1 # 9007199254740992).
  Proof.
    intros Ha Hb Hk HB. unfold fl_jadd, value. cbn [jd1 jd2].
    assert (E1 : jd1 a + jd1 b == (ka + kb) # 2).
    { rewrite Ha, Hb. unfold Qeq, Qplus. cbn. lia. }
    rewrite (rnd_proper _ _ E1), (rnd_halfint _ Hk).
    assert (E : ((ka + kb) # 2) + rnd (jd2 a + jd2 b) - (jd1 a + jd2 a + (jd1 b + jd2 b))
                == rnd (jd2 a + jd2 b) - (jd2 a + jd2 b)).
    { rewrite <- E1. ring. }
    rewrite E. eapply Qle_trans; [apply rnd_rel|].
    apply Qmult_le_compat_r; [exact HB|discriminate].
  Qed.

  Lemma two_part_sub_accuracy (a b : jds) (ka kb : Z) (B : Q) :
    jd1 a == ka # 2 -> jd1 b == kb # 2 -> (Z.abs (ka - kb) <= 9007199254740992)%Z ->
    Qabs (jd2 a - jd2 b) <= B ->
    Qabs (value (fl_jsub a b) - (value a - value b)) <= B * (1 # 9007199254740992).
  Proof.
    intros Ha Hb Hk HB. unfold fl_jsub, value. cbn [jd1 jd2].
    assert (E1 : jd1 a - jd1 b == (ka - kb) # 2).
    { rewrite Ha, Hb. unfold Qeq, Qminus, Qplus, Qopp. cbn. lia. }
    rewrite (rnd_proper _ _ E1), (rnd_halfint _ Hk).
    assert (E : ((ka - kb) # 2) + rnd (jd2 a - jd2 b) - (jd1 a + jd2 a - (jd1 b + jd2 b))
                == rnd (jd2 a - jd2 b) - (jd2 a - jd2 b)).
    { rewrite <- E1. ring. }
    rewrite E. eapply Qle_trans; [apply rnd_rel|].
    apply Qmult_le_compat_r; [exact HB|discriminate].
  Qed.
End Rounding.

(* 4 * 2^-53 day = 0.038 ns *)
Lemma accuracy_budget : 4 * (1 # 9007199254740992) < ns * (1 # 25).
Proof. reflexivity. Qed.

(* ------------------------------------------------------------------ program language: the decision procedure is sound *)
Lemma lin_attr_sound w a s o :
  eval (EAttr w a) s o == lin_eval (lin_attr w a) s o.
Proof. destruct w, a; cbn; ring. Qed.

Lemma ladd_eval x y s o : lin_eval (ladd x y) s o == lin_eval x s o + lin_eval y s o.
Proof. destruct x as [[[a b] c] d], y as [[[a' b'] c'] d']. cbn. ring. Qed.

Lemma lneg_eval x s o : lin_eval (lneg x) s o == - lin_eval x s o.
Proof. destruct x as [[[a b] c] d]. cbn. ring. Qed.

Lemma lin_sound e s o : eval e s o == lin_eval (lin_of e) s o.
Proof.
  induction e as [w a|a IHa b IHb|a IHa b IHb|a IHa].
  - apply lin_attr_sound.
  - cbn [eval lin_of]. rewrite ladd_eval, IHa, IHb. reflexivity.
  - cbn [eval lin_of]. rewrite ladd_eval, lneg_eval, IHa, IHb. ring.
  - cbn [eval lin_of]. rewrite lneg_eval, IHa. reflexivity.
Qed.

Lemma lin_eqb_sound x y : lin_eqb x y = true -> forall s o, lin_eval x s o == lin_eval y s o.
Proof.
  destruct x as [[[a b] c] d], y as [[[a' b'] c'] d']. unfold lin_eqb. intros H s o.
  repeat (apply andb_prop in H; destruct H as [H ?]).
  apply Qeq_bool_iff in H. apply Qeq_bool_iff in H0. apply Qeq_bool_iff in H1. apply Qeq_bool_iff in H2.
  cbn. rewrite H, H0, H1, H2. reflexivity.
Qed.

(* ... and complete on the arithmetic: expressions that agree on all inputs have equal normal forms,
   so "equivalent arithmetic" in the source is never reported *)
Lemma lin_eqb_complete x y :
  (forall s o, lin_eval x s o == lin_eval y s o) -> lin_eqb x y = true.
Proof.
  destruct x as [[[a b] c] d], y as [[[a' b'] c'] d']. intros H. unfold lin_eqb.
  pose proof (H (mkJ 1 0) (mkJ 0 0)) as H1. pose proof (H (mkJ 0 1) (mkJ 0 0)) as H2.
  pose proof (H (mkJ 0 0) (mkJ 1 0)) as H3. pose proof (H (mkJ 0 0) (mkJ 0 1)) as H4.
  cbn in H1, H2, H3, H4.
  assert (Ea : a == a') by lra. assert (Eb : b == b') by lra.
  assert (Ec : c == c') by lra. assert (Ed : d == d') by lra.
  apply Qeq_bool_iff in Ea. apply Qeq_bool_iff in Eb. apply Qeq_bool_iff in Ec. apply Qeq_bool_iff in Ed.
  rewrite Ea, Eb, Ec, Ed. reflexivity.
Qed.

Lemma expr_equiv_complete e e' :
  (forall s o, eval e s o == eval e' s o) -> lin_eqb (lin_of e) (lin_of e') = true.
Proof.
  intros H. apply lin_eqb_complete. intros s o. rewrite <- !lin_sound. apply H.
Qed.

Lemma target_eqb_eq a b : target_eqb a b = true -> a = b.
Proof. destruct a, b; simpl; intros H; try reflexivity; discriminate. Qed.

Lemma fmtexpr_eqb_eq a b : fmtexpr_eqb a b = true -> a = b.
Proof.
  destruct a as [w|c|c y n], b as [w'|c'|c' y' n']; simpl; intros H; try discriminate.
  - destruct w, w'; try discriminate; reflexivity.
  - apply String.eqb_eq in H. subst. reflexivity.
  - apply andb_prop in H. destruct H as [H H3]. apply andb_prop in H. destruct H as [H1 H2].
    apply String.eqb_eq in H1. apply String.eqb_eq in H2. apply String.eqb_eq in H3. subst. reflexivity.
Qed.

Lemma oequiv_refl x : oequiv x x.
Proof. destruct x as [x|]; cbn; [|exact I]. unfold obj_equiv. repeat split; reflexivity. Qed.

Lemma method_eqb_sound_l m m' :
  method_eqb m m' = true -> forall s o, oequiv (run_method m s o) (run_method m' s o).
Proof.
  unfold method_eqb. intros H s o.
  apply andb_prop in H. destruct H as [H HD]. apply andb_prop in H. destruct H as [HG HT].
  apply Bool.eqb_prop in HG. unfold run_method. rewrite <- HG.
  destruct (m_guard m && negb (String.eqb (oscale s) (oscale o))); [exact I|].
  assert (HB : outcome_eqb (branch_for (m_branches m) (okind o)) (branch_for (m_branches m') (okind o)) = true)
    by (destruct (okind o); assumption).
  destruct (branch_for (m_branches m) (okind o)) as [|t e1 e2 f],
           (branch_for (m_branches m') (okind o)) as [|t' e1' e2' f']; cbn in HB; try discriminate; [exact I|].
  apply andb_prop in HB. destruct HB as [HB Hf]. apply andb_prop in HB. destruct HB as [HB H2].
  apply andb_prop in HB. destruct HB as [Ht H1].
  apply target_eqb_eq in Ht. apply fmtexpr_eqb_eq in Hf. subst.
  cbn. unfold obj_equiv. cbn. repeat split.
  - rewrite !lin_sound. apply lin_eqb_sound. exact H1.
  - rewrite !lin_sound. apply lin_eqb_sound. exact H2.
Qed.

(* unary bodies: a body accepted as the specification's negates both parts, for every duration *)
Lemma run_unary_sound oc :
  outcome_eqb oc neg_spec_outcome = true ->
  forall d, oequiv (run_unary oc d) (Some (neg d)).
Proof.
  intros H d. destruct oc as [|t e1 e2 f]; cbn in H; [discriminate|].
  apply andb_prop in H. destruct H as [H Hf]. apply andb_prop in H. destruct H as [H H2].
  apply andb_prop in H. destruct H as [Ht H1].
  apply target_eqb_eq in Ht. apply fmtexpr_eqb_eq in Hf. subst.
  destruct d as [k sc f [a b]]. cbn. unfold obj_equiv. cbn. repeat split.
  - rewrite lin_sound. rewrite (lin_eqb_sound _ _ H1). cbn. ring.
  - rewrite lin_sound. rewrite (lin_eqb_sound _ _ H2). cbn. ring.
Qed.

Lemma neg_classified0 n :
  classify_neg n = 0%Z -> exists oc, n = NegBody oc /\ forall d, oequiv (run_unary oc d) (Some (neg d)).
Proof.
  destruct n as [| |oc]; cbn; try discriminate.
  destruct (outcome_eqb oc neg_spec_outcome) eqn:E; [|discriminate].
  intros _. exists oc. split; [reflexivity|]. apply run_unary_sound. exact E.
Qed.

Lemma neg_classified4 n : classify_neg n = 4%Z -> n = NegAbsent.
Proof.
  destruct n as [| |oc]; cbn; try discriminate; [reflexivity|].
  destruct (outcome_eqb oc neg_spec_outcome); discriminate.
Qed.

(* the hand-written program-language copies of the models are the models *)
Lemma spec_method_is_model q op s o :
  okind s = self_kind op -> oequiv (run_method (spec_method q op) s o) (model q op s o).
Proof.
  destr_obj s. destr_obj o. cbn [okind]. intros ->.
  unfold run_method, model. cbn [oscale okind ofmt ojd].
  destruct op; cbn [spec_method m_guard m_branches self_kind andb];
  destruct (String.eqb sc sc0); cbn [negb]; try exact I;
  destruct k0; cbn; try exact I;
  try (destruct (q_add_collapses q)); try (destruct (q_sub_drops_days q)); cbn;
  unfold obj_equiv, diff_fmt; cbn; repeat split; try reflexivity; try ring.
Qed.

Lemma oequiv_trans x y z : oequiv x y -> oequiv y z -> oequiv x z.
Proof.
  destruct x as [x|], y as [y|], z as [z|]; cbn; try tauto.
  unfold obj_equiv. intros (A1 & A2 & A3 & A4 & A5) (B1 & B2 & B3 & B4 & B5).
  repeat split; try congruence.
  - rewrite A4. exact B4.
  - rewrite A5. exact B5.
Qed.

Lemma methods_match_sound get q :
  methods_match get q = true ->
  forall op s o, okind s = self_kind op -> oequiv (run_method (get op) s o) (model q op s o).
Proof.
  unfold methods_match. intros H op s o Hk.
  rewrite forallb_forall in H.
  assert (Hin : In op all_ops) by (destruct op; cbn; tauto).
  specialize (H op Hin).
  eapply oequiv_trans; [apply method_eqb_sound_l; exact H|apply spec_method_is_model; exact Hk].
Qed.

Lemma classify_sound get q :
  classify_methods get = Some q ->
  forall op s o, okind s = self_kind op -> oequiv (run_method (get op) s o) (model q op s o).
Proof.
  unfold classify_methods. intros H. apply find_some in H. destruct H as [_ H].
  apply methods_match_sound. exact H.
Qed.

(* the models respect two-part equality of their operands *)
Lemma model_proper q op a a' b b' :
  obj_equiv a a' -> obj_equiv b b' -> oequiv (model q op a b) (model q op a' b').
Proof.
  destr_obj a. destr_obj a'. destr_obj b. destr_obj b'. unfold obj_equiv. cbn [okind oscale ofmt ojd jd1 jd2].
  intros (-> & -> & -> & E1 & E2) (-> & -> & -> & E3 & E4).
  unfold model. cbn [okind oscale ofmt ojd].
  destruct (String.eqb sc0 sc2); cbn [negb]; [|exact I].
  destruct op, k2; cbn; try exact I;
  try (destruct (q_add_collapses q)); try (destruct (q_sub_drops_days q));
  unfold obj_equiv, diff_fmt; cbn; repeat split; try reflexivity; rewrite ?E1, ?E2, ?E3, ?E4; reflexivity.
Qed.

Lemma oequiv_same_point x y : oequiv x y -> same_point x y.
Proof.
  destruct x as [x|], y as [y|]; cbn; try tauto.
  unfold obj_equiv, value. intros (A1 & A2 & _ & A4 & A5). repeat split; try assumption.
  rewrite A4, A5. reflexivity.
Qed.

Lemma same_point_trans x y z : same_point x y -> same_point y z -> same_point x z.
Proof.
  destruct x as [x|], y as [y|], z as [z|]; cbn; try tauto.
  intros (A1 & A2 & A3) (B1 & B2 & B3). repeat split; try congruence. rewrite A3. exact B3.
Qed.

(* ------------------------------------------------------------------ the quirks are refuted by computed witnesses *)
Definition t_w : obj := mkObj KTime "utc" "jd" (mkJ (4917699 # 2) 0).          (* JD 2458849.5 *)
Definition d_w : obj := mkObj KDelta "utc" "days" (mkJ 2 (1 # 4)).               (* 2.25 days *)

Lemma sub_drops_days_refuted_l :
  let q := mkQuirks true false false in
  ~ same_point (obind (minus_q q t_w d_w) (fun r => plus_q q r d_w)) (Some t_w).
Proof. cbn. intros (_ & _ & H). vm_compute in H. discriminate. Qed.

Lemma sub_quirk_agrees_outside q0 op a b :
  jd1 (ojd b) == 0 ->
  oequiv (model (mkQuirks true (q_add_collapses q0) (q_neg_keeps_jds q0)) op a b)
         (model (mkQuirks false (q_add_collapses q0) (q_neg_keeps_jds q0)) op a b).
Proof.
  destr_obj a. destr_obj b. cbn [ojd jd1]. intros H. unfold model. cbn [okind oscale ofmt ojd].
  destruct (String.eqb sc sc0); cbn [negb]; [|exact I].
  destruct op, k0; cbn; try exact I; try (destruct (q_add_collapses q0));
  unfold obj_equiv, jsub, jadd; cbn; repeat split; try reflexivity; rewrite H; ring.
Qed.

Lemma neg_keeps_jds_refuted_l :
  let q := mkQuirks false false true in
  ~ same_point (minus_q q t_w d_w) (plus_q q t_w (neg_q q d_w)).
Proof. cbn. intros (_ & _ & H). vm_compute in H. discriminate. Qed.

(* Time + TimeDelta through the collapsed float `other.days`:  t = (2458849.5, 0.3), d = (30000, fl(30000.7) - 30000).
   Each double below is accepted by the nearest-double checker as the correctly rounded result of its step;
   the collapsed sum misses the exact sum by more than 60 ns, the two-part sum by less than 0.04 ns. *)
Definition w_s2 : dy := Dy 5404319552844595 (-54).           (* t.jd2 = 0.3 *)
Definition w_o1 : dy := Dy 1875 4.                             (* d.jd1 = 30000 *)
Definition w_o2 : dy := Dy 192414534861 (-38).                 (* d.jd2 = 0.7000000000007276 *)
Definition w_D : dy := Dy 8246529622854861 (-38).              (* d.days = 30000.7 *)
Definition w_r : dy := Dy 30001 0.                             (* collapsed jd2' = 30001.0 *)
Definition w_p : dy := Dy 4503599627373773 (-52).              (* two-part jd2' = 1.0000000000007276 *)
Definition qof (d : dy) : Q := match dy_toQ d with Some x => x | None => 0 end.

Lemma add_collapses_refuted_l :
  is_nearest_double (qof w_o1 + qof w_o2) w_D = true /\
  is_nearest_double (qof w_s2 + qof w_D) w_r = true /\
  60 * ns < Qabs (qof w_r - (qof w_s2 + (qof w_o1 + qof w_o2))) /\
  is_nearest_double (qof w_s2 + qof w_o2) w_p = true /\
  Qabs (qof w_o1 + qof w_p - (qof w_o1 + (qof w_s2 + qof w_o2))) < ns * (1 # 25).
Proof. vm_compute. repeat split; reflexivity. Qed.

Lemma second2day_is_double : is_nearest_double (1 # 86400) second2day_double = true.
Proof. vm_compute. reflexivity. Qed.
