(* C08 - the PosVel / PositionDelta machine: the specification shows the cache-free meaning. *)
From Coq Require Import ZArith List Bool Lia.
From Verif Require Import Lib.C08_Lru Model.C08_Cache.
Import ListNotations.
Open Scope Z_scope.

Lemma pv_map_map : forall f g w, pv_map f (pv_map g w) = pv_map (fun k o => f k (g k o)) w.
Proof. induction w as [|[k o] w IH]; simpl; auto. rewrite IH. reflexivity. Qed.

Lemma pv_map_ext : forall f g w, (forall k o, f k o = g k o) -> pv_map f w = pv_map g w.
Proof. intros f g w H. induction w as [|[k o] w IH]; simpl; auto. rewrite IH, H. reflexivity. Qed.

Lemma strip1_idem : forall o, pv_strip1 (pv_strip1 o) = pv_strip1 o.
Proof. intros [[[k a] l] m]. reflexivity. Qed.

(* a map whose static result does not depend on the memo commutes with stripping *)
Lemma strip_map : forall f w w',
  (forall k o, pv_strip1 (f k o) = pv_strip1 (f k (pv_strip1 o))) ->
  pv_strip w = pv_strip w' -> pv_strip (pv_map f w) = pv_strip (pv_map f w').
Proof.
  intros f w w' H E. unfold pv_strip in *. rewrite !pv_map_map.
  transitivity (pv_map (fun k o => pv_strip1 (f k o)) (pv_map (fun _ o => pv_strip1 o) w)).
  - rewrite pv_map_map. apply pv_map_ext. intros. apply H.
  - rewrite E, pv_map_map. apply pv_map_ext. intros. symmetry. apply H.
Qed.

Lemma strip_memo_put : forall s what v w, pv_strip (memo_put s what v w) = pv_strip w.
Proof.
  intros. unfold pv_strip, memo_put, pv_update. rewrite pv_map_map. apply pv_map_ext.
  intros k [[[kd a] l] m]. destruct (k =? s); reflexivity.
Qed.

Lemma assoc_strip : forall s w, assoc_z s (pv_strip w) = option_map pv_strip1 (assoc_z s w).
Proof.
  induction w as [|[k o] w IH]; simpl; auto. destruct (s =? k); auto.
Qed.

Lemma assoc_same : forall s w w', pv_strip w = pv_strip w' ->
  option_map pv_strip1 (assoc_z s w) = option_map pv_strip1 (assoc_z s w').
Proof. intros. rewrite <- !assoc_strip, H. reflexivity. Qed.

Lemma assoc_cases : forall s w w', pv_strip w = pv_strip w' ->
  (assoc_z s w = None /\ assoc_z s w' = None)
  \/ exists k a l m m', assoc_z s w = Some (k, a, l, m) /\ assoc_z s w' = Some (k, a, l, m').
Proof.
  intros s w w' E. pose proof (assoc_same s w w' E) as A.
  destruct (assoc_z s w) as [[[[k a] l] m]|]; destruct (assoc_z s w') as [[[[k' a'] l'] m']|]; simpl in A; try discriminate.
  - inversion A; subst. right. exists k', a', l', m, m'. auto.
  - left. auto.
Qed.

Section PV.
  Variable pvf : Z -> list arr -> option arr.
  Notation S := (pvstep pvf false false).

  Lemma pvstep_sim : forall o w r w' r' wr1 x wr1' x',
    pv_strip w = pv_strip w' ->
    S (w, r) o = (wr1, x) -> S (w', r') o = (wr1', x') ->
    x = x' /\ pv_strip (fst wr1) = pv_strip (fst wr1').
  Proof.
    intros o w r w' r' wr1 x wr1' x' E H H'. destruct o; unfold pvstep, use_memo in H, H'; cbn [orb andb] in H, H'.
    - (* PNew *) inversion H; inversion H'; subst. simpl. split; [reflexivity|].
      unfold pv_strip in *. simpl. rewrite E. reflexivity.
    - (* PRead *)
      destruct (assoc_cases s w w' E) as [[A A']|(k & a & l & m & m' & A & A')]; rewrite A in H; rewrite A' in H';
        [inversion H; inversion H'; subst; auto|].
      destruct (pv_linked what).
      + destruct l as [t|]; [|inversion H; inversion H'; subst; auto].
        destruct (assoc_cases t w w' E) as [[B B']|(k2 & a2 & l2 & m2 & m2' & B & B')]; rewrite B in H; rewrite B' in H';
          [inversion H; inversion H'; subst; auto|].
        destruct (pvf (what * 100 + k * 10 + k2) [a; a2]); inversion H; inversion H'; subst; simpl; auto.
        split; [reflexivity|]. rewrite !strip_memo_put. exact E.
      + destruct ((what =? 4) && (k =? 4)).
        * destruct (pvf 340 [a]) as [child|]; [|inversion H; inversion H'; subst; auto].
          destruct (pvf 430 [child]); [|inversion H; inversion H'; subst; auto].
          inversion H; inversion H'; subst; simpl. split; [reflexivity|]. rewrite !strip_memo_put.
          destruct (assoc_z 3 m); destruct (assoc_z 3 m'); rewrite ?strip_memo_put; exact E.
        * destruct (pvf (what * 100 + k * 10) [a]); inversion H; inversion H'; subst; simpl; auto.
          split; [reflexivity|]. rewrite !strip_memo_put. exact E.
    - (* PRaw *)
      destruct (assoc_cases s w w' E) as [[A A']|(k & a & l & m & m' & A & A')]; rewrite A in H; rewrite A' in H';
        [inversion H; inversion H'; subst; auto|].
      destruct (pvf (300 + k * 10) [a]); inversion H; inversion H'; subst; simpl; auto.
    - (* PWrite *) destruct r; destruct r'; inversion H; inversion H'; subst; simpl; auto.
    - (* PSet *) inversion H; inversion H'; subst. simpl. split; [reflexivity|].
      unfold pv_assign. apply strip_map; [|exact E].
      intros k [[[kd a] l] m]. simpl. destruct (k =? s); [reflexivity|].
      destruct l as [t|]; [|reflexivity]. destruct (t =? s); reflexivity.
    - (* POther *) inversion H; inversion H'; subst. simpl. split; [reflexivity|].
      unfold pv_update. apply strip_map; [|exact E].
      intros k [[[kd a] l] m]. destruct (k =? s); reflexivity.
  Qed.

  Lemma strip_strip : forall w, pv_strip (pv_strip w) = pv_strip w.
  Proof.
    intros. unfold pv_strip. rewrite pv_map_map. apply pv_map_ext. intros. apply strip1_idem.
  Qed.

  Lemma pvrun_sim : forall ops w r f w' r',
    pv_strip w = pv_strip w' ->
    map fst (pvrun pvf false false (w, r) f ops) = pvrun_uncached pvf (w', r') ops.
  Proof.
    induction ops as [|o ops IH]; intros w r f w' r' E; [reflexivity|].
    cbn [pvrun pvrun_uncached].
    destruct (pvstep pvf false false (w, r) o) as [[w1 r1] x] eqn:S1.
    change (pv_wipe (w', r')) with (pv_strip w', @None Z).
    destruct (pvstep pvf false false (pv_strip w', None) o) as [[w1' r1'] x'] eqn:S2.
    assert (E' : pv_strip w = pv_strip (pv_strip w')) by (rewrite strip_strip; exact E).
    destruct (pvstep_sim o w r (pv_strip w') None (w1, r1) x (w1', r1') x' E' S1 S2) as [X E1].
    cbn [map fst]. subst x'. f_equal. apply IH. exact E1.
  Qed.

  Lemma pv_cache_invisible_lemma : forall ops,
    map fst (pvrun pvf false false ([], None) false ops) = pvrun_uncached pvf ([], None) ops.
  Proof. intros. apply pvrun_sim. reflexivity. Qed.

  (* ---------------------------------------------------------------------------------- what a read means *)
  Lemma pv_read_plain_lemma : forall w r s what k a l m,
    assoc_z s w = Some (k, a, l, m) ->
    pv_linked what = false -> (what =? 4) && (k =? 4) = false ->
    snd (S (w, r) (PRead s what)) = match pvf (what * 100 + k * 10) [a] with None => None | Some v => Some (v, 0) end.
  Proof.
    intros w r s what k a l m A N1 N2. unfold pvstep, use_memo. unfold pvobj in *. cbv beta iota. cbn [orb andb]. rewrite A. cbv beta iota. rewrite N1, N2.
    destruct (pvf (what * 100 + k * 10) [a]); reflexivity.
  Qed.

  Lemma pv_read_linked_lemma : forall w r s what k a t m k2 a2 l2 m2,
    assoc_z s w = Some (k, a, Some t, m) -> assoc_z t w = Some (k2, a2, l2, m2) ->
    pv_linked what = true ->
    snd (S (w, r) (PRead s what)) = match pvf (what * 100 + k * 10 + k2) [a; a2] with None => None | Some v => Some (v, 0) end.
  Proof.
    intros w r s what k a t m k2 a2 l2 m2 A B N. unfold pvstep, use_memo. unfold pvobj in *. cbv beta iota. cbn [orb andb]. rewrite A. cbv beta iota. rewrite N, B.
    destruct (pvf (what * 100 + k * 10 + k2) [a; a2]); reflexivity.
  Qed.

  Lemma assoc_pv_map : forall f s w, assoc_z s (pv_map f w) = option_map (f s) (assoc_z s w).
  Proof.
    induction w as [|[k o] w IH]; simpl; auto. destruct (s =? k) eqn:E; auto. apply Z.eqb_eq in E. subst. reflexivity.
  Qed.

  (* item assignment changes exactly the contents of the assigned object *)
  Lemma pv_set_lemma : forall w r s mode v k a l m,
    assoc_z s w = Some (k, a, l, m) ->
    assoc_z s (fst (fst (S (w, r) (PSet s mode v)))) = Some (k, set_rows mode v a, l, [])
    /\ (forall t, t <> s -> option_map pv_strip1 (assoc_z t (fst (fst (S (w, r) (PSet s mode v)))))
                           = option_map pv_strip1 (assoc_z t w)).
  Proof.
    intros w r s mode v k a l m A. unfold pvstep. cbn [fst]. unfold pv_assign. unfold pvobj in *. split.
    - rewrite assoc_pv_map. unfold pvobj in *. rewrite A. simpl. rewrite Z.eqb_refl. reflexivity.
    - intros t N. rewrite assoc_pv_map. unfold pvobj in *.
      destruct (assoc_z t w) as [[[[k' a'] l'] m']|]; [|reflexivity].
      cbn [option_map]. replace (t =? s) with false by (symmetry; apply Z.eqb_neq; exact N).
      destruct l' as [u|]; [|reflexivity]. destruct ((u =? s) && negb (false && pv_is_delta k')); reflexivity.
  Qed.
End PV.

(* raw calls: for every combination of the switches the result is private and the argument untouched *)
Lemma pv_raw_lemma : forall pvf sr h w r s c wr1 x,
  pvstep pvf sr h (w, r) (PRaw s) = (wr1, x) ->
  fst wr1 = w
  /\ pvstep pvf sr h wr1 (PWrite c) = (wr1, Some (([], []), 0))
  /\ (forall a k, x = Some (a, k) -> k = 1 \/ k = -9).
Proof.
  intros pvf sr h w r s c wr1 x H. unfold pvstep in H.
  destruct (assoc_z s w) as [[[[k a] l] m]|].
  - destruct (pvf (300 + k * 10) [a]); inversion H; subst; (split; [reflexivity|]); (split; [reflexivity|]);
      intros a' k' E; inversion E; auto.
  - inversion H; subst. split; [reflexivity|]. split; [reflexivity|]. intros a' k' E; inversion E; auto.
Qed.
