(* C10 (d) - which generated cases meet the hypothesis gwf of graph_roundtrip (evidence only) *)
From Coq Require Import ZArith List Bool String.
From Verif Require Import Lib.Dyadic Model.C10_Attr Model.C10_File Model.C10_Graph Proofs.C10_GraphRT.
Definition check_hyp2 (g : gdataset) : Z := if gwf g then 1%Z else 0%Z.
Definition hyp_case2 (c : gdataset * Z * owrite2 * oread2) : Z := check_hyp2 (fst (fst (fst c))).
