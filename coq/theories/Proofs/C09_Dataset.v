(* C09 - proofs about the Dataset model (Model/C09_Dataset.v). *)
From Coq Require Import String Ascii ZArith QArith Bool Arith Lia List Permutation Sorted.
From Verif Require Import Lib.Dyadic Lib.C09_Table Model.C09_Dataset.
Import ListNotations.
Open Scope nat_scope.
Open Scope list_scope.

(* ------------------------------------------------------------------ the invariant *)
(* a cell belongs to observation r, or is a fill value *)
Definition cell_ok (c : cell) (r : Z) : Prop := cgid c = None \/ cgid c = Some r.
(* an object has one row per table row, and row k belongs to the observation of table row k *)
Definition obj_ok (ids : list Z) (ob : obj) : Prop := Forall2 cell_ok (orows ob) ids.
Definition Good (d : dset) : Prop :=
  length (rowids d) = num_obs d /\ Forall (fun x => obj_ok (rowids d) (snd x)) (store d).

Definition arg_good (o : op) : Prop :=
  match o with
  | Extend x => Good x
  | Merge os _ => Forall Good os
  | Difference x _ => Good x
  | _ => True
  end.

Lemma good_empty : Good empty_dset.
Proof. split; [reflexivity|constructor]. Qed.

Lemma obj_ok_length ids ob : obj_ok ids ob -> length (orows ob) = length ids.
Proof. apply Forall2_length. Qed.

Lemma cell_ok_fill r p : cell_ok (mkCell None p) r.
Proof. now left. Qed.

(* ------------------------------------------------------------------ take_all *)
Lemma take_obj_ok ix ids ob : obj_ok ids ob -> obj_ok (take 0%Z ix ids) (take_obj ix ob).
Proof.
  intro H. unfold obj_ok, take_obj, set_rows. simpl.
  apply Forall2_take; [exact H|apply cell_ok_fill].
Qed.

Lemma take_all_good ix d : Good d -> Good (take_all ix d).
Proof.
  intros [Hl Hs]. split; simpl.
  - apply take_length.
  - rewrite Forall_map. simpl. eapply Forall_impl; [|exact Hs].
    intros x Hx. now apply take_obj_ok.
Qed.

(* ------------------------------------------------------------------ add_<type> *)
Lemma mk_rows_ok ids vals : length vals = length ids -> Forall2 cell_ok (mk_rows ids vals) ids.
Proof.
  unfold mk_rows. revert vals. induction ids as [|i ids IH]; intros [|v vals] H; simpl in *; try discriminate.
  - constructor.
  - constructor; [now right|]. apply IH. lia.
Qed.

Definition news_ok (d : dset) (acc : option (list (nat * obj) * nat * list (string * nat))) : Prop :=
  match acc with
  | Some (news, _, _) => Forall (fun x => obj_ok (rowids d) (snd x)) news
  | None => True
  end.

Lemma resolve_ok d acc ar : length (rowids d) = num_obs d -> news_ok d acc -> news_ok d (resolve d acc ar).
Proof.
  intros Hl H. destruct acc as [[[news nx] refs]|]; [|exact I].
  unfold resolve. destruct (snd ar) as [p|k vals|p a].
  - destruct (slookup p (fields d)); simpl; auto.
  - destruct (Nat.eqb (length vals) (num_obs d) && forallb (payload_ok k false 0) vals) eqn:E; simpl; auto.
    apply andb_prop in E. destruct E as [E _]. apply Nat.eqb_eq in E.
    apply Forall_app. split; [exact H|]. constructor; [|constructor].
    unfold obj_ok. simpl. apply mk_rows_ok. lia.
  - destruct (field_obj d p); simpl; auto. destruct (slookup a (orefs o)); simpl; auto.
Qed.

Lemma fold_resolve_ok d refs acc :
  length (rowids d) = num_obs d -> news_ok d acc -> news_ok d (fold_left (resolve d) refs acc).
Proof.
  intro Hl. revert acc. induction refs as [|r refs IH]; intros acc H; simpl; [exact H|].
  apply IH. now apply resolve_ok.
Qed.

Lemma add_field_good d path k two w unit vals refs d' :
  Good d -> add_field d path k two w unit vals refs = Some d' -> Good d'.
Proof.
  intros [Hl Hs] H. unfold add_field in H.
  destruct (slookup path (fields d)); [discriminate|].
  destruct (Nat.eqb (length vals) (num_obs d) && forallb (payload_ok k two w) vals) eqn:E; [|discriminate].
  apply andb_prop in E. destruct E as [E _]. apply Nat.eqb_eq in E.
  pose proof (@fold_resolve_ok d refs (Some ([], S (next d), [])) Hl) as Hf.
  destruct (fold_left (resolve d) refs (Some ([], S (next d), []))) as [[[news nx] rs]|]; [|discriminate].
  inversion H; subst; clear H. split; simpl; [exact Hl|].
  apply Forall_app. split; [exact Hs|].
  constructor.
  - unfold obj_ok. simpl. apply mk_rows_ok. lia.
  - apply Hf. simpl. constructor.
Qed.

(* ------------------------------------------------------------------ extend *)
Lemma sequence_Forall A (P : A -> Prop) (l : list (option A)) r :
  sequence l = Some r -> (forall x, In (Some x) l -> P x) -> Forall P r.
Proof.
  revert r. induction l as [|[a|] l IH]; intros r H HP; simpl in H.
  - inversion H. constructor.
  - destruct (sequence l) as [xs|]; [|discriminate]. inversion H; subst.
    constructor; [apply HP; now left|]. apply IH; [reflexivity|]. intros x Hx. apply HP. now right.
  - discriminate.
Qed.

Lemma lookup_In A k (l : list (nat * A)) v : lookup k l = Some v -> In (k, v) l.
Proof.
  induction l as [|[k' v'] l IH]; simpl; [discriminate|].
  destruct (Nat.eqb k k') eqn:E.
  - apply Nat.eqb_eq in E. intro H. inversion H; subst. now left.
  - intro H. right. now apply IH.
Qed.

Lemma conv_gid k fs c : cgid (conv k fs c) = cgid c.
Proof. unfold conv. destruct k; destruct (cval c); reflexivity. Qed.

Lemma fill_rows_ok n ob ids : n = length ids -> Forall2 cell_ok (fill_rows n ob) ids.
Proof.
  intros ->. unfold fill_rows. apply Forall2_repeat_l. intro y. apply cell_ok_fill.
Qed.

Lemma merge_obj_ok ids1 ids2 oa ob bmap o' :
  obj_ok ids1 oa -> obj_ok ids2 ob ->
  merge_obj (length ids1) oa ob bmap = Some o' -> obj_ok (ids1 ++ ids2) o'.
Proof.
  intros Ha Hb H. unfold merge_obj in H.
  destruct (Nat.eqb (length ids1) 0) eqn:E0.
  - apply Nat.eqb_eq in E0. destruct ids1; [|discriminate]. inversion H; subst. exact Hb.
  - destruct (kind_eqb (okind oa) (okind ob) && Bool.eqb (otwo oa) (otwo ob) &&
              Nat.eqb (kwidth (okind oa) (otwo oa) (owidth oa)) (kwidth (okind ob) (otwo ob) (owidth ob))); [|discriminate].
    destruct (factors oa ob) as [fs|]; [|discriminate]. inversion H; subst; clear H.
    unfold obj_ok. simpl. apply Forall2_app; [exact Ha|].
    apply Forall2_map_l. eapply Forall2_impl; [|exact Hb].
    intros a b Hab. unfold cell_ok in *. now rewrite conv_gid.
Qed.

Lemma extend_good d o d' : Good d -> Good o -> extend all_off d o = Some d' -> Good d'.
Proof.
  intros [Hl Hs] [Hlo Hso] H. unfold extend in H.
  destruct (negb (one_to_one (all_pairs d o))); [discriminate|].
  match type of H with match sequence ?m with _ => _ end = _ => destruct (sequence m) as [st1|] eqn:Eseq end; [|discriminate].
  inversion H; subst; clear H. split; simpl.
  - rewrite app_length. lia.
  - rewrite Forall_forall in Hs, Hso.
    apply Forall_app. split.
    + eapply sequence_Forall; [exact Eseq|].
      intros y Hy. apply in_map_iff in Hy. destruct Hy as [x [Hx Hin]].
      specialize (Hs x Hin). simpl in Hs.
      destruct (find (fun ab => Nat.eqb (fst ab) (fst x)) (all_pairs d o)) as [ab|].
      * destruct (lookup (snd ab) (store o)) as [ob|] eqn:El; [|discriminate].
        apply lookup_In in El. specialize (Hso _ El). simpl in Hso.
        rewrite <- Hl in Hx.
        destruct (merge_obj (length (rowids d)) (snd x) ob _) as [o'|] eqn:Em; [|discriminate].
        simpl in Hx. inversion Hx; subst. simpl.
        eapply merge_obj_ok; eauto.
      * inversion Hx; subst. simpl. unfold obj_ok, append_fill, set_rows. simpl.
        apply Forall2_app; [exact Hs|]. apply fill_rows_ok. now rewrite Hlo.
    + rewrite Forall_map. apply Forall_forall. intros x Hx. apply filter_In in Hx. destruct Hx as [Hx _].
      specialize (Hso x Hx). simpl in Hso. simpl.
      unfold obj_ok, prepend_fill, set_rows, remap. simpl.
      apply Forall2_app; [|exact Hso]. apply fill_rows_ok. now rewrite Hl.
Qed.

Lemma extend_all_good os : forall d d', Good d -> Forall Good os -> extend_all all_off d os = Some d' -> Good d'.
Proof.
  induction os as [|o os IH]; intros d d' Hd Ho H; simpl in H.
  - now inversion H; subst.
  - inversion Ho; subst. destruct (extend all_off d o) as [d1|] eqn:E; [|discriminate].
    apply (IH d1 d'); [exact (extend_good d o d1 Hd H2 E)|assumption|exact H].
Qed.

Lemma merge_good d os s d' : Good d -> Forall Good os -> merge all_off d os s = Some d' -> Good d'.
Proof.
  intros Hd Ho H. unfold merge in H.
  destruct (extend_all all_off d os) as [d1|] eqn:E; [|discriminate].
  pose proof (extend_all_good os d d1 Hd Ho E) as H1.
  destruct s as [p|]; [|now inversion H; subst].
  unfold sort_by in H. destruct (sort_keys d1 p); [|discriminate].
  inversion H; subst. now apply take_all_good.
Qed.

(* ------------------------------------------------------------------ difference *)
Lemma sub_cells_gid fs a b : cgid (sub_cells fs a b) = cgid a.
Proof. unfold sub_cells. destruct (cval a); destruct (cval b); reflexivity. Qed.

Lemma map2_sub_ok fs l1 : forall l2 ids,
  Forall2 cell_ok l1 ids -> length l2 = length l1 -> Forall2 cell_ok (map2 (sub_cells fs) l1 l2) ids.
Proof.
  induction l1 as [|a l1 IH]; intros l2 ids H Hl; inversion H; subst; simpl.
  - constructor.
  - destruct l2 as [|b l2]; [discriminate|]. simpl. constructor.
    + unfold cell_ok in *. now rewrite sub_cells_gid.
    + apply IH; [assumption|simpl in Hl; lia].
Qed.

Lemma take_rows_ok ix ids rows : Forall2 cell_ok rows ids -> Forall2 cell_ok (take fillcell_d ix rows) (take 0%Z ix ids).
Proof. intro H. apply Forall2_take; [exact H|apply cell_ok_fill]. Qed.

Lemma diff_field_ok d o sidx oidx ps pf l :
  Good d -> length oidx = length sidx ->
  diff_field d o sidx oidx ps pf = Some l ->
  Forall (fun x => obj_ok (take 0%Z sidx (rowids d)) (snd x)) l.
Proof.
  intros [Hl Hs] Hlen H. unfold diff_field in H.
  destruct (existsb (String.eqb (fst pf)) ps); [inversion H; constructor|].
  destruct (lookup (snd pf) (store d)) as [oa|] eqn:Ea; [|discriminate].
  destruct (field_obj o (fst pf)) as [ob|]; [|inversion H; constructor].
  destruct (negb (simple_kind (okind oa) && simple_kind (okind ob))); [discriminate|].
  destruct (kind_eqb (okind oa) KFloat && kind_eqb (okind ob) KFloat).
  - destruct (Bool.eqb (otwo oa) (otwo ob) && _); [|discriminate].
    destruct (diff_factors oa ob) as [fs|]; [|discriminate].
    inversion H; subst; clear H. constructor; [|constructor].
    unfold obj_ok. simpl. apply map2_sub_ok.
    + apply take_rows_ok. apply lookup_In in Ea. rewrite Forall_forall in Hs. exact (Hs _ Ea).
    + now rewrite !take_length.
  - destruct (kind_eqb (okind oa) (okind ob)); [|discriminate]. inversion H; constructor.
Qed.

Lemma Forall_concat A (P : A -> Prop) (ll : list (list A)) : Forall (Forall P) ll -> Forall P (concat ll).
Proof. induction 1; simpl; [constructor|]. apply Forall_app. now split. Qed.

Lemma difference_good d o ps d' : Good d -> difference d o ps = Some d' -> Good d'.
Proof.
  intros Hd H. unfold difference in H.
  destruct (diff_sel d o ps) as [[sidx oidx]|] eqn:Esel; [|discriminate].
  assert (Hlen : length oidx = length sidx).
  { unfold diff_sel in Esel. destruct ps as [|p ps'].
    - destruct (Nat.eqb (num_obs d) (num_obs o)); [|discriminate]. now inversion Esel; subst.
    - destruct (index_keys d (p :: ps')); [|discriminate]. destruct (index_keys o (p :: ps')); [|discriminate].
      inversion Esel; subst. now rewrite !map_length. }
  destruct (Nat.eqb (length sidx) 0); [discriminate|].
  match type of H with match sequence ?m with _ => _ end = _ => destruct (sequence m) as [fl|] eqn:Ef end; [|discriminate].
  match type of H with match sequence ?m with _ => _ end = _ => destruct (sequence m) as [il|] eqn:Ei end; [|discriminate].
  inversion H; subst; clear H. split; simpl; [apply take_length|].
  assert (Hall : Forall (fun x : string * obj => obj_ok (take 0%Z sidx (rowids d)) (snd x)) (concat fl ++ il)).
  { apply Forall_app. split.
    - apply Forall_concat. eapply sequence_Forall; [exact Ef|].
      intros l Hin. apply in_map_iff in Hin. destruct Hin as [pf [Hpf _]].
      eapply diff_field_ok; eauto.
    - eapply sequence_Forall; [exact Ei|].
      intros x Hin. apply in_map_iff in Hin. destruct Hin as [p [Hp _]].
      unfold field_obj in Hp. destruct (slookup p (fields d)) as [a|]; [|discriminate].
      destruct (lookup a (store d)) as [ob|] eqn:Ea; [|discriminate]. inversion Hp; subst. simpl.
      unfold obj_ok. simpl. apply take_rows_ok. destruct Hd as [_ Hs].
      apply lookup_In in Ea. rewrite Forall_forall in Hs. exact (Hs _ Ea). }
  apply Forall_forall. intros [i ob] Hin. apply in_combine_r in Hin. simpl.
  apply in_map_iff in Hin. destruct Hin as [x [<- Hx]]. rewrite Forall_forall in Hall. exact (Hall _ Hx).
Qed.

(* ------------------------------------------------------------------ every step, every history *)
Lemma zseq_length b n : length (zseq b n) = n.
Proof. unfold zseq. now rewrite map_length, seq_length. Qed.

Lemma step_step0 q d o d' : step q d o = Some d' -> step0 q d o = Some d' /\ wf_dset d' = true.
Proof.
  unfold step. destruct (step0 q d o) as [d1|]; [|discriminate].
  destruct (wf_dset d1) eqn:E; [|discriminate]. intro H. inversion H; subst. now split.
Qed.

Lemma step0_good d o d' : Good d -> arg_good o -> step0 all_off d o = Some d' -> Good d'.
Proof.
  intros Hd Ha H. destruct o; simpl in H, Ha.
  - destruct (fields d) eqn:Ef; [|discriminate]. destruct (colls d); [|discriminate]. inversion H; subst.
    split; simpl; [apply zseq_length|constructor].
  - eapply add_field_good; eauto.
  - destruct (Nat.eqb (length m) (num_obs d)); [|discriminate]. inversion H; subst. now apply take_all_good.
  - destruct (forallb (fun i => Nat.ltb i (num_obs d)) ix); [|discriminate]. inversion H; subst. now apply take_all_good.
  - exact (extend_good d o d' Hd Ha H).
  - exact (merge_good d os sort_by d' Hd Ha H).
  - exact (difference_good d o index_by d' Hd H).
  - destruct (slookup path (fields d)); [|discriminate]. inversion H; subst. exact Hd.
  - destruct (existsb (String.eqb path) (colls d) || _); [discriminate|]. inversion H; subst. exact Hd.
  - inversion H; subst. exact Hd.
  - inversion H; subst. exact Hd.
  - inversion H; subst. exact Hd.
Qed.

Lemma step_good d o d' : Good d -> arg_good o -> step all_off d o = Some d' -> Good d'.
Proof. intros Hd Ha H. apply step_step0 in H. destruct H as [H _]. exact (step0_good d o d' Hd Ha H). Qed.

Lemma run_good ops : forall d d', Good d -> Forall arg_good ops -> run all_off d ops = Some d' -> Good d'.
Proof.
  induction ops as [|o ops IH]; intros d d' Hd Ha H; simpl in H.
  - now inversion H; subst.
  - inversion Ha; subst. destruct (step all_off d o) as [d1|] eqn:E; [|discriminate].
    apply (IH d1 d'); [exact (step_good d o d1 Hd H2 E)|assumption|exact H].
Qed.

(* datasets built by the harness (New + Add ...) are good whenever all their arguments are *)
Lemma build_good ops : Forall arg_good ops -> Good (build ops).
Proof.
  intro Ha. unfold build. destruct (run all_off empty_dset ops) as [d|] eqn:E; [|apply good_empty].
  eapply run_good; [apply good_empty|exact Ha|exact E].
Qed.

(* -- the two readings of the invariant *)
Lemma good_rect d : Good d ->
  forall o ob, In (o, ob) (store d) -> length (orows ob) = num_obs d.
Proof.
  intros [Hl Hs] o ob Hin. rewrite Forall_forall in Hs. specialize (Hs _ Hin). simpl in Hs.
  rewrite (obj_ok_length _ _ Hs). exact Hl.
Qed.

Lemma Forall2_nth_error A B (R : A -> B -> Prop) l1 l2 :
  Forall2 R l1 l2 -> forall k a, nth_error l1 k = Some a -> exists b, nth_error l2 k = Some b /\ R a b.
Proof.
  induction 1 as [|x y l1 l2 Hxy H IH]; intros k a Hk.
  - destruct k; discriminate.
  - destruct k; simpl in *.
    + inversion Hk; subst. exists y. now split.
    + now apply IH.
Qed.

Lemma good_aligned d : Good d ->
  forall o ob k c, In (o, ob) (store d) -> nth_error (orows ob) k = Some c ->
  exists r, nth_error (rowids d) k = Some r /\ (cgid c = None \/ cgid c = Some r).
Proof.
  intros [Hl Hs] o ob k c Hin Hk. rewrite Forall_forall in Hs. specialize (Hs _ Hin). simpl in Hs.
  exact (Forall2_nth_error _ _ _ _ _ Hs k c Hk).
Qed.

(* ------------------------------------------------------------------ subset *)
Lemma subset_idx_spec d ix d' :
  step all_off d (SubsetIdx ix) = Some d' ->
  (forall i, In i ix -> i < num_obs d) /\
  num_obs d' = length ix /\ rowids d' = take 0%Z ix (rowids d) /\ fields d' = fields d /\
  (forall o ob, In (o, ob) (store d) -> In (o, set_rows ob (take fillcell_d ix (orows ob))) (store d')).
Proof.
  intro H0. apply step_step0 in H0. destruct H0 as [H0 _]. revert H0.
  simpl. destruct (forallb (fun i => Nat.ltb i (num_obs d)) ix) eqn:E; [|discriminate].
  intro H. inversion H; subst; clear H. split; [|repeat split].
  - intros i Hi. rewrite forallb_forall in E. specialize (E i Hi). now apply Nat.ltb_lt.
  - intros o ob Hin. simpl. apply in_map_iff. exists (o, ob). now split.
Qed.

Lemma subset_mask_as_idx d m :
  length m = num_obs d -> step all_off d (SubsetMask m) = step all_off d (SubsetIdx (mask_idx m)).
Proof.
  intro H. unfold step. simpl. rewrite H, Nat.eqb_refl.
  assert (E : forallb (fun i => Nat.ltb i (num_obs d)) (mask_idx m) = true).
  { apply forallb_forall. intros i Hi. apply Nat.ltb_lt. rewrite <- H. now apply mask_idx_in_range. }
  now rewrite E.
Qed.

Lemma subset_mask_wrong_length d m : length m <> num_obs d -> step all_off d (SubsetMask m) = None.
Proof. intro H. unfold step. simpl. apply Nat.eqb_neq in H. now rewrite H. Qed.

(* ------------------------------------------------------------------ extend *)
Lemma sequence_map_In A B (f : A -> option B) l r x :
  sequence (map f l) = Some r -> In x l -> exists y, f x = Some y /\ In y r.
Proof.
  revert r. induction l as [|a l IH]; intros r H Hin; [destruct Hin|].
  simpl in H. destruct (f a) as [b|] eqn:Ea; [|discriminate].
  destruct (sequence (map f l)) as [xs|] eqn:Es; [|discriminate]. inversion H; subst.
  destruct Hin as [->|Hin].
  - exists b. split; [assumption|now left].
  - destruct (IH xs eq_refl Hin) as [y [Hy Hin']]. exists y. split; [assumption|now right].
Qed.

Definition paired_with (d o : dset) (a : nat) : option nat :=
  match find (fun ab => Nat.eqb (fst ab) a) (all_pairs d o) with Some ab => Some (snd ab) | None => None end.

Lemma extend_spec_lemma d o d' :
  extend all_off d o = Some d' ->
  num_obs d' = num_obs d + num_obs o /\ rowids d' = rowids d ++ rowids o /\
  (forall a oa, In (a, oa) (store d) ->
     exists oa', In (a, oa') (store d') /\
       match paired_with d o a with
       | None => orows oa' = orows oa ++ repeat (mkCell None (fill_payload (okind oa) (otwo oa) (owidth oa))) (num_obs o)
       | Some b => exists ob, lookup b (store o) = Some ob /\
            (if Nat.eqb (num_obs d) 0 then orows oa' = orows ob /\ ounit oa' = ounit ob
             else exists fs, factors oa ob = Some fs /\ ounit oa' = ounit oa /\
                             orows oa' = orows oa ++ map (conv (okind oa) fs) (orows ob))
       end) /\
  (forall b ob, In (b, ob) (store o) ->
     existsb (fun ab => Nat.eqb (snd ab) b) (all_pairs d o) = false ->
     exists a' ob', In (a', ob') (store d') /\
       orows ob' = repeat (mkCell None (fill_payload (okind ob) (otwo ob) (owidth ob))) (num_obs d) ++ orows ob).
Proof.
  intro H. unfold extend in H.
  destruct (negb (one_to_one (all_pairs d o))); [discriminate|].
  match type of H with match sequence ?m with _ => _ end = _ => destruct (sequence m) as [st1|] eqn:Eseq end; [|discriminate].
  inversion H; subst; clear H. simpl. split; [reflexivity|]. split; [reflexivity|]. split.
  - intros a oa Hin.
    destruct (sequence_map_In _ _ _ _ _ _ Eseq Hin) as [y [Hy Hiny]]. simpl in Hy.
    unfold paired_with.
    destruct (find (fun ab => Nat.eqb (fst ab) a) (all_pairs d o)) as [ab|].
    + destruct (lookup (snd ab) (store o)) as [ob|] eqn:El; [|discriminate].
      destruct (merge_obj (num_obs d) oa ob _) as [o'|] eqn:Em; [|discriminate].
      simpl in Hy. inversion Hy; subst; clear Hy.
      exists o'. split; [apply in_or_app; now left|].
      exists ob. split; [reflexivity|].
      unfold merge_obj in Em. destruct (Nat.eqb (num_obs d) 0).
      * inversion Em; subst. now split.
      * destruct (kind_eqb (okind oa) (okind ob) && Bool.eqb (otwo oa) (otwo ob) && _); [|discriminate].
        destruct (factors oa ob) as [fs|]; [|discriminate]. inversion Em; subst. exists fs. now repeat split.
    + inversion Hy; subst; clear Hy.
      exists (append_fill (num_obs o) oa). split; [apply in_or_app; now left|]. reflexivity.
  - intros b ob Hin Hun.
    eexists. eexists. split.
    + apply in_or_app. right. apply in_map_iff. exists (b, ob). split; [reflexivity|].
      apply filter_In. split; [exact Hin|]. simpl. now rewrite Hun.
    + reflexivity.
Qed.

(* ------------------------------------------------------------------ the sort key order *)
Lemma dy_leb_total a b : dy_leb a b = true \/ dy_leb b a = true.
Proof.
  unfold dy_leb. destruct (dy_rank a) as [ca qa], (dy_rank b) as [cb qb].
  destruct (Z.lt_trichotomy ca cb) as [H|[H|H]].
  - left. apply orb_true_iff. left. now apply Z.ltb_lt.
  - subst. rewrite Z.eqb_refl. simpl. destruct (Qlt_le_dec qb qa) as [Hq|Hq].
    + right. apply orb_true_iff. right. apply Qle_bool_iff. now apply Qlt_le_weak.
    + left. apply orb_true_iff. right. now apply Qle_bool_iff.
  - right. apply orb_true_iff. left. now apply Z.ltb_lt.
Qed.

Lemma dy_leb_trans a b c : dy_leb a b = true -> dy_leb b c = true -> dy_leb a c = true.
Proof.
  unfold dy_leb. destruct (dy_rank a) as [ca qa], (dy_rank b) as [cb qb], (dy_rank c) as [cc qc].
  intros H1 H2. apply orb_true_iff in H1. apply orb_true_iff in H2. apply orb_true_iff.
  destruct H1 as [H1|H1], H2 as [H2|H2].
  - left. apply Z.ltb_lt in H1. apply Z.ltb_lt in H2. apply Z.ltb_lt. lia.
  - apply andb_true_iff in H2. destruct H2 as [H2 _]. apply Z.eqb_eq in H2. subst. now left.
  - apply andb_true_iff in H1. destruct H1 as [H1 _]. apply Z.eqb_eq in H1. subst. now left.
  - apply andb_true_iff in H1. apply andb_true_iff in H2. destruct H1 as [H1 Q1], H2 as [H2 Q2].
    apply Z.eqb_eq in H1. apply Z.eqb_eq in H2. subst. right. rewrite Z.eqb_refl. simpl.
    apply Qle_bool_iff in Q1. apply Qle_bool_iff in Q2. apply Qle_bool_iff. eapply Qle_trans; eauto.
Qed.

Lemma sort_by_spec d p d' :
  sort_by d p = Some d' ->
  exists keys, sort_keys d p = Some keys /\
    let sorted := isort dy_leb (enumerate keys) in
    d' = take_all (map snd sorted) d /\
    Permutation (enumerate keys) sorted /\
    Permutation (seq 0 (length keys)) (map snd sorted) /\
    StronglySorted (fun a b => dy_leb a b = true) (map fst sorted) /\
    (forall k, sel dy_leb k sorted = sel dy_leb k (enumerate keys)).
Proof.
  unfold sort_by. destruct (sort_keys d p) as [keys|]; [|discriminate].
  intro H. inversion H; subst; clear H. exists keys. split; [reflexivity|]. simpl.
  split; [reflexivity|]. split; [apply isort_perm|]. split; [apply stable_argsort_perm|].
  split; [apply isort_keys_sorted; [apply dy_leb_total|apply dy_leb_trans]|].
  intro k. apply isort_stable; [apply dy_leb_total|apply dy_leb_trans].
Qed.

(* a sorted, stable rearrangement of the (key, position) pairs is unique: whatever stable sorting
   algorithm the implementation uses, it has to return this permutation.  Shown here in the form
   "two lists with the same stable selections for every key that are both sorted by key are equal"
   for keys with Leibniz-decidable equivalence classes is not needed: we state the weaker,
   directly usable fact that the model's answer has the three defining properties (sort_by_spec). *)

(* ------------------------------------------------------------------ shared objects *)
Lemma take_all_shared ix d o ob :
  In (o, ob) (store d) ->
  In (o, take_obj ix ob) (store (take_all ix d)) /\
  fields (take_all ix d) = fields d /\ orefs (take_obj ix ob) = orefs ob /\
  orows (take_obj ix ob) = take fillcell_d ix (orows ob).
Proof.
  intro H. repeat split. simpl. apply in_map_iff. exists (o, ob). now split.
Qed.

Lemma lookup_map_snd A (f : A -> A) k l :
  lookup k (map (fun x => (fst x, f (snd x))) l) = option_map f (lookup k l).
Proof.
  induction l as [|[k' v] l IH]; simpl; [reflexivity|]. destruct (Nat.eqb k k'); [reflexivity|exact IH].
Qed.

(* what any reference (a field name or an attribute of an object) resolves to after a subset / sort:
   the same object identity, whose rows were selected exactly once *)
Lemma take_all_lookup ix d o :
  lookup o (store (take_all ix d)) = option_map (take_obj ix) (lookup o (store d)).
Proof. simpl. apply lookup_map_snd. Qed.

(* ------------------------------------------------------------------ deviations refuted *)
Definition rect_b (d : dset) : bool :=
  forallb (fun x => Nat.eqb (length (orows (snd x))) (num_obs d)) (store d).

Definition w_subset_sum : list op :=
  [New 3 0%Z; Add "f" KFloat false 1 None [PNum [Dy 1 0]; PNum [Dy 1 1]; PNum [Dy 3 0]] []; SubsetIdx [2; 2]].

Lemma subset_sum_refuted :
  (exists d, run (mkQ true false) empty_dset w_subset_sum = Some d /\ rect_b d = false) /\
  (exists d, run all_off empty_dset w_subset_sum = Some d /\ rect_b d = true).
Proof. split; eexists; split; vm_compute; reflexivity. Qed.

Definition w_attr_fill : list op :=
  [New 2 0%Z;
   Add "rid" KFloat false 1 None [PNum [Dy 1 0]; PNum [Dy 1 1]] [];
   Add "site" KPos false 1 None [PNum [Dy 1 0; Dy 1 0; Dy 1 0]; PNum [Dy 1 1; Dy 1 1; Dy 1 1]]
       [("other", TNew KPos [PNum [Dy 3 0; Dy 3 0; Dy 3 0]; PNum [Dy 5 0; Dy 5 0; Dy 5 0]])];
   Extend (build [New 3 10%Z; Add "rid" KFloat false 1 None [PNum [Dy 5 1]; PNum [Dy 11 0]; PNum [Dy 3 2]] []])].

Lemma attr_fill_refuted :
  (exists d, run (mkQ false true) empty_dset w_attr_fill = Some d /\ rect_b d = false) /\
  (exists d, run all_off empty_dset w_attr_fill = Some d /\ rect_b d = true).
Proof. split; eexists; split; vm_compute; reflexivity. Qed.

(* numpy 2.5 `np.argsort([0,1,2,0,1,2,0,1])` (default kind) on this machine *)
Definition w_keys : list dy := [DZero false; Dy 1 0; Dy 1 1; DZero false; Dy 1 0; Dy 1 1; DZero false; Dy 1 0].
Definition w_numpy_perm : list nat := [0; 3; 6; 1; 7; 4; 2; 5].

Lemma unstable_sort_refuted :
  Permutation (seq 0 8) w_numpy_perm /\
  StronglySorted (fun a b => dy_leb a b = true) (take DNaN w_numpy_perm w_keys) /\
  stable_argsort dy_leb w_keys = [0; 3; 6; 1; 4; 7; 2; 5] /\
  w_numpy_perm <> stable_argsort dy_leb w_keys.
Proof.
  split; [|split; [|split]].
  - apply NoDup_Permutation; [apply seq_NoDup|repeat constructor; simpl; intuition discriminate|].
    intro x. split; intro H.
    + apply in_seq in H. simpl. lia.
    + simpl in H. apply in_seq. lia.
  - vm_compute. repeat (constructor; [|repeat constructor; reflexivity]). constructor.
  - vm_compute. reflexivity.
  - vm_compute. discriminate.
Qed.

(* ------------------------------------------------------------------ statements of Props/C09.v that need more than `exact` *)
Lemma rect_all_histories_l : forall ops d,
  Forall arg_good ops -> run all_off empty_dset ops = Some d ->
  length (rowids d) = num_obs d /\
  (forall o ob, In (o, ob) (store d) -> length (orows ob) = num_obs d) /\
  (forall p ob, field_obj d p = Some ob -> length (orows ob) = num_obs d) /\
  (forall p ob attr r ob', field_obj d p = Some ob -> In (attr, r) (orefs ob) ->
      lookup r (store d) = Some ob' -> length (orows ob') = num_obs d).
Proof.
  intros ops d Ha H. pose proof (run_good ops empty_dset d good_empty Ha H) as G.
  split; [exact (proj1 G)|]. split; [exact (good_rect d G)|]. split.
  - intros p ob Hf. unfold field_obj in Hf. destruct (slookup p (fields d)); [|discriminate].
    apply lookup_In in Hf. exact (good_rect d G _ _ Hf).
  - intros p ob attr r ob' _ _ Hl. apply lookup_In in Hl. exact (good_rect d G _ _ Hl).
Qed.

Lemma row_aligned_l : forall ops d,
  Forall arg_good ops -> run all_off empty_dset ops = Some d ->
  forall o ob k c, In (o, ob) (store d) -> nth_error (orows ob) k = Some c ->
  exists r, nth_error (rowids d) k = Some r /\ (cgid c = None \/ cgid c = Some r).
Proof.
  intros ops d Ha H. exact (good_aligned d (run_good ops empty_dset d good_empty Ha H)).
Qed.

Lemma subset_mask_keeps_order_l : forall d m,
  (length m = num_obs d -> step all_off d (SubsetMask m) = step all_off d (SubsetIdx (mask_idx m))) /\
  (length m <> num_obs d -> step all_off d (SubsetMask m) = None) /\
  (forall i, In i (mask_idx m) <-> nth i m false = true) /\
  StronglySorted lt (mask_idx m) /\ length (mask_idx m) = count_true m.
Proof.
  intros d m. split; [exact (subset_mask_as_idx d m)|]. split; [exact (subset_mask_wrong_length d m)|].
  split; [exact (mask_idx_spec m)|]. split; [exact (mask_idx_sorted m)|exact (mask_idx_length m)].
Qed.

Lemma merge_sort_spec_l : forall d os p d',
  merge all_off d os (Some p) = Some d' ->
  exists d1 keys, extend_all all_off d os = Some d1 /\ sort_keys d1 p = Some keys /\
    let sorted := isort dy_leb (enumerate keys) in
    d' = take_all (map snd sorted) d1 /\
    Permutation (enumerate keys) sorted /\
    Permutation (seq 0 (length keys)) (map snd sorted) /\
    StronglySorted (fun a b => dy_leb a b = true) (map fst sorted) /\
    (forall k, sel dy_leb k sorted = sel dy_leb k (enumerate keys)).
Proof.
  intros d os p d' H. unfold merge in H. destruct (extend_all all_off d os) as [d1|]; [|discriminate].
  destruct (sort_by_spec d1 p d' H) as [keys [Hk Hs]]. exists d1, keys. split; [reflexivity|]. split; assumption.
Qed.

Lemma difference_spec_l : forall (K : Type) (eqb : K -> K -> bool),
  (forall x y, eqb x y = true <-> x = y) ->
  forall (a b : list K) (dflt : K),
  NoDup (common eqb a b) /\
  (forall t, In t (common eqb a b) <-> In t a /\ In t b) /\
  (forall t, In t (common eqb a b) ->
     nth (first_index eqb t a) a dflt = t /\ first_index eqb t a < length a /\
     nth (first_index eqb t b) b dflt = t /\ first_index eqb t b < length b /\
     (forall k, k < first_index eqb t a -> nth k a dflt <> t) /\
     (forall k, k < first_index eqb t b -> nth k b dflt <> t)).
Proof.
  intros K eqb He a b dflt. split; [exact (common_NoDup eqb He a b)|]. split; [exact (common_spec eqb He a b)|].
  intros t Ht. apply (common_spec eqb He) in Ht. destruct Ht as [Ha Hb].
  destruct (first_index_nth eqb He t a dflt Ha) as [H1 H2]. destruct (first_index_nth eqb He t b dflt Hb) as [H3 H4].
  repeat split; try assumption.
  - intros k Hk. exact (@first_index_first K eqb He t a dflt k Hk).
  - intros k Hk. exact (@first_index_first K eqb He t b dflt k Hk).
Qed.

Lemma shared_reference_once_partial_l : forall ix d o,
  lookup o (store (take_all ix d)) = option_map (take_obj ix) (lookup o (store d)) /\
  fields (take_all ix d) = fields d /\
  (forall ob, orefs (take_obj ix ob) = orefs ob /\ orows (take_obj ix ob) = take fillcell_d ix (orows ob)).
Proof.
  intros ix d o. split; [exact (take_all_lookup ix d o)|]. split; [reflexivity|]. intro ob. split; reflexivity.
Qed.


(* ------------------------------------------------------------------ the key cells of difference: Leibniz equality *)
Lemma list_eqb_eq A (e : A -> A -> bool) :
  (forall x y, e x y = true <-> x = y) -> forall a b, list_eqb e a b = true <-> a = b.
Proof.
  intros He a. induction a as [|x a IH]; intros [|y b]; simpl; split; intro H; try reflexivity; try discriminate.
  - apply andb_prop in H. destruct H as [H1 H2]. apply He in H1. apply IH in H2. now subst.
  - inversion H; subst. apply andb_true_intro. split; [now apply He|now apply IH].
Qed.

Lemma dy_eqb_iff x y : dy_eqb x y = true <-> x = y.
Proof. split; [apply dy_eqb_eq|intros ->; apply dy_eqb_refl]. Qed.

Lemma bool_eqb_iff x y : Bool.eqb x y = true <-> x = y.
Proof. split; [apply eqb_prop|intros ->; apply eqb_reflx]. Qed.

Lemma payload_eqb_eq a b : payload_eqb a b = true <-> a = b.
Proof.
  destruct a as [x|x|x], b as [y|y|y]; simpl; try (split; intro H; discriminate).
  - rewrite (list_eqb_eq _ dy_eqb dy_eqb_iff). split; [now intros ->|now inversion 1].
  - rewrite (list_eqb_eq _ String.eqb String.eqb_eq). split; [now intros ->|now inversion 1].
  - rewrite (list_eqb_eq _ Bool.eqb bool_eqb_iff). split; [now intros ->|now inversion 1].
Qed.

Lemma tuple_eqb_eq a b : tuple_eqb a b = true <-> a = b.
Proof. apply list_eqb_eq. exact payload_eqb_eq. Qed.

(* difference(index_by = ps): row sidx[k] of self and row oidx[k] of other carry the same index tuple cm[k]; the
   tuples cm are exactly the tuples occurring in both datasets, each once, each paired at its first occurrence *)
Lemma diff_sel_spec d o p ps sidx oidx :
  diff_sel d o (p :: ps) = Some (sidx, oidx) ->
  exists ks ko cm,
    index_keys d (p :: ps) = Some ks /\ index_keys o (p :: ps) = Some ko /\
    NoDup cm /\ (forall t, In t cm <-> In t ks /\ In t ko) /\
    sidx = map (fun t => first_index tuple_eqb t ks) cm /\
    oidx = map (fun t => first_index tuple_eqb t ko) cm /\
    (forall t, In t cm ->
       nth (first_index tuple_eqb t ks) ks [] = t /\ first_index tuple_eqb t ks < length ks /\
       nth (first_index tuple_eqb t ko) ko [] = t /\ first_index tuple_eqb t ko < length ko /\
       (forall k, k < first_index tuple_eqb t ks -> nth k ks [] <> t) /\
       (forall k, k < first_index tuple_eqb t ko -> nth k ko [] <> t)).
Proof.
  unfold diff_sel. destruct (index_keys d (p :: ps)) as [ks|]; [|discriminate].
  destruct (index_keys o (p :: ps)) as [ko|]; [|discriminate].
  intro H. inversion H; subst; clear H.
  set (cm := map fst (isort tuple_leb (enumerate (common tuple_eqb ks ko)))).
  assert (Hp : Permutation (common tuple_eqb ks ko) cm).
  { unfold cm. rewrite <- (enumerate_fst (common tuple_eqb ks ko)) at 1.
    apply Permutation_map. apply isort_perm. }
  assert (Hin : forall t, In t cm <-> In t ks /\ In t ko).
  { intro t. rewrite <- (common_spec tuple_eqb tuple_eqb_eq ks ko t). split; intro Ht.
    - eapply Permutation_in; [apply Permutation_sym; exact Hp|exact Ht].
    - eapply Permutation_in; [exact Hp|exact Ht]. }
  exists ks, ko, cm.
  split; [reflexivity|]. split; [reflexivity|].
  split; [eapply Permutation_NoDup; [exact Hp|]; apply (common_NoDup tuple_eqb tuple_eqb_eq)|].
  split; [exact Hin|]. split; [reflexivity|]. split; [reflexivity|].
  intros t Ht. apply Hin in Ht. destruct Ht as [Ha Hb].
  destruct (first_index_nth tuple_eqb tuple_eqb_eq t ks [] Ha) as [H1 H2].
  destruct (first_index_nth tuple_eqb tuple_eqb_eq t ko [] Hb) as [H3 H4].
  split; [exact H1|]. split; [exact H2|]. split; [exact H3|]. split; [exact H4|]. split.
  - intros k Hk. exact (@first_index_first _ tuple_eqb tuple_eqb_eq t ks [] k Hk).
  - intros k Hk. exact (@first_index_first _ tuple_eqb tuple_eqb_eq t ko [] k Hk).
Qed.

(* ------------------------------------------------------------------ the stable sort is unique *)
Lemma merge_sort_unique_l keys s :
  StronglySorted (le_pair dy_leb) s ->
  (forall k, sel dy_leb k s = sel dy_leb k (enumerate keys)) ->
  s = isort dy_leb (enumerate keys) /\ map snd s = stable_argsort dy_leb keys.
Proof.
  intros Ss Hs. assert (E : s = isort dy_leb (enumerate keys)).
  { apply isort_unique; [apply dy_leb_total|apply dy_leb_trans|assumption|assumption]. }
  split; [exact E|]. now rewrite E.
Qed.

(* ------------------------------------------------------------------ the memo walk *)
Section Walk.
  Variable f : nat -> obj -> obj.
  Variable old : list (nat * obj).

  Definition dom (w : wst) : list nat := map fst (wmemo w).

  Definition ref_ok (w : wst) (ar r : string * nat) : Prop := fst r = fst ar /\ In (snd ar, snd r) (wmemo w).

  Definition Inv (w : wst) : Prop :=
    NoDup (dom w) /\
    (forall o n, In (o, n) (wmemo w) -> n < wnext w) /\
    (forall n ob, In (n, ob) (wnew w) -> n < wnext w) /\
    NoDup (map snd (wmemo w)) /\
    NoDup (map fst (wnew w)) /\
    (forall o n, In (o, n) (wmemo w) ->
       exists ob rs, lookup o old = Some ob /\ In (n, set_refs (f o ob) rs) (wnew w) /\
                     Forall2 (ref_ok w) (orefs ob) rs).

  Definition Ext (w w' : wst) : Prop :=
    incl (wmemo w) (wmemo w') /\ incl (wnew w) (wnew w') /\ wnext w <= wnext w'.

  Definition Keeps (path : list nat) (w w' : wst) : Prop :=
    forall p, In p path -> ~ In p (dom w) -> ~ In p (dom w').

  Lemma Ext_refl w : Ext w w.
  Proof. repeat split; auto using incl_refl. Qed.

  Lemma Ext_trans a b c : Ext a b -> Ext b c -> Ext a c.
  Proof. intros [A1 [A2 A3]] [B1 [B2 B3]]. repeat split; eauto using incl_tran. lia. Qed.

  Lemma ref_ok_ext w w' rl rs : Ext w w' -> Forall2 (ref_ok w) rl rs -> Forall2 (ref_ok w') rl rs.
  Proof.
    intros [E _] H. eapply Forall2_impl; [|exact H]. intros a b [H1 H2]. split; [assumption|now apply E].
  Qed.

  Lemma lookup_None_notin A k (l : list (nat * A)) : lookup k l = None -> ~ In k (map fst l).
  Proof.
    induction l as [|[k' v] l IH]; simpl; [tauto|]. destruct (Nat.eqb k k') eqn:E; [discriminate|].
    apply Nat.eqb_neq in E. intros H [Hc|Hc]; [congruence|now apply IH].
  Qed.

  (* what one (recursive) call must guarantee *)
  Definition Good_rec (path : list nat) (rec : wst -> nat -> option (wst * nat)) : Prop :=
    forall w o w' n, Inv w -> rec w o = Some (w', n) ->
      Inv w' /\ Ext w w' /\ In (o, n) (wmemo w') /\ Keeps path w w'.

  Lemma walk_list_ok path rec : Good_rec path rec ->
    forall rl w w' rs, Inv w -> walk_list rec rl w = Some (w', rs) ->
      Inv w' /\ Ext w w' /\ Forall2 (ref_ok w') rl rs /\ Keeps path w w'.
  Proof.
    intros Hrec rl. induction rl as [|ar rl IH]; intros w w' rs Hi H; simpl in H.
    - inversion H; subst. split; [exact Hi|]. split; [apply Ext_refl|]. split; [constructor|].
      intros p _ Hp; exact Hp.
    - destruct (rec w (snd ar)) as [[w1 n]|] eqn:E1; [|discriminate].
      destruct (walk_list rec rl w1) as [[w2 rs']|] eqn:E2; [|discriminate].
      inversion H; subst; clear H.
      destruct (Hrec _ _ _ _ Hi E1) as [Hi1 [X1 [In1 K1]]].
      destruct (IH _ _ _ Hi1 E2) as [Hi2 [X2 [F2 K2]]].
      split; [exact Hi2|]. split; [eapply Ext_trans; eauto|]. split.
      + constructor; [|exact F2]. split; [reflexivity|]. simpl. destruct X2 as [X2 _]. now apply X2.
      + intros p Hp Hn. apply (K2 p Hp). now apply (K1 p Hp).
  Qed.

  Lemma walk_ok fuel : forall path, Good_rec path (walk fuel f old path).
  Proof.
    induction fuel as [|fu IH]; intros path w o w' n Hi H; simpl in H; [discriminate|].
    destruct (lookup o (wmemo w)) as [m|] eqn:El.
    - inversion H; subst. split; [exact Hi|]. split; [apply Ext_refl|]. split; [now apply lookup_In|].
      intros p _ Hp; exact Hp.
    - destruct (existsb (Nat.eqb o) path) eqn:Ep; [discriminate|].
      destruct (lookup o old) as [ob|] eqn:Eo; [|discriminate].
      destruct (walk_list (walk fu f old (o :: path)) (orefs ob) w) as [[w1 rs]|] eqn:Ew; [|discriminate].
      inversion H; subst; clear H.
      destruct (walk_list_ok (o :: path) _ (IH (o :: path)) _ _ _ _ Hi Ew) as [Hi1 [X1 [F1 K1]]].
      assert (Hno : ~ In o (dom w1)).
      { apply (K1 o); [now left|]. now apply lookup_None_notin. }
      destruct Hi1 as [N1 [B1 [B2 [N2 [N3 C1]]]]].
      set (wf := mkW ((o, wnext w1) :: wmemo w1) ((wnext w1, set_refs (f o ob) rs) :: wnew w1) (S (wnext w1))).
      assert (Xf : Ext w1 wf). { repeat split; simpl; auto using incl_tl, incl_refl. }
      split; [|split; [|split]].
      + split; [|split; [|split; [|split; [|split]]]]; simpl.
        * constructor; assumption.
        * intros o' n' [Heq|Hin]; [inversion Heq; lia|]. specialize (B1 _ _ Hin). lia.
        * intros n' ob' [Heq|Hin]; [inversion Heq; lia|]. specialize (B2 _ _ Hin). lia.
        * constructor; [|assumption]. intro Hc. apply in_map_iff in Hc. destruct Hc as [[o' n'] [Hn Hin]].
          simpl in Hn. subst n'. specialize (B1 _ _ Hin). lia.
        * constructor; [|assumption]. intro Hc. apply in_map_iff in Hc. destruct Hc as [[n' ob'] [Hn Hin]].
          simpl in Hn. subst n'. specialize (B2 _ _ Hin). lia.
        * intros o' n' [Heq|Hin].
          -- inversion Heq; subst. exists ob, rs. split; [assumption|]. split; [now left|].
             eapply ref_ok_ext; [exact Xf|exact F1].
          -- destruct (C1 _ _ Hin) as [ob' [rs' [L1 [L2 L3]]]]. exists ob', rs'.
             split; [assumption|]. split; [now right|]. eapply ref_ok_ext; [exact Xf|exact L3].
      + eapply Ext_trans; [exact X1|exact Xf].
      + simpl. now left.
      + intros p Hp Hn. simpl. intros [Heq|Hc].
        * subst p. assert (Ht : existsb (Nat.eqb o) path = true).
          { apply existsb_exists. exists o. split; [assumption|apply Nat.eqb_refl]. }
          congruence.
        * revert Hc. apply (K1 p); [now right|assumption].
  Qed.
End Walk.

Lemma Inv_init f old nx : Inv f old (mkW [] [] nx).
Proof.
  unfold Inv, dom. simpl. repeat split; try constructor; intros; contradiction.
Qed.

Lemma walk_fields_ok f old fuel fl w w' fs :
  Inv f old w -> walk_fields fuel f old fl w = Some (w', fs) ->
  Inv f old w' /\ Ext w w' /\ Forall2 (ref_ok w') fl fs.
Proof.
  intros Hi H. unfold walk_fields in H.
  destruct (walk_list_ok f old [] _ (walk_ok f old fuel []) fl w w' fs Hi H) as [A [B [C _]]].
  split; [exact A|]. split; [exact B|exact C].
Qed.

Lemma NoDup_fst_functional A B (l : list (A * B)) a b1 b2 :
  NoDup (map fst l) -> In (a, b1) l -> In (a, b2) l -> b1 = b2.
Proof.
  induction l as [|[x y] l IH]; simpl; [tauto|]. intros Hn H1 H2. inversion Hn; subst.
  destruct H1 as [H1|H1], H2 as [H2|H2].
  - congruence.
  - inversion H1; subst. exfalso. apply H3. apply in_map_iff. now exists (a, b2).
  - inversion H2; subst. exfalso. apply H3. apply in_map_iff. now exists (a, b1).
  - now apply IH.
Qed.

Lemma NoDup_snd_injective A B (l : list (A * B)) a1 a2 b :
  NoDup (map snd l) -> In (a1, b) l -> In (a2, b) l -> a1 = a2.
Proof.
  induction l as [|[x y] l IH]; simpl; [tauto|]. intros Hn H1 H2. inversion Hn; subst.
  destruct H1 as [H1|H1], H2 as [H2|H2].
  - congruence.
  - inversion H1; subst. exfalso. apply H3. apply in_map_iff. now exists (a2, b).
  - inversion H2; subst. exfalso. apply H3. apply in_map_iff. now exists (a1, b).
  - now apply IH.
Qed.

Lemma In_NoDup_lookup A k (v : A) l : NoDup (map fst l) -> In (k, v) l -> lookup k l = Some v.
Proof.
  induction l as [|[k' v'] l IH]; simpl; [tauto|]. intros Hn [H|H]; inversion Hn; subst.
  - inversion H; subst. now rewrite Nat.eqb_refl.
  - destruct (Nat.eqb k k') eqn:E; [|now apply IH].
    apply Nat.eqb_eq in E. subst. exfalso. apply H2. apply in_map_iff. now exists (k', v).
Qed.

(* Dataset.subset / sort as the code performs it, with the memo: every object reached from a field is transformed
   exactly once, and whatever named one object before names one object afterwards *)
Lemma shared_reference_once_l d ix d' :
  subset_walk d ix = Some d' ->
  num_obs d' = length ix /\ rowids d' = take 0%Z ix (rowids d) /\
  exists memo : list (nat * nat),
    Forall2 (fun pf qf => fst qf = fst pf /\ In (snd pf, snd qf) memo) (fields d) (fields d') /\
    (forall o n1 n2, In (o, n1) memo -> In (o, n2) memo -> n1 = n2) /\
    (forall o1 o2 n, In (o1, n) memo -> In (o2, n) memo -> o1 = o2) /\
    NoDup (map fst (store d')) /\
    (forall o n, In (o, n) memo ->
       exists ob rs, lookup o (store d) = Some ob /\
                     lookup n (store d') = Some (set_refs (take_obj ix ob) rs) /\
                     Forall2 (fun ar r => fst r = fst ar /\ In (snd ar, snd r) memo) (orefs ob) rs).
Proof.
  unfold subset_walk. intro H.
  destruct (walk_fields (S (length (store d))) (fun _ => take_obj ix) (store d) (fields d) (mkW [] [] (next d)))
    as [[w fs]|] eqn:E; [|discriminate].
  inversion H; subst; clear H. simpl. split; [reflexivity|]. split; [reflexivity|].
  destruct (walk_fields_ok _ _ _ _ _ _ _ (Inv_init (fun _ => take_obj ix) (store d) (next d)) E) as [Hi [_ Hf]].
  destruct Hi as [N1 [_ [_ [N2 [N3 C]]]]].
  exists (wmemo w). split; [exact Hf|]. split.
  - intros o n1 n2. now apply NoDup_fst_functional.
  - split; [intros o1 o2 n; now apply NoDup_snd_injective|]. split; [exact N3|].
    intros o n Hin. destruct (C _ _ Hin) as [ob [rs [L1 [L2 L3]]]]. exists ob, rs.
    split; [assumption|]. split; [now apply In_NoDup_lookup|exact L3].
Qed.

(* the early return of append_empty(0) loses sharing; looking the field up in the memo keeps it *)
Definition w_sharing : dset :=
  build [New 2 0%Z;
         Add "sat" KPos false 1 None [PNum [Dy 1 0; Dy 1 0; Dy 1 0]; PNum [Dy 1 1; Dy 1 1; Dy 1 1]] [];
         Add "site" KPos false 1 None [PNum [Dy 3 0; Dy 3 0; Dy 3 0]; PNum [Dy 5 0; Dy 5 0; Dy 5 0]] [("other", TField "sat")]].

Lemma sharing_lost_refuted :
  ref_is_field w_sharing "site" "other" "sat" = true /\
  (exists d, extend_empty_walk true w_sharing ["site"] = Some d /\ ref_is_field d "site" "other" "sat" = false) /\
  (exists d, extend_empty_walk false w_sharing ["site"] = Some d /\ ref_is_field d "site" "other" "sat" = true).
Proof. split; [vm_compute; reflexivity|]. split; eexists; split; vm_compute; reflexivity. Qed.

(* ------------------------------------------------------------------ collections *)
Lemma coll_len_cases d c : Good d -> coll_len d c = num_obs d \/ coll_len d c = 0.
Proof.
  intro G. unfold coll_len. destruct (find (fun pf => is_under c (fst pf)) (fields d)) as [pf|]; [|now right].
  destruct (lookup (snd pf) (store d)) as [ob|] eqn:E; [|now right].
  left. apply lookup_In in E. exact (good_rect d G _ _ E).
Qed.

Lemma coll_len_no_fields d c : (forall pf, In pf (fields d) -> is_under c (fst pf) = false) -> coll_len d c = 0.
Proof.
  intro H. unfold coll_len. destruct (find (fun pf => is_under c (fst pf)) (fields d)) as [pf|] eqn:E; [|reflexivity].
  apply find_some in E. destruct E as [E1 E2]. rewrite (H _ E1) in E2. discriminate.
Qed.

Lemma collections_in_histories_l ops d :
  Forall arg_good ops -> run all_off empty_dset ops = Some d ->
  forall c, (coll_len d c = num_obs d \/ coll_len d c = 0) /\
            ((forall pf, In pf (fields d) -> is_under c (fst pf) = false) -> coll_len d c = 0).
Proof.
  intros Ha H c. split; [apply coll_len_cases; exact (run_good ops empty_dset d good_empty Ha H)|apply coll_len_no_fields].
Qed.

Lemma add_collection_spec_l d p d' :
  step all_off d (AddColl p) = Some d' ->
  num_obs d' = num_obs d /\ rowids d' = rowids d /\ store d' = store d /\ fields d' = fields d /\
  existsb (String.eqb p) (colls d) = false.
Proof.
  intro H0. apply step_step0 in H0. destruct H0 as [H0 _]. revert H0.
  simpl. destruct (existsb (String.eqb p) (colls d)) eqn:E; [discriminate|].
  destruct (slookup p (fields d)); simpl; [discriminate|]. intro H. inversion H; subst. simpl. now repeat split.
Qed.

Lemma slookup_filter_out A p (l : list (string * A)) :
  slookup p (filter (fun pf => negb (String.eqb (fst pf) p)) l) = None.
Proof.
  induction l as [|[k v] l IH]; simpl; [reflexivity|].
  destruct (String.eqb k p) eqn:E; simpl; [exact IH|].
  rewrite String.eqb_sym in E. now rewrite E.
Qed.

Lemma del_keeps_collections_l d p d' :
  step all_off d (Del p) = Some d' ->
  num_obs d' = num_obs d /\ store d' = store d /\ colls d' = colls d /\ slookup p (fields d') = None.
Proof.
  intro H0. apply step_step0 in H0. destruct H0 as [H0 _]. revert H0.
  simpl. destruct (slookup p (fields d)); [|discriminate]. intro H. inversion H; subst. simpl.
  repeat split. apply slookup_filter_out.
Qed.

(* ------------------------------------------------------------------ the walk terminates on well-formed stores *)
Definition dstep (dp : nat -> option nat) (acc : option nat) (ar : string * nat) : option nat :=
  match acc, dp (snd ar) with Some m, Some k => Some (Nat.max m (S k)) | _, _ => None end.

Lemma depth_unfold f st o :
  depth (S f) st o = match lookup o st with
                     | None => None
                     | Some ob => fold_left (dstep (depth f st)) (orefs ob) (Some 0)
                     end.
Proof. reflexivity. Qed.

Lemma fold_dstep_None dp l : fold_left (dstep dp) l None = None.
Proof. induction l; simpl; auto. Qed.

Lemma dstep_Some dp m x :
  dstep dp (Some m) x = match dp (snd x) with Some k => Some (Nat.max m (S k)) | None => None end.
Proof. reflexivity. Qed.

(* the fold succeeds iff every reference has a depth, and the result bounds them *)
Lemma fold_dstep_Some dp l : forall m k,
  fold_left (dstep dp) l (Some m) = Some k ->
  m <= k /\ forall ar, In ar l -> exists kr, dp (snd ar) = Some kr /\ kr < k.
Proof.
  induction l as [|x l IH]; intros m k H; cbn [fold_left] in H.
  - inversion H; subst. split; [lia|intros ar []].
  - rewrite dstep_Some in H. destruct (dp (snd x)) as [kx|] eqn:Ex; [|now rewrite fold_dstep_None in H].
    destruct (IH _ _ H) as [Hm Hl]. split; [lia|].
    intros ar [<-|Hin]; [exists kx; split; [assumption|lia]|auto].
Qed.

Lemma fold_dstep_ext dp1 dp2 l : forall acc,
  (forall ar k, In ar l -> dp1 (snd ar) = Some k -> dp2 (snd ar) = Some k) ->
  forall k, fold_left (dstep dp1) l acc = Some k -> fold_left (dstep dp2) l acc = Some k.
Proof.
  induction l as [|x l IH]; intros acc H k Hk; cbn [fold_left] in *; [exact Hk|].
  destruct acc as [m|]; [|change (dstep dp1 None x) with (@None nat) in Hk; now rewrite fold_dstep_None in Hk].
  rewrite dstep_Some in Hk. rewrite dstep_Some.
  destruct (dp1 (snd x)) as [kx|] eqn:Ex; [|now rewrite fold_dstep_None in Hk].
  rewrite (H x kx (or_introl eq_refl) Ex). apply IH; [|exact Hk]. intros ar k' Hin. apply H. now right.
Qed.

Lemma depth_mono st : forall f o k, depth f st o = Some k -> depth (S f) st o = Some k.
Proof.
  induction f as [|f IH]; intros o k H; [discriminate|].
  rewrite depth_unfold in H. rewrite depth_unfold.
  destruct (lookup o st) as [ob|]; [|discriminate].
  eapply fold_dstep_ext; [|exact H]. intros ar k' _. apply IH.
Qed.

Lemma depth_refs F st o k :
  depth (S F) st o = Some k ->
  exists ob, lookup o st = Some ob /\
             forall ar, In ar (orefs ob) -> exists kr, depth (S F) st (snd ar) = Some kr /\ kr < k.
Proof.
  rewrite depth_unfold. destruct (lookup o st) as [ob|]; [|discriminate]. intro H.
  exists ob. split; [reflexivity|]. destruct (fold_dstep_Some _ _ _ _ H) as [_ Hl].
  intros ar Hin. destruct (Hl ar Hin) as [kr [H1 H2]]. exists kr. split; [now apply depth_mono|assumption].
Qed.

Section WalkTerminates.
  Variable f : nat -> obj -> obj.
  Variable st : list (nat * obj).
  Variable F : nat.

  Definition deeper (k : nat) (path : list nat) : Prop :=
    forall p, In p path -> exists kp, depth (S F) st p = Some kp /\ k < kp.

  Lemma walk_list_total (rec : wst -> nat -> option (wst * nat)) rl :
    (forall ar, In ar rl -> forall w, exists w' n, rec w (snd ar) = Some (w', n)) ->
    forall w, exists w' rs, walk_list rec rl w = Some (w', rs).
  Proof.
    induction rl as [|ar rl IH]; intros H w; simpl; [eauto|].
    destruct (H ar (or_introl eq_refl) w) as [w1 [n E1]]. rewrite E1.
    destruct (IH (fun a Ha => H a (or_intror Ha)) w1) as [w2 [rs E2]]. rewrite E2. eauto.
  Qed.

  Lemma walk_total : forall k fuel o path w,
    k < fuel -> depth (S F) st o = Some k -> deeper k path ->
    exists w' n, walk fuel f st path w o = Some (w', n).
  Proof.
    induction k as [k IH] using lt_wf_ind. intros fuel o path w Hf Hd Hp.
    destruct fuel as [|fu]; [lia|]. simpl.
    destruct (lookup o (wmemo w)) as [m|]; [eauto|].
    assert (Ep : existsb (Nat.eqb o) path = false).
    { destruct (existsb (Nat.eqb o) path) eqn:E; [|reflexivity].
      apply existsb_exists in E. destruct E as [p [Hin He]]. apply Nat.eqb_eq in He. subst p.
      destruct (Hp o Hin) as [kp [H1 H2]]. rewrite Hd in H1. inversion H1. lia. }
    rewrite Ep. destruct (depth_refs _ _ _ _ Hd) as [ob [El Hr]]. rewrite El.
    assert (Hl : forall w0, exists w' rs, walk_list (walk fu f st (o :: path)) (orefs ob) w0 = Some (w', rs)).
    { apply walk_list_total. intros ar Hin w0. destruct (Hr ar Hin) as [kr [H1 H2]].
      apply (IH kr H2 fu (snd ar) (o :: path) w0); [lia|exact H1|].
      intros p [<-|Hin']; [exists k; split; [assumption|lia]|].
      destruct (Hp p Hin') as [kp [H3 H4]]. exists kp. split; [assumption|lia]. }
    destruct (Hl w) as [w1 [rs E]]. rewrite E. eauto.
  Qed.
End WalkTerminates.

Lemma depth_lt_fuel st : forall f o k, depth f st o = Some k -> k < f.
Proof.
  induction f as [|f IH]; intros o k H; [discriminate|].
  rewrite depth_unfold in H. destruct (lookup o st) as [ob|]; [|discriminate].
  assert (G : forall l m k', fold_left (dstep (depth f st)) l (Some m) = Some k' -> m <= f -> k' <= f).
  { induction l as [|x l IHl]; intros m k' Hk Hm; cbn [fold_left] in Hk; [inversion Hk; lia|].
    rewrite dstep_Some in Hk. destruct (depth f st (snd x)) as [kx|] eqn:Ex; [|now rewrite fold_dstep_None in Hk].
    apply (IHl _ _ Hk). apply IH in Ex. lia. }
  specialize (G _ _ _ H). lia.
Qed.

Lemma wf_store_depth st o ob :
  wf_store st = true -> In (o, ob) st -> exists k, depth (S (length st)) st o = Some k /\ k < S (length st).
Proof.
  unfold wf_store. intros H Hin. apply andb_prop in H. destruct H as [_ H].
  rewrite forallb_forall in H. specialize (H _ Hin). cbn [fst] in H.
  destruct (depth (S (length st)) st o) as [k|] eqn:E; [|discriminate].
  exists k. split; [reflexivity|]. exact (depth_lt_fuel _ _ _ _ E).
Qed.

Lemma subset_walk_total d ix : wf_dset d = true -> exists d', subset_walk d ix = Some d'.
Proof.
  unfold wf_dset. intro H. apply andb_prop in H. destruct H as [Hs Hf]. rewrite forallb_forall in Hf.
  unfold subset_walk, walk_fields.
  destruct (walk_list_total (walk (S (length (store d))) (fun _ => take_obj ix) (store d) []) (fields d)) with
      (w := mkW [] [] (next d)) as [w' [fs E]].
  - intros pf Hin w. specialize (Hf _ Hin). destruct (lookup (snd pf) (store d)) as [ob|] eqn:El; [|discriminate].
    apply lookup_In in El. destruct (wf_store_depth _ _ _ Hs El) as [k [Hk Hlt]].
    apply (walk_total (fun _ => take_obj ix) (store d) (length (store d)) k); [exact Hlt|exact Hk|intros p []].
  - rewrite E. eauto.
Qed.

Lemma run_wf q ops : forall d0 d, wf_dset d0 = true -> run q d0 ops = Some d -> wf_dset d = true.
Proof.
  induction ops as [|o ops IH]; intros d0 d H0 H; simpl in H.
  - now inversion H; subst.
  - destruct (step q d0 o) as [d1|] eqn:E; [|discriminate].
    apply step_step0 in E. destruct E as [_ E]. exact (IH d1 d E H).
Qed.

(* the walk of subset / sort terminates on every state any operation list reaches *)
Lemma walk_terminates_l ops d ix :
  run all_off empty_dset ops = Some d -> exists d', subset_walk d ix = Some d'.
Proof. intro H. apply subset_walk_total. exact (run_wf all_off ops empty_dset d eq_refl H). Qed.

(* reachable states: unique identities, every field and reference names an object of the store, no cycle *)
Lemma reachable_wf_l ops d :
  run all_off empty_dset ops = Some d ->
  wf_dset d = true /\
  (forall o ob, In (o, ob) (store d) -> forall ar, In ar (orefs ob) ->
     exists ob' k k', lookup (snd ar) (store d) = Some ob' /\
        depth (S (length (store d))) (store d) o = Some k /\
        depth (S (length (store d))) (store d) (snd ar) = Some k' /\ k' < k).
Proof.
  intro H. pose proof (run_wf all_off ops empty_dset d eq_refl H) as W. split; [exact W|].
  unfold wf_dset in W. apply andb_prop in W. destruct W as [Ws _].
  intros o ob Hin ar Har. destruct (wf_store_depth _ _ _ Ws Hin) as [k [Hk _]].
  destruct (depth_refs _ _ _ _ Hk) as [ob0 [El Hr]].
  assert (ob0 = ob).
  { unfold wf_store in Ws. apply andb_prop in Ws. destruct Ws as [Wn _].
    assert (Hl : lookup o (store d) = Some ob).
    { apply In_NoDup_lookup; [|exact Hin]. clear -Wn. induction (map fst (store d)) as [|x l IH]; [constructor|].
      simpl in Wn. apply andb_prop in Wn. destruct Wn as [W1 W2]. constructor; [|now apply IH].
      intro Hc. apply negb_true_iff in W1. assert (existsb (Nat.eqb x) l = true); [|congruence].
      apply existsb_exists. exists x. split; [assumption|apply Nat.eqb_refl]. }
    congruence. }
  subst ob0. destruct (Hr ar Har) as [kr [H1 H2]].
  destruct (depth_refs _ _ _ _ H1) as [ob' [El' _]]. exists ob', k, kr. now repeat split.
Qed.

(* ------------------------------------------------------------------ extend through the memo *)
Lemma shared_reference_once_extend_l d o d' :
  extend_walk d o = Some d' ->
  exists g xrows fl nx (memo : list (nat * nat)),
    ext_graph d o = Some (g, xrows, fl, nx) /\
    num_obs d' = num_obs d + num_obs o /\ rowids d' = rowids d ++ rowids o /\
    Forall2 (fun pf qf => fst qf = fst pf /\ In (snd pf, snd qf) memo) fl (fields d') /\
    (forall a n1 n2, In (a, n1) memo -> In (a, n2) memo -> n1 = n2) /\
    (forall a1 a2 n, In (a1, n) memo -> In (a2, n) memo -> a1 = a2) /\
    NoDup (map fst (store d')) /\
    (forall a n, In (a, n) memo ->
       exists ob rs, lookup a g = Some ob /\
                     lookup n (store d') = Some (set_refs (xrows a ob) rs) /\
                     Forall2 (fun ar r => fst r = fst ar /\ In (snd ar, snd r) memo) (orefs ob) rs).
Proof.
  unfold extend_walk. destruct (ext_graph d o) as [[[[g xrows] fl] nx]|] eqn:Eg; [|discriminate].
  destruct (walk_fields (S (length g)) xrows g fl (mkW [] [] nx)) as [[w fs]|] eqn:E; [|discriminate].
  intro H. inversion H; subst; clear H. simpl.
  destruct (walk_fields_ok _ _ _ _ _ _ _ (Inv_init xrows g nx) E) as [Hi [_ Hf]].
  destruct Hi as [N1 [_ [_ [N2 [N3 C]]]]].
  exists g, xrows, fl, nx, (wmemo w). split; [reflexivity|]. split; [reflexivity|]. split; [reflexivity|].
  split; [exact Hf|]. split; [intros a n1 n2; now apply NoDup_fst_functional|].
  split; [intros a1 a2 n; now apply NoDup_snd_injective|]. split; [exact N3|].
  intros a n Hin. destruct (C _ _ Hin) as [ob [rs [L1 [L2 L3]]]]. exists ob, rs.
  split; [assumption|]. split; [now apply In_NoDup_lookup|exact L3].
Qed.

(* what the walk builds for an object: fill appended / prepended for objects without a partner *)
Lemma ext_graph_fill d o g xrows fl nx id ob :
  ext_graph d o = Some (g, xrows, fl, nx) ->
  find (fun ab => Nat.eqb (fst ab) id) (all_pairs d o) = None ->
  orows (xrows id ob) =
    if existsb (fun x => Nat.eqb (fst x) id) (store d)
    then orows ob ++ fill_rows (num_obs o) ob else fill_rows (num_obs d) ob ++ orows ob.
Proof.
  unfold ext_graph. destruct (extend all_off d o); [|discriminate]. intro H. inversion H; subst; clear H.
  intro Hf. cbv beta. rewrite Hf. destruct (existsb (fun x => Nat.eqb (fst x) id) (store d)); reflexivity.
Qed.

(* ------------------------------------------------------------------ filter(idx=mask, ...) *)
Lemma map2_andb_narrows : forall (m l : list bool) k, nth k (map2 andb m l) false = true -> nth k m false = true.
Proof.
  induction m as [|a m IH]; intros [|b l] k H; simpl in *; try (destruct k; discriminate).
  destruct k; simpl in *; [now apply andb_prop in H|eauto].
Qed.

Lemma filter_from_narrows d cs : forall start r,
  fold_left (fun acc c =>
    match acc, field_obj d (fst c) with
    | Some m, Some ob => if otwo ob then None else Some (map2 andb m (map (fun r => value_eqb (cval r) (snd c)) (orows ob)))
    | _, _ => None
    end) cs (Some start) = Some r ->
  forall k, nth k r false = true -> nth k start false = true.
Proof.
  induction cs as [|c cs IH]; intros start r H k Hk; simpl in H.
  - now inversion H; subst.
  - destruct (field_obj d (fst c)) as [ob|].
    + destruct (otwo ob).
      * clear -H. exfalso. induction cs; simpl in H; [discriminate|auto].
      * eapply map2_andb_narrows. eapply IH; eauto.
    + clear -H. exfalso. induction cs; simpl in H; [discriminate|auto].
Qed.

(* filter(idx=mask, ...) is a query: the dataset is unchanged, the answer selects only rows the caller's mask
   selects, without conditions it is the caller's mask, and a mask of the wrong length is refused *)
Lemma filter_idx_spec_l d idx cs :
  (forall d', step all_off d (FilterIdx idx cs) = Some d' -> d' = d) /\
  (forall r, filter_mask_from d idx cs = Some r ->
     length idx = num_obs d /\ forall k, nth k r false = true -> nth k idx false = true) /\
  (length idx = num_obs d -> filter_mask_from d idx [] = Some idx) /\
  (length idx <> num_obs d -> filter_mask_from d idx cs = None).
Proof.
  split; [|split; [|split]].
  - intros d' H. apply step_step0 in H. destruct H as [H _]. simpl in H. now inversion H.
  - intros r H. unfold filter_mask_from in H. destruct (Nat.eqb (length idx) (num_obs d)) eqn:E; [|discriminate].
    simpl in H. apply Nat.eqb_eq in E. split; [exact E|]. exact (filter_from_narrows d cs idx r H).
  - intro H. unfold filter_mask_from. apply Nat.eqb_eq in H. now rewrite H.
  - intro H. unfold filter_mask_from. apply Nat.eqb_neq in H. now rewrite H.
Qed.
