(* C05 - the unconditional statement for the tree under test: its regenerated hand-over table
   (Gen/C05_EllipsoidFlow.forwarding_table, rebuilt from midgard/data/_position.py on every run) forwards everywhere.
   This file stops compiling as soon as a constructor call site drops the ellipsoid / the reference position. *)
From Coq Require Import List String Bool.
From Verif Require Import Gen.C05_EllipsoidFlow Model.C05_Flow Proofs.C05_Flow.
Import ListNotations.

Lemma forwarding_table_all_true_l : table_all_true forwarding_table = true.
Proof. vm_compute. reflexivity. Qed.

Lemma ellipsoid_preserved_today_l : forall dflt ops s,
  snd (run forwarding_table dflt ops s) = snd s
  /\ Forall (fun t => t = snd s) (tags_along (step forwarding_table dflt) s ops).
Proof.
  intros dflt ops s. split.
  - apply ellipsoid_preserved_l. exact forwarding_table_all_true_l.
  - apply ellipsoid_preserved_everywhere_l. exact forwarding_table_all_true_l.
Qed.

(* every site of the table is used by some operation of the model (the model leaves no site unexamined) *)
Lemma every_site_modelled_l :
  forallb (fun e => existsb (String.eqb (fst e)) model_sites) forwarding_table = true.
Proof. vm_compute. reflexivity. Qed.
