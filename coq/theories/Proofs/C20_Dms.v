(* C20 / DMS - proofs: the round trip for every rational angle, ranges of the components, uniqueness of
   the well-formed decomposition, and the refutation of the sign_of_value quirk. *)
From Coq Require Import ZArith QArith Qabs Qround Bool List Lia Lqa.
From Verif Require Import Lib.Dyadic Model.C20_Units Model.C20_Dms.
Open Scope Q_scope.

Lemma qfrac_range q : 0 <= qfrac q /\ qfrac q < 1.
Proof.
  unfold qfrac. pose proof (Qfloor_le q). pose proof (Qlt_floor q).
  rewrite inject_Z_plus in H0. change (inject_Z 1) with 1 in H0. split; lra.
Qed.

Lemma floor_plus_frac q : inject_Z (Qfloor q) + qfrac q == q.
Proof. unfold qfrac. ring. Qed.

Lemma Qfloor_nonneg q : 0 <= q -> (0 <= Qfloor q)%Z.
Proof.
  intros H. change 0%Z with (Qfloor 0). apply Qfloor_resp_le. exact H.
Qed.

Lemma Qlt_b_true a b : Qlt_b a b = true <-> a < b.
Proof.
  unfold Qlt_b. rewrite negb_true_iff. split.
  - intros H. destruct (Qlt_le_dec a b); [assumption|]. apply Qle_bool_iff in q. congruence.
  - intros H. destruct (Qle_bool b a) eqn:E; [|reflexivity]. apply Qle_bool_iff in E. lra.
Qed.

Lemma Qlt_b_false a b : Qlt_b a b = false <-> b <= a.
Proof.
  unfold Qlt_b. rewrite negb_false_iff. apply Qle_bool_iff.
Qed.

Lemma to_dms_value x :
  inject_Z (Z.abs (ddeg (to_dms x))) + inject_Z (dmin (to_dms x)) * (1 # 60) + dsec (to_dms x) * (1 # 3600) == Qabs x.
Proof.
  unfold to_dms. cbn [ddeg dmin dsec].
  rewrite Z.abs_eq by (apply Qfloor_nonneg, Qabs_nonneg).
  set (a := Qabs x). set (m := qfrac a * 60).
  pose proof (floor_plus_frac a) as Ha. pose proof (floor_plus_frac m) as Hm.
  assert (E : inject_Z (Qfloor m) * (1 # 60) + qfrac m * 60 * (1 # 3600) == qfrac a).
  { transitivity ((inject_Z (Qfloor m) + qfrac m) * (1 # 60)); [ring|]. rewrite Hm. unfold m. ring. }
  rewrite <- Ha at 2. rewrite <- E. ring.
Qed.

Lemma dms_roundtrip_l x : from_dms false (to_dms x) == x.
Proof.
  unfold from_dms. rewrite to_dms_value.
  unfold to_dms. cbn [dneg].
  destruct (Qlt_b x 0) eqn:S.
  - apply Qlt_b_true in S. rewrite Qabs_neg by lra. ring.
  - apply Qlt_b_false in S. rewrite Qabs_pos by lra. ring.
Qed.

Lemma to_dms_wf x : dms_wf (to_dms x).
Proof.
  unfold dms_wf, to_dms. cbn [ddeg dmin dsec].
  set (a := Qabs x). set (m := qfrac a * 60).
  pose proof (qfrac_range a) as [A0 A1]. pose proof (qfrac_range m) as [M0 M1].
  assert (Hm0 : 0 <= m) by (unfold m; lra).
  assert (Hm1 : m < 60) by (unfold m; lra).
  split; [apply Qfloor_nonneg, Qabs_nonneg|]. split; [split|split].
  - apply Qfloor_nonneg. exact Hm0.
  - pose proof (Qfloor_le m) as F.
    assert (L : inject_Z (Qfloor m) < inject_Z 60) by (change (inject_Z 60) with 60; lra).
    rewrite <- Zlt_Qlt in L. exact L.
  - lra.
  - lra.
Qed.

(* negative angles below one degree: the degree component is (minus) zero, the sign survives *)
Lemma to_dms_small_negative x : -1 < x -> x < 0 ->
  dneg (to_dms x) = true /\ ddeg (to_dms x) = 0%Z /\ from_dms false (to_dms x) == x.
Proof.
  intros H1 H0. split; [|split].
  - unfold to_dms. cbn [dneg]. apply Qlt_b_true. exact H0.
  - unfold to_dms. cbn [ddeg]. rewrite Qabs_neg by lra.
    assert (A : (0 <= Qfloor (- x))%Z) by (apply Qfloor_nonneg; lra).
    assert (B : (Qfloor (- x) < 1)%Z).
    { rewrite Zlt_Qlt. pose proof (Qfloor_le (- x)). change (inject_Z 1) with 1. lra. }
    lia.
  - apply dms_roundtrip_l.
Qed.

(* uniqueness: a well-formed (sign, deg, min, sec) is what to_dms returns for its value *)
Lemma Qfloor_unique q z : inject_Z z <= q -> q < inject_Z z + 1 -> Qfloor q = z.
Proof.
  intros L U. pose proof (Qfloor_le q) as F1. pose proof (Qlt_floor q) as F2.
  rewrite inject_Z_plus in F2. change (inject_Z 1) with 1 in F2.
  assert (A : (Qfloor q < z + 1)%Z).
  { rewrite Zlt_Qlt, inject_Z_plus. change (inject_Z 1) with 1. lra. }
  assert (B : (z < Qfloor q + 1)%Z).
  { rewrite Zlt_Qlt, inject_Z_plus. change (inject_Z 1) with 1. lra. }
  lia.
Qed.

Lemma to_dms_from_dms d : dms_wf d -> (dneg d = true -> ~ from_dms false d == 0) ->
  let t := to_dms (from_dms false d) in
  dneg t = dneg d /\ ddeg t = ddeg d /\ dmin t = dmin d /\ dsec t == dsec d.
Proof.
  intros [Hd [[Hm0 Hm1] [Hs0 Hs1]]] Hz.
  set (mag := inject_Z (Z.abs (ddeg d)) + inject_Z (dmin d) * (1 # 60) + dsec d * (1 # 3600)).
  assert (Hmag : mag == inject_Z (ddeg d) + (inject_Z (dmin d) + dsec d * (1 # 60)) * (1 # 60)).
  { unfold mag. rewrite Z.abs_eq by exact Hd. ring. }
  assert (M0 : 0 <= inject_Z (dmin d)) by (change 0 with (inject_Z 0); rewrite <- Zle_Qle; exact Hm0).
  assert (M1 : inject_Z (dmin d) <= 59).
  { change 59 with (inject_Z 59). rewrite <- Zle_Qle. lia. }
  assert (D0 : 0 <= inject_Z (ddeg d)) by (change 0 with (inject_Z 0); rewrite <- Zle_Qle; exact Hd).
  assert (Hmag0 : 0 <= mag) by (rewrite Hmag; lra).
  assert (Habs : Qabs (from_dms false d) == mag).
  { unfold from_dms. fold mag. destruct (dneg d).
    - rewrite Qabs_neg by lra. ring.
    - rewrite Qabs_pos by lra. ring. }
  assert (Hfl : Qfloor (Qabs (from_dms false d)) = ddeg d).
  { apply Qfloor_unique; rewrite Habs, Hmag; lra. }
  assert (Hfr : qfrac (Qabs (from_dms false d)) * 60 == inject_Z (dmin d) + dsec d * (1 # 60)).
  { unfold qfrac. rewrite Hfl, Habs, Hmag. ring. }
  assert (Hfm : Qfloor (qfrac (Qabs (from_dms false d)) * 60) = dmin d).
  { apply Qfloor_unique; rewrite Hfr; lra. }
  cbv zeta. unfold to_dms. cbn [dneg ddeg dmin dsec].
  split; [|split; [exact Hfl|split; [exact Hfm|]]].
  - destruct (dneg d) eqn:N.
    + apply Qlt_b_true. specialize (Hz eq_refl).
      unfold from_dms in *. rewrite N in *. fold mag in Hz |- *. lra.
    + apply Qlt_b_false. unfold from_dms. rewrite N. fold mag. lra.
  - unfold qfrac at 1. rewrite Hfm, Hfr. ring.
Qed.

(* the quirk is refuted by -0 deg 20' *)
Lemma sign_of_value_refuted_l : ~ from_dms true (to_dms (-1 # 3)) == (-1 # 3).
Proof. vm_compute. discriminate. Qed.

Lemma sign_of_value_agrees_outside x : 1 <= Qabs x -> from_dms true (to_dms x) == x.
Proof.
  intros H. rewrite <- (dms_roundtrip_l x) at 2. unfold from_dms.
  assert (F : (1 <= Qfloor (Qabs x))%Z).
  { change 1%Z with (Qfloor 1). apply Qfloor_resp_le. exact H. }
  unfold to_dms at 1 5. cbn [ddeg]. destruct (Qfloor (Qabs x) =? 0)%Z eqn:E; [apply Z.eqb_eq in E; lia|].
  reflexivity.
Qed.

(* ------------------------------------------------------------------ radian API, over R *)
From Coq Require Import Reals Lra.
Open Scope R_scope.

Lemma Int_part_nonneg x : 0 <= x -> (0 <= Int_part x)%Z.
Proof.
  intros H. destruct (base_fp x) as [F0 F1]. unfold frac_part in *.
  assert (L : IZR (-1) < IZR (Int_part x)) by (simpl; lra).
  apply lt_IZR in L. lia.
Qed.

Lemma int_frac x : IZR (Int_part x) + frac_part x = x.
Proof. unfold frac_part. ring. Qed.

Lemma rad_deg_nonneg r : 0 <= Rabs r * (180 / PI).
Proof.
  apply Rmult_le_pos; [apply Rabs_pos|]. pose proof PI_RGT_0.
  apply Rlt_le, Rdiv_lt_0_compat; lra.
Qed.

Lemma dms_roundtrip_rad_l r : dms_to_radR (rad_to_dmsR r) = r.
Proof.
  unfold dms_to_radR, rad_to_dmsR. cbn [rneg rdeg rmin rsec].
  set (d := Rabs r * (180 / PI)). set (m := frac_part d * 60).
  rewrite Z.abs_eq by (apply Int_part_nonneg, rad_deg_nonneg).
  assert (E : IZR (Int_part d) + IZR (Int_part m) * (1 / 60) + frac_part m * 60 * (1 / 3600) = d).
  { pose proof (int_frac d) as Ed. pose proof (int_frac m) as Em.
    assert (Hm : m = frac_part d * 60) by reflexivity. clearbody m. lra. }
  rewrite E. unfold d. pose proof PI_RGT_0.
  destruct (Rlt_dec r 0) as [L|L].
  - rewrite Rabs_left by exact L. field. lra.
  - rewrite Rabs_right by lra. field. lra.
Qed.

Lemma rad_to_dms_range r :
  (0 <= rdeg (rad_to_dmsR r))%Z /\ (0 <= rmin (rad_to_dmsR r) < 60)%Z /\ 0 <= rsec (rad_to_dmsR r) < 60.
Proof.
  unfold rad_to_dmsR. cbn [rdeg rmin rsec].
  set (d := Rabs r * (180 / PI)). set (m := frac_part d * 60).
  destruct (base_fp d) as [D0 D1]. destruct (base_fp m) as [M0 M1].
  assert (Hm : 0 <= m < 60) by (unfold m; lra).
  split; [apply Int_part_nonneg, rad_deg_nonneg|]. split; [split|lra].
  - apply Int_part_nonneg. lra.
  - pose proof (int_frac m) as E. assert (L : IZR (Int_part m) < IZR 60) by (simpl; lra).
    apply lt_IZR in L. exact L.
Qed.

(* negative angles below one degree (in radians: above -PI/180) *)
Lemma rad_to_dms_small_negative r : - (PI / 180) < r -> r < 0 ->
  rneg (rad_to_dmsR r) = true /\ rdeg (rad_to_dmsR r) = 0%Z /\ dms_to_radR (rad_to_dmsR r) = r.
Proof.
  intros H1 H0. split; [|split; [|apply dms_roundtrip_rad_l]].
  - unfold rad_to_dmsR. cbn [rneg]. destruct (Rlt_dec r 0); [reflexivity|contradiction].
  - unfold rad_to_dmsR. cbn [rdeg]. set (d := Rabs r * (180 / PI)).
    pose proof PI_RGT_0.
    assert (Hd : 0 <= d < 1).
    { split; [apply rad_deg_nonneg|]. unfold d. rewrite Rabs_left by exact H0.
      apply (Rmult_lt_reg_r (PI / 180)); [lra|]. replace (- r * (180 / PI) * (PI / 180)) with (- r) by (field; lra). lra. }
    destruct (base_fp d) as [D0 D1]. unfold frac_part in *.
    assert (A : IZR (-1) < IZR (Int_part d)) by (simpl; lra).
    assert (B : IZR (Int_part d) < IZR 1) by (simpl; lra).
    apply lt_IZR in A. apply lt_IZR in B. lia.
Qed.
