(* Proofs/C11_Body2.v - RINEX 2: satellites of an epoch, epochs of a file, header, whole-file theorem *)
From Coq Require Import Ascii String List Bool ZArith QArith Arith Lia.
From Verif Require Import Lib.Text Lib.Decimal Lib.Fixed Lib.Dyadic Model.C11_Rinex Model.C11_Check
     Spec.C11_RinexFormat Spec.C11_RinexFile Proofs.C11_Rinex Proofs.C11_File3 Proofs.C11_Hdr3 Proofs.C11_Hdr2 Proofs.C11_File2 Proofs.C11_Extras.
Import ListNotations.
Local Open Scope nat_scope.
Local Open Scope string_scope.

Notation step2 rate := (v2_line spec_q rate G2.obs_table).

Definition satnum (id : string) : Z := match parse_int (drop 1 (fix3 id)) with Some z => z | None => 0%Z end.
Lemma satnum_ok id : sat2_id_ok id -> parse_int (drop 1 (fix3 id)) = Some (satnum id).
Proof. intros H. destruct (idf_num _ (sat2_id_facts id H)) as [z E]. unfold satnum. rewrite E. reflexivity. Qed.

Definition row2 (e : einfo) (mk : string) (types : list string) (sa : sat2) : row :=
  row2_of e (fix3 (s2_id sa)) (satnum (s2_id sa)) mk types (map cell_val (s2_cells sa)).

Lemma first_line_obs cut cells : Forall cell_wf cells -> cells <> [] ->
  exists l tl, render_obs_v2 cut cells = l :: tl /\ v2_end_marker (l ++ nlc) = false.
Proof.
  intros F Ne. pose proof (chunk_lines cut cells F) as C.
  destruct (render_obs_v2 cut cells) as [|l tl] eqn:E.
  - exfalso. apply (f_equal (@List.length _)) in E. unfold render_obs_v2 in E. rewrite map_length, chunks_count in E by apply le_n.
    destruct cells as [|x r]; [contradiction|]. cbn [List.length] in E.
    pose proof (Nat.div_mod (S (List.length r) + 4) 5 ltac:(lia)). pose proof (Nat.mod_upper_bound (S (List.length r) + 4) 5 ltac:(lia)).
    simpl (List.length []) in E. lia.
  - exists l, tl. split; [reflexivity|]. apply Forall_cons_iff in C. destruct C as [[cut' [c1 [r [Fc El]]]] _]. rewrite El.
    apply obs_not_marker, Fc.
Qed.

Section Body2.
  Variable rate : option Q.
  Variables (Y fmo fd fh fmi : Z) (fsec : Q).
  Hypothesis HY : (1000 <= Y < 10000)%Z.
  Variable mk : string.
  Variable types : list string.
  Hypothesis Tne : types <> [].

  Definition inv2 (s : st) : Prop :=
    inv2_meta Y fmo fd fh fmi fsec s /\ meta_str "marker_name" s = Some mk /\
    num_types s = Some (Z.of_nat (List.length types)) /\ types_all s = types.

  Lemma inv2_add_rows rs : forall s, inv2 s -> inv2 (add_rows s rs).
  Proof. induction rs; intros s H; [exact H|]. apply IHrs. exact H. Qed.

  Lemma cells_ne (sa : sat2) : sat2_ok (List.length types) sa -> s2_cells sa <> [].
  Proof. intros [_ [L _]] E. rewrite E in L. destruct types; [contradiction|discriminate]. Qed.

  (* all satellites of an epoch that is kept *)
  Lemma sats_run2 e q : e_sec e = Some q -> forall sats s c tail,
    inv2 s -> c_epoch c = Some e -> e_num_sat e = Z.of_nat (c_len c) ->
    c_sats c = Some (map fix3 (map s2_id sats)) -> c_acc c = [] -> Forall (sat2_ok (List.length types)) sats -> sats <> [] ->
    run_obs (step2 rate) v2_end_marker (concat (map render_sat_v2 sats) ++ tail) s c =
    cont2 (step2 rate) v2_end_marker tail (add_rows s (map (row2 e mk types) sats))
          {| c_epoch := Some e; c_sats := Some []; c_len := c_len c; c_acc := [] |}.
  Proof.
    intros Es. induction sats as [|sa r IH]; intros s c tail I Ce Cn Cs Ca F Ne; [contradiction|].
    apply Forall_cons_iff in F. destruct F as [Fa Fr]. pose proof (cells_ne sa Fa) as Cne. destruct Fa as [Hid [Lc Fc]].
    destruct I as [I1 [I2 [I3 I4]]]. cbn [map concat] in *. unfold render_sat_v2 at 1. rewrite <- List.app_assoc.
    assert (Lt : List.length (types_all s) = List.length (s2_cells sa)) by (rewrite I4; symmetry; exact Lc).
    assert (Nt : num_types s = Some (Z.of_nat (List.length (s2_cells sa)))) by (rewrite Lc; exact I3).
    rewrite (sat_record_v2 rate e q (fix3 (s2_id sa)) (map fix3 (map s2_id r)) (satnum (s2_id sa)) mk (s2_cut sa) (s2_cells sa) s c
               (concat (map render_sat_v2 r) ++ tail)%list Es (satnum_ok _ Hid) Fc Cne Lt Ce Cn Nt Cs Ca I2).
    rewrite I4. fold (row2 e mk types sa). rewrite Ce.
    set (s1 := add_row s (row2 e mk types sa)).
    set (c1 := {| c_epoch := Some e; c_sats := Some (map fix3 (map s2_id r)); c_len := c_len c; c_acc := [] |}).
    destruct r as [|sb r'].
    - cbn [map concat app add_rows fold_left]. reflexivity.
    - assert (Fb : sat2_ok (List.length types) sb) by (inversion Fr; assumption).
      destruct (first_line_obs (s2_cut sb) (s2_cells sb) (proj2 (proj2 Fb)) (cells_ne sb Fb)) as [l [tl [El Em]]].
      assert (K : cont2 (step2 rate) v2_end_marker (concat (map render_sat_v2 (sb :: r')) ++ tail) s1 c1
                  = run_obs (step2 rate) v2_end_marker (concat (map render_sat_v2 (sb :: r')) ++ tail) s1 c1).
      { cbn [map concat]. unfold render_sat_v2 at 1 3. rewrite El. cbn [app cont2]. rewrite Em. reflexivity. }
      rewrite K. rewrite (IH s1 c1 tail (conj I1 (conj I2 (conj I3 I4))) eq_refl Cn eq_refl eq_refl Fr ltac:(discriminate)).
      cbn [map add_rows fold_left c1 c_len]. reflexivity.
  Qed.

  (* all observation lines of an epoch that is decimated away: nothing changes *)
  Lemma skip_lines e : e_sec e = None -> forall lines s c tail x xs,
    Forall is_chunk_line lines -> lines <> [] -> c_epoch c = Some e -> c_sats c = Some (x :: xs) ->
    run_obs (step2 rate) v2_end_marker (lines ++ tail) s c = cont2 (step2 rate) v2_end_marker tail s c.
  Proof.
    intros Es. induction lines as [|l ls IH]; intros s c tail x xs F Ne Ce Cs; [contradiction|].
    apply Forall_cons_iff in F. destruct F as [[cut [c1 [r [Fc El]]]] Fls].
    assert (St : step2 rate l s c = Some (s, c)).
    { rewrite El, (v2_obs_line rate cut c1 r s c x xs Fc Cs). unfold obs_cells. rewrite Ce, Es. reflexivity. }
    cbn [app]. rewrite (run_obs_cons _ _ _ _ _ _ _ _ St). destruct ls as [|l2 ls'].
    - reflexivity.
    - assert (Hl2 : is_chunk_line l2) by (inversion Fls; assumption). destruct Hl2 as [cut2 [d1 [r2 [Fd E2]]]].
      assert (Em : v2_end_marker (l2 ++ nlc) = false) by (rewrite E2; apply obs_not_marker, Fd).
      cbn [app cont2]. rewrite Em.
      apply (IH s c tail x xs Fls ltac:(discriminate) Ce Cs).
  Qed.

  Definition einfo_of2 (e : epoch2) : einfo := einfo2 rate (e2_t e) (Z.of_nat (List.length (e2_sats e))).
  Definition epoch_rows2 (e : epoch2) : list row :=
    match e_sec (einfo_of2 e) with Some _ => map (row2 (einfo_of2 e) mk types) (e2_sats e) | None => [] end.
  Definition body_rows2 (es : list epoch2) : list row := concat (map epoch_rows2 es).

  Lemma epoch_lines_head t ids : ids <> [] ->
    exists c0 cr, epoch_lines_v2 t ids = epoch_first_line_v2 t (Z.of_nat (List.length ids)) c0 :: map epoch_cont_line_v2 cr.
  Proof.
    intros Ne. unfold epoch_lines_v2. destruct ids as [|x r]; [contradiction|]. cbn [List.length chunks]. eexists _, _. reflexivity.
  Qed.

  Lemma sat_lines_chunk sats : Forall (sat2_ok (List.length types)) sats -> Forall is_chunk_line (concat (map render_sat_v2 sats)).
  Proof.
    intros F. apply Forall_concat. apply Forall_forall. intros ls H. apply in_map_iff in H. destruct H as [sa [E Hs]]. subst ls.
    apply chunk_lines. apply (proj1 (Forall_forall _ _) F sa Hs).
  Qed.

  Lemma epoch_run2 e tail s c : inv2 s -> epoch2_ok (Y / 100) (List.length types) e ->
    exists c', cont2 (step2 rate) v2_end_marker (render_epoch2 e ++ tail) s c =
               cont2 (step2 rate) v2_end_marker tail (add_rows s (epoch_rows2 e)) c'.
  Proof.
    intros I [W [Hc [Fc [Fn [Ne Fs]]]]]. destruct I as [I1 [I2 [I3 I4]]].
    set (sats := e2_sats e) in *. set (ids := map s2_id sats).
    assert (Nid : ids <> []) by (unfold ids; destruct sats; [contradiction|discriminate]).
    assert (Fid : Forall sat2_id_ok ids).
    { unfold ids. apply Forall_forall. intros id H. apply in_map_iff in H. destruct H as [sa [E Hs]]. subst id.
      apply (proj1 (Forall_forall _ _) Fs sa Hs). }
    assert (Lid : List.length ids = List.length sats) by (unfold ids; apply map_length).
    unfold render_epoch2. fold sats. fold ids. rewrite <- List.app_assoc.
    set (X := (concat (map render_sat_v2 sats) ++ tail)%list).
    assert (TX : exists l tl, X = l :: tl /\ v2_end_marker (l ++ nlc) = false).
    { unfold X. destruct sats as [|sa r]; [contradiction|]. apply Forall_cons_iff in Fs. destruct Fs as [Fa _].
      destruct (first_line_obs (s2_cut sa) (s2_cells sa) (proj2 (proj2 Fa)) (cells_ne sa Fa)) as [l [tl [El Em]]].
      cbn [map concat]. unfold render_sat_v2 at 1. rewrite El. cbn [app]. eexists _, _. split; [reflexivity|exact Em]. }
    destruct (epoch_lines_head (e2_t e) ids Nid) as [c0 [cr Eh]].
    assert (K : cont2 (step2 rate) v2_end_marker (epoch_lines_v2 (e2_t e) ids ++ X) s c
                = run_obs (step2 rate) v2_end_marker (epoch_lines_v2 (e2_t e) ids ++ X) s cache0).
    { rewrite Eh. cbn [app cont2]. rewrite (first_is_marker _ _ _ W). reflexivity. }
    rewrite K. rewrite Lid in *.
    rewrite (epoch_head_run rate Y fmo fd fh fmi fsec (e2_t e) ids X s cache0 I1 W Hc Fc ltac:(rewrite Lid; exact Fn) Nid Fid TX).
    rewrite Lid. cbn [c_acc cache0]. fold (einfo_of2 e).
    set (c1 := {| c_epoch := Some (einfo_of2 e); c_sats := Some (map fix3 ids); c_len := List.length sats; c_acc := [] |}).
    unfold X, epoch_rows2. fold sats. destruct (e_sec (einfo_of2 e)) as [q|] eqn:Es.
    - eexists. apply (sats_run2 (einfo_of2 e) q Es sats s c1 tail (conj I1 (conj I2 (conj I3 I4))) eq_refl eq_refl eq_refl eq_refl Fs Ne).
    - exists c1. destruct ids as [|x xs] eqn:Ei; [contradiction|].
      apply (skip_lines (einfo_of2 e) Es _ s c1 tail (fix3 x) (map fix3 xs) (sat_lines_chunk sats Fs)); try reflexivity.
      destruct sats as [|sa r]; [contradiction|]. apply Forall_cons_iff in Fs. destruct Fs as [Fa _].
      destruct (first_line_obs (s2_cut sa) (s2_cells sa) (proj2 (proj2 Fa)) (cells_ne sa Fa)) as [l [tl [El _]]].
      cbn [map concat]. unfold render_sat_v2 at 1. rewrite El. discriminate.
  Qed.

  Lemma body2_run : forall es s c, inv2 s -> Forall (epoch2_ok (Y / 100) (List.length types)) es ->
    cont2 (step2 rate) v2_end_marker (render_body_v2 es) s c = Some (add_rows s (body_rows2 es)).
  Proof.
    induction es as [|e es IH]; intros s c I F; [reflexivity|].
    apply Forall_cons_iff in F. destruct F as [Fe Fr].
    unfold render_body_v2. cbn [map concat]. fold (render_body_v2 es).
    destruct (epoch_run2 e (render_body_v2 es) s c I Fe) as [c' Ec]. rewrite Ec.
    rewrite (IH _ c' (inv2_add_rows _ s I) Fr).
    unfold body_rows2. cbn [map concat]. rewrite add_rows_app. reflexivity.
  Qed.
End Body2.

(* ------------------------------------------------------------------------------------------ header and whole file *)
Definition first_text2 (t : epoch_t) : string :=
  time_text (ep_y t) (ep_mo t) (ep_d t) (ep_h t) (ep_mi t) (dec_value (ep_s7 t) 7).

Definition hdr_state2 (f : file2) : st :=
  {| meta := hmeta (f2_x f) (f2_marker f) (first_text2 (f2_first f)); pos := hpos (f2_x f); types_all := f2_types f;
     num_types := Some (Z.of_nat (List.length (f2_types f))); sys_types := []; hsys := None; rows := [] |}.

Lemma end_line_ok2 s rest : run_header G2.header_table (end_of_header :: rest) s = Some (s, rest).
Proof. reflexivity. Qed.

Lemma header2_ok f rest : file2_ok f -> run_header G2.header_table (render_header2 f ++ rest) st0 = Some (hdr_state2 f, rest).
Proof.
  intros [Tm [Lm [Tne [_ [Ft [Fn [Wf [_ [Fy [Fs [[X0 [X1 [X2 X3]]] _]]]]]]]]]]].
  assert (Fo : first_ok (f2_first f)) by (split; [exact Wf|split; assumption]).
  set (Y := ep_y (f2_first f)) in *. set (x := f2_x f) in *.
  set (s1 := apply_hrecs (hx0 x) st0).
  set (s2 := set_meta (assoc_set "marker_name" (MStr (f2_marker f)) (meta s1)) s1).
  set (s3 := apply_hrecs (hx1 x) s2).
  set (s4 := with_v2 s3 (f2_types f) (Some (Z.of_nat (List.length (f2_types f))))).
  set (s5 := apply_hrecs (hx2 x) s4).
  set (s6 := set_meta (assoc_set "time_first_obs" (MStr (first_text2 (f2_first f))) (assoc_set "time_sys" (MStr "GPS") (meta s5))) s5).
  set (s7 := apply_hrecs (hx3 x) s6).
  unfold render_header2. fold x.
  set (ls := (rx (hx0 x) ++ hdr_line (f2_marker f) "MARKER NAME" :: rx (hx1 x) ++ types_lines_v2 (f2_types f)
              ++ rx (hx2 x) ++ first_obs_line (f2_first f) :: rx (hx3 x))%list).
  replace ((rx (hx0 x) ++ hdr_line (f2_marker f) "MARKER NAME" :: rx (hx1 x) ++ types_lines_v2 (f2_types f)
            ++ rx (hx2 x) ++ first_obs_line (f2_first f) :: rx (hx3 x) ++ [end_of_header]) ++ rest)%list
    with (ls ++ end_of_header :: rest)%list
    by (unfold ls; repeat (rewrite <- List.app_assoc; cbn [app]); reflexivity).
  rewrite (run_header_app G2.header_table ls st0 s7).
  - rewrite end_line_ok2. f_equal. f_equal.
    destruct (meta_apply_hrecs (hx0 x) st0) as [M1 P1]. fold s1 in M1, P1.
    destruct (meta_apply_hrecs (hx1 x) s2) as [M3 P3]. fold s3 in M3, P3.
    destruct (meta_apply_hrecs (hx2 x) s4) as [M5 P5]. fold s5 in M5, P5.
    destruct (meta_apply_hrecs (hx3 x) s6) as [M7 P7]. fold s7 in M7, P7.
    destruct (apply_hrecs_fields (hx0 x) st0) as [A1 [B1 [C1 [D1 E1]]]]. fold s1 in A1, B1, C1, D1, E1.
    destruct (apply_hrecs_fields (hx1 x) s2) as [A3 [B3 [C3 [D3 E3]]]]. fold s3 in A3, B3, C3, D3, E3.
    destruct (apply_hrecs_fields (hx2 x) s4) as [A5 [B5 [C5 [D5 E5]]]]. fold s5 in A5, B5, C5, D5, E5.
    destruct (apply_hrecs_fields (hx3 x) s6) as [A7 [B7 [C7 [D7 E7]]]]. fold s7 in A7, B7, C7, D7, E7.
    apply st_ext.
    + rewrite M7. unfold s6. cbn [meta set_meta]. rewrite M5. unfold s4. cbn [meta with_v2]. rewrite M3. unfold s2. cbn [meta set_meta].
      rewrite M1. reflexivity.
    + rewrite P7. unfold s6. cbn [pos set_meta]. rewrite P5. unfold s4. cbn [pos with_v2]. rewrite P3. unfold s2. cbn [pos set_meta].
      rewrite P1. reflexivity.
    + rewrite A7. unfold s6. cbn [types_all set_meta]. rewrite A5. reflexivity.
    + rewrite B7. unfold s6. cbn [num_types set_meta]. rewrite B5. reflexivity.
    + rewrite C7. unfold s6. cbn [sys_types set_meta]. rewrite C5. unfold s4. cbn [sys_types with_v2]. rewrite C3. unfold s2.
      cbn [sys_types set_meta]. rewrite C1. reflexivity.
    + rewrite D7. unfold s6. cbn [hsys set_meta]. rewrite D5. unfold s4. cbn [hsys with_v2]. rewrite D3. unfold s2.
      cbn [hsys set_meta]. rewrite D1. reflexivity.
    + rewrite E7. unfold s6. cbn [rows set_meta]. rewrite E5. unfold s4. cbn [rows with_v2]. rewrite E3. unfold s2. cbn [rows set_meta].
      rewrite E1. reflexivity.
  - unfold ls. apply Forall_app. split; [apply (hrecs_not_end Y), X0|]. constructor.
    + assert (K : label_ok "MARKER NAME") by (split; [discriminate|reflexivity]). rewrite (end_marker_hdr_line _ _ Lm K). reflexivity.
    + apply Forall_app. split; [apply (hrecs_not_end Y), X1|]. apply Forall_app. split; [apply types_lines_not_end2; assumption|].
      apply Forall_app. split; [apply (hrecs_not_end Y), X2|]. constructor; [|apply (hrecs_not_end Y), X3].
      assert (K : label_ok "TIME OF FIRST OBS") by (split; [discriminate|reflexivity]).
      unfold first_obs_line. rewrite (end_marker_hdr_line _ _); [reflexivity| |exact K].
      rewrite (len_cat_widths _ _ (first_obs_widths _ Fo)). simpl. lia.
  - unfold ls. rewrite hfold_app. unfold rx. rewrite (hrecs_ok G2.header_table has_extras_G2 Y _ st0 X0). fold s1.
    cbn [hfold]. rewrite (marker_line_ok2 _ s1 Tm Lm). fold s2. cbv beta iota.
    rewrite hfold_app, (hrecs_ok G2.header_table has_extras_G2 Y _ s2 X1). fold s3.
    rewrite hfold_app, (types_lines_ok2 _ s3 Tne Ft Fn). fold s4.
    rewrite hfold_app, (hrecs_ok G2.header_table has_extras_G2 Y _ s4 X2). fold s5.
    cbn [hfold]. rewrite (first_obs_ok _ s5 Fo). fold s6. cbv beta iota.
    apply (hrecs_ok G2.header_table has_extras_G2 Y _ s6 X3).
Qed.

Definition file_rows2 (rate : option Q) (f : file2) : list row :=
  body_rows2 rate (f2_marker f) (f2_types f) (f2_epochs f).

Definition final_state2 (rate : option Q) (f : file2) : st :=
  {| meta := meta (hdr_state2 f); pos := pos (hdr_state2 f); types_all := f2_types f; num_types := num_types (hdr_state2 f); sys_types := [];
     hsys := None; rows := rev (file_rows2 rate f) |}.

Lemma finish_v2_ext s s' : meta s = meta s' -> pos s = pos s' -> types_all s = types_all s' -> rows s = rows s' ->
  finish_v2 s = finish_v2 s'.
Proof. intros H1 H2 H3 H4. unfold finish_v2, meta_str. rewrite H1, H2, H3, H4. reflexivity. Qed.

Lemma run_obs_cont2 step endm l s : run_obs step endm l s cache0 = cont2 step endm l s cache0.
Proof. destruct l as [|x r]; [reflexivity|]. cbn [cont2]. destruct (endm (x ++ nlc)); reflexivity. Qed.

Lemma rinex2_file_roundtrip_l rate f : file2_ok f ->
  parse_v2 spec_q G2.header_table G2.obs_table rate (render_file2 f) = finish_v2 (final_state2 rate f).
Proof.
  intros Ok. pose proof (header2_ok f (render_body_v2 (f2_epochs f)) Ok) as Hh.
  destruct Ok as [Tm [Lm [Tne [_ [Ft [Fn [Wf [HY [Fy [Fs [Xok Fe]]]]]]]]]]].
  unfold parse_v2, render_file2. rewrite Hh, run_obs_cont2.
  rewrite (body2_run rate (ep_y (f2_first f)) (ep_mo (f2_first f)) (ep_d (f2_first f)) (ep_h (f2_first f)) (ep_mi (f2_first f))
             (dec_value (ep_s7 (f2_first f)) 7) (f2_marker f) (f2_types f) Tne (f2_epochs f) (hdr_state2 f) cache0);
    [| | exact Fe].
  2:{ unfold inv2, inv2_meta, meta_str. cbn [hdr_state2 meta num_types types_all]. rewrite hmeta_first, hmeta_marker.
      repeat split. apply last_inv_of_m. cbn [hdr_state2 meta]. apply (hmeta_last _ _ _ _ HY Xok). }
  destruct (add_rows_fields (file_rows2 rate f) (hdr_state2 f)) as [A1 [A2 [A3 _]]]. unfold file_rows2 in *.
  apply finish_v2_ext; [rewrite A1|rewrite A2|rewrite A3|]; try reflexivity.
  rewrite rows_add_rows. cbn [hdr_state2 rows final_state2]. rewrite List.app_nil_r. reflexivity.
Qed.

Lemma rinex2_rows_l rate f : file2_ok f -> file_rows2 rate f <> [] ->
  exists r, parse_v2 spec_q G2.header_table G2.obs_table rate (render_file2 f) = Some r /\
            o_rows r = file_rows2 rate f /\
            Forall (fun col => List.length (snd col) = List.length (o_rows r)) (o_obs r).
Proof.
  intros Ok Ne. rewrite (rinex2_file_roundtrip_l rate f Ok). unfold finish_v2.
  assert (G : meta_str "time_sys" (final_state2 rate f) = Some "GPS")
    by (unfold meta_str, final_state2; cbn [meta hdr_state2]; rewrite hmeta_gps; reflexivity).
  rewrite G. unfold final_state2. cbn [rows types_all meta pos].
  rewrite rev_involutive. destruct (file_rows2 rate f) as [|r0 rs] eqn:E; [contradiction|].
  eexists. split; [reflexivity|]. cbn [o_rows o_obs]. split; [reflexivity|].
  apply Forall_forall. intros col Hc. apply in_map_iff in Hc. destruct Hc as [t [Et _]]. subst col. cbn [snd].
  unfold column. apply map_length.
Qed.

Lemma decimation_file_spec_v2_l rate f :
  file_rows2 rate f =
  flat_map (fun e => if on_grid rate (sec_of (e2_t e)) then epoch_rows2 None (f2_marker f) (f2_types f) e else []) (f2_epochs f).
Proof.
  unfold file_rows2, body_rows2. rewrite flat_map_concat_map. f_equal. apply map_ext. intros e.
  unfold epoch_rows2, einfo_of2, einfo2. cbn [e_sec on_grid]. destruct (on_grid rate (sec_of (e2_t e))); reflexivity.
Qed.
