(* Proofs/C11_Final3.v - RINEX 3: whole header (marker, types, TIME OF FIRST OBS) and the whole-file theorems *)
From Coq Require Import Ascii String List Bool ZArith QArith Arith Lia.
From Verif Require Import Lib.Text Lib.Decimal Lib.Fixed Lib.Dyadic Model.C11_Rinex Model.C11_Check
     Spec.C11_RinexFormat Spec.C11_RinexFile Proofs.C11_Rinex Proofs.C11_File3 Proofs.C11_Hdr3 Proofs.C11_Hdr2 Proofs.C11_File2 Proofs.C11_Extras.
Import ListNotations.
Local Open Scope nat_scope.
Local Open Scope string_scope.

Definition first_text (t : epoch_t) : string :=
  time_text (ep_y t) (ep_mo t) (ep_d t) (ep_h t) (ep_mi t) (dec_value (ep_s7 t) 7).
Definition meta3 (f : file3) : list (string * mval) := hmeta (f3_x f) (f3_marker f) (first_text (f3_first f)).

Lemma table_first3 : table_find "TIME OF FIRST OBS" G3.header_table = Some ("_parse_time_of_first_obs", false, first_obs_fields).
Proof. reflexivity. Qed.

Definition hdr_state (f : file3) (h : option string) : st :=
  {| meta := meta3 f; pos := hpos (f3_x f); types_all := all_types (f3_systypes f) []; num_types := None;
     sys_types := f3_systypes f; hsys := h; rows := [] |}.

Lemma systypes_sys_ok stt : systypes_ok stt -> Forall sys_ok stt /\ NoDup (map fst stt).
Proof. intros [ND F]. split; [exact F|exact ND]. Qed.

Lemma header3_ok f rest : file3_ok f ->
  exists h, run_header G3.header_table (render_header3 f ++ rest) st0 = Some (hdr_state f h, rest).
Proof.
  intros [Tm [Lm [Hst [Fo [[X0 [X1 [X2 X3]]] _]]]]]. destruct (systypes_sys_ok _ Hst) as [Fs ND].
  set (Y := ep_y (f3_first f)) in *. set (x := f3_x f) in *.
  set (s1 := apply_hrecs (hx0 x) st0).
  set (s2 := set_meta (assoc_set "marker_name" (MStr (f3_marker f)) (meta s1)) s1).
  set (s3 := apply_hrecs (hx1 x) s2).
  destruct (apply_hrecs_fields (hx0 x) st0) as [A1 [B1 [C1 [D1 E1]]]]. fold s1 in A1, B1, C1, D1, E1.
  destruct (apply_hrecs_fields (hx1 x) s2) as [A3 [B3 [C3 [D3 E3]]]]. fold s3 in A3, B3, C3, D3, E3.
  assert (S3 : sys_types s3 = []) by (rewrite C3; unfold s2; cbn [sys_types set_meta]; rewrite C1; reflexivity).
  destruct (systems_ok (f3_systypes f) s3 Fs ND) as [h Hh]; [intros k _; rewrite S3; intros []|].
  set (s4 := with_types s3 (all_types (f3_systypes f) (types_all s3)) (sys_types s3 ++ f3_systypes f)%list h) in *.
  set (s5 := apply_hrecs (hx2 x) s4).
  set (s6 := set_meta (assoc_set "time_first_obs" (MStr (first_text (f3_first f))) (assoc_set "time_sys" (MStr "GPS") (meta s5))) s5).
  set (s7 := apply_hrecs (hx3 x) s6).
  exists h. unfold render_header3. fold x.
  set (ls := (rx (hx0 x) ++ hdr_line (f3_marker f) "MARKER NAME" :: rx (hx1 x) ++ concat (map types_lines_v3 (f3_systypes f))
              ++ rx (hx2 x) ++ first_obs_line (f3_first f) :: rx (hx3 x))%list).
  replace ((rx (hx0 x) ++ hdr_line (f3_marker f) "MARKER NAME" :: rx (hx1 x) ++ concat (map types_lines_v3 (f3_systypes f))
            ++ rx (hx2 x) ++ first_obs_line (f3_first f) :: rx (hx3 x) ++ [end_of_header]) ++ rest)%list
    with (ls ++ end_of_header :: rest)%list
    by (unfold ls; repeat (rewrite <- List.app_assoc; cbn [app]); reflexivity).
  rewrite (run_header_app G3.header_table ls st0 s7).
  - cbn [run_header]. change (header_line G3.header_table end_of_header s7) with (Some s7). cbv beta iota.
    change (is_end_of_header end_of_header) with true. cbv iota. f_equal. f_equal.
    destruct (meta_apply_hrecs (hx0 x) st0) as [M1 P1]. fold s1 in M1, P1.
    destruct (meta_apply_hrecs (hx1 x) s2) as [M3 P3]. fold s3 in M3, P3.
    destruct (meta_apply_hrecs (hx2 x) s4) as [M5 P5]. fold s5 in M5, P5.
    destruct (meta_apply_hrecs (hx3 x) s6) as [M7 P7]. fold s7 in M7, P7.
    destruct (apply_hrecs_fields (hx2 x) s4) as [A5 [B5 [C5 [D5 E5]]]]. fold s5 in A5, B5, C5, D5, E5.
    destruct (apply_hrecs_fields (hx3 x) s6) as [A7 [B7 [C7 [D7 E7]]]]. fold s7 in A7, B7, C7, D7, E7.
    apply st_ext.
    + rewrite M7. unfold s6. cbn [meta set_meta]. rewrite M5. unfold s4. cbn [meta with_types]. rewrite M3. unfold s2. cbn [meta set_meta].
      rewrite M1. reflexivity.
    + rewrite P7. unfold s6. cbn [pos set_meta]. rewrite P5. unfold s4. cbn [pos with_types]. rewrite P3. unfold s2. cbn [pos set_meta].
      rewrite P1. reflexivity.
    + rewrite A7. unfold s6. cbn [types_all set_meta]. rewrite A5. unfold s4. cbn [types_all with_types]. rewrite A3. unfold s2.
      cbn [types_all set_meta]. rewrite A1. reflexivity.
    + rewrite B7. unfold s6. cbn [num_types set_meta]. rewrite B5. unfold s4. cbn [num_types with_types]. rewrite B3. unfold s2.
      cbn [num_types set_meta]. rewrite B1. reflexivity.
    + rewrite C7. unfold s6. cbn [sys_types set_meta]. rewrite C5. unfold s4. cbn [sys_types with_types]. rewrite S3. reflexivity.
    + rewrite D7. unfold s6. cbn [hsys set_meta]. rewrite D5. reflexivity.
    + rewrite E7. unfold s6. cbn [rows set_meta]. rewrite E5. unfold s4. cbn [rows with_types]. rewrite E3. unfold s2. cbn [rows set_meta].
      rewrite E1. reflexivity.
  - unfold ls. apply Forall_app. split; [apply (hrecs_not_end Y), X0|]. constructor.
    + assert (K : label_ok "MARKER NAME") by (split; [discriminate|reflexivity]). rewrite (end_marker_hdr_line _ _ Lm K). reflexivity.
    + apply Forall_app. split; [apply (hrecs_not_end Y), X1|]. apply Forall_app. split.
      * apply Forall_concat. apply Forall_forall. intros l Hl. apply in_map_iff in Hl. destruct Hl as [p [E Hp]]. subst l.
        apply types_lines_not_end. apply (proj1 (Forall_forall _ _) Fs p Hp).
      * apply Forall_app. split; [apply (hrecs_not_end Y), X2|]. constructor; [|apply (hrecs_not_end Y), X3].
        assert (K : label_ok "TIME OF FIRST OBS") by (split; [discriminate|reflexivity]).
        unfold first_obs_line. rewrite (end_marker_hdr_line _ _); [reflexivity| |exact K].
        rewrite (len_cat_widths _ _ (first_obs_widths _ Fo)). simpl. lia.
  - unfold ls. rewrite hfold_app. unfold rx. rewrite (hrecs_ok G3.header_table has_extras_G3 Y _ st0 X0). fold s1.
    cbn [hfold]. rewrite (marker_line_ok _ s1 Tm Lm). fold s2. cbv beta iota.
    rewrite hfold_app, (hrecs_ok G3.header_table has_extras_G3 Y _ s2 X1). fold s3.
    rewrite hfold_app, Hh. fold s4.
    rewrite hfold_app, (hrecs_ok G3.header_table has_extras_G3 Y _ s4 X2). fold s5.
    cbn [hfold]. rewrite (first_obs_ok_gen G3.header_table _ s5 table_first3 Fo). fold s6. cbv beta iota.
    apply (hrecs_ok G3.header_table has_extras_G3 Y _ s6 X3).
Qed.

(* ------------------------------------------------------------------------------------------ the whole file *)
Definition file_rows3 (rate : option Q) (f : file3) : list row :=
  body_rows rate (f3_systypes f) (all_types (f3_systypes f) []) (f3_marker f) (f3_epochs f).

Definition final_state3 (rate : option Q) (f : file3) : st :=
  {| meta := meta3 f; pos := hpos (f3_x f); types_all := all_types (f3_systypes f) []; num_types := None;
     sys_types := f3_systypes f; hsys := None; rows := rev (file_rows3 rate f) |}.

Lemma finish_v3_ext s s' : meta s = meta s' -> pos s = pos s' -> types_all s = types_all s' -> sys_types s = sys_types s' ->
  rows s = rows s' -> finish_v3 s = finish_v3 s'.
Proof. intros H1 H2 H3 H4 H5. unfold finish_v3, meta_str. rewrite H1, H2, H3, H4, H5. reflexivity. Qed.

Lemma rinex3_file_roundtrip_l rate f : file3_ok f ->
  parse_v3 G3.header_table G3.obs_table rate (render_file3 f) = finish_v3 (final_state3 rate f).
Proof.
  intros Ok. destruct (header3_ok f (render_body_v3 (f3_epochs f)) Ok) as [h Hh].
  destruct Ok as [Tm [Lm [Hst [_ [_ Fe]]]]]. destruct Hst as [ND Fs].
  unfold parse_v3, render_file3. rewrite Hh.
  assert (L240 : Forall (fun p : string * list string => List.length (snd p) < 240) (f3_systypes f)).
  { apply Forall_forall. intros p Hp. apply (proj1 (Forall_forall _ _) Fs p Hp). }
  rewrite (body3_run rate (f3_systypes f) (all_types (f3_systypes f) []) (f3_marker f) ND L240 (f3_epochs f) (hdr_state f h) cache0);
    [| split; [unfold meta_str; cbn [hdr_state meta]; unfold meta3; rewrite hmeta_marker; reflexivity|split; reflexivity] | exact Fe].
  destruct (add_rows_fields (file_rows3 rate f) (hdr_state f h)) as [A1 [A2 [A3 A4]]]. unfold file_rows3 in A1, A2, A3, A4.
  apply finish_v3_ext; [rewrite A1|rewrite A2|rewrite A3|rewrite A4|]; try reflexivity.
  rewrite rows_add_rows. cbn [hdr_state rows]. rewrite List.app_nil_r. reflexivity.
Qed.

(* one row per (epoch on the grid, satellite) in file order; every column has that many entries *)
Lemma rinex3_rows_l rate f : file3_ok f -> file_rows3 rate f <> [] ->
  exists r, parse_v3 G3.header_table G3.obs_table rate (render_file3 f) = Some r /\
            o_rows r = file_rows3 rate f /\
            Forall (fun col => List.length (snd col) = List.length (o_rows r)) (o_obs r).
Proof.
  intros Ok Ne. rewrite (rinex3_file_roundtrip_l rate f Ok). unfold finish_v3.
  assert (G : meta_str "time_sys" (final_state3 rate f) = Some "GPS")
    by (unfold meta_str, final_state3, meta3; cbn [meta]; rewrite hmeta_gps; reflexivity).
  rewrite G. unfold final_state3. cbn [rows sys_types types_all meta pos].
  rewrite rev_involutive. destruct (file_rows3 rate f) as [|r0 rs] eqn:E; [contradiction|].
  eexists. split; [reflexivity|]. cbn [o_rows o_obs]. split; [reflexivity|].
  apply Forall_forall. intros col Hc. apply in_map_iff in Hc. destruct Hc as [t [Et _]]. subst col. cbn [snd].
  unfold column. apply map_length.
Qed.

(* decimation: exactly the epochs on the sampling grid contribute rows, the others none *)
Lemma sat_rows_grid rate stt all mk t sats :
  sat_rows stt all mk (einfo3 rate t) sats = if on_grid rate (sec_of t) then sat_rows stt all mk (einfo3 None t) sats else [].
Proof. unfold sat_rows, einfo3. cbn [e_sec on_grid]. destruct (on_grid rate (sec_of t)); reflexivity. Qed.

Lemma decimation_file_spec_l rate f :
  file_rows3 rate f =
  flat_map (fun e => if on_grid rate (sec_of (e3_t e))
                     then epoch_rows None (f3_systypes f) (all_types (f3_systypes f) []) (f3_marker f) e else []) (f3_epochs f).
Proof.
  unfold file_rows3, body_rows. rewrite flat_map_concat_map. f_equal. apply map_ext. intros e. unfold epoch_rows.
  apply sat_rows_grid.
Qed.

(* observation types not defined for the satellite's system are absent in its row *)
Lemma assoc_combine_none {A} t ts (vs : list A) : ~ In t ts -> assoc t (combine ts vs) = None.
Proof.
  revert vs; induction ts as [|x r IH]; intros vs N; [reflexivity|]. destruct vs as [|v vr]; [reflexivity|]. cbn [combine assoc].
  destruct (String.eqb_spec x t) as [E|E]; [exfalso; apply N; left; exact E|]. apply IH. intro I. apply N. right. exact I.
Qed.

Lemma assoc_app_none {A} t (a b : list (string * A)) : assoc t a = None -> assoc t (a ++ b) = assoc t b.
Proof.
  induction a as [|[k v] r IH]; intros H; [reflexivity|]. cbn [app assoc] in *. destruct (String.eqb k t); [discriminate|]. apply IH, H.
Qed.

Lemma assoc_const_absent t l : assoc t (map (fun x : string => (x, absent)) l) = None \/ assoc t (map (fun x : string => (x, absent)) l) = Some absent.
Proof.
  induction l as [|x r IH]; [left; reflexivity|]. cbn [map assoc]. destruct (String.eqb x t); [right; reflexivity|exact IH].
Qed.

Lemma row3_undefined_absent mk ts all e sa t : ~ In t ts -> cell_of t (row3 mk ts all e sa) = absent.
Proof.
  intros N. unfold cell_of, row3. cbn [r_vals]. rewrite assoc_app_none by (apply assoc_combine_none, N).
  destruct (assoc_const_absent t (filter (fun t0 => negb (mem_str t0 ts)) all)) as [H|H]; rewrite H; reflexivity.
Qed.
