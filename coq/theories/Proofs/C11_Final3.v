(* Proofs/C11_Final3.v - RINEX 3: whole header (marker, types, TIME OF FIRST OBS) and the whole-file theorems *)
From Coq Require Import Ascii String List Bool ZArith QArith Arith Lia.
From Verif Require Import Lib.Text Lib.Decimal Lib.Fixed Lib.Dyadic Model.C11_Rinex Model.C11_Check
     Spec.C11_RinexFormat Spec.C11_RinexFile Proofs.C11_Rinex Proofs.C11_File3 Proofs.C11_Hdr3 Proofs.C11_Hdr2.
Import ListNotations.
Local Open Scope nat_scope.
Local Open Scope string_scope.

Definition first_text (t : epoch_t) : string :=
  time_text (ep_y t) (ep_mo t) (ep_d t) (ep_h t) (ep_mi t) (dec_value (ep_s7 t) 7).
Definition meta3 (f : file3) : list (string * mval) :=
  [("marker_name", MStr (f3_marker f)); ("time_sys", MStr "GPS"); ("time_first_obs", MStr (first_text (f3_first f)))].

Lemma table_first3 : table_find "TIME OF FIRST OBS" G3.header_table = Some ("_parse_time_of_first_obs", false, first_obs_fields).
Proof. reflexivity. Qed.

Definition hdr_state (f : file3) (h : option string) : st :=
  with_types (set_meta (meta3 f) st0) (all_types (f3_systypes f) []) (f3_systypes f) h.

Lemma systypes_sys_ok stt : systypes_ok stt -> Forall sys_ok stt /\ NoDup (map fst stt).
Proof. intros [ND F]. split; [exact F|exact ND]. Qed.

Lemma header3_ok f rest : file3_ok f ->
  exists h, run_header G3.header_table (render_header3 f ++ rest) st0 = Some (hdr_state f h, rest).
Proof.
  intros [Tm [Lm [Hst [Fo _]]]]. destruct (systypes_sys_ok _ Hst) as [Fs ND].
  set (s0 := set_meta [("marker_name", MStr (f3_marker f))] st0).
  destruct (systems_ok (f3_systypes f) s0 Fs ND) as [h Hh]; [intros k _ []|].
  exists h. unfold render_header3.
  replace ((hdr_line (f3_marker f) "MARKER NAME" :: concat (map types_lines_v3 (f3_systypes f)) ++ [first_obs_line (f3_first f); end_of_header]) ++ rest)%list
    with ((hdr_line (f3_marker f) "MARKER NAME" :: concat (map types_lines_v3 (f3_systypes f)) ++ [first_obs_line (f3_first f)]) ++ end_of_header :: rest)%list
    by (cbn [app]; rewrite <- !List.app_assoc; reflexivity).
  rewrite (run_header_app G3.header_table _ st0 (hdr_state f h)).
  - reflexivity.
  - constructor.
    + assert (K : label_ok "MARKER NAME") by (split; [discriminate|reflexivity]).
      rewrite (end_marker_hdr_line _ _ Lm K). reflexivity.
    + apply Forall_app. split.
      * apply Forall_concat. apply Forall_forall. intros ls Hls. apply in_map_iff in Hls. destruct Hls as [p [E Hp]]. subst ls.
        apply types_lines_not_end. apply (proj1 (Forall_forall _ _) Fs p Hp).
      * constructor; [|constructor].
        assert (K : label_ok "TIME OF FIRST OBS") by (split; [discriminate|reflexivity]).
        unfold first_obs_line. rewrite (end_marker_hdr_line _ _); [reflexivity| |exact K].
        rewrite (len_cat_widths _ _ (first_obs_widths _ Fo)). simpl. lia.
  - cbn [hfold]. rewrite (marker_line_ok _ st0 Tm Lm). cbv beta iota. rewrite hfold_app.
    change (set_meta (assoc_set "marker_name" (MStr (f3_marker f)) (meta st0)) st0) with s0. rewrite Hh. cbn [hfold].
    rewrite (first_obs_ok_gen G3.header_table _ _ table_first3 Fo). reflexivity.
Qed.

(* ------------------------------------------------------------------------------------------ the whole file *)
Definition file_rows3 (rate : option Q) (f : file3) : list row :=
  body_rows rate (f3_systypes f) (all_types (f3_systypes f) []) (f3_marker f) (f3_epochs f).

Definition final_state3 (rate : option Q) (f : file3) : st :=
  {| meta := meta3 f; pos := None; types_all := all_types (f3_systypes f) []; num_types := None;
     sys_types := f3_systypes f; hsys := None; rows := rev (file_rows3 rate f) |}.

Lemma finish_v3_ext s s' : meta s = meta s' -> pos s = pos s' -> types_all s = types_all s' -> sys_types s = sys_types s' ->
  rows s = rows s' -> finish_v3 s = finish_v3 s'.
Proof. intros H1 H2 H3 H4 H5. unfold finish_v3, meta_str. rewrite H1, H2, H3, H4, H5. reflexivity. Qed.

Lemma rinex3_file_roundtrip_l rate f : file3_ok f ->
  parse_v3 G3.header_table G3.obs_table rate (render_file3 f) = finish_v3 (final_state3 rate f).
Proof.
  intros Ok. destruct (header3_ok f (render_body_v3 (f3_epochs f)) Ok) as [h Hh].
  destruct Ok as [Tm [Lm [Hst [_ Fe]]]]. destruct Hst as [ND Fs].
  unfold parse_v3, render_file3. rewrite Hh.
  assert (L240 : Forall (fun p : string * list string => List.length (snd p) < 240) (f3_systypes f)).
  { apply Forall_forall. intros p Hp. apply (proj1 (Forall_forall _ _) Fs p Hp). }
  rewrite (body3_run rate (f3_systypes f) (all_types (f3_systypes f) []) (f3_marker f) ND L240 (f3_epochs f) (hdr_state f h) cache0);
    [| repeat split | exact Fe].
  destruct (add_rows_fields (file_rows3 rate f) (hdr_state f h)) as [A1 [A2 [A3 A4]]]. unfold file_rows3 in A1, A2, A3, A4.
  apply finish_v3_ext; [rewrite A1|rewrite A2|rewrite A3|rewrite A4|]; try reflexivity.
  rewrite rows_add_rows. cbn [hdr_state with_types rows set_meta st0]. rewrite List.app_nil_r. reflexivity.
Qed.

(* one row per (epoch on the grid, satellite) in file order; every column has that many entries *)
Lemma rinex3_rows_l rate f : file3_ok f -> file_rows3 rate f <> [] ->
  exists r, parse_v3 G3.header_table G3.obs_table rate (render_file3 f) = Some r /\
            o_rows r = file_rows3 rate f /\
            Forall (fun col => List.length (snd col) = List.length (o_rows r)) (o_obs r).
Proof.
  intros Ok Ne. rewrite (rinex3_file_roundtrip_l rate f Ok). unfold finish_v3.
  change (meta_str "time_sys" (final_state3 rate f)) with (Some "GPS"). unfold final_state3. cbn [rows sys_types types_all meta pos].
  rewrite rev_involutive. destruct (file_rows3 rate f) as [|r0 rs] eqn:E; [contradiction|].
  eexists. split; [reflexivity|]. cbn [o_rows o_obs]. split; [reflexivity|].
  apply Forall_forall. intros col Hc. apply in_map_iff in Hc. destruct Hc as [t [Et _]]. subst col. cbn [snd].
  unfold column. apply map_length.
Qed.

(* decimation: exactly the epochs on the sampling grid contribute rows, the others none *)
Lemma sat_rows_grid rate stt all mk t sats :
  sat_rows stt all mk (einfo3 rate t) sats = if on_grid rate (sec_of t) then sat_rows stt all mk (einfo3 None t) sats else [].
Proof. unfold sat_rows, einfo3. cbn [e_sec on_grid]. destruct (on_grid rate (sec_of t)); reflexivity. Qed.

Lemma decimation_file_spec_l rate f :
  file_rows3 rate f =
  flat_map (fun e => if on_grid rate (sec_of (e3_t e))
                     then epoch_rows None (f3_systypes f) (all_types (f3_systypes f) []) (f3_marker f) e else []) (f3_epochs f).
Proof.
  unfold file_rows3, body_rows. rewrite flat_map_concat_map. f_equal. apply map_ext. intros e. unfold epoch_rows.
  apply sat_rows_grid.
Qed.

(* observation types not defined for the satellite's system are absent in its row *)
Lemma assoc_combine_none {A} t ts (vs : list A) : ~ In t ts -> assoc t (combine ts vs) = None.
Proof.
  revert vs; induction ts as [|x r IH]; intros vs N; [reflexivity|]. destruct vs as [|v vr]; [reflexivity|]. cbn [combine assoc].
  destruct (String.eqb_spec x t) as [E|E]; [exfalso; apply N; left; exact E|]. apply IH. intro I. apply N. right. exact I.
Qed.

Lemma assoc_app_none {A} t (a b : list (string * A)) : assoc t a = None -> assoc t (a ++ b) = assoc t b.
Proof.
  induction a as [|[k v] r IH]; intros H; [reflexivity|]. cbn [app assoc] in *. destruct (String.eqb k t); [discriminate|]. apply IH, H.
Qed.

Lemma assoc_const_absent t l : assoc t (map (fun x : string => (x, absent)) l) = None \/ assoc t (map (fun x : string => (x, absent)) l) = Some absent.
Proof.
  induction l as [|x r IH]; [left; reflexivity|]. cbn [map assoc]. destruct (String.eqb x t); [right; reflexivity|exact IH].
Qed.

Lemma row3_undefined_absent mk ts all e sa t : ~ In t ts -> cell_of t (row3 mk ts all e sa) = absent.
Proof.
  intros N. unfold cell_of, row3. cbn [r_vals]. rewrite assoc_app_none by (apply assoc_combine_none, N).
  destruct (assoc_const_absent t (filter (fun t0 => negb (mem_str t0 ts)) all)) as [H|H]; rewrite H; reflexivity.
Qed.
