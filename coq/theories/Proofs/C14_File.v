(* Proofs/C14_File.v - whole files: read_data = scan + per-block parse (lemmas behind Props/C14.v sinex_file_roundtrip) *)
From Coq Require Import ZArith List Bool String Ascii Lia Permutation.
From Verif Require Import Lib.Text Model.C14_Sinex Proofs.C14_Sinex Proofs.C14_Scan.
Import ListNotations.
Open Scope nat_scope.
Open Scope string_scope.

(* a SINEX file as the writer sees it: lines between blocks, and blocks whose content is a sequence of comment lines
   (inl) and rows of column texts (inr) *)
Inductive sitem := SJunk (l : string) | SBlk (m : string) (ps : list string) (content : list (string + list string)).

Definition table_for (decl : list (string * table)) (m : string) : table :=
  match lookup m decl with Some t => t | None => [] end.

Definition body_of (t : table) (c : list (string + list string)) : list string :=
  map (fun x => match x with inl l => l | inr r => render_line t r end) c.
Fixpoint rows_of (c : list (string + list string)) : list (list string) :=
  match c with
  | [] => []
  | inl _ :: r => rows_of r
  | inr x :: r => x :: rows_of r
  end.

Definition to_item (decl : list (string * table)) (s : sitem) : item :=
  match s with
  | SJunk l => Junk l
  | SBlk m ps c => Blk m ps (body_of (table_for decl m) c)
  end.
Definition render_sfile (decl : list (string * table)) (its : list sitem) : list string :=
  render_file (map (to_item decl) its).

(* a declared table can be used: it has a first field and that starts after column 0 *)
Definition table_ok (t : table) : Prop := match t with f :: _ => 1 <= f_start f | [] => False end.

(* well formed: lines between blocks do not start with '+'; block titles are tokens; comment lines inside a block start
   with none of '-', '+', ' '; rows occur only in declared blocks and fit the block's table *)
Definition line_ok (decl : list (string * table)) (m : string) (x : string + list string) : Prop :=
  match x with
  | inl l => startswith "-" l = false /\ startswith "+" l = false /\ startswith " " l = false
  | inr r => match lookup m decl with Some t => table_ok t /\ fits t 0 r | None => False end
  end.
Definition sitem_ok (decl : list (string * table)) (s : sitem) : Prop :=
  match s with
  | SJunk l => startswith "+" l = false
  | SBlk m ps c => Forall (fun t => is_token t = true) (m :: ps) /\ Forall (line_ok decl m) c
  end.

(* what must come back: every wanted marker's first block, with the rows of its content *)
Fixpoint expected_rows (decl : list (string * table)) (wanted : list string) (its : list sitem)
  : list (string * list string * option (list (list cell))) :=
  match its with
  | [] => []
  | SJunk _ :: r => expected_rows decl wanted r
  | SBlk m ps c :: r =>
      if mem m wanted then
        (m, ps, match lookup m decl with
                | Some [] => None
                | Some t => Some (map (convert_row t) (rows_of c))
                | None => None end) :: expected_rows decl (remove m wanted) r
      else expected_rows decl wanted r
  end.

Lemma render_starts_blank t r : table_ok t -> fits t 0 r -> startswith " " (render_line t r) = true.
Proof.
  destruct t as [|f t']; [intros []|]. intros Hs Hf. destruct r as [|x xs]; [contradiction|].
  unfold render_line. cbn [render_fields]. cbn [table_ok] in Hs.
  destruct (f_start f - 0) as [|n] eqn:E; [lia|]. reflexivity.
Qed.

Lemma render_not_minus_plus t r : table_ok t -> fits t 0 r ->
  startswith "-" (render_line t r) = false /\ startswith "+" (render_line t r) = false.
Proof.
  destruct t as [|f t']; [intros []|]. intros Hs Hf. destruct r as [|x xs]; [contradiction|].
  unfold render_line. cbn [render_fields]. cbn [table_ok] in Hs.
  destruct (f_start f - 0) as [|n] eqn:E; [lia|]. split; reflexivity.
Qed.

Lemma item_ok_of decl s : sitem_ok decl s -> item_ok (to_item decl s).
Proof.
  destruct s as [l|m ps c]; cbn; [auto|]. intros [Ht Hc]. split; [exact Ht|].
  unfold body_of. apply Forall_map. eapply Forall_impl; [|exact Hc].
  intros [l|r]; cbn.
  - intros [A [B _]]. auto.
  - unfold table_for. destruct (lookup m decl) as [t|]; [|intros []]. intros [Hk Hf].
    apply render_not_minus_plus; assumption.
Qed.

Lemma data_lines_body decl m c :
  Forall (line_ok decl m) c ->
  data_lines (body_of (table_for decl m) c) = map (render_line (table_for decl m)) (rows_of c).
Proof.
  induction c as [|x c IH]; intros H; [reflexivity|].
  inversion H as [|a b Ha Hb]. subst. unfold data_lines in *. cbn [body_of map filter]. fold (body_of (table_for decl m) c).
  destruct x as [l|r]; cbn [line_ok] in Ha.
  - destruct Ha as [_ [_ Hl]]. rewrite Hl. cbn [rows_of]. apply IH. exact Hb.
  - unfold table_for in *. destruct (lookup m decl) as [t|] eqn:E; [|contradiction]. destruct Ha as [Hk Hf].
    rewrite (render_starts_blank t r Hk Hf). cbn [rows_of map]. f_equal. apply IH. exact Hb.
Qed.

Lemma rows_fit decl m t c : lookup m decl = Some t -> Forall (line_ok decl m) c -> Forall (fits t 0) (rows_of c).
Proof.
  intros E. induction c as [|x c IH]; intros H; [constructor|].
  inversion H as [|a b Ha Hb]. subst. destruct x as [l|r]; cbn [rows_of]; [apply IH; exact Hb|].
  cbn [line_ok] in Ha. rewrite E in Ha. constructor; [apply Ha|apply IH; exact Hb].
Qed.

Definition parse_found (decl : list (string * table)) (f : found) : string * list string * option (list (list cell)) :=
  let '(m, ps, body) := f in
  (m, ps, match lookup m decl with Some t => parse_block all_off false t body | None => None end).

Lemma parse_expected decl its : Forall (sitem_ok decl) its -> forall wanted,
  map (parse_found decl) (expected wanted (map (to_item decl) its)) = expected_rows decl wanted its.
Proof.
  induction its as [|s its IH]; intros H wanted; [reflexivity|].
  inversion H as [|a b Ha Hb]. subst. destruct s as [l|m ps c]; cbn [map to_item expected expected_rows].
  - apply IH. exact Hb.
  - destruct (mem m wanted); [|apply IH; exact Hb].
    cbn [map parse_found]. f_equal; [|apply IH; exact Hb].
    f_equal. destruct Ha as [_ Hc]. destruct (lookup m decl) as [t|] eqn:E; [|reflexivity].
    rewrite (data_lines_body decl m c Hc). unfold table_for. rewrite E.
    destruct t as [|f t']; [reflexivity|].
    apply parse_block_render; [discriminate|]. eapply rows_fit; eassumption.
Qed.

Lemma file_roundtrip decl its :
  Forall (sitem_ok decl) its ->
  parse_file all_off false decl (render_sfile decl its) = expected_rows decl (map fst decl) its.
Proof.
  intros H. unfold parse_file, render_sfile.
  rewrite scan_render by (apply Forall_map; eapply Forall_impl; [|exact H]; intros s; apply item_ok_of).
  rewrite <- (parse_expected decl its H). apply map_ext. intros [[m ps] body]. reflexivity.
Qed.

(* each marker at most once in the result, and only wanted ones *)
Lemma mem_remove_self m w : mem m (remove m w) = false.
Proof.
  unfold mem, remove. apply not_true_is_false. rewrite existsb_exists. intros [y [Hy E]].
  apply filter_In in Hy. destruct Hy as [_ Hy]. rewrite E in Hy. discriminate.
Qed.

Notation marker_of := (fun e : string * list string * option (list (list cell)) => fst (fst e)).

Lemma expected_rows_wanted decl its : forall w m, In m (map marker_of (expected_rows decl w its)) -> mem m w = true.
Proof.
  induction its as [|s its IH]; intros w m H; [contradiction|].
  destruct s as [l|m' ps c]; cbn [expected_rows] in H; [apply IH; exact H|].
  destruct (mem m' w) eqn:E; [|apply IH; exact H].
  cbn [map fst] in H. destruct H as [H|H]; [subst; exact E|]. eapply mem_remove. apply IH. exact H.
Qed.

Lemma expected_rows_nodup decl its : forall w, NoDup (map marker_of (expected_rows decl w its)).
Proof.
  induction its as [|s its IH]; intros w; [constructor|].
  destruct s as [l|m ps c]; cbn [expected_rows]; [apply IH|].
  destruct (mem m w); [|apply IH]. cbn [map fst]. constructor; [|apply IH].
  intros HI. apply expected_rows_wanted in HI. rewrite mem_remove_self in HI. discriminate.
Qed.

(* a declared block that occurs (first) in the file comes back with exactly its rows *)
Lemma expected_rows_first decl its : forall w m ps c t,
  mem m w = true -> lookup m decl = Some t -> t <> [] ->
  (forall ps' c', In (SBlk m ps' c') its -> ps' = ps /\ c' = c) -> In (SBlk m ps c) its ->
  In (m, ps, Some (map (convert_row t) (rows_of c))) (expected_rows decl w its).
Proof.
  induction its as [|s its IH]; intros w m ps c t Hm E Ht Hu HI; [contradiction|].
  assert (Hu' : forall ps' c', In (SBlk m ps' c') its -> ps' = ps /\ c' = c) by (intros; apply Hu; right; assumption).
  destruct s as [l|m' ps' c']; cbn [expected_rows].
  - destruct HI as [HI|HI]; [discriminate|]. eapply IH; eassumption.
  - destruct (string_dec m' m) as [->|N].
    + destruct (Hu ps' c' (or_introl eq_refl)) as [-> ->]. rewrite Hm. left. unfold table in *. rewrite E.
      destruct t; [congruence|reflexivity].
    + destruct HI as [HI|HI]; [inversion HI; congruence|].
      destruct (mem m' w); [right|]; eapply IH; try eassumption.
      apply mem_remove_neq; [apply String.eqb_neq; exact N|exact Hm].
Qed.
