(* Proofs/C17_Sound.v - soundness of the decidable criterion [compatible] (Model/C17_Layout.v):
   for EVERY layout and EVERY column table, if [span_map1] classifies a parser column then, for every record whose
   contents fit, that column of the rendered line is (after strip) exactly the classified field's content / constant. *)
From Coq Require Import Ascii String List Bool Arith ZArith QArith Lia.
From Verif Require Import Lib.Text Lib.Decimal Lib.Dyadic Model.C17_Layout.
Import ListNotations.
Local Open Scope string_scope.

(* ------------------------------------------------------------------------------ strings <-> lists *)
Lemma los_app a b : los (a ++ b) = (los a ++ los b)%list.
Proof. induction a; cbn; [reflexivity|]. unfold los in *. cbn. rewrite IHa. reflexivity. Qed.
Lemma sol_app a b : sol (a ++ b)%list = sol a ++ sol b.
Proof. induction a; cbn; [reflexivity|]. unfold sol in *. cbn. rewrite IHa. reflexivity. Qed.
Lemma sol_los s : sol (los s) = s.
Proof. apply string_of_list_ascii_of_string. Qed.
Lemma los_sol l : los (sol l) = l.
Proof. apply list_ascii_of_string_of_list_ascii. Qed.
Lemma len_los s : List.length (los s) = len s.
Proof. induction s; cbn; [reflexivity|]. unfold los in *. cbn. rewrite IHs. reflexivity. Qed.
Lemma los_rep c n : los (rep c n) = repeat c n.
Proof. induction n; cbn; [reflexivity|]. unfold los in *. cbn. rewrite IHn. reflexivity. Qed.
Lemma los_take n : forall s, los (take n s) = firstn n (los s).
Proof. induction n; intros [|c r]; cbn; try reflexivity. unfold los in *. cbn. rewrite IHn. reflexivity. Qed.
Lemma los_drop n : forall s, los (drop n s) = skipn n (los s).
Proof. induction n; intros [|c r]; cbn; try reflexivity. apply IHn. Qed.
Lemma los_slice a b s : los (slice a b s) = firstn (b - a) (skipn a (los s)).
Proof. unfold slice. rewrite los_take, los_drop. reflexivity. Qed.
Lemma all_space_sol_repeat n : all_space (sol (repeat " "%char n)) = true.
Proof. induction n; cbn; [reflexivity|]. exact IHn. Qed.

(* ---------------------------------------------------------------------------------- strip lemmas *)
Lemma strip_lead w s : all_space w = true -> strip (w ++ s) = strip s.
Proof.
  intro Hw. destruct (rstrip_decomp s) as (w2 & Hw2 & E).
  assert (Es : strip s = lstrip (rstrip s)) by reflexivity.
  assert (E1 : strip (w ++ (rstrip s ++ w2)) = strip (w ++ rstrip s))
    by (rewrite <- Text.app_assoc; apply strip_app_space; exact Hw2).
  rewrite <- E in E1. rewrite E1. clear E1 E.
  assert (D : rstrip s = "" \/ rstrip s <> "") by (destruct (rstrip s); [left; reflexivity | right; discriminate]).
  destruct D as [R|R].
  - rewrite R, Text.app_nil_r, strip_all_space by exact Hw. rewrite Es, R. reflexivity.
  - assert (RT : rtrimmed is_space (rstrip s) = true) by apply rtrimmed_rstrip_by.
    unfold strip at 1, strip_by. fold rstrip. unfold rstrip at 1. rewrite rstrip_by_rtrimmed.
    + rewrite lstrip_by_app_all by exact Hw. rewrite Es. reflexivity.
    + apply rtrimmed_app; [exact R | exact RT].
Qed.

Lemma strip_pad_gen a s b : all_space a = true -> all_space b = true -> strip (a ++ s ++ b) = strip s.
Proof. intros Ha Hb. rewrite strip_lead by exact Ha. apply strip_app_space. exact Hb. Qed.

(* ----------------------------------------------------------------- cells paired with characters *)
Notation rc := (cell * ascii)%type.
Definition lit_rc (s : string) : list rc := map (fun c => (CLit c, c)) (los s).
Definition pad_rc (n : nat) : list rc := repeat (CPad, " "%char) n.
Definition win_rc (i : nat) (s : string) : list rc := map (fun c => (CWin i, c)) (los s).
Definition window (f : fld) (c : string) : string :=
  match f_al f with AR => rjust (win_len f) c | AL => ljust (win_len f) c end.
Definition fld_rc (i : nat) (f : fld) (c : string) : list rc :=
  match f_al f with
  | AR => pad_rc (f_w f - win_len f) ++ win_rc i (window f c)
  | AL => win_rc i (window f c) ++ pad_rc (f_w f - win_len f)
  end%list.
Fixpoint rc_from (i : nat) (lay : layout) (cs : list string) : list rc :=
  match lay with
  | [] => []
  | Lit s :: r => lit_rc s ++ rc_from i r cs
  | Fld f :: r => match cs with
                  | c :: cs' => fld_rc i f c ++ rc_from (S i) r cs'
                  | [] => fld_rc i f "" ++ rc_from (S i) r []
                  end
  end%list.

(* "every field has a width and its content fits" *)
Definition okb (lay : layout) (cs : list string) : bool := fits lay cs && static lay.

Lemma okb_lit s r cs : okb (Lit s :: r) cs = okb r cs.
Proof. reflexivity. Qed.
Lemma okb_fld f r cs : okb (Fld f :: r) cs = true ->
  exists c cs', cs = c :: cs' /\ (len c <= win_len f)%nat /\ (win_len f <= f_w f)%nat /\ okb r cs' = true.
Proof.
  unfold okb, fits, static. cbn [fields_of fitsb forallb]. destruct cs as [|c cs']; [discriminate|].
  intro H. apply andb_true_iff in H. destruct H as [H1 H2].
  apply andb_true_iff in H1. destruct H1 as [F1 F2]. apply andb_true_iff in H2. destruct H2 as [S1 S2].
  exists c, cs'. split; [reflexivity|]. unfold fit1 in F1. apply negb_true_iff in S1. rewrite S1 in F1. cbn in F1.
  apply Nat.leb_le in F1. split; [exact F1|]. split; [unfold win_len; lia|]. rewrite F2, S2. reflexivity.
Qed.

Lemma map_fst_pad n : map fst (pad_rc n) = repeat CPad n.
Proof. induction n; cbn; [reflexivity|]. unfold pad_rc in *. rewrite IHn. reflexivity. Qed.
Lemma map_snd_pad n : map snd (pad_rc n) = repeat " "%char n.
Proof. induction n; cbn; [reflexivity|]. unfold pad_rc in *. rewrite IHn. reflexivity. Qed.
Lemma map_fst_win i s : map fst (win_rc i s) = repeat (CWin i) (len s).
Proof. unfold win_rc. induction s; cbn; [reflexivity|]. unfold los in *. rewrite IHs. reflexivity. Qed.
Lemma map_snd_win i s : map snd (win_rc i s) = los s.
Proof. unfold win_rc. rewrite map_map. cbn. apply map_id. Qed.
Lemma map_fst_lit s : map fst (lit_rc s) = map CLit (los s).
Proof. unfold lit_rc. rewrite map_map. reflexivity. Qed.
Lemma map_snd_lit s : map snd (lit_rc s) = los s.
Proof. unfold lit_rc. rewrite map_map. cbn. apply map_id. Qed.

Lemma len_window f c : (len c <= win_len f)%nat -> len (window f c) = win_len f.
Proof. intro H. unfold window. destruct (f_al f); [apply len_ljust | apply len_rjust]; exact H. Qed.

Lemma fld_rc_skel i f c : (len c <= win_len f)%nat -> map fst (fld_rc i f c) = fld_skel i f.
Proof.
  intro H. unfold fld_rc, fld_skel. destruct (f_al f) eqn:A; rewrite map_app, map_fst_pad, map_fst_win;
    rewrite (len_window f c H); reflexivity.
Qed.

Lemma repeat_add {A} (x : A) a b : repeat x (a + b) = (repeat x a ++ repeat x b)%list.
Proof. induction a; cbn; [reflexivity|]. rewrite IHa. reflexivity. Qed.

Lemma fld_rc_chars i f c : (len c <= win_len f)%nat -> (win_len f <= f_w f)%nat ->
  map snd (fld_rc i f c) = los (render_field f c).
Proof.
  intros H1 H2. unfold fld_rc, render_field, window. destruct (f_al f); rewrite map_app, map_snd_pad, map_snd_win.
  - unfold ljust, ljust_with. rewrite !los_app, !los_rep, <- List.app_assoc, <- repeat_add. do 2 f_equal. lia.
  - unfold rjust, rjust_with. rewrite !los_app, !los_rep, List.app_assoc, <- repeat_add. do 2 f_equal. lia.
Qed.

Lemma rc_skel : forall lay i cs, okb lay cs = true -> map fst (rc_from i lay cs) = skel_from i lay.
Proof.
  induction lay as [|[s|f] r IH]; intros i cs H; cbn [rc_from skel_from]; [reflexivity| |].
  - rewrite map_app, map_fst_lit, IH by exact H. reflexivity.
  - destruct (okb_fld _ _ _ H) as (c & cs' & -> & L1 & L2 & H'). rewrite map_app, fld_rc_skel, IH by assumption. reflexivity.
Qed.

Lemma rc_chars : forall lay i cs, okb lay cs = true -> map snd (rc_from i lay cs) = los (render_c lay cs).
Proof.
  induction lay as [|[s|f] r IH]; intros i cs H; cbn [rc_from render_c]; [reflexivity| |].
  - rewrite map_app, map_snd_lit, IH, los_app by exact H. reflexivity.
  - destruct (okb_fld _ _ _ H) as (c & cs' & -> & L1 & L2 & H'). rewrite map_app, fld_rc_chars, IH, los_app by assumption. reflexivity.
Qed.

Definition rcok (p : rc) : Prop :=
  match fst p with CLit x => snd p = x | CPad => snd p = " "%char | CWin _ => True end.

Lemma rcok_pad n : Forall rcok (pad_rc n).
Proof. unfold pad_rc. induction n; cbn; constructor; [reflexivity | exact IHn]. Qed.
Lemma rcok_win i s : Forall rcok (win_rc i s).
Proof. unfold win_rc. induction (los s); cbn; constructor; [exact I | assumption]. Qed.
Lemma rcok_lit s : Forall rcok (lit_rc s).
Proof. unfold lit_rc. induction (los s); cbn; constructor; [reflexivity | assumption]. Qed.
Lemma rcok_fld i f c : Forall rcok (fld_rc i f c).
Proof. unfold fld_rc. destruct (f_al f); apply Forall_app; split; auto using rcok_pad, rcok_win. Qed.
Lemma rc_ok : forall lay i cs, Forall rcok (rc_from i lay cs).
Proof.
  induction lay as [|[s|f] r IH]; intros i cs; cbn [rc_from]; [constructor| |].
  - apply Forall_app; split; [apply rcok_lit | apply IH].
  - destruct cs; apply Forall_app; split; auto using rcok_fld.
Qed.

(* ------------------------------------------------------------------------- the window of field i *)
Definition winp (i : nat) (p : rc) : bool := is_win i (fst p).
Definition sel (i : nat) (l : list rc) : list ascii := map snd (filter (winp i) l).

Lemma sel_app i a b : sel i (a ++ b) = (sel i a ++ sel i b)%list.
Proof. unfold sel. rewrite filter_app, map_app. reflexivity. Qed.
Lemma sel_pad i n : sel i (pad_rc n) = [].
Proof. unfold sel, pad_rc. induction n; cbn; [reflexivity | exact IHn]. Qed.
Lemma sel_lit i s : sel i (lit_rc s) = [].
Proof. unfold sel, lit_rc. induction (los s); cbn; [reflexivity | assumption]. Qed.
Lemma sel_win_same i s : sel i (win_rc i s) = los s.
Proof.
  unfold sel, win_rc. induction (los s) as [|a l IH]; cbn; [reflexivity|].
  unfold winp at 1. cbn. rewrite Nat.eqb_refl. cbn. f_equal. exact IH.
Qed.
Lemma sel_win_other i j s : i <> j -> sel i (win_rc j s) = [].
Proof.
  intro H. unfold sel, win_rc. induction (los s) as [|a l IH]; cbn; [reflexivity|].
  unfold winp at 1. cbn. destruct (Nat.eqb_spec i j); [contradiction | exact IH].
Qed.
Lemma sel_fld_same i f c : sel i (fld_rc i f c) = los (window f c).
Proof.
  unfold fld_rc. destruct (f_al f); rewrite sel_app, sel_pad, sel_win_same; [apply List.app_nil_r | reflexivity].
Qed.
Lemma sel_fld_other i j f c : i <> j -> sel i (fld_rc j f c) = [].
Proof. intro H. unfold fld_rc. destruct (f_al f); rewrite sel_app, sel_pad, sel_win_other by exact H; reflexivity. Qed.

Lemma sel_later : forall lay i j cs, (i < j)%nat -> sel i (rc_from j lay cs) = [].
Proof.
  induction lay as [|[s|f] r IH]; intros i j cs H; cbn [rc_from]; [reflexivity| |].
  - rewrite sel_app, sel_lit. apply IH. exact H.
  - destruct cs; rewrite sel_app, sel_fld_other by lia; apply IH; lia.
Qed.

(* window string and content of the field with index i, walking the layout from index j *)
Fixpoint win_of (j : nat) (lay : layout) (cs : list string) (i : nat) : string :=
  match lay with
  | [] => ""
  | Lit _ :: r => win_of j r cs i
  | Fld f :: r => match cs with
                  | c :: cs' => if (i =? j)%nat then window f c else win_of (S j) r cs' i
                  | [] => if (i =? j)%nat then window f "" else win_of (S j) r [] i
                  end
  end.
Fixpoint cont_of (j : nat) (lay : layout) (cs : list string) (i : nat) : string :=
  match lay with
  | [] => ""
  | Lit _ :: r => cont_of j r cs i
  | Fld f :: r => match cs with
                  | c :: cs' => if (i =? j)%nat then c else cont_of (S j) r cs' i
                  | [] => ""
                  end
  end.

Lemma sel_rc : forall lay j cs i, sel i (rc_from j lay cs) = los (win_of j lay cs i).
Proof.
  induction lay as [|[s|f] r IH]; intros j cs i; cbn [rc_from win_of]; [reflexivity| |].
  - rewrite sel_app, sel_lit. apply IH.
  - destruct cs as [|c cs']; rewrite sel_app; destruct (Nat.eqb_spec i j) as [->|N].
    + rewrite sel_fld_same, sel_later by lia. apply List.app_nil_r.
    + rewrite sel_fld_other by exact N. apply IH.
    + rewrite sel_fld_same, sel_later by lia. apply List.app_nil_r.
    + rewrite sel_fld_other by exact N. apply IH.
Qed.

Lemma strip_window f c : strip (window f c) = strip c.
Proof.
  unfold window. destruct (f_al f).
  - unfold ljust, ljust_with. apply strip_app_space. apply all_space_spaces.
  - unfold rjust, rjust_with. apply strip_lead. apply all_space_spaces.
Qed.

Lemma strip_win_cont : forall lay j cs i, okb lay cs = true -> strip (win_of j lay cs i) = strip (cont_of j lay cs i).
Proof.
  induction lay as [|[s|f] r IH]; intros j cs i H; cbn [win_of cont_of]; [reflexivity| |].
  - apply IH. exact H.
  - destruct (okb_fld _ _ _ H) as (c & cs' & -> & _ & _ & H'). destruct (i =? j)%nat; [apply strip_window | apply IH; exact H'].
Qed.

Lemma cont_nth : forall lay j cs i, fits lay cs = true -> (j <= i)%nat -> cont_of j lay cs i = nth (i - j) cs "".
Proof.
  unfold fits. induction lay as [|[s|f] r IH]; intros j cs i H Hj; cbn [cont_of fields_of fitsb] in *.
  - destruct cs; [destruct (i - j)%nat; reflexivity | discriminate].
  - apply IH; assumption.
  - destruct cs as [|c cs']; [discriminate|]. apply andb_true_iff in H. destruct H as [_ H].
    destruct (Nat.eqb_spec i j) as [->|N].
    + rewrite Nat.sub_diag. reflexivity.
    + rewrite IH by (assumption || lia). replace (i - j)%nat with (S (i - S j)) by lia. reflexivity.
Qed.

(* ------------------------------------------------------------------- decomposition of a column *)
Lemma drop_blank_split l : exists A, l = (A ++ drop_blank l)%list /\ forallb blank_cell A = true.
Proof.
  induction l as [|c r (A & E & HA)]; [exists []; split; reflexivity|]. cbn [drop_blank].
  destruct (blank_cell c) eqn:B.
  - exists (c :: A). split; [cbn; f_equal; exact E | cbn; rewrite B; exact HA].
  - exists []. split; reflexivity.
Qed.

Lemma drop_win_split i l : exists W, l = (W ++ drop_win i l)%list /\ forallb (is_win i) W = true /\
  List.length W = (List.length l - List.length (drop_win i l))%nat.
Proof.
  induction l as [|c r (W & E & HW & HL)]; [exists []; repeat split|]. cbn [drop_win].
  destruct (is_win i c) eqn:B.
  - exists (c :: W). split; [cbn; f_equal; exact E|]. split; [cbn; rewrite B; exact HW|].
    cbn [List.length]. rewrite HL.
    assert (List.length (drop_win i r) <= List.length r)%nat.
    { rewrite E at 2. rewrite app_length. lia. }
    lia.
  - exists []. repeat split. cbn. lia.
Qed.

Lemma blank_not_win i c : blank_cell c = true -> is_win i c = false.
Proof. destruct c; cbn; congruence. Qed.

Lemma sel_blank i l : forallb blank_cell (map fst l) = true -> sel i l = [].
Proof.
  unfold sel. induction l as [|p r IH]; cbn; [reflexivity|]. intro H. apply andb_true_iff in H. destruct H as [H1 H2].
  unfold winp at 1. rewrite (blank_not_win i _ H1). apply IH. exact H2.
Qed.
Lemma sel_allwin i l : forallb (is_win i) (map fst l) = true -> sel i l = map snd l.
Proof.
  unfold sel. induction l as [|p r IH]; cbn; [reflexivity|]. intro H. apply andb_true_iff in H. destruct H as [H1 H2].
  unfold winp at 1. rewrite H1. cbn. f_equal. apply IH. exact H2.
Qed.
Lemma count_sel i l : count_win i (map fst l) = List.length (sel i l).
Proof.
  unfold count_win, sel. rewrite map_length. induction l as [|p r IH]; cbn; [reflexivity|].
  unfold winp at 1. destruct (is_win i (fst p)); cbn; rewrite IH; reflexivity.
Qed.

Lemma blank_chars l : Forall rcok l -> forallb blank_cell (map fst l) = true -> all_space (sol (map snd l)) = true.
Proof.
  induction 1 as [|[c a] r Hp _ IH]; cbn; [reflexivity|]. intro H. apply andb_true_iff in H. destruct H as [H1 H2].
  unfold rcok in Hp. cbn in Hp, H1. change (all_space (String a (sol (map snd r))) = true).
  unfold all_space. cbn [all_by]. fold all_space. rewrite (IH H2), andb_true_r.
  destruct c; cbn in *; [subst; exact H1 | subst; reflexivity | discriminate].
Qed.

Lemma lit_chars l : Forall rcok l -> forall s, lit_string (map fst l) = Some s -> sol (map snd l) = s.
Proof.
  induction 1 as [|[c a] r Hp _ IH]; cbn; intros s H; [inversion H; reflexivity|].
  destruct c; cbn in H; try discriminate. destruct (lit_string (map fst r)) eqn:E; [|discriminate].
  inversion H; subst. unfold rcok in Hp. cbn in Hp. subst. change (String c (sol (map snd r)) = String c s0). f_equal. apply IH. reflexivity.
Qed.

Lemma map_fst_split (l : list rc) A B : map fst l = (A ++ B)%list ->
  exists la lb, l = (la ++ lb)%list /\ map fst la = A /\ map fst lb = B.
Proof. intro H. apply map_eq_app in H. exact H. Qed.

(* the core: a column that [span_class] assigns to field i holds exactly the window of field i between blanks *)
Lemma span_core (l : list rc) a n i :
  Forall rcok l ->
  span_class (map fst l) (map fst (firstn n (skipn a l))) = Some (PFld i) ->
  strip (sol (map snd (firstn n (skipn a l)))) = strip (sol (sel i l)).
Proof.
  intros Hok H. set (Sp := firstn n (skipn a l)) in *.
  assert (Hl : l = (firstn a l ++ Sp ++ skipn n (skipn a l))%list).
  { unfold Sp. rewrite firstn_skipn, firstn_skipn. reflexivity. }
  unfold span_class in H.
  destruct (drop_blank_split (map fst Sp)) as (A & EA & HA).
  destruct (drop_blank (map fst Sp)) as [|c0 r0] eqn:DB.
  { destruct (lit_string (map fst Sp)); discriminate. }
  destruct c0 as [x| |i0].
  { destruct (lit_string (map fst Sp)); discriminate. }
  { destruct (lit_string (map fst Sp)); discriminate. }
  destruct (drop_win_split i0 (CWin i0 :: r0)) as (W & EW & HW & LW).
  set (rest := drop_win i0 (CWin i0 :: r0)) in *.
  destruct (forallb blank_cell rest && (List.length (CWin i0 :: r0) - List.length rest =? count_win i0 (map fst l))%nat) eqn:C;
    [|discriminate].
  inversion H; subst i0. clear H. apply andb_true_iff in C. destruct C as [HB HC]. apply Nat.eqb_eq in HC.
  rewrite EW in EA.
  destruct (map_fst_split Sp A (W ++ rest) EA) as (SA & Sq & ES & MA & M').
  destruct (map_fst_split Sq W rest M') as (SW & SB & ES' & MW & MB).
  subst Sq. 
  assert (Hsel : sel i l = map snd SW).
  { assert (E1 : sel i l = (sel i (firstn a l) ++ sel i SW ++ sel i (skipn n (skipn a l)))%list).
    { rewrite Hl at 1. rewrite ES. rewrite !sel_app. rewrite (sel_blank i SA) by (rewrite MA; exact HA).
      rewrite (sel_blank i SB) by (rewrite MB; exact HB). cbn [app]. rewrite List.app_nil_r. reflexivity. }
    assert (E2 : sel i SW = map snd SW) by (apply sel_allwin; rewrite MW; exact HW).
    assert (L : List.length (sel i l) = List.length SW).
    { rewrite <- count_sel, <- HC, <- LW, <- MW, map_length. reflexivity. }
    rewrite E1, E2, !app_length, map_length in L.
    assert (Z1 : sel i (firstn a l) = []) by (apply length_zero_iff_nil; lia).
    assert (Z2 : sel i (skipn n (skipn a l)) = []) by (apply length_zero_iff_nil; lia).
    rewrite E1, Z1, Z2, E2. cbn [app]. apply List.app_nil_r. }
  rewrite Hsel, ES, !map_app, !sol_app.
  assert (OKS : Forall rcok Sp).
  { rewrite Hl in Hok. apply Forall_app in Hok. destruct Hok as [_ Hok]. apply Forall_app in Hok. apply Hok. }
  rewrite ES in OKS. apply Forall_app in OKS. destruct OKS as [OA OKS]. apply Forall_app in OKS. destruct OKS as [_ OB].
  apply strip_pad_gen; apply blank_chars; try assumption; [rewrite MA; exact HA | rewrite MB; exact HB].
Qed.

(* the same for a column of literals / blanks *)
Lemma span_core_const (l : list rc) a n s :
  Forall rcok l ->
  span_class (map fst l) (map fst (firstn n (skipn a l))) = Some (PConst s) ->
  strip (sol (map snd (firstn n (skipn a l)))) = s.
Proof.
  intros Hok H. set (Sp := firstn n (skipn a l)) in *.
  assert (OKS : Forall rcok Sp).
  { assert (Hl : l = (firstn a l ++ Sp ++ skipn n (skipn a l))%list) by (unfold Sp; rewrite firstn_skipn, firstn_skipn; reflexivity).
    rewrite Hl in Hok. apply Forall_app in Hok. destruct Hok as [_ Hok]. apply Forall_app in Hok. apply Hok. }
  unfold span_class in H.
  pose proof (drop_blank_split (map fst Sp)) as DS.
  destruct (drop_blank (map fst Sp)) as [|c0 r0] eqn:DB.
  - destruct DS as (A & EA & HA). rewrite List.app_nil_r in EA.
    destruct (lit_string (map fst Sp)) as [s'|] eqn:LS; inversion H; subst.
    + rewrite (lit_chars Sp OKS s' LS). reflexivity.
    + apply strip_all_space. apply blank_chars; [exact OKS | first [exact HA | rewrite EA; exact HA]].
  - destruct c0 as [x| |i0].
    + destruct (lit_string (map fst Sp)) as [s'|] eqn:LS; inversion H; subst. rewrite (lit_chars Sp OKS s' LS). reflexivity.
    + destruct (lit_string (map fst Sp)) as [s'|] eqn:LS; inversion H; subst. rewrite (lit_chars Sp OKS s' LS). reflexivity.
    + destruct (forallb blank_cell (drop_win i0 (CWin i0 :: r0)) &&
                (List.length (CWin i0 :: r0) - List.length (drop_win i0 (CWin i0 :: r0)) =? count_win i0 (map fst l))%nat); discriminate.
Qed.

(* a field index that occurs in the skeleton is a field of the layout *)
Lemma in_skel_bound : forall lay j i, In (CWin i) (skel_from j lay) -> (j <= i < j + List.length (fields_of lay))%nat.
Proof.
  induction lay as [|[s|f] r IH]; intros j i H; cbn [skel_from fields_of List.length] in *; [contradiction| |].
  - apply in_app_or in H. destruct H as [H|H]; [|apply IH; exact H].
    apply in_map_iff in H. destruct H as (x & E & _). discriminate.
  - apply in_app_or in H. destruct H as [H|H].
    + unfold fld_skel in H. destruct (f_al f); apply in_app_or in H; destruct H as [H|H]; apply repeat_spec in H;
        try discriminate; inversion H; lia.
    + apply IH in H. lia.
Qed.

Lemma span_class_fld_in sk sub i : span_class sk sub = Some (PFld i) -> In (CWin i) sub.
Proof.
  unfold span_class. destruct (drop_blank_split sub) as (A & EA & _).
  destruct (drop_blank sub) as [|c0 r0] eqn:DB; [destruct (lit_string sub); discriminate|].
  destruct c0 as [x| |i0]; try (destruct (lit_string sub); discriminate).
  destruct (forallb blank_cell (drop_win i0 (CWin i0 :: r0)) && _); [|discriminate].
  intro H. injection H as Hi. rewrite <- Hi. rewrite EA. apply in_or_app. right. left. reflexivity.
Qed.

Lemma in_sub_cells {A} (x : A) a n l : In x (firstn n (skipn a l)) -> In x l.
Proof. intro H. rewrite <- (firstn_skipn a l). apply in_or_app. right. rewrite <- (firstn_skipn n (skipn a l)). apply in_or_app. left. exact H. Qed.

(* closed column of a static layout *)
Lemma slice_is_sub lay cs a n : okb lay cs = true ->
  take n (drop a (render_c lay cs)) = sol (map snd (firstn n (skipn a (rc_from 0 lay cs)))).
Proof.
  intro H. rewrite <- firstn_map, <- skipn_map, (rc_chars lay 0 cs H), <- los_drop, <- los_take. symmetry. apply sol_los.
Qed.

Theorem span_sound lay cs a b i :
  static lay = true -> fits lay cs = true ->
  span_class (skel lay) (sub_cells a b (skel lay)) = Some (PFld i) ->
  strip (slice a b (render_c lay cs)) = strip (nth i cs "").
Proof.
  intros Hs Hf H. assert (Hok : okb lay cs = true) by (unfold okb; rewrite Hf, Hs; reflexivity).
  unfold skel, sub_cells in H. rewrite <- (rc_skel lay 0 cs Hok), skipn_map, firstn_map in H.
  unfold slice. rewrite (slice_is_sub lay cs a (b - a) Hok).
  rewrite (span_core _ _ _ _ (rc_ok lay 0 cs) H), sel_rc, sol_los, (strip_win_cont lay 0 cs i Hok).
  rewrite (cont_nth lay 0 cs i Hf) by lia. rewrite Nat.sub_0_r. reflexivity.
Qed.

Theorem span_const_sound lay cs a b s :
  static lay = true -> fits lay cs = true ->
  span_class (skel lay) (sub_cells a b (skel lay)) = Some (PConst s) ->
  strip (slice a b (render_c lay cs)) = s.
Proof.
  intros Hs Hf H. assert (Hok : okb lay cs = true) by (unfold okb; rewrite Hf, Hs; reflexivity).
  unfold skel, sub_cells in H. rewrite <- (rc_skel lay 0 cs Hok), skipn_map, firstn_map in H.
  unfold slice. rewrite (slice_is_sub lay cs a (b - a) Hok).
  exact (span_core_const _ _ _ _ (rc_ok lay 0 cs) H).
Qed.

Lemma len_render_skel lay cs : okb lay cs = true -> len (render_c lay cs) = List.length (skel lay).
Proof.
  intro H. unfold skel. rewrite <- (rc_skel lay 0 cs H), map_length, <- (map_length snd), (rc_chars lay 0 cs H). symmetry. apply len_los.
Qed.

(* ------------------------------------------------------------------ layouts with a free-text tail *)
Definition tail_items (t : option fld) : layout := match t with Some f => [Fld f] | None => [] end.

Lemma split_tail_spec : forall lay st tl, split_tail lay = (st, tl) ->
  lay = (st ++ tail_items tl)%list /\ (forall f, tl = Some f -> is_tail f = true).
Proof.
  induction lay as [|it r IH]; intros st tl H; cbn [split_tail] in H.
  - inversion H; subst. split; [reflexivity | discriminate].
  - destruct r as [|it2 r2].
    + destruct it as [s|f].
      * inversion H; subst. split; [reflexivity | discriminate].
      * destruct (is_tail f) eqn:T; inversion H; subst; split; try reflexivity; try discriminate.
        intros f0 E. inversion E; subst. exact T.
    + destruct (split_tail (it2 :: r2)) as [a t] eqn:E.
      assert (H' : (it :: a, t) = (st, tl)) by (destruct it; exact H).
      inversion H'; subst. destruct (IH a tl eq_refl) as [E1 E2]. split; [cbn; rewrite <- E1; reflexivity | exact E2].
Qed.

Lemma fields_of_app (a b : layout) : fields_of (a ++ b)%list = (fields_of a ++ fields_of b)%list.
Proof. induction a as [|[s|f] r IH]; cbn; [reflexivity | exact IH | rewrite IH; reflexivity]. Qed.

Lemma fitsb_app_inv : forall (fa fb : list fld) cs, fitsb (fa ++ fb)%list cs = true ->
  exists ca cb, cs = (ca ++ cb)%list /\ fitsb fa ca = true /\ fitsb fb cb = true /\ List.length ca = List.length fa.
Proof.
  induction fa as [|f fa IH]; intros fb cs H; cbn [app fitsb] in *.
  - exists [], cs. repeat split. exact H.
  - destruct cs as [|c cs']; [discriminate|]. apply andb_true_iff in H. destruct H as [H1 H2].
    destruct (IH fb cs' H2) as (ca & cb & -> & Ha & Hb & L). exists (c :: ca), cb. cbn. rewrite H1, Ha. repeat split; auto.
Qed.

Lemma render_c_app : forall (la lb : layout) (ca cb : list string), fitsb (fields_of la) ca = true ->
  render_c (la ++ lb)%list (ca ++ cb)%list = render_c la ca ++ render_c lb cb.
Proof.
  induction la as [|[s|f] r IH]; intros lb ca cb H; cbn [app render_c fields_of fitsb] in *.
  - destruct ca; [reflexivity | discriminate].
  - rewrite IH by exact H. symmetry. apply Text.app_assoc.
  - destruct ca as [|c ca']; [discriminate|]. apply andb_true_iff in H. destruct H as [_ H].
    cbn [app]. rewrite IH by exact H. symmetry. apply Text.app_assoc.
Qed.

Lemma render_tail f c : is_tail f = true -> render_c [Fld f] [c] = c.
Proof.
  intro T. unfold is_tail in T. apply Nat.eqb_eq in T. cbn [render_c]. unfold render_field. rewrite T.
  destruct (f_al f); unfold ljust, rjust, ljust_with, rjust_with; cbn [Nat.sub rep]; rewrite ?Text.app_nil_r; reflexivity.
Qed.

(* ------------------------------------------------------------------------- one parser column *)
Theorem span_map1_sound lay cs sp p :
  fits lay cs = true -> span_map1 lay sp = Some p ->
  strip (slice_span sp (render_c lay cs)) = expected1 cs (Some p).
Proof.
  intros Hf H. unfold span_map1 in H. destruct (split_tail lay) as [st tl] eqn:ST.
  destruct (split_tail_spec lay st tl ST) as [El Htl].
  destruct (static st) eqn:Hs; [|discriminate]. cbn [negb] in H.
  unfold fits in Hf. rewrite El, fields_of_app in Hf.
  destruct (fitsb_app_inv _ _ _ Hf) as (c1 & c2 & Ecs & F1 & F2 & L1).
  assert (Hok : okb st c1 = true) by (unfold okb, fits; rewrite F1, Hs; reflexivity).
  assert (Hlen := len_render_skel st c1 Hok).
  assert (Er : render_c lay cs = render_c st c1 ++ render_c (tail_items tl) c2)
    by (rewrite El, Ecs; apply render_c_app; exact F1).
  destruct sp as [a [b|]].
  - (* closed column *)
    destruct (b <=? List.length (skel st))%nat eqn:Hb; [|discriminate]. apply Nat.leb_le in Hb.
    cbn [slice_span]. rewrite Er, slice_app_left by lia.
    destruct p as [i|s]; cbn [expected1].
    + rewrite (span_sound st c1 a b i Hs F1 H).
      assert (Hi : (i < List.length c1)%nat).
      { apply span_class_fld_in in H. unfold sub_cells in H. apply in_sub_cells in H. apply in_skel_bound in H. lia. }
      rewrite Ecs, app_nth1 by exact Hi. reflexivity.
    + exact (span_const_sound st c1 a b s Hs F1 H).
  - (* open-ended column *)
    cbn [slice_span].
    destruct tl as [f|].
    + destruct ((a <=? List.length (skel st))%nat && forallb blank_cell (skipn a (skel st))) eqn:C; [|discriminate].
      inversion H; subst p. clear H. apply andb_true_iff in C. destruct C as [Ha Hbl]. apply Nat.leb_le in Ha.
      cbn [tail_items fields_of fitsb] in F2. destruct c2 as [|ct [|? ?]]; try discriminate.
      2:{ apply andb_true_iff in F2. destruct F2 as [_ F2]. discriminate. }
      rewrite Er. cbn [tail_items]. rewrite (render_tail f ct (Htl f eq_refl)).
      cbn [expected1]. rewrite Ecs, app_nth2, L1, Nat.sub_diag by lia. cbn [nth].
      rewrite drop_app. replace (a - len (render_c st c1))%nat with 0%nat by lia. rewrite drop_0.
      apply strip_lead.
      assert (E : drop a (render_c st c1) = sol (map snd (skipn a (rc_from 0 st c1)))).
      { rewrite <- skipn_map, (rc_chars st 0 c1 Hok), <- los_drop. symmetry. apply sol_los. }
      rewrite E. apply blank_chars.
      * pose proof (rc_ok st 0 c1) as OK. rewrite <- (firstn_skipn a (rc_from 0 st c1)) in OK. apply Forall_app in OK. apply OK.
      * rewrite <- skipn_map, (rc_skel st 0 c1 Hok). exact Hbl.
    + destruct (a <=? List.length (skel st))%nat eqn:Ha; [|discriminate]. apply Nat.leb_le in Ha.
      cbn [tail_items fields_of fitsb] in F2. destruct c2; [|discriminate].
      cbn [tail_items render_c] in Er. rewrite Text.app_nil_r in Er. rewrite List.app_nil_r in Ecs. subst c1.
      assert (E1 : drop a (render_c lay cs) = slice a (List.length (skel st)) (render_c st cs)).
      { rewrite Er. unfold slice. symmetry. apply take_all. rewrite len_drop. lia. }
      assert (E2 : skipn a (skel st) = sub_cells a (List.length (skel st)) (skel st)).
      { unfold sub_cells. symmetry. apply firstn_all2. rewrite skipn_length. lia. }
      rewrite E1. rewrite E2 in H.
      destruct p as [i|s]; cbn [expected1].
      * exact (span_sound st cs a _ i Hs F1 H).
      * exact (span_const_sound st cs a _ s Hs F1 H).
Qed.

(* ------------------------------------------------------------------------------- the theorem *)
Theorem layout_compatible_sound_l : forall lay spans cs,
  compatible lay spans = true -> fits lay cs = true ->
  parse_slices spans (render_c lay cs) = map (expected1 cs) (span_map lay spans).
Proof.
  intros lay spans cs Hc Hf. unfold parse_slices, span_map, compatible, span_map in *. rewrite map_map.
  induction spans as [|sp r IH]; [reflexivity|]. cbn [map forallb] in *.
  apply andb_true_iff in Hc. destruct Hc as [H1 H2]. rewrite (IH H2). f_equal.
  destruct (span_map1 lay sp) as [p|] eqn:E; [|discriminate]. exact (span_map1_sound lay cs sp p Hf E).
Qed.

Corollary layout_compatible_values_l : forall lay spans vals,
  compatible lay spans = true -> fits lay (contents lay vals) = true ->
  parse_slices spans (render_line lay vals) = map (expected1 (contents lay vals)) (span_map lay spans).
Proof. intros. apply layout_compatible_sound_l; assumption. Qed.

(* numeric columns: what float() of the parser column returns is the printed (correctly rounded) decimal *)
Corollary column_reads_printed_value_l : forall lay spans vals k i d m e,
  compatible lay spans = true -> fits lay (contents lay vals) = true ->
  nth k (span_map lay spans) None = Some (PFld i) ->
  nth i (contents lay vals) "" = py_fix d (Dy m e) ->
  (fix_mant d m e <> 0 \/ 0 < m)%Z ->
  parse_float (nth k (parse_slices spans (render_line lay vals)) "") = Some (dec_value (fix_mant d m e) d).
Proof.
  intros lay spans vals k i d m e Hc Hf Hk Hi Hr.
  rewrite (layout_compatible_values_l lay spans vals Hc Hf).
  assert (E : nth k (map (expected1 (contents lay vals)) (span_map lay spans)) "" = strip (py_fix d (Dy m e))).
  { destruct (Nat.lt_ge_cases k (List.length (span_map lay spans))) as [L|L].
    - rewrite (nth_indep _ "" (expected1 (contents lay vals) None)) by (rewrite map_length; exact L).
      rewrite map_nth, Hk. cbn [expected1]. rewrite Hi. reflexivity.
    - rewrite nth_overflow in Hk by exact L. discriminate. }
  rewrite E. unfold parse_float. rewrite parse_float_strip.
  unfold py_fix. destruct ((fix_mant d m e =? 0)%Z && (m <? 0)%Z) eqn:B.
  - exfalso. apply andb_true_iff in B. destruct B as [B1 B2]. apply Z.eqb_eq in B1. apply Z.ltb_lt in B2. lia.
  - exact (parse_render_F 0 d (fix_mant d m e)).
Qed.
