(* C05 - accuracy of the one-step algorithm on a curve: one Taylor-model certificate (Coq-Interval, univariate) per file. *)
From Coq Require Import Reals.
From Interval Require Import Tactic.
From Verif Require Import Model.C05_Geodetic Proofs.C05_AccDefs.
Open Scope R_scope.

(* all heights -100 km .. +100 km on the normal at geodetic latitude 3/2 rad, GRS80 *)
Lemma acc_lat_line32 h : -100000 <= h <= 100000 ->
  Rabs (merid_lat grs80_a grs80_f (geo_p grs80_a grs80_f (3/2) h) (geo_z grs80_a grs80_f (3/2) h) - (3/2)) <= 3 / 20000000000000.
Proof.
  intros H. unfold_all.
  interval with (i_bisect h, i_taylor h, i_degree 10, i_prec 80, i_depth 14).
Qed.
