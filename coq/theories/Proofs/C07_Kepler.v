(* C07 - proofs about Model/C07_Kepler.v: elements -> state -> elements (all statements over R, for all elements of an
   elliptic, inclined, non-circular orbit and every GM > 0).  The other direction (state -> elements -> state) is
   Proofs/C07_StateRoundtrip.v. *)
From Coq Require Import Reals Lra Lia ZArith QArith Qreals List Bool.
From Verif Require Import Lib.Dyadic Lib.Atan2 Lib.Ival Lib.Vec3 Lib.Mat3 Gen.C07_Const Model.C07_Kepler.
Import ListNotations.
Open Scope R_scope.

Lemma sc a : sin a * sin a + cos a * cos a = 1.
Proof. pose proof (sin2_cos2 a) as H. unfold Rsqr in H. exact H. Qed.

(* ---------------------------------------------------------------- rotations *)
Lemma R1_rotation a : rotation (R1 a).
Proof. pose proof (sc a). unfold R1. split; [unfold orthogonal|]; mat3_with ltac:(nra). Qed.
Lemma R3_rotation a : rotation (R3 a).
Proof. pose proof (sc a). unfold R3. split; [unfold orthogonal|]; mat3_with ltac:(nra). Qed.

Lemma PQW_rotation k : rotation (PQW k).
Proof. unfold PQW. repeat apply rotation_mul; first [apply R3_rotation | apply R1_rotation]. Qed.

(* the third column of PQW: the orbit normal *)
Definition orbit_normal (k : kepler) : vec3 :=
  V3 (sin (k_i k) * sin (k_Omega k)) (- sin (k_i k) * cos (k_Omega k)) (cos (k_i k)).

Lemma PQW_ez k : mvec (PQW k) ez = orbit_normal k.
Proof.
  unfold PQW, orbit_normal, R1, R3. rewrite !cos_neg, !sin_neg.
  unfold mvec, mmul, ez; simpl. apply vec3_eq; simpl; ring.
Qed.

(* ---------------------------------------------------------------- square roots *)
Lemma sqrt_sqr_pos x : 0 <= x -> sqrt (x * x) = x.
Proof. intros H. apply sqrt_square. exact H. Qed.

Lemma sqrt_unique x y : 0 <= y -> y * y = x -> sqrt x = y.
Proof. intros Hy E. rewrite <- E. apply sqrt_square. exact Hy. Qed.

(* ---------------------------------------------------------------- the orbital-plane quantities *)
Section Forward.
Variable GM : R.
Variable k : kepler.
Hypothesis HGM : 0 < GM.
Hypothesis Hdom : elliptic_inclined k.

Let a := k_a k.
Let e := k_e k.
Let E := k_E k.

Lemma dom_a : 0 < a. Proof. exact (proj1 Hdom). Qed.
Lemma dom_e : 0 < e < 1. Proof. exact (proj1 (proj2 Hdom)). Qed.
Lemma dom_i : 0 < k_i k < PI. Proof. exact (proj2 (proj2 Hdom)). Qed.

Lemma one_minus_ecos_pos : 0 < 1 - e * cos E.
Proof. pose proof dom_e. pose proof (COS_bound E). nra. Qed.

Lemma k2t_r_pos : 0 < k2t_r k.
Proof. unfold k2t_r. fold a e E. apply Rmult_lt_0_compat; [apply dom_a | apply one_minus_ecos_pos]. Qed.

Lemma fac_sqr : k2t_fac k * k2t_fac k = 1 - e * e.
Proof.
  unfold k2t_fac. fold e. rewrite sqrt_sqrt; [ring|]. pose proof dom_e. nra.
Qed.
Lemma fac_pos : 0 < k2t_fac k.
Proof. unfold k2t_fac. fold e. apply sqrt_lt_R0. pose proof dom_e. nra. Qed.

Lemma sqrtGMa_pos : 0 < sqrt (GM * a).
Proof. apply sqrt_lt_R0. apply Rmult_lt_0_compat; [exact HGM | apply dom_a]. Qed.
Lemma sqrtGMa_sqr : sqrt (GM * a) * sqrt (GM * a) = GM * a.
Proof. apply sqrt_sqrt. pose proof dom_a. nra. Qed.

Lemma k2t_v_pos : 0 < k2t_v GM k.
Proof. unfold k2t_v. fold a. apply Rdiv_lt_0_compat; [apply sqrtGMa_pos | apply k2t_r_pos]. Qed.

Lemma k2t_v_r : k2t_v GM k * k2t_r k = sqrt (GM * a).
Proof. unfold k2t_v. fold a. field. pose proof k2t_r_pos. lra. Qed.

(* |r_orb|^2 = r^2 *)
Lemma r_orb_norm2 : norm2 (r_orb k) = k2t_r k * k2t_r k.
Proof.
  pose proof fac_sqr as F. pose proof (sc E) as T.
  unfold norm2, dot, r_orb, k2t_r; simpl. fold a e E. fold a e E in F.
  set (f := k2t_fac k) in *.
  replace (a * (cos E - e) * (a * (cos E - e)) + a * f * sin E * (a * f * sin E) + 0 * 0)
    with (a * a * ((cos E - e) * (cos E - e) + (f * f) * (sin E * sin E))) by ring.
  rewrite F. replace (sin E * sin E) with (1 - cos E * cos E) by lra. ring.
Qed.

Theorem r_norm_thm : norm (fst (kepler2trs GM k)) = a * (1 - e * cos E).
Proof.
  unfold kepler2trs; simpl.
  rewrite orthogonal_preserves_norm by (apply PQW_rotation).
  unfold norm. rewrite r_orb_norm2. pose proof k2t_r_pos as Hr. rewrite sqrt_square by lra. reflexivity.
Qed.

Lemma v_orb_norm2 : norm2 (v_orb GM k) = GM * (2 / k2t_r k - 1 / a).
Proof.
  pose proof fac_sqr as F. pose proof (sc E) as T. pose proof k2t_r_pos as Hr. pose proof dom_a as Ha.
  pose proof k2t_v_r as Hv. pose proof sqrtGMa_sqr as Hs.
  assert (V2 : k2t_v GM k * k2t_v GM k = GM * a / (k2t_r k * k2t_r k)).
  { assert (Q : k2t_v GM k * k2t_v GM k * (k2t_r k * k2t_r k) = GM * a) by (rewrite <- Hs, <- Hv; ring).
    rewrite <- Q. field. lra. }
  unfold norm2, dot, v_orb; simpl. fold a e E.
  set (f := k2t_fac k) in *. set (vv := k2t_v GM k) in *.
  replace (- vv * sin E * (- vv * sin E) + vv * f * cos E * (vv * f * cos E) + 0 * 0)
    with (vv * vv * (sin E * sin E + (f * f) * (cos E * cos E))) by ring.
  rewrite V2, F. unfold k2t_r. fold a e E.
  replace (sin E * sin E) with (1 - cos E * cos E) by lra.
  field. pose proof one_minus_ecos_pos. split; lra.
Qed.

(* vis-viva: v^2 = GM (2/r - 1/a) *)
Theorem vis_viva_thm :
  let s := kepler2trs GM k in norm (snd s) * norm (snd s) = GM * (2 / norm (fst s) - 1 / a).
Proof.
  cbv zeta. rewrite r_norm_thm. unfold kepler2trs; simpl.
  rewrite orthogonal_preserves_norm by (apply PQW_rotation).
  rewrite norm_sqr, v_orb_norm2. reflexivity.
Qed.

(* r x v in the orbital frame *)
Lemma cross_orb : cross (r_orb k) (v_orb GM k) = vscale (sqrt (GM * a) * k2t_fac k) ez.
Proof.
  pose proof (sc E) as T. pose proof k2t_v_r as Hv.
  unfold cross, r_orb, v_orb, vscale, ez; simpl. fold a e E.
  set (f := k2t_fac k) in *. set (vv := k2t_v GM k) in *.
  apply vec3_eq; simpl; try ring.
  rewrite <- Hv. unfold k2t_r. fold a e E.
  replace (a * (cos E - e) * (vv * f * cos E) - a * f * sin E * (- vv * sin E))
    with (a * vv * f * ((cos E * cos E + sin E * sin E) - e * cos E)) by ring.
  replace (cos E * cos E + sin E * sin E) with 1 by lra. ring.
Qed.

(* angular momentum vector: h = sqrt(GM a (1 - e^2)) * (sin i sin Omega, - sin i cos Omega, cos i) *)
Theorem h_vector_thm :
  let s := kepler2trs GM k in
  cross (fst s) (snd s) = vscale (sqrt (GM * a) * k2t_fac k) (orbit_normal k).
Proof.
  cbv zeta. unfold kepler2trs; simpl.
  rewrite <- rotation_preserves_cross by (apply PQW_rotation).
  rewrite cross_orb, mvec_scale, PQW_ez. reflexivity.
Qed.

Lemma orbit_normal_norm2 : norm2 (orbit_normal k) = 1.
Proof.
  pose proof (sc (k_i k)). pose proof (sc (k_Omega k)).
  unfold norm2, dot, orbit_normal; simpl. nra.
Qed.

Lemma h_scale_pos : 0 < sqrt (GM * a) * k2t_fac k.
Proof. apply Rmult_lt_0_compat; [apply sqrtGMa_pos | apply fac_pos]. Qed.

Lemma h_norm_eq : let s := kepler2trs GM k in norm (cross (fst s) (snd s)) = sqrt (GM * a) * k2t_fac k.
Proof.
  cbv zeta. rewrite h_vector_thm. rewrite norm_scale_pos by (pose proof h_scale_pos; lra).
  unfold norm. rewrite orbit_normal_norm2, sqrt_1. ring.
Qed.

(* h^2 = GM a (1 - e^2) *)
Theorem h_norm2_thm :
  let s := kepler2trs GM k in norm2 (cross (fst s) (snd s)) = GM * a * (1 - e * e).
Proof.
  cbv zeta. rewrite <- norm_sqr, h_norm_eq.
  replace (sqrt (GM * a) * k2t_fac k * (sqrt (GM * a) * k2t_fac k))
    with ((sqrt (GM * a) * sqrt (GM * a)) * (k2t_fac k * k2t_fac k)) by ring.
  rewrite sqrtGMa_sqr, fac_sqr. ring.
Qed.

(* unit normal as trs2kepler computes it *)
Theorem h_unit_thm :
  let s := kepler2trs GM k in t2k_hu (fst s) (snd s) = orbit_normal k.
Proof.
  cbv zeta. unfold t2k_hu, t2k_h, unitv. rewrite h_norm_eq. rewrite h_vector_thm.
  pose proof h_scale_pos as Hp. set (c := sqrt (GM * a) * k2t_fac k) in *.
  unfold vscale, orbit_normal; simpl. apply vec3_eq; simpl; field; lra.
Qed.

(* r . v = sqrt(GM a) e sin E *)
Theorem r_dot_v_thm :
  let s := kepler2trs GM k in dot (fst s) (snd s) = sqrt (GM * a) * e * sin E.
Proof.
  cbv zeta. unfold kepler2trs; simpl.
  rewrite orthogonal_preserves_dot by (apply PQW_rotation).
  pose proof fac_sqr as F. pose proof k2t_v_r as Hv.
  unfold dot, r_orb, v_orb; simpl. fold a e E.
  set (f := k2t_fac k) in *. set (vv := k2t_v GM k) in *.
  replace (a * (cos E - e) * (- vv * sin E) + a * f * sin E * (vv * f * cos E) + 0 * 0)
    with (a * vv * sin E * ((f * f) * cos E - cos E + e)) by ring.
  rewrite F, <- Hv. unfold k2t_r. fold a e E. ring.
Qed.

(* ---------------------------------------------------------------- recovering the elements *)
Let s := kepler2trs GM k.

Theorem recover_a_thm : t2k_a GM (fst s) (snd s) = a.
Proof.
  unfold t2k_a, s. rewrite (vis_viva_thm). cbv zeta. rewrite r_norm_thm.
  pose proof dom_a. pose proof one_minus_ecos_pos. field. repeat split; lra.
Qed.

Lemma p_eq : t2k_p GM (fst s) (snd s) = a * (1 - e * e).
Proof.
  unfold t2k_p, t2k_h, s. rewrite norm_sqr, h_norm2_thm. field. lra.
Qed.

Theorem recover_e_thm : t2k_e GM (fst s) (snd s) = e.
Proof.
  unfold t2k_e. rewrite p_eq, recover_a_thm.
  pose proof dom_a. pose proof dom_e.
  replace (1 - a * (1 - e * e) / a) with (e * e) by (field; lra).
  apply sqrt_square. lra.
Qed.

Theorem recover_i_thm : t2k_i (fst s) (snd s) = k_i k.
Proof.
  unfold t2k_i, s. rewrite h_unit_thm. unfold orbit_normal; simpl.
  pose proof dom_i as Hi. pose proof (sc (k_Omega k)) as T.
  assert (Hs : 0 < sin (k_i k)) by (apply sin_gt_0; lra).
  replace (sin (k_i k) * sin (k_Omega k) * (sin (k_i k) * sin (k_Omega k)) +
           - sin (k_i k) * cos (k_Omega k) * (- sin (k_i k) * cos (k_Omega k)))
    with (sin (k_i k) * sin (k_i k)) by nra.
  rewrite sqrt_square by lra.
  rewrite <- (Rmult_1_l (sin (k_i k))), <- (Rmult_1_l (cos (k_i k))).
  apply atan2_polar; lra.
Qed.
End Forward.

(* ---------------------------------------------------------------- angles modulo one turn *)
Lemma principal_exists t : exists n : Z, - PI < t + IZR n * (2 * PI) <= PI.
Proof.
  pose proof PI_RGT_0 as Hpi.
  set (x := (PI - t) / (2 * PI)).
  destruct (archimed x) as [A1 A2].
  exists (up x - 1)%Z. rewrite minus_IZR.
  assert (Hx : x * (2 * PI) = PI - t) by (unfold x; field; lra).
  split; nra.
Qed.

Lemma sin_cos_period_Z x (n : Z) :
  sin (x + IZR n * (2 * PI)) = sin x /\ cos (x + IZR n * (2 * PI)) = cos x.
Proof.
  destruct (Z_le_gt_dec 0 n) as [Hn | Hn].
  - rewrite <- (Z2Nat.id n) by lia. rewrite <- INR_IZR_INZ.
    replace (x + INR (Z.to_nat n) * (2 * PI)) with (x + 2 * INR (Z.to_nat n) * PI) by ring.
    split; [apply sin_period | apply cos_period].
  - assert (En : IZR n = - INR (Z.to_nat (- n))).
    { rewrite INR_IZR_INZ, Z2Nat.id by lia. rewrite opp_IZR. ring. }
    set (m := Z.to_nat (- n)) in *. set (y := x + IZR n * (2 * PI)).
    assert (Ex : x = y + 2 * INR m * PI) by (unfold y; rewrite En; ring).
    clearbody y. rewrite Ex. rewrite sin_period, cos_period. split; reflexivity.
Qed.

Lemma atan2_polar_mod c t : 0 < c ->
  exists n : Z, atan2 (c * sin t) (c * cos t) = t + IZR n * (2 * PI).
Proof.
  intros Hc. destruct (principal_exists t) as [n Hn]. exists n.
  destruct (sin_cos_period_Z t n) as [Es Ec]. rewrite <- Es, <- Ec.
  apply atan2_polar; assumption.
Qed.

(* two angles of a half-open turn that differ by whole turns are equal *)
Lemma same_turn x y (n : Z) lo : lo <= x < lo + 2 * PI -> lo <= y < lo + 2 * PI -> x = y + IZR n * (2 * PI) -> x = y.
Proof.
  intros Hx Hy E. pose proof PI_RGT_0 as Hpi.
  assert (H1 : (n < 1)%Z). { apply lt_IZR. apply Rmult_lt_reg_r with (2 * PI); [lra|]. lra. }
  assert (H2 : (-1 < n)%Z). { apply lt_IZR. apply Rmult_lt_reg_r with (2 * PI); [lra|]. lra. }
  assert (n = 0)%Z by lia. subst n. lra.
Qed.

Lemma same_turn' x y (n : Z) lo : lo < x <= lo + 2 * PI -> lo < y <= lo + 2 * PI -> x = y + IZR n * (2 * PI) -> x = y.
Proof.
  intros Hx Hy E. pose proof PI_RGT_0 as Hpi.
  assert (H1 : (n < 1)%Z). { apply lt_IZR. apply Rmult_lt_reg_r with (2 * PI); [lra|]. lra. }
  assert (H2 : (-1 < n)%Z). { apply lt_IZR. apply Rmult_lt_reg_r with (2 * PI); [lra|]. lra. }
  assert (n = 0)%Z by lia. subst n. lra.
Qed.

Lemma wrap_neg_mod w : exists n : Z, wrap_neg w = w + IZR n * (2 * PI).
Proof.
  unfold wrap_neg. destruct (Rlt_dec w 0); [exists 1%Z | exists 0%Z]; ring.
Qed.
Lemma wrap_neg_range w : - (2 * PI) < w < 2 * PI -> 0 <= wrap_neg w < 2 * PI.
Proof. intros H. unfold wrap_neg. destruct (Rlt_dec w 0); lra. Qed.

Lemma true_anom_period e E (n : Z) : true_anom e (E + IZR n * (2 * PI)) = true_anom e E.
Proof. unfold true_anom. destruct (sin_cos_period_Z E n) as [-> ->]. reflexivity. Qed.

(* ---------------------------------------------------------------- true anomaly: the position in the orbital plane is
   r (cos f, sin f) *)
Section Anomaly.
Variable e E : R.
Hypothesis He : 0 <= e < 1.

Lemma rho_pos : 0 < 1 - e * cos E.
Proof. pose proof (COS_bound E). nra. Qed.

Lemma true_anom_polar :
  cos E - e = (1 - e * cos E) * cos (true_anom e E) /\
  sqrt (1 - e * e) * sin E = (1 - e * cos E) * sin (true_anom e E).
Proof.
  pose proof rho_pos as Hr. pose proof (sc E) as T.
  assert (Hq : 0 <= 1 - e * e) by nra.
  set (y := sqrt (1 - e * e) * sin E). set (x := cos E - e).
  assert (Hyy : y * y = (1 - e * e) * (sin E * sin E)).
  { unfold y. replace (sqrt (1 - e * e) * sin E * (sqrt (1 - e * e) * sin E))
      with (sqrt (1 - e * e) * sqrt (1 - e * e) * (sin E * sin E)) by ring.
    rewrite sqrt_sqrt by exact Hq. reflexivity. }
  assert (Hxy : x * x + y * y = (1 - e * cos E) * (1 - e * cos E)).
  { rewrite Hyy. unfold x. replace (sin E * sin E) with (1 - cos E * cos E) by lra. ring. }
  assert (Hnz : x <> 0 \/ y <> 0).
  { destruct (Req_dec x 0) as [X0 | X0]; [|left; exact X0]. right. intros Y0. rewrite X0, Y0 in Hxy. nra. }
  destruct (atan2_sin_cos x y Hnz) as [Hx Hy].
  rewrite Hxy, sqrt_square in Hx, Hy by lra.
  unfold true_anom. fold x y. split; assumption.
Qed.

(* tan(f/2) = sqrt((1+e)/(1-e)) tan(E/2) *)
Lemma tan_half x : - PI < x < PI -> tan (x / 2) = sin x / (1 + cos x).
Proof.
  intros Hx. assert (Hc : 0 < cos (x / 2)) by (apply cos_gt_0; lra).
  replace x with (2 * (x / 2)) at 2 3 by field. rewrite sin_2a, cos_2a_cos. unfold tan. field. nra.
Qed.

Lemma true_anom_open : - PI < E < PI -> - PI < true_anom e E < PI.
Proof.
  intros HE. pose proof (atan2_bound (sqrt (1 - e * e) * sin E) (cos E - e)) as [B1 B2]. fold (true_anom e E) in B1, B2.
  split; [exact B1|]. destruct B2 as [B2 | B2]; [exact B2 | exfalso].
  destruct true_anom_polar as [P1 P2]. rewrite B2, cos_PI in P1. rewrite B2, sin_PI in P2.
  assert (Hq : 0 < 1 - e * e) by nra.
  assert (Hs : 0 < sqrt (1 - e * e)) by (apply sqrt_lt_R0; exact Hq).
  assert (S0 : sin E = 0) by nra.
  (* sin E = 0 inside (-PI, PI) forces E = 0, then cos E - e = 1 - e > 0 *)
  assert (E0 : E = 0).
  { destruct (Rtotal_order E 0) as [H | [H | H]]; [exfalso | exact H | exfalso].
    - assert (sin E < 0) by (apply sin_lt_0_var; lra). lra.
    - assert (0 < sin E) by (apply sin_gt_0; lra). lra. }
  rewrite E0, cos_0 in P1. lra.
Qed.

Theorem half_angle_thm : - PI < E < PI ->
  tan (true_anom e E / 2) = sqrt ((1 + e) / (1 - e)) * tan (E / 2).
Proof.
  intros HE. pose proof (true_anom_open HE) as Hf. pose proof rho_pos as Hr.
  destruct true_anom_polar as [P1 P2].
  rewrite (tan_half _ Hf), (tan_half _ HE).
  assert (Hq : 0 < 1 - e * e) by nra.
  assert (HcE : 0 < 1 + cos E).
  { assert (0 < cos (E / 2)) by (apply cos_gt_0; lra).
    replace E with (2 * (E / 2)) by field. rewrite cos_2a_cos. nra. }
  assert (Hsf : sin (true_anom e E) = sqrt (1 - e * e) * sin E / (1 - e * cos E)) by (rewrite P2; field; lra).
  assert (Hcf : cos (true_anom e E) = (cos E - e) / (1 - e * cos E)) by (rewrite P1; field; lra).
  rewrite Hsf, Hcf.
  assert (Hsq : sqrt (1 - e * e) = sqrt ((1 + e) / (1 - e)) * (1 - e)).
  { apply sqrt_unique.
    - apply Rmult_le_pos; [apply sqrt_pos | lra].
    - replace (sqrt ((1 + e) / (1 - e)) * (1 - e) * (sqrt ((1 + e) / (1 - e)) * (1 - e)))
        with (sqrt ((1 + e) / (1 - e)) * sqrt ((1 + e) / (1 - e)) * ((1 - e) * (1 - e))) by ring.
      rewrite sqrt_sqrt; [field; lra|]. apply Rlt_le, Rdiv_lt_0_compat; lra. }
  rewrite Hsq. field. repeat split; nra.
Qed.
End Anomaly.

(* Kepler's equation M = E - e sin E determines E: the mean anomaly is strictly increasing in E for e < 1 *)
Lemma sin_diff_le x y : x <= y -> sin y - sin x <= y - x.
Proof.
  intros Hxy.
  set (p := (y + x) / 2). set (d := (y - x) / 2).
  assert (Ey : y = p + d) by (unfold p, d; field).
  assert (Ex : x = p - d) by (unfold p, d; field).
  assert (Hd : 0 <= d) by (unfold d; lra).
  clearbody p d. rewrite Ey, Ex. rewrite sin_plus, sin_minus.
  pose proof (COS_bound p) as [C1 C2]. pose proof (SIN_bound d) as [S1 S2].
  assert (Hsd : sin d <= d).
  { destruct (Req_dec d 0) as [D0 | D0]; [rewrite D0, sin_0; lra|].
    apply Rlt_le. apply sin_lt_x. lra. }
  assert (Hsd' : - d <= sin d).
  { pose proof PI2_1. destruct (Rle_dec d PI) as [Hp | Hp]; [pose proof (sin_ge_0 d Hd Hp); lra | lra]. }
  destruct (Rle_dec 0 (sin d)); nra.
Qed.

Theorem kepler_equation_thm e E1 E2 : 0 <= e < 1 ->
  E1 - e * sin E1 = E2 - e * sin E2 -> E1 = E2.
Proof.
  intros He H.
  destruct (Rtotal_order E1 E2) as [L | [L | L]]; [exfalso | exact L | exfalso].
  - pose proof (sin_diff_le E1 E2 (Rlt_le _ _ L)). nra.
  - pose proof (sin_diff_le E2 E1 (Rlt_le _ _ L)). nra.
Qed.

(* ---------------------------------------------------------------- node, eccentric anomaly, perigee *)
Section Recover.
Variable GM : R.
Variable k : kepler.
Hypothesis HGM : 0 < GM.
Hypothesis Hdom : elliptic_inclined k.

Let a := k_a k.
Let e := k_e k.
Let s := kepler2trs GM k.

Lemma sin_i_pos : 0 < sin (k_i k).
Proof. pose proof (dom_i k Hdom). apply sin_gt_0; lra. Qed.

Lemma rec_a : t2k_a GM (fst s) (snd s) = a. Proof. exact (recover_a_thm GM k HGM Hdom). Qed.
Lemma rec_e : t2k_e GM (fst s) (snd s) = e. Proof. exact (recover_e_thm GM k HGM Hdom). Qed.
Lemma rec_i : t2k_i (fst s) (snd s) = k_i k. Proof. exact (recover_i_thm GM k HGM Hdom). Qed.
Lemma rec_hu : t2k_hu (fst s) (snd s) = orbit_normal k. Proof. exact (h_unit_thm GM k HGM Hdom). Qed.
Lemma rec_rv : dot (fst s) (snd s) = sqrt (GM * a) * e * sin (k_E k). Proof. exact (r_dot_v_thm GM k Hdom). Qed.
Lemma rec_rn : norm (fst s) = a * (1 - e * cos (k_E k)). Proof. exact (r_norm_thm GM k Hdom). Qed.

Theorem recover_Omega_mod_thm :
  exists n : Z, t2k_Omega (fst s) (snd s) = k_Omega k + IZR n * (2 * PI).
Proof.
  unfold t2k_Omega. rewrite rec_hu. unfold orbit_normal; simpl.
  replace (- (- sin (k_i k) * cos (k_Omega k))) with (sin (k_i k) * cos (k_Omega k)) by ring.
  apply atan2_polar_mod. exact sin_i_pos.
Qed.

(* a^2 n = sqrt(GM a) *)
Lemma a2n_eq : a * a * sqrt (GM / (a * a * a)) = sqrt (GM * a).
Proof.
  pose proof (dom_a k Hdom) as Ha. fold a in Ha.
  symmetry. apply sqrt_unique.
  - apply Rmult_le_pos; [nra | apply sqrt_pos].
  - replace (a * a * sqrt (GM / (a * a * a)) * (a * a * sqrt (GM / (a * a * a))))
      with (a * a * a * a * (sqrt (GM / (a * a * a)) * sqrt (GM / (a * a * a)))) by ring.
    rewrite sqrt_sqrt; [field; lra|].
    apply Rlt_le, Rdiv_lt_0_compat; [exact HGM|]. repeat apply Rmult_lt_0_compat; exact Ha.
Qed.

Theorem recover_E_mod_thm :
  exists n : Z, t2k_E GM (fst s) (snd s) = k_E k + IZR n * (2 * PI).
Proof.
  unfold t2k_E, t2k_n. rewrite rec_a, rec_rv, rec_rn. rewrite a2n_eq.
  pose proof (dom_a k Hdom) as Ha. pose proof (dom_e k Hdom) as He. fold a in Ha. fold e in He.
  replace (1 - a * (1 - e * cos (k_E k)) / a) with (e * cos (k_E k)) by (field; lra).
  replace (sqrt (GM * a) * (e * cos (k_E k))) with (sqrt (GM * a) * e * cos (k_E k)) by ring.
  apply atan2_polar_mod. apply Rmult_lt_0_compat; [apply (sqrtGMa_pos GM k HGM Hdom) | lra].
Qed.

Lemma fac_eq : k2t_fac k = sqrt (1 - e * e).
Proof. unfold k2t_fac. fold e. f_equal. ring. Qed.

(* position in closed form: r (cos w N + sin w M), w = omega + f the argument of latitude *)
Lemma pos_explicit :
  let w := k_omega k + true_anom e (k_E k) in
  let r := k2t_r k in
  fst s = V3 (r * (cos (k_Omega k) * cos w - sin (k_Omega k) * cos (k_i k) * sin w))
             (r * (sin (k_Omega k) * cos w + cos (k_Omega k) * cos (k_i k) * sin w))
             (r * (sin (k_i k) * sin w)).
Proof.
  cbv zeta. pose proof (dom_e k Hdom) as He. fold e in He.
  assert (He' : 0 <= e < 1) by lra.
  destruct (true_anom_polar e (k_E k) He') as [P1 P2].
  unfold s, kepler2trs; simpl. unfold r_orb. rewrite fac_eq. fold a e.
  replace (a * sqrt (1 - e * e) * sin (k_E k)) with (a * (sqrt (1 - e * e) * sin (k_E k))) by ring.
  rewrite P1, P2. unfold k2t_r. fold a e.
  rewrite cos_plus, sin_plus.
  unfold PQW, R1, R3. rewrite !cos_neg, !sin_neg.
  unfold mvec, mmul; simpl. apply vec3_eq; simpl; ring.
Qed.

Lemma u_mod : exists n : Z,
  t2k_u (fst s) (snd s) = k_omega k + true_anom e (k_E k) + IZR n * (2 * PI).
Proof.
  pose proof pos_explicit as PE. cbv zeta in PE.
  unfold t2k_u. rewrite rec_hu, PE.
  unfold orbit_normal; simpl.
  set (w := k_omega k + true_anom e (k_E k)).
  pose proof (sc (k_Omega k)) as T. pose proof (k2t_r_pos k Hdom) as Hr. pose proof sin_i_pos as Hs.
  set (r := k2t_r k) in *.
  replace (r * (sin (k_i k) * sin w)) with ((r * sin (k_i k)) * sin w) by ring.
  replace (- (r * (cos (k_Omega k) * cos w - sin (k_Omega k) * cos (k_i k) * sin w)) * (- sin (k_i k) * cos (k_Omega k)) +
           r * (sin (k_Omega k) * cos w + cos (k_Omega k) * cos (k_i k) * sin w) * (sin (k_i k) * sin (k_Omega k)))
    with ((r * sin (k_i k)) * cos w).
  2:{ replace (r * sin (k_i k) * cos w) with (r * sin (k_i k) * cos w * (sin (k_Omega k) * sin (k_Omega k) + cos (k_Omega k) * cos (k_Omega k)))
        by (rewrite T; ring). ring. }
  apply atan2_polar_mod. apply Rmult_lt_0_compat; assumption.
Qed.

Theorem recover_omega_mod_thm :
  (exists n : Z, t2k_omega GM (fst s) (snd s) = k_omega k + IZR n * (2 * PI)) /\
  0 <= t2k_omega GM (fst s) (snd s) < 2 * PI.
Proof.
  unfold t2k_omega. rewrite rec_e.
  destruct recover_E_mod_thm as [n1 HE]. rewrite HE, true_anom_period.
  destruct u_mod as [n2 Hu].
  split.
  - destruct (wrap_neg_mod (t2k_u (fst s) (snd s) - true_anom e (k_E k))) as [n3 Hw].
    exists (n2 + n3)%Z. rewrite Hw, Hu, plus_IZR. ring.
  - apply wrap_neg_range.
    pose proof (atan2_bound (vz (fst s)) (- vx (fst s) * vy (t2k_hu (fst s) (snd s)) + vy (fst s) * vx (t2k_hu (fst s) (snd s)))) as B1.
    fold (t2k_u (fst s) (snd s)) in B1.
    pose proof (atan2_bound (sqrt (1 - e * e) * sin (k_E k)) (cos (k_E k) - e)) as B2. fold (true_anom e (k_E k)) in B2.
    lra.
Qed.

(* all six elements come back, the three angles that are only defined up to whole turns in their principal ranges *)
Theorem elements_roundtrip_mod_thm :
  exists n1 n2 n3 : Z,
    trs2kepler GM (fst s) (snd s) =
      Kep (k_a k) (k_e k) (k_i k) (k_Omega k + IZR n1 * (2 * PI)) (k_omega k + IZR n2 * (2 * PI)) (k_E k + IZR n3 * (2 * PI))
    /\ principal (trs2kepler GM (fst s) (snd s)).
Proof.
  destruct recover_Omega_mod_thm as [n1 H1]. destruct recover_omega_mod_thm as [[n2 H2] R2].
  destruct recover_E_mod_thm as [n3 H3].
  exists n1, n2, n3. split.
  - unfold trs2kepler. rewrite H1, H2, H3.
    rewrite rec_a, rec_e, rec_i. reflexivity.
  - unfold principal, trs2kepler; simpl. split; [apply atan2_bound | split; [exact R2 | apply atan2_bound]].
Qed.

Theorem elements_roundtrip_thm : principal k -> trs2kepler GM (fst s) (snd s) = k.
Proof.
  intros [PO [Po PE]].
  destruct elements_roundtrip_mod_thm as [n1 [n2 [n3 [Heq [QO [Qo QE]]]]]].
  rewrite Heq in QO, Qo, QE |- *. simpl in QO, Qo, QE.
  pose proof PI_RGT_0 as Hpi.
  assert (E1 : k_Omega k + IZR n1 * (2 * PI) = k_Omega k) by (apply (same_turn' _ _ n1 (- PI)); [lra | lra | reflexivity]).
  assert (E2 : k_omega k + IZR n2 * (2 * PI) = k_omega k) by (apply (same_turn _ _ n2 0); [lra | lra | reflexivity]).
  assert (E3 : k_E k + IZR n3 * (2 * PI) = k_E k) by (apply (same_turn' _ _ n3 (- PI)); [lra | lra | reflexivity]).
  rewrite E1, E2, E3. destruct k; reflexivity.
Qed.
End Recover.

(* ================================================================= the correspondence checks are sound *)
(* the staged expressions the correspondence evaluates are the model *)
Lemma k2t_env_ok g a e i Om om E :
  let r := env_R (stages_R [a; e; i; Om; om; E] (k2t_stages g)) in
  let m := kepler2trs (Q2R g) (Kep a e i Om om E) in
  eval_R r (v_ 39) = vx (fst m) /\ eval_R r (v_ 40) = vy (fst m) /\ eval_R r (v_ 41) = vz (fst m) /\
  eval_R r (v_ 42) = vx (snd m) /\ eval_R r (v_ 43) = vy (snd m) /\ eval_R r (v_ 44) = vz (snd m).
Proof. cbv zeta. repeat split; reflexivity. Qed.

Lemma t2k_env_ok g x y z vx' vy' vz' :
  let r := env_R (stages_R [x; y; z; vx'; vy'; vz'] (t2k_stages g)) in
  let m := trs2kepler (Q2R g) (V3 x y z) (V3 vx' vy' vz') in
  eval_R r (v_ 15) = k_a m /\ eval_R r (v_ 21) = k_e m /\ eval_R r (v_ 17) = k_i m /\
  eval_R r (v_ 18) = k_Omega m /\ wrap_neg (eval_R r (v_ 25)) = k_omega m /\ eval_R r (v_ 22) = k_E m.
Proof. cbv zeta. repeat split; reflexivity. Qed.

Lemma stages_contains p st : forall envI envR,
  Forall2 containsR envI envR -> Forall2 containsR (stages_I p envI st) (stages_R envR st).
Proof.
  induction st as [|s st IH]; intros envI envR H; simpl; [exact H|].
  apply IH. apply stage_contains. exact H.
Qed.

Lemma staged_env_contains p (l : list dy) st :
  forall n, containsR (env_I (stages_I p (map (I_ofdy p) l) st) n) (env_R (stages_R (map dyR l) st) n).
Proof. apply env_I_contains. apply stages_contains. apply env_dy_Forall2. Qed.

Lemma verdict_0 b : verdict b = 0%Z -> b = true.
Proof. destruct b; [reflexivity | discriminate]. Qed.

Theorem check_k2t_sound_thm g a e i Om om E px py pz qx qy qz :
  check_k2t_g g ([a; e; i; Om; om; E], [px; py; pz; qx; qy; qz]) = 0%Z ->
  let m := kepler2trs (Q2R g) (Kep (dyR a) (dyR e) (dyR i) (dyR Om) (dyR om) (dyR E)) in
  let tp := Q2R (tol_of rel10 [px; py; pz]) in
  let tv := Q2R (tol_of rel10 [qx; qy; qz]) in
  Rabs (vx (fst m) - dyR px) <= tp /\ Rabs (vy (fst m) - dyR py) <= tp /\ Rabs (vz (fst m) - dyR pz) <= tp /\
  Rabs (vx (snd m) - dyR qx) <= tv /\ Rabs (vy (snd m) - dyR qy) <= tv /\ Rabs (vz (snd m) - dyR qz) <= tv.
Proof.
  intros H. apply verdict_0 in H.
  pose proof (staged_env_contains p128 [a; e; i; Om; om; E] (k2t_stages g)) as C.
  destruct (k2t_env_ok g (dyR a) (dyR e) (dyR i) (dyR Om) (dyR om) (dyR E)) as [L1 [L2 [L3 [L4 [L5 L6]]]]].
  cbv zeta in L1, L2, L3, L4, L5, L6 |- *.
  rewrite <- L1, <- L2, <- L3, <- L4, <- L5, <- L6.
  apply andb_prop in H. destruct H as [H Hv]. apply andb_prop in H. destruct H as [_ Hp].
  cbn [check_all_abs] in Hp, Hv.
  repeat match goal with
         | X : (_ && _)%bool = true |- _ => apply andb_prop in X; destruct X
         end.
  repeat split;
    match goal with
    | X : check_close _ _ ?e _ ?d = true |- Rabs (eval_R _ ?e - dyR ?d) <= _ =>
        exact (check_close_sound _ _ _ _ _ _ C X)
    end.
Qed.

Lemma dy_nonneg_sound d : dy_nonneg d = true -> 0 <= dyR d.
Proof.
  unfold dy_nonneg. destruct (dy_toQ d) as [q|] eqn:Eq; [|discriminate]. intros H.
  rewrite <- (dy_toQ_dyR d q Eq). apply Qle_bool_iff in H. apply Qle_Rle in H.
  rewrite RMicromega.Q2R_0 in H. exact H.
Qed.

Theorem check_t2k_sound_thm g px py pz qx qy qz a e i Om om E :
  check_t2k_g g ([px; py; pz; qx; qy; qz], [a; e; i; Om; om; E]) = 0%Z ->
  let m := trs2kepler (Q2R g) (V3 (dyR px) (dyR py) (dyR pz)) (V3 (dyR qx) (dyR qy) (dyR qz)) in
  Rabs (k_a m - dyR a) <= Q2R rel10 * Rabs (dyR a) + Q2R 0 /\
  Rabs (k_e m - dyR e) <= Q2R rel10 * Rabs (dyR e) + Q2R abs12 /\
  Rabs (k_i m - dyR i) <= Q2R tol_angle /\
  (exists n : Z, Rabs (k_Omega m + IZR n * (2 * PI) - dyR Om) <= Q2R tol_angle) /\
  (exists n : Z, Rabs (k_omega m + IZR n * (2 * PI) - dyR om) <= Q2R tol_angle) /\
  (exists n : Z, Rabs (k_E m + IZR n * (2 * PI) - dyR E) <= Q2R tol_angle) /\
  0 <= dyR i /\ 0 <= dyR om < 2 * PI.
Proof.
  intros H. apply verdict_0 in H.
  pose proof (staged_env_contains p128 [px; py; pz; qx; qy; qz] (t2k_stages g)) as C.
  destruct (t2k_env_ok g (dyR px) (dyR py) (dyR pz) (dyR qx) (dyR qy) (dyR qz)) as [L1 [L2 [L3 [L4 [L5 L6]]]]].
  cbv zeta in L1, L2, L3, L4, L5, L6 |- *.
  rewrite <- L1, <- L2, <- L3, <- L4, <- L5, <- L6.
  repeat match goal with
         | X : (_ && _)%bool = true |- _ => apply andb_prop in X; destruct X
         end.
  repeat match goal with |- _ /\ _ => split end.
  - match goal with X : check_close_rel _ _ _ (v_ 15) _ _ = true |- _ => exact (check_close_rel_sound _ _ _ _ _ _ _ C X) end.
  - match goal with X : check_close_rel _ _ _ (v_ 21) _ _ = true |- _ => exact (check_close_rel_sound _ _ _ _ _ _ _ C X) end.
  - match goal with X : check_close _ _ (v_ 17) _ _ = true |- _ => exact (check_close_sound _ _ _ _ _ _ C X) end.
  - match goal with X : check_close_mod2pi _ _ (v_ 18) _ _ = true |- _ =>
      destruct (check_close_mod2pi_sound _ _ _ _ _ _ C X) as [n [_ Hn]]; exists n; exact Hn end.
  - match goal with X : check_close_mod2pi _ _ (v_ 25) _ _ = true |- _ =>
      destruct (check_close_mod2pi_sound _ _ _ _ _ _ C X) as [n [_ Hn]] end.
    destruct (wrap_neg_mod (eval_R (env_R (stages_R [dyR px; dyR py; dyR pz; dyR qx; dyR qy; dyR qz] (t2k_stages g))) (v_ 25))) as [w Hw].
    exists (n - w)%Z. rewrite Hw, minus_IZR.
    match goal with |- Rabs ?t <= _ => replace t with
      (eval_R (env_R (stages_R [dyR px; dyR py; dyR pz; dyR qx; dyR qy; dyR qz] (t2k_stages g))) (v_ 25) + IZR n * (2 * PI) - dyR om) by ring end.
    exact Hn.
  - match goal with X : check_close_mod2pi _ _ (v_ 22) _ _ = true |- _ =>
      destruct (check_close_mod2pi_sound _ _ _ _ _ _ C X) as [n [_ Hn]]; exists n; exact Hn end.
  - apply dy_nonneg_sound. assumption.
  - apply dy_nonneg_sound. assumption.
  - match goal with X : check_lt _ _ _ _ = true |- _ => pose proof (check_lt_sound _ _ _ _ _ C X) as G end.
    simpl in G. lra.
Qed.

(* the constant of constant.txt is positive (whatever its value) *)
Lemma gm_pos : 0 < Q2R GM_Q.
Proof.
  replace 0 with (Q2R 0) by apply RMicromega.Q2R_0. apply Qlt_Rlt. vm_compute. reflexivity.
Qed.

(* ---------------------------------------------------------------- statements in the form Props/C07.v quotes them *)
Lemma r_norm_full GM k : 0 < GM -> elliptic_inclined k ->
  norm (fst (kepler2trs GM k)) = k_a k * (1 - k_e k * cos (k_E k)).
Proof. intros _ H. exact (r_norm_thm GM k H). Qed.

Lemma r_dot_v_full GM k : 0 < GM -> elliptic_inclined k ->
  let s := kepler2trs GM k in dot (fst s) (snd s) = sqrt (GM * k_a k) * k_e k * sin (k_E k).
Proof. intros _ H. exact (r_dot_v_thm GM k H). Qed.

Lemma recover_Omega_full GM k : 0 < GM -> elliptic_inclined k ->
  let s := kepler2trs GM k in
  (exists n : Z, t2k_Omega (fst s) (snd s) = k_Omega k + IZR n * (2 * PI)) /\
  - PI < t2k_Omega (fst s) (snd s) <= PI.
Proof. intros H1 H2. split; [exact (recover_Omega_mod_thm GM k H1 H2) | apply atan2_bound]. Qed.

Lemma recover_E_full GM k : 0 < GM -> elliptic_inclined k ->
  let s := kepler2trs GM k in
  (exists n : Z, t2k_E GM (fst s) (snd s) = k_E k + IZR n * (2 * PI)) /\
  - PI < t2k_E GM (fst s) (snd s) <= PI.
Proof. intros H1 H2. split; [exact (recover_E_mod_thm GM k H1 H2) | apply atan2_bound]. Qed.

Lemma anomalies_def k :
  mean_anomaly k = k_E k - k_e k * sin (k_E k) /\ true_anomaly k = true_anom (k_e k) (k_E k).
Proof. split; reflexivity. Qed.

Lemma model_exprs_ok_thm g a e i Om om E x y z vx' vy' vz' :
  (let r := env_R (stages_R [a; e; i; Om; om; E] (k2t_stages g)) in
   let m := kepler2trs (Q2R g) (Kep a e i Om om E) in
   eval_R r (v_ 39) = vx (fst m) /\ eval_R r (v_ 40) = vy (fst m) /\ eval_R r (v_ 41) = vz (fst m) /\
   eval_R r (v_ 42) = vx (snd m) /\ eval_R r (v_ 43) = vy (snd m) /\ eval_R r (v_ 44) = vz (snd m)) /\
  (let r := env_R (stages_R [x; y; z; vx'; vy'; vz'] (t2k_stages g)) in
   let m := trs2kepler (Q2R g) (V3 x y z) (V3 vx' vy' vz') in
   eval_R r (v_ 15) = k_a m /\ eval_R r (v_ 21) = k_e m /\ eval_R r (v_ 17) = k_i m /\
   eval_R r (v_ 18) = k_Omega m /\ wrap_neg (eval_R r (v_ 25)) = k_omega m /\ eval_R r (v_ 22) = k_E m).
Proof. split; [apply k2t_env_ok | apply t2k_env_ok]. Qed.

Lemma domain_example : elliptic_inclined (Kep 26559700 (1 / 100) (PI / 3) 1 4 (-2)).
Proof. unfold elliptic_inclined; simpl. pose proof PI_RGT_0. repeat split; lra. Qed.

(* ---------------------------------------------------------------- principal ranges of whatever trs2kepler returns
   (every state, no hypothesis): 0 <= i <= PI, -PI < Omega <= PI, 0 <= omega < 2 PI, -PI < E <= PI *)
Lemma atan2_nonneg_y y x : 0 <= y -> 0 <= atan2 y x <= PI.
Proof.
  intros Hy. pose proof PI_RGT_0 as Hpi.
  destruct Hy as [Hy | Hy].
  - rewrite atan2_pos_y by exact Hy. pose proof (atan_bound (x / y)). lra.
  - subst y. destruct (Rtotal_order x 0) as [Hx | [Hx | Hx]].
    + rewrite atan2_neg_x_nonneg_y by lra. unfold Rdiv. rewrite Rmult_0_l, atan_0. lra.
    + subst x. rewrite atan2_0_0. lra.
    + rewrite atan2_pos_x by lra. unfold Rdiv. rewrite Rmult_0_l, atan_0. lra.
Qed.

Theorem principal_ranges_thm GM r v :
  let k := trs2kepler GM r v in 0 <= k_i k <= PI /\ principal k.
Proof.
  cbv zeta. unfold principal, trs2kepler; simpl. split; [|split; [|split]].
  - unfold t2k_i. apply atan2_nonneg_y. apply sqrt_pos.
  - apply atan2_bound.
  - unfold t2k_omega. apply wrap_neg_range.
    pose proof (atan2_bound (vz r) (- vx r * vy (t2k_hu r v) + vy r * vx (t2k_hu r v))) as B1.
    fold (t2k_u r v) in B1.
    set (e := t2k_e GM r v). set (E := t2k_E GM r v).
    pose proof (atan2_bound (sqrt (1 - e * e) * sin E) (cos E - e)) as B2. fold (true_anom e E) in B2.
    lra.
  - apply atan2_bound.
Qed.

(* every GM of constant.txt (all sources) is positive: the hypothesis 0 < GM of the theorems holds under every use_source *)
Lemma gm_sources_pos : forallb (fun gd => negb (Qle_bool (fst gd) 0)) GM_sources = true.
Proof. vm_compute. reflexivity. Qed.
Lemma gm_sources_pos_R g d : In (g, d) GM_sources -> 0 < Q2R g.
Proof.
  intros H. pose proof gm_sources_pos as F. rewrite forallb_forall in F. specialize (F _ H). simpl in F.
  replace 0 with (Q2R 0) by apply RMicromega.Q2R_0. apply Qlt_Rlt.
  apply Qnot_le_lt. intros C. apply Qle_bool_iff in C. rewrite C in F. discriminate.
Qed.
