(* Proofs/C17_Instances.v - the decidable criteria evaluated by the kernel on the layouts / column tables regenerated
   from the current source (Gen/C17_WriterLayouts.v).  Each lemma states the column -> field map the parser obtains. *)
From Coq Require Import Ascii String List Bool Arith ZArith Lia.
From Verif Require Import Lib.Text Lib.Decimal Lib.Dyadic Model.C17_Layout Gen.C17_WriterLayouts.
Import ListNotations.
Local Open Scope string_scope.

(* bernese_crd writer row / bernese_crd parser (genfromtxt delimiter tuple):
   num, station, domes, pos_x, pos_y, pos_z <- fields 0..5 of the format string, flag <- the constant "A" *)
Lemma compatible_bernese_crd_l :
  span_map L_crd P_crd = [Some (PFld 0); Some (PFld 1); Some (PFld 2); Some (PFld 3); Some (PFld 4); Some (PFld 5); Some (PConst "A")].
Proof. vm_compute. reflexivity. Qed.

(* bernese_clu: station <- field 0, domes <- blank (the writer never writes a DOMES number), cluster <- constant 1 *)
Lemma compatible_bernese_clu_l : span_map L_clu P_clu = [Some (PFld 0); Some (PConst ""); Some (PConst "1")].
Proof. vm_compute. reflexivity. Qed.

(* bernese_sta "TYPE 002" row / bernese_sta_v52 fields table: 17 columns <- the 16 fields in order, flag <- "001" *)
Lemma compatible_bernese_sta_v52_l :
  span_map L_sta2 P_sta52 =
  [Some (PFld 0); Some (PFld 1); Some (PConst "001"); Some (PFld 2); Some (PFld 3); Some (PFld 4); Some (PFld 5); Some (PFld 6);
   Some (PFld 7); Some (PFld 8); Some (PFld 9); Some (PFld 10); Some (PFld 11); Some (PFld 12); Some (PFld 13); Some (PFld 14);
   Some (PFld 15)].
Proof. vm_compute. reflexivity. Qed.

(* the parser registered as 'bernese_sta' reads the v5.4 layout (AZIMUTH, LONG NAME columns): it is NOT the matching
   parser of the writer, which writes "FORMAT VERSION: 1.01" lines *)
Lemma bernese_sta_v54_incompatible_l : compatible L_sta2 P_sta54 = false.
Proof. vm_compute. reflexivity. Qed.

Lemma compatible_tms_header_l :
  span_map L_tms_header P_tms_header =
  [Some (PFld 0); Some (PFld 1); Some (PFld 2); Some (PFld 3); Some (PFld 4); Some (PFld 5); Some (PFld 6); Some (PFld 7)].
Proof. vm_compute. reflexivity. Qed.

Lemma compatible_tms_file_reference_l :
  map (fun l => span_map l P_tms_file_reference)
      [L_tms_fr_description; L_tms_fr_contact; L_tms_fr_software; L_tms_fr_input; L_tms_fr_version] =
  [[Some (PConst "DESCRIPTION"); Some (PFld 0)]; [Some (PConst "CONTACT"); Some (PFld 0)]; [Some (PConst "SOFTWARE"); Some (PFld 0)];
   [Some (PConst "INPUT"); Some (PFld 0)]; [Some (PConst "VERSION NUMBER"); Some (PFld 0)]].
Proof. vm_compute. reflexivity. Qed.

Lemma compatible_tms_ref_coordinate_l :
  span_map L_tms_refcoord P_tms_refcoord =
  [Some (PFld 0); Some (PConst "A"); Some (PConst "----"); Some (PConst "P"); Some (PFld 1); Some (PFld 2); Some (PFld 3);
   Some (PFld 4); Some (PFld 5)].
Proof. vm_compute. reflexivity. Qed.

Lemma compatible_tms_columns_l :
  span_map L_tms_columns P_tms_columns = [Some (PFld 0); Some (PFld 1); Some (PFld 2); Some (PFld 3)].
Proof. vm_compute. reflexivity. Qed.

(* every block method of the SINEX-TMS writer opens with +NAME and ends with the matching -NAME *)
Lemma tms_blocks_wf_l : forallb (fun nb => block_wf (snd nb)) tms_blocks = true /\ List.length tms_blocks = 6%nat.
Proof. vm_compute. split; reflexivity. Qed.

(* every TIMESERIES/DATA field is right-justified numeric or a left-justified string with a positive width, and every row
   starts with a blank: so rows can never be mistaken for block markers, and tokenisation depends only on the gaps *)
Lemma tms_types_shape_l :
  forallb (fun nf => (0 <? f_w (snd nf))%nat && (f_max (snd nf) =? f_w (snd nf))%nat) tms_types = true.
Proof. vm_compute. reflexivity. Qed.

(* the property's domain (coordinates up to +-9 999 999.9999 m, decimal years up to 9999.99999) fits the regenerated
   widths: with a separating blank in TIMESERIES/DATA rows, exactly in the blank-separated REF_COORDINATE / CRD columns *)
Definition tms_domain : list (string * Z) :=
  [("X", 99999999999); ("Y", 99999999999); ("Z", 99999999999); ("YEAR", 999999999)]%Z.
Definition fix_width_ok (strict : bool) (f : fld) (mag : Z) : bool :=
  match f_kind f with
  | KFix d => let n := len (render_F_raw d (- mag)) in if strict then (n <? f_w f)%nat else (n <=? f_w f)%nat
  | _ => false
  end.
Lemma tms_domain_fits_l :
  forallb (fun nd => match lookup_fld tms_types (fst nd) with Some f => fix_width_ok true f (snd nd) | None => false end) tms_domain = true.
Proof. vm_compute. reflexivity. Qed.

Definition nth_fld (lay : layout) (i : nat) : fld := nth i (fields_of lay) (mkfld 0 AL (KStr None) 0).
Lemma crd_domain_fits_l :
  forallb (fun i => fix_width_ok false (nth_fld L_crd i) 999999999999%Z) [3; 4; 5]%nat = true /\
  forallb (fun i => fix_width_ok false (nth_fld L_tms_refcoord i) 99999999999%Z) [2; 3; 4]%nat = true.
Proof. vm_compute. split; reflexivity. Qed.

(* every field window of the three Bernese STA row types lies inside a column of the ruler line the writer itself
   writes under the section header (the format's own column definition) *)
Lemma sta_fields_in_ruler_l :
  fields_in_ruler ruler_sta1 L_sta1 = true /\ fields_in_ruler ruler_sta2 L_sta2 = true /\ fields_in_ruler ruler_sta3 L_sta3 = true.
Proof. vm_compute. repeat split; reflexivity. Qed.
