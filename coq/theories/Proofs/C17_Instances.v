(* Proofs/C17_Instances.v - the decidable criteria evaluated by the kernel on the layouts / column tables regenerated
   from the current source (Gen/C17_WriterLayouts.v).  Each lemma states the column -> field map the parser obtains. *)
From Coq Require Import Ascii String List Bool Arith ZArith Lia.
From Verif Require Import Lib.Text Lib.Decimal Lib.Dyadic Model.C17_Layout Gen.C17_WriterLayouts Proofs.C17_Sound.
Import ListNotations.
Local Open Scope string_scope.

(* bernese_crd writer row / bernese_crd parser (genfromtxt delimiter tuple):
   num, station, domes, pos_x, pos_y, pos_z <- fields 0..5 of the format string, flag <- the constant "A" *)
Lemma compatible_bernese_crd_l :
  span_map L_crd P_crd = [Some (PFld 0); Some (PFld 1); Some (PFld 2); Some (PFld 3); Some (PFld 4); Some (PFld 5); Some (PConst "A")].
Proof. vm_compute. reflexivity. Qed.

(* bernese_clu: station <- field 0, domes <- blank (the writer never writes a DOMES number), cluster <- constant 1 *)
Lemma compatible_bernese_clu_l : span_map L_clu P_clu = [Some (PFld 0); Some (PConst ""); Some (PConst "1")].
Proof. vm_compute. reflexivity. Qed.

(* bernese_sta "TYPE 002" row / bernese_sta_v52 fields table: 17 columns <- the 16 fields in order, flag <- "001" *)
Lemma compatible_bernese_sta_v52_l :
  span_map L_sta2 P_sta52 =
  [Some (PFld 0); Some (PFld 1); Some (PConst "001"); Some (PFld 2); Some (PFld 3); Some (PFld 4); Some (PFld 5); Some (PFld 6);
   Some (PFld 7); Some (PFld 8); Some (PFld 9); Some (PFld 10); Some (PFld 11); Some (PFld 12); Some (PFld 13); Some (PFld 14);
   Some (PFld 15)].
Proof. vm_compute. reflexivity. Qed.

(* the parser registered as 'bernese_sta' reads the v5.4 layout (AZIMUTH, LONG NAME columns): it is NOT the matching
   parser of the writer, which writes "FORMAT VERSION: 1.01" lines *)
Lemma bernese_sta_v54_incompatible_l : compatible L_sta2 P_sta54 = false.
Proof. vm_compute. reflexivity. Qed.

Lemma compatible_tms_header_l :
  span_map L_tms_header P_tms_header =
  [Some (PFld 0); Some (PFld 1); Some (PFld 2); Some (PFld 3); Some (PFld 4); Some (PFld 5); Some (PFld 6); Some (PFld 7)].
Proof. vm_compute. reflexivity. Qed.

Lemma compatible_tms_file_reference_l :
  map (fun l => span_map l P_tms_file_reference)
      [L_tms_fr_description; L_tms_fr_contact; L_tms_fr_software; L_tms_fr_input; L_tms_fr_version] =
  [[Some (PConst "DESCRIPTION"); Some (PFld 0)]; [Some (PConst "CONTACT"); Some (PFld 0)]; [Some (PConst "SOFTWARE"); Some (PFld 0)];
   [Some (PConst "INPUT"); Some (PFld 0)]; [Some (PConst "VERSION NUMBER"); Some (PFld 0)]].
Proof. vm_compute. reflexivity. Qed.

Lemma compatible_tms_ref_coordinate_l :
  span_map L_tms_refcoord P_tms_refcoord =
  [Some (PFld 0); Some (PConst "A"); Some (PConst "----"); Some (PConst "P"); Some (PFld 1); Some (PFld 2); Some (PFld 3);
   Some (PFld 4); Some (PFld 5)].
Proof. vm_compute. reflexivity. Qed.

Lemma compatible_tms_columns_l :
  span_map L_tms_columns P_tms_columns = [Some (PFld 0); Some (PFld 1); Some (PFld 2); Some (PFld 3)].
Proof. vm_compute. reflexivity. Qed.

(* every block method of the SINEX-TMS writer opens with +NAME and ends with the matching -NAME *)
Lemma tms_blocks_wf_l : forallb (fun nb => block_wf (snd nb)) tms_blocks = true /\ List.length tms_blocks = 6%nat.
Proof. vm_compute. split; reflexivity. Qed.

(* every TIMESERIES/DATA field is right-justified numeric or a left-justified string with a positive width, and every row
   starts with a blank: so rows can never be mistaken for block markers, and tokenisation depends only on the gaps *)
Lemma tms_types_shape_l :
  forallb (fun nf => (0 <? f_w (snd nf))%nat && (f_max (snd nf) =? f_w (snd nf))%nat) tms_types = true.
Proof. vm_compute. reflexivity. Qed.

(* the property's domain (coordinates up to +-9 999 999.9999 m, decimal years up to 9999.99999) fits the regenerated
   widths: with a separating blank in TIMESERIES/DATA rows, exactly in the blank-separated REF_COORDINATE / CRD columns *)
Definition tms_domain : list (string * Z) :=
  [("X", 99999999999); ("Y", 99999999999); ("Z", 99999999999); ("YEAR", 999999999)]%Z.
Definition fix_width_ok (strict : bool) (f : fld) (mag : Z) : bool :=
  match f_kind f with
  | KFix d => let n := len (render_F_raw d (- mag)) in if strict then (n <? f_w f)%nat else (n <=? f_w f)%nat
  | _ => false
  end.
Lemma tms_domain_fits_l :
  forallb (fun nd => match lookup_fld tms_types (fst nd) with Some f => fix_width_ok true f (snd nd) | None => false end) tms_domain = true.
Proof. vm_compute. reflexivity. Qed.

Definition nth_fld (lay : layout) (i : nat) : fld := nth i (fields_of lay) (mkfld 0 AL (KStr None) 0).
Lemma crd_domain_fits_l :
  forallb (fun i => fix_width_ok false (nth_fld L_crd i) 999999999999%Z) [3; 4; 5]%nat = true /\
  forallb (fun i => fix_width_ok false (nth_fld L_tms_refcoord i) 99999999999%Z) [2; 3; 4]%nat = true.
Proof. vm_compute. split; reflexivity. Qed.

(* every field window of the three Bernese STA row types lies inside a column of the ruler line the writer itself
   writes under the section header (the format's own column definition) *)
Lemma sta_fields_in_ruler_l :
  fields_in_ruler ruler_sta1 L_sta1 = true /\ fields_in_ruler ruler_sta2 L_sta2 = true /\ fields_in_ruler ruler_sta3 L_sta3 = true.
Proof. vm_compute. repeat split; reflexivity. Qed.

(* the same for the sinex_tms blocks that carry a column header line ("*INDEX TYPE_________ STATION__ ..."): every field of
   SOLUTION/ESTIMATE (both row forms), TIMESERIES/REF_COORDINATE and TIMESERIES/COLUMNS lies under its header word *)
Lemma tms_fields_under_headers_l :
  fields_in_ruler hdr_tms_est L_tms_est = true /\ fields_in_ruler hdr_tms_est L_tms_est1 = true /\
  fields_in_ruler hdr_tms_refcoord L_tms_refcoord = true /\ fields_in_ruler hdr_tms_columns L_tms_columns = true.
Proof. vm_compute. repeat split; reflexivity. Qed.

(* ============================================================================================= round trips
   The column maps above, fed into the generic theorem (Proofs/C17_Sound.v): for EVERY record whose values fit, the
   matching parser's columns of the written line are exactly the stripped formatted values of the stated fields. *)
Notation C n cs := (strip (nth n cs "")).

Ltac roundtrip Lmap :=
  intros vals cs Hf; subst cs;
  rewrite (layout_compatible_values_l _ _ vals);
  [ rewrite Lmap; reflexivity | unfold compatible; rewrite Lmap; reflexivity | exact Hf ].

Lemma roundtrip_bernese_crd_l : forall vals, let cs := contents L_crd vals in fits L_crd cs = true ->
  parse_slices P_crd (render_line L_crd vals) = [C 0 cs; C 1 cs; C 2 cs; C 3 cs; C 4 cs; C 5 cs; "A"].
Proof. roundtrip compatible_bernese_crd_l. Qed.

Lemma roundtrip_bernese_clu_l : forall vals, let cs := contents L_clu vals in fits L_clu cs = true ->
  parse_slices P_clu (render_line L_clu vals) = [C 0 cs; ""; "1"].
Proof. roundtrip compatible_bernese_clu_l. Qed.

Lemma roundtrip_bernese_sta_v52_l : forall vals, let cs := contents L_sta2 vals in fits L_sta2 cs = true ->
  parse_slices P_sta52 (render_line L_sta2 vals) =
  [C 0 cs; C 1 cs; "001"; C 2 cs; C 3 cs; C 4 cs; C 5 cs; C 6 cs; C 7 cs; C 8 cs; C 9 cs; C 10 cs; C 11 cs; C 12 cs; C 13 cs;
   C 14 cs; C 15 cs].
Proof. roundtrip compatible_bernese_sta_v52_l. Qed.

Lemma roundtrip_tms_header_l : forall vals, let cs := contents L_tms_header vals in fits L_tms_header cs = true ->
  parse_slices P_tms_header (render_line L_tms_header vals) = [C 0 cs; C 1 cs; C 2 cs; C 3 cs; C 4 cs; C 5 cs; C 6 cs; C 7 cs].
Proof. roundtrip compatible_tms_header_l. Qed.

Lemma fr_map (l : layout) (k : string) :
  span_map l P_tms_file_reference = [Some (PConst k); Some (PFld 0)] ->
  forall vals, let cs := contents l vals in fits l cs = true ->
  parse_slices P_tms_file_reference (render_line l vals) = [k; C 0 cs].
Proof. intro Lmap. roundtrip Lmap. Qed.

Lemma roundtrip_tms_file_reference_l :
  (forall vals, let cs := contents L_tms_fr_description vals in fits L_tms_fr_description cs = true ->
     parse_slices P_tms_file_reference (render_line L_tms_fr_description vals) = ["DESCRIPTION"; C 0 cs]) /\
  (forall vals, let cs := contents L_tms_fr_contact vals in fits L_tms_fr_contact cs = true ->
     parse_slices P_tms_file_reference (render_line L_tms_fr_contact vals) = ["CONTACT"; C 0 cs]) /\
  (forall vals, let cs := contents L_tms_fr_software vals in fits L_tms_fr_software cs = true ->
     parse_slices P_tms_file_reference (render_line L_tms_fr_software vals) = ["SOFTWARE"; C 0 cs]) /\
  (forall vals, let cs := contents L_tms_fr_input vals in fits L_tms_fr_input cs = true ->
     parse_slices P_tms_file_reference (render_line L_tms_fr_input vals) = ["INPUT"; C 0 cs]) /\
  (forall vals, let cs := contents L_tms_fr_version vals in fits L_tms_fr_version cs = true ->
     parse_slices P_tms_file_reference (render_line L_tms_fr_version vals) = ["VERSION NUMBER"; C 0 cs]).
Proof. repeat split; apply fr_map; vm_compute; reflexivity. Qed.

Lemma roundtrip_tms_ref_coordinate_l : forall vals, let cs := contents L_tms_refcoord vals in fits L_tms_refcoord cs = true ->
  parse_slices P_tms_refcoord (render_line L_tms_refcoord vals) = [C 0 cs; "A"; "----"; "P"; C 1 cs; C 2 cs; C 3 cs; C 4 cs; C 5 cs].
Proof. roundtrip compatible_tms_ref_coordinate_l. Qed.

Lemma roundtrip_tms_columns_l : forall vals, let cs := contents L_tms_columns vals in fits L_tms_columns cs = true ->
  parse_slices P_tms_columns (render_line L_tms_columns vals) = [C 0 cs; C 1 cs; C 2 cs; C 3 cs].
Proof. roundtrip compatible_tms_columns_l. Qed.

(* and for the numbers: float() of the pos_x/pos_y/pos_z columns of a written CRD row is the printed decimal of the input *)
Lemma crd_reads_printed_coordinate_l : forall vals k d m e,
  fits L_crd (contents L_crd vals) = true -> (3 <= k <= 5)%nat ->
  nth k (contents L_crd vals) "" = py_fix d (Dy m e) -> (fix_mant d m e <> 0 \/ 0 < m)%Z ->
  parse_float (nth k (parse_slices P_crd (render_line L_crd vals)) "") = Some (dec_value (fix_mant d m e) d).
Proof.
  intros vals k d m e Hf Hk Hc Hr.
  apply (column_reads_printed_value_l L_crd P_crd vals k k d m e); try assumption.
  - unfold compatible. rewrite compatible_bernese_crd_l. reflexivity.
  - rewrite compatible_bernese_crd_l. destruct k as [|[|[|[|[|[|k]]]]]]; try lia; reflexivity.
Qed.
