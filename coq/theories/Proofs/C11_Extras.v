(* Proofs/C11_Extras.v - the optional header records (marker number, receiver, antenna, approximate position, antenna delta,
   interval, comments, time of last obs) through the regenerated header tables, one at a time and as lists in any order *)
From Coq Require Import Ascii String List Bool ZArith QArith Arith Lia.
From Verif Require Import Lib.Text Lib.Decimal Lib.Fixed Lib.Dyadic Model.C11_Rinex Model.C11_Check
     Spec.C11_RinexFormat Spec.C11_RinexFile Proofs.C11_Rinex Proofs.C11_File3 Proofs.C11_Hdr3 Proofs.C11_Hdr2 Proofs.C11_File2.
Import ListNotations.
Local Open Scope nat_scope.
Local Open Scope string_scope.

Definition last_text (t : epoch_t) : string :=
  time_text (ep_y t) (ep_mo t) (ep_d t) (ep_h t) (ep_mi t) (dec_value (ep_s7 t) 7).

Definition meta_hrec (r : hrec) (m : list (string * mval)) : list (string * mval) :=
  match r with
  | HMarkerNumber x => assoc_set "marker_number" (MStr x) m
  | HReceiver a b c => assoc_set "receiver_version" (MStr c) (assoc_set "receiver_type" (MStr b) (assoc_set "receiver_number" (MStr a) m))
  | HAntenna a b => assoc_set "antenna_type" (MStr b) (assoc_set "antenna_number" (MStr a) m)
  | HPosition x y z => assoc_set "pos_z" (MNum (dec_value z 4)) (assoc_set "pos_y" (MNum (dec_value y 4)) (assoc_set "pos_x" (MNum (dec_value x 4)) m))
  | HDelta h e n =>
      assoc_set "antenna_north" (MNum (dec_value n 4)) (assoc_set "antenna_east" (MNum (dec_value e 4)) (assoc_set "antenna_height" (MNum (dec_value h 4)) m))
  | HInterval i => assoc_set "interval" (MNum (dec_value i 3)) m
  | HComment t => assoc_set "comment" (MList (match assoc "comment" m with Some (MList l) => l | _ => [] end ++ [t])%list) m
  | HLastObs t => assoc_set "time_last_obs" (MStr (last_text t)) (assoc_set "time_sys" (MStr "GPS") m)
  end.
Definition pos_hrec (r : hrec) (p : option (Q * Q * Q)) : option (Q * Q * Q) :=
  match r with HPosition x y z => Some (dec_value x 4, dec_value y 4, dec_value z 4) | _ => p end.

(* the effect of one optional record on the parser's state: meta entries (and data["pos"]) *)
Definition apply_hrec (r : hrec) (s : st) : st :=
  {| meta := meta_hrec r (meta s); pos := pos_hrec r (pos s); types_all := types_all s; num_types := num_types s;
     sys_types := sys_types s; hsys := hsys s; rows := rows s |}.

Record has_extras (tbl : table) : Prop := {
  he_mn : table_find "MARKER NUMBER" tbl = Some ("_parse_string", false, [mkf "marker_number" 0 20]);
  he_rec : table_find "REC # / TYPE / VERS" tbl =
           Some ("_parse_string", false, [mkf "receiver_number" 0 20; mkf "receiver_type" 20 40; mkf "receiver_version" 40 60]);
  he_ant : table_find "ANT # / TYPE" tbl = Some ("_parse_string", false, [mkf "antenna_number" 0 20; mkf "antenna_type" 20 40]);
  he_pos : table_find "APPROX POSITION XYZ" tbl =
           Some ("_parse_approx_position", false, [mkf "pos_x" 0 14; mkf "pos_y" 14 28; mkf "pos_z" 28 42]);
  he_delta : table_find "ANTENNA: DELTA H/E/N" tbl =
             Some ("_parse_float", false, [mkf "antenna_height" 0 14; mkf "antenna_east" 14 28; mkf "antenna_north" 28 42]);
  he_int : table_find "INTERVAL" tbl = Some ("_parse_float", false, [mkf "interval" 0 10]);
  he_com : table_find "COMMENT" tbl = Some ("_parse_comment", false, [mkf "comment" 0 60]);
  he_last : table_find "TIME OF LAST OBS" tbl = Some ("_parse_time_of_last_obs", false, first_obs_fields)
}.

Lemma has_extras_G2 : has_extras G2.header_table.
Proof. constructor; reflexivity. Qed.
Lemma has_extras_G3 : has_extras G3.header_table.
Proof. constructor; reflexivity. Qed.

Lemma list_sum_firstn_le ws i : list_sum (firstn i ws) <= list_sum ws.
Proof. revert i; induction ws as [|w r IH]; intros i; destruct i as [|j]; simpl; try lia. specialize (IH j). lia. Qed.

(* the i-th piece of a header record's content, through the columns of the whole line *)
Lemma hdr_piece ps ws L i : widths_ok ps ws -> list_sum ws <= 60 -> i < List.length ps ->
  slice (list_sum (firstn i ws)) (list_sum (firstn (S i) ws)) (hdr_line (cat ps) L) = nth i ps "".
Proof.
  intros W S60 Hi. pose proof (len_cat_widths _ _ W) as Lx. pose proof (list_sum_firstn_le ws (S i)) as B.
  rewrite slice_hdr_line by lia. unfold ljust, ljust_with. rewrite slice_app_left by lia. apply (slice_piece _ _ i W Hi).
Qed.

Lemma len_ljust_text w s : text_ok w s -> len (ljust w s) = w.
Proof. intros [_ L]. apply len_ljust, L. Qed.

Lemma pf_strip_F w d m : parse_float (strip (render_F w d m)) = Some (dec_value m d).
Proof. unfold parse_float. rewrite parse_float_strip. apply parse_render_F. Qed.

Definition label_of (r : hrec) : string :=
  match r with
  | HMarkerNumber _ => "MARKER NUMBER" | HReceiver _ _ _ => "REC # / TYPE / VERS" | HAntenna _ _ => "ANT # / TYPE"
  | HPosition _ _ _ => "APPROX POSITION XYZ" | HDelta _ _ _ => "ANTENNA: DELTA H/E/N" | HInterval _ => "INTERVAL"
  | HComment _ => "COMMENT" | HLastObs _ => "TIME OF LAST OBS"
  end.
Definition pieces_of (r : hrec) : list string :=
  match r with
  | HMarkerNumber s => [ljust 20 s] | HReceiver a b c => [ljust 20 a; ljust 20 b; ljust 20 c] | HAntenna a b => [ljust 20 a; ljust 20 b]
  | HPosition x y z => [render_F 14 4 x; render_F 14 4 y; render_F 14 4 z] | HDelta h e n => [render_F 14 4 h; render_F 14 4 e; render_F 14 4 n]
  | HInterval i => [render_F 10 3 i] | HComment t => [ljust 60 t] | HLastObs t => last_obs_pieces t
  end.
Definition widths_of (r : hrec) : list nat :=
  match r with
  | HMarkerNumber _ => [20] | HReceiver _ _ _ => [20; 20; 20] | HAntenna _ _ => [20; 20]
  | HPosition _ _ _ => [14; 14; 14] | HDelta _ _ _ => [14; 14; 14] | HInterval _ => [10] | HComment _ => [60]
  | HLastObs _ => [6; 6; 6; 6; 6; 13; 5; 3]
  end.

Lemma render_hrec_eq r : render_hrec r = hdr_line (cat (pieces_of r)) (label_of r).
Proof. destruct r; reflexivity. Qed.

Lemma hrec_widths year r : hrec_ok year r -> widths_ok (pieces_of r) (widths_of r).
Proof.
  destruct r; cbn [hrec_ok pieces_of widths_of widths_ok]; intros H.
  - rewrite (len_ljust_text _ _ H). auto.
  - destruct H as [A [B C]]. rewrite !len_ljust_text by assumption. auto.
  - destruct H as [A B]. rewrite !len_ljust_text by assumption. auto.
  - destruct H as [A [B C]]. rewrite !render_F_length by assumption. auto.
  - destruct H as [A [B C]]. rewrite !render_F_length by assumption. auto.
  - rewrite render_F_length by assumption. auto.
  - rewrite (len_ljust_text _ _ H). auto.
  - destruct H as [W [Fy [Fs _]]]. apply (first_obs_widths t). split; [exact W|split; assumption].
Qed.

Lemma label_of_ok r : label_ok (label_of r).
Proof. destruct r; (split; [discriminate|reflexivity]). Qed.

Lemma hrec_len year r : hrec_ok year r -> len (cat (pieces_of r)) <= 60.
Proof. intros H. rewrite (len_cat_widths _ _ (hrec_widths year r H)). destruct r; simpl; lia. Qed.

Lemma hrec_not_end year r : hrec_ok year r -> is_end_of_header (render_hrec r) = false.
Proof.
  intros H. rewrite render_hrec_eq, (end_marker_hdr_line _ _ (hrec_len year r H) (label_of_ok r)). destruct r; reflexivity.
Qed.

Lemma hr_string vals s : header_record "_parse_string" vals s = Some (set_meta (update_strs vals (meta s)) s).
Proof. reflexivity. Qed.
Lemma hr_float vals s : header_record "_parse_float" vals s =
  match update_floats vals (meta s) with Some m => Some (set_meta m s) | None => None end.
Proof. reflexivity. Qed.
Lemma hr_comment vals s : header_record "_parse_comment" vals s =
  Some (set_meta (assoc_set "comment" (MList (match assoc "comment" (meta s) with Some (MList l) => l | _ => [] end ++ [lookup "comment" vals])%list) (meta s)) s).
Proof. reflexivity. Qed.
Lemma hr_last vals s : header_record "_parse_time_of_last_obs" vals s = h_time "time_last_obs" false vals s.
Proof. reflexivity. Qed.
Lemma hr_pos vals s : header_record "_parse_approx_position" vals s =
  match parse_float (lookup "pos_x" vals), parse_float (lookup "pos_y" vals), parse_float (lookup "pos_z" vals), update_floats vals (meta s) with
  | Some x, Some y, Some z, Some m =>
      Some {| meta := m; pos := Some (x, y, z); types_all := types_all s; num_types := num_types s; sys_types := sys_types s;
              hsys := hsys s; rows := rows s |}
  | _, _, _, _ => None
  end.
Proof. reflexivity. Qed.

Section Extras.
  Variable tbl : table.
  Hypothesis HE : has_extras tbl.
  Variable year : Z.

  Lemma hrec_line_ok r s : hrec_ok year r -> header_line tbl (render_hrec r) s = Some (apply_hrec r s).
  Proof.
    intros Ok. pose proof (hrec_widths year r Ok) as W. pose proof (hrec_len year r Ok) as Lb.
    assert (S60 : list_sum (widths_of r) <= 60) by (destruct r; simpl; lia).
    assert (P : forall i a b, i < List.length (pieces_of r) -> a = list_sum (firstn i (widths_of r)) ->
                b = list_sum (firstn (S i) (widths_of r)) -> slice a b (render_hrec r) = nth i (pieces_of r) "")
      by (intros i a b Hi -> ->; rewrite render_hrec_eq; apply hdr_piece; assumption).
    unfold header_line. cbv zeta. rewrite render_hrec_eq.
    rewrite (label_of_hdr_line _ _ Lb (label_of_ok r)), (rstrip_hdr_line _ _ (label_of_ok r)), <- render_hrec_eq.
    destruct r; cbn [label_of hrec_ok pieces_of widths_of apply_hrec] in *.
    - rewrite (he_mn tbl HE), hr_string. unfold fields_of.
      set (line := render_hrec (HMarkerNumber s0)) in *.
      transitivity (Some (set_meta (update_strs [("marker_number", strip (slice 0 20 line))] (meta s)) s)); [reflexivity|].
      rewrite (P 0 0 20) by (reflexivity || (simpl; lia)). cbn [nth update_strs]. rewrite strip_ljust by apply Ok. reflexivity.
    - destruct Ok as [A [B C]]. rewrite (he_rec tbl HE), hr_string. unfold fields_of.
      set (line := render_hrec (HReceiver num type vers)) in *.
      transitivity (Some (set_meta (update_strs [("receiver_number", strip (slice 0 20 line)); ("receiver_type", strip (slice 20 40 line));
                                                 ("receiver_version", strip (slice 40 60 line))] (meta s)) s)); [reflexivity|].
      rewrite (P 0 0 20), (P 1 20 40), (P 2 40 60) by (reflexivity || (simpl; lia)). cbn [nth update_strs].
      rewrite !strip_ljust by (apply A || apply B || apply C). reflexivity.
    - destruct Ok as [A B]. rewrite (he_ant tbl HE), hr_string. unfold fields_of.
      set (line := render_hrec (HAntenna num type)) in *.
      transitivity (Some (set_meta (update_strs [("antenna_number", strip (slice 0 20 line)); ("antenna_type", strip (slice 20 40 line))] (meta s)) s));
        [reflexivity|].
      rewrite (P 0 0 20), (P 1 20 40) by (reflexivity || (simpl; lia)). cbn [nth update_strs].
      rewrite !strip_ljust by (apply A || apply B). reflexivity.
    - rewrite (he_pos tbl HE), hr_pos. unfold fields_of. set (line := render_hrec (HPosition x y z)) in *.
      set (vals := parse_record [mkf "pos_x" 0 14; mkf "pos_y" 14 28; mkf "pos_z" 28 42] line).
      assert (V : vals = [("pos_x", strip (render_F 14 4 x)); ("pos_y", strip (render_F 14 4 y)); ("pos_z", strip (render_F 14 4 z))]).
      { transitivity [("pos_x", strip (slice 0 14 line)); ("pos_y", strip (slice 14 28 line)); ("pos_z", strip (slice 28 42 line))]; [reflexivity|].
        rewrite (P 0 0 14), (P 1 14 28), (P 2 28 42) by (reflexivity || (simpl; lia)). reflexivity. }
      rewrite V. change (lookup "pos_x" _) with (strip (render_F 14 4 x)). change (lookup "pos_y" _) with (strip (render_F 14 4 y)).
      change (lookup "pos_z" _) with (strip (render_F 14 4 z)). cbn [update_floats]. rewrite !pf_strip_F. reflexivity.
    - rewrite (he_delta tbl HE), hr_float. unfold fields_of. set (line := render_hrec (HDelta h e n)) in *.
      set (vals := parse_record [mkf "antenna_height" 0 14; mkf "antenna_east" 14 28; mkf "antenna_north" 28 42] line).
      assert (V : vals = [("antenna_height", strip (render_F 14 4 h)); ("antenna_east", strip (render_F 14 4 e)); ("antenna_north", strip (render_F 14 4 n))]).
      { transitivity [("antenna_height", strip (slice 0 14 line)); ("antenna_east", strip (slice 14 28 line)); ("antenna_north", strip (slice 28 42 line))];
          [reflexivity|].
        rewrite (P 0 0 14), (P 1 14 28), (P 2 28 42) by (reflexivity || (simpl; lia)). reflexivity. }
      rewrite V. cbn [update_floats]. rewrite !pf_strip_F. reflexivity.
    - rewrite (he_int tbl HE), hr_float. unfold fields_of. set (line := render_hrec (HInterval i)) in *.
      set (vals := parse_record [mkf "interval" 0 10] line).
      assert (V : vals = [("interval", strip (render_F 10 3 i))]).
      { transitivity [("interval", strip (slice 0 10 line))]; [reflexivity|]. rewrite (P 0 0 10) by (reflexivity || (simpl; lia)). reflexivity. }
      rewrite V. cbn [update_floats]. rewrite !pf_strip_F. reflexivity.
    - rewrite (he_com tbl HE), hr_comment. unfold fields_of. set (line := render_hrec (HComment text)) in *.
      assert (Lc : lookup "comment" (parse_record [mkf "comment" 0 60] line) = text).
      { transitivity (strip (slice 0 60 line)); [reflexivity|]. rewrite (P 0 0 60) by (reflexivity || (simpl; lia)). cbn [nth].
        apply strip_ljust, Ok. }
      rewrite Lc. reflexivity.
    - destruct Ok as [Wt [Fy [Fs _]]]. rewrite (he_last tbl HE), hr_last. unfold fields_of.
      set (line := render_hrec (HLastObs t)) in *. set (vals := parse_record first_obs_fields line). destruct Wt as [Hy Wt'].
      assert (Ly : lookup "year" vals = strip (render_int 6 (ep_y t))).
      { transitivity (strip (slice 0 6 line)); [reflexivity|]. rewrite (P 0 0 6) by (reflexivity || (simpl; lia)). reflexivity. }
      assert (Lmo : lookup "month" vals = strip (render_int 6 (ep_mo t))).
      { transitivity (strip (slice 6 12 line)); [reflexivity|]. rewrite (P 1 6 12) by (reflexivity || (simpl; lia)). reflexivity. }
      assert (Ld : lookup "day" vals = strip (render_int 6 (ep_d t))).
      { transitivity (strip (slice 12 18 line)); [reflexivity|]. rewrite (P 2 12 18) by (reflexivity || (simpl; lia)). reflexivity. }
      assert (Lh : lookup "hour" vals = strip (render_int 6 (ep_h t))).
      { transitivity (strip (slice 18 24 line)); [reflexivity|]. rewrite (P 3 18 24) by (reflexivity || (simpl; lia)). reflexivity. }
      assert (Lmi : lookup "minute" vals = strip (render_int 6 (ep_mi t))).
      { transitivity (strip (slice 24 30 line)); [reflexivity|]. rewrite (P 4 24 30) by (reflexivity || (simpl; lia)). reflexivity. }
      assert (Ls : lookup "second" vals = strip (render_F 13 7 (ep_s7 t))).
      { transitivity (strip (slice 30 43 line)); [reflexivity|]. rewrite (P 5 30 43) by (reflexivity || (simpl; lia)). reflexivity. }
      assert (Lt : lookup "time_sys" vals = "GPS").
      { transitivity (strip (slice 48 51 line)); [reflexivity|]. rewrite (P 7 48 51) by (reflexivity || (simpl; lia)). reflexivity. }
      unfold h_time, time_of. rewrite Lt, Ly, Lmo, Ld, Lh, Lmi, Ls.
      replace (String.eqb "GPS" "GPS") with true by reflexivity. cbn [negb].
      rewrite strip_render_int_nonneg by exact Hy.
      destruct (String.eqb_spec (render_nat (ep_y t)) ""); [exfalso; eapply render_nat_nonempty; eauto|].
      rewrite <- (strip_render_int_nonneg 6 _ Hy). rewrite !parse_int_strip, !parse_render_int, pf_strip_F. reflexivity.
  Qed.

  Definition apply_hrecs (rs : list hrec) (s : st) : st := fold_left (fun s r => apply_hrec r s) rs s.

  (* any list of optional records, in any order, comments interleaved *)
  Lemma hrecs_ok rs : forall s, Forall (hrec_ok year) rs -> hfold tbl (map render_hrec rs) s = Some (apply_hrecs rs s).
  Proof.
    induction rs as [|r rs IH]; intros s F; [reflexivity|]. apply Forall_cons_iff in F. destruct F as [Fr Frs].
    cbn [map hfold]. rewrite (hrec_line_ok r s Fr). apply IH, Frs.
  Qed.

  Lemma hrecs_not_end rs : Forall (hrec_ok year) rs -> Forall (fun l => is_end_of_header l = false) (map render_hrec rs).
  Proof.
    intros F. apply Forall_forall. intros l Hl. apply in_map_iff in Hl. destruct Hl as [r [E Hr]]. subst l.
    apply (hrec_not_end year). apply (proj1 (Forall_forall _ _) F r Hr).
  Qed.
End Extras.

(* ------------------------------------------------------------------------------------------ what the optional records leave alone *)
Lemma assoc_set_other {A} k k' (v : A) m : String.eqb k' k = false -> assoc k (assoc_set k' v m) = assoc k m.
Proof.
  intros H. induction m as [|[k0 v0] r IH]; cbn [assoc_set assoc].
  - rewrite H. reflexivity.
  - destruct (String.eqb_spec k0 k') as [E|E]; cbn [assoc].
    + subst k0. rewrite H. reflexivity.
    + destruct (String.eqb k0 k); [reflexivity|exact IH].
Qed.

Lemma meta_str_set_other k k' v m s : String.eqb k' k = false -> meta_str k (set_meta (assoc_set k' v m) s) = match assoc k m with Some (MStr x) => Some x | _ => None end.
Proof. intros H. unfold meta_str. cbn [meta set_meta]. rewrite assoc_set_other by exact H. reflexivity. Qed.

Lemma apply_hrec_fields r s : types_all (apply_hrec r s) = types_all s /\ num_types (apply_hrec r s) = num_types s /\
  sys_types (apply_hrec r s) = sys_types s /\ hsys (apply_hrec r s) = hsys s /\ rows (apply_hrec r s) = rows s.
Proof. destruct r; repeat split. Qed.

Lemma apply_hrecs_fields rs : forall s, types_all (apply_hrecs rs s) = types_all s /\ num_types (apply_hrecs rs s) = num_types s /\
  sys_types (apply_hrecs rs s) = sys_types s /\ hsys (apply_hrecs rs s) = hsys s /\ rows (apply_hrecs rs s) = rows s.
Proof.
  induction rs as [|r rs IH]; intros s; [repeat split|]. cbn [apply_hrecs fold_left]. fold (apply_hrecs rs (apply_hrec r s)).
  destruct (IH (apply_hrec r s)) as [A [B [C [D E]]]]. destruct (apply_hrec_fields r s) as [A' [B' [C' [D' E']]]].
  rewrite A, B, C, D, E. auto.
Qed.

Definition metas (rs : list hrec) (m : list (string * mval)) : list (string * mval) := fold_left (fun m r => meta_hrec r m) rs m.
Definition poss (rs : list hrec) (p : option (Q * Q * Q)) : option (Q * Q * Q) := fold_left (fun p r => pos_hrec r p) rs p.

Lemma meta_apply_hrecs rs : forall s, meta (apply_hrecs rs s) = metas rs (meta s) /\ pos (apply_hrecs rs s) = poss rs (pos s).
Proof.
  induction rs as [|r rs IH]; intros s; [split; reflexivity|]. cbn [apply_hrecs metas poss fold_left].
  fold (apply_hrecs rs (apply_hrec r s)). fold (metas rs (meta_hrec r (meta s))). fold (poss rs (pos_hrec r (pos s))). apply IH.
Qed.

(* keys the optional records never write *)
Definition quiet_key (k : string) : Prop := forall r m, assoc k (meta_hrec r m) = assoc k m.

Lemma quiet_marker : quiet_key "marker_name".
Proof. intros r m. destruct r; cbn [meta_hrec]; repeat (rewrite assoc_set_other by reflexivity); reflexivity. Qed.
Lemma quiet_first : quiet_key "time_first_obs".
Proof. intros r m. destruct r; cbn [meta_hrec]; repeat (rewrite assoc_set_other by reflexivity); reflexivity. Qed.

Lemma quiet_metas k : quiet_key k -> forall rs m, assoc k (metas rs m) = assoc k m.
Proof.
  intros Q. induction rs as [|r rs IH]; intros m; [reflexivity|]. cbn [metas fold_left]. fold (metas rs (meta_hrec r m)).
  rewrite IH. apply Q.
Qed.

Lemma gps_metas rs : forall m, assoc "time_sys" m = Some (MStr "GPS") -> assoc "time_sys" (metas rs m) = Some (MStr "GPS").
Proof.
  induction rs as [|r rs IH]; intros m H; [exact H|]. cbn [metas fold_left]. fold (metas rs (meta_hrec r m)). apply IH.
  destruct r; cbn [meta_hrec]; repeat (rewrite assoc_set_other by reflexivity); try exact H. apply assoc_assoc_set.
Qed.

Definition last_inv_m (Y : Z) (m : list (string * mval)) : Prop :=
  match assoc "time_last_obs" m with Some (MStr tl) => take 4 tl = render_nat Y | _ => True end.

Lemma last_metas Y rs : (1000 <= Y < 10000)%Z -> forall m, Forall (hrec_ok Y) rs -> last_inv_m Y m -> last_inv_m Y (metas rs m).
Proof.
  intros HY. induction rs as [|r rs IH]; intros m F H; [exact H|]. apply Forall_cons_iff in F. destruct F as [Fr Frs].
  cbn [metas fold_left]. fold (metas rs (meta_hrec r m)). apply IH; [exact Frs|].
  unfold last_inv_m in *. destruct r; cbn [meta_hrec]; repeat (rewrite assoc_set_other by reflexivity); try exact H.
  rewrite assoc_assoc_set. cbn [hrec_ok] in Fr. destruct Fr as [_ [_ [_ Ey]]]. unfold last_text. rewrite Ey.
  apply (first_year Y _ _ _ _ _ HY).
Qed.

Lemma last_inv_of_m Y s : last_inv_m Y (meta s) -> last_inv Y s.
Proof. unfold last_inv_m, last_inv, meta_str. destruct (assoc "time_last_obs" (meta s)) as [[x| | | | |]|]; auto. Qed.

(* ------------------------------------------------------------------------------------------ header with optional records *)
Definition hmeta (x : hextras) (mk tfo : string) : list (string * mval) :=
  metas (hx3 x) (assoc_set "time_first_obs" (MStr tfo) (assoc_set "time_sys" (MStr "GPS")
    (metas (hx2 x) (metas (hx1 x) (assoc_set "marker_name" (MStr mk) (metas (hx0 x) [])))))).
Definition hpos (x : hextras) : option (Q * Q * Q) := poss (hx3 x) (poss (hx2 x) (poss (hx1 x) (poss (hx0 x) None))).

Lemma hmeta_marker x mk tfo : assoc "marker_name" (hmeta x mk tfo) = Some (MStr mk).
Proof.
  unfold hmeta. rewrite (quiet_metas _ quiet_marker), !assoc_set_other by reflexivity.
  rewrite !(quiet_metas _ quiet_marker). apply assoc_assoc_set.
Qed.
Lemma hmeta_first x mk tfo : assoc "time_first_obs" (hmeta x mk tfo) = Some (MStr tfo).
Proof. unfold hmeta. rewrite (quiet_metas _ quiet_first). apply assoc_assoc_set. Qed.
Lemma hmeta_gps x mk tfo : assoc "time_sys" (hmeta x mk tfo) = Some (MStr "GPS").
Proof. unfold hmeta. apply gps_metas. rewrite assoc_set_other by reflexivity. apply assoc_assoc_set. Qed.
Lemma hmeta_last Y x mk tfo : (1000 <= Y < 10000)%Z -> hextras_ok Y x -> last_inv_m Y (hmeta x mk tfo).
Proof.
  intros HY [F0 [F1 [F2 F3]]]. unfold hmeta. apply (last_metas Y _ HY _ F3). unfold last_inv_m.
  rewrite !assoc_set_other by reflexivity. fold (last_inv_m Y (metas (hx2 x) (metas (hx1 x) (assoc_set "marker_name" (MStr mk) (metas (hx0 x) []))))).
  apply (last_metas Y _ HY _ F2), (last_metas Y _ HY _ F1). unfold last_inv_m. rewrite assoc_set_other by reflexivity.
  fold (last_inv_m Y (metas (hx0 x) [])). apply (last_metas Y _ HY _ F0). exact I.
Qed.

Lemma st_ext (a b : st) : meta a = meta b -> pos a = pos b -> types_all a = types_all b -> num_types a = num_types b ->
  sys_types a = sys_types b -> hsys a = hsys b -> rows a = rows b -> a = b.
Proof. destruct a, b. cbn. intros; subst; reflexivity. Qed.
