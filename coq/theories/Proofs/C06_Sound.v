(* C06 - what verdict 0 of the staged correspondence checks means (check_acr_mat, check_acr_delta, check_normal, check_azel):
   the glue from Ival.eval_I_contains / stage_contains through the staged environments to the real-number model. *)
From Coq Require Import Reals Lra ZArith QArith Qabs Qreals List Bool.
From Verif Require Import Lib.Dyadic Lib.Atan2 Lib.Ival Lib.Vec3 Lib.Mat3 Model.C06_Rot Proofs.C06_Rot.
Import ListNotations.
Open Scope R_scope.

Definition vd (a b c : dy) : vec3 := V3 (dyR a) (dyR b) (dyR c).

(* ---------------------------------------------------------------- small pieces *)
Lemma dyR_zero : dyR (DZero false) = 0.
Proof. unfold dyR, dyQ. apply RMicromega.Q2R_0. Qed.

Lemma small12_sound rI r e :
  (forall n, containsR (rI n) (r n)) -> small12 rI e = true -> Rabs (eval_R r e) <= Q2R rel12.
Proof.
  intros H Hc. unfold small12 in Hc.
  pose proof (check_close_sound p128 rel12 e r rI (DZero false) H Hc) as G.
  rewrite dyR_zero, Rminus_0_r in G. exact G.
Qed.

Lemma dy_abs_le_sound x b : dy_abs_le x b = true -> Rabs (dyR x) <= dyR b.
Proof.
  unfold dy_abs_le. destruct (dy_toQ x) as [qx|] eqn:Ex; [|discriminate].
  destruct (dy_toQ b) as [qb|] eqn:Eb; [|discriminate]. intros H.
  apply Qle_bool_iff in H. apply Qle_Rle in H. rewrite Q2R_Qabs in H.
  rewrite (dy_toQ_dyR _ _ Ex), (dy_toQ_dyR _ _ Eb) in H. exact H.
Qed.

Lemma check_zd_sound el zd :
  check_zd el zd = true -> Rabs (dyR half_pi_d - dyR el - dyR zd) <= Q2R (4 * ulp1).
Proof.
  unfold check_zd. destruct (dy_toQ el) as [qe|] eqn:Ee; [|discriminate].
  destruct (dy_toQ zd) as [qz|] eqn:Ez; [|discriminate].
  destruct (dy_toQ half_pi_d) as [qh|] eqn:Eh; [|discriminate]. intros H.
  apply Qle_bool_iff in H. apply Qle_Rle in H. rewrite Q2R_Qabs in H.
  unfold Qminus in H. rewrite !Q2R_plus, !Q2R_opp in H.
  rewrite (dy_toQ_dyR _ _ Ee), (dy_toQ_dyR _ _ Ez), (dy_toQ_dyR _ _ Eh) in H. exact H.
Qed.

(* ---------------------------------------------------------------- containment of the staged environments *)
Lemma acr_env_contains p r v d :
  Forall2 containsR (acr_env p r v d) (acr_env_R (map dyR r) (map dyR v) (map dyR d)).
Proof.
  unfold acr_env, acr_env_R. repeat apply stage_contains. rewrite <- !map_app. apply env_dy_Forall2.
Qed.

Lemma normal_env_contains p a e2 x e n u :
  Forall2 containsR (normal_env p a e2 x e n u) (normal_env_R (dyR a) (dyR e2) (map dyR x) (map dyR e) (map dyR n) (map dyR u)).
Proof.
  unfold normal_env, normal_env_R. repeat apply stage_contains.
  rewrite <- !map_app. apply (env_dy_Forall2 p (a :: e2 :: x ++ e ++ n ++ u)).
Qed.

Lemma azel_env_contains p lat lon pp oo az el :
  Forall2 containsR (azel_env p lat lon pp oo az el) (azel_env_R (dyR lat) (dyR lon) (map dyR pp) (map dyR oo) (dyR az) (dyR el)).
Proof.
  unfold azel_env, azel_env_R. repeat apply stage_contains.
  replace (dyR lat :: dyR lon :: map dyR pp ++ map dyR oo ++ [dyR az; dyR el]) with (map dyR (lat :: lon :: pp ++ oo ++ [az; el])).
  - apply env_dy_Forall2.
  - simpl. rewrite !map_app. reflexivity.
Qed.

(* ---------------------------------------------------------------- the staged values are the model's quantities *)
Lemma acr_mat_exprs_ok r1 r2 r3 v1 v2 v3 d1 d2 d3 :
  map (eval_R (env_R (acr_env_R [r1; r2; r3] [v1; v2; v3] [d1; d2; d3]))) trs2acr_e
  = mat_entries (trs2acr (V3 r1 r2 r3) (V3 v1 v2 v3)) /\
  map (eval_R (env_R (acr_env_R [r1; r2; r3] [v1; v2; v3] [d1; d2; d3]))) (transpose9 trs2acr_e)
  = mat_entries (acr2trs (V3 r1 r2 r3) (V3 v1 v2 v3)).
Proof. split; reflexivity. Qed.

Lemma acr_delta_exprs_ok r1 r2 r3 v1 v2 v3 d1 d2 d3 :
  map (eval_R (env_R (acr_env_R [r1; r2; r3] [v1; v2; v3] [d1; d2; d3]))) (mvec_e trs2acr_e (vars 6))
  = vec_entries (mvec (trs2acr (V3 r1 r2 r3) (V3 v1 v2 v3)) (V3 d1 d2 d3)) /\
  map (eval_R (env_R (acr_env_R [r1; r2; r3] [v1; v2; v3] [d1; d2; d3]))) (mvec_e (transpose9 trs2acr_e) (vars 6))
  = vec_entries (mvec (acr2trs (V3 r1 r2 r3) (V3 v1 v2 v3)) (V3 d1 d2 d3)).
Proof. split; reflexivity. Qed.

(* ---------------------------------------------------------------- D. along / cross / radial *)
Definition close12 (x : R) (d : dy) : Prop := Rabs (x - dyR d) <= Q2R rel12 * Rabs (dyR d) + Q2R abs15.

(* verdict 0: every entry of the returned matrix is within relative 1e-12 of trs2acr(r, v) over R;
   verdict 2 (the quirk): of its transpose acr2trs(r, v) *)
Lemma check_acr_mat_sound r1 r2 r3 v1 v2 v3 m :
  (check_acr_mat ([r1; r2; r3], [v1; v2; v3], m) = 0%Z ->
   Forall2 close12 (mat_entries (trs2acr (vd r1 r2 r3) (vd v1 v2 v3))) m) /\
  (check_acr_mat ([r1; r2; r3], [v1; v2; v3], m) = 2%Z ->
   Forall2 close12 (mat_entries (acr2trs (vd r1 r2 r3) (vd v1 v2 v3))) m).
Proof.
  set (z := DZero false).
  pose proof (env_I_contains _ _ (acr_env_contains p128 [r1; r2; r3] [v1; v2; v3] [z; z; z])) as Hc.
  destruct (acr_mat_exprs_ok (dyR r1) (dyR r2) (dyR r3) (dyR v1) (dyR v2) (dyR v3) (dyR z) (dyR z) (dyR z)) as [E1 E2].
  unfold check_acr_mat. fold z.
  destruct (negb _); [split; discriminate|].
  destruct (check_all p128 rel12 abs15 _ trs2acr_e m) eqn:C1.
  - split; [intros _ | discriminate].
    pose proof (check_all_sound _ _ _ _ _ _ _ Hc C1) as G.
    apply (Forall2_map_eval close12) in G. unfold vd. rewrite <- E1. exact G.
  - destruct (check_all p128 rel12 abs15 _ (transpose9 trs2acr_e) m) eqn:C2; [|split; discriminate].
    split; [discriminate | intros _].
    pose proof (check_all_sound _ _ _ _ _ _ _ Hc C2) as G.
    apply (Forall2_map_eval close12) in G. unfold vd. rewrite <- E2. exact G.
Qed.

(* verdict 0: every component of a converted difference is within 1e-12 |d|_1 of the real matrix-vector product *)
Lemma check_acr_delta_sound to_trs r1 r2 r3 v1 v2 v3 d1 d2 d3 out :
  check_acr_delta (to_trs, [r1; r2; r3], [v1; v2; v3], [d1; d2; d3], out) = 0%Z ->
  Forall2 (fun x o => Rabs (x - dyR o) <= Q2R (delta_tol [d1; d2; d3]))
          (vec_entries (mvec (if to_trs then acr2trs (vd r1 r2 r3) (vd v1 v2 v3) else trs2acr (vd r1 r2 r3) (vd v1 v2 v3))
                             (vd d1 d2 d3))) out.
Proof.
  pose proof (env_I_contains _ _ (acr_env_contains p128 [r1; r2; r3] [v1; v2; v3] [d1; d2; d3])) as Hc.
  destruct (acr_delta_exprs_ok (dyR r1) (dyR r2) (dyR r3) (dyR v1) (dyR v2) (dyR v3) (dyR d1) (dyR d2) (dyR d3)) as [E1 E2].
  unfold check_acr_delta. cbv beta iota zeta.
  destruct (negb _); [intros K; discriminate K|].
  destruct (check_all_abs p128 _ _ (mvec_e (if to_trs then transpose9 trs2acr_e else trs2acr_e) (vars 6)) out) eqn:C1.
  - intros _. pose proof (check_all_abs_sound _ _ _ _ _ _ Hc C1) as G.
    apply (Forall2_map_eval (fun x o => Rabs (x - dyR o) <= Q2R (delta_tol [d1; d2; d3]))) in G.
    unfold vd. destruct to_trs; [rewrite <- E2 | rewrite <- E1]; exact G.
  - match goal with |- (if ?b then _ else _) = _ -> _ => destruct b end; intros K; discriminate K.
Qed.

(* ---------------------------------------------------------------- C'. the triad against the ellipsoid normal *)
(* the point of the ellipsoid (a, e2) with outward normal direction u, and the height of x over it along u *)
Definition nf_D (a e2 : R) (u : vec3) : R :=
  sqrt (a * a * (vx u * vx u + vy u * vy u) + a * a * (1 - e2) * (vz u * vz u)).
Definition nf_P (a e2 : R) (u : vec3) : vec3 :=
  V3 (a * a * vx u / nf_D a e2 u) (a * a * vy u / nf_D a e2 u) (a * a * (1 - e2) * vz u / nf_D a e2 u).
Definition nf_W (a e2 : R) (x u : vec3) : vec3 := vsub x (nf_P a e2 u).
Definition nf_h (a e2 : R) (x u : vec3) : R := dot (nf_W a e2 x u) u.

Record normal_frame_ok (a e2 : R) (x e n u : vec3) : Prop := {
  nf_unit_up : Rabs (dot u u - 1) <= Q2R rel12;
  (* x lies on the line through nf_P along u, within 1e-9 (a + |h|): Up is the ellipsoid normal within 1e-9 rad *)
  nf_line_x : Rabs (vx (nf_W a e2 x u) - nf_h a e2 x u * vx u) <= Q2R rel9 * (a + Rabs (nf_h a e2 x u));
  nf_line_y : Rabs (vy (nf_W a e2 x u) - nf_h a e2 x u * vy u) <= Q2R rel9 * (a + Rabs (nf_h a e2 x u));
  nf_line_z : Rabs (vz (nf_W a e2 x u) - nf_h a e2 x u * vz u) <= Q2R rel9 * (a + Rabs (nf_h a e2 x u));
  (* the near foot point (not the antipodal one) *)
  nf_near : - (a / 2) <= nf_h a e2 x u;
  nf_east_axis : Rabs (vz e) <= Q2R rel12;
  nf_east_up : Rabs (dot e u) <= Q2R rel12;
  nf_east_unit : Rabs (dot e e - 1) <= Q2R rel12;
  nf_east_sense : Rabs (vx u * vy e - vy u * vx e - sqrt (vx u * vx u + vy u * vy u)) <= Q2R rel12;
  nf_north_x : Rabs (vx n - vx (cross u e)) <= Q2R rel12;
  nf_north_y : Rabs (vy n - vy (cross u e)) <= Q2R rel12;
  nf_north_z : Rabs (vz n - vz (cross u e)) <= Q2R rel12
}.

Lemma check_normal_sound a e2 x1 x2 x3 e1 e2' e3 n1 n2 n3 u1 u2 u3 :
  check_normal (a, e2, [x1; x2; x3], [e1; e2'; e3], [n1; n2; n3], [u1; u2; u3]) = 0%Z ->
  normal_frame_ok (dyR a) (dyR e2) (vd x1 x2 x3) (vd e1 e2' e3) (vd n1 n2 n3) (vd u1 u2 u3).
Proof.
  pose proof (env_I_contains _ _ (normal_env_contains p128 a e2 [x1; x2; x3] [e1; e2'; e3] [n1; n2; n3] [u1; u2; u3])) as Hc.
  unfold check_normal, verdict.
  match goal with |- (if ?b then _ else _) = _ -> _ => destruct b eqn:E; [|discriminate] end.
  intros _.
  repeat (apply andb_prop in E; let H := fresh "H" in destruct E as [E H]).
  simpl check_all_abs in H. repeat (apply andb_prop in H; let G := fresh "G" in destruct H as [G H]).
  constructor.
  - exact (small12_sound _ _ _ Hc H8).
  - exact (check_le_sound _ _ _ _ _ Hc H7).
  - exact (check_le_sound _ _ _ _ _ Hc H6).
  - exact (check_le_sound _ _ _ _ _ Hc H5).
  - exact (check_le_sound _ _ _ _ _ Hc H4).
  - exact (small12_sound _ _ _ Hc H3).
  - exact (small12_sound _ _ _ Hc H2).
  - exact (small12_sound _ _ _ Hc H1).
  - exact (small12_sound _ _ _ Hc H0).
  - pose proof (check_close_sound _ _ _ _ _ _ Hc G) as K. rewrite dyR_zero, Rminus_0_r in K. exact K.
  - pose proof (check_close_sound _ _ _ _ _ _ Hc G0) as K. rewrite dyR_zero, Rminus_0_r in K. exact K.
  - pose proof (check_close_sound _ _ _ _ _ _ Hc G1) as K. rewrite dyR_zero, Rminus_0_r in K. exact K.
Qed.

(* ---------------------------------------------------------------- E. azimuth / elevation / zenith distance *)
Record azel_ok (lat lon : R) (p o : vec3) (az el zd : R) : Prop := {
  (* with e, n, u the projections of the unit direction p -> o on East, North, Up of (lat, lon): *)
  ae_az_range : Rabs az <= dyR pi_d;
  ae_az : (exists k : Z, (-1 <= k <= 1)%Z /\ Rabs (azimuth lat lon p o + IZR k * (2 * PI) - az) <= Q2R tol_angle) \/
          (Rabs (sin az * dot (direction p o) (enu_north lat lon) - cos az * dot (direction p o) (enu_east lat lon)) <= Q2R rel12 /\
           - Q2R rel12 <= sin az * dot (direction p o) (enu_east lat lon) + cos az * dot (direction p o) (enu_north lat lon));
  ae_el_range : Rabs el <= dyR half_pi_d;
  ae_el : Rabs (asin (dot (direction p o) (enu_up lat lon)) - el) <= Q2R tol_angle \/
          Rabs (sin el - dot (direction p o) (enu_up lat lon)) <= Q2R rel12;
  ae_zd : Rabs (dyR half_pi_d - el - zd) <= Q2R (4 * ulp1)
}.

Lemma check_azel_sound lat lon p1 p2 p3 o1 o2 o3 az el zd :
  check_azel (lat, lon, [p1; p2; p3], [o1; o2; o3], az, el, zd) = 0%Z ->
  azel_ok (dyR lat) (dyR lon) (vd p1 p2 p3) (vd o1 o2 o3) (dyR az) (dyR el) (dyR zd).
Proof.
  pose proof (env_I_contains _ _ (azel_env_contains p128 lat lon [p1; p2; p3] [o1; o2; o3] az el)) as Hc.
  unfold check_azel. cbv beta iota zeta.
  match goal with |- (if negb ?b then _ else _) = _ -> _ => destruct b eqn:E1 end; [|intros K; discriminate K].
  cbn [negb].
  match goal with |- (if ?b then _ else _) = _ -> _ => destruct b eqn:E2 end.
  2:{ match goal with |- (if ?b then _ else _) = _ -> _ => destruct b end; intros K; discriminate K. }
  intros _.
  apply andb_prop in E1. destruct E1 as [_ Haz].
  apply andb_prop in E2. destruct E2 as [Hel Hzd].
  unfold check_az in Haz. apply andb_prop in Haz. destruct Haz as [Haz0 Haz1].
  unfold check_el in Hel. apply andb_prop in Hel. destruct Hel as [Hel0 Hel1].
  constructor.
  - exact (dy_abs_le_sound _ _ Haz0).
  - apply orb_prop in Haz1. destruct Haz1 as [A | A].
    + left. exact (check_close_mod2pi_sound _ _ _ _ _ _ Hc A).
    + right. apply andb_prop in A. destruct A as [A1 A2]. split.
      * pose proof (check_close_sound _ _ _ _ _ _ Hc A1) as K. rewrite dyR_zero, Rminus_0_r in K. exact K.
      * exact (check_le_sound _ _ _ _ _ Hc A2).
  - exact (dy_abs_le_sound _ _ Hel0).
  - apply orb_prop in Hel1. destruct Hel1 as [A | A].
    + left. exact (check_close_sound _ _ _ _ _ _ Hc A).
    + right. pose proof (check_close_sound _ _ _ _ _ _ Hc A) as K. rewrite dyR_zero, Rminus_0_r in K. exact K.
  - exact (check_zd_sound _ _ Hzd).
Qed.
