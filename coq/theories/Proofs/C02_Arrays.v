(* C02 - lemmas for the unified format interface and its array lifting (Model/C02_Arrays.v). *)
From Coq Require Import ZArith QArith Qround Qabs Qfield Bool List String Ascii Lia Lqa ZifyBool.
From Verif Require Import Lib.Dyadic Model.C02_Formats Model.C02_Arrays Gen.C02_Tables Proofs.C02_Formats.
Import ListNotations.
Open Scope Z_scope.

(* ---------------------------------------------------------------- element i depends on element i only *)
Lemma from_jds_list_nth rows s f : forall jd1 jd2 i,
  nth_error (from_jds_list rows s f jd1 jd2) i =
  match nth_error jd1 i, nth_error jd2 i with
  | Some a, Some b => Some (from_T rows s f (a + b))
  | _, _ => None
  end.
Proof.
  induction jd1 as [|a jd1 IH]; intros jd2 i.
  - destruct i; cbn; reflexivity.
  - destruct jd2 as [|b jd2].
    + destruct i; cbn; [reflexivity|]. destruct (nth_error jd1 i); reflexivity.
    + destruct i; cbn; [reflexivity|apply IH].
Qed.

Lemma to_jds_list_nth rows s f : forall vs i,
  nth_error (to_jds_list rows s f vs) i =
  match nth_error vs i with Some v => Some (to_Tm rows s f v) | None => None end.
Proof.
  induction vs as [|v vs IH]; intros i; destruct i; cbn; try reflexivity. apply IH.
Qed.

Lemma from_jds_list_length rows s f : forall jd1 jd2,
  List.length (from_jds_list rows s f jd1 jd2) = Nat.min (List.length jd1) (List.length jd2).
Proof.
  induction jd1 as [|a jd1 IH]; intros [|b jd2]; cbn; try reflexivity. now rewrite IH.
Qed.

Lemma to_jds_list_map rows s f vs : to_jds_list rows s f vs = map (to_Tm rows s f) vs.
Proof. induction vs as [|v vs IH]; cbn; [reflexivity|now rewrite IH]. Qed.

Lemma from_jds_list_map rows s f jd1 jd2 :
  from_jds_list rows s f jd1 jd2 = map (fun p => from_T rows s f (fst p + snd p)) (combine jd1 jd2).
Proof.
  revert jd2. induction jd1 as [|a jd1 IH]; intros [|b jd2]; cbn; try reflexivity. now rewrite IH.
Qed.

Lemma from_jds_list_local rows s f jd1 jd2 jd1' jd2' i :
  nth_error jd1 i = nth_error jd1' i -> nth_error jd2 i = nth_error jd2' i ->
  nth_error (from_jds_list rows s f jd1 jd2) i = nth_error (from_jds_list rows s f jd1' jd2') i.
Proof. intros H1 H2. rewrite !from_jds_list_nth, H1, H2. reflexivity. Qed.

Lemma to_jds_list_local rows s f vs vs' i :
  nth_error vs i = nth_error vs' i ->
  nth_error (to_jds_list rows s f vs) i = nth_error (to_jds_list rows s f vs') i.
Proof. intros H. rewrite !to_jds_list_nth, H. reflexivity. Qed.

(* scalar, length-1 and element i of length-n *)
Lemma shape_identity_from rows s f jd1 jd2 i a b :
  nth_error jd1 i = Some a -> nth_error jd2 i = Some b ->
  from_jds_list rows s f [a] [b] = [from_T rows s f (a + b)] /\
  nth_error (from_jds_list rows s f jd1 jd2) i = Some (from_T rows s f (a + b)) /\
  nth_error (from_jds_list rows s f jd1 jd2) i = nth_error (from_jds_list rows s f [a] [b]) 0.
Proof.
  intros H1 H2. split; [reflexivity|]. rewrite from_jds_list_nth, H1, H2. split; reflexivity.
Qed.

Lemma shape_identity_to rows s f vs i v :
  nth_error vs i = Some v ->
  to_jds_list rows s f [v] = [to_Tm rows s f v] /\
  nth_error (to_jds_list rows s f vs) i = Some (to_Tm rows s f v) /\
  nth_error (to_jds_list rows s f vs) i = nth_error (to_jds_list rows s f [v]) 0.
Proof.
  intros H. split; [reflexivity|]. rewrite to_jds_list_nth, H. split; reflexivity.
Qed.

(* ---------------------------------------------------------------- rounding to whole microseconds *)
Lemma round_half_even_bound (x : Q) :
  (- (1 # 2) <= x - Qz (round_half_even x))%Q /\ (x - Qz (round_half_even x) <= 1 # 2)%Q.
Proof.
  unfold round_half_even, Qz.
  pose proof (Qfloor_le x) as L. pose proof (Qlt_floor x) as U.
  set (lo := Qfloor x) in *. rewrite inject_Z_plus in U. change (inject_Z 1) with 1%Q in U.
  destruct (Qcompare (x - inject_Z lo) (1 # 2)) eqn:C.
  - apply Qeq_alt in C. destruct (Z.even lo); [|rewrite inject_Z_plus; change (inject_Z 1) with 1%Q]; split; lra.
  - apply Qlt_alt in C. split; lra.
  - apply Qgt_alt in C. rewrite inject_Z_plus. change (inject_Z 1) with 1%Q. split; lra.
Qed.

Lemma round_half_even_Z (z : Z) : round_half_even (Qz z) = z.
Proof.
  unfold round_half_even, Qz. rewrite Qfloor_Z.
  assert (E : (inject_Z z - inject_Z z == 0)%Q) by ring.
  assert (C : Qcompare (inject_Z z - inject_Z z) (1 # 2) = Lt) by (rewrite E; reflexivity).
  rewrite C. reflexivity.
Qed.

Lemma usq_of_jd_of_us u : (usq_of_jd (jd_of_us u) == Qz u)%Q.
Proof. exact (jd_of_us_inj u). Qed.

(* ---------------------------------------------------------------- utc year length for the whole datetime range *)
Lemma gen_ylen_ok_all y : 1 <= y <= 9998 -> (cal_len y <= ylen_utc gen_taiutc y)%Q.
Proof.
  intros H. apply Qle_bool_iff. change (ylen_ok y = true).
  apply (all_below_spec 9998 ylen_ok 1); [vm_cast_no_check (eq_refl true)|lia].
Qed.

Lemma decyear_rt_all s T :
  match s with Sutc => 1 <= year_of_jd T <= 9998 | _ => True end ->
  (jd_of_decyear (ylen_of gen_taiutc s) (decyear_of_jd (ylen_of gen_taiutc s) T) == T)%Q.
Proof.
  intros H. apply decyear_rt. destruct s; cbn [ylen_of]; try apply Qle_refl. now apply gen_ylen_ok_all.
Qed.

(* ---------------------------------------------------------------- one statement for all formats *)
Lemma text_case (tf : tfmt) (T : Q) :
  year_ok tf (dY (dt_of_us (round_us T))) = true ->
  exists g, us_of_text tf (text_of_us tf (round_us T)) = Some g /\
            (- (1 # 2) <= usq_of_jd T - usq_of_jd (jd_of_us g))%Q /\
            (usq_of_jd T - usq_of_jd (jd_of_us g) <=
               Qz (match tf with Tdate => US_DAY | Tyy | Tyyyy => US_S | _ => 0 end) + (1 # 2))%Q.
Proof.
  intros YO. exists (trunc_us tf (round_us T)). split; [now apply text_roundtrip|].
  pose proof (round_half_even_bound (usq_of_jd T)) as [B1 B2]. fold (round_us T) in B1, B2.
  pose proof (trunc_us_bounds tf (round_us T)) as TB.
  rewrite usq_of_jd_of_us. set (r := round_us T) in *. set (g := trunc_us tf r) in *.
  assert (E : (Qz r - Qz g == Qz (r - g))%Q) by (unfold Qz, Z.sub; rewrite inject_Z_plus, inject_Z_opp; ring).
  assert (G0 : (0 <= Qz (r - g))%Q) by (unfold Qz; change 0%Q with (inject_Z 0); rewrite <- Zle_Qle; lia).
  assert (G1 : (Qz (r - g) <= Qz (match tf with Tdate => US_DAY | Tyy | Tyyyy => US_S | _ => 0 end))%Q).
  { unfold Qz. rewrite <- Zle_Qle. destruct tf; lia. }
  split; lra.
Qed.

Local Opaque us_of_text text_of_us dt_of_us us_of_dt round_us usq_of_jd jd_of_us gpsws_of_jd decyear_of_jd
             jd_of_decyear jd_of_gpsws valid_dt.

Lemma from_T_text rows s f tf T : fmt_valid s f = true -> tfmt_of f = Some tf ->
  from_T rows s f T = Some (MStr (text_of_us tf (round_us T))).
Proof. intros V E. unfold from_T. rewrite V. destruct f; inversion E; reflexivity. Qed.

Lemma to_Tm_text rows s f tf str : fmt_valid s f = true -> tfmt_of f = Some tf ->
  to_Tm rows s f (MStr str) = match us_of_text tf str with Some u => Some (jd_of_us u) | None => None end.
Proof. intros V E. unfold to_Tm. rewrite V. destruct f; inversion E; reflexivity. Qed.

Lemma res_us_text f tf : tfmt_of f = Some tf ->
  res_us f = match tf with Tdate => US_DAY | Tyy | Tyyyy => US_S | _ => 0 end /\ on_us_grid f = true.
Proof. intros E. destruct f; inversion E; split; reflexivity. Qed.

Definition rt_statement (s : scale) (f : fmt) (T : Q) : Prop :=
  exists v T', from_T gen_taiutc s f T = Some v /\ to_Tm gen_taiutc s f v = Some T' /\
    if on_us_grid f
    then (- (1 # 2) <= usq_of_jd T - usq_of_jd T')%Q /\ (usq_of_jd T - usq_of_jd T' <= Qz (res_us f) + (1 # 2))%Q
    else (T' == T)%Q.

Lemma rt_text s f tf T : fmt_valid s f = true -> tfmt_of f = Some tf ->
  year_ok tf (dY (dt_of_us (round_us T))) = true -> rt_statement s f T.
Proof.
  intros V E YO. destruct (text_case tf T YO) as (g & Eg & B1 & B2).
  destruct (res_us_text f tf E) as [R G].
  exists (MStr (text_of_us tf (round_us T))), (jd_of_us g).
  split; [now apply from_T_text|]. split; [rewrite (to_Tm_text _ _ _ tf) by assumption; now rewrite Eg|].
  rewrite G, R. split; assumption.
Qed.

Lemma rt_datetime s T : rt_statement s Fdatetime T.
Proof.
  destruct (us_of_dt_of_us (round_us T)) as [E Vd].
  exists (MDt (dt_of_us (round_us T))), (jd_of_us (round_us T)).
  split; [reflexivity|]. split; [unfold to_Tm; cbn [fmt_valid negb]; now rewrite Vd, E|].
  cbn [on_us_grid res_us]. rewrite usq_of_jd_of_us.
  pose proof (round_half_even_bound (usq_of_jd T)) as [B1 B2].
  Local Transparent round_us. unfold round_us. Local Opaque round_us.
  change (Qz 0) with 0%Q. split; lra.
Qed.

Lemma rt_gps_ws T : rt_statement Sgps Fgps_ws T.
Proof.
  pose proof (gpsws_rt T) as G. unfold rt_statement, from_T, to_Tm. cbn [fmt_valid is_gps negb on_us_grid].
  destruct (gpsws_of_jd T) as [[w sec] d].
  exists (MWs w sec d), (jd_of_gpsws (Qz w) sec). split; [reflexivity|]. split; [reflexivity|apply G].
Qed.

Lemma format_roundtrip_all_lemma (s : scale) (f : fmt) (T : Q) :
  fmt_valid s f = true -> in_domain s f T = true -> rt_statement s f T.
Proof.
  intros V D.
  destruct f.
  - exists (MQ T), T. split; [reflexivity|]. split; [reflexivity|reflexivity].
  - exists (MQ (mjd_of_jd T)), (jd_of_mjd (mjd_of_jd T)). split; [reflexivity|]. split; [reflexivity|apply mjd_rt].
  - apply rt_datetime.
  - destruct s; try discriminate V. apply rt_gps_ws.
  - destruct s; try discriminate V.
    exists (MQ (gpssec_of_jd T)), (jd_of_gpssec (gpssec_of_jd T)). split; [reflexivity|]. split; [reflexivity|apply gpssec_rt].
  - exists (MQ (jyear_of_jd T)), (jd_of_jyear (jyear_of_jd T)). split; [reflexivity|]. split; [reflexivity|apply jyear_rt].
  - exists (MQ (decyear_of_jd (ylen_of gen_taiutc s) T)),
           (jd_of_decyear (ylen_of gen_taiutc s) (decyear_of_jd (ylen_of gen_taiutc s) T)).
    split; [reflexivity|]. split; [reflexivity|].
    apply decyear_rt_all. unfold in_domain in D. destruct s; try exact I. lia.
  - apply (rt_text s Fyy Tyy); [exact V|reflexivity|exact D].
  - apply (rt_text s Fyyyy Tyyyy); [exact V|reflexivity|exact D].
  - apply (rt_text s Fisot Tisot); [exact V|reflexivity|exact D].
  - apply (rt_text s Fiso Tiso); [exact V|reflexivity|exact D].
  - apply (rt_text s Fyday Tyday); [exact V|reflexivity|exact D].
  - apply (rt_text s Fdate Tdate); [exact V|reflexivity|exact D].
Qed.
