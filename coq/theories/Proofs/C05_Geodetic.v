(* C05 - proofs about the geodetic conversions (Model/C05_Geodetic.v). *)
From Coq Require Import Reals ZArith QArith Qreals List Bool Lra Lia String.
From Verif Require Import Lib.Dyadic Lib.Atan2 Lib.Ival Lib.C05_Prog Model.C05_Geodetic.
Import ListNotations.
Open Scope R_scope.

(* ---------------------------------------------------------------- the programs are the real-number model *)
Definition trs_envR (a f x y z : R) : nat -> R := env_R (prog_R [a; f; x; y; z] trs2llh_prog).
Definition llh_envR (a f lat lon h : R) : nat -> R := env_R (prog_R [a; f; lat; lon; h] llh2trs_prog).

Lemma trs2llh_prog_ok a f x y z :
  trs2llh_R a f x y z =
  if Rle_dec (trs_envR a f x y z 10%nat) (trs_envR a f x y z 30%nat)
  then (PI / 2 * sign_R z, trs_envR a f x y z 27%nat, trs_envR a f x y z 28%nat)
  else (trs_envR a f x y z 24%nat * sign_R z, trs_envR a f x y z 27%nat, trs_envR a f x y z 26%nat).
Proof. reflexivity. Qed.

Lemma llh2trs_prog_ok a f lat lon h :
  llh2trs_R a f lat lon h = (llh_envR a f lat lon h 12%nat, llh_envR a f lat lon h 13%nat, llh_envR a f lat lon h 14%nat).
Proof. reflexivity. Qed.

(* ---------------------------------------------------------------- ellipsoid parameters *)
Lemma ellipsoid_params_l a f : a <> 0 ->
  ell_b a f = a * (1 - f) /\ ell_e2 a f = 2 * f - f * f /\ (1 - f)² = 1 - ell_e2 a f.
Proof.
  intros Ha. unfold ell_e2, ell_b, Rsqr. repeat split; field; exact Ha.
Qed.

(* the table constants are positive and the flattenings are in [0, 1/100) *)
Definition ell_ok (e : String.string * Q * option Q) : bool :=
  let '(a, f) := ell_af e in Qlt_b 0 a && Qle_bool 0 f && Qlt_b f (1 # 100).
Lemma published_ok : forallb ell_ok published_ellipsoids = true.
Proof. vm_compute. reflexivity. Qed.

(* ---------------------------------------------------------------- llh2trs: the point at distance h on the normal *)
Definition normal (lat lon : R) : R * R * R := (cos lat * cos lon, cos lat * sin lon, sin lat).

Lemma sincos1 t : (cos t)² + (sin t)² = 1.
Proof. rewrite Rplus_comm. apply sin2_cos2. Qed.

Lemma llh2trs_on_normal_l a f lat lon h : 0 < a -> f <> 1 ->
  let '(px, py, pz) := llh2trs_R a f lat lon 0 in
  let '(nx, ny, nz) := normal lat lon in
  let b := ell_b a f in
  llh2trs_R a f lat lon h = (px + h * nx, py + h * ny, pz + h * nz)
  /\ px² / a² + py² / a² + pz² / b² = 1
  /\ exists k, 0 < k /\ (2 * px / a², 2 * py / a², 2 * pz / b²) = (k * nx, k * ny, k * nz).
Proof.
  intros Ha Hf. unfold llh2trs_R, normal, ell_b.
  set (cl := cos lat). set (sl := sin lat). set (co := cos lon). set (so := sin lon).
  set (w := (1 - f)²).
  assert (Hw : 0 < w) by (unfold w, Rsqr; nra).
  assert (Hcs : cl² + sl² = 1) by apply sincos1.
  assert (Hoo : co² + so² = 1) by apply sincos1.
  assert (HD : 0 < cl² + w * sl²).
  { unfold Rsqr in *. destruct (Req_dec sl 0) as [E|E]; [rewrite E in *; nra|].
    assert (0 < sl * sl) by nra. assert (0 <= cl * cl) by nra. nra. }
  set (D := cl² + w * sl²) in *.
  assert (HsD : 0 < sqrt D) by (apply sqrt_lt_R0; exact HD).
  assert (HDD : sqrt D * sqrt D = D) by (apply sqrt_sqrt; lra).
  set (sD := sqrt D) in *.
  assert (H1f : 1 - f <> 0) by lra.
  split; [|split].
  - f_equal; [f_equal|]; ring.
  - replace ((a / sD + 0) * cl * co)² with (a² * (cl² * co²) / D)
      by (unfold Rsqr; rewrite <- HDD; field; lra).
    replace ((a / sD + 0) * cl * so)² with (a² * (cl² * so²) / D)
      by (unfold Rsqr; rewrite <- HDD; field; lra).
    replace ((w * (a / sD) + 0) * sl)² with (a² * (w * w * sl²) / D)
      by (unfold Rsqr; rewrite <- HDD; field; lra).
    replace ((a * (1 - f))²) with (a² * w) by (unfold w, Rsqr; ring).
    assert (Ha2 : a² <> 0) by (unfold Rsqr; nra).
    replace (a² * (cl² * co²) / D / a² + a² * (cl² * so²) / D / a² + a² * (w * w * sl²) / D / (a² * w))
      with ((cl² * (co² + so²) + w * sl²) / D) by (field; repeat split; lra).
    rewrite Hoo, Rmult_1_r. fold D. field. lra.
  - exists (2 / (a * sD)). split.
    + apply Rdiv_lt_0_compat; [lra | nra].
    + replace ((a * (1 - f))²) with (a² * w) by (unfold w, Rsqr; ring).
      unfold Rsqr. f_equal; [f_equal|]; field; repeat split; try lra; unfold w, Rsqr in *; nra.
Qed.

(* ---------------------------------------------------------------- trs2llh: longitude, mirror symmetry, pole *)
Definition lat_of (t : R * R * R) : R := fst (fst t).
Definition lon_of (t : R * R * R) : R := snd (fst t).
Definition h_of (t : R * R * R) : R := snd t.

Lemma trs2llh_lon_l a f x y z :
  lon_of (trs2llh_R a f x y z) = atan2 y x
  /\ - PI < lon_of (trs2llh_R a f x y z) <= PI
  /\ (y = 0 -> x < 0 -> lon_of (trs2llh_R a f x y z) = PI)
  /\ (y = 0 -> 0 < x -> lon_of (trs2llh_R a f x y z) = 0).
Proof.
  assert (E : lon_of (trs2llh_R a f x y z) = atan2 y x).
  { unfold trs2llh_R, lon_of. destruct (Rle_dec _ _); reflexivity. }
  rewrite E. split; [reflexivity|]. split; [apply atan2_bound|]. split.
  - intros Hy Hx. subst y. rewrite atan2_neg_x_nonneg_y by lra.
    unfold Rdiv. rewrite Rmult_0_l, atan_0. lra.
  - intros Hy Hx. subst y. rewrite atan2_pos_x by lra. unfold Rdiv. rewrite Rmult_0_l. apply atan_0.
Qed.

Lemma sign_R_opp z : sign_R (- z) = - sign_R z.
Proof.
  unfold sign_R. destruct (Rlt_dec 0 (- z)), (Rlt_dec (- z) 0), (Rlt_dec 0 z), (Rlt_dec z 0); lra.
Qed.

Lemma trs2llh_mirror_l a f x y z :
  trs2llh_R a f x y (- z) =
  (- lat_of (trs2llh_R a f x y z), lon_of (trs2llh_R a f x y z), h_of (trs2llh_R a f x y z)).
Proof.
  unfold trs2llh_R, lat_of, lon_of, h_of. rewrite Rabs_Ropp, sign_R_opp.
  destruct (Rle_dec _ _); simpl; f_equal; f_equal; ring.
Qed.

Lemma trs2llh_pole_l a f x y z : is_pole a x y ->
  trs2llh_R a f x y z = (PI / 2 * sign_R z, atan2 y x, Rabs z - ell_b a f)
  /\ (0 < z -> lat_of (trs2llh_R a f x y z) = PI / 2)
  /\ (z < 0 -> lat_of (trs2llh_R a f x y z) = - (PI / 2)).
Proof.
  intros Hp. unfold is_pole in Hp.
  assert (E : trs2llh_R a f x y z = (PI / 2 * sign_R z, atan2 y x, Rabs z - ell_b a f)).
  { unfold trs2llh_R. destruct (Rle_dec _ _) as [_|N]; [reflexivity | contradiction]. }
  rewrite E. split; [reflexivity|]. unfold lat_of, sign_R; simpl. split; intros Hz.
  - destruct (Rlt_dec 0 z); [lra | contradiction].
  - destruct (Rlt_dec 0 z); [lra|]. destruct (Rlt_dec z 0); [lra | contradiction].
Qed.

(* on the equator the latitude is exactly 0 *)
Lemma trs2llh_equator_lat_l a f x y : lat_of (trs2llh_R a f x y 0) = 0.
Proof.
  unfold trs2llh_R, lat_of.
  assert (S0 : sign_R 0 = 0) by (unfold sign_R; destruct (Rlt_dec 0 0); lra).
  rewrite S0. destruct (Rle_dec _ _); simpl; ring.
Qed.

(* ---------------------------------------------------------------- the Halley step leaves the exact solution fixed *)
(* Fukushima's latitude equation in the tangent T = s / c of the reduced latitude:  pn T - zc - e2 T / sqrt (1 + T^2) = 0.
   If (s, c) solves it, the step returns the same tangent:  S / C = s / c   (stated without division). *)
Lemma halley_fixed_point_l e2 ec pn zc s c :
  let A := sqrt (c² + s²) in
  0 < A -> pn * s - zc * c - e2 * s * c / A = 0 ->
  halley_S e2 ec pn zc s c * c = halley_C e2 ec pn zc s c * s.
Proof.
  intros A HA Heq.
  assert (HAA : A * A = c² + s²).
  { unfold A. apply sqrt_sqrt. unfold Rsqr. nra. }
  unfold halley_S, halley_C, halley_d0, halley_f0, halley_b0. fold A.
  set (b0 := e2² * Q2R q_three_halves * s² * c² * pn * (A - ec)).
  set (d0 := zc * (A² * A) + e2 * (s² * s)).
  set (f0 := pn * (A² * A) - e2 * (c² * c)).
  assert (K : d0 * c - f0 * s = 0).
  { unfold d0, f0.
    assert (G : (zc * (A² * A) + e2 * (s² * s)) * c - (pn * (A² * A) - e2 * (c² * c)) * s
                = - (A² * A) * (pn * s - zc * c) + e2 * s * c * (c² + s²)) by (unfold Rsqr; ring).
    rewrite G. replace (pn * s - zc * c) with (e2 * s * c / A) by lra.
    rewrite <- HAA. unfold Rsqr. field. lra. }
  unfold Rsqr. replace (d0 * f0 - b0 * s) with (f0 * d0 - b0 * s) by ring.
  assert (H : d0 * c = f0 * s) by lra.
  replace ((f0 * d0 - b0 * s) * c) with (f0 * (d0 * c) - b0 * s * c) by ring. rewrite H. ring.
Qed.

(* ---------------------------------------------------------------- the regenerated ellipsoid table *)
(* every published ellipsoid is registered in midgard/math/ellipsoid.py with exactly the published constants *)
From Verif Require Gen.C05_Ellipsoids.
Definition registered (tbl : list (String.string * Q * option Q)) (e : String.string * Q * option Q) : bool :=
  existsb (ell_eqb e) tbl.
Lemma ellipsoid_table_published_l :
  forallb (registered Gen.C05_Ellipsoids.ellipsoids) published_ellipsoids = true.
Proof. vm_compute. reflexivity. Qed.

(* ---------------------------------------------------------------- f = 0: the one-step algorithm is the exact inverse *)
Lemma sqrt_scale2 k u v : 0 <= k -> sqrt ((k * u)² + (k * v)²) = k * sqrt (u² + v²).
Proof.
  intros Hk. replace ((k * u)² + (k * v)²) with (k² * (u² + v²)) by (unfold Rsqr; ring).
  rewrite sqrt_mult_alt by apply Rle_0_sqr. rewrite sqrt_Rsqr by exact Hk. reflexivity.
Qed.

Lemma Q2R_pole_pos : 0 < Q2R q_pole.
Proof. unfold q_pole, Q2R; simpl. apply Rdiv_lt_0_compat; lra. Qed.

(* the sphere: e2 = 0, ec = 1 *)
Lemma sphere_params a : a <> 0 -> ell_b a 0 = a /\ ell_e2 a 0 = 0.
Proof. intros Ha. unfold ell_e2, ell_b, Rsqr. split; field; exact Ha. Qed.

Lemma trs2llh_sphere a x y z : 0 < a -> ~ is_pole a x y ->
  let p := sqrt (x² + y²) in
  let r := sqrt (x² + y² + z²) in
  trs2llh_R a 0 x y z = (atan (Rabs z / p) * sign_R z, atan2 y x, r - a).
Proof.
  intros Ha Hnp p r. unfold is_pole in Hnp.
  assert (Hp2 : 0 < x² + y²).
  { apply Rnot_le_lt in Hnp. pose proof Q2R_pole_pos. assert (0 <= a² * Q2R q_pole) by (unfold Rsqr; nra). lra. }
  assert (Hp : 0 < p) by (apply sqrt_lt_R0; exact Hp2).
  assert (Hpp : p * p = x² + y²) by (apply sqrt_sqrt; lra).
  unfold trs2llh_R. destruct (Rle_dec _ _) as [C|_]; [contradiction|].
  destruct (sphere_params a) as [Eb Ee]; [lra|]. rewrite Ee.
  replace (1 - 0) with 1 by ring. rewrite sqrt_1. fold p.
  set (s0 := Rabs z / a). set (pn := p / a).
  assert (Hpn : 0 < pn) by (apply Rdiv_lt_0_compat; assumption).
  assert (Hs0 : 0 <= s0) by (apply Rmult_le_pos; [apply Rabs_pos | left; apply Rinv_0_lt_compat; exact Ha]).
  replace (1 * s0) with s0 by ring. replace (1 * pn) with pn by ring.
  set (A := sqrt (pn² + s0²)).
  assert (HA : 0 < A) by (apply sqrt_lt_R0; unfold Rsqr; nra).
  assert (HAA : A * A = pn² + s0²) by (apply sqrt_sqrt; unfold Rsqr; nra).
  set (k := pn * ((A² * A) * (A² * A))).
  assert (HA3 : 0 < A² * A) by (unfold Rsqr; repeat apply Rmult_lt_0_compat; exact HA).
  assert (Hk : 0 < k) by (unfold k; apply Rmult_lt_0_compat; [exact Hpn | apply Rmult_lt_0_compat; exact HA3]).
  assert (ES : halley_S 0 1 pn s0 s0 pn = k * s0).
  { unfold halley_S, halley_d0, halley_f0, halley_b0. fold A. unfold k, Rsqr. ring. }
  assert (EC : 1 * halley_C 0 1 pn s0 s0 pn = k * pn).
  { unfold halley_C, halley_d0, halley_f0, halley_b0. fold A. unfold k, Rsqr. ring. }
  rewrite ES, EC.
  assert (Hzz : Rabs z * Rabs z = z²) by (unfold Rsqr; rewrite <- Rabs_mult; apply Rabs_pos_eq; nra).
  assert (Er : r = a * A).
  { unfold r. apply sqrt_lem_1.
    - unfold Rsqr; nra.
    - nra.
    - replace (a * A * (a * A)) with (a * a * (A * A)) by ring. rewrite HAA. unfold pn, s0.
      replace (a * a * ((p / a)² + (Rabs z / a)²)) with (p * p + Rabs z * Rabs z) by (unfold Rsqr; field; lra).
      rewrite Hpp, Hzz. reflexivity. }
  f_equal; [f_equal|].
  - f_equal. f_equal. unfold s0, pn. field. split; lra.
  - replace (1 * (k * s0)² + (k * pn)²) with ((k * s0)² + (k * pn)²) by ring.
    rewrite sqrt_scale2 by lra. rewrite (Rplus_comm s0² pn²). fold A.
    rewrite Er. unfold pn, s0. 
    assert (G : p * (k * (p / a)) + Rabs z * (k * (Rabs z / a)) = k * a * (A * A)).
    { rewrite HAA. unfold pn, s0, Rsqr. field. lra. }
    rewrite G. field. split; lra.
Qed.

Lemma atan_abs_sign z p : 0 < p -> atan (Rabs z / p) * sign_R z = atan (z / p).
Proof.
  intros Hp. unfold sign_R. destruct (Rlt_dec 0 z) as [H|H].
  - rewrite Rabs_pos_eq by lra. ring.
  - destruct (Rlt_dec z 0) as [H'|H'].
    + rewrite Rabs_left by lra. replace (- z / p) with (- (z / p)) by (field; lra). rewrite atan_opp. ring.
    + assert (z = 0) by lra. subst z. unfold Rdiv. rewrite Rmult_0_l, atan_0. ring.
Qed.

Lemma trs2llh_exact_on_sphere_l a x y z : 0 < a -> ~ is_pole a x y ->
  let '(lat, lon, h) := trs2llh_R a 0 x y z in llh2trs_R a 0 lat lon h = (x, y, z).
Proof.
  intros Ha Hnp. rewrite (trs2llh_sphere a x y z Ha Hnp).
  unfold is_pole in Hnp.
  assert (Hp2 : 0 < x² + y²).
  { apply Rnot_le_lt in Hnp. pose proof Q2R_pole_pos. assert (0 <= a² * Q2R q_pole) by (unfold Rsqr; nra). lra. }
  set (p := sqrt (x² + y²)). set (r := sqrt (x² + y² + z²)).
  assert (Hp : 0 < p) by (apply sqrt_lt_R0; exact Hp2).
  assert (Hpp : p * p = x² + y²) by (apply sqrt_sqrt; lra).
  assert (Hr : 0 < r) by (apply sqrt_lt_R0; unfold Rsqr in *; nra).
  assert (Hrr : r * r = x² + y² + z²) by (apply sqrt_sqrt; unfold Rsqr in *; nra).
  rewrite atan_abs_sign by exact Hp.
  assert (Hq : sqrt (1 + (z / p)²) = r / p).
  { apply sqrt_lem_1.
    - unfold Rsqr. assert (0 <= z / p * (z / p)) by nra. lra.
    - apply Rlt_le, Rdiv_lt_0_compat; assumption.
    - replace (r / p * (r / p)) with (r * r / (p * p)) by (field; lra). rewrite Hrr, <- Hpp.
      unfold Rsqr. field. lra. }
  unfold llh2trs_R.
  rewrite cos_atan, sin_atan, Hq.
  replace ((1 - 0)²) with 1 by (unfold Rsqr; ring).
  assert (Hone : (1 / (r / p))² + 1 * (z / p / (r / p))² = 1).
  { unfold Rsqr. replace (1 / (r / p) * (1 / (r / p)) + 1 * (z / p / (r / p) * (z / p / (r / p))))
      with ((p * p + z * z) / (r * r)) by (field; split; lra).
    rewrite Hpp, Hrr. unfold Rsqr. field. unfold Rsqr in Hrr. nra. }
  rewrite Hone, sqrt_1.
  destruct (atan2_sin_cos x y) as [Hx Hy].
  { unfold Rsqr in Hp2. destruct (Req_dec x 0) as [E|E]; [right; intros E'; subst; lra | left; exact E]. }
  fold (Rsqr x) in Hx, Hy. fold (Rsqr y) in Hx, Hy. fold p in Hx, Hy.
  f_equal; [f_equal|].
  - rewrite Hx at 2. field. split; lra.
  - rewrite Hy at 2. field. split; lra.
  - field. split; lra.
Qed.
