(* C05 - proofs about the geodetic conversions (Model/C05_Geodetic.v). *)
From Coq Require Import Reals ZArith QArith Qreals List Bool Lra Lia String.
From Verif Require Import Lib.Dyadic Lib.Atan2 Lib.Ival Lib.C05_Prog Model.C05_Geodetic.
Import ListNotations.
Open Scope R_scope.

(* ---------------------------------------------------------------- the programs are the real-number model *)
Definition trs_envR (a f x y z : R) : nat -> R := env_R (prog_R [a; f; x; y; z] trs2llh_prog).
Definition llh_envR (a f lat lon h : R) : nat -> R := env_R (prog_R [a; f; lat; lon; h] llh2trs_prog).

Lemma trs2llh_prog_ok a f x y z :
  trs2llh_R a f x y z =
  if Rle_dec (trs_envR a f x y z 10%nat) (trs_envR a f x y z 30%nat)
  then (PI / 2 * sign_R z, trs_envR a f x y z 27%nat, trs_envR a f x y z 28%nat)
  else (trs_envR a f x y z 24%nat * sign_R z, trs_envR a f x y z 27%nat, trs_envR a f x y z 26%nat).
Proof. reflexivity. Qed.

Lemma llh2trs_prog_ok a f lat lon h :
  llh2trs_R a f lat lon h = (llh_envR a f lat lon h 12%nat, llh_envR a f lat lon h 13%nat, llh_envR a f lat lon h 14%nat).
Proof. reflexivity. Qed.

(* ---------------------------------------------------------------- ellipsoid parameters *)
Lemma ellipsoid_params_l a f : a <> 0 ->
  ell_b a f = a * (1 - f) /\ ell_e2 a f = 2 * f - f * f /\ (1 - f)² = 1 - ell_e2 a f.
Proof.
  intros Ha. unfold ell_e2, ell_b, Rsqr. repeat split; field; exact Ha.
Qed.

(* the table constants are positive and the flattenings are in [0, 1/100) *)
Definition ell_ok (e : String.string * Q * option Q) : bool :=
  let '(a, f) := ell_af e in Qlt_b 0 a && Qle_bool 0 f && Qlt_b f (1 # 100).
Lemma published_ok : forallb ell_ok published_ellipsoids = true.
Proof. vm_compute. reflexivity. Qed.

(* ---------------------------------------------------------------- llh2trs: the point at distance h on the normal *)
Definition normal (lat lon : R) : R * R * R := (cos lat * cos lon, cos lat * sin lon, sin lat).

Lemma sincos1 t : (cos t)² + (sin t)² = 1.
Proof. rewrite Rplus_comm. apply sin2_cos2. Qed.

Lemma llh2trs_on_normal_l a f lat lon h : 0 < a -> f <> 1 ->
  let '(px, py, pz) := llh2trs_R a f lat lon 0 in
  let '(nx, ny, nz) := normal lat lon in
  let b := ell_b a f in
  llh2trs_R a f lat lon h = (px + h * nx, py + h * ny, pz + h * nz)
  /\ px² / a² + py² / a² + pz² / b² = 1
  /\ exists k, 0 < k /\ (2 * px / a², 2 * py / a², 2 * pz / b²) = (k * nx, k * ny, k * nz).
Proof.
  intros Ha Hf. unfold llh2trs_R, normal, ell_b.
  set (cl := cos lat). set (sl := sin lat). set (co := cos lon). set (so := sin lon).
  set (w := (1 - f)²).
  assert (Hw : 0 < w) by (unfold w, Rsqr; nra).
  assert (Hcs : cl² + sl² = 1) by apply sincos1.
  assert (Hoo : co² + so² = 1) by apply sincos1.
  assert (HD : 0 < cl² + w * sl²).
  { unfold Rsqr in *. destruct (Req_dec sl 0) as [E|E]; [rewrite E in *; nra|].
    assert (0 < sl * sl) by nra. assert (0 <= cl * cl) by nra. nra. }
  set (D := cl² + w * sl²) in *.
  assert (HsD : 0 < sqrt D) by (apply sqrt_lt_R0; exact HD).
  assert (HDD : sqrt D * sqrt D = D) by (apply sqrt_sqrt; lra).
  set (sD := sqrt D) in *.
  assert (H1f : 1 - f <> 0) by lra.
  split; [|split].
  - f_equal; [f_equal|]; ring.
  - replace ((a / sD + 0) * cl * co)² with (a² * (cl² * co²) / D)
      by (unfold Rsqr; rewrite <- HDD; field; lra).
    replace ((a / sD + 0) * cl * so)² with (a² * (cl² * so²) / D)
      by (unfold Rsqr; rewrite <- HDD; field; lra).
    replace ((w * (a / sD) + 0) * sl)² with (a² * (w * w * sl²) / D)
      by (unfold Rsqr; rewrite <- HDD; field; lra).
    replace ((a * (1 - f))²) with (a² * w) by (unfold w, Rsqr; ring).
    assert (Ha2 : a² <> 0) by (unfold Rsqr; nra).
    replace (a² * (cl² * co²) / D / a² + a² * (cl² * so²) / D / a² + a² * (w * w * sl²) / D / (a² * w))
      with ((cl² * (co² + so²) + w * sl²) / D) by (field; repeat split; lra).
    rewrite Hoo, Rmult_1_r. fold D. field. lra.
  - exists (2 / (a * sD)). split.
    + apply Rdiv_lt_0_compat; [lra | nra].
    + replace ((a * (1 - f))²) with (a² * w) by (unfold w, Rsqr; ring).
      unfold Rsqr. f_equal; [f_equal|]; field; repeat split; try lra; unfold w, Rsqr in *; nra.
Qed.

(* ---------------------------------------------------------------- trs2llh: longitude, mirror symmetry, pole *)
Definition lat_of (t : R * R * R) : R := fst (fst t).
Definition lon_of (t : R * R * R) : R := snd (fst t).
Definition h_of (t : R * R * R) : R := snd t.

Lemma trs2llh_lon_l a f x y z :
  lon_of (trs2llh_R a f x y z) = atan2 y x
  /\ - PI < lon_of (trs2llh_R a f x y z) <= PI
  /\ (y = 0 -> x < 0 -> lon_of (trs2llh_R a f x y z) = PI)
  /\ (y = 0 -> 0 < x -> lon_of (trs2llh_R a f x y z) = 0).
Proof.
  assert (E : lon_of (trs2llh_R a f x y z) = atan2 y x).
  { unfold trs2llh_R, lon_of. destruct (Rle_dec _ _); reflexivity. }
  rewrite E. split; [reflexivity|]. split; [apply atan2_bound|]. split.
  - intros Hy Hx. subst y. rewrite atan2_neg_x_nonneg_y by lra.
    unfold Rdiv. rewrite Rmult_0_l, atan_0. lra.
  - intros Hy Hx. subst y. rewrite atan2_pos_x by lra. unfold Rdiv. rewrite Rmult_0_l. apply atan_0.
Qed.

Lemma sign_R_opp z : sign_R (- z) = - sign_R z.
Proof.
  unfold sign_R. destruct (Rlt_dec 0 (- z)), (Rlt_dec (- z) 0), (Rlt_dec 0 z), (Rlt_dec z 0); lra.
Qed.

Lemma trs2llh_mirror_l a f x y z :
  trs2llh_R a f x y (- z) =
  (- lat_of (trs2llh_R a f x y z), lon_of (trs2llh_R a f x y z), h_of (trs2llh_R a f x y z)).
Proof.
  unfold trs2llh_R, lat_of, lon_of, h_of. rewrite Rabs_Ropp, sign_R_opp.
  destruct (Rle_dec _ _); simpl; f_equal; f_equal; ring.
Qed.

Lemma trs2llh_pole_l a f x y z : is_pole a x y ->
  trs2llh_R a f x y z = (PI / 2 * sign_R z, atan2 y x, Rabs z - ell_b a f)
  /\ (0 < z -> lat_of (trs2llh_R a f x y z) = PI / 2)
  /\ (z < 0 -> lat_of (trs2llh_R a f x y z) = - (PI / 2)).
Proof.
  intros Hp. unfold is_pole in Hp.
  assert (E : trs2llh_R a f x y z = (PI / 2 * sign_R z, atan2 y x, Rabs z - ell_b a f)).
  { unfold trs2llh_R. destruct (Rle_dec _ _) as [_|N]; [reflexivity | contradiction]. }
  rewrite E. split; [reflexivity|]. unfold lat_of, sign_R; simpl. split; intros Hz.
  - destruct (Rlt_dec 0 z); [lra | contradiction].
  - destruct (Rlt_dec 0 z); [lra|]. destruct (Rlt_dec z 0); [lra | contradiction].
Qed.

(* on the equator the latitude is exactly 0 *)
Lemma trs2llh_equator_lat_l a f x y : lat_of (trs2llh_R a f x y 0) = 0.
Proof.
  unfold trs2llh_R, lat_of.
  assert (S0 : sign_R 0 = 0) by (unfold sign_R; destruct (Rlt_dec 0 0); lra).
  rewrite S0. destruct (Rle_dec _ _); simpl; ring.
Qed.

(* ---------------------------------------------------------------- the Halley step leaves the exact solution fixed *)
(* Fukushima's latitude equation in the tangent T = s / c of the reduced latitude:  pn T - zc - e2 T / sqrt (1 + T^2) = 0.
   If (s, c) solves it, the step returns the same tangent:  S / C = s / c   (stated without division). *)
Lemma halley_fixed_point_l e2 ec pn zc s c :
  let A := sqrt (c² + s²) in
  0 < A -> pn * s - zc * c - e2 * s * c / A = 0 ->
  halley_S e2 ec pn zc s c * c = halley_C e2 ec pn zc s c * s.
Proof.
  intros A HA Heq.
  assert (HAA : A * A = c² + s²).
  { unfold A. apply sqrt_sqrt. unfold Rsqr. nra. }
  unfold halley_S, halley_C, halley_d0, halley_f0, halley_b0. fold A.
  set (b0 := e2² * Q2R q_three_halves * s² * c² * pn * (A - ec)).
  set (d0 := zc * (A² * A) + e2 * (s² * s)).
  set (f0 := pn * (A² * A) - e2 * (c² * c)).
  assert (K : d0 * c - f0 * s = 0).
  { unfold d0, f0.
    assert (G : (zc * (A² * A) + e2 * (s² * s)) * c - (pn * (A² * A) - e2 * (c² * c)) * s
                = - (A² * A) * (pn * s - zc * c) + e2 * s * c * (c² + s²)) by (unfold Rsqr; ring).
    rewrite G. replace (pn * s - zc * c) with (e2 * s * c / A) by lra.
    rewrite <- HAA. unfold Rsqr. field. lra. }
  unfold Rsqr. replace (d0 * f0 - b0 * s) with (f0 * d0 - b0 * s) by ring.
  assert (H : d0 * c = f0 * s) by lra.
  replace ((f0 * d0 - b0 * s) * c) with (f0 * (d0 * c) - b0 * s * c) by ring. rewrite H. ring.
Qed.

(* ---------------------------------------------------------------- f = 0: the one-step algorithm is the exact inverse *)
Lemma sqrt_scale2 k u v : 0 <= k -> sqrt ((k * u)² + (k * v)²) = k * sqrt (u² + v²).
Proof.
  intros Hk. replace ((k * u)² + (k * v)²) with (k² * (u² + v²)) by (unfold Rsqr; ring).
  rewrite sqrt_mult_alt by apply Rle_0_sqr. rewrite sqrt_Rsqr by exact Hk. reflexivity.
Qed.

Lemma Q2R_pole_pos : 0 < Q2R q_pole.
Proof. unfold q_pole, Q2R; simpl. apply Rdiv_lt_0_compat; lra. Qed.

(* the sphere: e2 = 0, ec = 1 *)
Lemma sphere_params a : a <> 0 -> ell_b a 0 = a /\ ell_e2 a 0 = 0.
Proof. intros Ha. unfold ell_e2, ell_b, Rsqr. split; field; exact Ha. Qed.

Lemma trs2llh_sphere a x y z : 0 < a -> ~ is_pole a x y ->
  let p := sqrt (x² + y²) in
  let r := sqrt (x² + y² + z²) in
  trs2llh_R a 0 x y z = (atan (Rabs z / p) * sign_R z, atan2 y x, r - a).
Proof.
  intros Ha Hnp p r. unfold is_pole in Hnp.
  assert (Hp2 : 0 < x² + y²).
  { apply Rnot_le_lt in Hnp. pose proof Q2R_pole_pos. assert (0 <= a² * Q2R q_pole) by (unfold Rsqr; nra). lra. }
  assert (Hp : 0 < p) by (apply sqrt_lt_R0; exact Hp2).
  assert (Hpp : p * p = x² + y²) by (apply sqrt_sqrt; lra).
  unfold trs2llh_R. destruct (Rle_dec _ _) as [C|_]; [contradiction|].
  destruct (sphere_params a) as [Eb Ee]; [lra|]. rewrite Ee.
  replace (1 - 0) with 1 by ring. rewrite sqrt_1. fold p.
  set (s0 := Rabs z / a). set (pn := p / a).
  assert (Hpn : 0 < pn) by (apply Rdiv_lt_0_compat; assumption).
  assert (Hs0 : 0 <= s0) by (apply Rmult_le_pos; [apply Rabs_pos | left; apply Rinv_0_lt_compat; exact Ha]).
  replace (1 * s0) with s0 by ring. replace (1 * pn) with pn by ring.
  set (A := sqrt (pn² + s0²)).
  assert (HA : 0 < A) by (apply sqrt_lt_R0; unfold Rsqr; nra).
  assert (HAA : A * A = pn² + s0²) by (apply sqrt_sqrt; unfold Rsqr; nra).
  set (k := pn * ((A² * A) * (A² * A))).
  assert (HA3 : 0 < A² * A) by (unfold Rsqr; repeat apply Rmult_lt_0_compat; exact HA).
  assert (Hk : 0 < k) by (unfold k; apply Rmult_lt_0_compat; [exact Hpn | apply Rmult_lt_0_compat; exact HA3]).
  assert (ES : halley_S 0 1 pn s0 s0 pn = k * s0).
  { unfold halley_S, halley_d0, halley_f0, halley_b0. fold A. unfold k, Rsqr. ring. }
  assert (EC : 1 * halley_C 0 1 pn s0 s0 pn = k * pn).
  { unfold halley_C, halley_d0, halley_f0, halley_b0. fold A. unfold k, Rsqr. ring. }
  rewrite ES, EC.
  assert (Hzz : Rabs z * Rabs z = z²) by (unfold Rsqr; rewrite <- Rabs_mult; apply Rabs_pos_eq; nra).
  assert (Er : r = a * A).
  { unfold r. apply sqrt_lem_1.
    - unfold Rsqr; nra.
    - nra.
    - replace (a * A * (a * A)) with (a * a * (A * A)) by ring. rewrite HAA. unfold pn, s0.
      replace (a * a * ((p / a)² + (Rabs z / a)²)) with (p * p + Rabs z * Rabs z) by (unfold Rsqr; field; lra).
      rewrite Hpp, Hzz. reflexivity. }
  f_equal; [f_equal|].
  - f_equal. f_equal. unfold s0, pn. field. split; lra.
  - replace (1 * (k * s0)² + (k * pn)²) with ((k * s0)² + (k * pn)²) by ring.
    rewrite sqrt_scale2 by lra. rewrite (Rplus_comm s0² pn²). fold A.
    rewrite Er. unfold pn, s0. 
    assert (G : p * (k * (p / a)) + Rabs z * (k * (Rabs z / a)) = k * a * (A * A)).
    { rewrite HAA. unfold pn, s0, Rsqr. field. lra. }
    rewrite G. field. split; lra.
Qed.

Lemma atan_abs_sign z p : 0 < p -> atan (Rabs z / p) * sign_R z = atan (z / p).
Proof.
  intros Hp. unfold sign_R. destruct (Rlt_dec 0 z) as [H|H].
  - rewrite Rabs_pos_eq by lra. ring.
  - destruct (Rlt_dec z 0) as [H'|H'].
    + rewrite Rabs_left by lra. replace (- z / p) with (- (z / p)) by (field; lra). rewrite atan_opp. ring.
    + assert (z = 0) by lra. subst z. unfold Rdiv. rewrite Rmult_0_l, atan_0. ring.
Qed.

Lemma trs2llh_exact_on_sphere_l a x y z : 0 < a -> ~ is_pole a x y ->
  let '(lat, lon, h) := trs2llh_R a 0 x y z in llh2trs_R a 0 lat lon h = (x, y, z).
Proof.
  intros Ha Hnp. rewrite (trs2llh_sphere a x y z Ha Hnp).
  unfold is_pole in Hnp.
  assert (Hp2 : 0 < x² + y²).
  { apply Rnot_le_lt in Hnp. pose proof Q2R_pole_pos. assert (0 <= a² * Q2R q_pole) by (unfold Rsqr; nra). lra. }
  set (p := sqrt (x² + y²)). set (r := sqrt (x² + y² + z²)).
  assert (Hp : 0 < p) by (apply sqrt_lt_R0; exact Hp2).
  assert (Hpp : p * p = x² + y²) by (apply sqrt_sqrt; lra).
  assert (Hr : 0 < r) by (apply sqrt_lt_R0; unfold Rsqr in *; nra).
  assert (Hrr : r * r = x² + y² + z²) by (apply sqrt_sqrt; unfold Rsqr in *; nra).
  rewrite atan_abs_sign by exact Hp.
  assert (Hq : sqrt (1 + (z / p)²) = r / p).
  { apply sqrt_lem_1.
    - unfold Rsqr. assert (0 <= z / p * (z / p)) by nra. lra.
    - apply Rlt_le, Rdiv_lt_0_compat; assumption.
    - replace (r / p * (r / p)) with (r * r / (p * p)) by (field; lra). rewrite Hrr, <- Hpp.
      unfold Rsqr. field. lra. }
  unfold llh2trs_R.
  rewrite cos_atan, sin_atan, Hq.
  replace ((1 - 0)²) with 1 by (unfold Rsqr; ring).
  assert (Hone : (1 / (r / p))² + 1 * (z / p / (r / p))² = 1).
  { unfold Rsqr. replace (1 / (r / p) * (1 / (r / p)) + 1 * (z / p / (r / p) * (z / p / (r / p))))
      with ((p * p + z * z) / (r * r)) by (field; split; lra).
    rewrite Hpp, Hrr. unfold Rsqr. field. unfold Rsqr in Hrr. nra. }
  rewrite Hone, sqrt_1.
  destruct (atan2_sin_cos x y) as [Hx Hy].
  { unfold Rsqr in Hp2. destruct (Req_dec x 0) as [E|E]; [right; intros E'; subst; lra | left; exact E]. }
  fold (Rsqr x) in Hx, Hy. fold (Rsqr y) in Hx, Hy. fold p in Hx, Hy.
  f_equal; [f_equal|].
  - rewrite Hx at 2. field. split; lra.
  - rewrite Hy at 2. field. split; lra.
  - field. split; lra.
Qed.

(* ---------------------------------------------------------------- soundness of the correspondence checks *)
Definition tolR (r : R) : R := Q2R q_1em8 + Q2R q_ulps * r.

Lemma arc_close_sound envI envR e d r : Forall2 containsR envI envR -> arc_close envI e d r = true ->
  Rabs (eval_R (env_R envR) e - dyR d) * eval_R (env_R envR) r <= tolR (eval_R (env_R envR) r).
Proof. intros HF H. unfold arc_close in H. apply (chk_le_sound P envI envR _ _ HF) in H. exact H. Qed.

Lemma len_close_sound envI envR e d r : Forall2 containsR envI envR -> len_close envI e d r = true ->
  Rabs (eval_R (env_R envR) e - dyR d) <= tolR (eval_R (env_R envR) r).
Proof. intros HF H. unfold len_close in H. apply (chk_le_sound P envI envR _ _ HF) in H. exact H. Qed.

Lemma arc_close_mod2pi_sound envI envR e d r : Forall2 containsR envI envR -> arc_close_mod2pi envI e d r = true ->
  exists k : Z, (-1 <= k <= 1)%Z /\
    Rabs (eval_R (env_R envR) e + IZR k * (2 * PI) - dyR d) * eval_R (env_R envR) r <= tolR (eval_R (env_R envR) r).
Proof.
  intros HF H. unfold arc_close_mod2pi in H.
  apply orb_prop in H. destruct H as [H | H]; [apply orb_prop in H; destruct H as [H | H]|].
  - exists 0%Z. split; [lia|]. apply (arc_close_sound _ _ _ _ _ HF) in H.
    replace (eval_R (env_R envR) e + 0 * (2 * PI) - dyR d) with (eval_R (env_R envR) e - dyR d) by ring. exact H.
  - exists 1%Z. split; [lia|]. apply (arc_close_sound _ _ _ _ _ HF) in H. simpl in H.
    replace (eval_R (env_R envR) e + 1 * (2 * PI) - dyR d) with (eval_R (env_R envR) e + 2 * PI - dyR d) by ring. exact H.
  - exists (-1)%Z. split; [lia|]. apply (arc_close_sound _ _ _ _ _ HF) in H. simpl in H.
    replace (eval_R (env_R envR) e + -1 * (2 * PI) - dyR d) with (eval_R (env_R envR) e - 2 * PI - dyR d) by ring. exact H.
Qed.

Lemma pow2Q_pos e : (0 < pow2Q e)%Q.
Proof.
  unfold pow2Q. destruct (0 <=? e)%Z eqn:E.
  - apply Z.leb_le in E. unfold Qlt; simpl. pose proof (Z.pow_pos_nonneg 2 e). lia.
  - reflexivity.
Qed.

Lemma dyR_Dy m e : dyR (Dy m e) = IZR m * Q2R (pow2Q e).
Proof. unfold dyR, dyQ. rewrite Q2R_mult. f_equal. unfold Q2R; simpl. field. Qed.

Lemma dyR_DZero n : dyR (DZero n) = 0.
Proof. unfold dyR, dyQ. apply RMicromega.Q2R_0. Qed.

Lemma dy_sign_sound z s : dy_sign z = Some s ->
  (s = 0 \/ s = 1 \/ s = -1)%Z /\ sign_R (dyR z) = IZR s.
Proof.
  destruct z as [m e|n|n|]; simpl; try discriminate.
  - pose proof (pow2Q_pos e) as Hp. apply Qlt_Rlt in Hp. rewrite RMicromega.Q2R_0 in Hp.
    rewrite dyR_Dy. set (q := Q2R (pow2Q e)) in *. unfold sign_R.
    destruct (0 <? m)%Z eqn:E.
    + intros H. injection H as H. subst s. apply Z.ltb_lt in E. apply IZR_lt in E. split; [lia|].
      assert (0 < IZR m * q) by (apply Rmult_lt_0_compat; assumption).
      destruct (Rlt_dec 0 (IZR m * q)); [reflexivity | contradiction].
    + destruct (m <? 0)%Z eqn:E'; [|discriminate].
      intros H. injection H as H. subst s. apply Z.ltb_lt in E'. apply IZR_lt in E'. split; [lia|].
      assert (IZR m * q < 0) by nra.
      destruct (Rlt_dec 0 (IZR m * q)); [lra|]. destruct (Rlt_dec (IZR m * q) 0); [reflexivity | contradiction].
  - intros H. injection H as H. subst s. split; [lia|]. rewrite dyR_DZero. unfold sign_R.
    destruct (Rlt_dec 0 0); [lra|]. destruct (Rlt_dec 0 0); [lra | reflexivity].
Qed.

Lemma signed_eval env s e : (s = 0 \/ s = 1 \/ s = -1)%Z -> eval_R env (signed_ s e) = eval_R env e * IZR s.
Proof. intros [H | [H | H]]; subst s; simpl; ring. Qed.

Lemma is_zero_dy_sound d : is_zero_dy d = true -> dyR d = 0.
Proof. destruct d; try discriminate. intros _. apply dyR_DZero. Qed.

Definition inputs_R (qs : list Q) (ds : list dy) : list R := (map Q2R qs ++ map dyR ds)%list.

Lemma trs_env_contains a f x y z :
  Forall2 containsR (trs_env a f x y z) (prog_R [Q2R a; Q2R f; dyR x; dyR y; dyR z] trs2llh_prog).
Proof. apply prog_contains. exact (Forall2_inputs P [a; f] [x; y; z]). Qed.
Lemma llh_env_contains a f lat lon h :
  Forall2 containsR (llh_env a f lat lon h) (prog_R [Q2R a; Q2R f; dyR lat; dyR lon; dyR h] llh2trs_prog).
Proof. apply prog_contains. exact (Forall2_inputs P [a; f] [lat; lon; h]). Qed.

Lemma pole_branch_sound envI envR b : Forall2 containsR envI envR -> pole_branch envI = Some b ->
  if b then env_R envR 10 <= env_R envR 30 else env_R envR 30 < env_R envR 10.
Proof.
  intros HF. unfold pole_branch.
  destruct (chk_le P envI (v_ 10) (v_ 30)) eqn:E1.
  - intros H. injection H as H. subst b. exact (chk_le_sound P envI envR _ _ HF E1).
  - destruct (chk_lt P envI (v_ 30) (v_ 10)) eqn:E2; [|discriminate].
    intros H. injection H as H. subst b. exact (chk_lt_sound P envI envR _ _ HF E2).
Qed.

Lemma model_core (envI : list I.type) (envR : list R) (x y z lat lon h : dy) :
  Forall2 containsR envI envR ->
  model_trs2llh_env envI x y z lat lon h = 0%Z ->
  exists b : bool,
  (if b then env_R envR 10 <= env_R envR 30 else env_R envR 30 < env_R envR 10)
  /\ Rabs ((if b then PI / 2 else env_R envR 24) * sign_R (dyR z) - dyR lat) * env_R envR 29 <= tolR (env_R envR 29)
  /\ ((dyR x = 0 /\ dyR y = 0) \/
      exists k : Z, (-1 <= k <= 1)%Z /\
        Rabs (env_R envR 27 + IZR k * (2 * PI) - dyR lon) * env_R envR 29 <= tolR (env_R envR 29))
  /\ Rabs ((if b then env_R envR 28 else env_R envR 26) - dyR h) <= tolR (env_R envR 29).
Proof.
  intros HF H. unfold model_trs2llh_env in H.
  destruct (pole_branch envI) as [b|] eqn:EP; [|discriminate].
  destruct (dy_sign z) as [s|] eqn:ES; [|discriminate].
  destruct (arc_close envI (signed_ s (if b then EDiv EPi (EZ 2) else v_ 24)) lat (v_ 29)) eqn:E1; [|discriminate].
  destruct (is_zero_dy x && is_zero_dy y || arc_close_mod2pi envI (v_ 27) lon (v_ 29)) eqn:E2; [|discriminate].
  destruct (len_close envI (if b then v_ 28 else v_ 26) h (v_ 29)) eqn:E3; [|discriminate].
  clear H. exists b.
  destruct (dy_sign_sound z s ES) as [Hs Hsign].
  split; [exact (pole_branch_sound envI envR b HF EP)|].
  apply (arc_close_sound envI envR _ _ _ HF) in E1.
  apply (len_close_sound envI envR _ _ _ HF) in E3.
  rewrite (signed_eval _ _ _ Hs) in E1. rewrite Hsign.
  split; [|split].
  - destruct b; exact E1.
  - apply orb_prop in E2. destruct E2 as [E2 | E2].
    + left. apply andb_prop in E2. destruct E2. split; apply is_zero_dy_sound; assumption.
    + right. exact (arc_close_mod2pi_sound envI envR _ _ _ HF E2).
  - destruct b; exact E3.
Qed.

Lemma trs_envR_fold a f x y z n : env_R (prog_R [a; f; x; y; z] trs2llh_prog) n = trs_envR a f x y z n.
Proof. unfold trs_envR. reflexivity. Qed.
Lemma llh_envR_fold a f x y z n : env_R (prog_R [a; f; x; y; z] llh2trs_prog) n = llh_envR a f x y z n.
Proof. unfold llh_envR. reflexivity. Qed.

Lemma trs_env_r a f x y z : trs_envR a f x y z 29 = sqrt (x² + y² + z²).
Proof. reflexivity. Qed.

Lemma model_final (E : nat -> R) (sz r dlat dlon dh X Y : R) (b : bool) :
  (if b then E 10%nat <= E 30%nat else E 30%nat < E 10%nat)
  /\ Rabs ((if b then PI / 2 else E 24%nat) * sz - dlat) * r <= tolR r
  /\ ((X = 0 /\ Y = 0) \/
      exists k : Z, (-1 <= k <= 1)%Z /\ Rabs (E 27%nat + IZR k * (2 * PI) - dlon) * r <= tolR r)
  /\ Rabs ((if b then E 28%nat else E 26%nat) - dh) <= tolR r ->
  let t := if Rle_dec (E 10%nat) (E 30%nat) then (PI / 2 * sz, E 27%nat, E 28%nat)
           else (E 24%nat * sz, E 27%nat, E 26%nat) in
  Rabs (lat_of t - dlat) * r <= tolR r
  /\ ((X = 0 /\ Y = 0) \/
      exists k : Z, (-1 <= k <= 1)%Z /\ Rabs (lon_of t + IZR k * (2 * PI) - dlon) * r <= tolR r)
  /\ Rabs (h_of t - dh) <= tolR r.
Proof.
  intros [HB [G1 [G2 G3]]] t. unfold t.
  destruct b.
  - destruct (Rle_dec (E 10%nat) (E 30%nat)) as [_|N]; [|contradiction].
    unfold lat_of, lon_of, h_of; simpl fst; simpl snd. split; [exact G1|]. split; [exact G2 | exact G3].
  - destruct (Rle_dec (E 10%nat) (E 30%nat)) as [C|_]; [lra|].
    unfold lat_of, lon_of, h_of; simpl fst; simpl snd. split; [exact G1|]. split; [exact G2 | exact G3].
Qed.

Lemma model_trs2llh_unfold a f x y z lat lon h :
  model_trs2llh a f x y z lat lon h = model_trs2llh_env (trs_env a f x y z) x y z lat lon h.
Proof. reflexivity. Qed.

(* (i): verdict 0 of model_trs2llh bounds the distance of the implementation's doubles from trs2llh_R of the exact inputs *)
Theorem model_trs2llh_sound a f x y z lat lon h :
  model_trs2llh a f x y z lat lon h = 0%Z ->
  let t := trs2llh_R (Q2R a) (Q2R f) (dyR x) (dyR y) (dyR z) in
  let r := sqrt ((dyR x)² + (dyR y)² + (dyR z)²) in
  Rabs (lat_of t - dyR lat) * r <= tolR r
  /\ ((dyR x = 0 /\ dyR y = 0) \/
      exists k : Z, (-1 <= k <= 1)%Z /\ Rabs (lon_of t + IZR k * (2 * PI) - dyR lon) * r <= tolR r)
  /\ Rabs (h_of t - dyR h) <= tolR r.
Proof.
  intros H. rewrite model_trs2llh_unfold in H.
  destruct (model_core _ _ x y z lat lon h (trs_env_contains a f x y z) H) as [b G].
  rewrite (trs_envR_fold _ _ _ _ _ 10), (trs_envR_fold _ _ _ _ _ 30), (trs_envR_fold _ _ _ _ _ 24), (trs_envR_fold _ _ _ _ _ 27),
    (trs_envR_fold _ _ _ _ _ 28), (trs_envR_fold _ _ _ _ _ 26), (trs_envR_fold _ _ _ _ _ 29) in G.
  rewrite trs_env_r in G.
  rewrite trs2llh_prog_ok.
  exact (model_final _ _ _ _ _ _ _ _ b G).
Qed.

(* llh -> trs: every coordinate of the implementation against llh2trs_R of the exact inputs *)
Lemma model_llh2trs_core (envI : list I.type) (envR : list R) (x y z : dy) :
  Forall2 containsR envI envR -> model_llh2trs_env envI x y z = true ->
  let r := env_R envR 10 + Rabs (env_R envR 4) in
  Rabs (env_R envR 12 - dyR x) <= tolR r /\ Rabs (env_R envR 13 - dyR y) <= tolR r /\ Rabs (env_R envR 14 - dyR z) <= tolR r.
Proof.
  intros HF H. unfold model_llh2trs_env in H.
  apply andb_prop in H. destruct H as [H H3]. apply andb_prop in H. destruct H as [H1 H2].
  apply (len_close_sound envI envR _ _ _ HF) in H1.
  apply (len_close_sound envI envR _ _ _ HF) in H2.
  apply (len_close_sound envI envR _ _ _ HF) in H3.
  intros r. split; [exact H1 | split; [exact H2 | exact H3]].
Qed.

Lemma llh_env_ac a f lat lon h :
  llh_envR a f lat lon h 10 = a / sqrt ((cos lat)² + (1 - f)² * (sin lat)²) /\ llh_envR a f lat lon h 4 = h.
Proof. split; reflexivity. Qed.

Theorem model_llh2trs_sound a f lat lon h x y z :
  model_llh2trs_env (llh_env a f lat lon h) x y z = true ->
  let '(X, Y, Z) := llh2trs_R (Q2R a) (Q2R f) (dyR lat) (dyR lon) (dyR h) in
  let r := Q2R a / sqrt ((cos (dyR lat))² + (1 - Q2R f)² * (sin (dyR lat))²) + Rabs (dyR h) in
  Rabs (X - dyR x) <= tolR r /\ Rabs (Y - dyR y) <= tolR r /\ Rabs (Z - dyR z) <= tolR r.
Proof.
  intros H.
  pose proof (model_llh2trs_core _ _ x y z (llh_env_contains a f lat lon h) H) as G. cbv zeta in G.
  rewrite (llh_envR_fold _ _ _ _ _ 10), (llh_envR_fold _ _ _ _ _ 4), (llh_envR_fold _ _ _ _ _ 12),
    (llh_envR_fold _ _ _ _ _ 13), (llh_envR_fold _ _ _ _ _ 14) in G.
  destruct (llh_env_ac (Q2R a) (Q2R f) (dyR lat) (dyR lon) (dyR h)) as [E10 E4]. rewrite E10, E4 in G.
  rewrite llh2trs_prog_ok. exact G.
Qed.

(* (ii): the geometric certificate *)
Lemma geo_cert_core (envI : list I.type) (envR : list R) (x y z h : dy) :
  Forall2 containsR envI envR -> geo_cert_env envI x y z h = true ->
  exists tol, tol_geo h = Some tol /\
    sqrt ((env_R envR 12 - dyR x)² + (env_R envR 13 - dyR y)² + (env_R envR 14 - dyR z)²) <= Q2R tol.
Proof.
  intros HF H. unfold geo_cert_env in H. destruct (tol_geo h) as [tol|]; [|discriminate].
  exists tol. split; [reflexivity|]. exact (chk_le_sound P envI envR _ _ HF H).
Qed.

Lemma geo_cert_unfold a f x y z lat lon h :
  geo_cert a f x y z lat lon h = geo_cert_env (llh_env a f lat lon h) x y z h.
Proof. reflexivity. Qed.

Theorem geo_cert_sound_l a f x y z lat lon h :
  geo_cert a f x y z lat lon h = true ->
  let '(X, Y, Z) := llh2trs_R (Q2R a) (Q2R f) (dyR lat) (dyR lon) (dyR h) in
  exists tol, tol_geo h = Some tol /\
    sqrt ((X - dyR x)² + (Y - dyR y)² + (Z - dyR z)²) <= Q2R tol.
Proof.
  intros H. rewrite geo_cert_unfold in H.
  pose proof (geo_cert_core _ _ x y z h (llh_env_contains a f lat lon h) H) as G.
  rewrite (llh_envR_fold _ _ _ _ _ 12), (llh_envR_fold _ _ _ _ _ 13), (llh_envR_fold _ _ _ _ _ 14) in G.
  rewrite llh2trs_prog_ok. exact G.
Qed.

(* the tolerance of the certificate is the one of the property text *)
Lemma tol_geo_values h tol : tol_geo h = Some tol ->
  exists q, dy_toQ h = Some q /\ ((Qle q q_100km /\ tol = q_1em6) \/ (~ Qle q q_100km /\ tol = q_2mm)).
Proof.
  unfold tol_geo. destruct (dy_toQ h) as [q|]; [|discriminate]. intros H. injection H as H. exists q. split; [reflexivity|].
  destruct (Qle_bool q q_100km) eqn:E.
  - left. split; [apply Qle_bool_iff; exact E | symmetry; exact H].
  - right. split; [|symmetry; exact H]. intros C. apply Qle_bool_iff in C. congruence.
Qed.

(* ---------------------------------------------------------------- the verdicts of check_trs2llh / check_llh2trs *)
Definition close_to_model (a f : Q) (x y z lat lon h : dy) : Prop :=
  let t := trs2llh_R (Q2R a) (Q2R f) (dyR x) (dyR y) (dyR z) in
  let r := sqrt ((dyR x)² + (dyR y)² + (dyR z)²) in
  Rabs (lat_of t - dyR lat) * r <= tolR r
  /\ ((dyR x = 0 /\ dyR y = 0) \/
      exists k : Z, (-1 <= k <= 1)%Z /\ Rabs (lon_of t + IZR k * (2 * PI) - dyR lon) * r <= tolR r)
  /\ Rabs (h_of t - dyR h) <= tolR r.

Definition on_normal (a f : Q) (x y z lat lon h : dy) : Prop :=
  let '(X, Y, Z) := llh2trs_R (Q2R a) (Q2R f) (dyR lat) (dyR lon) (dyR h) in
  exists tol, tol_geo h = Some tol /\ sqrt ((X - dyR x)² + (Y - dyR y)² + (Z - dyR z)²) <= Q2R tol.

Definition llh2trs_close (a f : Q) (lat lon h x y z : dy) : Prop :=
  let '(X, Y, Z) := llh2trs_R (Q2R a) (Q2R f) (dyR lat) (dyR lon) (dyR h) in
  let r := Q2R a / sqrt ((cos (dyR lat))² + (1 - Q2R f)² * (sin (dyR lat))²) + Rabs (dyR h) in
  Rabs (X - dyR x) <= tolR r /\ Rabs (Y - dyR y) <= tolR r /\ Rabs (Z - dyR z) <= tolR r.

Lemma check_trs2llh_sound_l i xyz llh : check_trs2llh (i, xyz, llh) = 0%Z ->
  exists a f x y z lat lon h,
    ell_params i = Some (a, f) /\ xyz = [x; y; z] /\ llh = [lat; lon; h]
    /\ close_to_model a f x y z lat lon h /\ on_normal a f x y z lat lon h.
Proof.
  unfold check_trs2llh.
  destruct (ell_params i) as [[a f]|]; [|discriminate].
  destruct xyz as [|x [|y [|z [|? ?]]]]; try discriminate.
  destruct llh as [|lat [|lon [|h [|? ?]]]]; try discriminate.
  destruct (negb _); [discriminate|].
  destruct (model_trs2llh a f x y z lat lon h) eqn:EM; [|discriminate|discriminate].
  destruct (geo_cert a f x y z lat lon h) eqn:EG; [|discriminate].
  intros _. exists a, f, x, y, z, lat, lon, h.
  split; [reflexivity|]. split; [reflexivity|]. split; [reflexivity|]. split.
  - exact (model_trs2llh_sound a f x y z lat lon h EM).
  - exact (geo_cert_sound_l a f x y z lat lon h EG).
Qed.

Lemma check_llh2trs_sound_l i llh xyz : check_llh2trs (i, llh, xyz) = 0%Z ->
  exists a f lat lon h x y z,
    ell_params i = Some (a, f) /\ llh = [lat; lon; h] /\ xyz = [x; y; z] /\ llh2trs_close a f lat lon h x y z.
Proof.
  unfold check_llh2trs.
  destruct (ell_params i) as [[a f]|]; [|discriminate].
  destruct llh as [|lat [|lon [|h [|? ?]]]]; try discriminate.
  destruct xyz as [|x [|y [|z [|? ?]]]]; try discriminate.
  destruct (negb _); [discriminate|].
  destruct (model_llh2trs_env (llh_env a f lat lon h) x y z) eqn:EM; [|discriminate].
  intros _. exists a, f, lat, lon, h, x, y, z.
  split; [reflexivity|]. split; [reflexivity|]. split; [reflexivity|].
  exact (model_llh2trs_sound a f lat lon h x y z EM).
Qed.

(* ---------------------------------------------------------------- on the ellipsoid the start value of the code is the exact solution *)
(* normalised coordinates pn = p / a, s0 = |z| / a of a surface point: pn² + s0² / (1 - e2) = 1.  Then the start value
   (s0, c0 = ec pn) of _trs2llh solves the latitude equation, so (fixed point) the step returns tan(reduced latitude) = s0 / c0,
   i.e. the exact geodetic latitude tan(lat) = |z| / ((1 - e2) p). *)
Lemma halley_exact_on_surface_l e2 pn s0 :
  0 < 1 - e2 -> 0 < pn -> 0 <= s0 -> pn² + s0² / (1 - e2) = 1 ->
  let ec := sqrt (1 - e2) in
  halley_S e2 ec pn (ec * s0) s0 (ec * pn) * (ec * pn) = halley_C e2 ec pn (ec * s0) s0 (ec * pn) * s0.
Proof.
  intros Hec2 Hpn Hs0 Hsurf ec.
  assert (Hec : 0 < ec) by (apply sqrt_lt_R0; exact Hec2).
  assert (Hecc : ec * ec = 1 - e2) by (apply sqrt_sqrt; lra).
  assert (HA : sqrt ((ec * pn)² + s0²) = ec).
  { apply sqrt_lem_1; [unfold Rsqr; nra | lra |].
    rewrite Hecc. unfold Rsqr in *. replace (ec * pn * (ec * pn)) with ((ec * ec) * (pn * pn)) by ring. rewrite Hecc.
    assert (G : s0 * s0 = (1 - e2) * (1 - pn * pn)).
    { replace (1 - pn * pn) with (s0 * s0 / (1 - e2)) by lra. field. lra. }
    rewrite G. ring. }
  apply halley_fixed_point_l; rewrite HA.
  - exact Hec.
  - replace (ec * s0 * (ec * pn)) with ((ec * ec) * s0 * pn) by ring. rewrite Hecc. field. lra.
Qed.

(* ---------------------------------------------------------------- exact on the polar axis and in the equatorial plane, any height *)
Lemma is_pole_axis a : is_pole a 0 0.
Proof.
  unfold is_pole. pose proof Q2R_pole_pos. unfold Rsqr. assert (0 <= a * a) by nra. nra.
Qed.

Lemma trs2llh_exact_on_axis_l a f z : 0 < a -> f < 1 -> z <> 0 ->
  let '(lat, lon, h) := trs2llh_R a f 0 0 z in llh2trs_R a f lat lon h = (0, 0, z).
Proof.
  intros Ha Hf Hz.
  destruct (trs2llh_pole_l a f 0 0 z (is_pole_axis a)) as [E _]. rewrite E.
  unfold llh2trs_R, ell_b.
  assert (Hw : sqrt ((1 - f)²) = 1 - f) by (apply sqrt_Rsqr; lra).
  assert (Hs : (sign_R z = 1 /\ Rabs z = z) \/ (sign_R z = -1 /\ Rabs z = - z)).
  { unfold sign_R. destruct (Rlt_dec 0 z).
    - left. split; [reflexivity | apply Rabs_pos_eq; lra].
    - destruct (Rlt_dec z 0); [|lra]. right. split; [reflexivity | apply Rabs_left; lra]. }
  destruct Hs as [[S A] | [S A]]; rewrite S, A.
  - replace (PI / 2 * 1) with (PI / 2) by ring. rewrite cos_PI2, sin_PI2.
    replace (0² + (1 - f)² * 1²) with ((1 - f)²) by (unfold Rsqr; ring). rewrite Hw.
    f_equal; [f_equal|]; try ring. unfold Rsqr. field. lra.
  - replace (PI / 2 * -1) with (- (PI / 2)) by ring. rewrite cos_neg, sin_neg, cos_PI2, sin_PI2.
    replace (0² + (1 - f)² * (- (1))²) with ((1 - f)²) by (unfold Rsqr; ring). rewrite Hw.
    f_equal; [f_equal|]; try ring. unfold Rsqr. field. lra.
Qed.

Lemma trs2llh_exact_on_equator_l a f x y : 0 < a -> f < 1 -> ~ is_pole a x y ->
  sqrt (x² + y²) <> a * ell_e2 a f ->
  trs2llh_R a f x y 0 = (0, atan2 y x, sqrt (x² + y²) - a)
  /\ llh2trs_R a f 0 (atan2 y x) (sqrt (x² + y²) - a) = (x, y, 0).
Proof.
  intros Ha Hf Hnp Hne. unfold is_pole in Hnp.
  assert (Hp2 : 0 < x² + y²).
  { apply Rnot_le_lt in Hnp. pose proof Q2R_pole_pos. assert (0 <= a² * Q2R q_pole) by (unfold Rsqr; nra). lra. }
  set (p := sqrt (x² + y²)) in *.
  assert (Hp : 0 < p) by (apply sqrt_lt_R0; exact Hp2).
  split.
  - unfold trs2llh_R. destruct (Rle_dec _ _) as [C|_]; [contradiction|]. fold p.
    destruct (ellipsoid_params_l a f) as [_ [_ Hec2]]; [lra|].
    set (e2 := ell_e2 a f) in *.
    assert (Hec2' : 0 < 1 - e2) by (rewrite <- Hec2; unfold Rsqr; nra).
    set (ec := sqrt (1 - e2)).
    assert (Hec : 0 < ec) by (apply sqrt_lt_R0; exact Hec2').
    rewrite Rabs_R0. replace (0 / a) with 0 by (field; lra). replace (ec * 0) with 0 by ring.
    set (pn := p / a). assert (Hpn : 0 < pn) by (apply Rdiv_lt_0_compat; assumption).
    set (c0 := ec * pn). assert (Hc0 : 0 < c0) by (apply Rmult_lt_0_compat; assumption).
    assert (HA : sqrt (c0² + 0²) = c0).
    { replace (c0² + 0²) with (c0²) by (unfold Rsqr; ring). apply sqrt_Rsqr. lra. }
    assert (ES : halley_S e2 ec pn 0 0 c0 = 0).
    { unfold halley_S, halley_d0, halley_f0, halley_b0. rewrite HA. unfold Rsqr. ring. }
    assert (EC : halley_C e2 ec pn 0 0 c0 = (c0 * c0 * c0 * (pn - e2))²).
    { unfold halley_C, halley_d0, halley_f0, halley_b0. rewrite HA. unfold Rsqr. ring. }
    rewrite ES, EC.
    set (cc := ec * (c0 * c0 * c0 * (pn - e2))²).
    assert (Hpne : pn - e2 <> 0).
    { unfold pn. intros C. apply Hne. apply (Rmult_eq_reg_r (/ a)); [|apply Rinv_neq_0_compat; lra].
      replace (a * e2 * / a) with e2 by (field; lra). unfold Rdiv in C. lra. }
    assert (Hcc : 0 < cc).
    { unfold cc. apply Rmult_lt_0_compat; [exact Hec|]. apply Rsqr_pos_lt.
      assert (H3 : 0 < c0 * c0 * c0) by (apply Rmult_lt_0_compat; [apply Rmult_lt_0_compat|]; exact Hc0).
      apply Rmult_integral_contrapositive_currified; [apply Rgt_not_eq; exact H3 | exact Hpne]. }
    assert (S0 : sign_R 0 = 0) by (unfold sign_R; destruct (Rlt_dec 0 0); lra).
    rewrite S0.
    replace ((1 - e2) * 0² + cc²) with (cc²) by (unfold Rsqr; ring).
    replace (0² + cc²) with (cc²) by (unfold Rsqr; ring).
    rewrite sqrt_Rsqr by lra.
    f_equal; [f_equal; ring|]. field. lra.
  - unfold llh2trs_R. rewrite cos_0, sin_0.
    replace (1² + (1 - f)² * 0²) with 1 by (unfold Rsqr; ring). rewrite sqrt_1.
    destruct (atan2_sin_cos x y) as [Hx Hy].
    { unfold Rsqr in Hp2. destruct (Req_dec x 0) as [E|E]; [right; intros E'; subst; lra | left; exact E]. }
    fold (Rsqr x) in Hx, Hy. fold (Rsqr y) in Hx, Hy. fold p in Hx, Hy.
    f_equal; [f_equal|].
    + rewrite Hx at 2. field.
    + rewrite Hy at 2. field.
    + ring.
Qed.
