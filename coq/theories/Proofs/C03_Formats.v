(* C03 - soundness of the comparison of format bodies read from the source with to_jds / from_jds. *)
From Coq Require Import ZArith QArith Qabs Qround List Bool String Lia Lqa.
From Verif Require Import Lib.Dyadic Model.C03_TimeArith Model.C03_Formats.
Import ListNotations.
Open Scope Q_scope.

Lemma l2eqb_sound p q : l2eqb p q = true -> forall x y, l2eval p x y == l2eval q x y.
Proof.
  destruct p as [a b], q as [a' b']. unfold l2eqb, l2eval. cbn. intros H x y.
  apply andb_prop in H. destruct H as [H1 H2]. apply Qeq_bool_iff in H1. apply Qeq_bool_iff in H2.
  rewrite H1, H2. reflexivity.
Qed.

Lemma floors_eval_app l l' x y : floors_eval (l ++ l') x y == floors_eval l x y + floors_eval l' x y.
Proof.
  unfold floors_eval. induction l as [|t l IH]; cbn [app fold_right]; [rewrite Qplus_0_l; reflexivity|].
  rewrite IH. ring.
Qed.

Lemma floors_eval_scale k l x y :
  floors_eval (map (fun t => (k * fst t, snd t)) l) x y == k * floors_eval l x y.
Proof.
  unfold floors_eval. induction l as [|t l IH]; cbn [map fold_right fst snd]; [ring|].
  rewrite IH. ring.
Qed.

Lemma nf_add_eval m n x y : nf_eval (nf_add m n) x y == nf_eval m x y + nf_eval n x y.
Proof.
  unfold nf_eval, nf_add. cbn [nlin nfl]. rewrite floors_eval_app.
  destruct (nlin m), (nlin n). unfold l2add, l2eval. cbn. ring.
Qed.

Lemma nf_scale_eval k n x y : nf_eval (nf_scale k n) x y == k * nf_eval n x y.
Proof.
  unfold nf_eval, nf_scale. cbn [nlin nfl]. rewrite floors_eval_scale.
  destruct (nlin n). unfold l2scale, l2eval. cbn. ring.
Qed.

Lemma nf_of_sound e : forall n, nf_of e = Some n -> forall x y, feval e x y == nf_eval n x y.
Proof.
  induction e as [v|a IHa b IHb|a IHa b IHb|a IHa|nm d a IHa|a IHa|a IHa]; intros n H x y; cbn [nf_of feval] in *.
  - destruct v; inversion H; subst; unfold nf_eval, l2eval; cbn; ring.
  - destruct (nf_of a) as [m|]; [|discriminate]. destruct (nf_of b) as [m'|]; [|discriminate].
    inversion H; subst. rewrite nf_add_eval, (IHa m eq_refl), (IHb m' eq_refl). reflexivity.
  - destruct (nf_of a) as [m|]; [|discriminate]. destruct (nf_of b) as [m'|]; [|discriminate].
    inversion H; subst. rewrite nf_add_eval, nf_scale_eval, (IHa m eq_refl), (IHb m' eq_refl). lra.
  - destruct (nf_of a) as [m|]; [|discriminate]. inversion H; subst.
    rewrite nf_scale_eval, (IHa m eq_refl). lra.
  - destruct (nf_of a) as [m|]; [|discriminate]. inversion H; subst.
    rewrite nf_scale_eval, (IHa m eq_refl). ring.
  - destruct (nf_of a) as [m|]; [|discriminate]. destruct (nfl m) eqn:E; [|discriminate]. inversion H; subst.
    assert (A : feval a x y == l2eval (nlin m) x y).
    { rewrite (IHa m eq_refl). unfold nf_eval, floors_eval. rewrite E. cbn [fold_right]. ring. }
    unfold nf_eval, floors_eval. cbn [nlin nfl fst snd fold_right]. rewrite (Qfloor_comp _ _ A).
    unfold l2eval. cbn [fst snd]. ring.
  - destruct (nf_of a) as [m|]; [|discriminate]. inversion H; subst.
    rewrite nf_scale_eval, (IHa m eq_refl). ring.
Qed.

Lemma floors_same_atom l atom x y :
  forallb (fun t => l2eqb (snd t) atom) l = true ->
  floors_eval l x y == fold_right (fun t acc => fst t + acc) 0 l * inject_Z (Qfloor (l2eval atom x y)).
Proof.
  unfold floors_eval. induction l as [|t l IH]; cbn [forallb fold_right]; intros H; [ring|].
  apply andb_prop in H. destruct H as [H1 H2]. rewrite (IH H2).
  rewrite (Qfloor_comp _ _ (l2eqb_sound _ _ H1 x y)). ring.
Qed.

Lemma nf_is_sound n lin_s c_s atom_s :
  nf_is n lin_s c_s atom_s = true ->
  forall x y, nf_eval n x y == l2eval lin_s x y + c_s * inject_Z (Qfloor (l2eval atom_s x y)).
Proof.
  unfold nf_is. intros H x y. apply andb_prop in H. destruct H as [H H3]. apply andb_prop in H. destruct H as [H1 H2].
  unfold nf_eval. rewrite (l2eqb_sound _ _ H1), (floors_same_atom _ _ x y H2).
  apply Qeq_bool_iff in H3. rewrite H3. reflexivity.
Qed.

Lemma expr_is_sound e lin_s c_s atom_s :
  expr_is e lin_s c_s atom_s = true ->
  forall x y, feval e x y == l2eval lin_s x y + c_s * inject_Z (Qfloor (l2eval atom_s x y)).
Proof.
  unfold expr_is. intros H x y. apply andb_prop in H. destruct H as [_ H].
  destruct (nf_of e) as [n|] eqn:E; [|discriminate].
  rewrite (nf_of_sound e n E). apply nf_is_sound. exact H.
Qed.

Lemma unit_days_nonzero f : ~ unit_days f == 0.
Proof. destruct f; discriminate. Qed.

(* a format accepted by the checker computes to_jds / from_jds of the specification on all inputs, on every path *)
Lemma fmt_src_ok_sound fs :
  fmt_src_ok fs = true ->
  exists f, dfmt_of_name (fs_name fs) = Some f /\
    (forall e1 e2, In (e1, e2) (fs_to fs) -> forall v v2,
        feval e1 v v2 == jd1 (to_jds f v v2) /\ feval e2 v v2 == jd2 (to_jds f v v2)) /\
    (forall e, In e (fs_from fs) -> forall a b, feval e a b == from_jds f (mkJ a b)) /\
    fs_to fs <> [] /\ fs_from fs <> [].
Proof.
  unfold fmt_src_ok. destruct (dfmt_of_name (fs_name fs)) as [f|]; [|discriminate]. intros H.
  repeat (apply andb_prop in H; destruct H as [H ?]).
  exists f. split; [reflexivity|]. split; [|split; [|split]].
  - intros e1 e2 Hin v v2. rewrite forallb_forall in H1. specialize (H1 _ Hin). cbn [fst snd] in H1.
    apply andb_prop in H1. destruct H1 as [A B].
    pose proof (expr_is_sound _ _ _ _ A v v2) as A'. pose proof (expr_is_sound _ _ _ _ B v v2) as B'.
    unfold to_jds. cbn [jd1 jd2]. unfold l2eval in A', B'. cbn [fst snd] in A', B'.
    assert (E : unit_days f * v + unit_days f * v2 == (v + v2) * unit_days f) by ring.
    rewrite (Qfloor_comp _ _ E) in A', B'. split.
    + rewrite A'. ring.
    + rewrite B'. ring.
  - intros e Hin a b. rewrite forallb_forall in H0. specialize (H0 _ Hin).
    rewrite (expr_is_sound _ _ _ _ H0 a b). unfold from_jds, value, l2eval. cbn [fst snd jd1 jd2].
    field. apply unit_days_nonzero.
  - destruct (fs_to fs); [discriminate|]. discriminate.
  - destruct (fs_from fs); [discriminate|]. discriminate.
Qed.

Lemma fmt_srcs_ok_sound l :
  fmt_srcs_ok l = true ->
  (forall fs, In fs l -> fmt_src_ok fs = true) /\
  (forall name, In name ["days"; "jd"; "seconds"; "timedelta"]%string -> exists fs, In fs l /\ fs_name fs = name).
Proof.
  unfold fmt_srcs_ok. intros H. apply andb_prop in H. destruct H as [H1 H2]. split.
  - apply forallb_forall. exact H1.
  - intros name Hn. rewrite forallb_forall in H2. specialize (H2 _ Hn).
    apply existsb_exists in H2. destruct H2 as (fs & Hin & E). apply String.eqb_eq in E. exists fs. split; assumption.
Qed.

(* a wrong unit factor is rejected: seconds scaled with minute2day *)
Example wrong_factor_rejected :
  expr_is (FFloor (FAdd (FScale "minute2day" (Dy 6405119470038039 (-63)) (FVar V1)) (FScale "minute2day" (Dy 6405119470038039 (-63)) (FVar V2))))
          (0, 0) 1 (1 # 86400, 1 # 86400) = false.
Proof. vm_compute. reflexivity. Qed.
