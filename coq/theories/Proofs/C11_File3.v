(* Proofs/C11_File3.v - whole-file round trip for RINEX 3 (lemmas behind Props/C11.v) *)
From Coq Require Import Ascii String List Bool ZArith QArith Arith Lia.
From Verif Require Import Lib.Text Lib.Decimal Lib.Fixed Lib.Dyadic Model.C11_Rinex Model.C11_Check
     Spec.C11_RinexFormat Spec.C11_RinexFile Proofs.C11_Rinex.
From Verif Require Gen.C11_Rinex3ObsFields.
Import ListNotations.
Local Open Scope nat_scope.
Local Open Scope string_scope.

Module G3 := Gen.C11_Rinex3ObsFields.

(* ------------------------------------------------------------------------------------------ strings *)
Lemma rstrip_app_nonspace a b : nonspace a = true -> rstrip (a ++ b) = a ++ rstrip b.
Proof.
  induction a as [|c r IH]; intros H; [reflexivity|].
  unfold nonspace in H. cbn [all_by] in H. apply andb_prop in H. destruct H as [Hc Hr].
  change (String c r ++ b) with (String c (r ++ b)). unfold rstrip in *. cbn [rstrip_by]. rewrite (IH Hr).
  change (String c r ++ rstrip_by is_space b) with (String c (r ++ rstrip_by is_space b)).
  destruct (r ++ rstrip_by is_space b) eqn:E.
  - destruct (is_space c); [discriminate|reflexivity].
  - reflexivity.
Qed.

Lemma all_space_alt s : isspace s || String.eqb s "" = all_space s.
Proof. destruct s; [reflexivity|]. unfold isspace. rewrite orb_false_r. reflexivity. Qed.

Lemma strip_decomp s : exists a b, all_space a = true /\ all_space b = true /\ s = a ++ strip s ++ b.
Proof.
  destruct (rstrip_decomp s) as [w [Hw E]]. destruct (lstrip_decomp (rstrip s)) as [a [Ha E2]].
  exists a, w. repeat split; auto. unfold strip, strip_by. fold (rstrip s). fold (lstrip (rstrip s)).
  rewrite <- Text.app_assoc, <- E2. exact E.
Qed.

Lemma all_space_strip s : all_space (strip s) = all_space s.
Proof.
  destruct (strip_decomp s) as [a [b [Ha [Hb E]]]].
  rewrite E at 2. unfold all_space in *. rewrite !all_by_app, Ha, Hb, andb_true_r. reflexivity.
Qed.

Lemma float_nan_strip s : float_nan (strip s) = float_nan s.
Proof.
  unfold float_nan. rewrite !all_space_alt, all_space_strip. unfold parse_float. rewrite parse_float_strip. reflexivity.
Qed.

(* ------------------------------------------------------------------------------------------ pieces of a line *)
Fixpoint widths_ok (fs : list string) (ws : list nat) : Prop :=
  match fs, ws with
  | [], [] => True
  | f :: fr, w :: wr => len f = w /\ widths_ok fr wr
  | _, _ => False
  end.

Lemma offset_widths fs : forall ws i, widths_ok fs ws -> offset fs i = list_sum (firstn i ws).
Proof.
  induction fs as [|f r IH]; intros ws i W; destruct ws as [|w wr]; simpl in W; try contradiction.
  - destruct i; reflexivity.
  - destruct W as [Wf Wr]. destruct i; [reflexivity|]. cbn [offset firstn list_sum]. rewrite Wf, (IH wr i Wr). reflexivity.
Qed.

Lemma slice_piece fs ws i : widths_ok fs ws -> i < List.length fs ->
  slice (list_sum (firstn i ws)) (list_sum (firstn (S i) ws)) (cat fs) = nth i fs "".
Proof. intros W L. rewrite <- !(offset_widths fs ws _ W). apply slice_app_fields, L. Qed.

Lemma len_cat_widths fs ws : widths_ok fs ws -> len (cat fs) = list_sum ws.
Proof.
  revert ws; induction fs as [|f r IH]; intros [|w wr] W; simpl in W; try contradiction; [reflexivity|].
  destruct W as [Wf Wr]. cbn [cat list_sum]. rewrite len_app, Wf, (IH wr Wr). reflexivity.
Qed.

(* ------------------------------------------------------------------------------------------ digits *)
Lemma len_digits_fixed k v : len (digits_fixed k v) = k.
Proof. revert v; induction k; intros v; [reflexivity|]. cbn [digits_fixed]. rewrite len_app, IHk. simpl. lia. Qed.

Lemma is_digit_char d : (0 <= d < 10)%Z -> is_digit (digit_char d) = true.
Proof. intros H. apply digit_cases in H. repeat (destruct H as [H|H]; [subst; reflexivity|]). subst; reflexivity. Qed.

Lemma digits_all_digit k v : all_by is_digit (digits_fixed k v) = true.
Proof.
  revert v; induction k; intros v; [reflexivity|]. cbn [digits_fixed]. rewrite all_by_app, IHk. cbn [all_by andb].
  rewrite is_digit_char by apply mod10_range. reflexivity.
Qed.

Lemma isnumeric_render_nat v : isnumeric (render_nat v) = true.
Proof.
  unfold isnumeric, nonempty_all, render_nat. pose proof (ndigits_pos v) as P.
  pose proof (len_digits_fixed (ndigits v) v) as L. pose proof (digits_all_digit (ndigits v) v) as A.
  destruct (digits_fixed (ndigits v) v); [simpl in L; lia|exact A].
Qed.

Lemma parse_int_digits k v : 1 <= k -> (0 <= v < 10 ^ Z.of_nat k)%Z -> parse_int (digits_fixed k v) = Some v.
Proof.
  intros K V. unfold parse_int.
  assert (N : nonspace (digits_fixed k v) = true) by apply nonspace_digits.
  assert (T : strip (digits_fixed k v) = digits_fixed k v).
  { apply strip_trimmed, trimmed_token. pose proof (len_digits_fixed k v) as L.
    unfold is_token. destruct (digits_fixed k v); [simpl in L; lia|exact N]. }
  rewrite T, sign_split_head_ok by (apply head_ok_digits, K).
  rewrite <- (Text.app_nil_r (digits_fixed k v)), read_digits_fixed. cbn [read_digits].
  rewrite Z.mod_small by lia. destruct k; [lia|]. simpl. f_equal.
Qed.

Lemma int_field_parse zero w z : 1 <= w -> (0 <= z < 10 ^ Z.of_nat w)%Z -> parse_int (int_field zero w z) = Some z.
Proof. intros W Z0. destruct zero; unfold int_field; [apply parse_int_digits; auto|apply parse_render_int]. Qed.

Lemma len_render_int w z : fits_int w z -> len (render_int w z) = w.
Proof. intros F. unfold render_int. apply len_rjust, F. Qed.

Lemma fits_int_2 z : (0 <= z < 100)%Z -> fits_int 2 z.
Proof.
  intros H. unfold fits_int, sign_str. destruct (Z.ltb_spec z 0); [lia|]. rewrite Z.abs_eq by lia. cbn [append].
  unfold render_nat. rewrite len_digits_fixed. unfold ndigits.
  destruct (Z.ltb_spec z 10) as [A|A].
  - destruct (Z.to_nat (Z.log2 z + 1)); cbn [ndig_aux]; [lia|]. destruct (Z.ltb_spec z 10); lia.
  - assert (L : (3 <= Z.log2 z)%Z) by (apply Z.log2_le_pow2; lia).
    destruct (Z.to_nat (Z.log2 z + 1)) as [|[|f]] eqn:E; try lia. cbn [ndig_aux].
    destruct (Z.ltb_spec z 10); [lia|]. destruct (Z.ltb_spec (z / 10) 10) as [B|B]; [lia|].
    assert (z / 10 < 10)%Z by (apply Z.div_lt_upper_bound; lia). lia.
Qed.

Lemma len_int_field zero z : (0 <= z < 100)%Z -> len (int_field zero 2 z) = 2.
Proof. intros H. destruct zero; unfold int_field; [apply len_digits_fixed|apply len_render_int, fits_int_2, H]. Qed.

(* ------------------------------------------------------------------------------------------ RINEX 3 epoch record *)
Definition fF3 : list fieldspec := (v3_epoch_fields ++ [mkf "comment" 60 80])%list.
Definition fT3 : list fieldspec := [v3_sat_field; mkf "obs" v3_obs_start 4000].
Lemma table_true3 : table_find "True" G3.obs_table = Some ("_parse_observation", true, fT3).
Proof. reflexivity. Qed.
Lemma table_false3 : table_find "False" G3.obs_table = Some ("_parse_observation_epoch", false, fF3).
Proof. reflexivity. Qed.

Definition sec_of (t : epoch_t) : Q := (inject_Z (ep_h t * 3600 + ep_mi t * 60) + dec_value (ep_s7 t) 7)%Q.
Definition clk_val (d : nat) (c : option Z) : option Q :=
  match c with None => None | Some v => if (v =? 0)%Z then None else Some (dec_value v d) end.
Definition einfo3 (rate : option Q) (t : epoch_t) : einfo :=
  {| e_time := time_text (ep_y t) (ep_mo t) (ep_d t) (ep_h t) (ep_mi t) (dec_value (ep_s7 t) 7);
     e_sec := if on_grid rate (sec_of t) then Some (sec_of t) else None;
     e_flag := 0; e_clk := clk_val 12 (ep_clk t); e_num_sat := 0 |}.

Lemma strip_render_int_nonneg w z : (0 <= z)%Z -> strip (render_int w z) = render_nat z.
Proof.
  intros H. unfold render_int, sign_str. destruct (Z.ltb_spec z 0); [lia|]. rewrite Z.abs_eq by lia. cbn [append].
  apply strip_rjust_token; [|apply nonspace_digits].
  unfold render_nat. pose proof (len_digits_fixed (ndigits z) z) as L. pose proof (ndigits_pos z).
  intro E. rewrite E in L. simpl in L. lia.
Qed.

Definition ws3 : list nat := [1; 1; 4; 1; 2; 1; 2; 1; 2; 1; 2; 11; 2; 1; 3].

Lemma epoch3_widths t nsat : epoch_t_wf t -> fits_int 3 nsat ->
  widths_ok (epoch_pieces_v3 t nsat) (ws3 ++ match ep_clk t with None => [] | Some _ => [6; 15] end).
Proof.
  intros [Hy [Fy [Hmo [Hd [Hh [Hmi [Hs [Fs Fc]]]]]]]] Fn. unfold epoch_pieces_v3, ws3.
  destruct (ep_clk t) as [c|]; cbn [app widths_ok];
    rewrite (len_render_int 4 _ Fy), !len_int_field, (render_F_length 11 7 _ Fs), (len_render_int 3 _ Fn) by assumption;
    [rewrite (render_F_length 15 12 _ Fc)|]; repeat split; reflexivity.
Qed.

Lemma epoch3_slices t nsat : epoch_t_wf t -> fits_int 3 nsat ->
  let x := cat (epoch_pieces_v3 t nsat) in
  slice 2 6 x = render_int 4 (ep_y t) /\ slice 7 9 x = int_field (ep_zero t) 2 (ep_mo t) /\
  slice 10 12 x = int_field (ep_zero t) 2 (ep_d t) /\ slice 13 15 x = int_field (ep_zero t) 2 (ep_h t) /\
  slice 16 18 x = int_field (ep_zero t) 2 (ep_mi t) /\ slice 18 29 x = render_F 11 7 (ep_s7 t) /\
  slice 31 32 x = "0" /\ slice 32 35 x = render_int 3 nsat /\
  slice 41 56 x = match ep_clk t with None => "" | Some c => render_F 15 12 c end /\ slice 60 80 x = "".
Proof.
  intros W Fn x. pose proof (epoch3_widths t nsat W Fn) as Wd. pose proof (len_cat_widths _ _ Wd) as Lx.
  unfold x. set (ps := epoch_pieces_v3 t nsat) in *.
  assert (Lp : 15 <= List.length ps) by (unfold ps, epoch_pieces_v3; rewrite app_length; simpl; lia).
  set (ws := (ws3 ++ match ep_clk t with None => [] | Some _ => [6; 15] end)%list) in *.
  assert (P : forall i, i < 15 -> slice (list_sum (firstn i ws)) (list_sum (firstn (S i) ws)) (cat ps) = nth i ps "")
    by (intros i Hi; apply slice_piece; [exact Wd|lia]).
  assert (S15 : forall i, i <= 15 -> list_sum (firstn i ws) = list_sum (firstn i ws3)).
  { intros i Hi. unfold ws. rewrite firstn_app. replace (i - List.length ws3) with 0 by (simpl; lia).
    cbn [firstn]. rewrite List.app_nil_r. reflexivity. }
  repeat split.
  - pose proof (P 2 ltac:(lia)) as Q. rewrite !S15 in Q by lia. exact Q.
  - pose proof (P 4 ltac:(lia)) as Q. rewrite !S15 in Q by lia. exact Q.
  - pose proof (P 6 ltac:(lia)) as Q. rewrite !S15 in Q by lia. exact Q.
  - pose proof (P 8 ltac:(lia)) as Q. rewrite !S15 in Q by lia. exact Q.
  - pose proof (P 10 ltac:(lia)) as Q. rewrite !S15 in Q by lia. exact Q.
  - pose proof (P 11 ltac:(lia)) as Q. rewrite !S15 in Q by lia. exact Q.
  - pose proof (P 13 ltac:(lia)) as Q. rewrite !S15 in Q by lia. exact Q.
  - pose proof (P 14 ltac:(lia)) as Q. rewrite !S15 in Q by lia. exact Q.
  - unfold ws, ps, epoch_pieces_v3 in *. destruct (ep_clk t) as [c|].
    + exact (slice_piece _ _ 16 Wd ltac:(simpl; lia)).
    + apply slice_beyond. rewrite Lx. simpl. lia.
  - apply slice_beyond. rewrite Lx. unfold ws. destruct (ep_clk t); simpl; lia.
Qed.

Lemma lookup_strip_ok nm fs x v : lookup nm (parse_record fs x) = strip v -> lookup nm (parse_record fs x) = strip v.
Proof. auto. Qed.

Lemma v3_epoch_line rate t nsat s c : epoch_t_wf t -> fits_int 3 nsat ->
  v3_line rate G3.obs_table (render_epoch_v3 t nsat) s c =
  Some (s, {| c_epoch := Some (einfo3 rate t); c_sats := c_sats c; c_len := c_len c; c_acc := c_acc c |}).
Proof.
  intros W Fn. pose proof (epoch3_slices t nsat W Fn) as SL. cbv zeta in SL.
  destruct SL as [Sy [Smo [Sd [Sh [Smi [Ss [Sf [Sn [Sc Scm]]]]]]]]].
  destruct W as [Hy [Fy [Hmo [Hd [Hh [Hmi [Hs [Fs Fc]]]]]]]].
  unfold v3_line, render_epoch_v3. rewrite rstrip_maybe, table_true3, table_false3.
  set (x := cat (epoch_pieces_v3 t nsat)) in *.
  assert (Lb : v3_label (rstrip x) = false).
  { unfold x, epoch_pieces_v3. cbn [app cat]. rewrite (rstrip_app_nonspace ">") by reflexivity. reflexivity. }
  rewrite Lb. unfold fields_of. rewrite parse_record_rstrip.
  set (vals := parse_record fF3 x).
  assert (Ly : lookup "year" vals = strip (render_int 4 (ep_y t))) by (rewrite <- Sy; reflexivity).
  assert (Lmo : lookup "month" vals = strip (int_field (ep_zero t) 2 (ep_mo t))) by (rewrite <- Smo; reflexivity).
  assert (Ld : lookup "day" vals = strip (int_field (ep_zero t) 2 (ep_d t))) by (rewrite <- Sd; reflexivity).
  assert (Lh : lookup "hour" vals = strip (int_field (ep_zero t) 2 (ep_h t))) by (rewrite <- Sh; reflexivity).
  assert (Lmi : lookup "minute" vals = strip (int_field (ep_zero t) 2 (ep_mi t))) by (rewrite <- Smi; reflexivity).
  assert (Ls : lookup "second" vals = strip (render_F 11 7 (ep_s7 t))) by (rewrite <- Ss; reflexivity).
  assert (Lf : lookup "epoch_flag" vals = "0") by (change "0" with (strip "0"); rewrite <- Sf; reflexivity).
  assert (Lc : lookup "rcv_clk_offset" vals = strip (match ep_clk t with None => "" | Some c => render_F 15 12 c end))
    by (rewrite <- Sc; reflexivity).
  assert (Lcm : lookup "comment" vals = strip (slice 60 80 x)) by reflexivity.
  rewrite Scm in Lcm. change (strip "") with "" in Lcm.
  unfold v3_epoch, time_of. rewrite Ly, Lmo, Ld, Lh, Lmi, Ls, Lf, Lc, Lcm.
  rewrite strip_render_int_nonneg by assumption. rewrite isnumeric_render_nat.
  rewrite <- (strip_render_int_nonneg 4) by assumption.
  rewrite !parse_int_strip, parse_render_int, !int_field_parse by (try lia; simpl; lia).
  unfold parse_float. rewrite parse_float_strip. fold parse_float. rewrite parse_render_F, float_nan_strip.
  assert (Fn2 : float_nan (match ep_clk t with None => "" | Some c0 => render_F 15 12 c0 end) = Some (clk_val 12 (ep_clk t))).
  { destruct (ep_clk t); [apply float_nan_F|reflexivity]. }
  rewrite Fn2. reflexivity.
Qed.

(* ------------------------------------------------------------------------------------------ RINEX 3 observation record *)
Definition noalpha := all_by (fun c => negb (is_alpha c)).

Lemma noalpha_app a b : noalpha (a ++ b) = noalpha a && noalpha b.
Proof. apply all_by_app. Qed.

Lemma noalpha_digit d : (0 <= d < 10)%Z -> is_alpha (digit_char d) = false.
Proof. intros H. apply digit_cases in H. repeat (destruct H as [H|H]; [subst; reflexivity|]). subst; reflexivity. Qed.

Lemma noalpha_digits k v : noalpha (digits_fixed k v) = true.
Proof.
  revert v; induction k; intros v; [reflexivity|]. cbn [digits_fixed]. rewrite noalpha_app, IHk. unfold noalpha. cbn [all_by andb].
  rewrite noalpha_digit by apply mod10_range. reflexivity.
Qed.

Lemma noalpha_render_F w d m : noalpha (render_F w d m) = true.
Proof.
  unfold render_F, rjust, rjust_with. rewrite noalpha_app. unfold noalpha at 1. rewrite all_by_rep by reflexivity.
  unfold render_F_raw. rewrite !noalpha_app. unfold render_nat. rewrite noalpha_digits.
  unfold sign_str. destruct (m <? 0)%Z; cbn [andb]; (destruct d; [reflexivity|]); unfold frac_str; unfold noalpha; cbn [all_by andb];
    fold noalpha; rewrite noalpha_digits; reflexivity.
Qed.

Lemma noalpha_flag f : flag_ok f -> noalpha (flag_char f) = true.
Proof.
  destruct f as [d|]; intros H; [|reflexivity]. unfold flag_char, noalpha. cbn [all_by]. cbn [flag_ok] in H.
  rewrite noalpha_digit by lia. reflexivity.
Qed.

Lemma noalpha_cell c : cell_wf c -> noalpha (render_cell c) = true.
Proof.
  intros [_ [Hl Hs]]. unfold render_cell. rewrite !noalpha_app, (noalpha_flag _ Hl), (noalpha_flag _ Hs), !andb_true_r.
  destruct (cv c); cbn [value_text]; [unfold noalpha; apply all_by_rep; reflexivity | apply noalpha_render_F | apply noalpha_render_F].
Qed.

Lemma noalpha_cells cs : Forall cell_wf cs -> noalpha (cat (map render_cell cs)) = true.
Proof. induction 1; simpl; auto. rewrite noalpha_app, noalpha_cell, IHForall; auto. Qed.

Lemma noalpha_rstrip s : noalpha s = true -> noalpha (rstrip s) = true.
Proof.
  intros H. destruct (rstrip_decomp s) as [w [_ E]]. rewrite E in H. rewrite noalpha_app in H. apply andb_prop in H. tauto.
Qed.

Lemma noalpha_char_at i s : noalpha s = true -> isalpha (char_at i s) = false.
Proof.
  intros H. unfold char_at. assert (N : noalpha (slice i (i + 1) s) = true) by (unfold slice; apply all_by_take, all_by_drop, H).
  destruct (slice i (i + 1) s) as [|c r]; [reflexivity|]. unfold noalpha in N. cbn [all_by] in N. apply andb_prop in N.
  destruct N as [N _]. unfold isalpha, nonempty_all. cbn [all_by]. destruct (is_alpha c); [discriminate|reflexivity].
Qed.

Lemma assoc_in_nodup {A} k (v : A) l : NoDup (map fst l) -> In (k, v) l -> assoc k l = Some v.
Proof.
  induction l as [|[k' v'] r IH]; intros N I; [contradiction|]. cbn [assoc]. inversion N as [|? ? Nk Nr]; subst.
  destruct I as [I|I].
  - inversion I; subst. rewrite String.eqb_refl. reflexivity.
  - destruct (String.eqb_spec k' k) as [E|E].
    + subst. exfalso. apply Nk. apply (in_map fst) in I. exact I.
    + apply IH; auto.
Qed.

Lemma upper_facts a : 65 <= nat_of_ascii a <= 90 -> is_space a = false /\ is_alpha a = true.
Proof.
  intros H.
  assert (T : forallb (fun n => negb (Nat.leb 65 n && Nat.leb n 90) || (negb (is_space (ascii_of_nat n)) && is_alpha (ascii_of_nat n))) (seq 0 256) = true)
    by (vm_compute; reflexivity).
  rewrite forallb_forall in T. specialize (T (nat_of_ascii a)).
  rewrite ascii_nat_embedding in T.
  assert (I : In (nat_of_ascii a) (seq 0 256)) by (apply in_seq; pose proof (nat_ascii_bounded a); lia).
  specialize (T I). destruct H as [H1 H2]. apply Nat.leb_le in H1, H2. rewrite H1, H2 in T. simpl in T.
  apply andb_prop in T. destruct T as [T1 T2]. split; [destruct (is_space a); [discriminate|reflexivity]|exact T2].
Qed.

Definition add_row (s : st) (r : row) : st :=
  {| meta := meta s; pos := pos s; types_all := types_all s; num_types := num_types s; sys_types := sys_types s;
     hsys := hsys s; rows := r :: rows s |}.

Definition row3 (mk : string) (ts all : list string) (e : einfo) (sa : sat3) : row :=
  {| r_time := e_time e; r_flag := e_flag e; r_clk := e_clk e; r_station := lower mk;
     r_sys := take 1 (s3_id sa); r_sat := s3_id sa; r_satnum_s := slice 1 3 (s3_id sa); r_satnum_z := 0;
     r_vals := (combine ts (map cell_val (s3_cells sa)) ++ map (fun t => (t, absent)) (filter (fun t => negb (mem_str t ts)) all))%list |}.

Definition types_for (st : list (string * list string)) (sa : sat3) : list string :=
  match assoc (take 1 (s3_id sa)) st with Some l => l | None => [] end.

Lemma v3_sat_line rate s c sa e mk : sat3_ok (sys_types s) sa -> NoDup (map fst (sys_types s)) ->
  Forall (fun p => List.length (snd p) < 240) (sys_types s) ->
  c_epoch c = Some e -> meta_str "marker_name" s = Some mk ->
  v3_line rate G3.obs_table (render_sat_v3 sa) s c =
  Some (match e_sec e with
        | Some _ => add_row s (row3 mk (types_for (sys_types s) sa) (types_all s) e sa)
        | None => s end, c).
Proof.
  intros [[a [b [d [Eid [[ts [Its Lts]] [Ha [Hb Hd]]]]]]] Fc] ND L240 Ce Mk.
  assert (As : assoc (String a "") (sys_types s) = Some ts) by (apply assoc_in_nodup; auto).
  assert (Lt : List.length ts < 240) by (apply (proj1 (Forall_forall _ _) L240 _ Its)).
  unfold v3_line, render_sat_v3. rewrite rstrip_maybe, table_true3, table_false3.
  set (body := cat (map render_cell (s3_cells sa))).
  destruct (upper_facts a Ha) as [Sa Aa].
  assert (Nid : nonspace (s3_id sa) = true).
  { rewrite Eid. unfold nonspace. cbn [all_by]. rewrite Sa, Hb, Hd. reflexivity. }
  rewrite rstrip_app_nonspace by exact Nid. set (rb := rstrip body).
  assert (Nb : noalpha body = true) by (apply noalpha_cells, Fc).
  assert (Nrb : noalpha rb = true) by (apply noalpha_rstrip, Nb).
  assert (Bb : blank_ws body = true) by (apply blank_ws_cells, Fc).
  assert (Brb : blank_ws rb = true) by (apply blank_ws_rstrip, Bb).
  assert (Lrb : len rb <= 3997).
  { destruct (rstrip_decomp body) as [w [_ E]]. fold rb in E. pose proof (len_cells _ Fc) as LB. fold body in LB.
    rewrite E, len_app in LB. lia. }
  assert (Lab : v3_label (s3_id sa ++ rb) = true).
  { unfold v3_label. rewrite Eid.
    assert (C0 : isalpha (char_at 0 (String a (String b (String d "")) ++ rb)) = true).
    { cbn. rewrite Aa. reflexivity. }
    assert (C1 : startswith ">" (String a (String b (String d "")) ++ rb) = false).
    { change (String a (String b (String d "")) ++ rb) with (String a (String b (String d rb))).
      cbn [startswith]. destruct (Ascii.eqb_spec ">"%char a) as [E|E]; [|reflexivity]. subst a. change (nat_of_ascii ">") with 62 in Ha. lia. }
    assert (C2 : isalpha (char_at 60 (String a (String b (String d "")) ++ rb)) = false).
    { unfold char_at. change 60 with (len (String a (String b (String d ""))) + 57).
      change (len (String a (String b (String d ""))) + 57 + 1) with (len (String a (String b (String d ""))) + 58).
      rewrite slice_app_shift. apply (noalpha_char_at 57 rb Nrb). }
    rewrite C0, C1, C2. reflexivity. }
  rewrite Lab. unfold fields_of.
  set (vals := parse_record_by is_nl fT3 (s3_id sa ++ rb)).
  assert (Ls : lookup "sat" vals = s3_id sa).
  { transitivity (strip_nl (slice 0 3 (s3_id sa ++ rb))); [reflexivity|].
    replace 3 with (len (s3_id sa)) by (rewrite Eid; reflexivity). rewrite slice_0_len.
    apply strip_nl_id, nonspace_blank_ws, Nid. }
  assert (Lo : lookup "obs" vals = rb).
  { transitivity (strip_nl (slice 3 4000 (s3_id sa ++ rb))); [reflexivity|].
    pose proof (slice_app_shift (s3_id sa) 0 3997 rb) as P. rewrite Eid in P at 1 2.
    change (len (String a (String b (String d ""))) + 0) with 3 in P.
    change (len (String a (String b (String d ""))) + 3997) with 4000 in P. rewrite P.
    unfold slice. rewrite drop_0, take_all by lia. apply strip_nl_id, Brb. }
  unfold v3_obs. rewrite Ce, Ls, Lo, Mk.
  destruct (e_sec e); [|reflexivity].
  assert (T1 : take 1 (s3_id sa) = String a "") by (rewrite Eid; reflexivity).
  rewrite T1, As.
  assert (RT : v3_cells (List.length ts) rb = Some (map cell_val (s3_cells sa))).
  { rewrite <- Lts. apply (obs_line_roundtrip_v3_l true _ Fc). }
  rewrite RT. unfold add_row, row3, types_for. rewrite T1, As. reflexivity.
Qed.

(* ------------------------------------------------------------------------------------------ the chain of observation groups *)
Lemma run_obs_cons_any step endm l rest s c s1 c1 R :
  step l s c = Some (s1, c1) -> (forall c', run_obs step endm rest s1 c' = R) -> run_obs step endm (l :: rest) s c = R.
Proof.
  intros H K. cbn [run_obs]. rewrite H. destruct rest as [|nxt tl]; [exact (K c1)|apply K].
Qed.

Lemma run_obs_cons_keep step endm l nxt tl s c s1 c1 :
  step l s c = Some (s1, c1) -> endm (nxt ++ String "010"%char "") = false ->
  run_obs step endm (l :: nxt :: tl) s c = run_obs step endm (nxt :: tl) s1 c1.
Proof. intros H E. cbn [run_obs]. rewrite H, E. reflexivity. Qed.

Definition add_rows (s : st) (rs : list row) : st := fold_left add_row rs s.

Lemma rows_add_rows rs : forall s, rows (add_rows s rs) = (rev rs ++ rows s)%list.
Proof.
  induction rs as [|r rs IH]; intros s; [reflexivity|]. cbn [add_rows fold_left]. fold (add_rows (add_row s r) rs).
  rewrite IH. cbn [rev add_row rows]. rewrite <- List.app_assoc. reflexivity.
Qed.

Lemma add_rows_fields rs : forall s, meta (add_rows s rs) = meta s /\ pos (add_rows s rs) = pos s /\
  types_all (add_rows s rs) = types_all s /\ sys_types (add_rows s rs) = sys_types s.
Proof. induction rs as [|r rs IH]; intros s; [repeat split|]. apply (IH (add_row s r)). Qed.

Lemma add_rows_app s a b : add_rows s (a ++ b) = add_rows (add_rows s a) b.
Proof. unfold add_rows. apply fold_left_app. Qed.

Section Body3.
  Variable rate : option Q.
  Variable stt : list (string * list string).
  Variable all : list string.
  Variable mk : string.
  Hypothesis ND : NoDup (map fst stt).
  Hypothesis L240 : Forall (fun p : string * list string => List.length (snd p) < 240) stt.

  Definition inv3 (s : st) : Prop := meta_str "marker_name" s = Some mk /\ sys_types s = stt /\ types_all s = all.

  Lemma inv3_add_row s r : inv3 s -> inv3 (add_row s r).
  Proof. intros H. exact H. Qed.
  Lemma inv3_add_rows rs : forall s, inv3 s -> inv3 (add_rows s rs).
  Proof. induction rs; intros s H; [exact H|]. apply IHrs, inv3_add_row, H. Qed.

  Definition sat_rows (e : einfo) (sats : list sat3) : list row :=
    match e_sec e with
    | Some _ => map (fun sa => row3 mk (types_for stt sa) all e sa) sats
    | None => []
    end.
  Definition epoch_rows (e : epoch3) : list row := sat_rows (einfo3 rate (e3_t e)) (e3_sats e).
  Definition body_rows (es : list epoch3) : list row := concat (map epoch_rows es).

  Lemma sat_not_marker sa : sat3_ok stt sa -> v3_end_marker (render_sat_v3 sa ++ String "010"%char "") = false.
  Proof.
    intros [[a [b [d [Eid [_ [Ha [Hb Hd]]]]]]] _]. destruct (upper_facts a Ha) as [Sa _].
    unfold v3_end_marker, render_sat_v3.
    assert (N : nonspace (s3_id sa) = true) by (rewrite Eid; unfold nonspace; cbn [all_by]; rewrite Sa, Hb, Hd; reflexivity).
    assert (E : exists y, maybe_rstrip (s3_cut sa) (s3_id sa ++ cat (map render_cell (s3_cells sa))) = String a y).
    { destruct (s3_cut sa); cbn [maybe_rstrip]; [rewrite rstrip_app_nonspace by exact N|]; rewrite Eid; eexists; reflexivity. }
    destruct E as [y ->]. change (String a y ++ String "010"%char "") with (String a (y ++ String "010"%char "")).
    cbn [startswith]. destruct (Ascii.eqb_spec ">"%char a) as [E|E]; [|reflexivity]. subst a.
    change (nat_of_ascii ">") with 62 in Ha. lia.
  Qed.

  Lemma sats_run (e : einfo) es
        (IH : forall s c, inv3 s -> run_obs (v3_line rate G3.obs_table) v3_end_marker (render_body_v3 es) s c
                                     = Some (add_rows s (body_rows es))) :
    forall sats s c, inv3 s -> c_epoch c = Some e -> Forall (sat3_ok stt) sats ->
      run_obs (v3_line rate G3.obs_table) v3_end_marker (map render_sat_v3 sats ++ render_body_v3 es)%list s c
      = Some (add_rows (add_rows s (sat_rows e sats)) (body_rows es)).
  Proof.
    induction sats as [|sa r IHs]; intros s c I Ce F.
    - cbn [map app]. unfold sat_rows. destruct (e_sec e); apply IH, I.
    - inversion F as [|? ? Fa Fr]; subst. destruct I as [I1 [I2 I3]].
      assert (Fa' : sat3_ok (sys_types s) sa) by (rewrite I2; exact Fa).
      pose proof (v3_sat_line rate s c sa e mk Fa' ltac:(rewrite I2; exact ND) ltac:(rewrite I2; exact L240) Ce I1) as St.
      rewrite I2, I3 in St.
      set (s1 := match e_sec e with Some _ => add_row s (row3 mk (types_for stt sa) all e sa) | None => s end) in *.
      assert (I' : inv3 s1) by (unfold s1; destruct (e_sec e); repeat split; assumption).
      assert (R : add_rows s (sat_rows e (sa :: r)) = add_rows s1 (sat_rows e r))
        by (unfold sat_rows, s1; destruct (e_sec e); reflexivity).
      rewrite R. cbn [map app]. destruct r as [|sb r'].
      + cbn [map app]. apply (run_obs_cons_any _ _ _ _ _ _ _ _ _ St). intros c'.
        assert (Z0 : add_rows s1 (sat_rows e []) = s1) by (unfold sat_rows; destruct (e_sec e); reflexivity).
        rewrite Z0. apply IH, I'.
      + cbn [map app]. rewrite (run_obs_cons_keep _ _ _ _ _ _ _ _ _ St); [|apply sat_not_marker; inversion Fr; assumption].
        apply (IHs s1 c I' Ce Fr).
  Qed.

  Lemma body3_run : forall es s c, inv3 s -> Forall (epoch3_ok stt) es ->
    run_obs (v3_line rate G3.obs_table) v3_end_marker (render_body_v3 es) s c = Some (add_rows s (body_rows es)).
  Proof.
    induction es as [|e es IH]; intros s c I F; [reflexivity|].
    inversion F as [|? ? [Wt [Fn Fs]] Fr]; subst.
    assert (IH' : forall s c, inv3 s -> run_obs (v3_line rate G3.obs_table) v3_end_marker (render_body_v3 es) s c
                                        = Some (add_rows s (body_rows es))) by (intros; apply IH; assumption).
    unfold render_body_v3. cbn [map concat]. fold (render_body_v3 es). unfold render_epoch3. cbn [app].
    pose proof (v3_epoch_line rate (e3_t e) (Z.of_nat (List.length (e3_sats e))) s c Wt Fn) as St.
    set (c1 := {| c_epoch := Some (einfo3 rate (e3_t e)); c_sats := c_sats c; c_len := c_len c; c_acc := c_acc c |}) in *.
    unfold body_rows. cbn [map concat]. fold (body_rows es). rewrite add_rows_app. unfold epoch_rows.
    destruct (e3_sats e) as [|sa r] eqn:Es.
    - cbn [map app]. apply (run_obs_cons_any _ _ _ _ _ _ _ _ _ St). intros c'.
      assert (Z0 : add_rows s (sat_rows (einfo3 rate (e3_t e)) []) = s)
        by (unfold sat_rows; destruct (e_sec (einfo3 rate (e3_t e))); reflexivity).
      rewrite Z0. apply IH', I.
    - cbn [map app]. rewrite (run_obs_cons_keep _ _ _ _ _ _ _ _ _ St); [|apply sat_not_marker; inversion Fs; assumption].
      apply (sats_run (einfo3 rate (e3_t e)) es IH' (sa :: r) s c1 I eq_refl Fs).
  Qed.
End Body3.
